//go:build verif

package main

func verifAtlas() {}
