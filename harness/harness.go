//go:build verif

// Verification harness for anonymongo. This file lives in /verif/harness and is
// compiled INTO package main of /repo through `go build -tags verif -overlay`.
// No file is added to /repo. When VERIF_HARNESS is unset the binary is the real CLI.
package main

import (
	"crypto/sha256"
	"bufio"
	"bytes"
	"compress/gzip"
	"encoding/base64"
	"encoding/hex"
	"encoding/json"
	"errors"
	"fmt"
	"io"
	"net/http"
	"net/url"
	"os"
	"sort"
	"strconv"
	"strings"

	"github.com/elliotchance/orderedmap/v3"
)

func init() {
	if ep := os.Getenv("VERIF_ATLAS_ENDPOINT"); ep != "" {
		// Whole-CLI Atlas runs: re-target the hard-wired Atlas base URL to a local fake.
		u, err := url.Parse(ep)
		if err == nil {
			base := http.DefaultTransport
			http.DefaultTransport = &verifRetarget{base: base, to: u}
		}
	}
	mode := os.Getenv("VERIF_HARNESS")
	if mode == "" {
		return
	}
	switch mode {
	case "tables":
		verifDumpTables()
	case "exec":
		verifExec()
	case "atlas":
		verifAtlas()
	default:
		fmt.Fprintln(os.Stderr, "unknown VERIF_HARNESS mode", mode)
		os.Exit(3)
	}
	os.Exit(0)
}

type verifRetarget struct {
	base http.RoundTripper
	to   *url.URL
}

func (t *verifRetarget) RoundTrip(req *http.Request) (*http.Response, error) {
	if req.URL.Host == "cloud.mongodb.com" {
		r2 := req.Clone(req.Context())
		r2.URL.Scheme = t.to.Scheme
		r2.URL.Host = t.to.Host
		r2.Host = t.to.Host
		return t.base.RoundTrip(r2)
	}
	return t.base.RoundTrip(req)
}

// ---------------------------------------------------------------- T-format (trees)

func hx(s string) string { return hex.EncodeToString([]byte(s)) }
func unhx(s string) string {
	b, err := hex.DecodeString(s)
	if err != nil {
		panic("bad hex: " + s)
	}
	return string(b)
}

func verifEnc(sb *strings.Builder, v any) {
	switch t := v.(type) {
	case nil:
		sb.WriteString("n")
	case bool:
		if t {
			sb.WriteString("t")
		} else {
			sb.WriteString("f")
		}
	case json.Number:
		sb.WriteString("#" + hx(string(t)))
	case float64, int, int64:
		b, _ := json.Marshal(t)
		sb.WriteString("#" + hx(string(b)))
	case string:
		sb.WriteString("s" + hx(t))
	case []any:
		sb.WriteString("[")
		for _, e := range t {
			sb.WriteString(" ")
			verifEnc(sb, e)
		}
		sb.WriteString(" ]")
	case *orderedmap.OrderedMap[string, any]:
		if t == nil {
			sb.WriteString("n")
			return
		}
		sb.WriteString("{")
		for el := t.Front(); el != nil; el = el.Next() {
			sb.WriteString(" s" + hx(el.Key) + " ")
			verifEnc(sb, el.Value)
		}
		sb.WriteString(" }")
	default:
		sb.WriteString("?" + hx(fmt.Sprintf("%T", v)))
	}
}

func verifEncS(v any) string {
	var sb strings.Builder
	verifEnc(&sb, v)
	return sb.String()
}

func verifDec(toks []string, pos *int) any {
	t := toks[*pos]
	*pos++
	switch t[0] {
	case 'n':
		return nil
	case 't':
		return true
	case 'f':
		return false
	case '#':
		return json.Number(unhx(t[1:]))
	case 's':
		return unhx(t[1:])
	case '[':
		arr := []any{}
		for toks[*pos] != "]" {
			arr = append(arr, verifDec(toks, pos))
		}
		*pos++
		return arr
	case '{':
		m := orderedmap.NewOrderedMap[string, any]()
		for toks[*pos] != "}" {
			k := unhx(toks[*pos][1:])
			*pos++
			m.Set(k, verifDec(toks, pos))
		}
		*pos++
		return m
	}
	panic("bad token " + t)
}

func verifDecS(s string) any {
	toks := strings.Fields(s)
	p := 0
	return verifDec(toks, &p)
}

// ---------------------------------------------------------------- cfg

var verifGoodKey = func() []byte {
	k := make([]byte, 64)
	for i := range k {
		k[i] = byte(i*7 + 3)
	}
	return k
}()

var verifGoodKey2 = func() []byte {
	k := make([]byte, 64)
	for i := range k {
		k[i] = byte(i*11 + 5)
	}
	return k
}()

type verifCfg struct {
	enc int
}

// cfg: r=<hex>;n=0;b=0;i=0;w=0;e=<hex>:<hex>;z=<hex>;y=0
// Consecutive operations with the same configuration string form one session: the setters are
// called once, as the CLI does, so that state kept between lines (if any) is exercised.
var verifLastCfg = "\x00"
var verifLastOut verifCfg

func verifSetCfg(c string) (res verifCfg) {
	if c == verifLastCfg {
		return verifLastOut
	}
	defer func() { verifLastCfg, verifLastOut = c, res }()
	out := verifCfg{}
	SetRedactedString(RedactedString)
	SetRedactNumbers(false)
	SetRedactBooleans(false)
	SetRedactIPs(false)
	SetRedactNamespaces(false)
	SetEagerRedactionPaths(nil)
	SetRedactedFieldsRegexp("")
	SetShouldEncrypt(false)
	SetEncryptionKey(nil)
	if c == "-" {
		return out
	}
	for _, kv := range strings.Split(c, ";") {
		if kv == "" {
			continue
		}
		k, v, _ := strings.Cut(kv, "=")
		switch k {
		case "r":
			SetRedactedString(unhx(v))
		case "n":
			SetRedactNumbers(v == "1")
		case "b":
			SetRedactBooleans(v == "1")
		case "i":
			SetRedactIPs(v == "1")
		case "w":
			SetRedactNamespaces(v == "1")
		case "e":
			var ps []string
			if v != "" {
				for _, p := range strings.Split(v, ":") {
					ps = append(ps, unhx(p[1:]))
				}
			}
			SetEagerRedactionPaths(ps)
		case "z":
			SetRedactedFieldsRegexp(unhx(v))
		case "y":
			n, _ := strconv.Atoi(v)
			out.enc = n
			switch n {
			case 1:
				SetShouldEncrypt(true)
				SetEncryptionKey(verifGoodKey)
			case 3: // real encryption, ciphertexts left as they are (oracles)
				SetShouldEncrypt(true)
				SetEncryptionKey(verifGoodKey)
			case 4: // a second usable key (the key in force must follow SetEncryptionKey)
				SetShouldEncrypt(true)
				SetEncryptionKey(verifGoodKey2)
			case 2: // unusable key material injected at the API level
				SetShouldEncrypt(true)
				SetEncryptionKey([]byte("0123456789"))
			}
		}
	}
	return out
}

// In encrypt mode ciphertexts are made symbolic: every string leaf that base64-decodes
// and decrypts under the harness key is replaced by ENC(<plaintext>).
func verifSymbolic(v any) any {
	switch t := v.(type) {
	case string:
		if raw, err := base64.StdEncoding.DecodeString(t); err == nil && len(raw) >= 16 {
			if pt, err := Decrypt(raw, verifGoodKey); err == nil {
				return "ENC(" + string(pt) + ")"
			}
		}
		return t
	case []any:
		out := make([]any, len(t))
		for i, e := range t {
			out[i] = verifSymbolic(e)
		}
		return out
	case *orderedmap.OrderedMap[string, any]:
		if t == nil {
			return nil
		}
		m := orderedmap.NewOrderedMap[string, any]()
		for el := t.Front(); el != nil; el = el.Next() {
			m.Set(el.Key, verifSymbolic(el.Value))
		}
		return m
	}
	return v
}

func verifPath(s string) []string {
	if s == "-" {
		return []string{}
	}
	parts := strings.Split(s, ",")
	out := make([]string, len(parts))
	for i, p := range parts {
		out[i] = unhx(p)
	}
	return out
}

func verifMeta(v any, ok bool) string {
	if !ok {
		return "none"
	}
	switch t := v.(type) {
	case nil:
		return "nil"
	case OperatorType:
		return "ty:" + strconv.Itoa(int(t))
	case *orderedmap.OrderedMap[string, any]:
		var ks []string
		for el := t.Front(); el != nil; el = el.Next() {
			ks = append(ks, hx(el.Key)+"="+verifMetaShort(el.Value))
		}
		return "map:" + strings.Join(ks, ",")
	}
	return "?"
}

func verifMetaShort(v any) string {
	switch t := v.(type) {
	case nil:
		return "nil"
	case OperatorType:
		return strconv.Itoa(int(t))
	case *orderedmap.OrderedMap[string, any]:
		return "m"
	}
	return "?"
}

// ---------------------------------------------------------------- fault-injecting reader / writer

type verifReader struct {
	data    []byte
	pos     int
	chunk   int
	failAt  int // fail once pos reaches failAt (-1: never)
	failed  bool
	reached bool
}

var errVerifRead = errors.New("verif: injected read error")
var errVerifWrite = errors.New("verif: injected write error")

func (r *verifReader) Read(p []byte) (int, error) {
	if r.failAt >= 0 && r.pos >= r.failAt {
		r.reached = true
		return 0, errVerifRead
	}
	if r.pos >= len(r.data) {
		return 0, io.EOF
	}
	n := len(p)
	if r.chunk > 0 && n > r.chunk {
		n = r.chunk
	}
	if n > len(r.data)-r.pos {
		n = len(r.data) - r.pos
	}
	if r.failAt >= 0 && r.pos+n > r.failAt {
		n = r.failAt - r.pos
	}
	copy(p, r.data[r.pos:r.pos+n])
	r.pos += n
	return n, nil
}

type verifWriter struct {
	buf     bytes.Buffer
	calls   int
	failAt  int // the failAt-th Write call (0-based) fails; -1 never
	short   bool
	reached bool
}

func (w *verifWriter) Write(p []byte) (int, error) {
	c := w.calls
	w.calls++
	if w.failAt >= 0 && c >= w.failAt {
		w.reached = true
		if w.short && c == w.failAt && len(p) > 1 {
			w.buf.Write(p[:len(p)/2])
			return len(p) / 2, io.ErrShortWrite
		}
		return 0, errVerifWrite
	}
	return w.buf.Write(p)
}

// ---------------------------------------------------------------- executor

func verifRunOp(f []string) (res string) {
	defer func() {
		if r := recover(); r != nil {
			res = "panic " + hx(fmt.Sprint(r))
		}
	}()
	switch f[1] {
	case "hash":
		verifSetCfg(f[2])
		return "s" + hx(HashName(unhx(f[3][1:])))
	case "email":
		if IsEmail(unhx(f[2])) {
			return "t"
		}
		return "f"
	case "plan":
		ps := ParsePlanSummary(unhx(f[2]))
		arr := make([]any, len(ps))
		for i, p := range ps {
			arr[i] = p
		}
		return verifEncS(arr)
	case "planredact":
		verifSetCfg(f[2])
		return "s" + hx(redactFieldNamesFromPlanSummary(unhx(f[3])))
	case "getop":
		v, ok := getOp(verifPath(f[3]), f[2] == "1")
		return verifMeta(v, ok)
	case "scalar":
		c := verifSetCfg(f[2])
		out := redactScalarValue(verifPath(f[5]), verifDecS(f[6]), f[3] == "1", f[4] == "1")
		if c.enc == 1 {
			out = verifSymbolic(out)
		}
		return verifEncS(out)
	case "query":
		c := verifSetCfg(f[2])
		m := verifDecS(f[4]).(*orderedmap.OrderedMap[string, any])
		var out any = redactQueryValues(m, f[3] == "1", false, nil, []string{})
		if c.enc == 1 {
			out = verifSymbolic(out)
		}
		return verifEncS(out)
	case "stage":
		c := verifSetCfg(f[2])
		st := verifDecS(f[4])
		out := redactPipelineStage(st, f[3] == "1", []string{}, isInSearchStage(st))
		if c.enc == 1 {
			out = verifSymbolic(out)
		}
		return verifEncS(out)
	case "cmd":
		c := verifSetCfg(f[2])
		m := verifDecS(f[4]).(*orderedmap.OrderedMap[string, any])
		redactCommand(m, f[3] == "1")
		if redactNamespaces {
			redactNamespace(m)
		}
		var out any = m
		if c.enc == 1 {
			out = verifSymbolic(out)
		}
		return verifEncS(out)
	case "line":
		c := verifSetCfg(f[2])
		line := unhx(f[3])
		red, err := RedactMongoLog(line)
		if err != nil {
			return "skip"
		}
		if c.enc == 1 {
			red = verifSymbolic(red).(*orderedmap.OrderedMap[string, any])
		}
		out, err := MarshalOrdered(red)
		if err != nil {
			return "skip"
		}
		return "ok " + hex.EncodeToString(out)
	case "linetree": // like line, but answers with the redacted tree (before printing)
		c := verifSetCfg(f[2])
		red, err := RedactMongoLog(unhx(f[3]))
		if err != nil {
			return "skip"
		}
		var out any = red
		if c.enc == 1 {
			out = verifSymbolic(out)
		}
		return verifEncS(out)
	case "parse":
		m, err := UnmarshalOrdered([]byte(unhx(f[2])))
		if err != nil {
			return "err"
		}
		return verifEncS(m)
	case "print":
		m := verifDecS(f[2]).(*orderedmap.OrderedMap[string, any])
		b, err := MarshalOrdered(m)
		if err != nil {
			return "err"
		}
		return "ok " + hex.EncodeToString(b)
	case "stream":
		// stream <cfg> <faults> <hex>; faults: comma list of c<chunk>, r<k>, w<k>, s<k> (short write)
		verifSetCfg(f[2])
		data, _ := hex.DecodeString(f[4])
		rd := &verifReader{data: data, failAt: -1}
		wr := &verifWriter{failAt: -1}
		if f[3] != "-" {
			for _, sp := range strings.Split(f[3], ",") {
				n, _ := strconv.Atoi(sp[1:])
				switch sp[0] {
				case 'c':
					rd.chunk = n
				case 'r':
					rd.failAt = n
				case 'w':
					wr.failAt = n
				case 's':
					wr.failAt = n
					wr.short = true
				}
			}
		}
		err := processMongoLogStream(rd, wr, nil)
		status := "ok"
		if err != nil {
			switch {
			case errors.Is(err, bufio.ErrTooLong):
				status = "toolong"
			case errors.Is(err, errVerifRead):
				status = "readerr"
			case errors.Is(err, errVerifWrite) || errors.Is(err, io.ErrShortWrite):
				status = "writeerr"
			default:
				status = "err"
			}
		}
		return fmt.Sprintf("%s %s r=%v w=%v calls=%d", status, hex.EncodeToString(wr.buf.Bytes()), rd.reached, wr.reached, wr.calls)
	case "files":
		// files <cfg> <kinds> <hex> <hex> ...: several input FILES through ProcessMongoLogFile, one after the other, in THIS process
		// under ONE configuration (what Atlas mode does with the downloaded logs); kinds: one letter per file, p = plain, g = .gz
		verifSetCfg(f[2])
		dir, derr := os.MkdirTemp("", "verif_files_")
		if derr != nil {
			return "err mkdtemp"
		}
		defer os.RemoveAll(dir)
		var outs []string
		for k := 4; k < len(f); k++ {
			data, _ := hex.DecodeString(f[k])
			name := fmt.Sprintf("%s/in%d.log", dir, k)
			if k-4 < len(f[3]) && f[3][k-4] == 'g' {
				name += ".gz"
				var zb bytes.Buffer
				zw := gzip.NewWriter(&zb)
				zw.Write(data)
				zw.Close()
				data = zb.Bytes()
			}
			if err := os.WriteFile(name, data, 0o600); err != nil {
				return "err write"
			}
			var ob bytes.Buffer
			err := ProcessMongoLogFile(&DefaultFileReader{}, name, &ob, nil)
			st := "ok"
			if err != nil {
				st = "err"
				if errors.Is(err, bufio.ErrTooLong) {
					st = "toolong"
				}
			}
			outs = append(outs, st+":"+hex.EncodeToString(ob.Bytes()))
		}
		return strings.Join(outs, " ")
	case "encrt": // Encrypt/Decrypt round trip at API level: encrt <keyhex> <pthex>
		key, _ := hex.DecodeString(f[2])
		pt, _ := hex.DecodeString(f[3])
		ct, err := Encrypt(pt, key)
		if err != nil {
			return "encerr"
		}
		pt2, err := Decrypt(ct, key)
		if err != nil {
			return "decerr"
		}
		return "ok " + hex.EncodeToString(ct) + " " + hex.EncodeToString(pt2)
	case "dec": // dec <keyhex> <cthex>
		key, _ := hex.DecodeString(f[2])
		ct, _ := hex.DecodeString(f[3])
		pt, err := Decrypt(ct, key)
		if err != nil {
			return "decerr"
		}
		return "ok " + hex.EncodeToString(pt)
	case "tamper": // tamper <keyhex> <pthex> <kind> <n>: encrypt, damage the ciphertext (or the key), decrypt
		key, _ := hex.DecodeString(f[2])
		pt, _ := hex.DecodeString(f[3])
		n, _ := strconv.Atoi(f[5])
		ct, err := Encrypt(pt, key)
		if err != nil {
			return "encerr"
		}
		dkey := append([]byte{}, key...)
		switch f[4] {
		case "f": // flip one bit
			i := n % (len(ct) * 8)
			ct[i/8] ^= 1 << (i % 8)
		case "t": // keep the first n mod (len+1) bytes
			ct = ct[:n%(len(ct)+1)]
		case "a": // append a byte
			ct = append(ct, byte(n))
		case "k": // another key
			dkey[n%64]++
		case "s": // swap the two key halves
			dkey = append(append([]byte{}, key[32:]...), key[:32]...)
		}
		pt2, err := Decrypt(ct, dkey)
		if err != nil {
			return "decerr " + hex.EncodeToString(ct)
		}
		return "ok " + hex.EncodeToString(ct) + " " + hex.EncodeToString(pt2)
	case "b64e": // b64e <hex>: the text the repository writes for these bytes (key file, ciphertext leaf)
		raw, _ := hex.DecodeString(f[2])
		return "ok " + hex.EncodeToString([]byte(base64.StdEncoding.EncodeToString(raw)))
	case "b64d": // b64d <hex of text>: what the repository's readers (key file, decrypt command) make of it
		txt, _ := hex.DecodeString(f[2])
		raw, err := base64.StdEncoding.DecodeString(string(txt))
		if err != nil {
			return "err"
		}
		return "ok " + hex.EncodeToString(raw)
	case "readkey": // readkey <hex of file content>: ReadKeyFromFile on a file with exactly these bytes
		content, _ := hex.DecodeString(f[2])
		tf, err := os.CreateTemp("", "verif-key-*")
		if err != nil {
			return "tmperr"
		}
		defer os.Remove(tf.Name())
		tf.Write(content)
		tf.Close()
		key, err := ReadKeyFromFile(tf.Name())
		if err != nil {
			return "err"
		}
		return "ok " + hex.EncodeToString(key)
	case "writekey": // writekey <keyhex>: the bytes WriteKeyToFile stores, and its mode
		key, _ := hex.DecodeString(f[2])
		dir, err := os.MkdirTemp("", "verif-key-*")
		if err != nil {
			return "tmperr"
		}
		defer os.RemoveAll(dir)
		fn := dir + "/k"
		if err := WriteKeyToFile(fn, key); err != nil {
			return "err"
		}
		content, _ := os.ReadFile(fn)
		return "ok " + hex.EncodeToString(content)
	case "hosts":
		hs, err := GetHostsFromConnectionString(unhx(f[2]))
		if err != nil {
			return "err"
		}
		arr := make([]any, len(hs))
		for i, h := range hs {
			arr[i] = h
		}
		return verifEncS(arr)
	case "window": // window <start> <end>  -> start end (now-relative when both zero)
		a, _ := strconv.Atoi(f[2])
		b, _ := strconv.Atoi(f[3])
		SetAtlasLogStartDate(a)
		SetAtlasLogEndDate(b)
		s, e := GetStartAndEndDates()
		if a == 0 && b == 0 {
			return fmt.Sprintf("rel %d", e-s)
		}
		return fmt.Sprintf("abs %d %d", s, e)
	case "mappingsize":
		return strconv.Itoa(len(RedactedFieldMapping))
	case "wsweep": // wsweep <cfg> <linehex> <maxn>: every write fails; inputs of 1..maxn copies of one line
		verifSetCfg(f[2])
		line := unhx(f[3])
		maxn, _ := strconv.Atoi(f[4])
		probe := &verifWriter{failAt: -1}
		if err := processMongoLogStream(&verifReader{data: []byte(line + "\n"), failAt: -1}, probe, nil); err != nil || probe.buf.Len() == 0 {
			return "noline"
		}
		var bad []string
		for n := 1; n <= maxn; n++ {
			wr := &verifWriter{failAt: 0}
			err := processMongoLogStream(&verifReader{data: []byte(strings.Repeat(line+"\n", n)), failAt: -1}, wr, nil)
			if err == nil {
				bad = append(bad, strconv.Itoa(n))
			}
		}
		if len(bad) > 0 {
			return "bad " + strings.Join(bad, ",") + " outlen=" + strconv.Itoa(probe.buf.Len())
		}
		return "ok " + strconv.Itoa(maxn)
	case "lsweep": // lsweep <cfg> <len,len,...>: a last line of exactly that many bytes, with and without final newline
		verifSetCfg(f[2])
		var bad []string
		cnt := 0
		for _, ls := range strings.Split(f[3], ",") {
			n, _ := strconv.Atoi(ls)
			if n < 9 {
				continue
			}
			body := `{"a":"` + strings.Repeat("z", n-8) + `"}`
			d1 := `{"first":1}` + "\n" + body
			for _, chunk := range []int{0, 4096, 512} {
				run := func(d string) string {
					wr := &verifWriter{failAt: -1}
					err := processMongoLogStream(&verifReader{data: []byte(d), chunk: chunk, failAt: -1}, wr, nil)
					return fmt.Sprintf("%v|%d|%x", err != nil, bytes.Count(wr.buf.Bytes(), []byte("\n")), sha256.Sum256(wr.buf.Bytes()))
				}
				cnt++
				if a, b := run(d1), run(d1+"\n"); a != b {
					bad = append(bad, fmt.Sprintf("%d/c%d:%s:%s", n, chunk, a[:12], b[:12]))
				}
				if a, b := run(d1+"\r\n"), run(d1+"\n"); a != b {
					bad = append(bad, fmt.Sprintf("%d/c%d/crlf", n, chunk))
				}
			}
		}
		if len(bad) > 0 {
			if len(bad) > 12 {
				bad = bad[:12]
			}
			return "bad " + strings.Join(bad, ",")
		}
		return "ok " + strconv.Itoa(cnt)
	case "soak": // soak <cfg> <n>: n distinct values of two lexical classes through the whole redactor in ONE process
		return verifSoak(f[2], f[3])
	case "tablehash": // FNV-1a of the canonical dump of every operator table (detects in-place mutation)
		return verifTableHash()
	}
	return "badop"
}

func verifExec() {
	in := bufio.NewReaderSize(os.Stdin, 1<<20)
	out := bufio.NewWriterSize(os.Stdout, 1<<20)
	defer out.Flush()
	for {
		line, err := in.ReadString('\n')
		if len(line) > 0 {
			line = strings.TrimRight(line, "\n")
			f := strings.Split(line, "\t")
			if len(f) >= 2 {
				res := verifRunOp(f)
				out.WriteString(f[0])
				out.WriteString("\t")
				out.WriteString(res)
				out.WriteString("\n")
				if os.Getenv("VERIF_FLUSH") != "" {
					out.Flush()
				}
			}
		}
		if err != nil {
			break
		}
	}
}

// ---------------------------------------------------------------- table dump (translator, part 1)

func verifMetaJSON(v any) any {
	switch t := v.(type) {
	case nil:
		return nil
	case OperatorType:
		return int(t)
	case *orderedmap.OrderedMap[string, any]:
		arr := [][]any{}
		for el := t.Front(); el != nil; el = el.Next() {
			arr = append(arr, []any{el.Key, verifMetaJSON(el.Value)})
		}
		return map[string]any{"map": arr}
	}
	return "?"
}

// verifSoak: a long run of one-value lines under one configuration. Every ordinary string must come out as the
// first ordinary string did, every e-mail-shaped string as the first e-mail did (placeholder mode); in encrypt
// mode every emitted leaf must decrypt to its own input and no two inputs may share a ciphertext.
func verifSoak(cfg string, ns string) string {
	c := verifSetCfg(cfg)
	n, _ := strconv.Atoi(ns)
	get := func(s string) (string, string) {
		red, err := RedactMongoLog(`{"c":"COMMAND","attr":{"ns":"d.c","command":{"find":"c","filter":{"a":"` + s + `"}}}}`)
		if err != nil {
			return "", "error " + err.Error()
		}
		var cur any = red
		for _, k := range []string{"attr", "command", "filter", "a"} {
			m, ok := cur.(*orderedmap.OrderedMap[string, any])
			if !ok {
				return "", "shape"
			}
			cur, _ = m.Get(k)
		}
		str, ok := cur.(string)
		if !ok {
			return "", "not a string"
		}
		return str, ""
	}
	bad := func(i int, s, got, want string) string {
		return fmt.Sprintf("bad %d %s %s %s", i, hex.EncodeToString([]byte(s)), hex.EncodeToString([]byte(got)), hex.EncodeToString([]byte(want)))
	}
	refS, e1 := get("order-x000000")
	refE, e2 := get("alice.x00000@example.com")
	if e1 != "" || e2 != "" {
		return "bad -1 " + hex.EncodeToString([]byte(e1+e2)) + " 00 00"
	}
	seen := map[string]string{}
	for i := 0; i < n; i++ {
		k := (i*7919 + 13) % 10000000
		for cls, s := range []string{fmt.Sprintf("order-%07d", k), fmt.Sprintf("alice.%06d@example.com", k%1000000)} {
			out, e := get(s)
			if e != "" {
				return bad(i, s, e, "")
			}
			if c.enc == 0 {
				want := refS
				if cls == 1 {
					want = refE
				}
				if out != want {
					return bad(i, s, out, want)
				}
				continue
			}
			raw, err := base64.StdEncoding.DecodeString(out)
			if err != nil {
				return bad(i, s, out, "base64")
			}
			pt, err := Decrypt(raw, verifGoodKey)
			if err != nil || string(pt) != s {
				return bad(i, s, string(pt), s)
			}
			if prev, ok := seen[out]; ok && prev != s {
				return bad(i, s, "same ciphertext as "+prev, "distinct ciphertexts")
			}
			if cls == 0 || i < 1000000 {
				seen[out] = s
			}
		}
	}
	return fmt.Sprintf("ok %d", 2*n)
}

func verifTableHash() string {
	d := []any{verifMetaJSON(CoreOperators), verifMetaJSON(AggregationOperators), verifMetaJSON(SearchOperators),
		verifMetaJSON(SearchAggregationOperators), verifMetaJSON(OperatorMapDefs), TopLevelSearchOperators}
	b, _ := json.Marshal(d)
	h := uint64(14695981039346656037)
	for _, c := range b {
		h = (h ^ uint64(c)) * 1099511628211
	}
	return fmt.Sprintf("%016x", h)
}

func verifDumpTables() {
	names := map[string]int{"Pipeline": int(Pipeline), "Exempt": int(Exempt), "Redactable": int(Redactable), "FieldName": int(FieldName), "OperatorArray": int(OperatorArray), "OperatorMap": int(OperatorMap), "Namespace": int(Namespace)}
	num, _ := json.Marshal(RedactedNumber)
	boo, _ := json.Marshal(RedactedBoolean)
	d := map[string]any{
		"optypes":                    names,
		"CoreOperators":              verifMetaJSON(CoreOperators),
		"AggregationOperators":       verifMetaJSON(AggregationOperators),
		"SearchOperators":            verifMetaJSON(SearchOperators),
		"SearchAggregationOperators": verifMetaJSON(SearchAggregationOperators),
		"OperatorMapDefs":            verifMetaJSON(OperatorMapDefs),
		"TopLevelSearchOperators":    TopLevelSearchOperators,
		"RedactedISODate":            RedactedISODate,
		"RedactedString":             RedactedString,
		"RedactedNumber":             string(num),
		"RedactedBoolean":            string(boo),
		"RedactedObjectId":           RedactedObjectId,
		"RedactedUUID":               RedactedUUID,
		"emailRegex":                 emailRegex.String(),
		"ixscanRegex":                ixscanRegex.String(),
	}
	keys := make([]string, 0, len(d))
	for k := range d {
		keys = append(keys, k)
	}
	sort.Strings(keys)
	b, _ := json.MarshalIndent(d, "", " ")
	os.Stdout.Write(b)
	os.Stdout.WriteString("\n")
}
