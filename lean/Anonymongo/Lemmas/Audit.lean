/-
  Lemmas/Audit.lean — a one-tree "audit" of a walk: at every scalar leaf a leaf predicate holds
  between input and output, and wherever the walker copies a whole container a justification holds,
  given a state invariant that the transitions preserve.  Generic; instantiated for C01 in Props/C01b.
-/
import Anonymongo.Lemmas.Rel
namespace Anonymongo
namespace Ctx

mutual
def Aud (c : Ctx) (L : St → J → J → Prop) (K : St → J → Prop) : St → J → J → Prop
  | s, .obj kvs, b =>
    match c.node s (.obj kvs) with
    | .obj f => ∃ kvs', b = .obj kvs' ∧ AudKVs c L K f kvs kvs'
    | _ => b = .obj kvs ∧ K s (.obj kvs)
  | s, .arr xs, b =>
    match c.node s (.arr xs) with
    | .arr s' => ∃ ys, b = .arr ys ∧ AudList c L K s' xs ys
    | _ => b = .arr xs ∧ K s (.arr xs)
  | s, .null, b => L s .null b
  | s, .bool x, b => L s (.bool x) b
  | s, .num x, b => L s (.num x) b
  | s, .str x, b => L s (.str x) b
def AudKVs (c : Ctx) (L : St → J → J → Prop) (K : St → J → Prop) (f : Str → J → Str × St) :
    List (Str × J) → List (Str × J) → Prop
  | [], kvs' => kvs' = []
  | (k, v) :: rest, kvs' =>
    ∃ v' rest', kvs' = (k, v') :: rest' ∧ Aud c L K (f k v).2 v v' ∧ AudKVs c L K f rest rest'
def AudList (c : Ctx) (L : St → J → J → Prop) (K : St → J → Prop) (s : St) : List J → List J → Prop
  | [], ys => ys = []
  | x :: xs, ys => ∃ y ys', ys = y :: ys' ∧ Aud c L K s x y ∧ AudList c L K s xs ys'
end

/-- on an object the action is "descend" or "copy" -/
theorem node_obj_cases (c : Ctx) (s : St) (kvs : List (Str × J)) :
    (∃ f, c.node s (.obj kvs) = .obj f) ∨ c.node s (.obj kvs) = .keep := by
  cases s <;> simp only [node] <;> (repeat' split) <;> simp

theorem node_arr_cases (c : Ctx) (s : St) (xs : List J) :
    (∃ s', c.node s (.arr xs) = .arr s') ∨ c.node s (.arr xs) = .keep := by
  cases s <;> simp only [node] <;> (repeat' split) <;> simp

section
set_option linter.unusedSectionVars false
variable (c : Ctx) (hrfn : c.rfn = false) (I : St → Prop)
  (hIobj : ∀ s kvs f, I s → c.node s (.obj kvs) = .obj f → ∀ k x, I (f k x).2)
  (hIarr : ∀ s xs s', I s → c.node s (.arr xs) = .arr s' → I s')
  (L : St → J → J → Prop) (hL : ∀ s a, I s → a.isScalar = true → L s a (c.run s a))
  (K : St → J → Prop)
  (hKobj : ∀ s kvs, I s → c.node s (.obj kvs) = .keep → K s (.obj kvs))
  (hKarr : ∀ s xs, I s → c.node s (.arr xs) = .keep → K s (.arr xs))
include hrfn hIobj hIarr hL hKobj hKarr

mutual
theorem aud_run : ∀ (s : St) (v : J), I s → v.nodup = true → c.Aud L K s v (c.run s v)
  | s, .obj kvs, hi, hn => by
    simp only [Aud, run]
    rcases node_obj_cases c s kvs with ⟨f, hf⟩ | hk
    · simp only [hf]
      simp only [J.nodup, Bool.and_eq_true] at hn
      have hk := (shapeOK_of_noRfn c hrfn).keys s _ f hf
      have ⟨h1, h2⟩ := audKVs_run f hk (hIobj s kvs f hi hf) kvs hn.2
      rw [fromPairs_of_nodup _ (by rw [h2]; exact hn.1)]
      exact ⟨_, rfl, h1⟩
    · simp only [hk]; exact ⟨trivial, hKobj s kvs hi hk⟩
  | s, .arr xs, hi, hn => by
    simp only [Aud, run]
    rcases node_arr_cases c s xs with ⟨s', hs'⟩ | hk
    · simp only [hs']
      simp only [J.nodup] at hn
      exact ⟨_, rfl, audList_run s' (hIarr s xs s' hi hs') xs hn⟩
    · simp only [hk]; exact ⟨trivial, hKarr s xs hi hk⟩
  | s, .null, hi, _ => by simp only [Aud]; exact hL s .null hi (by simp [J.isScalar])
  | s, .bool x, hi, _ => by simp only [Aud]; exact hL s (.bool x) hi (by simp [J.isScalar])
  | s, .num x, hi, _ => by simp only [Aud]; exact hL s (.num x) hi (by simp [J.isScalar])
  | s, .str x, hi, _ => by simp only [Aud]; exact hL s (.str x) hi (by simp [J.isScalar])

theorem audKVs_run (f : Str → J → Str × St) (hk : ∀ k x, (f k x).1 = k) (hf : ∀ k x, I (f k x).2) :
    ∀ kvs, nodupKVs kvs = true →
      c.AudKVs L K f kvs (c.runKVs f kvs) ∧ keysOf (c.runKVs f kvs) = keysOf kvs
  | [], _ => by simp [AudKVs, runKVs, keysOf]
  | (k, v) :: rest, hn => by
    simp only [nodupKVs, Bool.and_eq_true] at hn
    have ⟨h1, h2⟩ := audKVs_run f hk hf rest hn.2
    have h3 := aud_run (f k v).2 v (hf k v) hn.1
    refine ⟨?_, ?_⟩
    · simp only [AudKVs, runKVs, hk]
      exact ⟨_, _, rfl, h3, h1⟩
    · simp only [runKVs, keysOf_cons, hk, h2]

theorem audList_run : ∀ (s : St), I s → ∀ (xs : List J), nodupList xs = true → c.AudList L K s xs (c.runList s xs)
  | _, _, [], _ => by simp [AudList, runList]
  | s, hi, x :: xs, hn => by
    simp only [nodupList, Bool.and_eq_true] at hn
    simp only [AudList, runList]
    exact ⟨_, _, rfl, aud_run s x hi hn.1, audList_run s hi xs hn.2⟩
end
end

end Ctx
end Anonymongo
