/-
  Lemmas/Base64.lean — `DecodeString (EncodeToString b) = b` for the model of encoding/base64.
-/
import Anonymongo.Model.Base64
namespace Anonymongo.Base64

theorem val_chr_fin : ∀ n : Fin 64, val (chr n.val) = some n.val := by decide +kernel

theorem val_chr {n : Nat} (h : n < 64) : val (chr n) = some n := val_chr_fin ⟨n, h⟩

theorem chr_ne_fin : ∀ n : Fin 64, chr n.val ≠ '=' ∧ chr n.val ≠ '\r' ∧ chr n.val ≠ '\n' := by decide +kernel

theorem chr_ne_pad {n : Nat} (h : n < 64) : chr n ≠ '=' := (chr_ne_fin ⟨n, h⟩).1

theorem chr_keep {n : Nat} (h : n < 64) : (chr n ≠ '\r' ∧ chr n ≠ '\n') := (chr_ne_fin ⟨n, h⟩).2

/-- every byte value is below 256 -/
def Small (l : List Nat) : Prop := ∀ x ∈ l, x < 256

theorem decQuads_encNat (l : List Nat) (h : Small l) : decQuads (encNat l) = some l := by
  fun_induction encNat l with
  | case1 => rfl
  | case2 a =>
    have ha : a < 256 := h a (by simp)
    have h1 : a / 4 < 64 := by omega
    have h2 : a % 4 * 16 < 64 := by omega
    simp only [decQuads, val_chr h1, val_chr h2, List.isEmpty_nil, and_self, if_true]
    congr 2; omega
  | case3 a b =>
    have ha : a < 256 := h a (by simp)
    have hb : b < 256 := h b (by simp)
    have h1 : a / 4 < 64 := by omega
    have h2 : a % 4 * 16 + b / 16 < 64 := by omega
    have h3 : b % 16 * 4 < 64 := by omega
    simp only [decQuads, val_chr h1, val_chr h2, val_chr h3, List.isEmpty_nil, and_self, if_true, chr_ne_pad h3, if_false]
    congr 2
    · omega
    · congr 1; omega
  | case4 a b c rest ih =>
    have ha : a < 256 := h a (by simp)
    have hb : b < 256 := h b (by simp)
    have hc : c < 256 := h c (by simp)
    have hr : Small rest := fun x hx => h x (by simp [hx])
    have h1 : a / 4 < 64 := by omega
    have h2 : a % 4 * 16 + b / 16 < 64 := by omega
    have h3 : b % 16 * 4 + c / 64 < 64 := by omega
    have h4 : c % 64 < 64 := by omega
    simp only [decQuads, val_chr h1, val_chr h2, val_chr h3, val_chr h4, chr_ne_pad h4, false_and, if_false, ih hr]
    congr 2
    · omega
    · congr 1
      · omega
      · congr 1; omega

theorem encNat_keep (l : List Nat) (h : Small l) : ∀ c ∈ encNat l, c ≠ '\r' ∧ c ≠ '\n' := by
  fun_induction encNat l with
  | case1 => simp
  | case2 a =>
    have ha : a < 256 := h a (by simp)
    have h1 : a / 4 < 64 := by omega
    have h2 : a % 4 * 16 < 64 := by omega
    intro c hc
    simp only [List.mem_cons, List.not_mem_nil, or_false] at hc
    rcases hc with rfl | rfl | rfl | rfl
    · exact chr_keep h1
    · exact chr_keep h2
    · decide
    · decide
  | case3 a b =>
    have ha : a < 256 := h a (by simp)
    have hb : b < 256 := h b (by simp)
    have h1 : a / 4 < 64 := by omega
    have h2 : a % 4 * 16 + b / 16 < 64 := by omega
    have h3 : b % 16 * 4 < 64 := by omega
    intro c hc
    simp only [List.mem_cons, List.not_mem_nil, or_false] at hc
    rcases hc with rfl | rfl | rfl | rfl
    · exact chr_keep h1
    · exact chr_keep h2
    · exact chr_keep h3
    · decide
  | case4 a b c rest ih =>
    have ha : a < 256 := h a (by simp)
    have hb : b < 256 := h b (by simp)
    have hc : c < 256 := h c (by simp)
    have hr : Small rest := fun x hx => h x (by simp [hx])
    have h1 : a / 4 < 64 := by omega
    have h2 : a % 4 * 16 + b / 16 < 64 := by omega
    have h3 : b % 16 * 4 + c / 64 < 64 := by omega
    have h4 : c % 64 < 64 := by omega
    intro x hx
    simp only [List.mem_cons] at hx
    rcases hx with rfl | rfl | rfl | rfl | hx
    · exact chr_keep h1
    · exact chr_keep h2
    · exact chr_keep h3
    · exact chr_keep h4
    · exact ih hr x hx

theorem small_bytes (b : Bytes) : Small (b.map UInt8.toNat) := by
  intro x hx
  simp only [List.mem_map] at hx
  obtain ⟨y, _, rfl⟩ := hx
  exact y.toNat_lt

/-- **round trip**: decoding the encoding of any byte string gives the byte string back -/
theorem dec_enc (b : Bytes) : dec (enc b) = some b := by
  unfold dec enc
  have hk := encNat_keep _ (small_bytes b)
  have hf : (encNat (b.map UInt8.toNat)).filter (fun c => decide (c ≠ '\r' ∧ c ≠ '\n')) = encNat (b.map UInt8.toNat) := by
    apply List.filter_eq_self.mpr
    intro c hc; simpa using hk c hc
  rw [hf, decQuads_encNat _ (small_bytes b)]
  simp [List.map_map, Function.comp_def]

/-- the encoding never contains CR / LF and has length 4·⌈n/3⌉ -/
theorem enc_length (l : List Nat) : (encNat l).length = 4 * ((l.length + 2) / 3) := by
  fun_induction encNat l with
  | case1 => rfl
  | case2 a => simp
  | case3 a b => simp
  | case4 a b c rest ih => simp only [List.length_cons, ih]; omega

theorem chr_ascii_fin : ∀ n : Fin 64, Char.ofNat (chr n.val).toNat.toUInt8.toNat = chr n.val := by decide +kernel

theorem encNat_ascii (l : List Nat) (h : Small l) : ∀ c ∈ encNat l, Char.ofNat c.toNat.toUInt8.toNat = c := by
  fun_induction encNat l with
  | case1 => simp
  | case2 a =>
    have ha : a < 256 := h a (by simp)
    have h1 : a / 4 < 64 := by omega
    have h2 : a % 4 * 16 < 64 := by omega
    intro c hc
    simp only [List.mem_cons, List.not_mem_nil, or_false] at hc
    rcases hc with rfl | rfl | rfl | rfl
    · exact chr_ascii_fin ⟨_, h1⟩
    · exact chr_ascii_fin ⟨_, h2⟩
    · decide
    · decide
  | case3 a b =>
    have ha : a < 256 := h a (by simp)
    have hb : b < 256 := h b (by simp)
    have h1 : a / 4 < 64 := by omega
    have h2 : a % 4 * 16 + b / 16 < 64 := by omega
    have h3 : b % 16 * 4 < 64 := by omega
    intro c hc
    simp only [List.mem_cons, List.not_mem_nil, or_false] at hc
    rcases hc with rfl | rfl | rfl | rfl
    · exact chr_ascii_fin ⟨_, h1⟩
    · exact chr_ascii_fin ⟨_, h2⟩
    · exact chr_ascii_fin ⟨_, h3⟩
    · decide
  | case4 a b c rest ih =>
    have ha : a < 256 := h a (by simp)
    have hb : b < 256 := h b (by simp)
    have hc : c < 256 := h c (by simp)
    have hr : Small rest := fun x hx => h x (by simp [hx])
    have h1 : a / 4 < 64 := by omega
    have h2 : a % 4 * 16 + b / 16 < 64 := by omega
    have h3 : b % 16 * 4 + c / 64 < 64 := by omega
    have h4 : c % 64 < 64 := by omega
    intro x hx
    simp only [List.mem_cons] at hx
    rcases hx with rfl | rfl | rfl | rfl | hx
    · exact chr_ascii_fin ⟨_, h1⟩
    · exact chr_ascii_fin ⟨_, h2⟩
    · exact chr_ascii_fin ⟨_, h3⟩
    · exact chr_ascii_fin ⟨_, h4⟩
    · exact ih hr x hx

/-- the encoding is ASCII: writing it to a file as bytes and reading it back as text changes nothing -/
theorem ascii_roundtrip (b : Bytes) (c : Char) (hc : c ∈ enc b) : Char.ofNat c.toNat.toUInt8.toNat = c :=
  encNat_ascii _ (small_bytes b) c hc

end Anonymongo.Base64
