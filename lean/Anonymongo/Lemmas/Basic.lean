/-
  Lemmas/Basic.lean — association lists: `setKV`, `fromPairs`, distinct keys.
-/
import Anonymongo.Model.Json
namespace Anonymongo

/-- Boolean "keys are pairwise distinct" -/
def nodupKeys : List Str → Bool
  | [] => true
  | k :: ks => !ks.contains k && nodupKeys ks

theorem keysOf_cons {α} (k : Str) (v : α) (r : List (Str × α)) : keysOf ((k, v) :: r) = k :: keysOf r := rfl

theorem setKV_not_mem {α} (k : Str) (v : α) : ∀ (l : List (Str × α)), k ∉ keysOf l → setKV k v l = l ++ [(k, v)]
  | [], _ => rfl
  | (k', v') :: rest, h => by
    have hne : k' ≠ k := by
      intro e; apply h; simp [keysOf, e]
    have hr : k ∉ keysOf rest := by
      intro e; apply h; simp [keysOf] at e ⊢; exact Or.inr e
    simp [setKV, hne, setKV_not_mem k v rest hr]

theorem keysOf_append {α} (a b : List (Str × α)) : keysOf (a ++ b) = keysOf a ++ keysOf b := by
  simp [keysOf]

theorem foldl_setKV_fresh {α} : ∀ (ps acc : List (Str × α)),
    nodupKeys (keysOf ps) = true → (∀ k, k ∈ keysOf ps → k ∉ keysOf acc) →
    ps.foldl (fun acc p => setKV p.1 p.2 acc) acc = acc ++ ps
  | [], acc, _, _ => by simp
  | (k, v) :: rest, acc, hnd, hfresh => by
    have hk : k ∉ keysOf acc := hfresh k (by simp [keysOf])
    simp only [List.foldl_cons]
    rw [setKV_not_mem k v acc hk]
    have hnd' : nodupKeys (keysOf rest) = true := by
      simp [keysOf, nodupKeys] at hnd; simpa [keysOf] using hnd.2
    have hnotin : k ∉ keysOf rest := by
      simp [keysOf, nodupKeys] at hnd
      intro e; simp [keysOf] at e
      obtain ⟨x, hx⟩ := e
      exact hnd.1 x hx
    rw [foldl_setKV_fresh rest (acc ++ [(k, v)]) hnd']
    · simp
    · intro k' hk' hmem
      rw [keysOf_append] at hmem
      simp [keysOf] at hmem
      rcases hmem with h | h
      · exact hfresh k' (by simp [keysOf] at hk' ⊢; exact Or.inr hk') (by simpa [keysOf] using h)
      · subst h; exact hnotin hk'

/-- with distinct keys, rebuilding a map by successive `Set`s gives the list itself -/
theorem fromPairs_of_nodup {α} (ps : List (Str × α)) (h : nodupKeys (keysOf ps) = true) : fromPairs ps = ps := by
  unfold fromPairs
  rw [foldl_setKV_fresh ps [] h]
  · simp
  · intro k _ hk; simp [keysOf] at hk

theorem lookup_map_snd {α β} (f : Str → α → β) (k : Str) : ∀ (l : List (Str × α)),
    lookup k (l.map fun p => (p.1, f p.1 p.2)) = (lookup k l).map (f k)
  | [] => rfl
  | (k', v) :: rest => by
    by_cases h : k' = k
    · subst h; simp [lookup]
    · simp [lookup, h, lookup_map_snd f k rest]

end Anonymongo
