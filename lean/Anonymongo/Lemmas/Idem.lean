/-
  Lemmas/Idem.lean — leaf-level facts behind the fixed-point property (C19):
  placeholders classify as themselves, so redacting a redacted leaf changes nothing.
-/
import Anonymongo.Lemmas.Rel
import Anonymongo.Lemmas.LeafMode
import Anonymongo.Props.C05
namespace Anonymongo

theorem sOid_ne_sDate : sOid ≠ sDate := by decide
theorem sBase64_ne_sDate : sBase64 ≠ sDate := by decide
theorem sBase64_ne_sOid : sBase64 ≠ sOid := by decide
theorem sSubType_ne_sDate : sSubType ≠ sDate := by decide
theorem sSubType_ne_sOid : sSubType ≠ sOid := by decide
theorem sSubType_ne_sBase64 : sSubType ≠ sBase64 := by decide

/-- the placeholder of a scalar's class is its own placeholder -/
theorem placeholder_idem (T : Tables) (cfg : Cfg) (hrepl : isEmail cfg.repl = false) (hph : isEmail T.emailPH = true)
    (kp : List Str) (a : J) (ha : a.isScalar = true) :
    placeholderOf T cfg (placeholderOf T cfg a (classOf kp a)) (classOf kp (placeholderOf T cfg a (classOf kp a)))
      = placeholderOf T cfg a (classOf kp a) := by
  cases a with
  | obj _ => simp [J.isScalar] at ha
  | arr _ => simp [J.isScalar] at ha
  | null =>
    by_cases h : (lastD kp = sSubType && grandParent kp = sBinary) = true <;> simp [classOf, placeholderOf, h]
  | bool x =>
    by_cases h : (lastD kp = sSubType && grandParent kp = sBinary) = true
    · simp [classOf, placeholderOf, h]
    · by_cases hb : cfg.bools = true <;> simp [classOf, placeholderOf, h, hb]
  | num x =>
    by_cases h : (lastD kp = sSubType && grandParent kp = sBinary) = true
    · simp [classOf, placeholderOf, h]
    · by_cases hb : cfg.nums = true <;> simp [classOf, placeholderOf, h, hb]
  | str x =>
    by_cases h1 : lastD kp = sDate
    · simp [classOf, placeholderOf, h1]
    · by_cases h2 : lastD kp = sOid
      · simp [classOf, placeholderOf, h1, h2, sOid_ne_sDate]
      · by_cases h3 : (lastD kp = sBase64 && grandParent kp = sBinary) = true
        · simp only [Bool.and_eq_true, decide_eq_true_eq] at h3; simp [classOf, placeholderOf, h3, sBase64_ne_sDate, sBase64_ne_sOid]
        · by_cases h4 : (lastD kp = sSubType && grandParent kp = sBinary) = true
          · simp only [Bool.and_eq_true, decide_eq_true_eq] at h4; simp [classOf, placeholderOf, h4, sSubType_ne_sDate, sSubType_ne_sOid, sSubType_ne_sBase64]
          · by_cases h5 : isEmail x = true
            · simp [classOf, placeholderOf, h1, h2, h3, h4, h5, hph]
            · simp [classOf, placeholderOf, h1, h2, h3, h4, h5, hrepl]

/-- `redactScalarValue` is idempotent on scalars in placeholder mode, provided the replacement
    text is not e-mail shaped (and the e-mail placeholder is). -/
theorem redactScalar_idem (T : Tables) (cfg : Cfg) (hplain : cfg.enc = none)
    (hrepl : isEmail cfg.repl = false) (hph : isEmail T.emailPH = true)
    (kp : List Str) (S sel : Bool) (a : J) (ha : a.isScalar = true) :
    redactScalar T cfg kp (redactScalar T cfg kp a S sel) S sel = redactScalar T cfg kp a S sel := by
  rw [C05_class T cfg hplain kp a S sel]
  by_cases hk : keptByPath T cfg kp S sel = true
  · simp only [hk, if_true]
    rw [C05_class T cfg hplain kp a S sel]; simp [hk]
  · simp only [hk, if_false, Bool.false_eq_true]
    rw [C05_class T cfg hplain]
    simp only [hk, if_false, Bool.false_eq_true]
    exact placeholder_idem T cfg hrepl hph kp a ha

namespace Ctx

/-- the states in which a walker can be while `--redactNamespaces` is off -/
def St.ok : St → Bool
  | .NsMember => false
  | _ => true

theorem opZone_ok (hi : Bool) (k : Str) : St.ok (opZone hi k) = true := by
  unfold opZone
  repeat' split
  all_goals rfl

theorem child_ok_obj (c : Ctx) (hns : c.cfg.ns = false) (s : St) (v : J) (f : Str → J → Str × St)
    (h : c.node s v = .obj f) : ∀ k x, St.ok (f k x).2 = true := by
  intro k x
  cases s <;> cases v <;> simp only [node] at h <;> (try (repeat' split at h)) <;>
    first | (cases h; simp_all [pObj, qObj, St.ok]; done) | (cases h; exact opZone_ok _ _) | (simp [hns] at h) | cases h

theorem child_ok_arr (c : Ctx) (s : St) (v : J) (s' : St) (h : c.node s v = .arr s') : St.ok s' = true := by
  cases s <;> cases v <;> simp only [node] at h <;> (try (repeat' split at h)) <;>
    first | (cases h; simp [St.ok]) | cases h

theorem node_obj_not_leaf (c : Ctx) (s : St) (kvs : List (Str × J)) (o : J) : c.node s (.obj kvs) ≠ .leaf o := by
  intro h
  cases s <;> simp only [node] at h <;> (try (repeat' split at h)) <;> cases h

theorem node_arr_not_leaf (c : Ctx) (s : St) (xs : List J) (o : J) : c.node s (.arr xs) ≠ .leaf o := by
  intro h
  cases s <;> simp only [node] at h <;> (try (repeat' split at h)) <;> cases h

/-- with field-name and namespace pseudonymisation off, no leaf is hashed -/
theorem mode_no_hash (c : Ctx) (hrfn : c.rfn = false) (hns : c.cfg.ns = false) (s : St) (hs : St.ok s = true)
    (v : J) (x : Str) : c.leafMode s v ≠ .hash x := by
  intro h
  cases s <;> cases v <;>
    simp only [leafMode, pScalarMode, pValScalarMode, subValScalarMode, aElemScalarMode, qValScalarMode,
      genericMode, nsMode, dollarMode, hrfn, hns, St.ok] at h hs <;>
    (try (repeat' split at h)) <;> simp_all

/-- the mode of a scalar depends on its value through its JSON type and a leading '$' only:
    another scalar of the same type is handled by the same `redactScalarValue` call, or kept -/
theorem mode_stable (c : Ctx) (hrfn : c.rfn = false) (s : St) (a b : J) (kp : List Str) (S sel : Bool)
    (ha : a.isScalar = true) (hk : kindOf a = kindOf b)
    (h : c.leafMode s a = .scalar kp S sel) :
    c.leafMode s b = .scalar kp S sel ∨ c.leafMode s b = .keep := by
  cases a <;> simp only [J.isScalar, Bool.false_eq_true] at ha <;>
    cases b <;> simp only [kindOf] at hk <;> (try omega) <;>
    cases s <;>
    simp only [leafMode, pScalarMode, pValScalarMode, subValScalarMode, aElemScalarMode, qValScalarMode,
      genericMode, nsMode, dollarMode, hrfn] at h ⊢ <;>
    (try (repeat' split at h)) <;> (try (repeat' split)) <;> simp_all

/-- **leaf-level fixed point** -/
theorem leaf_idem (c : Ctx) (hplain : c.cfg.enc = none) (hrfn : c.rfn = false) (hns : c.cfg.ns = false)
    (hrepl : isEmail c.cfg.repl = false) (hph : isEmail c.T.emailPH = true)
    (s : St) (hs : St.ok s = true) (a : J) (ha : a.isScalar = true) :
    (c.run s a).isScalar = true ∧ kindOf (c.run s a) = kindOf a ∧ c.run s (c.run s a) = c.run s a := by
  rw [run_scalar c s a ha]
  cases hm : c.leafMode s a with
  | keep => rw [applyMode_keep]; exact ⟨ha, rfl, by rw [run_scalar c s a ha, hm]; rfl⟩
  | hash x => exact absurd hm (mode_no_hash c hrfn hns s hs a x)
  | scalar kp S sel =>
    simp only [applyMode_scalar]
    have hk : kindOf (c.scalar kp a S sel) = kindOf a := c.scalar_kind kp S sel a ha
    have hsc : (c.scalar kp a S sel).isScalar = true := by
      cases a <;> simp only [J.isScalar, Bool.false_eq_true] at ha <;>
        (generalize c.scalar kp _ S sel = o at hk; cases o <;> simp_all [kindOf, J.isScalar])
    refine ⟨hsc, hk, ?_⟩
    rw [run_scalar c s _ hsc]
    rcases mode_stable c hrfn s a (c.scalar kp a S sel) kp S sel ha hk.symm hm with h2 | h2
    · rw [h2]; simp only [applyMode_scalar, scalar]
      exact redactScalar_idem c.T c.cfg hplain hrepl hph kp S sel a ha
    · rw [h2]; rfl

/-- the leaf relation of the fixed-point argument: `b` is what the walker emits for `a`, and the
    walker leaves `b` alone -/
def FixRel (c : Ctx) (s : St) (a b : J) : Prop :=
  b.isScalar = true ∧ kindOf a = kindOf b ∧ b = c.run s a ∧ c.run s b = b

theorem fixSim (c : Ctx) : LeafSim c c.FixRel where
  scalar := by
    intro s a b _ h
    obtain ⟨h1, h2, h3, h4⟩ := h
    exact ⟨h1, h2, by rw [h4, h3]⟩

mutual
/-- every tree is `FixRel`-related to its own redaction -/
theorem relAt_self_run (c : Ctx) (hplain : c.cfg.enc = none) (hrfn : c.rfn = false) (hns : c.cfg.ns = false)
    (hrepl : isEmail c.cfg.repl = false) (hph : isEmail c.T.emailPH = true) :
    ∀ (s : St) (v : J), St.ok s = true → v.nodup = true → c.RelAt c.FixRel s v (c.run s v)
  | s, .obj kvs, hs, hn => by
    simp only [RelAt, run]
    cases hnode : c.node s (.obj kvs) with
    | obj f =>
      simp only [J.nodup, Bool.and_eq_true] at hn
      have hk := (shapeOK_of_noRfn c hrfn).keys s _ f hnode
      have ⟨h1, h2⟩ := relKVs_self_run c hplain hrfn hns hrepl hph f hk (child_ok_obj c hns s _ f hnode) kvs hn.2
      simp only []
      rw [fromPairs_of_nodup _ (by rw [h2]; exact hn.1)]
      exact ⟨_, rfl, h1⟩
    | keep => simp
    | arr s' => simp
    | leaf o => exact absurd hnode (node_obj_not_leaf c s kvs o)
  | s, .arr xs, hs, hn => by
    simp only [RelAt, run]
    cases hnode : c.node s (.arr xs) with
    | arr s' =>
      simp only [J.nodup] at hn
      exact ⟨_, rfl, relList_self_run c hplain hrfn hns hrepl hph s' (child_ok_arr c s _ s' hnode) xs hn⟩
    | keep => simp
    | obj f => simp
    | leaf o => exact absurd hnode (node_arr_not_leaf c s xs o)
  | s, .null, hs, _ => by
    have := leaf_idem c hplain hrfn hns hrepl hph s hs .null (by simp [J.isScalar])
    simp only [RelAt]; exact ⟨this.1, this.2.1.symm, rfl, this.2.2⟩
  | s, .bool x, hs, _ => by
    have := leaf_idem c hplain hrfn hns hrepl hph s hs (.bool x) (by simp [J.isScalar])
    simp only [RelAt]; exact ⟨this.1, this.2.1.symm, rfl, this.2.2⟩
  | s, .num x, hs, _ => by
    have := leaf_idem c hplain hrfn hns hrepl hph s hs (.num x) (by simp [J.isScalar])
    simp only [RelAt]; exact ⟨this.1, this.2.1.symm, rfl, this.2.2⟩
  | s, .str x, hs, _ => by
    have := leaf_idem c hplain hrfn hns hrepl hph s hs (.str x) (by simp [J.isScalar])
    simp only [RelAt]; exact ⟨this.1, this.2.1.symm, rfl, this.2.2⟩

theorem relKVs_self_run (c : Ctx) (hplain : c.cfg.enc = none) (hrfn : c.rfn = false) (hns : c.cfg.ns = false)
    (hrepl : isEmail c.cfg.repl = false) (hph : isEmail c.T.emailPH = true)
    (f : Str → J → Str × St) (hk : ∀ k x, (f k x).1 = k) (hok : ∀ k x, St.ok (f k x).2 = true) :
    ∀ kvs, nodupKVs kvs = true →
      c.RelKVs c.FixRel f kvs (c.runKVs f kvs) ∧ keysOf (c.runKVs f kvs) = keysOf kvs
  | [], _ => by simp [RelKVs, runKVs, keysOf]
  | (k, v) :: rest, hn => by
    simp only [nodupKVs, Bool.and_eq_true] at hn
    have ⟨h1, h2⟩ := relKVs_self_run c hplain hrfn hns hrepl hph f hk hok rest hn.2
    have h3 := relAt_self_run c hplain hrfn hns hrepl hph (f k v).2 v (hok k v) hn.1
    refine ⟨?_, ?_⟩
    · simp only [RelKVs, runKVs, hk]
      exact ⟨_, _, rfl, h3, h1⟩
    · simp only [runKVs, keysOf_cons, hk, h2]

theorem relList_self_run (c : Ctx) (hplain : c.cfg.enc = none) (hrfn : c.rfn = false) (hns : c.cfg.ns = false)
    (hrepl : isEmail c.cfg.repl = false) (hph : isEmail c.T.emailPH = true) :
    ∀ (s : St) (_ : St.ok s = true) (xs : List J), nodupList xs = true → c.RelList c.FixRel s xs (c.runList s xs)
  | _, _, [], _ => by simp [RelList, runList]
  | s, hs, x :: xs, hn => by
    simp only [nodupList, Bool.and_eq_true] at hn
    simp only [RelList, runList]
    exact ⟨_, _, rfl, relAt_self_run c hplain hrfn hns hrepl hph s x hs hn.1,
      relList_self_run c hplain hrfn hns hrepl hph s hs xs hn.2⟩
end

end Ctx
end Anonymongo
