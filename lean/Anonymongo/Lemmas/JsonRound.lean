/-
  Lemmas/JsonRound.lean — parse ∘ print = id at byte level, for every tree the redactor can emit:
  objects without duplicate sibling keys, number literals that are valid JSON numbers in ASCII.
  (`parseObj_printObj`.)  Consequences: every emitted line is a valid JSON object that parses back
  to exactly the redacted tree (C03), and parsing followed by serialisation is stable (C19).
-/
import Anonymongo.Lemmas.StrRound
import Anonymongo.Lemmas.NumRound
import Anonymongo.Spec.Shape
namespace Anonymongo

/-- a number literal as the serialiser can emit it: ASCII, and a complete JSON number -/
def validNumLit (lit : Str) : Bool :=
  lit.all (fun c => c.toNat < 0x80) &&
    (match parseNumber (utf8 lit) with
     | some (l, r) => r.isEmpty && l == utf8 lit
     | none => false)

mutual
def J.printable : J → Bool
  | .num lit => validNumLit lit
  | .arr xs => printableList xs
  | .obj kvs => nodupKeys (keysOf kvs) && printableKVs kvs
  | _ => true
def printableList : List J → Bool
  | [] => true
  | x :: xs => x.printable && printableList xs
def printableKVs : List (Str × J) → Bool
  | [] => true
  | (_, v) :: rest => v.printable && printableKVs rest
end

mutual
def J.size : J → Nat
  | .arr xs => 1 + sizeList xs
  | .obj kvs => 1 + sizeKVs kvs
  | _ => 1
def sizeList : List J → Nat
  | [] => 0
  | x :: xs => 1 + x.size + sizeList xs
def sizeKVs : List (Str × J) → Nat
  | [] => 0
  | (_, v) :: rest => 1 + v.size + sizeKVs rest
end

theorem utf8_ascii (lit : Str) (h : (lit.all fun c => c.toNat < 0x80) = true) :
    (utf8 lit).map (fun x => Char.ofNat x.toNat) = lit := by
  induction lit with
  | nil => rfl
  | cons c t ih =>
    simp only [List.all_cons, Bool.and_eq_true, decide_eq_true_eq] at h
    have e : utf8Enc c = [c.toNat.toUInt8] := by simp [utf8Enc, h.1]
    simp only [utf8, List.flatMap_cons, e, List.singleton_append, List.map_cons]
    rw [u8 _ (by omega), Char.ofNat_toNat]
    have := ih h.2
    simp only [utf8] at this
    rw [this]

theorem skipWs_nonws (b : UInt8) (r : Bytes) (h : isWs b = false) : skipWs (b :: r) = b :: r := by
  simp [skipWs, h]

theorem endsValue_delim (t : Bytes) (h : delimHead t) : endsValue t = true := by
  cases t with
  | nil => rfl
  | cons b r =>
    rcases h b rfl with e | e | e | e | e | e | e <;> subst e <;> simp [endsValue, isWs]

theorem numSign_ne (b : UInt8) (r : Bytes) (h : b ≠ 45) : numSign (b :: r) = ([], b :: r) := by
  unfold numSign
  split
  · rename_i heq; injection heq with h1 _; exact absurd h1 h
  · rfl

/-- the first byte of a printed number literal: `-` or a digit -/
theorem validNum_head (lit : Str) (h : validNumLit lit = true) :
    ∃ b r, utf8 lit = b :: r ∧ (b = 45 ∨ isDigit b = true) := by
  simp only [validNumLit, Bool.and_eq_true] at h
  obtain ⟨_, h2⟩ := h
  cases hp : parseNumber (utf8 lit) with
  | none => simp [hp] at h2
  | some p =>
    cases hu : utf8 lit with
    | nil =>
      rw [hu] at hp
      simp [parseNumber, numSign, numInt] at hp
    | cons b r =>
      refine ⟨b, r, rfl, ?_⟩
      rw [hu] at hp
      by_cases hb : b = 45
      · exact Or.inl hb
      · right
        simp only [parseNumber, numSign_ne b r hb] at hp
        cases hi : numInt (b :: r) with
        | none => simp [hi] at hp
        | some q =>
          simp only [numInt] at hi
          split at hi
          · rename_i e; subst e; decide
          · split at hi
            · rename_i e
              simp only [Bool.and_eq_true, decide_eq_true_eq] at e
              simp only [isDigit, Bool.and_eq_true, decide_eq_true_eq]
              have e1 := UInt8.le_iff_toNat_le.mp e.1
              have e2 := UInt8.le_iff_toNat_le.mp e.2
              constructor
              · rw [UInt8.le_iff_toNat_le]; simp at e1 ⊢; omega
              · exact e.2
            · simp at hi

end Anonymongo

namespace Anonymongo

theorem asciiNull : asciiBytes "null" = [110, 117, 108, 108] := by decide
theorem asciiTrue : asciiBytes "true" = [116, 114, 117, 101] := by decide
theorem asciiFalse : asciiBytes "false" = [102, 97, 108, 115, 101] := by decide
theorem asciiUll : asciiBytes "ull" = [117, 108, 108] := by decide
theorem asciiRue : asciiBytes "rue" = [114, 117, 101] := by decide
theorem asciiAlse : asciiBytes "alse" = [97, 108, 115, 101] := by decide

theorem parse_null (f : Nat) (t : Bytes) (ht : delimHead t) :
    parseValue (f + 1) (printJ .null ++ t) = some (.null, t) := by
  simp [printJ, asciiNull, parseValue, skipWs, isWs, asciiUll, stripPrefix, endsValue_delim t ht]

theorem parse_true (f : Nat) (t : Bytes) (ht : delimHead t) :
    parseValue (f + 1) (printJ (.bool true) ++ t) = some (.bool true, t) := by
  simp [printJ, asciiTrue, parseValue, skipWs, isWs, asciiRue, stripPrefix, endsValue_delim t ht]

theorem parse_false (f : Nat) (t : Bytes) (ht : delimHead t) :
    parseValue (f + 1) (printJ (.bool false) ++ t) = some (.bool false, t) := by
  simp [printJ, asciiFalse, parseValue, skipWs, isWs, asciiAlse, stripPrefix, endsValue_delim t ht]

theorem escChar_length (c : Char) : 1 ≤ (escChar c).length := by
  unfold escChar
  simp only []
  repeat' split
  all_goals first
    | decide
    | (simp only [List.length_append, List.length_cons, List.length_nil]; omega)
    | (obtain ⟨b0, tail, he, _⟩ := decodeRune_utf8Enc c []; rw [he]; simp)

theorem flatMap_esc_length (s : Str) : s.length ≤ (s.flatMap escChar).length := by
  induction s with
  | nil => simp
  | cons c r ih =>
    have := escChar_length c
    simp only [List.flatMap_cons, List.length_append, List.length_cons]; omega

theorem parse_str (f : Nat) (s : Str) (t : Bytes) (ht : delimHead t) :
    parseValue (f + 1) (printJ (.str s) ++ t) = some (.str s, t) := by
  have hlen : s.length < (s.flatMap escChar ++ 34 :: t).length + 1 := by
    have := flatMap_esc_length s
    simp only [List.length_append, List.length_cons]; omega
  have e : printJ (.str s) ++ t = 34 :: (s.flatMap escChar ++ 34 :: t) := by simp [printJ, printStr]
  rw [e]
  unfold parseValue
  rw [skipWs_nonws 34 _ (by decide)]
  simp only []
  rw [parseStrBody_print s _ t hlen]
  simp [endsValue_delim t ht]

end Anonymongo

namespace Anonymongo

theorem parse_num (f : Nat) (lit : Str) (hv : validNumLit lit = true) (t : Bytes) (ht : delimHead t) :
    parseValue (f + 1) (printJ (.num lit) ++ t) = some (.num lit, t) := by
  obtain ⟨b, r, hu, hb⟩ := validNum_head lit hv
  have hv' := hv
  simp only [validNumLit, Bool.and_eq_true] at hv'
  obtain ⟨hascii, hnum⟩ := hv'
  have hp : parseNumber (utf8 lit) = some (utf8 lit, []) := by
    cases hq : parseNumber (utf8 lit) with
    | none => simp [hq] at hnum
    | some p =>
      obtain ⟨l, rr⟩ := p
      simp only [hq, Bool.and_eq_true, List.isEmpty_iff, beq_iff_eq] at hnum
      rw [hnum.1, hnum.2]
  have hext := parseNumber_ext t ht (utf8 lit)
  rw [hp] at hext
  simp only [Option.map_some, List.nil_append] at hext
  have hws : isWs b = false := by
    rcases hb with e | e
    · subst e; decide
    · simp only [isDigit, Bool.and_eq_true, decide_eq_true_eq] at e
      simp only [isWs, Bool.or_eq_false_iff, decide_eq_false_iff_not]
      have e1 := UInt8.le_iff_toNat_le.mp e.1
      refine ⟨⟨⟨?_, ?_⟩, ?_⟩, ?_⟩ <;> (intro x; subst x; simp at e1)
  have hne : b ≠ 123 ∧ b ≠ 91 ∧ b ≠ 34 ∧ b ≠ 116 ∧ b ≠ 102 ∧ b ≠ 110 := by
    rcases hb with e | e
    · subst e; decide
    · simp only [isDigit, Bool.and_eq_true, decide_eq_true_eq] at e
      have e1 := UInt8.le_iff_toNat_le.mp e.1
      have e2 := UInt8.le_iff_toNat_le.mp e.2
      refine ⟨?_, ?_, ?_, ?_, ?_, ?_⟩ <;> (intro x; subst x; simp at e1 e2)
  simp only [printJ]
  rw [hu] at hext ⊢
  simp only [List.cons_append] at hext ⊢
  unfold parseValue
  rw [skipWs_nonws b _ hws]
  split
  · rename_i heq; cases heq
  · rename_i heq; injection heq with h1 _; exact absurd h1 hne.1
  · rename_i heq; injection heq with h1 _; exact absurd h1 hne.2.1
  · rename_i heq; injection heq with h1 _; exact absurd h1 hne.2.2.1
  · rename_i b' rest' _ _ _ heq
    injection heq with h1 h2
    subst h1; subst h2
    simp only [hne.2.2.2.1, hne.2.2.2.2.1, hne.2.2.2.2.2, if_false, hext, endsValue_delim t ht, if_true]
    rw [← hu, utf8_ascii lit hascii]

end Anonymongo

namespace Anonymongo

/-- the first byte of a printed value is not white space and not a closing bracket -/
theorem printJ_head (v : J) (hp : v.printable = true) :
    ∃ b r, printJ v = b :: r ∧ isWs b = false ∧ b ≠ 93 ∧ b ≠ 125 := by
  cases v with
  | null => exact ⟨110, [117, 108, 108], by simp [printJ, asciiNull], by decide, by decide, by decide⟩
  | bool x => cases x
              · exact ⟨102, [97, 108, 115, 101], by simp [printJ, asciiFalse], by decide, by decide, by decide⟩
              · exact ⟨116, [114, 117, 101], by simp [printJ, asciiTrue], by decide, by decide, by decide⟩
  | str s => exact ⟨34, s.flatMap escChar ++ [34], by simp [printJ, printStr], by decide, by decide, by decide⟩
  | arr xs => exact ⟨91, printElems xs ++ [93], by simp [printJ], by decide, by decide, by decide⟩
  | obj kvs => exact ⟨123, printMembers kvs ++ [125], by simp [printJ], by decide, by decide, by decide⟩
  | num lit =>
    obtain ⟨b, r, hu, hb⟩ := validNum_head lit (by simpa [J.printable] using hp)
    refine ⟨b, r, by simp [printJ, hu], ?_, ?_, ?_⟩ <;>
      (rcases hb with e | e
       · subst e; decide
       · simp only [isDigit, Bool.and_eq_true, decide_eq_true_eq] at e
         have e1 := UInt8.le_iff_toNat_le.mp e.1
         have e2 := UInt8.le_iff_toNat_le.mp e.2
         first
           | (simp only [isWs, Bool.or_eq_false_iff, decide_eq_false_iff_not]
              refine ⟨⟨⟨?_, ?_⟩, ?_⟩, ?_⟩ <;> (intro x; subst x; simp at e1))
           | (intro x; subst x; simp at e2))

theorem delim44 (r : Bytes) : delimHead (44 :: r) := by intro b hb; simp at hb; subst hb; simp
theorem delim93 (r : Bytes) : delimHead (93 :: r) := by intro b hb; simp at hb; subst hb; simp
theorem delim125 (r : Bytes) : delimHead (125 :: r) := by intro b hb; simp at hb; subst hb; simp

mutual
/-- **parse ∘ print = id** for one value followed by anything that starts with a delimiter -/
theorem parse_print : ∀ (v : J), v.printable = true → ∀ (t : Bytes), delimHead t → ∀ (fuel : Nat), v.size ≤ fuel →
    parseValue fuel (printJ v ++ t) = some (v, t)
  | .null, _, t, ht, f + 1, _ => parse_null f t ht
  | .bool true, _, t, ht, f + 1, _ => parse_true f t ht
  | .bool false, _, t, ht, f + 1, _ => parse_false f t ht
  | .str s, _, t, ht, f + 1, _ => parse_str f s t ht
  | .num lit, hp, t, ht, f + 1, _ => parse_num f lit (by simpa [J.printable] using hp) t ht
  | .arr [], _, t, ht, f + 1, _ => by
    simp [printJ, printElems, parseValue, skipWs, isWs]
  | .arr (x :: xs), hp, t, ht, f + 1, hf => by
    simp only [J.printable] at hp
    simp only [J.size] at hf
    have hx : x.printable = true := by simp only [printableList, Bool.and_eq_true] at hp; exact hp.1
    obtain ⟨b, r, hb, hws, h93, _⟩ := printJ_head x hx
    cases f with
    | zero => exfalso; simp only [sizeList] at hf; omega
    | succ f =>
    have he := parseElems_print x xs hp t f (by omega)
    have hstart : ∃ r', printElems (x :: xs) ++ 93 :: t = b :: r' := by
      cases xs with
      | nil => exact ⟨r ++ 93 :: t, by simp [printElems, hb]⟩
      | cons y ys => exact ⟨r ++ 44 :: (printElems (y :: ys) ++ 93 :: t), by simp [printElems, hb]⟩
    obtain ⟨r', hr'⟩ := hstart
    have e : printJ (.arr (x :: xs)) ++ t = 91 :: (printElems (x :: xs) ++ 93 :: t) := by simp [printJ]
    rw [e]
    unfold parseValue
    rw [skipWs_nonws 91 _ (by decide)]
    simp only []
    rw [hr', skipWs_nonws b _ hws]
    split
    · rename_i heq; injection heq with h1 _; exact absurd h1 h93
    · rw [← hr', he]; rfl
  | .obj [], _, t, ht, f + 1, _ => by
    simp [printJ, printMembers, parseValue, skipWs, isWs]
  | .obj ((k, v) :: ms), hp, t, ht, f + 1, hf => by
    simp only [J.printable, Bool.and_eq_true] at hp
    simp only [J.size] at hf
    cases f with
    | zero => exfalso; simp only [sizeKVs] at hf; omega
    | succ f =>
    have hm := parseMembers_print k v ms hp.2 t f (by omega) []
    have hstart : ∃ r', printMembers ((k, v) :: ms) ++ 125 :: t = 34 :: r' := by
      cases ms <;> simp [printMembers, printStr]
    obtain ⟨r', hr'⟩ := hstart
    have e : printJ (.obj ((k, v) :: ms)) ++ t = 123 :: (printMembers ((k, v) :: ms) ++ 125 :: t) := by simp [printJ]
    rw [e]
    unfold parseValue
    rw [skipWs_nonws 123 _ (by decide)]
    simp only []
    rw [hr', skipWs_nonws 34 _ (by decide)]
    split
    · rename_i heq; cases heq
    · rw [← hr', hm]
      simp only [Option.map_some]
      have : ((k, v) :: ms).foldl (fun acc p => setKV p.1 p.2 acc) [] = (k, v) :: ms :=
        fromPairs_of_nodup ((k, v) :: ms) hp.1
      rw [this]
  | _, _, _, _, 0, hf => by
    rename_i v _ _ _
    cases v <;> simp [J.size] at hf
termination_by v => v.size
decreasing_by all_goals (simp only [J.size, sizeList, sizeKVs]; omega)

/-- elements of a non-empty array, up to and including the closing bracket -/
theorem parseElems_print : ∀ (x : J) (xs : List J), printableList (x :: xs) = true → ∀ (t : Bytes) (fuel : Nat),
    sizeList (x :: xs) ≤ fuel + 1 → parseElems (fuel + 1) (printElems (x :: xs) ++ 93 :: t) = some (x :: xs, t)
  | x, [], hp, t, f, hf => by
    simp only [printableList, Bool.and_eq_true] at hp
    simp only [sizeList] at hf
    have hv := parse_print x hp.1 (93 :: t) (delim93 t) f (by omega)
    simp only [printElems, parseElems, hv, skipWs_nonws 93 _ (by decide)]
  | x, y :: ys, hp, t, f, hf => by
    simp only [printableList, Bool.and_eq_true] at hp
    simp only [sizeList] at hf
    have hy : y.printable = true := hp.2.1
    obtain ⟨b, r, hb, hws, h93, _⟩ := printJ_head y hy
    have hv := parse_print x hp.1 (44 :: (printElems (y :: ys) ++ 93 :: t)) (delim44 _) f (by omega)
    cases f with
    | zero => exfalso; cases y <;> simp [J.size] at hf <;> omega
    | succ f' =>
      have ih := parseElems_print y ys (by simp [printableList, hp.2.1, hp.2.2]) t f' (by simp only [sizeList]; omega)
      have hstart : ∃ r', printElems (y :: ys) ++ 93 :: t = b :: r' := by
        cases ys with
        | nil => exact ⟨r ++ 93 :: t, by simp [printElems, hb]⟩
        | cons z zs => exact ⟨r ++ 44 :: (printElems (z :: zs) ++ 93 :: t), by simp [printElems, hb]⟩
      obtain ⟨r', hr'⟩ := hstart
      have e : printElems (x :: y :: ys) ++ 93 :: t = printJ x ++ 44 :: (printElems (y :: ys) ++ 93 :: t) := by
        simp [printElems]
      rw [e]
      rw [parseElems]
      simp only [hv, skipWs_nonws 44 _ (by decide)]
      rw [hr', skipWs_nonws b _ hws]
      split
      · rename_i heq; injection heq with h1 _; exact absurd h1 h93
      · rw [← hr', ih]; rfl
termination_by x xs => sizeList (x :: xs)
decreasing_by all_goals (simp only [J.size, sizeList, sizeKVs]; omega)

/-- members of a non-empty object, accumulated with `OrderedMap.Set`, up to the closing brace -/
theorem parseMembers_print : ∀ (k : Str) (v : J) (ms : List (Str × J)), printableKVs ((k, v) :: ms) = true →
    ∀ (t : Bytes) (fuel : Nat), sizeKVs ((k, v) :: ms) ≤ fuel + 1 → ∀ (acc : List (Str × J)),
    parseMembers (fuel + 1) (printMembers ((k, v) :: ms) ++ 125 :: t) acc =
      some (((k, v) :: ms).foldl (fun acc p => setKV p.1 p.2 acc) acc, t)
  | k, v, [], hp, t, f, hf, acc => by
    simp only [printableKVs, Bool.and_eq_true] at hp
    simp only [sizeKVs] at hf
    have hv := parse_print v hp.1 (125 :: t) (delim125 t) f (by omega)
    have hk : parseStrBody ((k.flatMap escChar ++ 34 :: (58 :: (printJ v ++ 125 :: t))).length + 1)
        (k.flatMap escChar ++ 34 :: (58 :: (printJ v ++ 125 :: t))) = some (k, 58 :: (printJ v ++ 125 :: t)) :=
      parseStrBody_print k _ _ (by
        have := flatMap_esc_length k
        simp only [List.length_append, List.length_cons]; omega)
    have e : printMembers [(k, v)] ++ 125 :: t = 34 :: (k.flatMap escChar ++ 34 :: (58 :: (printJ v ++ 125 :: t))) := by
      simp [printMembers, printStr]
    rw [e]
    simp only [parseMembers, skipWs_nonws 34 _ (by decide), hk, skipWs_nonws 58 _ (by decide), hv,
      skipWs_nonws 125 _ (by decide), List.foldl_cons, List.foldl_nil]
  | k, v, (k2, v2) :: ms, hp, t, f, hf, acc => by
    simp only [printableKVs, Bool.and_eq_true] at hp
    simp only [sizeKVs] at hf
    have hv := parse_print v hp.1 (44 :: (printMembers ((k2, v2) :: ms) ++ 125 :: t)) (delim44 _) f (by omega)
    have hk : parseStrBody ((k.flatMap escChar ++ 34 :: (58 :: (printJ v ++ 44 :: (printMembers ((k2, v2) :: ms) ++ 125 :: t)))).length + 1)
        (k.flatMap escChar ++ 34 :: (58 :: (printJ v ++ 44 :: (printMembers ((k2, v2) :: ms) ++ 125 :: t)))) =
        some (k, 58 :: (printJ v ++ 44 :: (printMembers ((k2, v2) :: ms) ++ 125 :: t))) :=
      parseStrBody_print k _ _ (by
        have := flatMap_esc_length k
        simp only [List.length_append, List.length_cons]; omega)
    cases f with
    | zero => exfalso; cases v <;> cases v2 <;> simp [J.size] at hf <;> omega
    | succ f' =>
      have ih := parseMembers_print k2 v2 ms (by simp [printableKVs, hp.2.1, hp.2.2]) t f' (by simp only [sizeKVs]; omega)
        (setKV k v acc)
      have hstart : ∃ r', printMembers ((k2, v2) :: ms) ++ 125 :: t = 34 :: r' := by
        cases ms <;> simp [printMembers, printStr]
      obtain ⟨r', hr'⟩ := hstart
      have e : printMembers ((k, v) :: (k2, v2) :: ms) ++ 125 :: t =
          34 :: (k.flatMap escChar ++ 34 :: (58 :: (printJ v ++ 44 :: (printMembers ((k2, v2) :: ms) ++ 125 :: t)))) := by
        simp [printMembers, printStr]
      rw [e]
      rw [parseMembers]
      simp only [skipWs_nonws 34 _ (by decide), hk, skipWs_nonws 58 _ (by decide), hv,
        skipWs_nonws 44 _ (by decide)]
      rw [hr', skipWs_nonws 34 _ (by decide)]
      split
      · rename_i heq; cases heq
      · rw [← hr', ih]; rfl
termination_by k v ms => sizeKVs ((k, v) :: ms)
decreasing_by all_goals (simp only [J.size, sizeList, sizeKVs]; omega)
end

end Anonymongo
