/-
  Lemmas/LeafMode.lean — what the walker does with a scalar leaf, as a *mode*:
    keep            the value is emitted verbatim
    hash s          the value is the string `s`, emitted as its pseudonym
    scalar kp S sel the value is handed to `redactScalarValue(kp, ·, S, sel)`
  `run_scalar` proves that this description is exact for every state and scalar.  The mode
  depends on the value only through its JSON type, a leading '$' and (field-name redaction only)
  whether the string is an operator name.
-/
import Anonymongo.Lemmas.Refine
import Anonymongo.Lemmas.ScalarKind
namespace Anonymongo
namespace Ctx

inductive Mode where
  | keep
  | hash (s : Str)
  | scalar (kp : List Str) (S sel : Bool)

def applyMode (c : Ctx) (m : Mode) (v : J) : J :=
  match m with
  | .keep => v
  | .hash s => .str (c.H s)
  | .scalar kp S sel => c.scalar kp v S sel

@[simp] theorem applyMode_keep (c : Ctx) (v : J) : c.applyMode .keep v = v := rfl
@[simp] theorem applyMode_hash (c : Ctx) (s : Str) (v : J) : c.applyMode (.hash s) v = .str (c.H s) := rfl
@[simp] theorem applyMode_scalar (c : Ctx) (kp : List Str) (S sel : Bool) (v : J) :
    c.applyMode (.scalar kp S sel) v = c.scalar kp v S sel := rfl

def dollarMode (c : Ctx) (s : Str) : Mode :=
  if c.rfn && (lookup s c.T.core).isNone then .hash s else .keep

def pScalarMode (c : Ctx) (S : Bool) (kp : List Str) : J → Mode
  | .null => .keep
  | .str s => if dollarPrefixed s then c.dollarMode s else .scalar [[]] S (reMatchesAny c.cfg.re kp)
  | _ => .scalar [[]] S (reMatchesAny c.cfg.re kp)

def genericMode (c : Ctx) (S : Bool) (nkp : List Str) : J → Mode
  | .str s => if dollarPrefixed s then c.dollarMode s else .scalar nkp S false
  | _ => .scalar nkp S false

def nsMode (c : Ctx) : J → Mode
  | .str s => if c.cfg.ns then .hash s else .keep
  | _ => .keep

def pValScalarMode (c : Ctx) (S : Bool) (kp : List Str) (k : Str) (op : Option Meta) (v : J) : Mode :=
  match op with
  | some (.map m) =>
    if c.cfg.ns && nsStage m then
      match v with
      | .str s => .hash s
      | _ => c.genericMode S (kp ++ [k]) v
    else c.genericMode S (kp ++ [k]) v
  | some (.ty .FieldName) =>
    if c.rfn then
      match v with
      | .str s => if !kp.isEmpty then .keep else if (getOp c.T [s] S).isSome then .keep else .hash s
      | _ => .scalar [k] S false
    else
      match v with
      | .str _ => .keep
      | _ => c.genericMode S (kp ++ [k]) v
  | some (.ty .Namespace) => c.nsMode v
  | some (.ty .Exempt) => .keep
  | _ => c.genericMode S (kp ++ [k]) v

def subValScalarMode (c : Ctx) (S : Bool) (k : Str) (nkp : List Str) (sk : Str) (sm : Option Meta) (v : J) : Mode :=
  match sm with
  | some (.ty .FieldName) =>
    (match v with
     | .str s => if c.rfn then (if (getOp c.T [s] S).isSome then .keep else .hash s) else .keep
     | _ => if c.rfn then .scalar [k] S false else .scalar (nkp ++ [sk]) S false)
  | some (.ty .Namespace) => c.nsMode v
  | some (.ty .Exempt) => .keep
  | some (.ty .Pipeline) =>
    (match v with
     | .str _ => .keep
     | _ => .scalar (nkp ++ [sk]) S false)
  | _ =>
    (match v with
     | .str s => if dollarPrefixed s && c.rfn && (lookup s c.T.core).isNone then .hash s else .scalar (nkp ++ [sk]) S false
     | _ => .scalar (nkp ++ [sk]) S false)

def aElemScalarMode (c : Ctx) (S : Bool) (pk : Str) (sel : Bool) (kp : List Str) : J → Mode
  | .null => .keep
  | .str s => if dollarPrefixed s then c.dollarMode s else .scalar [pk] S (sel || reMatchesAny c.cfg.re kp)
  | _ => .scalar [pk] S (sel || reMatchesAny c.cfg.re kp)

def qValScalarMode (c : Ctx) (S : Bool) (co : Option Meta) (nkp : List Str) : J → Mode
  | .null => .keep
  | .str s => if dollarPrefixed s then c.dollarMode s else if isTy? co .Exempt then .keep else .scalar nkp S false
  | _ => if isTy? co .Exempt then .keep else .scalar nkp S false

/-- the mode of a scalar met in state `s` -/
def leafMode (c : Ctx) : St → J → Mode
  | .P S kp, v => c.pScalarMode S kp v
  | .PVal S kp k op, v => c.pValScalarMode S kp k op v
  | .Facet, v => c.pScalarMode false [] v
  | .FacetStage, v => c.pScalarMode false [] v
  | .SubVal S k nkp sk sm, v => c.subValScalarMode S k nkp sk sm v
  | .AElem S pk sel kp, v => c.aElemScalarMode S pk sel kp v
  | .QVal S co _ nkp, v => c.qValScalarMode S co nkp v
  | .NsMember, .str s => .hash s
  | _, _ => .keep

theorem dollarString_mode (c : Ctx) (s : Str) : c.dollarString s = c.applyMode (c.dollarMode s) (.str s) := by
  unfold dollarString dollarMode; split <;> simp [applyMode]

theorem pScalar_mode (c : Ctx) (S : Bool) (kp : List Str) (v : J) :
    c.pScalar S kp v = c.applyMode (c.pScalarMode S kp v) v := by
  cases v <;> simp only [pScalar, pScalarMode] <;> (try split) <;>
    simp_all [dollarString_mode, J.isScalar]

theorem genericScalar_mode (c : Ctx) (S : Bool) (nkp : List Str) (v : J) :
    c.genericScalar S nkp v = c.applyMode (c.genericMode S nkp v) v := by
  cases v <;> simp only [genericScalar, genericMode] <;> (try split) <;> simp_all [dollarString_mode]

theorem nsMode_apply (c : Ctx) (v : J) :
    (if c.cfg.ns then (match v with | .str s => J.str (c.H s) | _ => v) else v) = c.applyMode (c.nsMode v) v := by
  cases v <;> simp [nsMode, applyMode] <;> split <;> simp

theorem pValScalar_mode (c : Ctx) (S : Bool) (kp : List Str) (k : Str) (op : Option Meta) (v : J) :
    c.pValScalar S kp k op v = c.applyMode (c.pValScalarMode S kp k op v) v := by
  have hg := genericScalar_mode c S (kp ++ [k]) v
  have hn := nsMode_apply c v
  cases op with
  | none => simp only [pValScalar, pValScalarMode]; exact hg
  | some m =>
    cases m with
    | nil => simp only [pValScalar, pValScalarMode]; exact hg
    | map m =>
      simp only [pValScalar, pValScalarMode]
      split
      · cases v <;> simp only [] <;> first | rfl | exact hg
      · exact hg
    | ty t =>
      cases t <;> simp only [pValScalar, pValScalarMode] <;> (try exact hg) <;> (try exact hn) <;> (try rfl)
      clear hn
      cases v <;> simp only [] <;> (repeat' split) <;> simp_all

theorem subValScalar_mode (c : Ctx) (S : Bool) (k : Str) (nkp : List Str) (sk : Str) (sm : Option Meta) (v : J) :
    c.subValScalar S k nkp sk sm v = c.applyMode (c.subValScalarMode S k nkp sk sm v) v := by
  have hd : (match v with
      | J.str s => if (dollarPrefixed s && c.rfn && (lookup s c.T.core).isNone) = true then J.str (c.H s)
                   else c.scalar (nkp ++ [sk]) v S false
      | _ => c.scalar (nkp ++ [sk]) v S false) =
      c.applyMode (match v with
      | J.str s => if (dollarPrefixed s && c.rfn && (lookup s c.T.core).isNone) = true then Mode.hash s
                   else Mode.scalar (nkp ++ [sk]) S false
      | _ => Mode.scalar (nkp ++ [sk]) S false) v := by
    cases v <;> simp only [] <;> (try split) <;> simp
  have hn := nsMode_apply c v
  cases sm with
  | none => simp only [subValScalar, subValScalarMode]; exact hd
  | some m =>
    cases m with
    | nil => simp only [subValScalar, subValScalarMode]; exact hd
    | map m => simp only [subValScalar, subValScalarMode]; exact hd
    | ty t =>
      cases t <;> simp only [subValScalar, subValScalarMode] <;> (try exact hn) <;> (try exact hd) <;> (try rfl) <;> clear hn hd <;>
        (cases v <;> simp only [] <;> (repeat' split) <;> simp_all)

theorem aElemScalar_mode (c : Ctx) (S : Bool) (pk : Str) (sel : Bool) (kp : List Str) (v : J) :
    c.aElemScalar S pk sel kp v = c.applyMode (c.aElemScalarMode S pk sel kp v) v := by
  cases v <;> simp only [aElemScalar, aElemScalarMode] <;> (try split) <;>
    simp_all [dollarString_mode, J.isScalar]

theorem qValScalar_mode (c : Ctx) (S : Bool) (co : Option Meta) (nkp : List Str) (v : J) :
    c.qValScalar S co nkp v = c.applyMode (c.qValScalarMode S co nkp v) v := by
  cases v <;> simp only [qValScalar, qValScalarMode] <;> (repeat' split) <;>
    simp_all [dollarString_mode, J.isScalar]

/-- **exactness of the mode description** -/
theorem run_scalar (c : Ctx) (s : St) (v : J) (hv : v.isScalar = true) :
    c.run s v = c.applyMode (c.leafMode s v) v := by
  cases v with
  | obj _ => simp [J.isScalar] at hv
  | arr _ => simp [J.isScalar] at hv
  | null => cases s <;> simp [run, node, leafMode, pScalar_mode, pValScalar_mode, subValScalar_mode,
      aElemScalar_mode, qValScalar_mode, J.isScalar]
  | bool b => cases s <;> simp [run, node, leafMode, pScalar_mode, pValScalar_mode, subValScalar_mode,
      aElemScalar_mode, qValScalar_mode, J.isScalar]
  | num l => cases s <;> simp [run, node, leafMode, pScalar_mode, pValScalar_mode, subValScalar_mode,
      aElemScalar_mode, qValScalar_mode, J.isScalar]
  | str x => cases s <;> simp [run, node, leafMode, pScalar_mode, pValScalar_mode, subValScalar_mode,
      aElemScalar_mode, qValScalar_mode, J.isScalar, H]

end Ctx
end Anonymongo
