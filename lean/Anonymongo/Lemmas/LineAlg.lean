/-
  Lemmas/LineAlg.lean — association-list algebra used by the line-level theorems:
  `mapKey` as a key-wise map, lookups through key-wise maps.
-/
import Anonymongo.Spec.Shape
import Anonymongo.Model.Line
namespace Anonymongo

/-- key-wise value map -/
def mapVals (h : Str → J → J) (l : List (Str × J)) : List (Str × J) := l.map fun p => (p.1, h p.1 p.2)

theorem mapKey_eq_mapVals (k : Str) (f : J → J) : ∀ l, mapKey k f l = mapVals (fun k' v => if k' = k then f v else v) l
  | [] => rfl
  | (k', v) :: rest => by
    have ih := mapKey_eq_mapVals k f rest
    simp only [mapVals] at ih
    by_cases h : k' = k <;> simp [mapKey, mapVals, h, ih]

theorem mapVals_mapVals (g h : Str → J → J) (l : List (Str × J)) :
    mapVals g (mapVals h l) = mapVals (fun k v => g k (h k v)) l := by
  simp [mapVals, List.map_map, Function.comp_def]

theorem mapVals_congr (g h : Str → J → J) : ∀ (l : List (Str × J)), nodupKVs l = true →
    (∀ k v, v.nodup = true → g k v = h k v) → mapVals g l = mapVals h l
  | [], _, _ => rfl
  | (k, v) :: rest, hn, e => by
    simp only [nodupKVs, Bool.and_eq_true] at hn
    have ih := mapVals_congr g h rest hn.2 e
    simp only [mapVals, List.map_cons] at ih ⊢
    rw [ih, e k v hn.1]

theorem lookup_mapVals (h : Str → J → J) (k : Str) (l : List (Str × J)) :
    lookup k (mapVals h l) = (lookup k l).map (h k) := lookup_map_snd h k l

theorem keysOf_mapVals (h : Str → J → J) (l : List (Str × J)) : keysOf (mapVals h l) = keysOf l := by
  simp [mapVals, keysOf, List.map_map, Function.comp_def]

end Anonymongo

namespace Anonymongo

/-- the attribute rewrite of `RedactMongoLog`, per attribute key (see `redactAttrWith_eq_mapVals`) -/
def attrFn (cd : Ctx → J → J) (T : Tables) (cfg : Cfg) (eagerPaths : List Str) (plan : Str → Str → Str) (g : Bool)
    (attr : List (Str × J)) : Str → J → J := fun k v =>
  let eager := eagerPaths.any fun p => isPrefix p (strOrEmpty (lookup sNs attr))
  let c : Ctx := { T := T, cfg := cfg, rfn := eager }
  let v1 := if cfg.ips && k = sRemote then (match v with | .str _ => .str T.ipPH | x => x) else v
  let v2 :=
    if g then
      let v2a := if cmdKeys.contains k then cd c v1 else v1
      if eager && k = sPlanSummary then (match v2a with | .str s => .str (plan cfg.repl s) | x => x) else v2a
    else v1
  if cfg.ns && k = sNs then (match v2 with | .str s => .str (hashName cfg.repl s) | x => x) else v2

theorem sNs_ne_sRemote : sNs ≠ sRemote := by decide

theorem redactAttrWith_eq_mapVals (cd : Ctx → J → J) (T : Tables) (cfg : Cfg) (eagerPaths : List Str)
    (plan : Str → Str → Str) (g : Bool) (attr : List (Str × J)) :
    redactAttrWith cd T cfg eagerPaths plan g attr = mapVals (attrFn cd T cfg eagerPaths plan g attr) attr := by
  have hns : ∀ f : J → J, lookup sNs (mapVals (fun k' v => if k' = sRemote then f v else v) attr) = lookup sNs attr := by
    intro f; rw [lookup_mapVals]; cases lookup sNs attr <;> simp [sNs_ne_sRemote]
  unfold redactAttrWith attrFn
  simp only [mapKey_eq_mapVals]
  cases hips : cfg.ips <;> cases g <;> cases hw : cfg.ns <;>
    simp only [Bool.false_eq_true, if_false, if_true, Bool.false_and, Bool.true_and, hns] <;>
    (try (generalize (eagerPaths.any fun p => isPrefix p (strOrEmpty (lookup sNs attr))) = e; cases e)) <;>
    simp [mapVals, List.map_map, Function.comp_def] <;> (try (intros; rfl))

theorem lookup_redactAttrWith (cd : Ctx → J → J) (T : Tables) (cfg : Cfg) (eagerPaths : List Str)
    (plan : Str → Str → Str) (g : Bool) (attr : List (Str × J)) (k : Str) :
    lookup k (redactAttrWith cd T cfg eagerPaths plan g attr) =
      (lookup k attr).map (attrFn cd T cfg eagerPaths plan g attr k) := by
  rw [redactAttrWith_eq_mapVals, lookup_mapVals]

theorem keysOf_redactAttrWith (cd : Ctx → J → J) (T : Tables) (cfg : Cfg) (eagerPaths : List Str)
    (plan : Str → Str → Str) (g : Bool) (attr : List (Str × J)) :
    keysOf (redactAttrWith cd T cfg eagerPaths plan g attr) = keysOf attr := by
  rw [redactAttrWith_eq_mapVals, keysOf_mapVals]

end Anonymongo
