/-
  Lemmas/LitsOk.lean — the preservation chain of NumsOk.lean for an arbitrary predicate `P` on
  number literals: if the number placeholder satisfies `P`, every walker and `RedactMongoLog`
  keep "every number literal in the tree satisfies `P`".  Instantiated with `validNumLit`
  (JsonRound.lean) this gives: redaction keeps a tree printable.
-/
import Anonymongo.Lemmas.NumsOk
namespace Anonymongo

mutual
/-- every number literal in the tree satisfies `P` -/
def J.litsOk (P : Str → Bool) : J → Bool
  | .num lit => P lit
  | .arr xs => litsOkList P xs
  | .obj kvs => litsOkKVs P kvs
  | _ => true
def litsOkList (P : Str → Bool) : List J → Bool
  | [] => true
  | x :: xs => x.litsOk P && litsOkList P xs
def litsOkKVs (P : Str → Bool) : List (Str × J) → Bool
  | [] => true
  | (_, v) :: rest => v.litsOk P && litsOkKVs P rest
end

variable {P : Str → Bool}

theorem setKV_litsOk (k : Str) (v : J) (hv : J.litsOk P v = true) : ∀ l, litsOkKVs P l = true → litsOkKVs P (setKV k v l) = true
  | [], _ => by simp [setKV, litsOkKVs, hv]
  | (k', v') :: rest, h => by
    simp only [litsOkKVs, Bool.and_eq_true] at h
    by_cases e : k' = k
    · simp [setKV, e, litsOkKVs, hv, h.2]
    · simp [setKV, e, litsOkKVs, h.1, setKV_litsOk k v hv rest h.2]

theorem fromPairs_litsOk (ps : List (Str × J)) (h : litsOkKVs P ps = true) : litsOkKVs P (fromPairs ps) = true := by
  unfold fromPairs
  have : ∀ (l acc : List (Str × J)), litsOkKVs P l = true → litsOkKVs P acc = true →
      litsOkKVs P (l.foldl (fun acc p => setKV p.1 p.2 acc) acc) = true := by
    intro l
    induction l with
    | nil => intro acc _ ha; exact ha
    | cons p t ih =>
      intro acc hl ha
      obtain ⟨k, v⟩ := p
      simp only [litsOkKVs, Bool.and_eq_true] at hl
      exact ih _ hl.2 (setKV_litsOk k v hl.1 acc ha)
  exact this ps [] h rfl

theorem redactScalar_litsOk (T : Tables) (hT : P T.number = true) (cfg : Cfg) (kp : List Str) (S sel : Bool)
    (v : J) (hv : v.isScalar = true) (h : J.litsOk P v = true) : J.litsOk P (redactScalar T cfg kp v S sel) = true := by
  unfold redactScalar
  cases v <;> simp only [J.isScalar, Bool.false_eq_true] at hv <;>
    simp only [redactByKind] <;> (repeat' split) <;> simp_all [J.litsOk]

namespace Ctx

theorem applyMode_litsOk (c : Ctx) (hT : P c.T.number = true) (m : Mode) (v : J)
    (hv : v.isScalar = true) (h : J.litsOk P v = true) : J.litsOk P (c.applyMode m v) = true := by
  cases m with
  | keep => exact h
  | hash s => simp [applyMode, J.litsOk]
  | scalar kp S sel => exact redactScalar_litsOk c.T hT c.cfg kp S sel v hv h

mutual
theorem run_litsOk (c : Ctx) (hT : P c.T.number = true) :
    ∀ (s : St) (v : J), J.litsOk P v = true → J.litsOk P (c.run s v) = true
  | s, .obj kvs, h => by
    simp only [run]
    cases hn : c.node s (.obj kvs) with
    | obj f =>
      simp only [J.litsOk] at h ⊢
      exact fromPairs_litsOk _ (runKVs_litsOk c hT f kvs h)
    | keep => exact h
    | arr s' => exact h
    | leaf o => exact absurd hn (node_obj_not_leaf' c s kvs o)
  | s, .arr xs, h => by
    simp only [run]
    cases hn : c.node s (.arr xs) with
    | arr s' => simp only [J.litsOk] at h ⊢; exact runList_litsOk c hT s' xs h
    | keep => exact h
    | obj f => exact h
    | leaf o => exact absurd hn (node_arr_not_leaf' c s xs o)
  | s, .null, h => by rw [run_scalar c s _ (by simp [J.isScalar])]; exact applyMode_litsOk c hT _ _ (by simp [J.isScalar]) h
  | s, .bool b, h => by rw [run_scalar c s _ (by simp [J.isScalar])]; exact applyMode_litsOk c hT _ _ (by simp [J.isScalar]) h
  | s, .num l, h => by rw [run_scalar c s _ (by simp [J.isScalar])]; exact applyMode_litsOk c hT _ _ (by simp [J.isScalar]) h
  | s, .str x, h => by rw [run_scalar c s _ (by simp [J.isScalar])]; exact applyMode_litsOk c hT _ _ (by simp [J.isScalar]) h
theorem runKVs_litsOk (c : Ctx) (hT : P c.T.number = true) (f : Str → J → Str × St) :
    ∀ kvs, litsOkKVs P kvs = true → litsOkKVs P (c.runKVs f kvs) = true
  | [], _ => by simp [runKVs, litsOkKVs]
  | (k, v) :: rest, h => by
    simp only [litsOkKVs, Bool.and_eq_true] at h
    simp only [runKVs, litsOkKVs, Bool.and_eq_true]
    exact ⟨run_litsOk c hT _ v h.1, runKVs_litsOk c hT f rest h.2⟩
theorem runList_litsOk (c : Ctx) (hT : P c.T.number = true) :
    ∀ (s : St) (xs : List J), litsOkList P xs = true → litsOkList P (c.runList s xs) = true
  | _, [], _ => by simp [runList, litsOkList]
  | s, x :: xs, h => by
    simp only [litsOkList, Bool.and_eq_true] at h
    simp only [runList, litsOkList, Bool.and_eq_true]
    exact ⟨run_litsOk c hT s x h.1, runList_litsOk c hT s xs h.2⟩
end

end Ctx

end Anonymongo

namespace Anonymongo

theorem mapVals_litsOk (h : Str → J → J) (hh : ∀ k v, J.litsOk P v = true → J.litsOk P (h k v) = true) :
    ∀ l, litsOkKVs P l = true → litsOkKVs P (mapVals h l) = true
  | [], _ => rfl
  | (k, v) :: rest, hl => by
    simp only [litsOkKVs, Bool.and_eq_true] at hl
    have ih := mapVals_litsOk h hh rest hl.2
    simp only [mapVals, List.map_cons, litsOkKVs, Bool.and_eq_true] at ih ⊢
    exact ⟨hh k v hl.1, ih⟩


theorem nsFieldVal_litsOk (c : Ctx) (k : Str) (v : J) (hv : J.litsOk P v = true) : J.litsOk P (c.nsFieldVal k v) = true := by
  cases v <;> simp only [Ctx.nsFieldVal] <;> (try split) <;> simp_all [J.litsOk]

theorem nsDocOf_litsOk (c : Ctx) (v : J) (hv : J.litsOk P v = true) : J.litsOk P (c.nsDocOf v) = true := by
  cases v with
  | obj m =>
    simp only [Ctx.nsDocOf, J.litsOk] at hv ⊢
    exact mapVals_litsOk _ (fun k v hv => nsFieldVal_litsOk c k v hv) m hv
  | _ => exact hv

theorem mapList_litsOk (f : J → J) (hf : ∀ x, J.litsOk P x = true → J.litsOk P (f x) = true) :
    ∀ xs : List J, litsOkList P xs = true → litsOkList P (xs.map f) = true
  | [], _ => rfl
  | x :: xs, h => by
    simp only [litsOkList, Bool.and_eq_true] at h
    simp only [List.map_cons, litsOkList, Bool.and_eq_true]
    exact ⟨hf x h.1, mapList_litsOk f hf xs h.2⟩

theorem nsVal_litsOk (c : Ctx) (k : Str) (v : J) (hv : J.litsOk P v = true) : J.litsOk P (c.nsVal k v) = true := by
  unfold Ctx.nsVal
  split
  · exact nsDocOf_litsOk c v hv
  · split
    · cases v with
      | arr xs =>
        simp only [J.litsOk] at hv ⊢
        exact mapList_litsOk _ (fun x hx => nsDocOf_litsOk c x hx) xs hv
      | _ => exact hv
    · exact nsFieldVal_litsOk c k v hv

theorem cmdDoc_litsOk (c : Ctx) (hT : P c.T.number = true) (v : J) (h : J.litsOk P v = true) :
    J.litsOk P (c.cmdDoc v) = true := by
  rw [← Ctx.cmdDoc_refine]
  cases v with
  | obj cmd =>
    simp only [J.litsOk] at h
    have e1 : c.redactCommandA cmd = mapVals (fun k v => c.run (Ctx.zoneState (lookup sInsert cmd).isSome (lookup sBulkWrite cmd).isSome k) v) cmd := rfl
    have e2 : ∀ l, c.redactNamespace l = mapVals c.nsVal l := fun _ => rfl
    have h1 : litsOkKVs P (c.redactCommandA cmd) = true := by
      rw [e1]; exact mapVals_litsOk _ (fun k v hv => Ctx.run_litsOk c hT _ v hv) cmd h
    simp only [Ctx.cmdDocA]
    split
    · simp only [J.litsOk]; rw [e2]
      apply mapVals_litsOk _ _ _ h1
      intro k v hv
      exact nsVal_litsOk c k v hv
    · simpa [J.litsOk] using h1
  | _ => exact h

theorem strCase_litsOk (g : Str → J) (hg : ∀ s, J.litsOk P (g s) = true) (w : J) :
    J.litsOk P w = true → J.litsOk P (match w with | .str s => g s | x => x) = true := by
  intro hw
  cases w <;> first | exact hg _ | exact hw

theorem attrFn_litsOk (T : Tables) (hT : P T.number = true) (cfg : Cfg) (eager : List Str)
    (plan : Str → Str → Str) (g : Bool) (attr : List (Str × J)) (k : Str) (v : J) (hv : J.litsOk P v = true) :
    J.litsOk P (attrFn Ctx.cmdDoc T cfg eager plan g attr k v) = true := by
  simp only [attrFn]
  have s1 : ∀ w : J, J.litsOk P w = true →
      J.litsOk P (if (cfg.ips && decide (k = sRemote)) = true then (match w with | .str _ => J.str T.ipPH | x => x) else w) = true := by
    intro w hw; split
    · exact strCase_litsOk (fun _ => .str T.ipPH) (fun _ => rfl) w hw
    · exact hw
  have s2 : ∀ (cc : Ctx) (w : J), cc.T = T → J.litsOk P w = true → J.litsOk P (if cmdKeys.contains k = true then cc.cmdDoc w else w) = true := by
    intro cc w hc hw; split
    · exact cmdDoc_litsOk cc (by rw [hc]; exact hT) w hw
    · exact hw
  have s3 : ∀ (e : Bool) (w : J), J.litsOk P w = true →
      J.litsOk P (if (e && decide (k = sPlanSummary)) = true then (match w with | .str s => J.str (plan cfg.repl s) | x => x) else w) = true := by
    intro e w hw; split
    · exact strCase_litsOk (fun s => .str (plan cfg.repl s)) (fun _ => rfl) w hw
    · exact hw
  have s4 : ∀ w : J, J.litsOk P w = true →
      J.litsOk P (if (cfg.ns && decide (k = sNs)) = true then (match w with | .str s => J.str (hashName cfg.repl s) | x => x) else w) = true := by
    intro w hw; split
    · exact strCase_litsOk (fun s => .str (hashName cfg.repl s)) (fun _ => rfl) w hw
    · exact hw
  apply s4
  split
  · exact s3 _ _ (s2 _ _ rfl (s1 v hv))
  · exact s1 v hv

theorem redactLine_litsOk (T : Tables) (hT : P T.number = true) (cfg : Cfg) (eager : List Str)
    (plan : Str → Str → Str) (entry : List (Str × J)) (h : litsOkKVs P entry = true) :
    litsOkKVs P (redactLine T cfg eager plan entry) = true := by
  unfold redactLine redactLineWith
  split
  · rw [mapKey_eq_mapVals]
    apply mapVals_litsOk _ _ entry h
    intro k v hv
    split
    · cases v with
      | obj attr =>
        simp only [J.litsOk] at hv ⊢
        rw [redactAttrWith_eq_mapVals]
        exact mapVals_litsOk _ (fun k2 v2 hv2 => attrFn_litsOk T hT cfg eager plan _ attr k2 v2 hv2) attr hv
      | _ => exact hv
    · exact hv
  · exact h


end Anonymongo
