/-
  Lemmas/NoDup.lean — "no object has two members with the same key" is (1) established by the
  parser (every object is accumulated with `OrderedMap.Set`) and (2) preserved by the walkers and by
  `RedactMongoLog` under every flag set, field-name redaction included (every rebuilt object goes
  through `Set` again, so colliding pseudonyms merge instead of duplicating a key).
-/
import Anonymongo.Lemmas.LitsOk
import Anonymongo.Spec.Shape
namespace Anonymongo

/-! ### `Set` keeps keys distinct -/

theorem keysOf_setKV_mem {α} (k : Str) (v : α) : ∀ (l : List (Str × α)), k ∈ keysOf l → keysOf (setKV k v l) = keysOf l
  | [], h => by simp [keysOf] at h
  | (k', v') :: rest, h => by
    by_cases e : k' = k
    · simp [setKV, e, keysOf]
    · have hr : k ∈ keysOf rest := by
        simp only [keysOf, List.map_cons, List.mem_cons] at h
        rcases h with h | h
        · exact absurd h.symm e
        · exact h
      have ih := keysOf_setKV_mem k v rest hr
      simp only [setKV, e, if_false, keysOf, List.map_cons] at ih ⊢
      rw [ih]

theorem nodupKeys_snoc (k : Str) : ∀ (ks : List Str), nodupKeys ks = true → k ∉ ks → nodupKeys (ks ++ [k]) = true
  | [], _, _ => by simp [nodupKeys]
  | x :: xs, h, hk => by
    simp only [nodupKeys, Bool.and_eq_true, Bool.not_eq_true', List.contains_eq_mem, decide_eq_false_iff_not] at h
    have hx : x ≠ k := by intro e; apply hk; simp [e]
    have hk' : k ∉ xs := by intro e; apply hk; simp [e]
    simp only [List.cons_append, nodupKeys, Bool.and_eq_true, Bool.not_eq_true', List.contains_eq_mem,
      decide_eq_false_iff_not, List.mem_append, List.mem_singleton, not_or]
    exact ⟨⟨h.1, hx⟩, nodupKeys_snoc k xs h.2 hk'⟩

theorem setKV_nodupKeys {α} (k : Str) (v : α) (l : List (Str × α)) (h : nodupKeys (keysOf l) = true) :
    nodupKeys (keysOf (setKV k v l)) = true := by
  by_cases hk : k ∈ keysOf l
  · rw [keysOf_setKV_mem k v l hk]; exact h
  · rw [setKV_not_mem k v l hk, keysOf_append]
    exact nodupKeys_snoc k _ h hk

theorem setKV_nodupKVs (k : Str) (v : J) (hv : v.nodup = true) : ∀ l, nodupKVs l = true → nodupKVs (setKV k v l) = true
  | [], _ => by simp [setKV, nodupKVs, hv]
  | (k', v') :: rest, h => by
    simp only [nodupKVs, Bool.and_eq_true] at h
    by_cases e : k' = k
    · simp [setKV, e, nodupKVs, hv, h.2]
    · simp [setKV, e, nodupKVs, h.1, setKV_nodupKVs k v hv rest h.2]

theorem setKV_objNodup (k : Str) (v : J) (hv : v.nodup = true) (l : List (Str × J)) (h : (J.obj l).nodup = true) :
    (J.obj (setKV k v l)).nodup = true := by
  simp only [J.nodup, Bool.and_eq_true] at h ⊢
  exact ⟨setKV_nodupKeys k v l h.1, setKV_nodupKVs k v hv l h.2⟩

theorem foldl_setKV_objNodup : ∀ (ps acc : List (Str × J)), nodupKVs ps = true → (J.obj acc).nodup = true →
    (J.obj (ps.foldl (fun acc p => setKV p.1 p.2 acc) acc)).nodup = true
  | [], _, _, ha => ha
  | (k, v) :: rest, acc, hp, ha => by
    simp only [nodupKVs, Bool.and_eq_true] at hp
    exact foldl_setKV_objNodup rest _ hp.2 (setKV_objNodup k v hp.1 acc ha)

/-- rebuilding through `Set` always yields distinct keys, whatever the input keys were -/
theorem fromPairs_objNodup (ps : List (Str × J)) (h : nodupKVs ps = true) : (J.obj (fromPairs ps)).nodup = true :=
  foldl_setKV_objNodup ps [] h rfl

/-! ### (2) preservation by the walkers -/

theorem redactScalar_nodup (T : Tables) (cfg : Cfg) (kp : List Str) (S sel : Bool)
    (v : J) (hv : v.isScalar = true) : (redactScalar T cfg kp v S sel).nodup = true := by
  unfold redactScalar
  cases v <;> simp only [J.isScalar, Bool.false_eq_true] at hv <;>
    simp only [redactByKind] <;> (repeat' split) <;> simp_all [J.nodup]

namespace Ctx

theorem applyMode_nodup (c : Ctx) (m : Mode) (v : J) (hv : v.isScalar = true) (h : v.nodup = true) :
    (c.applyMode m v).nodup = true := by
  cases m with
  | keep => exact h
  | hash s => simp [applyMode, J.nodup]
  | scalar kp S sel => exact redactScalar_nodup c.T c.cfg kp S sel v hv

mutual
theorem run_nodup (c : Ctx) : ∀ (s : St) (v : J), v.nodup = true → (c.run s v).nodup = true
  | s, .obj kvs, h => by
    simp only [run]
    cases hn : c.node s (.obj kvs) with
    | obj f =>
      simp only [J.nodup, Bool.and_eq_true] at h
      exact fromPairs_objNodup _ (runKVs_nodup c f kvs h.2)
    | keep => exact h
    | arr s' => exact h
    | leaf o => exact absurd hn (node_obj_not_leaf' c s kvs o)
  | s, .arr xs, h => by
    simp only [run]
    cases hn : c.node s (.arr xs) with
    | arr s' => simp only [J.nodup] at h ⊢; exact runList_nodup c s' xs h
    | keep => exact h
    | obj f => exact h
    | leaf o => exact absurd hn (node_arr_not_leaf' c s xs o)
  | s, .null, h => by rw [run_scalar c s _ (by simp [J.isScalar])]; exact applyMode_nodup c _ _ (by simp [J.isScalar]) h
  | s, .bool b, h => by rw [run_scalar c s _ (by simp [J.isScalar])]; exact applyMode_nodup c _ _ (by simp [J.isScalar]) h
  | s, .num l, h => by rw [run_scalar c s _ (by simp [J.isScalar])]; exact applyMode_nodup c _ _ (by simp [J.isScalar]) h
  | s, .str x, h => by rw [run_scalar c s _ (by simp [J.isScalar])]; exact applyMode_nodup c _ _ (by simp [J.isScalar]) h
theorem runKVs_nodup (c : Ctx) (f : Str → J → Str × St) :
    ∀ kvs, nodupKVs kvs = true → nodupKVs (c.runKVs f kvs) = true
  | [], _ => by simp [runKVs, nodupKVs]
  | (k, v) :: rest, h => by
    simp only [nodupKVs, Bool.and_eq_true] at h
    simp only [runKVs, nodupKVs, Bool.and_eq_true]
    exact ⟨run_nodup c _ v h.1, runKVs_nodup c f rest h.2⟩
theorem runList_nodup (c : Ctx) :
    ∀ (s : St) (xs : List J), nodupList xs = true → nodupList (c.runList s xs) = true
  | _, [], _ => by simp [runList, nodupList]
  | s, x :: xs, h => by
    simp only [nodupList, Bool.and_eq_true] at h
    simp only [runList, nodupList, Bool.and_eq_true]
    exact ⟨run_nodup c s x h.1, runList_nodup c s xs h.2⟩
end

end Ctx

/-! ### `RedactMongoLog` preserves it -/

theorem mapVals_objNodup (h : Str → J → J) (hh : ∀ k v, v.nodup = true → (h k v).nodup = true)
    (l : List (Str × J)) (hl : (J.obj l).nodup = true) : (J.obj (mapVals h l)).nodup = true := by
  simp only [J.nodup, Bool.and_eq_true] at hl ⊢
  refine ⟨by rw [keysOf_mapVals]; exact hl.1, ?_⟩
  have : ∀ l, nodupKVs l = true → nodupKVs (mapVals h l) = true := by
    intro l
    induction l with
    | nil => intro _; rfl
    | cons p rest ih =>
      obtain ⟨k, v⟩ := p
      intro hl
      simp only [nodupKVs, Bool.and_eq_true] at hl
      have := ih hl.2
      simp only [mapVals, List.map_cons, nodupKVs, Bool.and_eq_true] at this ⊢
      exact ⟨hh k v hl.1, this⟩
  exact this l hl.2


theorem nsFieldVal_nodup (c : Ctx) (k : Str) (v : J) (hv : v.nodup = true) : (c.nsFieldVal k v).nodup = true := by
  cases v <;> simp only [Ctx.nsFieldVal] <;> (try split) <;> simp_all [J.nodup]

theorem nsDocOf_nodup (c : Ctx) (v : J) (hv : v.nodup = true) : (c.nsDocOf v).nodup = true := by
  cases v with
  | obj m => exact mapVals_objNodup _ (fun k v hv => nsFieldVal_nodup c k v hv) m hv
  | _ => exact hv

theorem mapList_nodup (f : J → J) (hf : ∀ x, x.nodup = true → (f x).nodup = true) :
    ∀ xs : List J, nodupList xs = true → nodupList (xs.map f) = true
  | [], _ => rfl
  | x :: xs, h => by
    simp only [nodupList, Bool.and_eq_true] at h
    simp only [List.map_cons, nodupList, Bool.and_eq_true]
    exact ⟨hf x h.1, mapList_nodup f hf xs h.2⟩

theorem nsVal_nodup (c : Ctx) (k : Str) (v : J) (hv : v.nodup = true) : (c.nsVal k v).nodup = true := by
  unfold Ctx.nsVal
  split
  · exact nsDocOf_nodup c v hv
  · split
    · cases v with
      | arr xs =>
        simp only [J.nodup] at hv ⊢
        exact mapList_nodup _ (fun x hx => nsDocOf_nodup c x hx) xs hv
      | _ => exact hv
    · exact nsFieldVal_nodup c k v hv

theorem cmdDoc_nodup (c : Ctx) (v : J) (h : v.nodup = true) : (c.cmdDoc v).nodup = true := by
  rw [← Ctx.cmdDoc_refine]
  cases v with
  | obj cmd =>
    have e1 : c.redactCommandA cmd = mapVals (fun k v => c.run (Ctx.zoneState (lookup sInsert cmd).isSome (lookup sBulkWrite cmd).isSome k) v) cmd := rfl
    have e2 : ∀ l, c.redactNamespace l = mapVals c.nsVal l := fun _ => rfl
    have h1 : (J.obj (c.redactCommandA cmd)).nodup = true := by
      rw [e1]; exact mapVals_objNodup _ (fun k v hv => Ctx.run_nodup c _ v hv) cmd h
    simp only [Ctx.cmdDocA]
    split
    · rw [e2]
      apply mapVals_objNodup _ _ _ h1
      intro k v hv
      exact nsVal_nodup c k v hv
    · exact h1
  | _ => exact h

theorem strCase_nodup (g : Str → J) (hg : ∀ s, (g s).nodup = true) (w : J) :
    w.nodup = true → (match w with | .str s => g s | x => x).nodup = true := by
  intro hw
  cases w <;> first | exact hg _ | exact hw

theorem attrFn_nodup (T : Tables) (cfg : Cfg) (eager : List Str)
    (plan : Str → Str → Str) (g : Bool) (attr : List (Str × J)) (k : Str) (v : J) (hv : v.nodup = true) :
    (attrFn Ctx.cmdDoc T cfg eager plan g attr k v).nodup = true := by
  simp only [attrFn]
  have s1 : ∀ w : J, w.nodup = true →
      J.nodup (if (cfg.ips && decide (k = sRemote)) = true then (match w with | .str _ => J.str T.ipPH | x => x) else w) = true := by
    intro w hw; split
    · exact strCase_nodup (fun _ => .str T.ipPH) (fun _ => rfl) w hw
    · exact hw
  have s2 : ∀ (cc : Ctx) (w : J), w.nodup = true → J.nodup (if cmdKeys.contains k = true then cc.cmdDoc w else w) = true := by
    intro cc w hw; split
    · exact cmdDoc_nodup cc w hw
    · exact hw
  have s3 : ∀ (e : Bool) (w : J), w.nodup = true →
      J.nodup (if (e && decide (k = sPlanSummary)) = true then (match w with | .str s => J.str (plan cfg.repl s) | x => x) else w) = true := by
    intro e w hw; split
    · exact strCase_nodup (fun s => .str (plan cfg.repl s)) (fun _ => rfl) w hw
    · exact hw
  have s4 : ∀ w : J, w.nodup = true →
      J.nodup (if (cfg.ns && decide (k = sNs)) = true then (match w with | .str s => J.str (hashName cfg.repl s) | x => x) else w) = true := by
    intro w hw; split
    · exact strCase_nodup (fun s => .str (hashName cfg.repl s)) (fun _ => rfl) w hw
    · exact hw
  apply s4
  split
  · exact s3 _ _ (s2 _ _ (s1 v hv))
  · exact s1 v hv

/-- `RedactMongoLog`, any flags: a line without duplicate sibling keys stays one -/
theorem redactLine_nodup (T : Tables) (cfg : Cfg) (eager : List Str)
    (plan : Str → Str → Str) (entry : List (Str × J)) (h : (J.obj entry).nodup = true) :
    (J.obj (redactLine T cfg eager plan entry)).nodup = true := by
  unfold redactLine redactLineWith
  split
  · rw [mapKey_eq_mapVals]
    apply mapVals_objNodup _ _ entry h
    intro k v hv
    split
    · cases v with
      | obj attr =>
        simp only []
        rw [redactAttrWith_eq_mapVals]
        exact mapVals_objNodup _ (fun k2 v2 hv2 => attrFn_nodup T cfg eager plan _ attr k2 v2 hv2) attr hv
      | _ => exact hv
    · exact hv
  · exact h

end Anonymongo
