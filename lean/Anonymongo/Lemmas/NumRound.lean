/-
  Lemmas/NumRound.lean — the number scanner commutes with appending text that starts with a JSON
  delimiter (`,` `]` `}`): a number literal that parses on its own parses to the same literal when it
  is followed by the rest of a printed document.
-/
import Anonymongo.Lemmas.NumsOk
namespace Anonymongo

/-- the head of `t`, if any, is one of `,` `]` `}` or JSON white space (exactly `endsValue`) -/
def delimHead (t : Bytes) : Prop :=
  ∀ b, t.head? = some b → (b = 44 ∨ b = 93 ∨ b = 125 ∨ b = 32 ∨ b = 9 ∨ b = 10 ∨ b = 13)

theorem delimHead_notDigit (t : Bytes) (h : delimHead t) : ∀ b, t.head? = some b → isDigit b = false := by
  intro b hb; rcases h b hb with e | e | e | e | e | e | e <;> subst e <;> decide

theorem delimHead_of_endsValue (t : Bytes) (h : endsValue t = true) : delimHead t := by
  intro b hb
  cases t with
  | nil => simp at hb
  | cons x r =>
    simp only [List.head?_cons, Option.some.injEq] at hb; subst hb
    simp only [endsValue, isWs, Bool.or_eq_true, decide_eq_true_eq] at h
    rcases h with (((((h | h) | h) | h) | h) | h) | h <;> simp [h]

theorem takeDigits_ext (t : Bytes) (ht : delimHead t) : ∀ bs,
    takeDigits (bs ++ t) = ((takeDigits bs).1, (takeDigits bs).2 ++ t)
  | [] => by
    cases t with
    | nil => simp [takeDigits]
    | cons b r => simp [takeDigits, delimHead_notDigit _ ht b rfl]
  | x :: xs => by
    simp only [List.cons_append, takeDigits]
    split
    · simp [takeDigits_ext t ht xs]
    · simp

theorem numSign_ext (t : Bytes) (ht : delimHead t) (bs : Bytes) :
    numSign (bs ++ t) = ((numSign bs).1, (numSign bs).2 ++ t) := by
  cases bs with
  | nil =>
    cases t with
    | nil => rfl
    | cons b r =>
      have : b ≠ 45 := by rcases ht b rfl with e | e | e | e | e | e | e <;> subst e <;> decide
      simp [numSign, this]
  | cons x xs =>
    by_cases h : x = 45
    · subst h; rfl
    · simp [numSign, h]

theorem numInt_ext (t : Bytes) (ht : delimHead t) (bs : Bytes) :
    numInt (bs ++ t) = (numInt bs).map (fun p => (p.1, p.2 ++ t)) := by
  cases bs with
  | nil =>
    cases t with
    | nil => rfl
    | cons b r =>
      have h1 : b ≠ 48 := by rcases ht b rfl with e | e | e | e | e | e | e <;> subst e <;> decide
      have h2 : (decide (49 ≤ b) && decide (b ≤ 57)) = false := by rcases ht b rfl with e | e | e | e | e | e | e <;> subst e <;> decide
      simp [numInt, h1, h2]
  | cons x xs =>
    simp only [List.cons_append, numInt]
    split
    · rfl
    · split
      · have := takeDigits_ext t ht (x :: xs)
        simp only [List.cons_append] at this
        simp [this]
      · rfl

theorem numFrac_ext (t : Bytes) (ht : delimHead t) (bs : Bytes) :
    numFrac (bs ++ t) = (numFrac bs).map (fun p => (p.1, p.2 ++ t)) := by
  cases bs with
  | nil =>
    cases t with
    | nil => rfl
    | cons b r =>
      have h1 : b ≠ 46 := by rcases ht b rfl with e | e | e | e | e | e | e <;> subst e <;> decide
      simp [numFrac, h1]
  | cons x xs =>
    by_cases h : x = 46
    · subst h
      simp only [List.cons_append, numFrac, takeDigits_ext t ht xs]
      split <;> simp
    · simp [numFrac, h]

theorem numExpSign_ext (t : Bytes) (ht : delimHead t) (bs : Bytes) :
    numExpSign (bs ++ t) = ((numExpSign bs).1, (numExpSign bs).2 ++ t) := by
  cases bs with
  | nil =>
    cases t with
    | nil => rfl
    | cons b r =>
      have h1 : b ≠ 43 := by rcases ht b rfl with e | e | e | e | e | e | e <;> subst e <;> decide
      have h2 : b ≠ 45 := by rcases ht b rfl with e | e | e | e | e | e | e <;> subst e <;> decide
      simp [numExpSign, h1, h2]
  | cons x xs =>
    by_cases h1 : x = 43
    · subst h1; rfl
    · by_cases h2 : x = 45
      · subst h2; rfl
      · simp [numExpSign, h1, h2]

theorem numExp_ext (t : Bytes) (ht : delimHead t) (bs : Bytes) :
    numExp (bs ++ t) = (numExp bs).map (fun p => (p.1, p.2 ++ t)) := by
  cases bs with
  | nil =>
    cases t with
    | nil => rfl
    | cons b r =>
      have h1 : (decide (b = 101) || decide (b = 69)) = false := by rcases ht b rfl with e | e | e | e | e | e | e <;> subst e <;> decide
      simp [numExp, h1]
  | cons x xs =>
    simp only [List.cons_append, numExp]
    split
    · rw [numExpSign_ext t ht xs]
      simp only [takeDigits_ext t ht]
      split <;> simp
    · simp

/-- **the number scanner ignores what follows a delimiter** -/
theorem parseNumber_ext (t : Bytes) (ht : delimHead t) (bs : Bytes) :
    parseNumber (bs ++ t) = (parseNumber bs).map (fun p => (p.1, p.2 ++ t)) := by
  unfold parseNumber
  simp only [numSign_ext t ht bs, numInt_ext t ht]
  cases numInt (numSign bs).2 with
  | none => rfl
  | some p1 =>
    simp only [Option.map_some, numFrac_ext t ht]
    cases numFrac p1.2 with
    | none => rfl
    | some p2 =>
      simp only [Option.map_some, numExp_ext t ht]
      cases numExp p2.2 with
      | none => rfl
      | some p3 => rfl

end Anonymongo
