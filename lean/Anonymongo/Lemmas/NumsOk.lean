/-
  Lemmas/NumsOk.lean — "number literals contain no control character" is (1) established by the
  parser and (2) preserved by the walkers and by `RedactMongoLog`.
-/
import Anonymongo.Lemmas.PrintLine
import Anonymongo.Lemmas.LineAlg
import Anonymongo.Lemmas.Refine
import Anonymongo.Lemmas.LeafMode
import Anonymongo.Lemmas.Rel
namespace Anonymongo

/-! ### (2) preservation -/

theorem setKV_numsOk (k : Str) (v : J) (hv : v.numsOk = true) : ∀ l, numsOkKVs l = true → numsOkKVs (setKV k v l) = true
  | [], _ => by simp [setKV, numsOkKVs, hv]
  | (k', v') :: rest, h => by
    simp only [numsOkKVs, Bool.and_eq_true] at h
    by_cases e : k' = k
    · simp [setKV, e, numsOkKVs, hv, h.2]
    · simp [setKV, e, numsOkKVs, h.1, setKV_numsOk k v hv rest h.2]

theorem fromPairs_numsOk (ps : List (Str × J)) (h : numsOkKVs ps = true) : numsOkKVs (fromPairs ps) = true := by
  unfold fromPairs
  have : ∀ (l acc : List (Str × J)), numsOkKVs l = true → numsOkKVs acc = true →
      numsOkKVs (l.foldl (fun acc p => setKV p.1 p.2 acc) acc) = true := by
    intro l
    induction l with
    | nil => intro acc _ ha; exact ha
    | cons p t ih =>
      intro acc hl ha
      obtain ⟨k, v⟩ := p
      simp only [numsOkKVs, Bool.and_eq_true] at hl
      exact ih _ hl.2 (setKV_numsOk k v hl.1 acc ha)
  exact this ps [] h rfl

theorem redactScalar_numsOk (T : Tables) (hT : (T.number.all fun c => 0x20 ≤ c.toNat) = true) (cfg : Cfg) (kp : List Str) (S sel : Bool)
    (v : J) (hv : v.isScalar = true) (h : v.numsOk = true) : (redactScalar T cfg kp v S sel).numsOk = true := by
  unfold redactScalar
  cases v <;> simp only [J.isScalar, Bool.false_eq_true] at hv <;>
    simp only [redactByKind] <;> (repeat' split) <;> simp_all [J.numsOk]

namespace Ctx

theorem applyMode_numsOk (c : Ctx) (hT : (c.T.number.all fun ch => 0x20 ≤ ch.toNat) = true) (m : Mode) (v : J)
    (hv : v.isScalar = true) (h : v.numsOk = true) : (c.applyMode m v).numsOk = true := by
  cases m with
  | keep => exact h
  | hash s => simp [applyMode, J.numsOk]
  | scalar kp S sel => exact redactScalar_numsOk c.T hT c.cfg kp S sel v hv h

mutual
theorem run_numsOk (c : Ctx) (hT : (c.T.number.all fun ch => 0x20 ≤ ch.toNat) = true) :
    ∀ (s : St) (v : J), v.numsOk = true → (c.run s v).numsOk = true
  | s, .obj kvs, h => by
    simp only [run]
    cases hn : c.node s (.obj kvs) with
    | obj f =>
      simp only [J.numsOk] at h ⊢
      exact fromPairs_numsOk _ (runKVs_numsOk c hT f kvs h)
    | keep => exact h
    | arr s' => exact h
    | leaf o => exact absurd hn (node_obj_not_leaf' c s kvs o)
  | s, .arr xs, h => by
    simp only [run]
    cases hn : c.node s (.arr xs) with
    | arr s' => simp only [J.numsOk] at h ⊢; exact runList_numsOk c hT s' xs h
    | keep => exact h
    | obj f => exact h
    | leaf o => exact absurd hn (node_arr_not_leaf' c s xs o)
  | s, .null, h => by rw [run_scalar c s _ (by simp [J.isScalar])]; exact applyMode_numsOk c hT _ _ (by simp [J.isScalar]) h
  | s, .bool b, h => by rw [run_scalar c s _ (by simp [J.isScalar])]; exact applyMode_numsOk c hT _ _ (by simp [J.isScalar]) h
  | s, .num l, h => by rw [run_scalar c s _ (by simp [J.isScalar])]; exact applyMode_numsOk c hT _ _ (by simp [J.isScalar]) h
  | s, .str x, h => by rw [run_scalar c s _ (by simp [J.isScalar])]; exact applyMode_numsOk c hT _ _ (by simp [J.isScalar]) h
theorem runKVs_numsOk (c : Ctx) (hT : (c.T.number.all fun ch => 0x20 ≤ ch.toNat) = true) (f : Str → J → Str × St) :
    ∀ kvs, numsOkKVs kvs = true → numsOkKVs (c.runKVs f kvs) = true
  | [], _ => by simp [runKVs, numsOkKVs]
  | (k, v) :: rest, h => by
    simp only [numsOkKVs, Bool.and_eq_true] at h
    simp only [runKVs, numsOkKVs, Bool.and_eq_true]
    exact ⟨run_numsOk c hT _ v h.1, runKVs_numsOk c hT f rest h.2⟩
theorem runList_numsOk (c : Ctx) (hT : (c.T.number.all fun ch => 0x20 ≤ ch.toNat) = true) :
    ∀ (s : St) (xs : List J), numsOkList xs = true → numsOkList (c.runList s xs) = true
  | _, [], _ => by simp [runList, numsOkList]
  | s, x :: xs, h => by
    simp only [numsOkList, Bool.and_eq_true] at h
    simp only [runList, numsOkList, Bool.and_eq_true]
    exact ⟨run_numsOk c hT s x h.1, runList_numsOk c hT s xs h.2⟩
end

end Ctx
end Anonymongo

namespace Anonymongo

/-! ### (1) the parser establishes it -/

def numByte (b : UInt8) : Bool := isDigit b || b = 45 || b = 43 || b = 46 || b = 101 || b = 69

theorem takeDigits_ok : ∀ bs, ∀ b ∈ (takeDigits bs).1, numByte b = true
  | [], b, hb => by simp [takeDigits] at hb
  | x :: rest, b, hb => by
    simp only [takeDigits] at hb
    split at hb
    · rename_i hd
      simp only [List.mem_cons] at hb
      rcases hb with hb | hb
      · subst hb; simp [numByte, hd]
      · exact takeDigits_ok rest b hb
    · simp at hb

theorem numSign_ok (bs : Bytes) : ∀ b ∈ (numSign bs).1, numByte b = true := by
  unfold numSign; split <;> simp [numByte]

theorem numInt_ok (bs ip r : Bytes) (h : numInt bs = some (ip, r)) : ∀ b ∈ ip, numByte b = true := by
  unfold numInt at h
  split at h
  · simp at h
  · split at h
    · simp only [Option.some.injEq, Prod.mk.injEq] at h; obtain ⟨rfl, _⟩ := h; simp [numByte, isDigit]
    · split at h
      · rename_i b0 r0 _ _
        simp only [Option.some.injEq] at h
        intro b hb
        have := takeDigits_ok (b0 :: r0) b (by rw [h]; exact hb)
        exact this
      · simp at h

theorem numFrac_ok (bs fp r : Bytes) (h : numFrac bs = some (fp, r)) : ∀ b ∈ fp, numByte b = true := by
  unfold numFrac at h
  split at h
  · rename_i r0
    split at h
    · simp at h
    · simp only [Option.some.injEq, Prod.mk.injEq] at h
      obtain ⟨h1, _⟩ := h
      subst h1
      intro b hb
      simp only [List.mem_cons] at hb
      rcases hb with hb | hb
      · rw [hb]; simp [numByte]
      · exact takeDigits_ok r0 b hb
  · simp only [Option.some.injEq, Prod.mk.injEq] at h; obtain ⟨rfl, _⟩ := h; simp

theorem numExpSign_ok (bs : Bytes) : ∀ b ∈ (numExpSign bs).1, numByte b = true := by
  unfold numExpSign; split <;> simp [numByte]

theorem numExp_ok (bs ep r : Bytes) (h : numExp bs = some (ep, r)) : ∀ b ∈ ep, numByte b = true := by
  unfold numExp at h
  split at h
  · simp only [Option.some.injEq, Prod.mk.injEq] at h; obtain ⟨rfl, _⟩ := h; simp
  · rename_i e r0
    split at h
    · rename_i he
      split at h
      · simp at h
      · simp only [Option.some.injEq, Prod.mk.injEq] at h
        obtain ⟨h1, _⟩ := h
        subst h1
        intro b hb
        simp only [List.mem_cons, List.mem_append] at hb
        rcases hb with (hb | hb) | hb
        · rw [hb]
          simp only [Bool.or_eq_true, decide_eq_true_eq] at he
          rcases he with he | he <;> rw [he] <;> simp [numByte]
        · exact numExpSign_ok r0 b hb
        · exact takeDigits_ok _ b hb
    · simp only [Option.some.injEq, Prod.mk.injEq] at h; obtain ⟨rfl, _⟩ := h; simp

theorem parseNumber_ok (bs lit r : Bytes) (h : parseNumber bs = some (lit, r)) : ∀ b ∈ lit, numByte b = true := by
  unfold parseNumber at h
  simp only [] at h
  split at h
  · simp at h
  · rename_i ip r1 hi
    split at h
    · simp at h
    · rename_i fp r2 hf
      split at h
      · simp at h
      · rename_i ep r3 he
        simp only [Option.some.injEq, Prod.mk.injEq] at h
        obtain ⟨rfl, _⟩ := h
        intro b hb
        simp only [List.mem_append] at hb
        rcases hb with ((hb | hb) | hb) | hb
        · exact numSign_ok bs b hb
        · exact numInt_ok _ ip r1 hi b hb
        · exact numFrac_ok _ fp r2 hf b hb
        · exact numExp_ok _ ep r3 he b hb

theorem ofNat_toNat_small (n : Nat) (h : n < 0xd800) : (Char.ofNat n).toNat = n := by
  have hv : n.isValidChar := Or.inl h
  simp only [Char.ofNat, hv, dite_true, Char.ofNatAux, Char.toNat]
  show (UInt32.ofNatLT n _).toNat = n
  simp

theorem numByte_char (b : UInt8) (h : numByte b = true) : 0x20 ≤ (Char.ofNat b.toNat).toNat := by
  have hb : b.toNat < 256 := b.toNat_lt
  have h2 : 0x20 ≤ b.toNat := by
    simp only [numByte, isDigit, Bool.or_eq_true, Bool.and_eq_true, decide_eq_true_eq] at h
    rcases h with ((((h | h) | h) | h) | h) | h
    · have := UInt8.le_iff_toNat_le.mp h.1; simp at this; omega
    all_goals (subst h; decide)
  rw [ofNat_toNat_small _ (by omega)]; exact h2

end Anonymongo

namespace Anonymongo

theorem numLit_ok (lit : Bytes) (h : ∀ b ∈ lit, numByte b = true) :
    ((lit.map fun x => Char.ofNat x.toNat).all fun c => 0x20 ≤ c.toNat) = true := by
  simp only [List.all_eq_true, List.mem_map, decide_eq_true_eq]
  rintro c ⟨b, hb, rfl⟩
  exact numByte_char b (h b hb)

mutual
theorem parseValue_numsOk : ∀ (fuel : Nat) (bs : Bytes) (v : J) (r : Bytes), parseValue fuel bs = some (v, r) → v.numsOk = true
  | 0, _, _, _, h => by simp [parseValue] at h
  | fuel + 1, bs, v, r, h => by
    simp only [parseValue] at h
    split at h
    · simp at h
    · -- '{'
      split at h
      · simp only [Option.some.injEq, Prod.mk.injEq] at h; obtain ⟨rfl, _⟩ := h; rfl
      · simp only [Option.map_eq_some_iff] at h
        obtain ⟨⟨kvs, r'⟩, hm, he⟩ := h
        simp only [Prod.mk.injEq] at he
        obtain ⟨rfl, _⟩ := he
        simpa [J.numsOk] using parseMembers_numsOk fuel _ [] kvs r' rfl hm
    · -- '['
      split at h
      · simp only [Option.some.injEq, Prod.mk.injEq] at h; obtain ⟨rfl, _⟩ := h; rfl
      · simp only [Option.map_eq_some_iff] at h
        obtain ⟨⟨xs, r'⟩, hm, he⟩ := h
        simp only [Prod.mk.injEq] at he
        obtain ⟨rfl, _⟩ := he
        simpa [J.numsOk] using parseElems_numsOk fuel _ xs r' hm
    · -- string
      split at h
      · split at h
        · simp only [Option.some.injEq, Prod.mk.injEq] at h; obtain ⟨rfl, _⟩ := h; rfl
        · simp at h
      · simp at h
    · -- true / false / null / number
      split at h
      · (repeat' split at h) <;> first | (simp at h; done) | (simp only [Option.some.injEq, Prod.mk.injEq] at h; obtain ⟨rfl, _⟩ := h; rfl)
      · split at h
        · (repeat' split at h) <;> first | (simp at h; done) | (simp only [Option.some.injEq, Prod.mk.injEq] at h; obtain ⟨rfl, _⟩ := h; rfl)
        · split at h
          · (repeat' split at h) <;> first | (simp at h; done) | (simp only [Option.some.injEq, Prod.mk.injEq] at h; obtain ⟨rfl, _⟩ := h; rfl)
          · split at h
            · rename_i lit r1 hp
              split at h
              · simp only [Option.some.injEq, Prod.mk.injEq] at h
                obtain ⟨rfl, _⟩ := h
                simp only [J.numsOk]
                exact numLit_ok lit (parseNumber_ok _ lit r1 hp)
              · simp at h
            · simp at h
theorem parseMembers_numsOk : ∀ (fuel : Nat) (bs : Bytes) (acc kvs : List (Str × J)) (r : Bytes),
    numsOkKVs acc = true → parseMembers fuel bs acc = some (kvs, r) → numsOkKVs kvs = true
  | 0, _, _, _, _, _, h => by simp [parseMembers] at h
  | fuel + 1, bs, acc, kvs, r, ha, h => by
    simp only [parseMembers] at h
    split at h
    · split at h
      · simp at h
      · rename_i k r1 _
        split at h
        · split at h
          · simp at h
          · rename_i v r3 hv
            have hvok := parseValue_numsOk fuel _ v r3 hv
            have hacc := setKV_numsOk k v hvok acc ha
            split at h
            · split at h
              · simp at h
              · exact parseMembers_numsOk fuel _ _ kvs r hacc h
            · simp only [Option.some.injEq, Prod.mk.injEq] at h; obtain ⟨rfl, _⟩ := h; exact hacc
            · simp at h
        · simp at h
    · simp at h
theorem parseElems_numsOk : ∀ (fuel : Nat) (bs : Bytes) (xs : List J) (r : Bytes),
    parseElems fuel bs = some (xs, r) → numsOkList xs = true
  | 0, _, _, _, h => by simp [parseElems] at h
  | fuel + 1, bs, xs, r, h => by
    simp only [parseElems] at h
    split at h
    · simp at h
    · rename_i v r1 hv
      have hvok := parseValue_numsOk fuel _ v r1 hv
      split at h
      · split at h
        · simp at h
        · simp only [Option.map_eq_some_iff] at h
          obtain ⟨⟨ys, r'⟩, hm, he⟩ := h
          simp only [Prod.mk.injEq] at he
          obtain ⟨rfl, _⟩ := he
          simp [numsOkList, hvok, parseElems_numsOk fuel _ ys r' hm]
      · simp only [Option.some.injEq, Prod.mk.injEq] at h; obtain ⟨rfl, _⟩ := h; simp [numsOkList, hvok]
      · simp at h
end

/-- every line the parser accepts has number literals free of control characters -/
theorem parseObj_numsOk (bs : Bytes) (e : List (Str × J)) (h : parseObj bs = some e) : numsOkKVs e = true := by
  unfold parseObj at h
  split at h
  · rename_i kvs r hp
    split at h
    · simp only [Option.some.injEq] at h; subst h
      simpa [J.numsOk] using parseValue_numsOk _ bs (.obj kvs) r hp
    · simp at h
  · simp at h

end Anonymongo

namespace Anonymongo

/-! ### `RedactMongoLog` preserves it -/

theorem mapVals_numsOk (h : Str → J → J) (hh : ∀ k v, v.numsOk = true → (h k v).numsOk = true) :
    ∀ l, numsOkKVs l = true → numsOkKVs (mapVals h l) = true
  | [], _ => rfl
  | (k, v) :: rest, hl => by
    simp only [numsOkKVs, Bool.and_eq_true] at hl
    have ih := mapVals_numsOk h hh rest hl.2
    simp only [mapVals, List.map_cons, numsOkKVs, Bool.and_eq_true] at ih ⊢
    exact ⟨hh k v hl.1, ih⟩


theorem nsFieldVal_numsOk (c : Ctx) (k : Str) (v : J) (hv : J.numsOk v = true) : J.numsOk (c.nsFieldVal k v) = true := by
  cases v <;> simp only [Ctx.nsFieldVal] <;> (try split) <;> simp_all [J.numsOk]

theorem nsDocOf_numsOk (c : Ctx) (v : J) (hv : J.numsOk v = true) : J.numsOk (c.nsDocOf v) = true := by
  cases v with
  | obj m =>
    simp only [Ctx.nsDocOf, J.numsOk] at hv ⊢
    exact mapVals_numsOk _ (fun k v hv => nsFieldVal_numsOk c k v hv) m hv
  | _ => exact hv

theorem mapList_numsOk (f : J → J) (hf : ∀ x, J.numsOk x = true → J.numsOk (f x) = true) :
    ∀ xs : List J, numsOkList xs = true → numsOkList (xs.map f) = true
  | [], _ => rfl
  | x :: xs, h => by
    simp only [numsOkList, Bool.and_eq_true] at h
    simp only [List.map_cons, numsOkList, Bool.and_eq_true]
    exact ⟨hf x h.1, mapList_numsOk f hf xs h.2⟩

theorem nsVal_numsOk (c : Ctx) (k : Str) (v : J) (hv : J.numsOk v = true) : J.numsOk (c.nsVal k v) = true := by
  unfold Ctx.nsVal
  split
  · exact nsDocOf_numsOk c v hv
  · split
    · cases v with
      | arr xs =>
        simp only [J.numsOk] at hv ⊢
        exact mapList_numsOk _ (fun x hx => nsDocOf_numsOk c x hx) xs hv
      | _ => exact hv
    · exact nsFieldVal_numsOk c k v hv

theorem cmdDoc_numsOk (c : Ctx) (hT : (c.T.number.all fun ch => 0x20 ≤ ch.toNat) = true) (v : J) (h : v.numsOk = true) :
    (c.cmdDoc v).numsOk = true := by
  rw [← Ctx.cmdDoc_refine]
  cases v with
  | obj cmd =>
    simp only [J.numsOk] at h
    have e1 : c.redactCommandA cmd = mapVals (fun k v => c.run (Ctx.zoneState (lookup sInsert cmd).isSome (lookup sBulkWrite cmd).isSome k) v) cmd := rfl
    have e2 : ∀ l, c.redactNamespace l = mapVals c.nsVal l := fun _ => rfl
    have h1 : numsOkKVs (c.redactCommandA cmd) = true := by
      rw [e1]; exact mapVals_numsOk _ (fun k v hv => Ctx.run_numsOk c hT _ v hv) cmd h
    simp only [Ctx.cmdDocA]
    split
    · simp only [J.numsOk]; rw [e2]
      apply mapVals_numsOk _ _ _ h1
      intro k v hv
      exact nsVal_numsOk c k v hv
    · simpa [J.numsOk] using h1
  | _ => exact h

theorem strCase_numsOk (g : Str → J) (hg : ∀ s, (g s).numsOk = true) (w : J) (hw : w.numsOk = true) :
    (match w with | .str s => g s | x => x).numsOk = true := by
  cases w <;> first | exact hg _ | exact hw

theorem attrFn_numsOk (T : Tables) (hT : (T.number.all fun ch => 0x20 ≤ ch.toNat) = true) (cfg : Cfg) (eager : List Str)
    (plan : Str → Str → Str) (g : Bool) (attr : List (Str × J)) (k : Str) (v : J) (hv : v.numsOk = true) :
    (attrFn Ctx.cmdDoc T cfg eager plan g attr k v).numsOk = true := by
  simp only [attrFn]
  have s1 : ∀ w : J, w.numsOk = true →
      (if (cfg.ips && decide (k = sRemote)) = true then (match w with | .str _ => J.str T.ipPH | x => x) else w).numsOk = true := by
    intro w hw; split
    · exact strCase_numsOk (fun _ => .str T.ipPH) (fun _ => rfl) w hw
    · exact hw
  have s2 : ∀ (cc : Ctx) (w : J), cc.T = T → w.numsOk = true → (if cmdKeys.contains k = true then cc.cmdDoc w else w).numsOk = true := by
    intro cc w hc hw; split
    · exact cmdDoc_numsOk cc (by rw [hc]; exact hT) w hw
    · exact hw
  have s3 : ∀ (e : Bool) (w : J), w.numsOk = true →
      (if (e && decide (k = sPlanSummary)) = true then (match w with | .str s => J.str (plan cfg.repl s) | x => x) else w).numsOk = true := by
    intro e w hw; split
    · exact strCase_numsOk (fun s => .str (plan cfg.repl s)) (fun _ => rfl) w hw
    · exact hw
  have s4 : ∀ w : J, w.numsOk = true →
      (if (cfg.ns && decide (k = sNs)) = true then (match w with | .str s => J.str (hashName cfg.repl s) | x => x) else w).numsOk = true := by
    intro w hw; split
    · exact strCase_numsOk (fun s => .str (hashName cfg.repl s)) (fun _ => rfl) w hw
    · exact hw
  apply s4
  split
  · exact s3 _ _ (s2 _ _ rfl (s1 v hv))
  · exact s1 v hv

theorem redactLine_numsOk (T : Tables) (hT : (T.number.all fun ch => 0x20 ≤ ch.toNat) = true) (cfg : Cfg) (eager : List Str)
    (plan : Str → Str → Str) (entry : List (Str × J)) (h : numsOkKVs entry = true) :
    numsOkKVs (redactLine T cfg eager plan entry) = true := by
  unfold redactLine redactLineWith
  split
  · rw [mapKey_eq_mapVals]
    apply mapVals_numsOk _ _ entry h
    intro k v hv
    split
    · cases v with
      | obj attr =>
        simp only [J.numsOk] at hv ⊢
        rw [redactAttrWith_eq_mapVals]
        exact mapVals_numsOk _ (fun k2 v2 hv2 => attrFn_numsOk T hT cfg eager plan _ attr k2 v2 hv2) attr hv
      | _ => exact hv
    · exact hv
  · exact h

end Anonymongo
