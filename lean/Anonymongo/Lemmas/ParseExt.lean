/-
  Lemmas/ParseExt.lean — the parser reads a value from the FRONT of its input and what follows does
  not matter: if a string body / a value / a member list is accepted on `x` leaving `r`, it is
  accepted on `x ++ q` leaving `r ++ q`, with the same result, for every `q` and any larger fuel
  (for a scalar: provided something is left, so that the end-of-value test already saw a delimiter).
  Consequence (`parseObj_prefix`): if a byte string and a proper extension of it are both accepted
  as log lines, they are the same object followed by white space — a line cut anywhere inside its
  object is never accepted (C08: a damaged stream cannot yield a line that was not in the input).
-/
import Anonymongo.Lemmas.NumRound
import Anonymongo.Lemmas.JsonRound
import Anonymongo.Lemmas.ParseValid
namespace Anonymongo

theorem getu4_ext (x q : Bytes) (n : Nat) (r : Bytes) (h : getu4 x = some (n, r)) : getu4 (x ++ q) = some (n, r ++ q) := by
  match x, h with
  | a :: b :: c :: d :: rest, h =>
    simp only [getu4] at h ⊢
    simp only [List.cons_append, getu4]
    cases ha : hexVal a <;> cases hb : hexVal b <;> cases hc : hexVal c <;> cases hd : hexVal d <;>
      simp_all
  | [], h => simp [getu4] at h
  | [_], h => simp [getu4] at h
  | [_, _], h => simp [getu4] at h
  | [_, _, _], h => simp [getu4] at h

theorem getu4_suffix (x : Bytes) (n : Nat) (r : Bytes) (h : getu4 x = some (n, r)) : ∃ pre, x = pre ++ r := by
  match x, h with
  | a :: b :: c :: d :: rest, h =>
    simp only [getu4] at h
    cases ha : hexVal a <;> cases hb : hexVal b <;> cases hc : hexVal c <;> cases hd : hexVal d <;>
      simp_all
    exact ⟨[a, b, c, d], by simp [h.2]⟩
  | [], h => simp [getu4] at h
  | [_], h => simp [getu4] at h
  | [_, _], h => simp [getu4] at h
  | [_, _, _], h => simp [getu4] at h

/-- what `decodeRune` leaves is a suffix of what it was given -/
theorem decodeRune_suffix (b0 : UInt8) (rest : Bytes) : ∃ pre, rest = pre ++ (decodeRune b0 rest).2 := by
  unfold decodeRune
  simp only []
  repeat' split
  all_goals first
    | exact ⟨[], rfl⟩
    | exact ⟨[_], rfl⟩
    | exact ⟨[_, _], rfl⟩
    | exact ⟨[_, _, _], rfl⟩

theorem isCont_34 : isCont 34 = false := by decide

theorem lo3_34 (b0 : UInt8) : decide ((if b0 = 0xE0 then (0xA0 : UInt8) else 0x80) ≤ 34) = false := by
  split <;> decide

theorem lo4_34 (b0 : UInt8) : decide ((if b0 = 0xF0 then (0x90 : UInt8) else 0x80) ≤ 34) = false := by
  split <;> decide

theorem ite_pair {α} (C : Prop) [Decidable C] (x y : α) (r s q : Bytes) :
    (if C then (x, r ++ q) else (y, s ++ q)) = ((if C then (x, r) else (y, s)).1, (if C then (x, r) else (y, s)).2 ++ q) := by
  by_cases h : C <;> simp [h]

/-- with a quote somewhere in the rest, the bytes after the rest cannot change what `decodeRune` sees -/
theorem decodeRune_ext (b0 : UInt8) (rest q : Bytes) (hq : 34 ∈ rest) :
    decodeRune b0 (rest ++ q) = ((decodeRune b0 rest).1, (decodeRune b0 rest).2 ++ q) := by
  unfold decodeRune
  simp only []
  by_cases h1 : b0 < 0x80
  · simp only [h1, if_true]
  · simp only [h1, if_false]
    by_cases h2 : (decide (0xC2 ≤ b0) && decide (b0 ≤ 0xDF)) = true
    · simp only [h2, if_true]
      cases rest with
      | nil => simp at hq
      | cons b1 r => exact ite_pair _ _ _ _ _ _
    · simp only [h2, Bool.false_eq_true, if_false]
      by_cases h3 : (decide (0xE0 ≤ b0) && decide (b0 ≤ 0xEF)) = true
      · simp only [h3, if_true]
        match rest, hq with
        | b1 :: b2 :: r, _ => exact ite_pair _ _ _ _ _ _
        | [b1], hq =>
          have hb : b1 = 34 := (by simpa using hq : (34 : UInt8) = b1).symm
          subst hb
          cases q with
          | nil => rfl
          | cons c q' =>
            simp only [List.cons_append, List.nil_append, lo3_34, Bool.false_and, Bool.false_eq_true, if_false]
      · simp only [h3, Bool.false_eq_true, if_false]
        by_cases h4 : (decide (0xF0 ≤ b0) && decide (b0 ≤ 0xF4)) = true
        · simp only [h4, if_true]
          match rest, hq with
          | b1 :: b2 :: b3 :: r, _ => exact ite_pair _ _ _ _ _ _
          | [b1], hq =>
            have hb : b1 = 34 := (by simpa using hq : (34 : UInt8) = b1).symm
            subst hb
            match q with
            | [] => rfl
            | [c] => rfl
            | c :: d :: q' =>
              simp only [List.cons_append, List.nil_append, lo4_34, Bool.false_and, Bool.false_eq_true, if_false]
          | [b1, b2], hq =>
            have hb : b1 = 34 ∨ b2 = 34 := by
              have : (34 : UInt8) = b1 ∨ (34 : UInt8) = b2 := by simpa using hq
              exact this.imp Eq.symm Eq.symm
            match q with
            | [] => rfl
            | c :: q' =>
              simp only [List.cons_append, List.nil_append]
              rcases hb with rfl | rfl
              · simp only [lo4_34, Bool.false_and, Bool.false_eq_true, if_false]
              · simp only [isCont_34, Bool.and_false, Bool.false_and, Bool.false_eq_true, if_false]
        · simp only [h4, Bool.false_eq_true, if_false]

theorem parseStrBody_nil (f : Nat) : parseStrBody f [] = none := by cases f <;> simp [parseStrBody]

/-- a one-byte string body can only be the closing quote -/
theorem parseStrBody_single (f : Nat) (a : UInt8) (y : Str × Bytes) (h : parseStrBody f [a] = some y) : a = 34 := by
  cases f with
  | zero => simp [parseStrBody] at h
  | succ f =>
    unfold parseStrBody at h
    by_cases h34 : a = 34
    · exact h34
    · simp only [h34, if_false] at h
      by_cases hlo : a < 0x20
      · simp [hlo] at h
      · simp only [hlo, if_false] at h
        by_cases h92 : a = 92
        · simp [h92] at h
        · simp only [h92, if_false] at h
          obtain ⟨pre, hpre⟩ := decodeRune_suffix a []
          have : (decodeRune a []).2 = [] := by
            have := congrArg List.length hpre
            simp at this
            exact List.eq_nil_of_length_eq_zero (by omega)
          rw [this, parseStrBody_nil] at h
          simp at h

theorem parseStrBody_u_none (f : Nat) (r2 : Bytes) (h : getu4 r2 = none) : parseStrBody f (92 :: 117 :: r2) = none := by
  cases f with
  | zero => simp [parseStrBody]
  | succ f => simp [parseStrBody, h]

theorem mem_of_suffix {a : UInt8} {x pre r : Bytes} (h : x = pre ++ r) (hm : a ∈ r) : a ∈ x := by
  rw [h]; exact List.mem_append_right _ hm

/-- **string bodies**: an accepted string body contains its closing quote, and whatever follows the
    input does not matter (nor does extra fuel) -/
theorem parseStrBody_ext : ∀ (f : Nat) (x : Bytes) (s : Str) (r : Bytes), parseStrBody f x = some (s, r) →
    34 ∈ x ∧ ∀ (f' : Nat) (q : Bytes), f ≤ f' → parseStrBody f' (x ++ q) = some (s, r ++ q)
  | 0, _, _, _, h => by simp [parseStrBody] at h
  | _ + 1, [], _, _, h => by simp [parseStrBody] at h
  | f + 1, b :: rest, s, r, h => by
    -- the recursive step shared by every branch
    have step : ∀ (c : Char) (y : Bytes) (pre : Bytes), b :: rest = pre ++ y →
        (parseStrBody f y).map (fun (p : Str × Bytes) => (c :: p.1, p.2)) = some (s, r) →
        34 ∈ b :: rest ∧ ∀ (f'' : Nat) (q : Bytes), f ≤ f'' →
          (parseStrBody f'' (y ++ q)).map (fun (p : Str × Bytes) => (c :: p.1, p.2)) = some (s, r ++ q) := by
      intro c y pre hpre hm
      cases hy : parseStrBody f y with
      | none => simp [hy] at hm
      | some p =>
        obtain ⟨s', r'⟩ := p
        simp only [hy, Option.map_some, Option.some.injEq, Prod.mk.injEq] at hm
        obtain ⟨hs, hr⟩ := hm
        have ih := parseStrBody_ext f y s' r' hy
        refine ⟨mem_of_suffix hpre ih.1, ?_⟩
        intro f'' q hf
        rw [ih.2 f'' q hf]
        simp [hs, hr]
    unfold parseStrBody at h
    by_cases h34 : b = 34
    · subst h34
      simp only [if_true, Option.some.injEq, Prod.mk.injEq] at h
      obtain ⟨hs, hr⟩ := h
      subst hs; subst hr
      refine ⟨by simp, ?_⟩
      intro f' q hf
      cases f' with
      | zero => omega
      | succ f'' => simp [parseStrBody]
    · simp only [h34, if_false] at h
      by_cases hlo : b < 0x20
      · simp [hlo] at h
      · simp only [hlo, if_false] at h
        by_cases h92 : b = 92
        · subst h92
          simp only [if_true] at h
          cases rest with
          | nil => simp at h
          | cons e rest' =>
            simp only [] at h
            have simple : ∀ (c : Char),
                (parseStrBody f rest').map (fun (p : Str × Bytes) => (c :: p.1, p.2)) = some (s, r) →
                34 ∈ (92 : UInt8) :: e :: rest' ∧ ∀ (f'' : Nat) (q : Bytes), f ≤ f'' →
                  (parseStrBody f'' (rest' ++ q)).map (fun (p : Str × Bytes) => (c :: p.1, p.2)) = some (s, r ++ q) :=
              fun c hm => step c rest' [92, e] rfl hm
            have lift : ∀ (P : Nat → Bytes → Option (Str × Bytes)),
                (∀ (f'' : Nat) (q : Bytes), f ≤ f'' → P f'' q = some (s, r ++ q)) →
                (∀ (f'' : Nat) (q : Bytes), parseStrBody (f'' + 1) (92 :: e :: (rest' ++ q)) = P f'' q) →
                ∀ (f' : Nat) (q : Bytes), f + 1 ≤ f' → parseStrBody f' ((92 : UInt8) :: e :: rest' ++ q) = some (s, r ++ q) := by
              intro P hP hE f' q hf
              cases f' with
              | zero => omega
              | succ f'' => simp only [List.cons_append]; rw [hE f'' q]; exact hP f'' q (by omega)
            by_cases e1 : e = 34
            · subst e1; simp only [if_true] at h
              have := simple _ h
              exact ⟨this.1, lift _ this.2 (fun f'' q => by simp [parseStrBody])⟩
            · simp only [e1, if_false] at h
              by_cases e2 : e = 92
              · subst e2; simp only [if_true] at h
                have := simple _ h
                exact ⟨this.1, lift _ this.2 (fun f'' q => by simp [parseStrBody])⟩
              · simp only [e2, if_false] at h
                by_cases e3 : e = 47
                · subst e3; simp only [if_true] at h
                  have := simple _ h
                  exact ⟨this.1, lift _ this.2 (fun f'' q => by simp [parseStrBody])⟩
                · simp only [e3, if_false] at h
                  by_cases e4 : e = 98
                  · subst e4; simp only [if_true] at h
                    have := simple _ h
                    exact ⟨this.1, lift _ this.2 (fun f'' q => by simp [parseStrBody])⟩
                  · simp only [e4, if_false] at h
                    by_cases e5 : e = 102
                    · subst e5; simp only [if_true] at h
                      have := simple _ h
                      exact ⟨this.1, lift _ this.2 (fun f'' q => by simp [parseStrBody])⟩
                    · simp only [e5, if_false] at h
                      by_cases e6 : e = 110
                      · subst e6; simp only [if_true] at h
                        have := simple _ h
                        exact ⟨this.1, lift _ this.2 (fun f'' q => by simp [parseStrBody])⟩
                      · simp only [e6, if_false] at h
                        by_cases e7 : e = 114
                        · subst e7; simp only [if_true] at h
                          have := simple _ h
                          exact ⟨this.1, lift _ this.2 (fun f'' q => by simp [parseStrBody])⟩
                        · simp only [e7, if_false] at h
                          by_cases e8 : e = 116
                          · subst e8; simp only [if_true] at h
                            have := simple _ h
                            exact ⟨this.1, lift _ this.2 (fun f'' q => by simp [parseStrBody])⟩
                          · simp only [e8, if_false] at h
                            by_cases e9 : e = 117
                            · subst e9; simp only [if_true] at h
                              cases hg : getu4 rest' with
                              | none => simp [hg] at h
                              | some g =>
                                obtain ⟨rr, r1⟩ := g
                                simp only [hg] at h
                                obtain ⟨pre1, hpre1⟩ := getu4_suffix rest' rr r1 hg
                                have hge := fun q => getu4_ext rest' q rr r1 hg
                                have stepAt : ∀ (c : Char) (y pre : Bytes), r1 = pre ++ y →
                                    (parseStrBody f y).map (fun (p : Str × Bytes) => (c :: p.1, p.2)) = some (s, r) →
                                    34 ∈ (92 : UInt8) :: 117 :: rest' ∧ ∀ (f'' : Nat) (q : Bytes), f ≤ f'' →
                                      (parseStrBody f'' (y ++ q)).map (fun (p : Str × Bytes) => (c :: p.1, p.2)) = some (s, r ++ q) :=
                                  fun c y pre hy hm => step c y (92 :: 117 :: (pre1 ++ pre)) (by simp [hpre1, hy]) hm
                                by_cases hsur : (decide (0xD800 ≤ rr) && decide (rr < 0xE000)) = true
                                · simp only [hsur, if_true] at h
                                  -- a surrogate escape
                                  cases r1 with
                                  | nil => simp only [parseStrBody_nil] at h; simp at h
                                  | cons a t =>
                                    cases t with
                                    | nil =>
                                      simp only [] at h
                                      have ha : a = 34 := by
                                        cases hy : parseStrBody f [a] with
                                        | none => simp [hy] at h
                                        | some y => exact parseStrBody_single f a y hy
                                      subst ha
                                      have := stepAt _ [34] [] (by simp) h
                                      refine ⟨this.1, lift _ this.2 (fun f'' q => ?_)⟩
                                      simp only [parseStrBody, if_true, hge q, hsur]
                                      simp
                                    | cons c r2 =>
                                      by_cases hac : a = 92 ∧ c = 117
                                      · obtain ⟨ha, hc⟩ := hac
                                        subst ha; subst hc
                                        simp only [] at h
                                        cases hg2 : getu4 r2 with
                                        | none =>
                                          simp only [hg2] at h
                                          rw [parseStrBody_u_none f r2 hg2] at h
                                          simp at h
                                        | some g2 =>
                                          obtain ⟨rr1, r3⟩ := g2
                                          simp only [hg2] at h
                                          obtain ⟨pre3, hpre3⟩ := getu4_suffix r2 rr1 r3 hg2
                                          have hge2 := fun q => getu4_ext r2 q rr1 r3 hg2
                                          by_cases hcond : (decide (rr < 0xDC00) && decide (0xDC00 ≤ rr1) && decide (rr1 < 0xE000)) = true
                                          · simp only [hcond, if_true] at h
                                            have := stepAt _ r3 (92 :: 117 :: pre3) (by simp [hpre3]) h
                                            refine ⟨this.1, lift _ this.2 (fun f'' q => ?_)⟩
                                            simp only [parseStrBody, if_true, hge q, hsur, List.cons_append, hge2 q, hcond]
                                            simp
                                          · simp only [hcond, Bool.false_eq_true, if_false] at h
                                            have := stepAt _ (92 :: 117 :: r2) [] (by simp) h
                                            refine ⟨this.1, lift _ this.2 (fun f'' q => ?_)⟩
                                            simp only [parseStrBody, if_true, hge q, hsur, List.cons_append, hge2 q, hcond]
                                            simp
                                      · have hlone : (parseStrBody f (a :: c :: r2)).map (fun (p : Str × Bytes) => (replacementChar :: p.1, p.2)) = some (s, r) := by
                                          split at h
                                          · rename_i heq
                                            simp only [List.cons.injEq] at heq
                                            exact absurd ⟨heq.1, heq.2.1⟩ hac
                                          · exact h
                                        have := stepAt _ (a :: c :: r2) [] (by simp) hlone
                                        refine ⟨this.1, lift _ this.2 (fun f'' q => ?_)⟩
                                        simp only [parseStrBody, if_true, hge q, hsur, List.cons_append]
                                        have h9234 : ¬ ((92 : UInt8) = 34) := by decide
                                        simp only [h9234, hlo, e1, e2, e3, e4, e5, e6, e7, e8, if_false]
                                        split
                                        · rename_i heq
                                          simp only [List.cons.injEq] at heq
                                          exact absurd ⟨heq.1, heq.2.1⟩ hac
                                        · rfl
                                · simp only [hsur, Bool.false_eq_true, if_false] at h
                                  have := stepAt _ r1 [] (by simp) h
                                  refine ⟨this.1, lift _ this.2 (fun f'' q => ?_)⟩
                                  simp only [parseStrBody, if_true, hge q, hsur, Bool.false_eq_true, if_false]
                                  simp
                            · simp [e9] at h
        · simp only [h92, if_false] at h
          -- a raw (possibly multi-byte) character
          have hstep := step (decodeRune b rest).1 (decodeRune b rest).2
          obtain ⟨pre, hpre⟩ := decodeRune_suffix b rest
          have := hstep (b :: pre) (by rw [List.cons_append, ← hpre]) h
          refine ⟨this.1, ?_⟩
          intro f' q hf
          cases f' with
          | zero => omega
          | succ f'' =>
            have hq : 34 ∈ rest := by
              cases hy : parseStrBody f (decodeRune b rest).2 with
              | none => simp [hy] at h
              | some p =>
                have ih := parseStrBody_ext f _ p.1 p.2 hy
                exact mem_of_suffix hpre ih.1
            simp only [List.cons_append]
            unfold parseStrBody
            simp only [h34, hlo, h92, if_false, decodeRune_ext b rest q hq]
            exact this.2 f'' q (by omega)

/-! ### values -/

theorem skipWs_ext : ∀ (x q : Bytes) (b : UInt8) (t : Bytes), skipWs x = b :: t → skipWs (x ++ q) = b :: (t ++ q)
  | [], _, _, _, h => by simp [skipWs] at h
  | a :: x, q, b, t, h => by
    simp only [skipWs, List.cons_append] at h ⊢
    split
    · rename_i hw; simp only [hw, if_true] at h; exact skipWs_ext x q b t h
    · rename_i hw; simp only [hw, Bool.false_eq_true, if_false, List.cons.injEq] at h
      simp [h.1, h.2]

theorem skipWs_suffix : ∀ (x : Bytes), ∃ pre, x = pre ++ skipWs x
  | [] => ⟨[], rfl⟩
  | a :: x => by
    simp only [skipWs]
    split
    · obtain ⟨pre, h⟩ := skipWs_suffix x; exact ⟨a :: pre, by rw [List.cons_append, ← h]⟩
    · exact ⟨[], rfl⟩

theorem endsValue_ext (r q : Bytes) (hne : r ≠ []) (h : endsValue r = true) : endsValue (r ++ q) = true := by
  cases r with
  | nil => exact absurd rfl hne
  | cons b t => simpa [endsValue] using h

theorem stripPrefix_ext : ∀ (p x q r : Bytes), stripPrefix p x = some r → stripPrefix p (x ++ q) = some (r ++ q)
  | [], x, q, r, h => by simp [stripPrefix] at h ⊢; rw [h]
  | a :: p, [], q, r, h => by simp [stripPrefix] at h
  | a :: p, b :: x, q, r, h => by
    simp only [stripPrefix, List.cons_append] at h ⊢
    split
    · rename_i hab; simp only [hab, if_true] at h; exact stripPrefix_ext p x q r h
    · rename_i hab; simp [hab] at h

def isContainer : J → Bool
  | .obj _ => true
  | .arr _ => true
  | _ => false

theorem parseNumber_app (x q lit r : Bytes) (h : parseNumber x = some (lit, r)) (hne : r ≠ []) (he : endsValue r = true) :
    parseNumber (x ++ q) = some (lit, r ++ q) := by
  have hs := parseNumber_split x lit r h
  have hself := parseNumber_self x lit r h he
  have hd : delimHead (r ++ q) := delimHead_of_endsValue _ (endsValue_ext r q hne he)
  have := parseNumber_ext (r ++ q) hd lit
  rw [hself] at this
  rw [hs, List.append_assoc, this]
  simp

theorem skipWs_cons_ne (b : UInt8) (t : Bytes) (x : Bytes) (h : skipWs x = b :: t) : isWs b = false := by
  induction x with
  | nil => simp [skipWs] at h
  | cons a x ih =>
    simp only [skipWs] at h
    split at h
    · exact ih h
    · rename_i hw
      simp only [List.cons.injEq] at h
      rw [← h.1]; simpa using hw

theorem skipWs_idem_cons (b : UInt8) (t : Bytes) (hw : isWs b = false) : skipWs (b :: t) = b :: t := by
  simp [skipWs, hw]

mutual
theorem parseValue_ext : ∀ (fuel : Nat) (x : Bytes) (v : J) (r : Bytes), parseValue fuel x = some (v, r) →
    (isContainer v = true ∨ r ≠ []) → ∀ (fuel' : Nat) (q : Bytes), fuel ≤ fuel' → parseValue fuel' (x ++ q) = some (v, r ++ q)
  | 0, _, _, _, h, _, _, _, _ => by simp [parseValue] at h
  | fuel + 1, x, v, r, h, hc, fuel', q, hf => by
    cases fuel' with
    | zero => omega
    | succ f' =>
      have hf' : fuel ≤ f' := by omega
      unfold parseValue at h ⊢
      cases hs : skipWs x with
      | nil => simp [hs] at h
      | cons b rest =>
        rw [skipWs_ext x q b rest hs]
        simp only [hs] at h
        by_cases hb1 : b = 123
        · subst hb1
          simp only [] at h ⊢
          cases hs2 : skipWs rest with
          | nil =>
            simp only [hs2] at h
            have : parseMembers fuel rest [] = none := by
              cases fuel with
              | zero => simp [parseMembers]
              | succ n => simp [parseMembers, hs2]
            simp [this] at h
          | cons c rest2 =>
            rw [skipWs_ext rest q c rest2 hs2]
            simp only [hs2] at h
            by_cases hc125 : c = 125
            · subst hc125
              simp only [Option.some.injEq, Prod.mk.injEq] at h ⊢
              exact ⟨h.1, by rw [h.2]⟩
            · have hm : (parseMembers fuel rest []).map (fun (p : List (Str × J) × Bytes) => (J.obj p.1, p.2)) = some (v, r) := by
                split at h
                · rename_i heq; simp only [List.cons.injEq] at heq; exact absurd heq.1 hc125
                · exact h
              cases hp : parseMembers fuel rest [] with
              | none => simp [hp] at hm
              | some p =>
                simp only [hp, Option.map_some, Option.some.injEq, Prod.mk.injEq] at hm
                have := parseMembers_ext fuel rest [] p.1 p.2 hp f' q hf'
                split
                · rename_i heq; simp only [List.cons.injEq] at heq; exact absurd heq.1 hc125
                · rw [this]; simp [hm.1, hm.2]
        · by_cases hb2 : b = 91
          · subst hb2
            simp only [] at h ⊢
            cases hs2 : skipWs rest with
            | nil =>
              simp only [hs2] at h
              have : parseElems fuel rest = none := by
                cases fuel with
                | zero => simp [parseElems]
                | succ n =>
                  cases n with
                  | zero => simp [parseElems, parseValue]
                  | succ m => simp [parseElems, parseValue, hs2]
              simp [this] at h
            | cons c rest2 =>
              rw [skipWs_ext rest q c rest2 hs2]
              simp only [hs2] at h
              by_cases hc93 : c = 93
              · subst hc93
                simp only [Option.some.injEq, Prod.mk.injEq] at h ⊢
                exact ⟨h.1, by rw [h.2]⟩
              · have hm : (parseElems fuel rest).map (fun (p : List J × Bytes) => (J.arr p.1, p.2)) = some (v, r) := by
                  split at h
                  · rename_i heq; simp only [List.cons.injEq] at heq; exact absurd heq.1 hc93
                  · exact h
                cases hp : parseElems fuel rest with
                | none => simp [hp] at hm
                | some p =>
                  simp only [hp, Option.map_some, Option.some.injEq, Prod.mk.injEq] at hm
                  have := parseElems_ext fuel rest p.1 p.2 hp f' q hf'
                  split
                  · rename_i heq; simp only [List.cons.injEq] at heq; exact absurd heq.1 hc93
                  · rw [this]; simp [hm.1, hm.2]
          · by_cases hb3 : b = 34
            · subst hb3
              simp only [] at h ⊢
              cases hp : parseStrBody (rest.length + 1) rest with
              | none => simp [hp] at h
              | some p =>
                obtain ⟨s', r'⟩ := p
                simp only [hp] at h
                by_cases he : endsValue r' = true
                · simp only [he, if_true, Option.some.injEq, Prod.mk.injEq] at h
                  obtain ⟨hv, hr⟩ := h
                  subst hv; subst hr
                  have hne : r' ≠ [] := by
                    rcases hc with hc | hc
                    · simp [isContainer] at hc
                    · exact hc
                  have := (parseStrBody_ext _ rest s' r' hp).2 ((rest ++ q).length + 1) q (by simp)
                  rw [this]
                  simp [endsValue_ext r' q hne he]
                · simp [he] at h
            · -- literals and numbers
              have hne : r ≠ [] := by
                rcases hc with hc | hc
                · -- a container cannot come out of this branch
                  exfalso
                  split at h
                  · rename_i heq; simp at heq
                  · rename_i heq; simp only [List.cons.injEq] at heq; exact hb1 heq.1
                  · rename_i heq; simp only [List.cons.injEq] at heq; exact hb2 heq.1
                  · rename_i heq; simp only [List.cons.injEq] at heq; exact hb3 heq.1
                  · repeat' split at h
                    all_goals first
                      | (simp at h; done)
                      | (simp only [Option.some.injEq, Prod.mk.injEq] at h; rw [← h.1] at hc; simp [isContainer] at hc)
                · exact hc
              have lit : ∀ (w : String) (val : J),
                  (match stripPrefix (asciiBytes w) rest with
                    | some r' => if endsValue r' then some (val, r') else none
                    | none => (none : Option (J × Bytes))) = some (v, r) →
                  (match stripPrefix (asciiBytes w) (rest ++ q) with
                    | some r' => if endsValue r' then some (val, r') else none
                    | none => (none : Option (J × Bytes))) = some (v, r ++ q) := by
                intro w val hw
                cases hsp : stripPrefix (asciiBytes w) rest with
                | none => simp [hsp] at hw
                | some r' =>
                  simp only [hsp] at hw
                  by_cases he : endsValue r' = true
                  · simp only [he, if_true, Option.some.injEq, Prod.mk.injEq] at hw
                    obtain ⟨hv, hr⟩ := hw
                    subst hr
                    rw [stripPrefix_ext _ rest q r' hsp]
                    simp [endsValue_ext r' q hne he, hv]
                  · simp [he] at hw
              split at h
              · rename_i heq; simp at heq
              · rename_i heq; simp only [List.cons.injEq] at heq; exact absurd heq.1 hb1
              · rename_i heq; simp only [List.cons.injEq] at heq; exact absurd heq.1 hb2
              · rename_i heq; simp only [List.cons.injEq] at heq; exact absurd heq.1 hb3
              · rename_i b' rest' _ _ _ heq
                simp only [List.cons.injEq] at heq
                obtain ⟨hbb, hrr⟩ := heq
                subst hbb; subst hrr
                · by_cases h116 : b = 116
                  · simp only [h116, if_true] at h ⊢; exact lit _ _ h
                  · simp only [h116, if_false] at h ⊢
                    by_cases h102 : b = 102
                    · simp only [h102, if_true] at h ⊢; exact lit _ _ h
                    · simp only [h102, if_false] at h ⊢
                      by_cases h110 : b = 110
                      · simp only [h110, if_true] at h ⊢; exact lit _ _ h
                      · simp only [h110, if_false] at h ⊢
                        cases hp : parseNumber (b :: rest) with
                        | none => simp [hp] at h
                        | some p =>
                          obtain ⟨l, r'⟩ := p
                          simp only [hp] at h
                          by_cases he : endsValue r' = true
                          · simp only [he, if_true, Option.some.injEq, Prod.mk.injEq] at h
                            obtain ⟨hv, hr⟩ := h
                            subst hr
                            have := parseNumber_app (b :: rest) q l r' hp hne he
                            simp only [List.cons_append] at this
                            rw [this]
                            simp [endsValue_ext r' q hne he, hv]
                          · simp [he] at h
theorem parseMembers_ext : ∀ (fuel : Nat) (x : Bytes) (acc kvs : List (Str × J)) (r : Bytes),
    parseMembers fuel x acc = some (kvs, r) →
    ∀ (fuel' : Nat) (q : Bytes), fuel ≤ fuel' → parseMembers fuel' (x ++ q) acc = some (kvs, r ++ q)
  | 0, _, _, _, _, h, _, _, _ => by simp [parseMembers] at h
  | fuel + 1, x, acc, kvs, r, h, fuel', q, hf => by
    cases fuel' with
    | zero => omega
    | succ f' =>
      have hf' : fuel ≤ f' := by omega
      unfold parseMembers at h ⊢
      cases hs : skipWs x with
      | nil => simp [hs] at h
      | cons b rest =>
        rw [skipWs_ext x q b rest hs]
        simp only [hs] at h
        by_cases hb : b = 34
        · subst hb
          simp only [] at h ⊢
          cases hp : parseStrBody (rest.length + 1) rest with
          | none => simp [hp] at h
          | some p =>
            obtain ⟨k, r1⟩ := p
            simp only [hp] at h
            rw [(parseStrBody_ext _ rest k r1 hp).2 ((rest ++ q).length + 1) q (by simp)]
            simp only []
            cases hs1 : skipWs r1 with
            | nil => simp [hs1] at h
            | cons c r2 =>
              rw [skipWs_ext r1 q c r2 hs1]
              simp only [hs1] at h
              by_cases hc : c = 58
              · subst hc
                simp only [] at h ⊢
                cases hv : parseValue fuel r2 with
                | none => simp [hv] at h
                | some pv =>
                  obtain ⟨v, r3⟩ := pv
                  simp only [hv] at h
                  cases hs3 : skipWs r3 with
                  | nil => simp [hs3] at h
                  | cons d r4 =>
                    have hr3 : r3 ≠ [] := by intro e; subst e; simp [skipWs] at hs3
                    rw [parseValue_ext fuel r2 v r3 hv (Or.inr hr3) f' q hf']
                    simp only []
                    rw [skipWs_ext r3 q d r4 hs3]
                    simp only [hs3] at h
                    by_cases hd44 : d = 44
                    · subst hd44
                      simp only [] at h ⊢
                      cases hs4 : skipWs r4 with
                      | nil =>
                        simp only [hs4] at h
                        have : parseMembers fuel r4 (setKV k v acc) = none := by
                          cases fuel with
                          | zero => simp [parseMembers]
                          | succ n => simp [parseMembers, hs4]
                        simp [this] at h
                      | cons e r5 =>
                        rw [skipWs_ext r4 q e r5 hs4]
                        simp only [hs4] at h
                        by_cases he : e = 125
                        · subst he; simp at h
                        · have hm : parseMembers fuel r4 (setKV k v acc) = some (kvs, r) := by
                            split at h
                            · rename_i heq; simp only [List.cons.injEq] at heq; exact absurd heq.1 he
                            · exact h
                          split
                          · rename_i heq; simp only [List.cons.injEq] at heq; exact absurd heq.1 he
                          · exact parseMembers_ext fuel r4 _ kvs r hm f' q hf'
                    · by_cases hd125 : d = 125
                      · subst hd125
                        simp only [Option.some.injEq, Prod.mk.injEq] at h ⊢
                        exact ⟨h.1, by rw [h.2]⟩
                      · exfalso
                        split at h
                        · rename_i heq; simp only [List.cons.injEq] at heq; exact hd44 heq.1
                        · rename_i heq; simp only [List.cons.injEq] at heq; exact hd125 heq.1
                        · simp at h
              · exfalso
                split at h
                · rename_i heq; simp only [List.cons.injEq] at heq; exact hc heq.1
                · simp at h
        · exfalso
          split at h
          · rename_i heq; simp only [List.cons.injEq] at heq; exact hb heq.1
          · simp at h
theorem parseElems_ext : ∀ (fuel : Nat) (x : Bytes) (xs : List J) (r : Bytes),
    parseElems fuel x = some (xs, r) →
    ∀ (fuel' : Nat) (q : Bytes), fuel ≤ fuel' → parseElems fuel' (x ++ q) = some (xs, r ++ q)
  | 0, _, _, _, h, _, _, _ => by simp [parseElems] at h
  | fuel + 1, x, xs, r, h, fuel', q, hf => by
    cases fuel' with
    | zero => omega
    | succ f' =>
      have hf' : fuel ≤ f' := by omega
      unfold parseElems at h ⊢
      cases hv : parseValue fuel x with
      | none => simp [hv] at h
      | some pv =>
        obtain ⟨v, r1⟩ := pv
        simp only [hv] at h
        cases hs1 : skipWs r1 with
        | nil => simp [hs1] at h
        | cons d r2 =>
          have hr1 : r1 ≠ [] := by intro e; subst e; simp [skipWs] at hs1
          rw [parseValue_ext fuel x v r1 hv (Or.inr hr1) f' q hf']
          simp only []
          rw [skipWs_ext r1 q d r2 hs1]
          simp only [hs1] at h
          by_cases hd44 : d = 44
          · subst hd44
            simp only [] at h ⊢
            cases hs2 : skipWs r2 with
            | nil =>
              simp only [hs2] at h
              have : parseElems fuel r2 = none := by
                cases fuel with
                | zero => simp [parseElems]
                | succ n =>
                  cases n with
                  | zero => simp [parseElems, parseValue]
                  | succ m => simp [parseElems, parseValue, hs2]
              simp [this] at h
            | cons e r3 =>
              rw [skipWs_ext r2 q e r3 hs2]
              simp only [hs2] at h
              by_cases he : e = 93
              · subst he; simp at h
              · have hm : (parseElems fuel r2).map (fun (p : List J × Bytes) => (v :: p.1, p.2)) = some (xs, r) := by
                  split at h
                  · rename_i heq; simp only [List.cons.injEq] at heq; exact absurd heq.1 he
                  · exact h
                cases hp : parseElems fuel r2 with
                | none => simp [hp] at hm
                | some p =>
                  simp only [hp, Option.map_some, Option.some.injEq, Prod.mk.injEq] at hm
                  have := parseElems_ext fuel r2 p.1 p.2 hp f' q hf'
                  split
                  · rename_i heq; simp only [List.cons.injEq] at heq; exact absurd heq.1 he
                  · rw [this]; simp [hm.1, hm.2]
          · by_cases hd93 : d = 93
            · subst hd93
              simp only [Option.some.injEq, Prod.mk.injEq] at h ⊢
              exact ⟨h.1, by rw [h.2]⟩
            · exfalso
              split at h
              · rename_i heq; simp only [List.cons.injEq] at heq; exact hd44 heq.1
              · rename_i heq; simp only [List.cons.injEq] at heq; exact hd93 heq.1
              · simp at h
end

theorem skipWs_nil_append : ∀ (r q : Bytes), skipWs r = [] → skipWs (r ++ q) = skipWs q
  | [], _, _ => rfl
  | a :: r, q, h => by
    simp only [skipWs, List.cons_append] at h ⊢
    split
    · rename_i hw; simp only [hw, if_true] at h; exact skipWs_nil_append r q h
    · rename_i hw; simp [hw] at h

/-- **an accepted line and anything appended to it**: if `p` is accepted as a log line (one JSON object,
    then white space only), then `p ++ q` is accepted exactly when `q` is white space, and then as the
    SAME object -/
theorem parseObj_append (p q : Bytes) (kvs : List (Str × J)) (h : parseObj p = some kvs) :
    parseObj (p ++ q) = if (skipWs q).isEmpty then some kvs else none := by
  unfold parseObj at h ⊢
  cases hv : parseValue (p.length + 1) p with
  | none => simp [hv] at h
  | some pv =>
    obtain ⟨v, r⟩ := pv
    simp only [hv] at h
    cases v with
    | obj kvs' =>
      simp only [] at h
      by_cases hw : (skipWs r).isEmpty = true
      · simp only [hw, if_true, Option.some.injEq] at h
        subst h
        have hr : skipWs r = [] := by simpa using hw
        rw [parseValue_ext _ p (.obj kvs') r hv (Or.inl rfl) ((p ++ q).length + 1) q (by simp)]
        simp only [skipWs_nil_append r q hr]
      · simp [hw] at h
    | null => simp at h
    | bool _ => simp at h
    | num _ => simp at h
    | str _ => simp at h
    | arr _ => simp at h

/-- **a line cut inside its object is never accepted**: if `p ++ q` is accepted and `q` holds anything
    but white space, the prefix `p` is rejected -/
theorem parseObj_cut_rejected (p q : Bytes) (kvs : List (Str × J)) (h : parseObj (p ++ q) = some kvs)
    (hq : (skipWs q).isEmpty = false) : parseObj p = none := by
  cases hp : parseObj p with
  | none => rfl
  | some kvs' =>
    have := parseObj_append p q kvs' hp
    rw [h, hq] at this
    simp at this

/-- both accepted ⇒ the same object -/
theorem parseObj_prefix_same (p q : Bytes) (a b : List (Str × J)) (h1 : parseObj p = some a) (h2 : parseObj (p ++ q) = some b) :
    b = a := by
  have := parseObj_append p q a h1
  rw [h2] at this
  split at this
  · exact (Option.some.inj this)
  · cases this

end Anonymongo
