/-
  Lemmas/ParseValid.lean — what the parser establishes about its own output, strong enough to feed
  the byte-level round trip of JsonRound.lean:
    * every number literal of a parsed tree is a `validNumLit` (it re-parses to itself), and
    * (with LitsOk.lean) redaction keeps that, so every redacted tree whose keys are duplicate-free
      is `printable`, and `parseObj (printObj (redactLine …)) = some (redactLine …)`.
-/
import Anonymongo.Lemmas.JsonRound
import Anonymongo.Lemmas.LitsOk
import Anonymongo.Lemmas.NoDup
namespace Anonymongo

/-! ### the scanner returns a split of its input -/

theorem takeDigits_split : ∀ bs, bs = (takeDigits bs).1 ++ (takeDigits bs).2
  | [] => rfl
  | b :: r => by
    simp only [takeDigits]
    split
    · simp only [List.cons_append]; rw [← takeDigits_split r]
    · rfl

theorem numSign_split (bs : Bytes) : bs = (numSign bs).1 ++ (numSign bs).2 := by
  unfold numSign; split <;> rfl

theorem numInt_split (bs ip r : Bytes) (h : numInt bs = some (ip, r)) : bs = ip ++ r := by
  cases bs with
  | nil => simp [numInt] at h
  | cons b t =>
    simp only [numInt] at h
    split at h
    · rename_i e; simp only [Option.some.injEq, Prod.mk.injEq] at h; rw [← h.1, ← h.2, e]; rfl
    · split at h
      · simp only [Option.some.injEq] at h
        have := takeDigits_split (b :: t)
        rw [h] at this; exact this
      · simp at h

theorem numFrac_split (bs fp r : Bytes) (h : numFrac bs = some (fp, r)) : bs = fp ++ r := by
  unfold numFrac at h
  split at h
  · split at h
    · simp at h
    · rename_i t _
      simp only [Option.some.injEq, Prod.mk.injEq] at h
      rw [← h.1, ← h.2]; simp only [List.cons_append]; rw [← takeDigits_split t]
  · simp only [Option.some.injEq, Prod.mk.injEq] at h; rw [← h.1, ← h.2]; rfl

theorem numExpSign_split (bs : Bytes) : bs = (numExpSign bs).1 ++ (numExpSign bs).2 := by
  unfold numExpSign; split <;> rfl

theorem numExp_split (bs ep r : Bytes) (h : numExp bs = some (ep, r)) : bs = ep ++ r := by
  cases bs with
  | nil => simp only [numExp, Option.some.injEq, Prod.mk.injEq] at h; rw [← h.1, ← h.2]; rfl
  | cons e t =>
    simp only [numExp] at h
    split at h
    · split at h
      · simp at h
      · simp only [Option.some.injEq, Prod.mk.injEq] at h
        rw [← h.1, ← h.2]
        simp only [List.cons_append, List.append_assoc]
        rw [← takeDigits_split, ← numExpSign_split]
    · simp only [Option.some.injEq, Prod.mk.injEq] at h; rw [← h.1, ← h.2]; rfl

theorem parseNumber_split (bs lit r : Bytes) (h : parseNumber bs = some (lit, r)) : bs = lit ++ r := by
  unfold parseNumber at h
  simp only [] at h
  split at h
  · simp at h
  · rename_i ip r1 hi
    split at h
    · simp at h
    · rename_i fp r2 hf
      split at h
      · simp at h
      · rename_i ep r3 he
        simp only [Option.some.injEq, Prod.mk.injEq] at h
        rw [← h.1, ← h.2]
        have a := numSign_split bs
        have b := numInt_split _ ip r1 hi
        have c := numFrac_split _ fp r2 hf
        have d := numExp_split _ ep r3 he
        simp only [List.append_assoc]
        rw [← d, ← c, ← b, ← a]

/-- a literal scanned in front of a value-terminating byte re-parses, alone, to itself -/
theorem parseNumber_self (bs lit r : Bytes) (h : parseNumber bs = some (lit, r)) (hr : endsValue r = true) :
    parseNumber lit = some (lit, []) := by
  have hs := parseNumber_split bs lit r h
  have hext := parseNumber_ext r (delimHead_of_endsValue r hr) lit
  rw [← hs, h] at hext
  cases hp : parseNumber lit with
  | none => simp [hp] at hext
  | some p =>
    obtain ⟨l', r'⟩ := p
    simp only [hp, Option.map_some, Option.some.injEq, Prod.mk.injEq] at hext
    have hr' : r' = [] := by
      have := congrArg List.length hext.2
      simp only [List.length_append] at this
      exact List.length_eq_zero_iff.mp (by omega)
    rw [hext.1, hr']

/-! ### bytes of a number literal ↔ its `Str` form -/

theorem numByte_lt (b : UInt8) (h : numByte b = true) : b.toNat < 0x80 := by
  simp only [numByte, isDigit, Bool.or_eq_true, Bool.and_eq_true, decide_eq_true_eq] at h
  rcases h with ((((h | h) | h) | h) | h) | h
  · have := UInt8.le_iff_toNat_le.mp h.2; simp at this; omega
  all_goals (subst h; decide)

theorem utf8_ofBytes (lit : Bytes) (h : ∀ b ∈ lit, numByte b = true) :
    utf8 (lit.map fun x => Char.ofNat x.toNat) = lit := by
  induction lit with
  | nil => rfl
  | cons b t ih =>
    have hb := numByte_lt b (h b (by simp))
    have e1 : (Char.ofNat b.toNat).toNat = b.toNat := ofNat_toNat_small _ (by omega)
    have e : utf8Enc (Char.ofNat b.toNat) = [b] := by
      simp only [utf8Enc, e1, hb, if_true, Nat.toUInt8, UInt8.ofNat_toNat]
    have := ih (fun x hx => h x (by simp [hx]))
    simp only [utf8] at this ⊢
    simp only [List.map_cons, List.flatMap_cons, e, List.singleton_append, this]

theorem validNumLit_of_parse (bs lit r : Bytes) (h : parseNumber bs = some (lit, r)) (hr : endsValue r = true) :
    validNumLit (lit.map fun x => Char.ofNat x.toNat) = true := by
  have hok := parseNumber_ok bs lit r h
  have hu := utf8_ofBytes lit hok
  simp only [validNumLit, hu, parseNumber_self bs lit r h hr, Bool.and_eq_true, List.isEmpty_nil, beq_self_eq_true,
    and_true, List.all_eq_true, List.mem_map, decide_eq_true_eq]
  rintro c ⟨b, hb, rfl⟩
  rw [ofNat_toNat_small _ (by have := numByte_lt b (hok b hb); omega)]
  exact numByte_lt b (hok b hb)

end Anonymongo

namespace Anonymongo

/-! ### `printable` = valid number literals ∧ distinct sibling keys -/

mutual
theorem printable_iff : ∀ v : J, v.printable = (v.litsOk validNumLit && v.nodup)
  | .null => rfl
  | .bool _ => rfl
  | .str _ => rfl
  | .num lit => by simp [J.printable, J.litsOk, J.nodup]
  | .arr xs => by simp only [J.printable, J.litsOk, J.nodup]; exact printableList_iff xs
  | .obj kvs => by
    simp only [J.printable, J.litsOk, J.nodup, printableKVs_iff kvs]
    cases nodupKeys (keysOf kvs) <;> cases litsOkKVs validNumLit kvs <;> cases nodupKVs kvs <;> rfl
theorem printableList_iff : ∀ xs : List J, printableList xs = (litsOkList validNumLit xs && nodupList xs)
  | [] => rfl
  | x :: xs => by
    simp only [printableList, litsOkList, nodupList, printable_iff x, printableList_iff xs]
    cases x.litsOk validNumLit <;> cases x.nodup <;> cases litsOkList validNumLit xs <;> cases nodupList xs <;> rfl
theorem printableKVs_iff : ∀ kvs : List (Str × J), printableKVs kvs = (litsOkKVs validNumLit kvs && nodupKVs kvs)
  | [] => rfl
  | (_, v) :: rest => by
    simp only [printableKVs, litsOkKVs, nodupKVs, printable_iff v, printableKVs_iff rest]
    cases v.litsOk validNumLit <;> cases v.nodup <;> cases litsOkKVs validNumLit rest <;> cases nodupKVs rest <;> rfl
end

theorem setKV_printable (k : Str) (v : J) (hv : v.printable = true) (l : List (Str × J)) (h : (J.obj l).printable = true) :
    (J.obj (setKV k v l)).printable = true := by
  rw [printable_iff] at hv h ⊢
  simp only [Bool.and_eq_true] at hv h ⊢
  refine ⟨?_, setKV_objNodup k v hv.2 l h.2⟩
  simp only [J.litsOk] at h ⊢
  exact setKV_litsOk k v hv.1 l h.1

/-! ### the parser establishes it -/

mutual
theorem parseValue_printable : ∀ (fuel : Nat) (bs : Bytes) (v : J) (r : Bytes), parseValue fuel bs = some (v, r) → v.printable = true
  | 0, _, _, _, h => by simp [parseValue] at h
  | fuel + 1, bs, v, r, h => by
    simp only [parseValue] at h
    split at h
    · simp at h
    · -- '{'
      split at h
      · simp only [Option.some.injEq, Prod.mk.injEq] at h; obtain ⟨rfl, _⟩ := h; rfl
      · simp only [Option.map_eq_some_iff] at h
        obtain ⟨⟨kvs, r'⟩, hm, he⟩ := h
        simp only [Prod.mk.injEq] at he
        obtain ⟨rfl, _⟩ := he
        exact parseMembers_printable fuel _ [] kvs r' rfl hm
    · -- '['
      split at h
      · simp only [Option.some.injEq, Prod.mk.injEq] at h; obtain ⟨rfl, _⟩ := h; rfl
      · simp only [Option.map_eq_some_iff] at h
        obtain ⟨⟨xs, r'⟩, hm, he⟩ := h
        simp only [Prod.mk.injEq] at he
        obtain ⟨rfl, _⟩ := he
        simpa [J.printable] using parseElems_printable fuel _ xs r' hm
    · -- string
      split at h
      · split at h
        · simp only [Option.some.injEq, Prod.mk.injEq] at h; obtain ⟨rfl, _⟩ := h; rfl
        · simp at h
      · simp at h
    · -- true / false / null / number
      split at h
      · (repeat' split at h) <;> first | (simp at h; done) | (simp only [Option.some.injEq, Prod.mk.injEq] at h; obtain ⟨rfl, _⟩ := h; rfl)
      · split at h
        · (repeat' split at h) <;> first | (simp at h; done) | (simp only [Option.some.injEq, Prod.mk.injEq] at h; obtain ⟨rfl, _⟩ := h; rfl)
        · split at h
          · (repeat' split at h) <;> first | (simp at h; done) | (simp only [Option.some.injEq, Prod.mk.injEq] at h; obtain ⟨rfl, _⟩ := h; rfl)
          · split at h
            · rename_i lit r1 hp
              split at h
              · rename_i hends
                simp only [Option.some.injEq, Prod.mk.injEq] at h
                obtain ⟨rfl, _⟩ := h
                simp only [J.printable]
                exact validNumLit_of_parse _ lit r1 hp hends
              · simp at h
            · simp at h
theorem parseMembers_printable : ∀ (fuel : Nat) (bs : Bytes) (acc kvs : List (Str × J)) (r : Bytes),
    (J.obj acc).printable = true → parseMembers fuel bs acc = some (kvs, r) → (J.obj kvs).printable = true
  | 0, _, _, _, _, _, h => by simp [parseMembers] at h
  | fuel + 1, bs, acc, kvs, r, ha, h => by
    simp only [parseMembers] at h
    split at h
    · split at h
      · simp at h
      · rename_i k r1 _
        split at h
        · split at h
          · simp at h
          · rename_i v r3 hv
            have hvok := parseValue_printable fuel _ v r3 hv
            have hacc := setKV_printable k v hvok acc ha
            split at h
            · split at h
              · simp at h
              · exact parseMembers_printable fuel _ _ kvs r hacc h
            · simp only [Option.some.injEq, Prod.mk.injEq] at h; obtain ⟨rfl, _⟩ := h; exact hacc
            · simp at h
        · simp at h
    · simp at h
theorem parseElems_printable : ∀ (fuel : Nat) (bs : Bytes) (xs : List J) (r : Bytes),
    parseElems fuel bs = some (xs, r) → printableList xs = true
  | 0, _, _, _, h => by simp [parseElems] at h
  | fuel + 1, bs, xs, r, h => by
    simp only [parseElems] at h
    split at h
    · simp at h
    · rename_i v r1 hv
      have hvok := parseValue_printable fuel _ v r1 hv
      split at h
      · split at h
        · simp at h
        · simp only [Option.map_eq_some_iff] at h
          obtain ⟨⟨ys, r'⟩, hm, he⟩ := h
          simp only [Prod.mk.injEq] at he
          obtain ⟨rfl, _⟩ := he
          simp [printableList, hvok, parseElems_printable fuel _ ys r' hm]
      · simp only [Option.some.injEq, Prod.mk.injEq] at h; obtain ⟨rfl, _⟩ := h; simp [printableList, hvok]
      · simp at h
end

/-- every line the parser accepts is a printable tree -/
theorem parseObj_printable (bs : Bytes) (e : List (Str × J)) (h : parseObj bs = some e) : (J.obj e).printable = true := by
  unfold parseObj at h
  split at h
  · rename_i kvs r hp
    split at h
    · simp only [Option.some.injEq] at h; subst h
      exact parseValue_printable _ bs (.obj kvs) r hp
    · simp at h
  · simp at h

/-- `RedactMongoLog`, any flags, keeps a tree printable (given a valid number placeholder) -/
theorem redactLine_printable (T : Tables) (hT : validNumLit T.number = true) (cfg : Cfg) (eager : List Str)
    (plan : Str → Str → Str) (entry : List (Str × J)) (h : (J.obj entry).printable = true) :
    (J.obj (redactLine T cfg eager plan entry)).printable = true := by
  rw [printable_iff] at h ⊢
  simp only [Bool.and_eq_true] at h ⊢
  refine ⟨?_, redactLine_nodup T cfg eager plan entry h.2⟩
  simp only [J.litsOk] at h ⊢
  exact redactLine_litsOk T hT cfg eager plan entry h.1

end Anonymongo

namespace Anonymongo

/-! ### enough fuel: a printed value is at least as long as its size measure -/

mutual
theorem size_le_length : ∀ v : J, v.printable = true → v.size ≤ (printJ v).length
  | .null, _ => by decide
  | .bool true, _ => by decide
  | .bool false, _ => by decide
  | .str s, _ => by simp [J.size, printJ, printStr]
  | .num lit, h => by
    obtain ⟨b, r, hu, _⟩ := validNum_head lit (by simpa [J.printable] using h)
    simp [J.size, printJ, hu]
  | .arr xs, h => by
    have := sizeList_le xs (by simpa [J.printable] using h)
    simp only [J.size, printJ, List.length_append, List.length_cons, List.length_nil]; omega
  | .obj kvs, h => by
    simp only [J.printable, Bool.and_eq_true] at h
    have := sizeKVs_le kvs h.2
    simp only [J.size, printJ, List.length_append, List.length_cons, List.length_nil]; omega
theorem sizeList_le : ∀ xs : List J, printableList xs = true → sizeList xs ≤ (printElems xs).length + 1
  | [], _ => by simp [sizeList]
  | [x], h => by
    simp only [printableList, Bool.and_eq_true] at h
    have := size_le_length x h.1
    simp only [sizeList, printElems]; omega
  | x :: y :: ys, h => by
    simp only [printableList, Bool.and_eq_true] at h
    have h1 := size_le_length x h.1
    have h2 := sizeList_le (y :: ys) (by simp [printableList, h.2.1, h.2.2])
    simp only [sizeList, printElems, List.length_append, List.length_cons, List.length_nil] at h2 ⊢; omega
theorem sizeKVs_le : ∀ kvs : List (Str × J), printableKVs kvs = true → sizeKVs kvs ≤ (printMembers kvs).length + 1
  | [], _ => by simp [sizeKVs]
  | [(k, v)], h => by
    simp only [printableKVs, Bool.and_eq_true] at h
    have := size_le_length v h.1
    simp only [sizeKVs, printMembers, List.length_append, List.length_cons, List.length_nil]; omega
  | (k, v) :: (k2, v2) :: ms, h => by
    simp only [printableKVs, Bool.and_eq_true] at h
    have h1 := size_le_length v h.1
    have h2 := sizeKVs_le ((k2, v2) :: ms) (by simp [printableKVs, h.2.1, h.2.2])
    simp only [sizeKVs, printMembers, List.length_append, List.length_cons, List.length_nil] at h2 ⊢; omega
end

/-- **parse ∘ print = id** on whole lines: a printable object, serialised and parsed again
    (`UnmarshalOrdered ∘ MarshalOrdered`), is the same tree -/
theorem parseObj_printObj (kvs : List (Str × J)) (h : (J.obj kvs).printable = true) :
    parseObj (printObj kvs) = some kvs := by
  have hp := parse_print (.obj kvs) h [] (by intro b hb; simp at hb) ((printObj kvs).length + 1)
    (by have := size_le_length _ h; simp only [printObj]; omega)
  simp only [List.append_nil] at hp
  unfold parseObj
  simp only [printObj] at hp ⊢
  rw [hp]
  simp [skipWs]

end Anonymongo
