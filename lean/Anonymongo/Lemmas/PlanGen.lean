/-
  Lemmas/PlanGen.lean — the plan-summary rewriter on index specifications of ANY length:
  each `key : direction` member has its key replaced where it stands by `h key`; the spacing around the
  key, the direction, the separators and everything outside the braces are kept.
-/
import Anonymongo.Model.Plan
namespace Anonymongo

theorem isPrefix_head_ne (a b : Char) (as bs : Str) (h : a ≠ b) : isPrefix (a :: as) (b :: bs) = false := by
  simp [isPrefix, h]

theorem isPrefix_self_append : ∀ (k r : Str), isPrefix k (k ++ r) = true
  | [], _ => rfl
  | a :: k, r => by simp [isPrefix, isPrefix_self_append k r]

/-- white space in front of the key cannot be mistaken for the key -/
theorem replaceFirst_after_ws (key new rest : Str) (c0 : Char) (k' : Str) (hk : key = c0 :: k') (hc0 : isUniSpace c0 = false) :
    ∀ (ws : Str), (∀ c ∈ ws, isUniSpace c = true) → replaceFirst key new (ws ++ key ++ rest) = ws ++ new ++ rest
  | [], _ => by
    subst hk
    simp only [List.nil_append, List.cons_append, replaceFirst]
    have := isPrefix_self_append (c0 :: k') rest
    simp only [List.cons_append] at this
    simp only [this, if_true]
    simp
  | w :: ws, hws => by
    have hw : isUniSpace w = true := hws w (by simp)
    have hne : c0 ≠ w := by intro e; rw [e] at hc0; rw [hc0] at hw; cases hw
    subst hk
    simp only [List.cons_append, replaceFirst, isPrefix_head_ne c0 w _ _ hne, Bool.false_eq_true, if_false]
    have ih := replaceFirst_after_ws (c0 :: k') new rest c0 k' rfl hc0 ws (fun c hc => hws c (by simp [hc]))
    simp only [List.cons_append, List.append_assoc] at ih ⊢
    rw [ih]

theorem dropWhileC_ws_append (p : Char → Bool) : ∀ (ws : Str) (c : Char) (r : Str), (∀ x ∈ ws, p x = true) → p c = false →
    dropWhileC p (ws ++ c :: r) = c :: r
  | [], c, r, _, hc => by simp [dropWhileC, hc]
  | w :: ws, c, r, hws, hc => by
    simp only [List.cons_append, dropWhileC, hws w (by simp), if_true]
    exact dropWhileC_ws_append p ws c r (fun x hx => hws x (by simp [hx])) hc

/-- trimming removes exactly the surrounding white space -/
theorem trimSpace_core (ws1 ws2 key : Str) (hne : key ≠ []) (h1 : ∀ c ∈ ws1, isUniSpace c = true) (h2 : ∀ c ∈ ws2, isUniSpace c = true)
    (hfirst : ∀ c, key.head? = some c → isUniSpace c = false) (hlast : ∀ c, key.getLast? = some c → isUniSpace c = false) :
    trimSpace (ws1 ++ key ++ ws2) = key := by
  unfold trimSpace
  cases key with
  | nil => exact absurd rfl hne
  | cons c0 k' =>
    have hc0 := hfirst c0 rfl
    rw [List.append_assoc, List.cons_append, dropWhileC_ws_append isUniSpace ws1 c0 (k' ++ ws2) h1 hc0]
    -- now the tail: reverse (c0 :: k' ++ ws2) = reverse ws2 ++ reverse (c0 :: k')
    have hrev : (c0 :: (k' ++ ws2)).reverse = ws2.reverse ++ (c0 :: k').reverse := by simp
    rw [hrev]
    have hl : ∃ cl rl, (c0 :: k').reverse = cl :: rl ∧ isUniSpace cl = false := by
      cases hr : (c0 :: k').reverse with
      | nil => simp at hr
      | cons cl rl =>
        refine ⟨cl, rl, rfl, hlast cl ?_⟩
        have : (c0 :: k').getLast? = (c0 :: k').reverse.head? := (List.head?_reverse).symm
        rw [this, hr]; rfl
    obtain ⟨cl, rl, hrl, hcl⟩ := hl
    rw [hrl, dropWhileC_ws_append isUniSpace ws2.reverse cl rl (fun x hx => h2 x (by simpa using hx)) hcl, ← hrl]
    simp

theorem beforeColon_append : ∀ (x y : Str), (∀ c ∈ x, c ≠ ':') → beforeColon (x ++ ':' :: y) = x
  | [], _, _ => by simp [beforeColon]
  | a :: x, y, h => by
    have ha : a ≠ ':' := h a (by simp)
    simp only [List.cons_append, beforeColon, ha, if_false]
    rw [beforeColon_append x y (fun c hc => h c (by simp [hc]))]

theorem fromColon_append : ∀ (x y : Str), (∀ c ∈ x, c ≠ ':') → fromColon (x ++ ':' :: y) = ':' :: y
  | [], _, _ => by simp [fromColon]
  | a :: x, y, h => by
    have ha : a ≠ ':' := h a (by simp)
    simp only [List.cons_append, fromColon, ha, if_false]
    exact fromColon_append x y (fun c hc => h c (by simp [hc]))

/-- a well-formed member of an index specification: spaces, a key, spaces, a colon, the direction -/
structure IndexMember where
  ws1 : Str
  key : Str
  ws2 : Str
  dir : Str
  key_ne : key ≠ []
  ws1_sp : ∀ c ∈ ws1, isUniSpace c = true
  ws2_sp : ∀ c ∈ ws2, isUniSpace c = true
  key_first : ∀ c, key.head? = some c → isUniSpace c = false
  key_last : ∀ c, key.getLast? = some c → isUniSpace c = false
  key_nocolon : ∀ c ∈ key, c ≠ ':'

def IndexMember.text (m : IndexMember) : Str := m.ws1 ++ m.key ++ m.ws2 ++ ':' :: m.dir
def IndexMember.redacted (h : Str → Str) (m : IndexMember) : Str := m.ws1 ++ h m.key ++ m.ws2 ++ ':' :: m.dir

theorem uniSpace_ne_colon (c : Char) (h : isUniSpace c = true) : c ≠ ':' := by
  intro e; subst e; revert h; decide

/-- **one member**: the key is replaced where it stands; spacing and direction are kept -/
theorem redactIndexField_member (h : Str → Str) (m : IndexMember) : redactIndexField h m.text = m.redacted h := by
  have hnc : ∀ c ∈ m.ws1 ++ m.key ++ m.ws2, c ≠ ':' := by
    intro c hc
    simp only [List.mem_append] at hc
    rcases hc with (hc | hc) | hc
    · exact uniSpace_ne_colon c (m.ws1_sp c hc)
    · exact m.key_nocolon c hc
    · exact uniSpace_ne_colon c (m.ws2_sp c hc)
  unfold redactIndexField IndexMember.text IndexMember.redacted
  rw [beforeColon_append _ _ hnc, fromColon_append _ _ hnc]
  rw [trimSpace_core m.ws1 m.ws2 m.key m.key_ne m.ws1_sp m.ws2_sp m.key_first m.key_last]
  have hne : m.key.isEmpty = false := by
    cases hk : m.key with
    | nil => exact absurd hk m.key_ne
    | cons a b => rfl
  simp only [hne, Bool.false_eq_true, if_false]
  cases hk : m.key with
  | nil => exact absurd hk m.key_ne
  | cons c0 k' =>
    have hc0 : isUniSpace c0 = false := m.key_first c0 (by rw [hk]; rfl)
    have := replaceFirst_after_ws (c0 :: k') (h (c0 :: k')) m.ws2 c0 k' rfl hc0 m.ws1 m.ws1_sp
    rw [this]

/-! ### the `{ … }` body: any number of members -/

theorem splitOn_nosep (sep : Char) : ∀ (x : Str), (∀ c ∈ x, c ≠ sep) → splitOn sep x = [x]
  | [], _ => rfl
  | a :: x, h => by
    have ha : a ≠ sep := h a (by simp)
    simp only [splitOn, ha, if_false, splitOn_nosep sep x (fun c hc => h c (by simp [hc]))]

theorem splitOn_append_sep (sep : Char) : ∀ (x rest : Str), (∀ c ∈ x, c ≠ sep) →
    splitOn sep (x ++ sep :: rest) = x :: splitOn sep rest
  | [], rest, _ => by simp [splitOn]
  | a :: x, rest, h => by
    have ha : a ≠ sep := h a (by simp)
    simp only [List.cons_append, splitOn, ha, if_false, splitOn_append_sep sep x rest (fun c hc => h c (by simp [hc]))]

theorem splitOn_intercalate (sep : Char) : ∀ (xs : List Str), xs ≠ [] → (∀ x ∈ xs, ∀ c ∈ x, c ≠ sep) →
    splitOn sep (intercalate [sep] xs) = xs
  | [], h, _ => absurd rfl h
  | [x], _, hx => by simp only [intercalate]; exact splitOn_nosep sep x (hx x (by simp))
  | x :: y :: rest, _, hx => by
    simp only [intercalate, List.append_assoc, List.singleton_append]
    rw [splitOn_append_sep sep x _ (hx x (by simp))]
    rw [splitOn_intercalate sep (y :: rest) (by simp) (fun z hz => hx z (by simp [hz]))]

/-- **the whole body**: every member's key is replaced where it stands, separators kept -/
theorem redactIndexBody_members (h : Str → Str) (ms : List IndexMember) (hne : ms ≠ [])
    (hcomma : ∀ m ∈ ms, ∀ c ∈ m.text, c ≠ ',') :
    redactIndexBody h (intercalate [','] (ms.map IndexMember.text)) = intercalate [','] (ms.map (IndexMember.redacted h)) := by
  unfold redactIndexBody
  rw [splitOn_intercalate ',' (ms.map IndexMember.text) (by simpa using hne)
    (by intro x hx; simp only [List.mem_map] at hx; obtain ⟨m, hm, rfl⟩ := hx; exact hcomma m hm)]
  rw [List.map_map]
  congr 1
  apply List.map_congr_left
  intro m _
  exact redactIndexField_member h m

/-! ### the match `IXSCAN\s*\{([^}]+)\}` at the head of the text -/

theorem span_loop_no_brace : ∀ (body rest acc : Str), (∀ c ∈ body, c ≠ '}') →
    List.span.loop (· != '}') (body ++ '}' :: rest) acc = (acc.reverse ++ body, '}' :: rest)
  | [], rest, acc, _ => by simp [List.span.loop]
  | a :: body, rest, acc, h => by
    have ha : a ≠ '}' := h a (by simp)
    have hne : (a != '}') = true := by simpa using ha
    simp only [List.cons_append, List.span.loop, hne]
    rw [span_loop_no_brace body rest (a :: acc) (fun c hc => h c (by simp [hc]))]
    simp

theorem span_no_brace (body rest : Str) (h : ∀ c ∈ body, c ≠ '}') :
    (body ++ '}' :: rest).span (· != '}') = (body, '}' :: rest) := by
  unfold List.span
  rw [span_loop_no_brace body rest [] h]; simp

theorem matchIxscanHere_at (ws body rest : Str) (hws : ∀ c ∈ ws, isReSpace c = true) (hb : body ≠ [])
    (hbr : ∀ c ∈ body, c ≠ '}') :
    matchIxscanHere (sIXSCAN ++ ws ++ '{' :: (body ++ '}' :: rest)) = some (body, rest) := by
  unfold matchIxscanHere
  have hp : isPrefix sIXSCAN (sIXSCAN ++ ws ++ '{' :: (body ++ '}' :: rest)) = true := by
    rw [List.append_assoc]; exact isPrefix_self_append _ _
  have hd : (sIXSCAN ++ ws ++ '{' :: (body ++ '}' :: rest)).drop 6 = ws ++ '{' :: (body ++ '}' :: rest) := by
    rw [List.append_assoc]
    have : sIXSCAN.length = 6 := by decide
    rw [← this]; exact List.drop_left
  have hbrace : isReSpace '{' = false := by decide
  simp only [hp, if_true, hd, dropWhileC_ws_append isReSpace ws '{' _ hws hbrace, span_no_brace body rest hbr]
  cases body with
  | nil => exact absurd rfl hb
  | cons a b => rfl

/-- **one index scan at the head of the summary**: the text up to the brace is kept, the body is rewritten
    member by member, the rest of the summary is treated the same way -/
theorem redactIxscans_head (h : Str → Str) (fuel : Nat) (ws body rest : Str) (hws : ∀ c ∈ ws, isReSpace c = true) (hb : body ≠ [])
    (hbr : ∀ c ∈ body, c ≠ '}') :
    redactIxscans h (fuel + 1) (sIXSCAN ++ ws ++ '{' :: (body ++ '}' :: rest)) =
      sIXSCAN ++ ws ++ '{' :: (redactIndexBody h body ++ '}' :: redactIxscans h fuel rest) := by
  have hm := matchIxscanHere_at ws body rest hws hb hbr
  have hcons : sIXSCAN ++ ws ++ '{' :: (body ++ '}' :: rest) = 'I' :: ("XSCAN".toList ++ ws ++ '{' :: (body ++ '}' :: rest)) := by
    simp [sIXSCAN]
  rw [hcons] at hm ⊢
  simp only [redactIxscans, hm]
  -- lengths
  have hlen : ('I' :: ("XSCAN".toList ++ ws ++ '{' :: (body ++ '}' :: rest))).length - rest.length = 6 + ws.length + 1 + body.length + 1 := by
    simp; omega
  rw [hlen]
  have htake : ('I' :: ("XSCAN".toList ++ ws ++ '{' :: (body ++ '}' :: rest))).take (6 + ws.length + 1 + body.length + 1) =
      'I' :: ("XSCAN".toList ++ ws ++ '{' :: (body ++ ['}'])) := by
    have e : 'I' :: ("XSCAN".toList ++ ws ++ '{' :: (body ++ '}' :: rest)) = ('I' :: ("XSCAN".toList ++ ws ++ '{' :: (body ++ ['}']))) ++ rest := by simp
    rw [e]
    have l : ('I' :: ("XSCAN".toList ++ ws ++ '{' :: (body ++ ['}']))).length = 6 + ws.length + 1 + body.length + 1 := by simp; omega
    rw [← l]; exact List.take_left
  rw [htake]
  have htake2 : ('I' :: ("XSCAN".toList ++ ws ++ '{' :: (body ++ ['}']))).take
      (('I' :: ("XSCAN".toList ++ ws ++ '{' :: (body ++ ['}']))).length - body.length - 1) = 'I' :: ("XSCAN".toList ++ ws ++ ['{']) := by
    have e : 'I' :: ("XSCAN".toList ++ ws ++ '{' :: (body ++ ['}'])) = ('I' :: ("XSCAN".toList ++ ws ++ ['{'])) ++ (body ++ ['}']) := by simp
    have l : ('I' :: ("XSCAN".toList ++ ws ++ '{' :: (body ++ ['}']))).length - body.length - 1 = ('I' :: ("XSCAN".toList ++ ws ++ ['{'])).length := by
      simp; omega
    rw [l, e]; exact List.take_left
  rw [htake2]
  simp [sIXSCAN]

end Anonymongo
