/-
  Lemmas/PrintLine.lean — the serialiser never emits a raw line feed (or any other control byte):
  every output line is one physical line.  Numbers are printed as their literal text, so the
  statement needs the number literals of the tree to be free of control characters — which holds for
  every tree the parser produces (digits, sign, point, exponent) and is preserved by redaction.
-/
import Anonymongo.Model.JsonText
namespace Anonymongo

def okByte (b : UInt8) : Bool := 0x20 ≤ b

theorem char_lt (c : Char) : c.toNat < 0x110000 := by
  have h := c.valid
  unfold UInt32.isValidChar Nat.isValidChar at h
  show c.val.toNat < 0x110000
  omega

theorem ok_of_nat (n : Nat) (h1 : 0x20 ≤ n % 256) : okByte n.toUInt8 = true := by
  simp only [okByte, decide_eq_true_eq]
  rw [UInt8.le_iff_toNat_le]; simp; omega

theorem utf8Enc_ok (c : Char) (h : 0x20 ≤ c.toNat) : ∀ b ∈ utf8Enc c, okByte b = true := by
  intro b hb
  have hv := char_lt c
  simp only [utf8Enc] at hb
  split at hb
  · simp only [List.mem_singleton] at hb; subst hb; apply ok_of_nat; omega
  · split at hb
    · simp only [List.mem_cons, List.mem_nil_iff, or_false] at hb
      rcases hb with hb | hb <;> subst hb <;> apply ok_of_nat <;> omega
    · split at hb
      · simp only [List.mem_cons, List.mem_nil_iff, or_false] at hb
        rcases hb with hb | hb | hb <;> subst hb <;> apply ok_of_nat <;> omega
      · simp only [List.mem_cons, List.mem_nil_iff, or_false] at hb
        rcases hb with hb | hb | hb | hb <;> subst hb <;> apply ok_of_nat <;> omega

theorem asciiBytes_ok (s : String) (h : ∀ c ∈ s.toList, 0x20 ≤ c.toNat % 256) : ∀ b ∈ asciiBytes s, okByte b = true := by
  intro b hb
  simp only [asciiBytes, List.mem_map] at hb
  obtain ⟨c, hc, rfl⟩ := hb
  exact ok_of_nat _ (h c hc)

theorem hexLower_ok (n : Nat) (h : n < 16) : okByte (hexLower n) = true := by
  unfold hexLower
  split <;> apply ok_of_nat <;> omega

/-- every byte of an escaped character is ≥ 0x20 -/
theorem escChar_ok (c : Char) : ∀ b ∈ escChar c, okByte b = true := by
  intro b hb
  unfold escChar at hb
  simp only [] at hb
  split at hb
  · revert b; decide
  split at hb
  · revert b; decide
  split at hb
  · revert b; decide
  split at hb
  · revert b; decide
  split at hb
  · revert b; decide
  split at hb
  · revert b; decide
  split at hb
  · revert b; decide
  split at hb
  · rename_i hcond
    have hlt : c.toNat < 256 := by
      simp only [Bool.or_eq_true, decide_eq_true_eq] at hcond
      rcases hcond with ((h | h) | h) | h
      · omega
      · subst h; decide
      · subst h; decide
      · subst h; decide
    simp only [List.mem_append, List.mem_cons, List.mem_nil_iff, or_false] at hb
    rcases hb with hb | hb | hb
    · revert b; decide
    · subst hb; exact hexLower_ok _ (by omega)
    · subst hb; exact hexLower_ok _ (Nat.mod_lt _ (by decide))
  · rename_i hcond
    split at hb
    · revert b; decide
    split at hb
    · revert b; decide
    · apply utf8Enc_ok c _ b hb
      simp only [Bool.or_eq_true, decide_eq_true_eq, not_or, Nat.not_lt] at hcond
      exact hcond.1.1.1

theorem printStr_ok (s : Str) : ∀ b ∈ printStr s, okByte b = true := by
  intro b hb
  simp only [printStr, List.mem_append, List.mem_singleton, List.mem_flatMap] at hb
  rcases hb with (hb | ⟨c, _, hc⟩) | hb
  · subst hb; decide
  · exact escChar_ok c b hc
  · subst hb; decide

mutual
/-- no number literal anywhere in the tree contains a control character -/
def J.numsOk : J → Bool
  | .num lit => lit.all fun c => 0x20 ≤ c.toNat
  | .arr xs => numsOkList xs
  | .obj kvs => numsOkKVs kvs
  | _ => true
def numsOkList : List J → Bool
  | [] => true
  | x :: xs => x.numsOk && numsOkList xs
def numsOkKVs : List (Str × J) → Bool
  | [] => true
  | (_, v) :: rest => v.numsOk && numsOkKVs rest
end

theorem utf8_ok (lit : Str) (h : (lit.all fun c => 0x20 ≤ c.toNat) = true) : ∀ b ∈ utf8 lit, okByte b = true := by
  intro b hb
  simp only [utf8, List.mem_flatMap] at hb
  obtain ⟨c, hc, hb⟩ := hb
  simp only [List.all_eq_true, decide_eq_true_eq] at h
  exact utf8Enc_ok c (h c hc) b hb

mutual
theorem printJ_ok : ∀ (v : J), v.numsOk = true → ∀ b ∈ printJ v, okByte b = true
  | .null, _, b, hb => by simp only [printJ] at hb; revert b; decide
  | .bool true, _, b, hb => by simp only [printJ] at hb; revert b; decide
  | .bool false, _, b, hb => by simp only [printJ] at hb; revert b; decide
  | .num lit, h, b, hb => by simp only [printJ] at hb; exact utf8_ok lit (by simpa [J.numsOk] using h) b hb
  | .str s, _, b, hb => by simp only [printJ] at hb; exact printStr_ok s b hb
  | .arr xs, h, b, hb => by
    simp only [printJ, List.mem_append, List.mem_singleton] at hb
    rcases hb with (hb | hb) | hb
    · subst hb; decide
    · exact printElems_ok xs (by simpa [J.numsOk] using h) b hb
    · subst hb; decide
  | .obj kvs, h, b, hb => by
    simp only [printJ, List.mem_append, List.mem_singleton] at hb
    rcases hb with (hb | hb) | hb
    · subst hb; decide
    · exact printMembers_ok kvs (by simpa [J.numsOk] using h) b hb
    · subst hb; decide
theorem printElems_ok : ∀ (xs : List J), numsOkList xs = true → ∀ b ∈ printElems xs, okByte b = true
  | [], _, b, hb => by simp [printElems] at hb
  | [x], h, b, hb => by
    simp only [printElems] at hb
    simp only [numsOkList, Bool.and_true] at h
    exact printJ_ok x h b hb
  | x :: y :: rest, h, b, hb => by
    simp only [printElems, List.mem_append, List.mem_singleton] at hb
    simp only [numsOkList, Bool.and_eq_true] at h
    rcases hb with (hb | hb) | hb
    · exact printJ_ok x h.1 b hb
    · subst hb; decide
    · exact printElems_ok (y :: rest) (by simp [numsOkList, h.2]) b hb
theorem printMembers_ok : ∀ (kvs : List (Str × J)), numsOkKVs kvs = true → ∀ b ∈ printMembers kvs, okByte b = true
  | [], _, b, hb => by simp [printMembers] at hb
  | [(k, v)], h, b, hb => by
    simp only [printMembers, List.mem_append, List.mem_singleton] at hb
    simp only [numsOkKVs, Bool.and_true] at h
    rcases hb with (hb | hb) | hb
    · exact printStr_ok k b hb
    · subst hb; decide
    · exact printJ_ok v h b hb
  | (k, v) :: m :: rest, h, b, hb => by
    simp only [printMembers, List.mem_append, List.mem_singleton] at hb
    simp only [numsOkKVs, Bool.and_eq_true] at h
    rcases hb with (((hb | hb) | hb) | hb) | hb
    · exact printStr_ok k b hb
    · subst hb; decide
    · exact printJ_ok v h.1 b hb
    · subst hb; decide
    · exact printMembers_ok (m :: rest) (by obtain ⟨mk, mv⟩ := m; simp [numsOkKVs] at h ⊢; exact h.2) b hb
end

/-- **one physical line**: the printed object contains no line feed, no carriage return, no other
    control byte -/
theorem printObj_one_line (kvs : List (Str × J)) (h : numsOkKVs kvs = true) :
    ∀ b ∈ printObj kvs, b ≠ 10 ∧ b ≠ 13 ∧ 0x20 ≤ b := by
  intro b hb
  have := printJ_ok (.obj kvs) (by simpa [J.numsOk] using h) b hb
  simp only [okByte, decide_eq_true_eq] at this
  refine ⟨?_, ?_, this⟩ <;> intro e <;> subst e <;> revert this <;> decide

end Anonymongo
