/-
  Lemmas/Prov.lean — PROVENANCE of a table lookup: whatever `getOp` answers for a key path is an
  entry of one of the five operator tables, at a table path that is a SUBSEQUENCE of the key path
  (through the `OperatorArray` restart, the `OperatorMap` cut and the last-key fallbacks).
  This is what ties "the walker kept this literal" to "a table entry at these keys says so", so that
  the whitelist obligation over the regenerated tables (`C01_tables`) speaks about document positions.
-/
import Anonymongo.Spec.Whitelist
namespace Anonymongo

def tbl (T : Tables) : Spec.TableId → MTable
  | .core => T.core
  | .agg => T.agg
  | .search => T.search
  | .searchAgg => T.searchAgg
  | .opMapDefs => T.opMapDefs

/-- the typed entries of `m`, read with prefix `pre`, are entries of table `tb` -/
def Reach (T : Tables) (tb : Spec.TableId) (pre : List Str) (m : MTable) : Prop :=
  ∀ q t, (q, t) ∈ Spec.entries pre m → (q, t) ∈ Spec.entries [] (tbl T tb)

theorem reach_top (T : Tables) (tb : Spec.TableId) : Reach T tb [] (tbl T tb) := fun _ _ h => h

theorem entries_lookup (pre : List Str) (k : Str) : ∀ (m : MTable) (x : Meta), lookup k m = some x →
    ∀ e, e ∈ Spec.entriesMeta (pre ++ [k]) x → e ∈ Spec.entries pre m
  | [], _, h, _, _ => by simp [lookup] at h
  | (k', v) :: rest, x, h, e, he => by
    simp only [lookup] at h
    simp only [Spec.entries, List.mem_append]
    by_cases hk : k' = k
    · simp only [hk, if_true, Option.some.injEq] at h
      subst h; subst hk; exact Or.inl he
    · simp only [hk, if_false] at h
      exact Or.inr (entries_lookup pre k rest x h e he)

theorem reach_sub (T : Tables) (tb : Spec.TableId) (pre : List Str) (m m' : MTable) (k : Str)
    (h : Reach T tb pre m) (hl : lookup k m = some (.map m')) : Reach T tb (pre ++ [k]) m' := by
  intro q t hq
  apply h
  apply entries_lookup pre k m (.map m') hl
  simpa [Spec.entriesMeta] using hq

theorem reach_ty (T : Tables) (tb : Spec.TableId) (pre : List Str) (m : MTable) (k : Str) (t : OpT)
    (h : Reach T tb pre m) (hl : lookup k m = some (.ty t)) : (pre ++ [k], t) ∈ Spec.entries [] (tbl T tb) := by
  apply h
  apply entries_lookup pre k m (.ty t) hl
  simp [Spec.entriesMeta]

/-- `m` is one of the tables nested (at any depth) inside `top`, or `top` itself -/
inductive IsSub : MTable → MTable → Prop
  | refl (m : MTable) : IsSub m m
  | step {top m m' : MTable} (k : Str) : IsSub top m → lookup k m = some (.map m') → IsSub top m'

/-- where an answer of the lookup functions comes from -/
def ProvAt (T : Tables) (kp : List Str) : Option Meta → Prop
  | some (.ty t) => ∃ tb p, (p, t) ∈ Spec.entries [] (tbl T tb) ∧ p.Sublist kp
  | some (.map m) => ∃ tb pre, Reach T tb pre m ∧ pre.Sublist kp ∧ IsSub (tbl T tb) m
  | _ => True

theorem provAt_lookup (T : Tables) (tb : Spec.TableId) (pre : List Str) (m : MTable) (k : Str) (kp : List Str)
    (h : Reach T tb pre m) (hsub : IsSub (tbl T tb) m) (hs : (pre ++ [k]).Sublist kp) : ∀ x, lookup k m = some x → ProvAt T kp (some x)
  | .ty t, hl => ⟨tb, pre ++ [k], reach_ty T tb pre m k t h hl, hs⟩
  | .map m', hl => ⟨tb, pre ++ [k], reach_sub T tb pre m m' k h hl, hs, .step k hsub hl⟩
  | .nil, _ => trivial

/-! ### the two path helpers keep subsequences -/

theorem rea_sublist (marker : Str) : ∀ l : List Str, (removeElementAfter marker l).Sublist l
  | [] => by simp [removeElementAfter]
  | [x] => by simp [removeElementAfter]
  | x :: y :: rest => by
    simp only [removeElementAfter]
    split
    · exact List.Sublist.cons_cons x (List.sublist_cons_self y rest)
    · exact List.Sublist.cons_cons x (rea_sublist marker (y :: rest))

/-- what follows the first non-final occurrence of the marker, with the marker put back in front,
    is a subsequence of the list -/
theorem rebi_sublist (marker : Str) : ∀ l : List Str, marker ∈ l → (marker :: removeElementsBeforeIncluding marker l).Sublist l
  | [], h => by simp at h
  | [x], h => by
    simp only [List.mem_singleton] at h
    subst h; simp [removeElementsBeforeIncluding]
  | x :: y :: rest, h => by
    simp only [removeElementsBeforeIncluding]
    by_cases hx : x = marker
    · simp only [hx, if_true]; exact List.Sublist.refl _
    · simp only [hx, if_false]
      have hm : marker ∈ y :: rest := by
        simp only [List.mem_cons] at h ⊢
        rcases h with h | h
        · exact absurd h.symm hx
        · exact h
      exact (rebi_sublist marker (y :: rest) hm).cons x

theorem rea_mem (marker : Str) : ∀ l : List Str, marker ∈ l → marker ∈ removeElementAfter marker l
  | [], h => by simp at h
  | [x], h => by simpa [removeElementAfter] using h
  | x :: y :: rest, h => by
    simp only [removeElementAfter]
    by_cases hx : x = marker
    · simp [hx]
    · simp only [hx, if_false, List.mem_cons]
      simp only [List.mem_cons] at h
      rcases h with h | h
      · exact absurd h.symm hx
      · exact Or.inr (by simpa using rea_mem marker (y :: rest) (by simpa using h))

theorem cut_sublist (part : Str) (full : List Str) (h : part ∈ full) :
    (part :: removeElementsBeforeIncluding part (removeElementAfter part full)).Sublist full :=
  (rebi_sublist part _ (rea_mem part full h)).trans (rea_sublist part full)

/-! ### traverseMapPath -/

/-- the outcome of one pass of the loop -/
def StepProv (T : Tables) (kp : List Str) : Step → Prop
  | .done r => ProvAt T kp r
  | .restart p t => ∃ tb pre, Reach T tb pre t ∧ (pre ++ p).Sublist kp ∧ IsSub (tbl T tb) t

theorem traverseLoop_prov (T : Tables) (S : Bool) (full kp : List Str) (hfull : full.Sublist kp) :
    ∀ (rest : List Str) (m : MTable) (tb : Spec.TableId) (pre done : List Str),
      Reach T tb pre m → IsSub (tbl T tb) m → full = done ++ rest → (pre ++ rest).Sublist kp →
      StepProv T kp (traverseLoop T S full rest m)
  | [], m, tb, pre, _, hr, hsub, _, hs => by
    simp only [traverseLoop, StepProv, ProvAt]
    exact ⟨tb, pre, hr, by simpa using hs, hsub⟩
  | part :: rest, m, tb, pre, done, hr, hsub, hd, hs => by
    have hmem : part ∈ full := by rw [hd]; simp
    have hs1 : (pre ++ [part]).Sublist kp := by
      refine List.Sublist.trans ?_ hs
      exact List.Sublist.append (List.Sublist.refl pre) (by simp)
    simp only [traverseLoop]
    cases hl : lookup part m with
    | none => simp [StepProv, ProvAt]
    | some val =>
      simp only []
      split
      · -- OperatorArray with elements left: restart on the rest in the core / search table
        simp only [StepProv]
        have hrest : rest.Sublist kp :=
          List.Sublist.trans ((List.sublist_cons_self part rest).trans (List.sublist_append_right pre _)) hs
        cases S
        · exact ⟨.core, [], reach_top T .core, by simpa using hrest, .refl _⟩
        · exact ⟨.search, [], reach_top T .search, by simpa using hrest, .refl _⟩
      · split
        · -- OperatorMap
          have hcut := (cut_sublist part full hmem).trans hfull
          cases hom : lookup part T.opMapDefs with
          | none => simp only [StepProv]; exact provAt_lookup T tb pre m part kp hr hsub hs1 val hl
          | some om =>
            cases om with
            | map om' =>
              simp only []
              split
              · simp only [StepProv]
                refine ⟨.opMapDefs, [part], ?_, by simpa using hcut, .step part (.refl _) hom⟩
                have := reach_sub T .opMapDefs [] T.opMapDefs om' part (reach_top T .opMapDefs) hom
                simpa using this
              · simp only [StepProv]; exact provAt_lookup T tb pre m part kp hr hsub hs1 val hl
            | ty t => simp only [StepProv]; exact provAt_lookup T tb pre m part kp hr hsub hs1 val hl
            | nil => simp only [StepProv]; exact provAt_lookup T tb pre m part kp hr hsub hs1 val hl
        · cases rest with
          | nil =>
            cases val with
            | nil => simp [StepProv, ProvAt]
            | ty t => simp only [StepProv]; exact provAt_lookup T tb pre m part kp hr hsub hs1 _ hl
            | map m' => simp only [StepProv]; exact provAt_lookup T tb pre m part kp hr hsub hs1 _ hl
          | cons r rs =>
            cases val with
            | nil => simp [StepProv, ProvAt]
            | ty t => simp [StepProv, ProvAt]
            | map m' =>
              simp only []
              exact traverseLoop_prov T S full kp hfull (r :: rs) m' tb (pre ++ [part]) (done ++ [part])
                (reach_sub T tb pre m m' part hr hl) (.step part hsub hl) (by simp [hd]) (by simpa using hs)

theorem traverseFuel_prov (T : Tables) (S : Bool) (kp : List Str) :
    ∀ (fuel : Nat) (full : List Str) (m : MTable) (tb : Spec.TableId) (pre : List Str),
      Reach T tb pre m → IsSub (tbl T tb) m → (pre ++ full).Sublist kp → ProvAt T kp (traverseFuel T S fuel full m)
  | 0, _, _, _, _, _, _, _ => by simp [traverseFuel, ProvAt]
  | fuel + 1, full, m, tb, pre, hr, hsub, hs => by
    have hfull : full.Sublist kp := (List.sublist_append_right pre full).trans hs
    have := traverseLoop_prov T S full kp hfull full m tb pre [] hr hsub (by simp) hs
    simp only [traverseFuel]
    cases hstep : traverseLoop T S full full m with
    | done r => simpa [hstep, StepProv] using this
    | restart p t =>
      simp only [hstep, StepProv] at this
      obtain ⟨tb', pre', hr', hs', hsub'⟩ := this
      exact traverseFuel_prov T S kp fuel p t tb' pre' hr' hsub' hs'

theorem getLastD_mem_cons : ∀ (l : List Str) (a : Str), l.getLastD a ∈ a :: l
  | [], a => by simp
  | b :: l, a => by
    rw [List.getLastD_cons]
    exact List.mem_cons_of_mem a (getLastD_mem_cons l b)

theorem lastD_sublist (kp : List Str) (h : kp ≠ []) : [lastD kp].Sublist kp := by
  unfold lastD
  have : kp.getLastD [] ∈ kp := by
    cases kp with
    | nil => exact absurd rfl h
    | cons a l => rw [List.getLastD_cons]; exact getLastD_mem_cons l a
  exact List.singleton_sublist.mpr this

/-- **provenance of `getOp`**: for a non-empty key path the answer is an entry (or a sub-table) of
    the operator tables at a path that is a subsequence of the key path -/
theorem getOp_prov (T : Tables) (kp : List Str) (S : Bool) (h : kp ≠ []) : ProvAt T kp (getOp T kp S) := by
  unfold getOp
  cases S
  · simp only [Bool.false_eq_true, if_false]
    cases hl : lookup (lastD kp) T.core with
    | some m => exact provAt_lookup T .core [] T.core (lastD kp) kp (reach_top T .core) (.refl _) (by simpa using lastD_sublist kp h) m hl
    | none => exact traverseFuel_prov T false kp _ kp T.agg .agg [] (reach_top T .agg) (.refl _) (by simp)
  · simp only [if_true]
    cases ht : traverse T true kp T.searchAgg with
    | some m =>
      have := traverseFuel_prov T true kp (kp.length + 1) kp T.searchAgg .searchAgg [] (reach_top T .searchAgg) (.refl _) (by simp)
      unfold traverse at ht
      rw [ht] at this
      exact this
    | none =>
      by_cases hu : withinSearchUserDocument kp = true
      · simp only [hu, if_true]; trivial
      · simp only [hu, if_false]
        cases hl : lookup (lastD kp) T.search with
        | some m => exact provAt_lookup T .search [] T.search (lastD kp) kp (reach_top T .search) (.refl _) (by simpa using lastD_sublist kp h) m hl
        | none => trivial

end Anonymongo
