/-
  Lemmas/Refine.lean — the automaton of Model/Auto.lean computes exactly the transliterated
  walkers of Model/Walk.lean (refinement, by mutual structural induction).
-/
import Anonymongo.Model.Auto
namespace Anonymongo
namespace Ctx

theorem reMatchesAny_nil (re : Option (Str → Bool)) : reMatchesAny re [] = false := by
  cases re <;> simp [reMatchesAny]

mutual

theorem P_refine (c : Ctx) (S : Bool) (kp : List Str) : ∀ v, c.run (.P S kp) v = c.P S kp v
  | .obj kvs => by simp [run, node, P, PEntries_refine c S kp kvs]
  | .arr xs => by simp [run, node, P, A_refine c S [] (c.selArr xs) kp xs]
  | .null => by simp [run, node, P]
  | .str s => by simp [run, node, P]
  | .num l => by simp [run, node, P]
  | .bool b => by simp [run, node, P]

theorem PEntries_refine (c : Ctx) (S : Bool) (kp : List Str) :
    ∀ kvs, c.runKVs (c.pObj S kp) kvs = c.PEntries S kp kvs
  | [] => by simp [runKVs, PEntries]
  | (k, v) :: rest => by
    simp [runKVs, PEntries, pObj, PVal_refine c S kp k _ v]
    exact PEntries_refine c S kp rest

theorem PVal_refine (c : Ctx) (S : Bool) (kp : List Str) (k : Str) (op : Option Meta) :
    ∀ v, c.run (.PVal S kp k op) v = c.PVal S kp k op v
  | .obj kvs => by
    have h1 := FacetEntries_refine c kvs
    have h2 := fun m => SubEntries_refine c S k (kp ++ [k]) m kvs
    have h3 := PEntries_refine c S (kp ++ [k]) kvs
    cases op with
    | none => simp [run, node, PVal, h3]
    | some mt =>
      cases mt with
      | nil => simp [run, node, PVal, h3]
      | map m => simp [run, node, PVal, h2 m]
      | ty t => cases t <;> simp [run, node, PVal, h1, h3]
  | .arr xs => by
    have h1 := A_refine c S [] (c.selArr xs) (kp ++ [k]) xs
    have h2 := PList_refine c S (kp ++ [k]) xs
    cases op with
    | none => simp [run, node, PVal, h1]
    | some mt =>
      cases mt with
      | nil => simp [run, node, PVal, h1]
      | map m => simp [run, node, PVal, h1]
      | ty t => cases t <;> simp [run, node, PVal, h1, h2] <;> (by_cases hh : c.rfn = false ∧ allStrings xs = true <;> simp [hh, h1])
  | .null => by simp [run, node, PVal]
  | .str s => by simp [run, node, PVal]
  | .num l => by simp [run, node, PVal]
  | .bool b => by simp [run, node, PVal]

theorem PList_refine (c : Ctx) (S : Bool) (nkp : List Str) :
    ∀ xs, c.runList (.P S nkp) xs = c.PList S nkp xs
  | [] => by simp [runList, PList]
  | x :: xs => by simp [runList, PList, P_refine c S nkp x, PList_refine c S nkp xs]

theorem FacetEntries_refine (c : Ctx) :
    ∀ kvs, c.runKVs (fun k' _ => (k', St.Facet)) kvs = c.FacetEntries kvs
  | [] => by simp [runKVs, FacetEntries]
  | (k, v) :: rest => by simp [runKVs, FacetEntries, FacetVal_refine c v, FacetEntries_refine c rest]

theorem FacetVal_refine (c : Ctx) : ∀ v, c.run .Facet v = c.FacetVal v
  | .obj kvs => by simp [run, node, FacetVal, PEntries_refine c _ [] kvs]
  | .arr xs => by simp [run, node, FacetVal, FacetStages_refine c xs]
  | .null => by simp [run, node, FacetVal]
  | .str s => by simp [run, node, FacetVal]
  | .num l => by simp [run, node, FacetVal]
  | .bool b => by simp [run, node, FacetVal]

theorem FacetStages_refine (c : Ctx) : ∀ xs, c.runList .FacetStage xs = c.FacetStages xs
  | [] => by simp [runList, FacetStages]
  | x :: xs => by simp [runList, FacetStages, FacetStage_refine c x, FacetStages_refine c xs]

theorem FacetStage_refine (c : Ctx) : ∀ v, c.run .FacetStage v = c.P (isInSearchStage c.T v) [] v
  | .obj kvs => by simp [run, node, P, PEntries_refine c _ [] kvs]
  | .arr xs => by simp [run, node, P, isInSearchStage, A_refine c false [] (c.selArr xs) [] xs]
  | .null => by simp [run, node, P, pScalar, isInSearchStage]
  | .str s => by simp [run, node, P, pScalar, isInSearchStage]
  | .num l => by simp [run, node, P, pScalar, isInSearchStage]
  | .bool b => by simp [run, node, P, pScalar, isInSearchStage]

theorem SubEntries_refine (c : Ctx) (S : Bool) (k : Str) (nkp : List Str) (m : MTable) :
    ∀ kvs, c.runKVs (fun sk _ => (c.subKey (lookup sk m) sk, St.SubVal S k nkp sk (lookup sk m))) kvs
      = c.SubEntries S k nkp m kvs
  | [] => by simp [runKVs, SubEntries]
  | (sk, sv) :: rest => by
    simp [runKVs, SubEntries, SubVal_refine c S k nkp sk _ sv, SubEntries_refine c S k nkp m rest]

theorem SubVal_refine (c : Ctx) (S : Bool) (k : Str) (nkp : List Str) (sk : Str) (sm : Option Meta) :
    ∀ v, c.run (.SubVal S k nkp sk sm) v = c.SubVal S k nkp sk sm v
  | .obj kvs => by
    have h1 := NsDoc_refine c kvs
    have h3 := PEntries_refine c S (nkp ++ [sk]) kvs
    cases sm with
    | none => simp [run, node, SubVal, h3]
    | some mt =>
      cases mt with
      | nil => simp [run, node, SubVal, h3]
      | map m => simp [run, node, SubVal, h3]
      | ty t => cases t <;> simp [run, node, SubVal, h1, h3] <;> (by_cases hh : c.cfg.ns = true <;> simp [hh, h1])
  | .arr xs => by
    have h1 := A_refine c S [] (c.selArr xs) (nkp ++ [sk]) xs
    have h2 := PList_refine c S nkp xs
    have h4 := FacetStages_refine c xs
    cases sm with
    | none => simp [run, node, SubVal, h1]
    | some mt =>
      cases mt with
      | nil => simp [run, node, SubVal, h1]
      | map m => simp [run, node, SubVal, h1]
      | ty t => cases t <;> simp [run, node, SubVal, h1, h2, h4] <;> (by_cases hh : c.rfn = false ∧ allStrings xs = true <;> simp [hh, h1])
  | .null => by simp [run, node, SubVal]
  | .str s => by simp [run, node, SubVal]
  | .num l => by simp [run, node, SubVal]
  | .bool b => by simp [run, node, SubVal]

theorem NsDoc_refine (c : Ctx) : ∀ kvs, c.runKVs (fun k' _ => (k', St.NsMember)) kvs = c.nsDoc kvs
  | [] => by simp [runKVs, nsDoc]
  | (k, v) :: rest => by
    have ih := NsDoc_refine c rest
    cases v <;> simp_all [runKVs, nsDoc, run, node]

theorem A_refine (c : Ctx) (S : Bool) (pk : Str) (sel : Bool) (kp : List Str) :
    ∀ xs, c.runList (.AElem S pk sel kp) xs = c.A S pk sel kp xs
  | [] => by simp [runList, A]
  | x :: xs => by simp [runList, A, AElem_refine c S pk sel kp x, A_refine c S pk sel kp xs]

theorem AElem_refine (c : Ctx) (S : Bool) (pk : Str) (sel : Bool) (kp : List Str) :
    ∀ v, c.run (.AElem S pk sel kp) v = c.AElem S pk sel kp v
  | .obj kvs => by simp [run, node, AElem, Q_refine c S none kp kvs]
  | .arr ys => by simp [run, node, AElem, A_refine c S pk sel kp ys]
  | .null => by simp [run, node, AElem]
  | .str s => by simp [run, node, AElem]
  | .num l => by simp [run, node, AElem]
  | .bool b => by simp [run, node, AElem]

theorem Q_refine (c : Ctx) (S : Bool) (pc : Option Meta) (kp : List Str) :
    ∀ kvs, c.runKVs (c.qObj S pc kp) kvs = c.Q S pc kp kvs
  | [] => by simp [runKVs, Q]
  | (k, v) :: rest => by
    simp [runKVs, Q, qObj, QVal_refine c S _ k (kp ++ [k]) v]
    exact Q_refine c S pc kp rest

theorem QVal_refine (c : Ctx) (S : Bool) (co : Option Meta) (k : Str) (nkp : List Str) :
    ∀ v, c.run (.QVal S co k nkp) v = c.QVal S co k nkp v
  | .obj kvs => by simp [run, node, QVal, Q_refine c S _ nkp kvs]
  | .arr xs => by simp [run, node, QVal, A_refine c S k (c.selArr xs) nkp xs]
  | .null => by simp [run, node, QVal]
  | .str s => by simp [run, node, QVal]
  | .num l => by simp [run, node, QVal]
  | .bool b => by simp [run, node, QVal]

end

end Ctx
end Anonymongo

namespace Anonymongo
namespace Ctx

theorem opZone_refine (c : Ctx) (hasInsert : Bool) (k : Str) (v : J) :
    c.run (opZone hasInsert k) v = c.cmdVal hasInsert k v := by
  unfold opZone cmdVal
  by_cases h1 : qKeysObj.contains k = true
  · rw [if_pos h1, if_pos h1]; cases v <;> simp [run, node, Q_refine]
  · rw [if_neg h1, if_neg h1]
    by_cases h2 : uKeysObjOrArr.contains k = true
    · rw [if_pos h2, if_pos h2]; cases v <;> simp [run, node, Q_refine, A_refine]
    · rw [if_neg h2, if_neg h2]
      by_cases h3 : aKeysArr.contains k = true
      · rw [if_pos h3, if_pos h3]; cases v <;> simp [run, node, A_refine]
      · rw [if_neg h3, if_neg h3]
        by_cases h4 : k = sDocuments
        · rw [if_pos h4, if_pos h4]
          cases hasInsert <;> cases v <;> simp [run, node, A_refine]
        · rw [if_neg h4, if_neg h4]
          by_cases h4' : k = sDocument
          · rw [if_pos h4', if_pos h4']
            cases hasInsert <;> cases v <;> simp [run, node, Q_refine]
          · rw [if_neg h4', if_neg h4']
            by_cases h5 : k = sPipeline
            · rw [if_pos h5, if_pos h5]; cases v <;> simp [run, node, FacetStages_refine]
            · rw [if_neg h5, if_neg h5]; cases v <;> simp [run, node]

theorem runKVs_opZone (c : Ctx) (hi : Bool) : ∀ (kvs : List (Str × J)),
    c.runKVs (fun k _ => (k, opZone hi k)) kvs = kvs.map fun p => (p.1, c.cmdVal hi p.1 p.2)
  | [] => rfl
  | (k, v) :: rest => by simp [runKVs, opZone_refine, runKVs_opZone c hi rest]

/-- an operation document one level down -/
theorem opDoc_refine (c : Ctx) (v : J) : c.run .ZOp v = c.opDoc v := by
  cases v <;> simp [run, node, opDoc, redactOperation, runKVs_opZone]

theorem runList_ZOp (c : Ctx) : ∀ xs : List J, c.runList .ZOp xs = xs.map c.opDoc
  | [] => rfl
  | x :: xs => by simp [runList, opDoc_refine, runList_ZOp c xs]

theorem zone_refine (c : Ctx) (hasInsert hasBulk : Bool) (k : Str) (v : J) :
    c.run (zoneState hasInsert hasBulk k) v = c.cmdEntry hasInsert hasBulk k v := by
  unfold zoneState cmdEntry
  by_cases h1 : k = sExplain
  · rw [if_pos h1, if_pos h1]; exact opDoc_refine c v
  · rw [if_neg h1, if_neg h1]
    by_cases h2 : (k = sOps && hasBulk) = true
    · rw [if_pos h2, if_pos h2]; cases v <;> simp [run, node, runList_ZOp]
    · rw [if_neg h2, if_neg h2]; exact opZone_refine c hasInsert k v

theorem redactCommand_refine (c : Ctx) (cmd : List (Str × J)) : c.redactCommandA cmd = c.redactCommand cmd := by
  simp [redactCommandA, redactCommand, zone_refine]

theorem cmdDoc_refine (c : Ctx) (v : J) : c.cmdDocA v = c.cmdDoc v := by
  cases v <;> simp [cmdDocA, cmdDoc, redactCommand_refine]

end Ctx

theorem cmdDocA_eq : Ctx.cmdDocA = Ctx.cmdDoc := by
  funext c v; exact Ctx.cmdDoc_refine c v

/-- the automaton model and the transliterated model of `RedactMongoLog` are the same function -/
theorem redactLine_refine : redactLineA = redactLine := by
  simp [redactLineA, redactLine, cmdDocA_eq]

theorem redactAttr_refine : redactAttrA = redactAttr := by
  simp [redactAttrA, redactAttr, cmdDocA_eq]

end Anonymongo
