/-
  Lemmas/Rel.lean — a generic two-run (relational) theorem for the walker automaton.

  `RelAt c R s a b` : the trees `a` and `b` have the same structure *as seen by the walker
  started in state `s` on `a`*: wherever the walker keeps a subtree verbatim the two subtrees
  are equal, wherever it descends they have the same keys / the same length and the children
  are related in the child states, and at a scalar leaf they are related by `R` (which knows
  the state).  If `R`-related leaves produce the same output (`LeafSim`), related trees produce
  the same output (`run_rel`).  Full-redaction mode only (`re = none`): in selective mode the
  walker's states depend on `$field` siblings and on path arguments of search operators.

  Instances: non-interference (C02: `R` = same lexical class at a replaced leaf) and the fixed
  point (C19: `R s a b` = `b` is what the walker emits for `a`).
-/
import Anonymongo.Lemmas.ScalarKind
namespace Anonymongo
namespace Ctx

mutual
def RelAt (c : Ctx) (R : St → J → J → Prop) : St → J → J → Prop
  | s, .obj kvs, b =>
    match c.node s (.obj kvs) with
    | .obj f => ∃ kvs', b = .obj kvs' ∧ RelKVs c R f kvs kvs'
    | _ => b = .obj kvs
  | s, .arr xs, b =>
    match c.node s (.arr xs) with
    | .arr s' => ∃ ys, b = .arr ys ∧ RelList c R s' xs ys
    | _ => b = .arr xs
  | s, .null, b => R s .null b
  | s, .bool x, b => R s (.bool x) b
  | s, .num x, b => R s (.num x) b
  | s, .str x, b => R s (.str x) b
def RelKVs (c : Ctx) (R : St → J → J → Prop) (f : Str → J → Str × St) : List (Str × J) → List (Str × J) → Prop
  | [], kvs' => kvs' = []
  | (k, v) :: rest, kvs' =>
    ∃ v' rest', kvs' = (k, v') :: rest' ∧ RelAt c R (f k v).2 v v' ∧ RelKVs c R f rest rest'
def RelList (c : Ctx) (R : St → J → J → Prop) (s : St) : List J → List J → Prop
  | [], ys => ys = []
  | x :: xs, ys => ∃ y ys', ys = y :: ys' ∧ RelAt c R s x y ∧ RelList c R s xs ys'
end

/-- what the leaf relation must guarantee -/
structure LeafSim (c : Ctx) (R : St → J → J → Prop) : Prop where
  scalar : ∀ s a b, a.isScalar = true → R s a b →
    b.isScalar = true ∧ kindOf a = kindOf b ∧ c.run s a = c.run s b

theorem augment_none (c : Ctx) (hre : c.cfg.re = none) (S : Bool) (op : Option Meta) (v : J) :
    c.augment S op v = op := by
  unfold augment
  split
  · simp [augmentOp, hre]
  · rfl

theorem selArr_none (c : Ctx) (hre : c.cfg.re = none) (xs : List J) : c.selArr xs = false := by
  simp [selArr, hre]

theorem isInSearchStage_keys (T : Tables) (a b : List (Str × J)) (h : keysOf a = keysOf b) :
    isInSearchStage T (.obj a) = isInSearchStage T (.obj b) := by
  have : ∀ (l : List (Str × J)), (l.any fun (k, _) => T.topSearch.contains k) = (keysOf l).any fun k => T.topSearch.contains k := by
    intro l; induction l with
    | nil => rfl
    | cons p t ih => obtain ⟨k, v⟩ := p; simp [keysOf] at ih ⊢; rw [ih]
  simp only [isInSearchStage, this, h]

theorem lookup_isSome_keys {α} (k : Str) : ∀ (a b : List (Str × α)), keysOf a = keysOf b →
    (lookup k a).isSome = (lookup k b).isSome
  | [], [], _ => rfl
  | [], _ :: _, h => by simp [keysOf] at h
  | _ :: _, [], h => by simp [keysOf] at h
  | (ka, va) :: ra, (kb, vb) :: rb, h => by
    simp only [keysOf_cons, List.cons.injEq] at h
    obtain ⟨h1, h2⟩ := h
    subst h1
    by_cases e : ka = k
    · simp [lookup, e]
    · simp [lookup, e, lookup_isSome_keys k ra rb h2]

/-- on an object the action depends on the object through its key list only -/
theorem node_obj_keys (c : Ctx) (s : St) (a b : List (Str × J)) (h : keysOf a = keysOf b) :
    c.node s (.obj a) = c.node s (.obj b) := by
  have hs := isInSearchStage_keys c.T a b h
  have hi := lookup_isSome_keys sInsert a b h
  cases s <;> simp [node, hs, hi]

/-- in full-redaction mode the state of a child does not depend on the child's value -/
theorem node_obj_indep (c : Ctx) (hre : c.cfg.re = none) (s : St) (a : List (Str × J)) (f : Str → J → Str × St)
    (h : c.node s (.obj a) = .obj f) : ∀ k x y, f k x = f k y := by
  intro k x y
  cases s <;> simp only [node] at h <;> (try (repeat' split at h)) <;> cases h <;>
    simp [pObj, qObj, augment_none c hre]

theorem node_arr_congr (c : Ctx) (hre : c.cfg.re = none) (s : St) (xs ys : List J)
    (h : allStrings xs = allStrings ys) : c.node s (.arr xs) = c.node s (.arr ys) := by
  cases s <;> simp [node, selArr_none c hre, h]

theorem RelKVs_keys (c : Ctx) (R : St → J → J → Prop) (f : Str → J → Str × St) :
    ∀ kvs kvs', RelKVs c R f kvs kvs' → keysOf kvs = keysOf kvs'
  | [], kvs', h => by simp [RelKVs] at h; simp [h]
  | (k, v) :: rest, kvs', h => by
    simp only [RelKVs] at h
    obtain ⟨v', rest', e, _, hr⟩ := h
    subst e
    simp [keysOf_cons, RelKVs_keys c R f rest rest' hr]

def isStrJ : J → Bool
  | .str _ => true
  | _ => false

theorem allStrings_cons (x : J) (xs : List J) : allStrings (x :: xs) = (isStrJ x && allStrings xs) := by
  cases x <;> simp [allStrings, isStrJ]

theorem isStrJ_of_kind (a b : J) (h : kindOf a = kindOf b) : isStrJ a = isStrJ b := by
  cases a <;> cases b <;> simp_all [isStrJ, kindOf]

mutual
theorem run_rel (c : Ctx) (hre : c.cfg.re = none) (R : St → J → J → Prop) (hs : LeafSim c R) :
    ∀ (s : St) (a b : J), RelAt c R s a b → c.run s a = c.run s b ∧ kindOf a = kindOf b
  | s, .obj kvs, b, h => by
    simp only [RelAt] at h
    cases hn : c.node s (.obj kvs) with
    | obj f =>
      simp only [hn] at h
      obtain ⟨kvs', e, hr⟩ := h
      subst e
      have hk := RelKVs_keys c R f kvs kvs' hr
      have hn' : c.node s (.obj kvs') = .obj f := by rw [← node_obj_keys c s kvs kvs' hk]; exact hn
      have hi := node_obj_indep c hre s kvs f hn
      have := runKVs_rel c hre R hs f hi kvs kvs' hr
      simp [run, hn, hn', this]
    | keep => simp only [hn] at h; subst h; simp
    | leaf o => simp only [hn] at h; subst h; simp
    | arr s' => simp only [hn] at h; subst h; simp
  | s, .arr xs, b, h => by
    simp only [RelAt] at h
    cases hn : c.node s (.arr xs) with
    | arr s' =>
      simp only [hn] at h
      obtain ⟨ys, e, hr⟩ := h
      subst e
      have ⟨h1, h2⟩ := runList_rel c hre R hs s' xs ys hr
      have hn' : c.node s (.arr ys) = .arr s' := by rw [← node_arr_congr c hre s xs ys h2]; exact hn
      simp [run, hn, hn', h1]
    | keep => simp only [hn] at h; subst h; simp
    | leaf o => simp only [hn] at h; subst h; simp
    | obj f => simp only [hn] at h; subst h; simp
  | s, .null, b, h => by
    simp only [RelAt] at h
    have := hs.scalar s .null b (by simp [J.isScalar]) h
    exact ⟨this.2.2, this.2.1⟩
  | s, .bool x, b, h => by
    simp only [RelAt] at h
    have := hs.scalar s (.bool x) b (by simp [J.isScalar]) h
    exact ⟨this.2.2, this.2.1⟩
  | s, .num x, b, h => by
    simp only [RelAt] at h
    have := hs.scalar s (.num x) b (by simp [J.isScalar]) h
    exact ⟨this.2.2, this.2.1⟩
  | s, .str x, b, h => by
    simp only [RelAt] at h
    have := hs.scalar s (.str x) b (by simp [J.isScalar]) h
    exact ⟨this.2.2, this.2.1⟩

theorem runKVs_rel (c : Ctx) (hre : c.cfg.re = none) (R : St → J → J → Prop) (hs : LeafSim c R)
    (f : Str → J → Str × St) (hi : ∀ k x y, f k x = f k y) :
    ∀ kvs kvs', RelKVs c R f kvs kvs' → c.runKVs f kvs = c.runKVs f kvs'
  | [], kvs', h => by simp [RelKVs] at h; simp [h]
  | (k, v) :: rest, kvs', h => by
    simp only [RelKVs] at h
    obtain ⟨v', rest', e, h1, hr⟩ := h
    subst e
    have ih := runKVs_rel c hre R hs f hi rest rest' hr
    have h2 := (run_rel c hre R hs (f k v).2 v v' h1).1
    simp only [runKVs, ih, hi k v' v, h2]

theorem runList_rel (c : Ctx) (hre : c.cfg.re = none) (R : St → J → J → Prop) (hs : LeafSim c R) :
    ∀ (s : St) (xs ys : List J), RelList c R s xs ys →
      c.runList s xs = c.runList s ys ∧ allStrings xs = allStrings ys
  | _, [], ys, h => by simp [RelList] at h; simp [h]
  | s, x :: xs, ys, h => by
    simp only [RelList] at h
    obtain ⟨y, ys', e, h1, hr⟩ := h
    subst e
    have ⟨i1, i2⟩ := runList_rel c hre R hs s xs ys' hr
    have ⟨h2, h3⟩ := run_rel c hre R hs s x y h1
    simp only [runList, i1, h2, allStrings_cons, i2, isStrJ_of_kind x y h3]
    simp
end

end Ctx
end Anonymongo

namespace Anonymongo
namespace Ctx

theorem node_obj_not_leaf' (c : Ctx) (s : St) (kvs : List (Str × J)) (o : J) : c.node s (.obj kvs) ≠ .leaf o := by
  intro h
  cases s <;> simp only [node] at h <;> (try (repeat' split at h)) <;> cases h

theorem node_arr_not_leaf' (c : Ctx) (s : St) (xs : List J) (o : J) : c.node s (.arr xs) ≠ .leaf o := by
  intro h
  cases s <;> simp only [node] at h <;> (try (repeat' split at h)) <;> cases h

mutual
/-- every tree is related to its own redaction by any leaf relation that relates each scalar to what
    the walker emits for it (field-name redaction off, so that keys are not renamed) -/
theorem relAt_run (c : Ctx) (hrfn : c.rfn = false) (R : St → J → J → Prop)
    (hR : ∀ s a, a.isScalar = true → R s a (c.run s a)) :
    ∀ (s : St) (v : J), v.nodup = true → c.RelAt R s v (c.run s v)
  | s, .obj kvs, hn => by
    simp only [RelAt, run]
    cases hnode : c.node s (.obj kvs) with
    | obj f =>
      simp only [J.nodup, Bool.and_eq_true] at hn
      have hk := (shapeOK_of_noRfn c hrfn).keys s _ f hnode
      have ⟨h1, h2⟩ := relKVs_run c hrfn R hR f hk kvs hn.2
      simp only []
      rw [fromPairs_of_nodup _ (by rw [h2]; exact hn.1)]
      exact ⟨_, rfl, h1⟩
    | keep => simp
    | arr s' => simp
    | leaf o => exact absurd hnode (node_obj_not_leaf' c s kvs o)
  | s, .arr xs, hn => by
    simp only [RelAt, run]
    cases hnode : c.node s (.arr xs) with
    | arr s' =>
      simp only [J.nodup] at hn
      exact ⟨_, rfl, relList_run c hrfn R hR s' xs hn⟩
    | keep => simp
    | obj f => simp
    | leaf o => exact absurd hnode (node_arr_not_leaf' c s xs o)
  | s, .null, _ => by simp only [RelAt]; exact hR s .null (by simp [J.isScalar])
  | s, .bool x, _ => by simp only [RelAt]; exact hR s (.bool x) (by simp [J.isScalar])
  | s, .num x, _ => by simp only [RelAt]; exact hR s (.num x) (by simp [J.isScalar])
  | s, .str x, _ => by simp only [RelAt]; exact hR s (.str x) (by simp [J.isScalar])

theorem relKVs_run (c : Ctx) (hrfn : c.rfn = false) (R : St → J → J → Prop)
    (hR : ∀ s a, a.isScalar = true → R s a (c.run s a))
    (f : Str → J → Str × St) (hk : ∀ k x, (f k x).1 = k) :
    ∀ kvs, nodupKVs kvs = true →
      c.RelKVs R f kvs (c.runKVs f kvs) ∧ keysOf (c.runKVs f kvs) = keysOf kvs
  | [], _ => by simp [RelKVs, runKVs, keysOf]
  | (k, v) :: rest, hn => by
    simp only [nodupKVs, Bool.and_eq_true] at hn
    have ⟨h1, h2⟩ := relKVs_run c hrfn R hR f hk rest hn.2
    have h3 := relAt_run c hrfn R hR (f k v).2 v hn.1
    refine ⟨?_, ?_⟩
    · simp only [RelKVs, runKVs, hk]
      exact ⟨_, _, rfl, h3, h1⟩
    · simp only [runKVs, keysOf_cons, hk, h2]

theorem relList_run (c : Ctx) (hrfn : c.rfn = false) (R : St → J → J → Prop)
    (hR : ∀ s a, a.isScalar = true → R s a (c.run s a)) :
    ∀ (s : St) (xs : List J), nodupList xs = true → c.RelList R s xs (c.runList s xs)
  | _, [], _ => by simp [RelList, runList]
  | s, x :: xs, hn => by
    simp only [nodupList, Bool.and_eq_true] at hn
    simp only [RelList, runList]
    exact ⟨_, _, rfl, relAt_run c hrfn R hR s x hn.1, relList_run c hrfn R hR s xs hn.2⟩
end

end Ctx
end Anonymongo
