/-
  Lemmas/RelSel.lean — the two-run (relational) theorem of Lemmas/Rel.lean WITHOUT the restriction to
  full-redaction mode: also with `--redactFieldsRegexp` (any predicate on names).
  In selective mode the walker's states depend on the values in two places only: `$field` siblings in an
  array (`isRedactableFieldPatternInArray`) and the path arguments of a search operator (`augmentOp`).
  Both are parts of the input that the walker never hands to `redactScalarValue` — so two inputs that are
  related (equal wherever the walker copies, same class wherever it redacts) agree on them, and therefore
  walk through the same states.  The only extra requirement is on the tables: no table holds a key twice.
-/
import Anonymongo.Lemmas.Rel
import Anonymongo.Lemmas.Prov
namespace Anonymongo

mutual
/-- no table, at any depth, holds a key twice -/
def allNodup : MTable → Bool
  | [] => true
  | (k, m) :: rest => !(keysOf rest).contains k && metaNodup m && allNodup rest
def metaNodup : Meta → Bool
  | .map kvs => allNodup kvs
  | _ => true
end

theorem allNodup_lookup : ∀ (m : MTable) (k : Str) (m' : MTable), allNodup m = true → lookup k m = some (.map m') → allNodup m' = true
  | [], _, _, _, h => by simp [lookup] at h
  | (k0, x) :: rest, k, m', hn, hl => by
    simp only [allNodup, Bool.and_eq_true] at hn
    simp only [lookup] at hl
    by_cases e : k0 = k
    · simp only [e, if_true, Option.some.injEq] at hl
      subst hl; simpa [metaNodup] using hn.1.2
    · simp only [e, if_false] at hl
      exact allNodup_lookup rest k m' hn.2 hl

theorem allNodup_sub (top m : MTable) (h : IsSub top m) (hn : allNodup top = true) : allNodup m = true := by
  induction h with
  | refl => exact hn
  | step k _ hl ih => exact allNodup_lookup _ k _ ih hl

/-- in a table without duplicate keys an entry is what `lookup` finds -/
theorem lookup_of_mem : ∀ (m : MTable) (k : Str) (x : Meta), allNodup m = true → (k, x) ∈ m → lookup k m = some x
  | [], _, _, _, h => by simp at h
  | (k0, x0) :: rest, k, x, hn, hm => by
    simp only [allNodup, Bool.and_eq_true, Bool.not_eq_true'] at hn
    simp only [List.mem_cons, Prod.mk.injEq] at hm
    simp only [lookup]
    rcases hm with ⟨h1, h2⟩ | hm
    · simp [h1, h2]
    · have : k0 ≠ k := by
        intro e; subst e
        have hk : k0 ∈ keysOf rest := by
          simp only [keysOf, List.mem_map]; exact ⟨(k0, x), hm, rfl⟩
        have := hn.1.1
        simp [List.contains_iff_mem] at this
        exact this hk
      simp only [this, if_false]
      exact lookup_of_mem rest k x hn.2 hm

namespace Ctx

def isDollar : J → Bool
  | .str ('$' :: _) => true
  | _ => false

/-- what the leaf relation must guarantee when the walker's states may depend on `$field` siblings and
    on search path arguments -/
structure LeafSimSel (c : Ctx) (R : St → J → J → Prop) : Prop extends LeafSim c R where
  elemDollar : ∀ S pk sel kp a b, a.isScalar = true → R (.AElem S pk sel kp) a b → (isDollar a = true ∨ isDollar b = true) → a = b
  fieldName : ∀ S k nkp sk a b, a.isScalar = true → R (.SubVal S k nkp sk (some (.ty .FieldName))) a b →
    (isStrJ a = true ∨ isStrJ b = true) → a = b

theorem relAt_kind (c : Ctx) (R : St → J → J → Prop) (hs : LeafSim c R) (s : St) (a b : J) (h : RelAt c R s a b) :
    kindOf a = kindOf b := by
  cases a with
  | obj kvs =>
    simp only [RelAt] at h
    split at h
    · obtain ⟨kvs', e, _⟩ := h; subst e; rfl
    all_goals (subst h; rfl)
  | arr xs =>
    simp only [RelAt] at h
    split at h
    · obtain ⟨ys, e, _⟩ := h; subst e; rfl
    all_goals (subst h; rfl)
  | null => simp only [RelAt] at h; exact (hs.scalar s .null b (by simp [J.isScalar]) h).2.1
  | bool x => simp only [RelAt] at h; exact (hs.scalar s (.bool x) b (by simp [J.isScalar]) h).2.1
  | num x => simp only [RelAt] at h; exact (hs.scalar s (.num x) b (by simp [J.isScalar]) h).2.1
  | str x => simp only [RelAt] at h; exact (hs.scalar s (.str x) b (by simp [J.isScalar]) h).2.1

/-- contribution of one array element to `isRedactableFieldPatternInArray` -/
def selElem (p : Str → Bool) : J → Bool
  | .str ('$' :: r) => p r
  | _ => false

theorem selElem_not_dollar (p : Str → Bool) (x : J) (h : isDollar x = false) : selElem p x = false := by
  cases x with
  | str s => cases s with
    | nil => rfl
    | cons ch r => by_cases e : ch = '$' <;> simp_all [isDollar, selElem]
  | _ => rfl

theorem isDollar_kind (x : J) (h : isDollar x = true) : kindOf x = 3 := by
  cases x <;> simp_all [isDollar, kindOf]

theorem selArr_eq (c : Ctx) (xs : List J) : c.selArr xs = match c.cfg.re with | none => false | some p => xs.any (selElem p) := by
  unfold selArr
  cases c.cfg.re with
  | none => rfl
  | some p =>
    simp only []
    congr 1

theorem selArr_rel (c : Ctx) (R : St → J → J → Prop) (hs : LeafSimSel c R) (S : Bool) (pk : Str) (sel : Bool) (kp : List Str) :
    ∀ (xs ys : List J), RelList c R (.AElem S pk sel kp) xs ys → c.selArr xs = c.selArr ys := by
  intro xs ys h
  rw [selArr_eq, selArr_eq]
  cases c.cfg.re with
  | none => rfl
  | some p =>
    simp only []
    induction xs generalizing ys with
    | nil => simp only [RelList] at h; subst h; rfl
    | cons x xs ih =>
      simp only [RelList] at h
      obtain ⟨y, ys', e, h1, hr⟩ := h
      subst e
      simp only [List.any_cons, ih ys' hr]
      congr 1
      have hk := relAt_kind c R hs.toLeafSim _ x y h1
      by_cases hx : isDollar x = true
      · have hxs : x.isScalar = true := by cases x <;> simp_all [isDollar, J.isScalar]
        have hR : R (.AElem S pk sel kp) x y := by cases x <;> simp_all [RelAt, isDollar]
        rw [hs.elemDollar S pk sel kp x y hxs hR (Or.inl hx)]
      · by_cases hy : isDollar y = true
        · have hys : kindOf y = 3 := isDollar_kind y hy
          have hxs : x.isScalar = true := by cases x <;> simp_all [kindOf, J.isScalar]
          have hR : R (.AElem S pk sel kp) x y := by cases x <;> simp_all [RelAt, kindOf]
          rw [hs.elemDollar S pk sel kp x y hxs hR (Or.inr hy)]
        · rw [selElem_not_dollar p x (by simpa using hx), selElem_not_dollar p y (by simpa using hy)]

/-- related objects answer a lookup alike: the same key is found (or not) in both, and the two values are
    related in the state the walker gives that child -/
theorem lookup_rel (c : Ctx) (R : St → J → J → Prop) (f : Str → J → Str × St) (k : Str) :
    ∀ (a b : List (Str × J)), RelKVs c R f a b →
      (lookup k a = none ∧ lookup k b = none) ∨ ∃ v v', lookup k a = some v ∧ lookup k b = some v' ∧ RelAt c R (f k v).2 v v'
  | [], b, h => by simp only [RelKVs] at h; subst h; exact Or.inl ⟨rfl, rfl⟩
  | (k0, v0) :: rest, b, h => by
    simp only [RelKVs] at h
    obtain ⟨v', rest', e, h1, hr⟩ := h
    subst e
    by_cases e : k0 = k
    · subst e; exact Or.inr ⟨v0, v', by simp [lookup], by simp [lookup], h1⟩
    · simp only [lookup, e, if_false]; exact lookup_rel c R f k rest rest' hr

theorem lookup_map_conv (k : Str) : ∀ (m : MTable), lookup k m = some (.ty .FieldName) →
    lookup k (m.map fun x => if x.2.isTy .Redactable = true then (x.1, Meta.ty .Exempt) else (x.1, x.2)) = some (.ty .FieldName)
  | [], h => by simp [lookup] at h
  | (k0, mt) :: rest, h => by
    simp only [lookup] at h
    by_cases e0 : k0 = k
    · simp only [e0, if_true, Option.some.injEq] at h
      subst h
      simp [lookup, e0, Meta.isTy]
    · simp only [e0, if_false] at h
      have ih := lookup_map_conv k rest h
      simp only [List.map_cons]
      split <;> simp only [lookup, e0, if_false] <;> exact ih

/-- `augmentOp` keeps the keys and the `FieldName` entries of the table -/
theorem lookup_augmentOp_fieldName (re : Option (Str → Bool)) (m : MTable) (vm : List (Str × J)) (k : Str)
    (h : lookup k m = some (.ty .FieldName)) : lookup k (augmentOp re m vm) = some (.ty .FieldName) := by
  unfold augmentOp
  cases re with
  | none => exact h
  | some p =>
    simp only []
    split
    · exact lookup_map_conv k m h
    · exact h

theorem list_any_congr {α} : ∀ (l : List α) (f g : α → Bool), (∀ e ∈ l, f e = g e) → l.any f = l.any g
  | [], _, _, _ => rfl
  | a :: l, f, g, h => by
    simp only [List.any_cons, h a (by simp), list_any_congr l f g (fun e he => h e (by simp [he]))]

/-- the "convert" test of `augmentOp` sees only the strings under `FieldName`-typed keys -/
theorem augmentOp_rel (c : Ctx) (R : St → J → J → Prop) (hs : LeafSimSel c R) (k0 : Str) (nkp : List Str) (m : MTable)
    (hn : allNodup m = true) (vm vm' : List (Str × J))
    (h : RelKVs c R (fun sk _ => (c.subKey (lookup sk (augmentOp c.cfg.re m vm)) sk,
        St.SubVal true k0 nkp sk (lookup sk (augmentOp c.cfg.re m vm)))) vm vm') :
    augmentOp c.cfg.re m vm' = augmentOp c.cfg.re m vm := by
  cases hre : c.cfg.re with
  | none => simp [augmentOp]
  | some p =>
    have key : ∀ e ∈ m, nameMismatch p vm' e = nameMismatch p vm e := by
      intro e he
      obtain ⟨k, mt⟩ := e
      unfold nameMismatch
      by_cases hft : mt.isTy .FieldName = true
      · have hmt : mt = .ty .FieldName := by
          cases mt with
          | ty t => simp [Meta.isTy] at hft; rw [hft]
          | map _ => simp [Meta.isTy] at hft
          | nil => simp [Meta.isTy] at hft
        subst hmt
        have hl : lookup k m = some (.ty .FieldName) := lookup_of_mem m k _ hn he
        have hl' := lookup_augmentOp_fieldName c.cfg.re m vm k hl
        simp only [hft, Bool.true_and]
        rcases lookup_rel c R _ k vm vm' h with ⟨h1, h2⟩ | ⟨v, v', h1, h2, h3⟩
        · rw [h1, h2]
        · rw [h1, h2]
          simp only [hl'] at h3
          have hk := relAt_kind c R hs.toLeafSim _ v v' h3
          by_cases hsv : isStrJ v = true ∨ isStrJ v' = true
          · have hvs : v.isScalar = true := by
              rcases hsv with hsv | hsv
              · cases v <;> simp_all [isStrJ, J.isScalar]
              · cases v <;> cases v' <;> simp_all [isStrJ, J.isScalar, kindOf]
            have hR : R (.SubVal true k0 nkp k (some (.ty .FieldName))) v v' := by
              cases v <;> simp_all [RelAt, J.isScalar]
            rw [hs.fieldName true k0 nkp k v v' hvs hR hsv]
          · simp only [not_or, Bool.not_eq_true] at hsv
            cases v <;> cases v' <;> simp_all [isStrJ]
      · simp only [Bool.not_eq_true] at hft
        simp [hft]
    have hA := list_any_congr m (nameMismatch p vm') (nameMismatch p vm) key
    unfold augmentOp
    simp only []
    rw [hA]

/-- every table `getOp` can answer in a search stage is free of duplicate keys -/
def SearchTablesNodup (T : Tables) : Prop := ∀ kp m, kp ≠ [] → getOp T kp true = some (.map m) → allNodup m = true

theorem augment_rel (c : Ctx) (R : St → J → J → Prop) (hs : LeafSimSel c R) (hT : SearchTablesNodup c.T)
    (S : Bool) (kp : List Str) (k : Str) (v v' : J)
    (h : RelAt c R (.PVal S kp k (c.augment S (getOp c.T (kp ++ [k]) S) v)) v v') :
    c.augment S (getOp c.T (kp ++ [k]) S) v' = c.augment S (getOp c.T (kp ++ [k]) S) v := by
  have hk := relAt_kind c R hs.toLeafSim _ v v' h
  cases S with
  | false => simp [augment]
  | true =>
    cases hop : getOp c.T (kp ++ [k]) true with
    | none => simp [augment]
    | some op =>
      cases op with
      | ty t => simp [augment]
      | nil => simp [augment]
      | map m =>
        cases v with
        | obj vm =>
          rw [hop] at h
          simp only [augment] at h ⊢
          simp only [RelAt, node] at h
          obtain ⟨vm', e, hr⟩ := h
          subst e
          simp only []
          rw [augmentOp_rel c R hs k (kp ++ [k]) m (hT _ m (by simp) hop) vm vm' hr]
        | null => cases v' <;> simp_all [augment, kindOf]
        | bool _ => cases v' <;> simp_all [augment, kindOf]
        | num _ => cases v' <;> simp_all [augment, kindOf]
        | str _ => cases v' <;> simp_all [augment, kindOf]
        | arr _ => cases v' <;> simp_all [augment, kindOf]

/-- related children are sent to the same state (and the same output key) -/
theorem child_fn_rel (c : Ctx) (R : St → J → J → Prop) (hs : LeafSimSel c R) (hT : SearchTablesNodup c.T)
    (s : St) (kvs : List (Str × J)) (f : Str → J → Str × St) (hn : c.node s (.obj kvs) = .obj f) :
    ∀ k v v', RelAt c R (f k v).2 v v' → f k v' = f k v := by
  intro k v v' h
  cases s <;> simp only [node] at hn <;> (try (repeat' split at hn)) <;> cases hn <;>
    first
    | rfl
    | (simp only [pObj] at h ⊢; rw [augment_rel c R hs hT _ _ k v v' h])
    | (simp only [qObj])

theorem node_arr_rel (c : Ctx) (R : St → J → J → Prop) (hs : LeafSimSel c R) (s : St) (xs ys : List J) (s' : St)
    (hn : c.node s (.arr xs) = .arr s') (hr : RelList c R s' xs ys) (hall : allStrings xs = allStrings ys) :
    c.node s (.arr ys) = .arr s' := by
  cases s <;> simp only [node] at hn ⊢ <;> (try (repeat' split at hn)) <;> (try cases hn) <;>
    first
    | rfl
    | (rw [← selArr_rel c R hs _ _ _ _ xs ys hr]; done)
    | (rw [← selArr_rel c R hs _ _ _ _ xs ys hr, ← hall]; simp_all; done)
    | (rw [← hall]; simp_all; done)
    | (simp_all; try (rw [← selArr_rel c R hs _ _ _ _ xs ys hr]))

mutual
/-- **related trees are redacted to the same tree — in every mode, selective mode included** -/
theorem run_rel_sel (c : Ctx) (R : St → J → J → Prop) (hs : LeafSimSel c R) (hT : SearchTablesNodup c.T) :
    ∀ (s : St) (a b : J), RelAt c R s a b → c.run s a = c.run s b ∧ kindOf a = kindOf b
  | s, .obj kvs, b, h => by
    simp only [RelAt] at h
    cases hn : c.node s (.obj kvs) with
    | obj f =>
      simp only [hn] at h
      obtain ⟨kvs', e, hr⟩ := h
      subst e
      have hk := RelKVs_keys c R f kvs kvs' hr
      have hn' : c.node s (.obj kvs') = .obj f := by rw [← node_obj_keys c s kvs kvs' hk]; exact hn
      have := runKVs_rel_sel c R hs hT f (child_fn_rel c R hs hT s kvs f hn) kvs kvs' hr
      simp [run, hn, hn', this]
    | keep => simp only [hn] at h; subst h; simp
    | leaf o => simp only [hn] at h; subst h; simp
    | arr s' => simp only [hn] at h; subst h; simp
  | s, .arr xs, b, h => by
    simp only [RelAt] at h
    cases hn : c.node s (.arr xs) with
    | arr s' =>
      simp only [hn] at h
      obtain ⟨ys, e, hr⟩ := h
      subst e
      have ⟨h1, h2⟩ := runList_rel_sel c R hs hT s' xs ys hr
      have hn' : c.node s (.arr ys) = .arr s' := node_arr_rel c R hs s xs ys s' hn hr h2
      simp [run, hn, hn', h1]
    | keep => simp only [hn] at h; subst h; simp
    | leaf o => simp only [hn] at h; subst h; simp
    | obj f => simp only [hn] at h; subst h; simp
  | s, .null, b, h => by
    simp only [RelAt] at h
    have := hs.scalar s .null b (by simp [J.isScalar]) h
    exact ⟨this.2.2, this.2.1⟩
  | s, .bool x, b, h => by
    simp only [RelAt] at h
    have := hs.scalar s (.bool x) b (by simp [J.isScalar]) h
    exact ⟨this.2.2, this.2.1⟩
  | s, .num x, b, h => by
    simp only [RelAt] at h
    have := hs.scalar s (.num x) b (by simp [J.isScalar]) h
    exact ⟨this.2.2, this.2.1⟩
  | s, .str x, b, h => by
    simp only [RelAt] at h
    have := hs.scalar s (.str x) b (by simp [J.isScalar]) h
    exact ⟨this.2.2, this.2.1⟩

theorem runKVs_rel_sel (c : Ctx) (R : St → J → J → Prop) (hs : LeafSimSel c R) (hT : SearchTablesNodup c.T)
    (f : Str → J → Str × St) (hchild : ∀ k v v', RelAt c R (f k v).2 v v' → f k v' = f k v) :
    ∀ kvs kvs', RelKVs c R f kvs kvs' → c.runKVs f kvs = c.runKVs f kvs'
  | [], kvs', h => by simp [RelKVs] at h; simp [h]
  | (k, v) :: rest, kvs', h => by
    simp only [RelKVs] at h
    obtain ⟨v', rest', e, h1, hr⟩ := h
    subst e
    have ih := runKVs_rel_sel c R hs hT f hchild rest rest' hr
    have h2 := (run_rel_sel c R hs hT (f k v).2 v v' h1).1
    simp only [runKVs, ih, hchild k v v' h1, h2]

theorem runList_rel_sel (c : Ctx) (R : St → J → J → Prop) (hs : LeafSimSel c R) (hT : SearchTablesNodup c.T) :
    ∀ (s : St) (xs ys : List J), RelList c R s xs ys →
      c.runList s xs = c.runList s ys ∧ allStrings xs = allStrings ys
  | _, [], ys, h => by simp [RelList] at h; simp [h]
  | s, x :: xs, ys, h => by
    simp only [RelList] at h
    obtain ⟨y, ys', e, h1, hr⟩ := h
    subst e
    have ⟨i1, i2⟩ := runList_rel_sel c R hs hT s xs ys' hr
    have ⟨h2, h3⟩ := run_rel_sel c R hs hT s x y h1
    simp only [runList, i1, h2, allStrings_cons, i2, isStrJ_of_kind x y h3]
    simp
end

end Ctx

/-- when the five operator tables are free of duplicate keys (at every depth), so is every table `getOp` answers with -/
theorem searchTablesNodup_of_tables (T : Tables)
    (h : ∀ tb : Spec.TableId, allNodup (tbl T tb) = true) : Ctx.SearchTablesNodup T := by
  intro kp m hne hg
  have hp := getOp_prov T kp true hne
  rw [hg] at hp
  obtain ⟨tb, _, _, _, hsub⟩ := hp
  exact allNodup_sub _ m hsub (h tb)

end Anonymongo
