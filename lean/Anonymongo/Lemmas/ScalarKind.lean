/-
  Lemmas/ScalarKind.lean — every scalar-level redaction function returns a scalar of the same
  JSON type; with field-name redaction off no walker renames a key.  Hence `ShapeOK`.
-/
import Anonymongo.Lemmas.Shape
namespace Anonymongo

/-- JSON type tag -/
def kindOf : J → Nat
  | .null => 0 | .bool _ => 1 | .num _ => 2 | .str _ => 3 | .arr _ => 4 | .obj _ => 5

@[simp] theorem kindOf_null : kindOf .null = 0 := rfl
@[simp] theorem kindOf_bool (b) : kindOf (.bool b) = 1 := rfl
@[simp] theorem kindOf_num (l) : kindOf (.num l) = 2 := rfl
@[simp] theorem kindOf_str (s) : kindOf (.str s) = 3 := rfl
@[simp] theorem kindOf_arr (s) : kindOf (.arr s) = 4 := rfl
@[simp] theorem kindOf_obj (s) : kindOf (.obj s) = 5 := rfl

theorem shapeEq_of_kind : ∀ (v out : J), v.isScalar = true → kindOf out = kindOf v → shapeEq v out = true
  | .null, out, _, h => by cases out <;> simp_all [shapeEq]
  | .bool _, out, _, h => by cases out <;> simp_all [shapeEq]
  | .num _, out, _, h => by cases out <;> simp_all [shapeEq]
  | .str _, out, _, h => by cases out <;> simp_all [shapeEq]
  | .arr _, _, h, _ => by simp [J.isScalar] at h
  | .obj _, _, h, _ => by simp [J.isScalar] at h

theorem redactByKind_kind (T : Tables) (cfg : Cfg) : ∀ v, v.isScalar = true → kindOf (redactByKind T cfg v) = kindOf v
  | .null, _ => by simp [redactByKind]
  | .bool b, _ => by simp [redactByKind]; split <;> simp
  | .num l, _ => by simp [redactByKind]; split <;> simp
  | .str s, _ => by simp [redactByKind]; split <;> simp
  | .arr _, h => by simp [J.isScalar] at h
  | .obj _, h => by simp [J.isScalar] at h

theorem redactScalar_kind (T : Tables) (cfg : Cfg) (kp : List Str) (S sel : Bool) :
    ∀ v, v.isScalar = true → kindOf (redactScalar T cfg kp v S sel) = kindOf v := by
  intro v hv
  have hk := redactByKind_kind T cfg v hv
  unfold redactScalar
  cases v <;> simp only [] <;> (repeat' split) <;> simp_all [J.isScalar]

namespace Ctx

theorem scalar_kind (c : Ctx) (kp : List Str) (S sel : Bool) (v : J) (hv : v.isScalar = true) :
    kindOf (c.scalar kp v S sel) = kindOf v := redactScalar_kind c.T c.cfg kp S sel v hv

theorem dollarString_kind (c : Ctx) (s : Str) : kindOf (c.dollarString s) = 3 := by
  unfold dollarString; split <;> simp

theorem genericScalar_kind (c : Ctx) (S : Bool) (nkp : List Str) (v : J) (hv : v.isScalar = true) :
    kindOf (c.genericScalar S nkp v) = kindOf v := by
  have h1 := c.scalar_kind nkp S false v hv
  unfold genericScalar
  cases v <;> simp only [] <;> (repeat' split) <;> simp_all [dollarString_kind]

theorem pScalar_kind (c : Ctx) (S : Bool) (kp : List Str) (v : J) (hv : v.isScalar = true) :
    kindOf (c.pScalar S kp v) = kindOf v := by
  unfold pScalar
  cases v <;> simp only [] <;> (repeat' split) <;>
    first | (simp [dollarString_kind]; done) | exact c.scalar_kind _ _ _ _ hv | simp [J.isScalar] at hv

theorem aElemScalar_kind (c : Ctx) (S : Bool) (pk : Str) (sel : Bool) (kp : List Str) (v : J) (hv : v.isScalar = true) :
    kindOf (c.aElemScalar S pk sel kp v) = kindOf v := by
  unfold aElemScalar
  cases v <;> simp only [] <;> (repeat' split) <;>
    first | (simp [dollarString_kind]; done) | exact c.scalar_kind _ _ _ _ hv | simp [J.isScalar] at hv

theorem qValScalar_kind (c : Ctx) (S : Bool) (co : Option Meta) (nkp : List Str) (v : J) (hv : v.isScalar = true) :
    kindOf (c.qValScalar S co nkp v) = kindOf v := by
  have h1 := c.scalar_kind nkp S false v hv
  unfold qValScalar
  cases v <;> simp only [] <;> (repeat' split) <;> simp_all [dollarString_kind]

theorem pValScalar_kind (c : Ctx) (S : Bool) (kp : List Str) (k : Str) (op : Option Meta) (v : J)
    (hv : v.isScalar = true) : kindOf (c.pValScalar S kp k op v) = kindOf v := by
  have h1 := c.scalar_kind [k] S false v hv
  have h2 := c.genericScalar_kind S (kp ++ [k]) v hv
  unfold pValScalar
  cases v <;> (repeat' split) <;> simp_all

theorem subValScalar_kind (c : Ctx) (S : Bool) (k : Str) (nkp : List Str) (sk : Str) (sm : Option Meta) (v : J)
    (hv : v.isScalar = true) : kindOf (c.subValScalar S k nkp sk sm v) = kindOf v := by
  have h1 := c.scalar_kind [k] S false v hv
  have h2 := c.scalar_kind (nkp ++ [sk]) S false v hv
  unfold subValScalar
  cases v <;> (repeat' split) <;> simp_all

theorem pKey_noRfn (c : Ctx) (h : c.rfn = false) (op : Option Meta) (k : Str) : c.pKey op k = k := by
  unfold pKey; split <;> simp [h]

theorem subKey_noRfn (c : Ctx) (h : c.rfn = false) (sm : Option Meta) (k : Str) : c.subKey sm k = k := by
  unfold subKey; split <;> simp [h]

theorem qKey_noRfn (c : Ctx) (h : c.rfn = false) (co : Option Meta) (k : Str) : c.qKey co k = k := by
  simp [qKey, h]

end Ctx
end Anonymongo

namespace Anonymongo
namespace Ctx

theorem isScalar_of_not (v : J) (h1 : ∀ kvs, v ≠ .obj kvs) (h2 : ∀ xs, v ≠ .arr xs) : v.isScalar = true := by
  cases v <;> simp_all [J.isScalar]

/-- with field-name redaction off for the line, the automaton satisfies `ShapeOK` -/
theorem shapeOK_of_noRfn (c : Ctx) (h : c.rfn = false) : ShapeOK c where
  keys := by
    intro s v f hn k x
    cases s <;> cases v <;> simp only [node] at hn <;> (try (repeat' split at hn)) <;> cases hn <;>
      simp [pObj, qObj, pKey_noRfn c h, subKey_noRfn c h, qKey_noRfn c h]
  leaf := by
    intro s v out hn
    cases s <;> cases v <;> simp only [node] at hn <;> (try (repeat' split at hn)) <;> cases hn <;>
      (apply shapeEq_of_kind _ _ (by simp [J.isScalar])
       first
         | exact c.pScalar_kind _ _ _ (by simp [J.isScalar])
         | exact c.pValScalar_kind _ _ _ _ _ (by simp [J.isScalar])
         | exact c.subValScalar_kind _ _ _ _ _ _ (by simp [J.isScalar])
         | exact c.aElemScalar_kind _ _ _ _ _ (by simp [J.isScalar])
         | exact c.qValScalar_kind _ _ _ _ (by simp [J.isScalar])
         | simp)

end Ctx
end Anonymongo
