/-
  Lemmas/Shape.lean — any automaton that never renames keys and replaces scalars by scalars
  of the same JSON type preserves the shape of every tree without duplicate sibling keys.
-/
import Anonymongo.Spec.Shape
import Anonymongo.Model.Auto
namespace Anonymongo
namespace Ctx

structure ShapeOK (c : Ctx) : Prop where
  keys : ∀ s v f, c.node s v = .obj f → ∀ k x, (f k x).1 = k
  leaf : ∀ s v out, c.node s v = .leaf out → shapeEq v out = true

mutual
theorem run_shape (c : Ctx) (h : ShapeOK c) : ∀ (s : St) (v : J), v.nodup = true → shapeEq v (c.run s v) = true
  | s, .obj kvs, hn => by
    simp only [run]
    cases hnode : c.node s (.obj kvs) with
    | keep => simp [shapeEq_refl]
    | arr s' => simp [shapeEq_refl]
    | leaf out => simpa using h.leaf s _ out hnode
    | obj f =>
      simp only [J.nodup, Bool.and_eq_true] at hn
      have hk := h.keys s _ f hnode
      have ⟨h1, h2⟩ := runKVs_shape c h f hk kvs hn.2
      simp only []
      rw [fromPairs_of_nodup _ (by rw [h2]; exact hn.1)]
      simpa [shapeEq] using h1
  | s, .arr xs, hn => by
    simp only [run]
    cases hnode : c.node s (.arr xs) with
    | keep => simp [shapeEq_refl]
    | obj f => simp [shapeEq_refl]
    | leaf out => simpa using h.leaf s _ out hnode
    | arr s' =>
      simp only [J.nodup] at hn
      simpa [shapeEq] using runList_shape c h s' xs hn
  | s, .null, _ => by
    simp only [run]
    cases hnode : c.node s .null <;> simp [shapeEq]
    exact h.leaf s _ _ hnode
  | s, .bool b, _ => by
    simp only [run]
    cases hnode : c.node s (.bool b) <;> simp [shapeEq]
    exact h.leaf s _ _ hnode
  | s, .num l, _ => by
    simp only [run]
    cases hnode : c.node s (.num l) <;> simp [shapeEq]
    exact h.leaf s _ _ hnode
  | s, .str x, _ => by
    simp only [run]
    cases hnode : c.node s (.str x) <;> simp [shapeEq]
    exact h.leaf s _ _ hnode

theorem runKVs_shape (c : Ctx) (h : ShapeOK c) (f : Str → J → Str × St) (hk : ∀ k x, (f k x).1 = k) :
    ∀ kvs, nodupKVs kvs = true →
      shapeEqKVs kvs (c.runKVs f kvs) = true ∧ keysOf (c.runKVs f kvs) = keysOf kvs
  | [], _ => by simp [runKVs, shapeEqKVs, keysOf]
  | (k, v) :: rest, hn => by
    simp only [nodupKVs, Bool.and_eq_true] at hn
    have ⟨h1, h2⟩ := runKVs_shape c h f hk rest hn.2
    have h3 := run_shape c h (f k v).2 v hn.1
    simp only [runKVs, shapeEqKVs, keysOf_cons, hk, h1, h2, h3]
    simp

theorem runList_shape (c : Ctx) (h : ShapeOK c) : ∀ (s : St) (xs : List J), nodupList xs = true →
    shapeEqList xs (c.runList s xs) = true
  | _, [], _ => by simp [runList, shapeEqList]
  | s, x :: xs, hn => by
    simp only [nodupList, Bool.and_eq_true] at hn
    simp [runList, shapeEqList, run_shape c h s x hn.1, runList_shape c h s xs hn.2]
end

end Ctx
end Anonymongo
