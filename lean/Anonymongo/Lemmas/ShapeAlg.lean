/-
  Lemmas/ShapeAlg.lean — algebra of `shapeEq`: transitivity, transfer of `nodup`,
  key-wise maps.
-/
import Anonymongo.Spec.Shape
namespace Anonymongo

mutual
theorem shapeEq_trans : ∀ a b c, shapeEq a b = true → shapeEq b c = true → shapeEq a c = true
  | .null, b, c, h1, h2 => by cases b <;> cases c <;> simp_all [shapeEq]
  | .bool _, b, c, h1, h2 => by cases b <;> cases c <;> simp_all [shapeEq]
  | .num _, b, c, h1, h2 => by cases b <;> cases c <;> simp_all [shapeEq]
  | .str _, b, c, h1, h2 => by cases b <;> cases c <;> simp_all [shapeEq]
  | .arr xs, b, c, h1, h2 => by
    cases b <;> cases c <;> simp_all [shapeEq]
    exact shapeEqList_trans xs _ _ h1 h2
  | .obj xs, b, c, h1, h2 => by
    cases b <;> cases c <;> simp_all [shapeEq]
    exact shapeEqKVs_trans xs _ _ h1 h2
theorem shapeEqList_trans : ∀ a b c, shapeEqList a b = true → shapeEqList b c = true → shapeEqList a c = true
  | [], b, c, h1, h2 => by cases b <;> cases c <;> simp_all [shapeEqList]
  | x :: xs, b, c, h1, h2 => by
    cases b <;> cases c <;> simp_all [shapeEqList]
    exact ⟨shapeEq_trans x _ _ h1.1 h2.1, shapeEqList_trans xs _ _ h1.2 h2.2⟩
theorem shapeEqKVs_trans : ∀ a b c, shapeEqKVs a b = true → shapeEqKVs b c = true → shapeEqKVs a c = true
  | [], b, c, h1, h2 => by cases b <;> cases c <;> simp_all [shapeEqKVs]
  | (k, x) :: xs, b, c, h1, h2 => by
    cases b with
    | nil => simp [shapeEqKVs] at h1
    | cons hb tb =>
      cases c with
      | nil => obtain ⟨kb, vb⟩ := hb; simp [shapeEqKVs] at h2
      | cons hc tc =>
        obtain ⟨kb, vb⟩ := hb; obtain ⟨kc, vc⟩ := hc
        simp [shapeEqKVs] at h1 h2 ⊢
        exact ⟨⟨h1.1.1.trans h2.1.1, shapeEq_trans x _ _ h1.1.2 h2.1.2⟩, shapeEqKVs_trans xs _ _ h1.2 h2.2⟩
end

theorem keysOf_eq_of_shapeEqKVs : ∀ a b, shapeEqKVs a b = true → keysOf a = keysOf b
  | [], b, h => by cases b <;> simp_all [shapeEqKVs, keysOf]
  | (k, x) :: xs, b, h => by
    cases b with
    | nil => simp [shapeEqKVs] at h
    | cons hb tb =>
      obtain ⟨kb, vb⟩ := hb
      simp [shapeEqKVs] at h
      simp [keysOf_cons, h.1.1, keysOf_eq_of_shapeEqKVs xs tb h.2]

mutual
theorem nodup_of_shapeEq : ∀ a b, shapeEq a b = true → a.nodup = true → b.nodup = true
  | .null, b, h, _ => by cases b <;> simp_all [shapeEq, J.nodup]
  | .bool _, b, h, _ => by cases b <;> simp_all [shapeEq, J.nodup]
  | .num _, b, h, _ => by cases b <;> simp_all [shapeEq, J.nodup]
  | .str _, b, h, _ => by cases b <;> simp_all [shapeEq, J.nodup]
  | .arr xs, b, h, hn => by
    cases b <;> simp_all [shapeEq, J.nodup]
    exact nodupList_of_shapeEq xs _ h hn
  | .obj xs, b, h, hn => by
    cases b <;> simp_all [shapeEq, J.nodup]
    rename_i ys
    exact ⟨by rw [← keysOf_eq_of_shapeEqKVs xs ys h]; exact hn.1, nodupKVs_of_shapeEq xs _ h hn.2⟩
theorem nodupList_of_shapeEq : ∀ a b, shapeEqList a b = true → nodupList a = true → nodupList b = true
  | [], b, h, _ => by cases b <;> simp_all [shapeEqList, nodupList]
  | x :: xs, b, h, hn => by
    cases b <;> simp_all [shapeEqList, nodupList]
    exact ⟨nodup_of_shapeEq x _ h.1 hn.1, nodupList_of_shapeEq xs _ h.2 hn.2⟩
theorem nodupKVs_of_shapeEq : ∀ a b, shapeEqKVs a b = true → nodupKVs a = true → nodupKVs b = true
  | [], b, h, _ => by cases b <;> simp_all [shapeEqKVs, nodupKVs]
  | (k, x) :: xs, b, h, hn => by
    cases b with
    | nil => simp [shapeEqKVs] at h
    | cons hb tb =>
      obtain ⟨kb, vb⟩ := hb
      simp [shapeEqKVs, nodupKVs] at h hn ⊢
      exact ⟨nodup_of_shapeEq x _ h.1.2 hn.1, nodupKVs_of_shapeEq xs _ h.2 hn.2⟩
end

/-- a key-wise map whose function preserves shape preserves the shape of the object -/
theorem shapeEqKVs_map (f : Str → J → J) (hf : ∀ k v, v.nodup = true → shapeEq v (f k v) = true) :
    ∀ kvs, nodupKVs kvs = true → shapeEqKVs kvs (kvs.map fun p => (p.1, f p.1 p.2)) = true
  | [], _ => by simp [shapeEqKVs]
  | (k, v) :: rest, hn => by
    simp [nodupKVs] at hn
    simp [shapeEqKVs, hf k v hn.1, shapeEqKVs_map f hf rest hn.2]

theorem shapeEqKVs_mapKey (key : Str) (f : J → J) (hf : ∀ v, v.nodup = true → shapeEq v (f v) = true) :
    ∀ kvs, nodupKVs kvs = true → shapeEqKVs kvs (mapKey key f kvs) = true
  | [], _ => by simp [shapeEqKVs, mapKey]
  | (k, v) :: rest, hn => by
    simp [nodupKVs] at hn
    have ih := shapeEqKVs_mapKey key f hf rest hn.2
    by_cases h : k = key
    · simp [mapKey, h, shapeEqKVs, hf v hn.1, ih]
    · simp [mapKey, h, shapeEqKVs, shapeEq_refl, ih]

end Anonymongo
