/-
  Lemmas/Siv.lean — the two DAEAD laws for the SIV construction, for ARBITRARY block functions:
  * `dec (enc p) = some p`                       (round trip)
  * `dec c = some p → c = enc p`                 (whatever is accepted is the genuine encryption of what is returned)
  Nothing is assumed about AES beyond "a block function returns 16 bytes".
-/
import Anonymongo.Model.Siv
import Anonymongo.Lemmas.Base64
namespace Anonymongo.Siv
open Anonymongo.Aes (xorBytes fix16 fix16_length)

theorem xorBytes_length (a b : Bytes) : (xorBytes a b).length = min a.length b.length := by
  simp [xorBytes]

theorem xor_cancel (x k : UInt8) : (x ^^^ k) ^^^ k = x := by
  rw [UInt8.xor_assoc, UInt8.xor_self, UInt8.xor_zero]

/-- xoring twice with a stream at least as long gives the text back -/
theorem xorBytes_cancel : ∀ (x ks : Bytes), x.length ≤ ks.length → xorBytes (xorBytes x ks) ks = x
  | [], _, _ => by simp [xorBytes]
  | _ :: _, [], h => by simp at h
  | a :: x, k :: ks, h => by
    have ih := xorBytes_cancel x ks (by simpa using h)
    simp only [xorBytes, List.zipWith_cons_cons] at ih ⊢
    rw [xor_cancel, ih]

theorem keystream_length (E : Bytes → Bytes) (hE : ∀ x, (E x).length = 16) (iv : Bytes) (len : Nat) :
    (keystream E iv len).length = 16 * ((len + 15) / 16) := by
  unfold keystream
  generalize (len + 15) / 16 = n
  induction n with
  | zero => simp
  | succ n ih =>
    rw [List.range_succ, List.flatMap_append, List.length_append, ih]
    simp [hE]; omega

theorem keystream_covers (E : Bytes → Bytes) (hE : ∀ x, (E x).length = 16) (iv : Bytes) (len : Nat) :
    len ≤ (keystream E iv len).length := by
  rw [keystream_length E hE]; omega

theorem ctr_length (E : Bytes → Bytes) (hE : ∀ x, (E x).length = 16) (v x : Bytes) : (ctr E v x).length = x.length := by
  unfold ctr
  rw [xorBytes_length]
  exact Nat.min_eq_left (keystream_covers E hE _ _)

/-- CTR under the same SIV is an involution -/
theorem ctr_ctr (E : Bytes → Bytes) (hE : ∀ x, (E x).length = 16) (v x : Bytes) : ctr E v (ctr E v x) = x := by
  have hl := ctr_length E hE v x
  unfold ctr at hl ⊢
  rw [hl]
  exact xorBytes_cancel x _ (keystream_covers E hE _ _)

/-- **round trip** for any 16-byte tag function and any block function -/
theorem decWith_encWith (tag E2 : Bytes → Bytes) (ht : ∀ p, (tag p).length = 16) (hE : ∀ x, (E2 x).length = 16) (p : Bytes) :
    decWith tag E2 (encWith tag E2 p) = some p := by
  unfold decWith encWith
  have h16 := ht p
  simp only [List.length_append, h16]
  rw [if_neg (by omega)]
  have htake : (tag p ++ ctr E2 (tag p) p).take 16 = tag p := by
    rw [← h16]; exact List.take_left
  have hdrop : (tag p ++ ctr E2 (tag p) p).drop 16 = ctr E2 (tag p) p := by
    rw [← h16]; exact List.drop_left
  simp only [htake, hdrop, ctr_ctr E2 hE, if_true]

/-- **authenticity, provable form**: an accepted ciphertext IS the encryption of the plaintext returned -/
theorem decWith_only (tag E2 : Bytes → Bytes) (hE : ∀ x, (E2 x).length = 16) (c p : Bytes)
    (h : decWith tag E2 c = some p) : c = encWith tag E2 p := by
  unfold decWith at h
  split at h
  · cases h
  · simp only at h
    split at h
    · rename_i htag
      injection h with hp
      unfold encWith
      simp only
      rw [← hp, htag, ctr_ctr E2 hE, List.take_append_drop]
    · cases h

theorem cbc_length (E : Bytes → Bytes) (hE : ∀ x, (E x).length = 16) : ∀ n x msg last, (cbc E n x msg last).length = 16
  | 0, _, _, _ => hE _
  | n + 1, _, _, _ => cbc_length E hE n _ _ _

theorem cmac_length (E : Bytes → Bytes) (hE : ∀ x, (E x).length = 16) (msg : Bytes) : (cmac E msg).length = 16 := by
  unfold cmac; simp only; split <;> exact cbc_length E hE _ _ _ _

theorem s2v_length (E : Bytes → Bytes) (hE : ∀ x, (E x).length = 16) (msg : Bytes) : (s2v E msg).length = 16 := by
  unfold s2v; simp only; split <;> exact cmac_length E hE _

theorem dec_enc (E1 E2 : Bytes → Bytes) (h1 : ∀ x, (E1 x).length = 16) (h2 : ∀ x, (E2 x).length = 16) (p : Bytes) :
    dec E1 E2 (enc E1 E2 p) = some p :=
  decWith_encWith _ _ (s2v_length E1 h1) h2 p

theorem dec_only (E1 E2 : Bytes → Bytes) (h2 : ∀ x, (E2 x).length = 16) (c p : Bytes)
    (h : dec E1 E2 c = some p) : c = enc E1 E2 p :=
  decWith_only _ _ h2 c p h

/-- ciphertext length = plaintext length + 16 (the synthetic IV) -/
theorem enc_length (E1 E2 : Bytes → Bytes) (h1 : ∀ x, (E1 x).length = 16) (h2 : ∀ x, (E2 x).length = 16) (p : Bytes) :
    (enc E1 E2 p).length = p.length + 16 := by
  unfold enc encWith
  simp only [List.length_append, s2v_length E1 h1, ctr_length E2 h2]; omega

theorem aes_dec_enc (key p : Bytes) : aesDec key (aesEnc key p) = some p :=
  dec_enc _ _ (Aes.encBlockRK_length _) (Aes.encBlockRK_length _) p

theorem aes_dec_only (key c p : Bytes) (h : aesDec key c = some p) : c = aesEnc key p :=
  dec_only _ _ (Aes.encBlockRK_length _) c p h

/-- AES-256-SIV as an instance of the DAEAD interface the glue code is proved against: the laws
    are THEOREMS here, not assumptions -/
def aesDaead : DAEAD where
  enc := aesEnc
  dec := aesDec
  dec_enc := aes_dec_enc
  dec_only := aes_dec_only

/-- encoding/base64 StdEncoding as an instance of the codec interface, law proved -/
def stdB64 : B64 where
  enc := Base64.enc
  dec := Base64.dec
  dec_enc := Base64.dec_enc

end Anonymongo.Siv
