/-
  Lemmas/StrRound.lean — the string-literal parser inverts the string printer:
  `parseStrBody` applied to the escaped form of any string `s` (Go's appendString with HTML
  escaping) followed by the closing quote returns exactly `s`.  Hence every key, every kept string,
  every placeholder and every `--replacement` text survives serialisation unchanged.
-/
import Anonymongo.Lemmas.Utf8
namespace Anonymongo

theorem ab1 : asciiBytes "\\\\" = [92, 92] := by decide
theorem ab2 : asciiBytes "\\\"" = [92, 34] := by decide
theorem ab3 : asciiBytes "\\b" = [92, 98] := by decide
theorem ab4 : asciiBytes "\\f" = [92, 102] := by decide
theorem ab5 : asciiBytes "\\n" = [92, 110] := by decide
theorem ab6 : asciiBytes "\\r" = [92, 114] := by decide
theorem ab7 : asciiBytes "\\t" = [92, 116] := by decide
theorem ab8 : asciiBytes "\\u00" = [92, 117, 48, 48] := by decide
theorem ab9 : asciiBytes "\\u2028" = [92, 117, 50, 48, 50, 56] := by decide
theorem ab10 : asciiBytes "\\u2029" = [92, 117, 50, 48, 50, 57] := by decide

theorem hexVal_hexLower : ∀ k, k < 16 → hexVal (hexLower k) = some k := by decide
theorem hexVal48 : hexVal 48 = some 0 := by decide

theorem char_of_toNat (c : Char) (n : Nat) (h : c.toNat = n) : c = Char.ofNat n := by
  rw [← h, Char.ofNat_toNat]

theorem getu4_00 (a b : Nat) (ha : a < 16) (hb : b < 16) (t : Bytes) :
    getu4 (48 :: 48 :: hexLower a :: hexLower b :: t) = some (a * 16 + b, t) := by
  simp [getu4, hexVal48, hexVal_hexLower a ha, hexVal_hexLower b hb]

theorem stepU00 (c : Char) (fuel : Nat) (t : Bytes) (h : c.toNat < 256) :
    parseStrBody (fuel + 1) (asciiBytes "\\u00" ++ [hexLower (c.toNat / 16), hexLower (c.toNat % 16)] ++ t)
      = (parseStrBody fuel t).map (fun (s, r) => (c :: s, r)) := by
  have e : c.toNat / 16 * 16 + c.toNat % 16 = c.toNat := by omega
  have g := getu4_00 (c.toNat / 16) (c.toNat % 16) (by omega) (Nat.mod_lt _ (by decide)) t
  rw [e] at g
  simp only [ab8, List.cons_append, List.nil_append, parseStrBody, g]
  have : ¬ (0xD800 ≤ c.toNat ∧ c.toNat < 0xE000) := by omega
  simp [this, Char.ofNat_toNat]

theorem getu4_2028 (t : Bytes) : getu4 (50 :: 48 :: 50 :: 56 :: t) = some (0x2028, t) := by
  simp [getu4, show hexVal 50 = some 2 by decide, show hexVal 48 = some 0 by decide, show hexVal 56 = some 8 by decide]
theorem getu4_2029 (t : Bytes) : getu4 (50 :: 48 :: 50 :: 57 :: t) = some (0x2029, t) := by
  simp [getu4, show hexVal 50 = some 2 by decide, show hexVal 48 = some 0 by decide, show hexVal 57 = some 9 by decide]

/-- a character printed raw: its first byte is not a quote, a backslash or a control byte, and the
    decoder gives the character back -/
theorem rawStep (c : Char) (fuel : Nat) (t : Bytes) (h34 : c.toNat ≠ 34) (h92 : c.toNat ≠ 92) (h20 : 0x20 ≤ c.toNat) :
    parseStrBody (fuel + 1) (utf8Enc c ++ t) = (parseStrBody fuel t).map (fun (s, r) => (c :: s, r)) := by
  obtain ⟨b0, tail, he, hd⟩ := decodeRune_utf8Enc c t
  have hb : b0 ≠ 34 ∧ ¬ b0 < 0x20 ∧ b0 ≠ 92 := by
    have hv := char_valid c
    unfold utf8Enc at he
    simp only [] at he
    split at he
    · rename_i hlt
      simp only [List.cons.injEq] at he
      obtain ⟨rfl, _⟩ := he
      have e := u8 c.toNat (by omega)
      refine ⟨?_, ?_, ?_⟩
      · intro x; have := congrArg UInt8.toNat x; rw [e] at this; exact h34 this
      · rw [UInt8.lt_iff_toNat_lt, e]; simp; omega
      · intro x; have := congrArg UInt8.toNat x; rw [e] at this; exact h92 this
    all_goals
      (repeat' split at he) <;>
      (simp only [List.cons.injEq] at he
       obtain ⟨rfl, _⟩ := he
       refine ⟨?_, ?_, ?_⟩
       · intro x; have := congrArg UInt8.toNat x; rw [u8 _ (by omega)] at this; simp at this; omega
       · rw [UInt8.lt_iff_toNat_lt, u8 _ (by omega)]; simp; omega
       · intro x; have := congrArg UInt8.toNat x; rw [u8 _ (by omega)] at this; simp at this; omega)
  rw [he]
  simp only [List.cons_append, parseStrBody, hb.1, hb.2.1, hb.2.2, if_false, hd]

/-- one step of the string-body parser on the escaped form of one character -/
theorem strStep (c : Char) (fuel : Nat) (t : Bytes) :
    parseStrBody (fuel + 1) (escChar c ++ t) = (parseStrBody fuel t).map (fun (s, r) => (c :: s, r)) := by
  unfold escChar
  simp only []
  split
  · rename_i h; subst h; simp [ab1, parseStrBody]
  split
  · rename_i h; subst h; simp [ab2, parseStrBody]
  split
  · rename_i _ _ h; rw [char_of_toNat c 8 h]; simp [ab3, parseStrBody]
  split
  · rename_i _ _ _ h; rw [char_of_toNat c 12 h]; simp [ab4, parseStrBody]
  split
  · rename_i _ _ _ _ h; rw [char_of_toNat c 10 h]; simp [ab5, parseStrBody]
  split
  · rename_i _ _ _ _ _ h; rw [char_of_toNat c 13 h]; simp [ab6, parseStrBody]
  split
  · rename_i _ _ _ _ _ _ h; rw [char_of_toNat c 9 h]; simp [ab7, parseStrBody]
  split
  · rename_i hcond
    have hlt : c.toNat < 256 := by
      simp only [Bool.or_eq_true, decide_eq_true_eq] at hcond
      rcases hcond with ((h | h) | h) | h
      · omega
      · subst h; decide
      · subst h; decide
      · subst h; decide
    exact stepU00 c fuel t hlt
  split
  · rename_i h; rw [char_of_toNat c 0x2028 h]
    simp only [ab9, List.cons_append, List.nil_append, parseStrBody, getu4_2028]
    simp
  split
  · rename_i h; rw [char_of_toNat c 0x2029 h]
    simp only [ab10, List.cons_append, List.nil_append, parseStrBody, getu4_2029]
    simp
  · rename_i h1 h2 _ _ _ _ _ hcond _ _
    simp only [Bool.or_eq_true, decide_eq_true_eq, not_or, Nat.not_lt] at hcond
    apply rawStep c fuel t
    · intro e; apply h2; rw [char_of_toNat c 34 e]
    · intro e; apply h1; rw [char_of_toNat c 92 e]
    · exact hcond.1.1.1

/-- **string round trip**: the parser reads back exactly the string that was printed -/
theorem parseStrBody_print : ∀ (s : Str) (fuel : Nat) (t : Bytes), s.length < fuel →
    parseStrBody fuel (s.flatMap escChar ++ 34 :: t) = some (s, t)
  | [], fuel + 1, t, _ => by simp [parseStrBody]
  | c :: s, fuel + 1, t, h => by
    simp only [List.flatMap_cons, List.append_assoc]
    rw [strStep, parseStrBody_print s fuel t (by simp at h; omega)]
    rfl
  | _, 0, _, h => by simp at h

/-- in terms of the printer: after the opening quote, `printStr s ++ t` parses to `(s, t)` -/
theorem parse_printStr (s : Str) (t : Bytes) (fuel : Nat) (h : s.length < fuel) :
    ∃ body, printStr s ++ t = 34 :: body ∧ parseStrBody fuel body = some (s, t) := by
  refine ⟨s.flatMap escChar ++ 34 :: t, by simp [printStr], parseStrBody_print s fuel t h⟩

end Anonymongo
