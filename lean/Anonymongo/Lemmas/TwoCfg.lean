/-
  Lemmas/TwoCfg.lean — the same input walked under two configurations that agree on everything
  the control flow of the walkers looks at (tables, field-name mode, selective predicate,
  namespace flag, replacement text): the two outputs have the same structure and their leaves are
  related by whatever relates the two scalar redactions.  Used for C10 (encrypt vs placeholder).
-/
import Anonymongo.Lemmas.Rel
import Anonymongo.Lemmas.LeafMode
namespace Anonymongo
namespace Ctx

structure SameFlow (c1 c2 : Ctx) : Prop where
  T : c1.T = c2.T
  rfn : c1.rfn = c2.rfn
  re : c1.cfg.re = c2.cfg.re
  ns : c1.cfg.ns = c2.cfg.ns
  repl : c1.cfg.repl = c2.cfg.repl

theorem SameFlow.H {c1 c2 : Ctx} (h : SameFlow c1 c2) (s : Str) : c1.H s = c2.H s := by
  simp [Ctx.H, h.repl]

theorem SameFlow.selArr {c1 c2 : Ctx} (h : SameFlow c1 c2) (xs : List J) : c1.selArr xs = c2.selArr xs := by
  simp [Ctx.selArr, h.re]

theorem SameFlow.augment {c1 c2 : Ctx} (h : SameFlow c1 c2) (S : Bool) (op : Option Meta) (v : J) :
    c1.augment S op v = c2.augment S op v := by
  simp [Ctx.augment, h.re]

theorem SameFlow.pObj {c1 c2 : Ctx} (h : SameFlow c1 c2) (S : Bool) (kp : List Str) (k : Str) (x : J) :
    c1.pObj S kp k x = c2.pObj S kp k x := by
  simp [Ctx.pObj, Ctx.pKey, h.T, h.rfn, h.H, h.augment]

theorem SameFlow.qObj {c1 c2 : Ctx} (h : SameFlow c1 c2) (S : Bool) (pc : Option Meta) (kp : List Str) (k : Str) (x : J) :
    c1.qObj S pc kp k x = c2.qObj S pc kp k x := by
  simp [Ctx.qObj, Ctx.qKey, Ctx.qOp, h.T, h.rfn, h.H]

/-- the two actions on a container are the same action -/
inductive ActEq : Act → Act → Prop where
  | keep : ActEq .keep .keep
  | obj (f1 f2 : Str → J → Str × St) (h : ∀ k x, f1 k x = f2 k x) : ActEq (.obj f1) (.obj f2)
  | arr (s : St) : ActEq (.arr s) (.arr s)
  | nsDoc : ActEq .keep (.obj (fun k' _ => (k', St.NsMember)))   -- a namespace document: copied / member-wise pseudonymised

theorem node_flow_obj {c1 c2 : Ctx} (h : SameFlow c1 c2) (s : St) (kvs : List (Str × J)) :
    ActEq (c1.node s (.obj kvs)) (c2.node s (.obj kvs)) := by
  cases s <;> simp only [node] <;> (try (repeat' split)) <;>
    first
      | exact ActEq.keep
      | (apply ActEq.obj; intro k x; simp [h.pObj, h.qObj, h.T, h.rfn, Ctx.subKey, h.H]; done)
      | (apply ActEq.obj; intro k x; rfl)
      | (simp_all [h.ns, h.T]; done)
      | (rw [h.T]; apply ActEq.obj; intro k x; exact h.pObj _ _ k x)

end Ctx
end Anonymongo

namespace Anonymongo
namespace Ctx

theorem node_flow_arr {c1 c2 : Ctx} (h : SameFlow c1 c2) (s : St) (xs : List J) :
    ActEq (c1.node s (.arr xs)) (c2.node s (.arr xs)) := by
  cases s <;> simp only [node, h.selArr, h.rfn] <;> (try (repeat' split)) <;>
    first
      | exact ActEq.keep
      | exact ActEq.arr _

mutual
/-- input, output under configuration 1, output under configuration 2: same structure, leaves related by `L` -/
def Rel3 (L : J → J → J → Prop) : J → J → J → Prop
  | .obj kvs, o1, o2 => ∃ k1 k2, o1 = .obj k1 ∧ o2 = .obj k2 ∧ Rel3KVs L kvs k1 k2
  | .arr xs, o1, o2 => ∃ y1 y2, o1 = .arr y1 ∧ o2 = .arr y2 ∧ Rel3List L xs y1 y2
  | .null, o1, o2 => L .null o1 o2
  | .bool b, o1, o2 => L (.bool b) o1 o2
  | .num l, o1, o2 => L (.num l) o1 o2
  | .str s, o1, o2 => L (.str s) o1 o2
def Rel3KVs (L : J → J → J → Prop) : List (Str × J) → List (Str × J) → List (Str × J) → Prop
  | [], a, b => a = [] ∧ b = []
  | (k, v) :: rest, a, b => ∃ v1 v2 r1 r2, a = (k, v1) :: r1 ∧ b = (k, v2) :: r2 ∧ Rel3 L v v1 v2 ∧ Rel3KVs L rest r1 r2
def Rel3List (L : J → J → J → Prop) : List J → List J → List J → Prop
  | [], a, b => a = [] ∧ b = []
  | x :: xs, a, b => ∃ y1 y2 r1 r2, a = y1 :: r1 ∧ b = y2 :: r2 ∧ Rel3 L x y1 y2 ∧ Rel3List L xs r1 r2
end

mutual
theorem Rel3_refl (L : J → J → J → Prop) (hL : ∀ v, v.isScalar = true → L v v v) : ∀ v, Rel3 L v v v
  | .obj kvs => by simp only [Rel3]; exact ⟨_, _, rfl, rfl, Rel3KVs_refl L hL kvs⟩
  | .arr xs => by simp only [Rel3]; exact ⟨_, _, rfl, rfl, Rel3List_refl L hL xs⟩
  | .null => by simp only [Rel3]; exact hL _ (by simp [J.isScalar])
  | .bool b => by simp only [Rel3]; exact hL _ (by simp [J.isScalar])
  | .num l => by simp only [Rel3]; exact hL _ (by simp [J.isScalar])
  | .str s => by simp only [Rel3]; exact hL _ (by simp [J.isScalar])
theorem Rel3KVs_refl (L : J → J → J → Prop) (hL : ∀ v, v.isScalar = true → L v v v) : ∀ kvs, Rel3KVs L kvs kvs kvs
  | [] => by simp [Rel3KVs]
  | (k, v) :: rest => by simp only [Rel3KVs]; exact ⟨_, _, _, _, rfl, rfl, Rel3_refl L hL v, Rel3KVs_refl L hL rest⟩
theorem Rel3List_refl (L : J → J → J → Prop) (hL : ∀ v, v.isScalar = true → L v v v) : ∀ xs, Rel3List L xs xs xs
  | [] => by simp [Rel3List]
  | x :: xs => by simp only [Rel3List]; exact ⟨_, _, _, _, rfl, rfl, Rel3_refl L hL x, Rel3List_refl L hL xs⟩
end

/-- what `run_flow` needs from the two configurations: field-name mode agrees and the actions on
    containers agree (up to the namespace-document case) -/
structure NodeFlow (c1 c2 : Ctx) : Prop where
  rfn : c1.rfn = c2.rfn
  obj : ∀ s kvs, ActEq (c1.node s (.obj kvs)) (c2.node s (.obj kvs))
  arr : ∀ s xs, ActEq (c1.node s (.arr xs)) (c2.node s (.arr xs))

theorem SameFlow.nodeFlow {c1 c2 : Ctx} (h : SameFlow c1 c2) : NodeFlow c1 c2 :=
  ⟨h.rfn, node_flow_obj h, node_flow_arr h⟩

/-- members of a namespace document: configuration 1 copies the document, configuration 2 walks its
    members in state `NsMember` -/
theorem nsDoc_flow (c2 : Ctx) (L : J → J → J → Prop)
    (hNs : ∀ v, v.isScalar = true → L v v (c2.run .NsMember v)) (hrefl : ∀ v, v.isScalar = true → L v v v) :
    ∀ kvs, Rel3KVs L kvs kvs (c2.runKVs (fun k' _ => (k', St.NsMember)) kvs) ∧
      keysOf (c2.runKVs (fun k' _ => (k', St.NsMember)) kvs) = keysOf kvs
  | [] => by simp [Rel3KVs, runKVs, keysOf]
  | (k, v) :: rest => by
    have ⟨r, e⟩ := nsDoc_flow c2 L hNs hrefl rest
    refine ⟨?_, by simp only [runKVs, keysOf_cons, e]⟩
    simp only [Rel3KVs, runKVs]
    refine ⟨_, _, _, _, rfl, rfl, ?_, r⟩
    cases v with
    | obj x => simp only [run, node]; exact Rel3_refl L hrefl _
    | arr x => simp only [run, node]; exact Rel3_refl L hrefl _
    | null => simp only [Rel3]; exact hNs _ (by simp [J.isScalar])
    | bool b => simp only [Rel3]; exact hNs _ (by simp [J.isScalar])
    | num l => simp only [Rel3]; exact hNs _ (by simp [J.isScalar])
    | str x => simp only [Rel3]; exact hNs _ (by simp [J.isScalar])

mutual
/-- **two configurations, one input**: with field-name redaction off, the two outputs have the input's
    structure and are leaf-wise related by `L` -/
theorem run_flow (c1 c2 : Ctx) (h : NodeFlow c1 c2) (hrfn : c1.rfn = false) (L : J → J → J → Prop)
    (hL : ∀ s v, v.isScalar = true → L v (c1.run s v) (c2.run s v)) (hrefl : ∀ v, v.isScalar = true → L v v v)
    (hNs : ∀ s kvs, c1.node s (.obj kvs) = .keep → c2.node s (.obj kvs) = .obj (fun k' _ => (k', St.NsMember)) →
      ∀ v, v.isScalar = true → L v v (c2.run .NsMember v)) :
    ∀ (s : St) (v : J), v.nodup = true → Rel3 L v (c1.run s v) (c2.run s v)
  | s, .obj kvs, hn => by
    have hrfn2 : c2.rfn = false := by rw [← h.rfn]; exact hrfn
    simp only [J.nodup, Bool.and_eq_true] at hn
    have ha := h.obj s kvs
    simp only [run]
    cases hn1 : c1.node s (.obj kvs) with
    | obj f1 =>
      rw [hn1] at ha
      cases hn2 : c2.node s (.obj kvs) with
      | obj f2 =>
        rw [hn2] at ha
        cases ha with
        | obj _ _ hf =>
          have hk1 := (shapeOK_of_noRfn c1 hrfn).keys s _ f1 hn1
          have hk2 := (shapeOK_of_noRfn c2 hrfn2).keys s _ f2 hn2
          have ⟨r, e1, e2⟩ := runKVs_flow c1 c2 h hrfn L hL hrefl hNs f1 f2 hf hk1 hk2 kvs hn.2
          simp only [Rel3]
          rw [fromPairs_of_nodup _ (by rw [e1]; exact hn.1), fromPairs_of_nodup _ (by rw [e2]; exact hn.1)]
          exact ⟨_, _, rfl, rfl, r⟩
      | keep => rw [hn2] at ha; cases ha
      | arr _ => rw [hn2] at ha; cases ha
      | leaf _ => rw [hn2] at ha; cases ha
    | keep =>
      rw [hn1] at ha
      cases hn2 : c2.node s (.obj kvs) with
      | keep => exact Rel3_refl L hrefl (.obj kvs)
      | obj f2 =>
        rw [hn2] at ha
        cases ha
        -- namespace document: configuration 1 copies it, configuration 2 rewrites its string members
        have ⟨r, e⟩ := nsDoc_flow c2 L (hNs s kvs hn1 hn2) hrefl kvs
        simp only [Rel3]
        rw [fromPairs_of_nodup _ (by rw [e]; exact hn.1)]
        exact ⟨_, _, rfl, rfl, r⟩
      | arr _ => rw [hn2] at ha; cases ha
      | leaf _ => rw [hn2] at ha; cases ha
    | arr s' =>
      rw [hn1] at ha
      cases hn2 : c2.node s (.obj kvs) <;> rw [hn2] at ha <;> cases ha
      exact Rel3_refl L hrefl (.obj kvs)
    | leaf o => exact absurd hn1 (node_obj_not_leaf' c1 s kvs o)
  | s, .arr xs, hn => by
    simp only [J.nodup] at hn
    have ha := h.arr s xs
    simp only [run]
    cases hn1 : c1.node s (.arr xs) with
    | arr s1 =>
      rw [hn1] at ha
      cases hn2 : c2.node s (.arr xs) <;> rw [hn2] at ha <;> cases ha
      simp only [Rel3]
      exact ⟨_, _, rfl, rfl, runList_flow c1 c2 h hrfn L hL hrefl hNs s1 xs hn⟩
    | keep =>
      rw [hn1] at ha
      cases hn2 : c2.node s (.arr xs) <;> rw [hn2] at ha <;> cases ha <;> exact Rel3_refl L hrefl (.arr xs)
    | obj f =>
      rw [hn1] at ha
      cases hn2 : c2.node s (.arr xs) <;> rw [hn2] at ha <;> cases ha
      exact Rel3_refl L hrefl (.arr xs)
    | leaf o => exact absurd hn1 (node_arr_not_leaf' c1 s xs o)
  | s, .null, _ => by simp only [Rel3]; exact hL s _ (by simp [J.isScalar])
  | s, .bool b, _ => by simp only [Rel3]; exact hL s _ (by simp [J.isScalar])
  | s, .num l, _ => by simp only [Rel3]; exact hL s _ (by simp [J.isScalar])
  | s, .str x, _ => by simp only [Rel3]; exact hL s _ (by simp [J.isScalar])

theorem runKVs_flow (c1 c2 : Ctx) (h : NodeFlow c1 c2) (hrfn : c1.rfn = false) (L : J → J → J → Prop)
    (hL : ∀ s v, v.isScalar = true → L v (c1.run s v) (c2.run s v)) (hrefl : ∀ v, v.isScalar = true → L v v v)
    (hNs : ∀ s kvs, c1.node s (.obj kvs) = .keep → c2.node s (.obj kvs) = .obj (fun k' _ => (k', St.NsMember)) →
      ∀ v, v.isScalar = true → L v v (c2.run .NsMember v))
    (f1 f2 : Str → J → Str × St) (hf : ∀ k x, f1 k x = f2 k x) (hk1 : ∀ k x, (f1 k x).1 = k) (hk2 : ∀ k x, (f2 k x).1 = k) :
    ∀ kvs, nodupKVs kvs = true →
      Rel3KVs L kvs (c1.runKVs f1 kvs) (c2.runKVs f2 kvs) ∧ keysOf (c1.runKVs f1 kvs) = keysOf kvs ∧ keysOf (c2.runKVs f2 kvs) = keysOf kvs
  | [], _ => by simp [Rel3KVs, runKVs, keysOf]
  | (k, v) :: rest, hn => by
    simp only [nodupKVs, Bool.and_eq_true] at hn
    have ⟨r, e1, e2⟩ := runKVs_flow c1 c2 h hrfn L hL hrefl hNs f1 f2 hf hk1 hk2 rest hn.2
    have hv := run_flow c1 c2 h hrfn L hL hrefl hNs (f1 k v).2 v hn.1
    refine ⟨?_, ?_, ?_⟩
    · simp only [Rel3KVs, runKVs, hk1, hk2]
      refine ⟨_, _, _, _, rfl, rfl, ?_, r⟩
      rw [← hf k v]; exact hv
    · simp only [runKVs, keysOf_cons, hk1, e1]
    · simp only [runKVs, keysOf_cons, hk2, e2]

theorem runList_flow (c1 c2 : Ctx) (h : NodeFlow c1 c2) (hrfn : c1.rfn = false) (L : J → J → J → Prop)
    (hL : ∀ s v, v.isScalar = true → L v (c1.run s v) (c2.run s v)) (hrefl : ∀ v, v.isScalar = true → L v v v)
    (hNs : ∀ s kvs, c1.node s (.obj kvs) = .keep → c2.node s (.obj kvs) = .obj (fun k' _ => (k', St.NsMember)) →
      ∀ v, v.isScalar = true → L v v (c2.run .NsMember v)) :
    ∀ (s : St) (xs : List J), nodupList xs = true → Rel3List L xs (c1.runList s xs) (c2.runList s xs)
  | _, [], _ => by simp [Rel3List, runList]
  | s, x :: xs, hn => by
    simp only [nodupList, Bool.and_eq_true] at hn
    simp only [Rel3List, runList]
    exact ⟨_, _, _, _, rfl, rfl, run_flow c1 c2 h hrfn L hL hrefl hNs s x hn.1, runList_flow c1 c2 h hrfn L hL hrefl hNs s xs hn.2⟩
end

end Ctx
end Anonymongo

namespace Anonymongo
namespace Ctx

/-- with the same namespace flag the "copied vs member-wise" case cannot arise -/
theorem SameFlow.no_nsDoc {c1 c2 : Ctx} (h : SameFlow c1 c2) (s : St) (kvs : List (Str × J)) (f : Str → J → Str × St)
    (h1 : c1.node s (.obj kvs) = .keep) (h2 : c2.node s (.obj kvs) = .obj f) : False := by
  cases s with
  | SubVal S k nkp sk sm =>
    rcases sm with _ | (t | m | _) <;> (try cases t) <;> simp only [node] at h1 h2 <;>
      first
        | (cases h2; done)
        | (cases h1; done)
        | (cases hc : c1.cfg.ns <;> (have hc2 := h.ns; rw [hc] at hc2) <;>
            simp only [hc, ← hc2, if_true, Bool.false_eq_true, if_false] at h1 h2 <;> first | (cases h2; done) | (cases h1; done))
  | PVal S kp k op =>
    rcases op with _ | (t | m | _) <;> (try cases t) <;> simp only [node] at h1 h2 <;> first | (cases h2; done) | (cases h1; done)
  | P S kp => simp only [node] at h1; cases h1
  | Facet => simp only [node] at h1; cases h1
  | FacetStage => simp only [node] at h1; cases h1
  | AElem S pk sel kp => simp only [node] at h1; cases h1
  | QVal S co k nkp => simp only [node] at h1; cases h1
  | NsMember => simp only [node] at h2; cases h2
  | ZQ => simp only [node] at h1; cases h1
  | ZU => simp only [node] at h1; cases h1
  | ZA => simp only [node] at h2; cases h2
  | ZP => simp only [node] at h2; cases h2
  | ZOp => simp only [node] at h1; cases h1
  | ZOps => simp only [node] at h2; cases h2
  | Keep => simp only [node] at h2; cases h2

end Ctx
end Anonymongo
