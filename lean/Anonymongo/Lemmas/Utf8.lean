/-
  Lemmas/Utf8.lean — Go's utf8.DecodeRune inverts the UTF-8 encoder on every Unicode scalar value
  (`decodeRune_utf8Enc`).  Part of the byte-level round trip parse ∘ print.
-/
import Anonymongo.Model.JsonText
namespace Anonymongo

theorem char_valid (c : Char) : c.toNat < 0xD800 ∨ (0xE000 ≤ c.toNat ∧ c.toNat < 0x110000) := by
  have h := c.valid
  unfold UInt32.isValidChar Nat.isValidChar at h
  show c.val.toNat < 0xD800 ∨ (0xE000 ≤ c.val.toNat ∧ c.val.toNat < 0x110000)
  omega

theorem u8 (n : Nat) (h : n < 256) : n.toUInt8.toNat = n := by simp; omega

theorem u8eq (n m : Nat) (h : n < 256) (hm : m < 256) : (n.toUInt8 = m.toUInt8) = (n = m) := by
  apply propext
  constructor
  · intro e
    have := congrArg UInt8.toNat e
    rw [u8 n h, u8 m hm] at this; exact this
  · intro e; rw [e]

theorem decode1 (c : Char) (rest : Bytes) (h : c.toNat < 0x80) : decodeRune c.toNat.toUInt8 rest = (c, rest) := by
  have hb0 : c.toNat.toUInt8.toNat = c.toNat := u8 _ (by omega)
  unfold decodeRune
  simp only [UInt8.lt_iff_toNat_lt, hb0]
  rw [if_pos (by simp; omega), Char.ofNat_toNat]

theorem decode2 (c : Char) (rest : Bytes) (h1 : 0x80 ≤ c.toNat) (h2 : c.toNat < 0x800) :
    decodeRune (0xC0 + c.toNat / 64).toUInt8 ((0x80 + c.toNat % 64).toUInt8 :: rest) = (c, rest) := by
  have hb0 : (0xC0 + c.toNat / 64).toUInt8.toNat = 0xC0 + c.toNat / 64 := u8 _ (by omega)
  have hb1 : (0x80 + c.toNat % 64).toUInt8.toNat = 0x80 + c.toNat % 64 := u8 _ (by omega)
  unfold decodeRune
  simp only [UInt8.lt_iff_toNat_lt, UInt8.le_iff_toNat_le, hb0, hb1, isCont]
  rw [if_neg (by simp; omega), if_pos (by simp; omega), if_pos (by simp; omega)]
  have e : (0xC0 + c.toNat / 64 - 0xC0) * 64 + (0x80 + c.toNat % 64 - 0x80) = c.toNat := by omega
  rw [e, Char.ofNat_toNat]

theorem decode3 (c : Char) (rest : Bytes) (h1 : 0x800 ≤ c.toNat) (h2 : c.toNat < 0x10000)
    (hv : c.toNat < 0xD800 ∨ 0xE000 ≤ c.toNat) :
    decodeRune (0xE0 + c.toNat / 4096).toUInt8
      ((0x80 + (c.toNat / 64) % 64).toUInt8 :: (0x80 + c.toNat % 64).toUInt8 :: rest) = (c, rest) := by
  have hb0 : (0xE0 + c.toNat / 4096).toUInt8.toNat = 0xE0 + c.toNat / 4096 := u8 _ (by omega)
  have hb1 : (0x80 + (c.toNat / 64) % 64).toUInt8.toNat = 0x80 + (c.toNat / 64) % 64 := u8 _ (by omega)
  have hb2 : (0x80 + c.toNat % 64).toUInt8.toNat = 0x80 + c.toNat % 64 := u8 _ (by omega)
  have e224 : ((0xE0 + c.toNat / 4096).toUInt8 = 224) = (c.toNat / 4096 = 0) := by
    have := u8eq (0xE0 + c.toNat / 4096) 224 (by omega) (by omega)
    simp only [Nat.toUInt8_eq] at this ⊢
    rw [show (224 : UInt8) = UInt8.ofNat 224 from rfl, this]; apply propext; omega
  have e237 : ((0xE0 + c.toNat / 4096).toUInt8 = 237) = (c.toNat / 4096 = 13) := by
    have := u8eq (0xE0 + c.toNat / 4096) 237 (by omega) (by omega)
    simp only [Nat.toUInt8_eq] at this ⊢
    rw [show (237 : UInt8) = UInt8.ofNat 237 from rfl, this]; apply propext; omega
  unfold decodeRune
  simp only [UInt8.lt_iff_toNat_lt, UInt8.le_iff_toNat_le, hb0, hb1, hb2, isCont, e224, e237]
  rw [if_neg (by simp; omega), if_neg (by simp; omega), if_pos (by simp; omega)]
  rw [if_pos]
  · have e : (0xE0 + c.toNat / 4096 - 0xE0) * 4096 + (0x80 + (c.toNat / 64) % 64 - 0x80) * 64 + (0x80 + c.toNat % 64 - 0x80) = c.toNat := by omega
    rw [e, Char.ofNat_toNat]
  · by_cases a : c.toNat / 4096 = 0 <;> by_cases b : c.toNat / 4096 = 13 <;> simp [a, b] <;> omega

theorem decode4 (c : Char) (rest : Bytes) (h1 : 0x10000 ≤ c.toNat) (h2 : c.toNat < 0x110000) :
    decodeRune (0xF0 + c.toNat / 262144).toUInt8
      ((0x80 + (c.toNat / 4096) % 64).toUInt8 :: (0x80 + (c.toNat / 64) % 64).toUInt8 :: (0x80 + c.toNat % 64).toUInt8 :: rest) = (c, rest) := by
  have hb0 : (0xF0 + c.toNat / 262144).toUInt8.toNat = 0xF0 + c.toNat / 262144 := u8 _ (by omega)
  have hb1 : (0x80 + (c.toNat / 4096) % 64).toUInt8.toNat = 0x80 + (c.toNat / 4096) % 64 := u8 _ (by omega)
  have hb2 : (0x80 + (c.toNat / 64) % 64).toUInt8.toNat = 0x80 + (c.toNat / 64) % 64 := u8 _ (by omega)
  have hb3 : (0x80 + c.toNat % 64).toUInt8.toNat = 0x80 + c.toNat % 64 := u8 _ (by omega)
  have e240 : ((0xF0 + c.toNat / 262144).toUInt8 = 240) = (c.toNat / 262144 = 0) := by
    have := u8eq (0xF0 + c.toNat / 262144) 240 (by omega) (by omega)
    simp only [Nat.toUInt8_eq] at this ⊢
    rw [show (240 : UInt8) = UInt8.ofNat 240 from rfl, this]; apply propext; omega
  have e244 : ((0xF0 + c.toNat / 262144).toUInt8 = 244) = (c.toNat / 262144 = 4) := by
    have := u8eq (0xF0 + c.toNat / 262144) 244 (by omega) (by omega)
    simp only [Nat.toUInt8_eq] at this ⊢
    rw [show (244 : UInt8) = UInt8.ofNat 244 from rfl, this]; apply propext; omega
  unfold decodeRune
  simp only [UInt8.lt_iff_toNat_lt, UInt8.le_iff_toNat_le, hb0, hb1, hb2, hb3, isCont, e240, e244]
  rw [if_neg (by simp; omega), if_neg (by simp; omega), if_neg (by simp; omega), if_pos (by simp; omega)]
  rw [if_pos]
  · have e : (0xF0 + c.toNat / 262144 - 0xF0) * 262144 + (0x80 + (c.toNat / 4096) % 64 - 0x80) * 4096 +
        (0x80 + (c.toNat / 64) % 64 - 0x80) * 64 + (0x80 + c.toNat % 64 - 0x80) = c.toNat := by omega
    rw [e, Char.ofNat_toNat]
  · by_cases a : c.toNat / 262144 = 0 <;> by_cases b : c.toNat / 262144 = 4 <;> simp [a, b] <;> omega

/-- **decode ∘ encode = id** on every scalar value, with any continuation of the input -/
theorem decodeRune_utf8Enc (c : Char) (rest : Bytes) :
    ∃ b0 tail, utf8Enc c = b0 :: tail ∧ decodeRune b0 (tail ++ rest) = (c, rest) := by
  have hv := char_valid c
  unfold utf8Enc
  simp only []
  split
  · exact ⟨_, _, rfl, by simpa using decode1 c rest (by assumption)⟩
  · split
    · exact ⟨_, _, rfl, by simpa using decode2 c rest (by omega) (by assumption)⟩
    · split
      · exact ⟨_, _, rfl, by simpa using decode3 c rest (by omega) (by assumption) (by omega)⟩
      · exact ⟨_, _, rfl, by simpa using decode4 c rest (by omega) (by omega)⟩

end Anonymongo
