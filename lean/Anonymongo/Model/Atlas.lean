/-
  Model/Atlas.lean — Atlas mode as a trace of effects (src/atlas.go DownloadClusterLogs /
  downloadClusterLogsForHost / DeleteClusterLogs, src/main.go Atlas branch, src/reader.go
  GetStartAndEndDates, GetHostsFromConnectionString).
  The network, the file system, gzip and the redaction of a file are parameters (scenario);
  the ORCHESTRATION — what is requested, in which order, which temporary file exists when, what is
  written where, when the process exits — is the model.
-/
import Anonymongo.Model.JsonText
namespace Anonymongo.Atlas

/-- what can go wrong with one host's download -/
inductive DlFault where
  | none
  | status            -- HTTP status other than 200 (no temp file is created)
  | transport         -- connection error before the headers (no temp file is created)
  | tmpCreate         -- os.CreateTemp fails
  | bodyCut           -- the body copy fails part-way: the temp file exists and holds a partial log
  deriving DecidableEq, Repr

/-- what can go wrong with one downloaded file in the per-file loop of `main` -/
inductive FileFault where
  | none
  | outCreate         -- os.Create(<out>.<i>) fails
  | countLines        -- the progress-bar line count fails
  | process           -- ProcessMongoLogFile fails (not gzip, over-long line, write error)
  deriving DecidableEq, Repr

inductive ClusterFault where
  | none | lookupFails | badConnString
  deriving DecidableEq, Repr

/-- a private-key-free view of every externally visible effect -/
inductive Ev where
  | lookup                       -- authenticated GET …/groups/<project>/clusters/<cluster>
  | download (host : Nat)        -- authenticated GET …/clusters/<host i>/logs/mongodb.gz?endDate=&startDate=
  | tmpCreate (i : Nat)
  | tmpRemove (i : Nat)
  | outCreate (i : Nat)          -- <outputFile>.<i>
  | outWrite (i : Nat)           -- the redaction of temp file i is written to <outputFile>.<i>
  | exit (code : Nat)
  deriving DecidableEq, Repr

/-- `DeleteClusterLogs files` -/
def removeAll (files : List Nat) : List Ev := files.map .tmpRemove

/-- the host loop of `DownloadClusterLogs`, from host index `i`, with `have` = files downloaded so far.
    Returns the trace and `some files` on success / `none` on failure (after the clean-up). -/
def downloadLoop (dl : Nat → DlFault) : (n i : Nat) → (have_ : List Nat) → List Ev × Option (List Nat)
  | 0, _, have_ => ([], some have_)
  | n + 1, i, have_ =>
    match dl i with
    | .none =>
      let (t, r) := downloadLoop dl n (i + 1) (have_ ++ [i])
      (.download i :: .tmpCreate i :: t, r)
    | .status => (.download i :: removeAll have_, none)
    | .transport => (.download i :: removeAll have_, none)
    | .tmpCreate => (.download i :: removeAll have_, none)
    | .bodyCut => (.download i :: .tmpCreate i :: .tmpRemove i :: removeAll have_, none)

/-- the per-file loop of `main` over the downloaded files `all`, at position `files` -/
def fileLoop (ff : Nat → FileFault) (all : List Nat) : List Nat → List Ev
  | [] => removeAll all          -- deferred cleanupLogs on return
  | i :: rest =>
    match ff i with
    | .none => .outCreate i :: .outWrite i :: fileLoop ff all rest
    | .outCreate => removeAll all ++ [.exit 1]
    | .countLines => .outCreate i :: (removeAll all ++ [.exit 1])
    | .process => .outCreate i :: (removeAll all ++ [.exit 1])

/-- the whole Atlas branch for a cluster with `n` hosts -/
def run (cf : ClusterFault) (n : Nat) (dl : Nat → DlFault) (ff : Nat → FileFault) : List Ev :=
  match cf with
  | .lookupFails => [.lookup, .exit 1]
  | .badConnString => [.lookup, .exit 1]
  | .none =>
    match downloadLoop dl n 0 [] with
    | (t, none) => .lookup :: t ++ [.exit 1]
    | (t, some files) => .lookup :: t ++ fileLoop ff files files

/-- temporary files alive after a trace -/
def live : List Ev → List Nat → List Nat
  | [], acc => acc
  | .tmpCreate i :: t, acc => live t (acc ++ [i])
  | .tmpRemove i :: t, acc => live t (acc.filter (· ≠ i))
  | _ :: t, acc => live t acc

/-- `GetStartAndEndDates` as `main` can call it (both given or both absent — the validation chain) -/
def window (now start end_ : Nat) : Nat × Nat :=
  if start = 0 && end_ = 0 then (now - 604800, now) else (start, end_)

/-- `GetHostsFromConnectionString` on the already split host list: ports stripped, order kept -/
def stripPort (hostPort : Str) : Str := hostPort.takeWhile (· ≠ ':')

def hostsOf (hostPorts : List Str) : List Str := hostPorts.map stripPort

end Anonymongo.Atlas
