/-
  Model/Auto.lean — the walkers as ONE context automaton.
  A state is "which Go function we are in, with which arguments"; `node` says what that
  function does with the value in front of it, looking at the value only shallowly; `run` is
  the obvious structural map.  `Lemmas/Refine.lean` proves `run` equal to the transliterated
  walkers of Model/Walk.lean; the property proofs are inductions over `run`.
-/
import Anonymongo.Model.Line
namespace Anonymongo

inductive St where
  | P (S : Bool) (kp : List Str)                                   -- redactPipelineStage(value, …, kp, S)
  | PVal (S : Bool) (kp : List Str) (k : Str) (op : Option Meta)    -- value of stage entry k
  | Facet                                                           -- value of a `$facet`-like entry
  | FacetStage                                                      -- element of a (sub-)pipeline
  | SubVal (S : Bool) (k : Str) (nkp : List Str) (sk : Str) (sm : Option Meta)
  | AElem (S : Bool) (pk : Str) (sel : Bool) (kp : List Str)        -- element of redactArrayValuesWithKey
  | QVal (S : Bool) (co : Option Meta) (k : Str) (nkp : List Str)   -- value of query entry k
  | NsMember                                                        -- member of a namespace document
  | ZQ | ZU | ZA | ZP                                               -- command zones (see `zoneState`)
  | ZOp | ZOps                                                      -- an operation document one level down / bulkWrite's list of them
  | Keep
  deriving Inhabited

inductive Act where
  | keep
  | leaf (out : J)
  | obj (f : Str → J → Str × St)
  | arr (s : St)

/-- the zone a key of an operation document opens (redactOperation's dispatch) -/
def opZone (hasInsert : Bool) (k : Str) : St :=
  if qKeysObj.contains k then .ZQ
  else if uKeysObjOrArr.contains k then .ZU
  else if aKeysArr.contains k then .ZA
  else if k = sDocuments then (if hasInsert then .ZA else .Keep)
  else if k = sDocument then (if hasInsert then .ZQ else .Keep)
  else if k = sPipeline then .ZP
  else .Keep

namespace Ctx

/-- entries of an object in stage-walker position -/
def pObj (c : Ctx) (S : Bool) (kp : List Str) : Str → J → Str × St :=
  fun k x => let op := getOp c.T (kp ++ [k]) S; (c.pKey op k, .PVal S kp k (c.augment S op x))

/-- entries of an object in query-walker position under parent meta `pc` -/
def qObj (c : Ctx) (S : Bool) (pc : Option Meta) (kp : List Str) : Str → J → Str × St :=
  fun k _ => (c.qKey (c.qOp pc k) k, .QVal S (c.qOp pc k) k (kp ++ [k]))

/-- what the function denoted by the state does with the value `v` -/
def node (c : Ctx) : St → J → Act
  | .Keep, _ => .keep
  | .P S kp, .obj _ => .obj (c.pObj S kp)
  | .P S kp, .arr xs => .arr (.AElem S [] (c.selArr xs) kp)
  | .P S kp, v => .leaf (c.pScalar S kp v)
  | .PVal S kp k op, .obj _ =>
    (match op with
     | some (.ty .Namespace) => .keep
     | some (.ty .Exempt) => .keep
     | some (.ty .Pipeline) => .obj (fun k' _ => (k', .Facet))
     | some (.map m) => .obj (fun sk _ => (c.subKey (lookup sk m) sk, .SubVal S k (kp ++ [k]) sk (lookup sk m)))
     | _ => .obj (c.pObj S (kp ++ [k])))
  | .PVal S kp k op, .arr xs =>
    (match op with
     | some (.ty .FieldName) =>
       if !c.rfn && allStrings xs then .keep else .arr (.AElem S [] (c.selArr xs) (kp ++ [k]))
     | some (.ty .Namespace) => .keep
     | some (.ty .Exempt) => .keep
     | some (.ty .OperatorArray) => .arr (.P S (kp ++ [k]))
     | _ => .arr (.AElem S [] (c.selArr xs) (kp ++ [k])))
  | .PVal S kp k op, v => .leaf (c.pValScalar S kp k op v)
  | .Facet, .arr _ => .arr .FacetStage
  | .Facet, .obj kvs => .obj (c.pObj (isInSearchStage c.T (.obj kvs)) [])
  | .Facet, v => .leaf (c.pScalar false [] v)
  | .FacetStage, .obj kvs => .obj (c.pObj (isInSearchStage c.T (.obj kvs)) [])
  | .FacetStage, .arr xs => .arr (.AElem false [] (c.selArr xs) [])
  | .FacetStage, v => .leaf (c.pScalar false [] v)
  | .SubVal S _ nkp sk sm, .obj _ =>
    (match sm with
     | some (.ty .Namespace) => if c.cfg.ns then .obj (fun k' _ => (k', .NsMember)) else .keep
     | some (.ty .Exempt) => .keep
     | _ => .obj (c.pObj S (nkp ++ [sk])))
  | .SubVal S _ nkp sk sm, .arr xs =>
    (match sm with
     | some (.ty .FieldName) =>
       if !c.rfn && allStrings xs then .keep else .arr (.AElem S [] (c.selArr xs) (nkp ++ [sk]))
     | some (.ty .Namespace) => .keep
     | some (.ty .Exempt) => .keep
     | some (.ty .OperatorArray) => .arr (.P S nkp)
     | some (.ty .Pipeline) => .arr .FacetStage
     | _ => .arr (.AElem S [] (c.selArr xs) (nkp ++ [sk])))
  | .SubVal S k nkp sk sm, v => .leaf (c.subValScalar S k nkp sk sm v)
  | .AElem S _ _ kp, .obj _ => .obj (c.qObj S none kp)
  | .AElem S pk sel kp, .arr _ => .arr (.AElem S pk sel kp)
  | .AElem S pk sel kp, v => .leaf (c.aElemScalar S pk sel kp v)
  | .QVal S co _ nkp, .obj _ => .obj (c.qObj S (qParent co) nkp)
  | .QVal S _ k nkp, .arr xs => .arr (.AElem S k (c.selArr xs) nkp)
  | .QVal S co _ nkp, v => .leaf (c.qValScalar S co nkp v)
  | .NsMember, .str s => .leaf (.str (c.H s))
  | .NsMember, _ => .keep
  | .ZQ, .obj _ => .obj (c.qObj false none [])
  | .ZQ, _ => .keep
  | .ZU, .obj _ => .obj (c.qObj false none [])
  | .ZU, .arr _ => .arr (.AElem false [] false [])
  | .ZU, _ => .keep
  | .ZA, .arr _ => .arr (.AElem false [] false [])
  | .ZA, _ => .keep
  | .ZP, .arr _ => .arr .FacetStage
  | .ZP, _ => .keep
  | .ZOp, .obj kvs => .obj (fun k _ => (k, opZone (lookup sInsert kvs).isSome k))
  | .ZOp, _ => .keep
  | .ZOps, .arr _ => .arr .ZOp
  | .ZOps, _ => .keep

mutual
def run (c : Ctx) (s : St) : J → J
  | .obj kvs =>
    (match c.node s (.obj kvs) with
     | .obj f => .obj (fromPairs (runKVs c f kvs))
     | .leaf out => out
     | _ => .obj kvs)
  | .arr xs =>
    (match c.node s (.arr xs) with
     | .arr s' => .arr (runList c s' xs)
     | .leaf out => out
     | _ => .arr xs)
  | v =>
    (match c.node s v with
     | .leaf out => out
     | _ => v)
def runKVs (c : Ctx) (f : Str → J → Str × St) : List (Str × J) → List (Str × J)
  | [] => []
  | (k, v) :: rest => ((f k v).1, run c (f k v).2 v) :: runKVs c f rest
def runList (c : Ctx) (s : St) : List J → List J
  | [] => []
  | x :: xs => run c s x :: runList c s xs
end

/-- the zone a command key opens (redactCommand's dispatch): the operation's own keys, the wrapped
    operation of `explain`, the operations of `bulkWrite` -/
def zoneState (hasInsert hasBulk : Bool) (k : Str) : St :=
  if k = sExplain then .ZOp
  else if k = sOps && hasBulk then .ZOps
  else opZone hasInsert k

/-- `redactCommand` through the automaton -/
def redactCommandA (c : Ctx) (cmd : List (Str × J)) : List (Str × J) :=
  let hasInsert := (lookup sInsert cmd).isSome
  let hasBulk := (lookup sBulkWrite cmd).isSome
  cmd.map fun p => (p.1, c.run (zoneState hasInsert hasBulk p.1) p.2)

def cmdDocA (c : Ctx) (v : J) : J :=
  match v with
  | .obj cmd =>
    let r := c.redactCommandA cmd
    .obj (if c.cfg.ns then c.redactNamespace r else r)
  | _ => v

end Ctx

/-- `redactAttr` / `redactLine` with the command documents going through the automaton -/
def redactAttrA := redactAttrWith Ctx.cmdDocA

def redactLineA := redactLineWith Ctx.cmdDocA

end Anonymongo
