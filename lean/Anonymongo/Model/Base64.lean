/-
  Model/Base64.lean — `encoding/base64` StdEncoding as the repository uses it:
  `EncodeToString` (key file, ciphertext leaves) and `DecodeString` (key file, `decrypt` command).
  Executable (core Lean only).  Decoder semantics transliterated from Go's decoder:
  CR and LF are ignored anywhere, the alphabet is A–Z a–z 0–9 + /, padding `=` is mandatory and
  allowed only at the end of the last quantum, anything after the padding is an error, and the
  unused low bits of a padded quantum are NOT checked (Go's non-strict default).
-/
import Anonymongo.Model.JsonText
namespace Anonymongo.Base64

def alphabet : List Char :=
  "ABCDEFGHIJKLMNOPQRSTUVWXYZabcdefghijklmnopqrstuvwxyz0123456789+/".toList

/-- the character of a sextet -/
def chr (n : Nat) : Char := alphabet.getD n 'A'

/-- the sextet of a character (`none`: not in the alphabet; `=` is not in the alphabet) -/
def val (c : Char) : Option Nat :=
  if 'A' ≤ c ∧ c ≤ 'Z' then some (c.toNat - 65)
  else if 'a' ≤ c ∧ c ≤ 'z' then some (c.toNat - 97 + 26)
  else if '0' ≤ c ∧ c ≤ '9' then some (c.toNat - 48 + 52)
  else if c = '+' then some 62
  else if c = '/' then some 63
  else none

/-- `EncodeToString` on byte values (as naturals < 256) -/
def encNat : List Nat → Str
  | [] => []
  | [a] => [chr (a / 4), chr ((a % 4) * 16), '=', '=']
  | [a, b] => [chr (a / 4), chr ((a % 4) * 16 + b / 16), chr ((b % 16) * 4), '=']
  | a :: b :: c :: rest =>
    chr (a / 4) :: chr ((a % 4) * 16 + b / 16) :: chr ((b % 16) * 4 + c / 64) :: chr (c % 64) :: encNat rest

/-- the quanta of a text from which CR / LF have been removed -/
def decQuads : List Char → Option (List Nat)
  | [] => some []
  | a :: b :: c :: d :: rest =>
    (match val a, val b with
     | some x, some y =>
       if d = '=' ∧ rest.isEmpty then
         if c = '=' then some [x * 4 + y / 16]
         else (match val c with
               | some z => some [x * 4 + y / 16, (y % 16) * 16 + z / 4]
               | none => none)
       else
         (match val c, val d, decQuads rest with
          | some z, some w, some r => some ((x * 4 + y / 16) :: ((y % 16) * 16 + z / 4) :: ((z % 4) * 64 + w) :: r)
          | _, _, _ => none)
     | _, _ => none)
  | _ => none

def enc (b : Bytes) : Str := encNat (b.map UInt8.toNat)

def dec (s : Str) : Option Bytes :=
  (decQuads (s.filter fun c => c ≠ '\r' ∧ c ≠ '\n')).map (·.map Nat.toUInt8)

/-- the encoding as the bytes written to a file / into an output line (the text is ASCII) -/
def encBytes (b : Bytes) : Bytes := (enc b).map fun c => c.toNat.toUInt8

/-- decoding of bytes read from a file -/
def decBytes (bs : Bytes) : Option Bytes := dec (bs.map fun b => Char.ofNat b.toNat)

end Anonymongo.Base64
