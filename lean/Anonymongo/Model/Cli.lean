/-
  Model/Cli.lean — argument validation of the `redact` command (src/main.go, the chain of
  `if ... os.Exit(1)` at the top of `Run`) and the side effects that follow it.
  One Bool per presence/absence fact the validation looks at.
-/
namespace Anonymongo.Cli

structure Flags where
  file : Bool          -- positional input file given
  stdin : Bool         -- stdin is not a character device (piped data)
  out : Bool           -- --outputFile
  encrypt : Bool       -- --encrypt
  regexp : Bool        -- --redactFieldsRegexp
  fieldNames : Bool    -- --redactFieldNames
  project : Bool       -- --atlasProjectId
  cluster : Bool       -- --atlasClusterName
  pub : Bool           -- --atlasPublicKey
  priv : Bool          -- --atlasPrivateKey
  start : Bool         -- --atlasLogStartDate
  end_ : Bool          -- --atlasLogEndDate
  env : Bool           -- ATLAS_PUBLIC_KEY and ATLAS_PRIVATE_KEY both set in the environment
  deriving DecidableEq, Repr

inductive Mode where
  | file | stdin | atlas
  deriving DecidableEq, Repr

inductive Decision where
  | reject (rule : Nat)
  | accept (m : Mode)
  deriving DecidableEq, Repr

def atlasParamsSet (f : Flags) : Bool :=
  f.project || f.cluster || f.start || f.end_ || f.pub || f.priv

/-- the validation chain, in source order; the number is the position of the `if` -/
def validate (f : Flags) : Decision :=
  let atlas := atlasParamsSet f
  if f.regexp && f.fieldNames then .reject 1
  else if f.start != f.end_ then .reject 2
  else if f.project != f.cluster then .reject 3
  else if atlas && f.file then .reject 4
  else if atlas && f.stdin then .reject 5
  else if atlas && !f.out then .reject 6
  else if !atlas && f.file && f.stdin then .reject 7
  else if f.encrypt && (f.stdin || !f.out) && !atlas then .reject 8
  else if !f.file && !f.stdin && !atlas then .reject 9
  else if atlas && (!f.project || !f.cluster) then .reject 10
  else if atlas && !((f.pub || f.env) && (f.priv || f.env)) then .reject 11
  else if f.file then .accept .file
  else if f.stdin then .accept .stdin
  else .accept .atlas

inductive Effect where
  | stderrMsg | exit1 | createOutput | keyFile | network | readInput
  deriving DecidableEq, Repr

/-- effects of the command up to the point where processing starts -/
def effects (f : Flags) : List Effect :=
  match validate f with
  | .reject _ => [.stderrMsg, .exit1]
  | .accept m =>
    (if f.out then [.createOutput] else []) ++
    (if f.encrypt then [.keyFile] else []) ++
    (match m with
     | .atlas => [.network]
     | _ => [.readInput])

def flagsOfBits (s : String) : Flags :=
  let b (i : Nat) : Bool := (s.toList.getD i '0') == '1'
  { file := b 0, stdin := b 1, out := b 2, encrypt := b 3, regexp := b 4, fieldNames := b 5,
    project := b 6, cluster := b 7, pub := b 8, priv := b 9, start := b 10, end_ := b 11, env := b 12 }

def showDecision : Decision → String
  | .reject n => "reject " ++ toString n
  | .accept .file => "accept file"
  | .accept .stdin => "accept stdin"
  | .accept .atlas => "accept atlas"

end Anonymongo.Cli
