/-
  Model/Daead.lean — deterministic AEAD and base64 as PARAMETERS with their assumed laws
  (library behaviour: Tink AES-SIV, encoding/base64), and the repository's own glue around them:
  `Encrypt`/`Decrypt` (src/encryption.go), the ciphertext leaf (src/anonymizer.go redactString),
  the `decrypt` command (src/main.go).  A law is a structure field, not an axiom.
-/
import Anonymongo.Model.JsonText
namespace Anonymongo

/-- a deterministic AEAD keyed by 64-byte keys -/
structure DAEAD where
  enc : Bytes → Bytes → Bytes                 -- key, plaintext
  dec : Bytes → Bytes → Option Bytes          -- key, ciphertext
  dec_enc : ∀ k p, dec k (enc k p) = some p
  /-- authenticity in its provable form: whatever is accepted is the genuine encryption of what
      is returned ("never a wrong plaintext") -/
  dec_only : ∀ k c p, dec k c = some p → c = enc k p

structure B64 where
  enc : Bytes → Str
  dec : Str → Option Bytes
  dec_enc : ∀ b, dec (enc b) = some b

/-- `Encrypt(data, key)`: refuses keys that are not 64 bytes -/
def encryptApi (D : DAEAD) (key pt : Bytes) : Option Bytes :=
  if key.length = 64 then some (D.enc key pt) else none

/-- `Decrypt(data, key)` -/
def decryptApi (D : DAEAD) (key ct : Bytes) : Option Bytes :=
  if key.length = 64 then D.dec key ct else none

/-- the encryption function the walkers see (`Cfg.enc`) for key material `key` -/
def encFn (D : DAEAD) (B : B64) (key : Bytes) : Str → Option Str :=
  fun s => (encryptApi D key (utf8 s)).map B.enc

inductive DecryptResult where
  | ok (raw : Bytes)          -- printed as "Raw value: <bytes>", exit 0
  | badBase64 | badCiphertext -- error message, exit 1
  deriving DecidableEq

/-- the `decrypt` command after the key file has been read successfully -/
def decryptCmd (D : DAEAD) (B : B64) (key : Bytes) (value : Str) : DecryptResult :=
  match B.dec value with
  | none => .badBase64
  | some raw =>
    match decryptApi D key raw with
    | none => .badCiphertext
    | some pt => .ok pt

end Anonymongo
