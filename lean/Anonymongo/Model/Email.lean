/-
  Model/Email.lean — hand-written recogniser for `emailRegex` + the length guard of `IsEmail`
  (src/helpers.go:18, 90-95). Corresponded with the real regexp (op `email`).
-/
import Anonymongo.Model.Hash
namespace Anonymongo

def isAlnum (c : Char) : Bool :=
  ('a' ≤ c && c ≤ 'z') || ('A' ≤ c && c ≤ 'Z') || ('0' ≤ c && c ≤ '9')

def localSpecials : List Char := ".!#$%&'*+/=?^_`{|}~-".toList

def isLocalChar (c : Char) : Bool := isAlnum c || localSpecials.contains c

/-- `[a-zA-Z0-9](?:[a-zA-Z0-9-]{0,61}[a-zA-Z0-9])?` -/
def isLabel (l : Str) : Bool :=
  match l with
  | [] => false
  | c :: rest =>
    isAlnum c && l.length ≤ 63 &&
      (match rest.getLast? with
       | none => true
       | some z => isAlnum z && rest.all (fun x => isAlnum x || x == '-'))

/-- the recogniser for `emailRegex` itself -/
def emailRe (s : Str) : Bool :=
  match s.span isLocalChar with
  | (loc, '@' :: dom) => !loc.isEmpty && (splitOn '.' dom).all isLabel
  | _ => false

/-- `IsEmail`: the length guard, then the expression -/
def isEmail (s : Str) : Bool :=
  let n := utf8Len s
  3 ≤ n && n ≤ 254 && emailRe s

end Anonymongo
