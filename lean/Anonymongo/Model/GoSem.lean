/-
  Model/GoSem.lean — the meaning of the Go constructs that `tools/gotr` (the Go → Lean translator) emits.

  Translated functions live in `Generated/Src.lean`; they are written in `do` notation over `Option`
  (`none` = the Go function panics: index out of range, nil dereference, failed unchecked assertion, or —
  for the self-recursive ones — the fuel argument ran out).  Everything a translated function can mention
  besides Lean core is defined here, so this file is the translator's whole semantic footprint.

  Conventions (each is part of the trusted base, DESIGN 2.9):
  * Go `string` is `Str` (`List Char`, Unicode scalar values); the only byte-level operations the translated
    code performs on strings are `len(s)` (UTF-8 length) and `s[0] == '<ascii>'`.
  * Go `int` is `Int` (unbounded; the translated code only does index arithmetic).
  * a JSON value held in an `interface{}` is `J`; an entry of an operator table held in an `interface{}` is
    `Meta` (`Meta.nil` = Go `nil`); a `*OrderedMap` is an association list (`List (Str × J)` for documents,
    `MTable` for operator tables).  Which reading an `interface{}` / `*OrderedMap` gets is fixed per function
    by the translator's signature table.
  * values are immutable: `m.Set(k, v)` on a local map rebinds the variable; a loop over a map iterates over
    the value it had when the loop began.
-/
import Anonymongo.Model.Tables
import Anonymongo.Model.Email
namespace Anonymongo.Go

abbrev Bytes := List UInt8

/-- what `os.Stat` returns, as far as `FileExists` looks at it -/
inductive StatRes where
  | notExist            -- an error for which `os.IsNotExist` holds; the FileInfo is nil
  | otherErr            -- any other error (ENOTDIR, EACCES on a parent, …); the FileInfo is nil
  | ok (isDir : Bool)

/-- the package-level option variables of anonymizer.go, one field each, plus the two library calls
    `redactString` makes (`Encrypt` of encryption.go — Tink — and `base64.StdEncoding.EncodeToString`) -/
structure Globals where
  redactedString : Str
  redactNumbers : Bool
  redactBooleans : Bool
  redactIPs : Bool
  shouldEncrypt : Bool
  redactNamespaces : Bool
  encryptionKey : Option Bytes
  redactedFieldsRegexp : Option (Str → Bool)
  Encrypt : Bytes → Option Bytes → Option Bytes        -- `none` = the error return
  b64 : Bytes → Str
  /-- `os.ReadFile` (`none` = the error return) and `base64.StdEncoding.DecodeString`, as `ReadKeyFromFile` sees them -/
  ReadFile : Str → Option Bytes
  b64dec : Bytes → Option Bytes
  /-- `os.WriteFile path content perm` as `WriteKeyToFile` sees it: `true` = the error return -/
  WriteFile : Str → Bytes → Int → Bool
  /-- `os.Stat` as `FileExists` sees it -/
  Stat : Str → StatRes
  /-- the `--redactFieldNames` namespace prefixes -/
  eagerRedactionPaths : List Str
  /-- `UnmarshalOrdered` (the JSON reader; not translated): `none` = the error return -/
  UnmarshalOrdered : Bytes → Option (List (Str × J))
  /-- `redactFieldNamesFromPlanSummary` (regular-expression callback; not translated) -/
  redactFieldNamesFromPlanSummary : Str → Str
  /-- the stage walker `redactPipelineStage` (not translated): a parameter of the translated dispatch functions -/
  redactPipelineStage : J → Bool → List Str → Bool → Option J

/-- a state of the globals in which every option is off and every library call fails: the base of the concrete examples -/
def Globals.inert : Globals where
  redactedString := []
  redactNumbers := false
  redactBooleans := false
  redactIPs := false
  shouldEncrypt := false
  redactNamespaces := false
  encryptionKey := none
  redactedFieldsRegexp := none
  Encrypt := fun _ _ => none
  b64 := fun _ => []
  ReadFile := fun _ => none
  b64dec := fun _ => none
  WriteFile := fun _ _ _ => true
  Stat := fun _ => .otherErr
  eagerRedactionPaths := []
  UnmarshalOrdered := fun _ => none
  redactFieldNamesFromPlanSummary := fun s => s
  redactPipelineStage := fun _ _ _ _ => none

/-- `info, err := os.Stat(p)`: the FileInfo (`none` = nil; else whether it is a directory) and the kind of error (0 = nil, 1 = not-exist, 2 = other) -/
def statPair : StatRes → Option Bool × Nat
  | .notExist => (none, 1)
  | .otherErr => (none, 2)
  | .ok d => (some d, 0)

/-- `os.IsNotExist(err)` -/
def isNotExist (e : Nat) : Bool := e == 1

/-- `info.IsDir()`: a nil FileInfo panics -/
def infoIsDir (i : Option Bool) : Option Bool := i

/-- `xs[i]` -/
def idx {α : Type} (xs : List α) (i : Int) : Option α :=
  if i < 0 then none else xs[i.toNat]?

/-- `xs[i:]` -/
def sliceFrom {α : Type} (xs : List α) (i : Int) : Option (List α) :=
  if i < 0 ∨ (xs.length : Int) < i then none else some (xs.drop i.toNat)

/-- `xs[:j]` -/
def sliceTo {α : Type} (xs : List α) (j : Int) : Option (List α) :=
  if j < 0 ∨ (xs.length : Int) < j then none else some (xs.take j.toNat)

/-- `xs[i] = v` -/
def setIdx {α : Type} (xs : List α) (i : Int) (v : α) : Option (List α) :=
  if i < 0 ∨ (xs.length : Int) ≤ i then none else some (xs.set i.toNat v)

/-- `len(xs)` -/
def len {α : Type} (xs : List α) : Int := (xs.length : Int)

/-- `len(s)` of a string: its UTF-8 length -/
def strLen (s : Str) : Int := (utf8Len s : Int)

/-- `s[0] == c` for an ASCII `c` (the first byte of the UTF-8 form is `c` iff the first character is) -/
def strByte0Is (s : Str) (c : Char) : Option Bool :=
  match s with
  | [] => none
  | x :: _ => some (x == c)

/-- `strings.TrimLeft(s, cutset)` -/
def trimLeftCutset (s cutset : Str) : Str := s.dropWhile (fun c => cutset.contains c)

/-- `%x` of a byte slice: two lower-case hex digits per byte -/
def hexBytes (b : Bytes) : Str := b.flatMap hexByte

/-- `strings.TrimPrefix` -/
def trimPrefix (s p : Str) : Str :=
  if p.isPrefixOf s then s.drop p.length else s

/-- `re.MatchString(s)` on a possibly nil `*regexp.Regexp` -/
def reMatch (re : Option (Str → Bool)) (s : Str) : Option Bool :=
  match re with
  | none => none
  | some m => some (m s)

/-- `v, ok := x.(string)` on a JSON value -/
def asStr (v : J) : Str × Bool :=
  match v with
  | .str s => (s, true)
  | _ => ([], false)

/-- the unchecked `x.(string)` -/
def assertStr (v : J) : Option Str :=
  match v with
  | .str s => some s
  | _ => none

/-- `x == nil` for a JSON value held in an `interface{}` -/
def isNull (v : J) : Bool :=
  match v with
  | .null => true
  | _ => false

/-- `val, err := f()` for a library call with an error result: the value (zero on error) and `err != nil` -/
def errPair (r : Option Bytes) : Bytes × Bool :=
  match r with
  | some x => (x, false)
  | none => ([], true)

/-- `m, err := f()` for a call returning a document and an error -/
def errPairObj (r : Option (List (Str × J))) : List (Str × J) × Bool :=
  match r with
  | some x => (x, false)
  | none => ([], true)

/-- `strings.HasPrefix(s, p)` -/
def hasPrefix (s p : Str) : Bool := p.isPrefixOf s

/-- `m, ok := x.(*OrderedMap)` on a JSON value -/
def asObj (v : J) : List (Str × J) × Bool :=
  match v with
  | .obj kvs => (kvs, true)
  | _ => ([], false)

/-- `a, ok := x.([]any)` on a JSON value -/
def asArr (v : J) : List J × Bool :=
  match v with
  | .arr xs => (xs, true)
  | _ => ([], false)

/-- `m, ok := x.(*OrderedMap)` on a table entry -/
def asTable (v : Meta) : MTable × Bool :=
  match v with
  | .map kvs => (kvs, true)
  | _ => ([], false)

/-- `v, ok := m.Get(k)` on an operator table (`Meta.nil` stands for the zero value) -/
def tblGet (m : MTable) (k : Str) : Meta × Bool :=
  match lookup k m with
  | some v => (v, true)
  | none => (.nil, false)

/-- `v, ok := m.Get(k)` on a document -/
def objGet (m : List (Str × J)) (k : Str) : J × Bool :=
  match lookup k m with
  | some v => (v, true)
  | none => (.null, false)

/-- `==` of two `interface{}` holding table entries: operator types compare by value, `nil` equals `nil`,
    a map pointer equals nothing the translated code compares it with -/
def metaEq (a b : Meta) : Bool :=
  match a, b with
  | .ty s, .ty t => s == t
  | .nil, .nil => true
  | _, _ => false

/-- short-circuit `&&` / `||` whose right operand can panic -/
def goAnd (a : Option Bool) (b : Unit → Option Bool) : Option Bool :=
  match a with
  | none => none
  | some false => some false
  | some true => b ()

def goOr (a : Option Bool) (b : Unit → Option Bool) : Option Bool :=
  match a with
  | none => none
  | some true => some true
  | some false => b ()

@[simp] theorem goAnd_some_true (b) : goAnd (some true) b = b () := rfl
@[simp] theorem goAnd_some_false (b) : goAnd (some false) b = some false := rfl
@[simp] theorem goOr_some_true (b) : goOr (some true) b = some true := rfl
@[simp] theorem goOr_some_false (b) : goOr (some false) b = b () := rfl

end Anonymongo.Go
