/-
  Model/Hash.lean — SHA-256 (FIPS 180-4) and `HashName` (src/helpers.go).
  The SHA-256 implementation is only *corresponded* with crypto/sha256 through HashName.
-/
import Anonymongo.Model.Json
namespace Anonymongo

/-- UTF-8 encoding of one scalar value. -/
def utf8Enc (c : Char) : List UInt8 :=
  let n := c.toNat
  if n < 0x80 then [n.toUInt8]
  else if n < 0x800 then [(0xC0 + n / 64).toUInt8, (0x80 + n % 64).toUInt8]
  else if n < 0x10000 then
    [(0xE0 + n / 4096).toUInt8, (0x80 + (n / 64) % 64).toUInt8, (0x80 + n % 64).toUInt8]
  else
    [(0xF0 + n / 262144).toUInt8, (0x80 + (n / 4096) % 64).toUInt8,
     (0x80 + (n / 64) % 64).toUInt8, (0x80 + n % 64).toUInt8]

def utf8 (s : Str) : List UInt8 := s.flatMap utf8Enc

def utf8Len (s : Str) : Nat := (utf8 s).length

namespace Sha256

def K : Array UInt32 := #[
  0x428a2f98, 0x71374491, 0xb5c0fbcf, 0xe9b5dba5, 0x3956c25b, 0x59f111f1, 0x923f82a4, 0xab1c5ed5,
  0xd807aa98, 0x12835b01, 0x243185be, 0x550c7dc3, 0x72be5d74, 0x80deb1fe, 0x9bdc06a7, 0xc19bf174,
  0xe49b69c1, 0xefbe4786, 0x0fc19dc6, 0x240ca1cc, 0x2de92c6f, 0x4a7484aa, 0x5cb0a9dc, 0x76f988da,
  0x983e5152, 0xa831c66d, 0xb00327c8, 0xbf597fc7, 0xc6e00bf3, 0xd5a79147, 0x06ca6351, 0x14292967,
  0x27b70a85, 0x2e1b2138, 0x4d2c6dfc, 0x53380d13, 0x650a7354, 0x766a0abb, 0x81c2c92e, 0x92722c85,
  0xa2bfe8a1, 0xa81a664b, 0xc24b8b70, 0xc76c51a3, 0xd192e819, 0xd6990624, 0xf40e3585, 0x106aa070,
  0x19a4c116, 0x1e376c08, 0x2748774c, 0x34b0bcb5, 0x391c0cb3, 0x4ed8aa4a, 0x5b9cca4f, 0x682e6ff3,
  0x748f82ee, 0x78a5636f, 0x84c87814, 0x8cc70208, 0x90befffa, 0xa4506ceb, 0xbef9a3f7, 0xc67178f2]

@[inline] def rotr (x : UInt32) (n : UInt32) : UInt32 := (x >>> n) ||| (x <<< (32 - n))

structure St where
  a : UInt32
  b : UInt32
  c : UInt32
  d : UInt32
  e : UInt32
  f : UInt32
  g : UInt32
  h : UInt32

def init : St :=
  ⟨0x6a09e667, 0xbb67ae85, 0x3c6ef372, 0xa54ff53a, 0x510e527f, 0x9b05688c, 0x1f83d9ab, 0x5be0cd19⟩

def be32 (b0 b1 b2 b3 : UInt8) : UInt32 :=
  (b0.toUInt32 <<< 24) ||| (b1.toUInt32 <<< 16) ||| (b2.toUInt32 <<< 8) ||| b3.toUInt32

/-- message schedule of one 64-byte block -/
def schedule (blk : Array UInt8) : Array UInt32 := Id.run do
  let mut w : Array UInt32 := Array.mkEmpty 64
  for i in [0:16] do
    w := w.push (be32 blk[4*i]! blk[4*i+1]! blk[4*i+2]! blk[4*i+3]!)
  for i in [16:64] do
    let w15 := w[i-15]!
    let w2 := w[i-2]!
    let s0 := rotr w15 7 ^^^ rotr w15 18 ^^^ (w15 >>> 3)
    let s1 := rotr w2 17 ^^^ rotr w2 19 ^^^ (w2 >>> 10)
    w := w.push (w[i-16]! + s0 + w[i-7]! + s1)
  return w

def compress (s : St) (blk : Array UInt8) : St := Id.run do
  let w := schedule blk
  let mut a := s.a; let mut b := s.b; let mut c := s.c; let mut d := s.d
  let mut e := s.e; let mut f := s.f; let mut g := s.g; let mut h := s.h
  for i in [0:64] do
    let S1 := rotr e 6 ^^^ rotr e 11 ^^^ rotr e 25
    let ch := (e &&& f) ^^^ ((~~~ e) &&& g)
    let t1 := h + S1 + ch + K[i]! + w[i]!
    let S0 := rotr a 2 ^^^ rotr a 13 ^^^ rotr a 22
    let mj := (a &&& b) ^^^ (a &&& c) ^^^ (b &&& c)
    let t2 := S0 + mj
    h := g; g := f; f := e; e := d + t1; d := c; c := b; b := a; a := t1 + t2
  return ⟨s.a + a, s.b + b, s.c + c, s.d + d, s.e + e, s.f + f, s.g + g, s.h + h⟩

def pad (msg : List UInt8) : Array UInt8 := Id.run do
  let len := msg.length
  let mut out : Array UInt8 := msg.toArray
  out := out.push 0x80
  while out.size % 64 != 56 do
    out := out.push 0
  let bits := len * 8
  for i in [0:8] do
    out := out.push ((bits >>> (8 * (7 - i))) % 256).toUInt8
  return out

def be32bytes (x : UInt32) : List UInt8 :=
  [(x >>> 24).toUInt8, (x >>> 16).toUInt8, (x >>> 8).toUInt8, x.toUInt8]

def stBytes (s : St) : List UInt8 :=
  be32bytes s.a ++ be32bytes s.b ++ be32bytes s.c ++ be32bytes s.d ++
  be32bytes s.e ++ be32bytes s.f ++ be32bytes s.g ++ be32bytes s.h

def final (msg : List UInt8) : St := Id.run do
  let p := pad msg
  let mut s := init
  for i in [0:p.size / 64] do
    s := compress s (p.extract (64*i) (64*i+64))
  return s

end Sha256

/-- SHA-256 digest, 32 bytes. -/
def sha256 (msg : List UInt8) : List UInt8 := Sha256.stBytes (Sha256.final msg)

def hexDigit (n : Nat) : Char :=
  if n < 10 then Char.ofNat (48 + n) else Char.ofNat (87 + n)

def hexByte (b : UInt8) : Str := [hexDigit (b.toNat / 16), hexDigit (b.toNat % 16)]

/-- `fmt.Sprintf("%x", h[:8])` — 16 lower-case hex digits. -/
def hex16 (digest : List UInt8) : Str := (digest.take 8).flatMap hexByte

/-- `strings.TrimLeft(field, "$")` -/
def trimLeftDollar : Str → Str
  | '$' :: rest => trimLeftDollar rest
  | s => s

/-- `strings.Split(s, ".")` (always at least one component). -/
def splitOn (sep : Char) : Str → List Str
  | [] => [[]]
  | c :: rest =>
    if c = sep then [] :: splitOn sep rest
    else match splitOn sep rest with
      | [] => [[c]]          -- unreachable: splitOn never returns []
      | h :: t => (c :: h) :: t

def intercalate (sep : Str) : List Str → Str
  | [] => []
  | [x] => x
  | x :: rest => x ++ sep ++ intercalate sep rest

/-- pseudonym of one name component -/
def hashPart (repl : Str) (part : Str) : Str := repl ++ ['_'] ++ hex16 (sha256 (utf8 part))

/-- `HashName` (src/helpers.go): component-wise pseudonym of a dotted name. -/
def hashName (repl : Str) (name : Str) : Str :=
  intercalate ['.'] ((splitOn '.' (trimLeftDollar name)).map (hashPart repl))

end Anonymongo
