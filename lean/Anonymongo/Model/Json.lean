/-
  Model/Json.lean — JSON trees as the redactor sees them.
  Strings are `List Char` (sequences of Unicode scalar values) so that every predicate
  reduces in the kernel. Numbers are their literal text (Go: json.Number).
  Objects are association lists; `setKV` is `OrderedMap.Set` (replace in place or append).
-/
namespace Anonymongo

abbrev Str := List Char

inductive J where
  | null
  | bool (b : Bool)
  | num (lit : Str)
  | str (s : Str)
  | arr (xs : List J)
  | obj (kvs : List (Str × J))
  deriving Inhabited, Repr

/-- Association-list lookup: first binding of `k`. -/
def lookup {α : Type} (k : Str) : List (Str × α) → Option α
  | [] => none
  | (k', v) :: rest => if k' = k then some v else lookup k rest

/-- `OrderedMap.Set`: replace the value of an existing key in place, else append. -/
def setKV {α : Type} (k : Str) (v : α) : List (Str × α) → List (Str × α)
  | [] => [(k, v)]
  | (k', v') :: rest => if k' = k then (k', v) :: rest else (k', v') :: setKV k v rest

/-- Build an ordered map by successive `Set`s (what the walkers do with a fresh map). -/
def fromPairs {α : Type} (ps : List (Str × α)) : List (Str × α) :=
  ps.foldl (fun acc p => setKV p.1 p.2 acc) []

def keysOf {α : Type} (kvs : List (Str × α)) : List Str := kvs.map (·.1)

/-- Apply `f` to the value of every binding of key `k` (with distinct keys: `Get` then `Set`). -/
def mapKey (k : Str) (f : J → J) : List (Str × J) → List (Str × J)
  | [] => []
  | (k', v) :: rest => if k' = k then (k', f v) :: mapKey k f rest else (k', v) :: mapKey k f rest

def J.isScalar : J → Bool
  | .arr _ => false
  | .obj _ => false
  | _ => true

def J.asStr? : J → Option Str
  | .str s => some s
  | _ => none

/-- Go: `s, _ := v.(string)` — the empty string when absent or not a string. -/
def strOrEmpty : Option J → Str
  | some (.str s) => s
  | _ => []

def dollarPrefixed (s : Str) : Bool :=
  match s with
  | '$' :: _ => true
  | _ => false

mutual
def J.beq : J → J → Bool
  | .null, .null => true
  | .bool a, .bool b => a == b
  | .num a, .num b => a == b
  | .str a, .str b => a == b
  | .arr a, .arr b => J.beqList a b
  | .obj a, .obj b => J.beqKVs a b
  | _, _ => false
def J.beqList : List J → List J → Bool
  | [], [] => true
  | x :: xs, y :: ys => J.beq x y && J.beqList xs ys
  | _, _ => false
def J.beqKVs : List (Str × J) → List (Str × J) → Bool
  | [], [] => true
  | (k, x) :: xs, (k', y) :: ys => k == k' && J.beq x y && J.beqKVs xs ys
  | _, _ => false
end

instance : BEq J := ⟨J.beq⟩

end Anonymongo
