/-
  Model/JsonText.lean — byte-level JSON: the ordered serialiser (`MarshalOrdered`, which
  uses Go's json.Marshal for keys and scalars, HTML escaping on) and the token-driven
  parser (`UnmarshalOrdered`: encoding/json Decoder in token mode, `UseNumber`).
  Both are library behaviour re-implemented here and *corresponded* (ops `parse`, `print`).
-/
import Anonymongo.Model.Hash
namespace Anonymongo

abbrev Bytes := List UInt8

def asciiBytes (s : String) : Bytes := s.toList.map (fun c => c.toNat.toUInt8)

def hexLower (n : Nat) : UInt8 := if n < 10 then (48 + n).toUInt8 else (87 + n).toUInt8

/-- Go `appendString(dst, s, escapeHTML = true)` for one scalar value -/
def escChar (c : Char) : Bytes :=
  let n := c.toNat
  if c = '\\' then asciiBytes "\\\\"
  else if c = '"' then asciiBytes "\\\""
  else if n = 8 then asciiBytes "\\b"
  else if n = 12 then asciiBytes "\\f"
  else if n = 10 then asciiBytes "\\n"
  else if n = 13 then asciiBytes "\\r"
  else if n = 9 then asciiBytes "\\t"
  else if n < 0x20 || c = '<' || c = '>' || c = '&' then
    asciiBytes "\\u00" ++ [hexLower (n / 16), hexLower (n % 16)]
  else if n = 0x2028 then asciiBytes "\\u2028"
  else if n = 0x2029 then asciiBytes "\\u2029"
  else utf8Enc c

def printStr (s : Str) : Bytes := [34] ++ s.flatMap escChar ++ [34]

mutual
/-- `marshalOrderedValue` -/
def printJ : J → Bytes
  | .null => asciiBytes "null"
  | .bool true => asciiBytes "true"
  | .bool false => asciiBytes "false"
  | .num lit => utf8 lit
  | .str s => printStr s
  | .arr xs => [91] ++ printElems xs ++ [93]
  | .obj kvs => [123] ++ printMembers kvs ++ [125]
def printElems : List J → Bytes
  | [] => []
  | [x] => printJ x
  | x :: y :: rest => printJ x ++ [44] ++ printElems (y :: rest)
def printMembers : List (Str × J) → Bytes
  | [] => []
  | [(k, v)] => printStr k ++ [58] ++ printJ v
  | (k, v) :: m :: rest => printStr k ++ [58] ++ printJ v ++ [44] ++ printMembers (m :: rest)
end

/-- `MarshalOrdered` -/
def printObj (kvs : List (Str × J)) : Bytes := printJ (.obj kvs)

/-! ## Parser -/

def isWs (b : UInt8) : Bool := b = 32 || b = 9 || b = 10 || b = 13

def skipWs : Bytes → Bytes
  | [] => []
  | b :: rest => if isWs b then skipWs rest else b :: rest

def isDigit (b : UInt8) : Bool := 48 ≤ b && b ≤ 57

def hexVal (b : UInt8) : Option Nat :=
  if 48 ≤ b && b ≤ 57 then some (b.toNat - 48)
  else if 97 ≤ b && b ≤ 102 then some (b.toNat - 87)
  else if 65 ≤ b && b ≤ 70 then some (b.toNat - 55)
  else none

/-- four hex digits -/
def getu4 : Bytes → Option (Nat × Bytes)
  | a :: b :: c :: d :: rest =>
    match hexVal a, hexVal b, hexVal c, hexVal d with
    | some x, some y, some z, some w => some (x * 4096 + y * 256 + z * 16 + w, rest)
    | _, _, _, _ => none
  | _ => none

def replacementChar : Char := Char.ofNat 0xFFFD

def isCont (b : UInt8) : Bool := 0x80 ≤ b && b ≤ 0xBF

/-- Go `utf8.DecodeRune` on the head of the input: a scalar value and the bytes consumed;
    invalid or truncated sequences give U+FFFD and consume ONE byte. Input non-empty. -/
def decodeRune (b0 : UInt8) (rest : Bytes) : Char × Bytes :=
  let bad := (replacementChar, rest)
  if b0 < 0x80 then (Char.ofNat b0.toNat, rest)
  else if 0xC2 ≤ b0 && b0 ≤ 0xDF then
    match rest with
    | b1 :: r => if isCont b1 then (Char.ofNat ((b0.toNat - 0xC0) * 64 + (b1.toNat - 0x80)), r) else bad
    | _ => bad
  else if 0xE0 ≤ b0 && b0 ≤ 0xEF then
    match rest with
    | b1 :: b2 :: r =>
      let lo : UInt8 := if b0 = 0xE0 then 0xA0 else 0x80
      let hi : UInt8 := if b0 = 0xED then 0x9F else 0xBF
      if lo ≤ b1 && b1 ≤ hi && isCont b2 then
        (Char.ofNat ((b0.toNat - 0xE0) * 4096 + (b1.toNat - 0x80) * 64 + (b2.toNat - 0x80)), r)
      else bad
    | _ => bad
  else if 0xF0 ≤ b0 && b0 ≤ 0xF4 then
    match rest with
    | b1 :: b2 :: b3 :: r =>
      let lo : UInt8 := if b0 = 0xF0 then 0x90 else 0x80
      let hi : UInt8 := if b0 = 0xF4 then 0x8F else 0xBF
      if lo ≤ b1 && b1 ≤ hi && isCont b2 && isCont b3 then
        (Char.ofNat ((b0.toNat - 0xF0) * 262144 + (b1.toNat - 0x80) * 4096 + (b2.toNat - 0x80) * 64
          + (b3.toNat - 0x80)), r)
      else bad
    | _ => bad
  else bad

/-- body of a string literal after the opening quote: decoded text and the rest after the
    closing quote (Go scanner `stateInString` + `unquote`). -/
def parseStrBody : Nat → Bytes → Option (Str × Bytes)
  | 0, _ => none
  | _ + 1, [] => none
  | fuel + 1, b :: rest =>
    if b = 34 then some ([], rest)
    else if b < 0x20 then none
    else if b = 92 then
      match rest with
      | [] => none
      | e :: rest' =>
        let simple (c : Char) := (parseStrBody fuel rest').map fun (s, r) => (c :: s, r)
        if e = 34 then simple '"'
        else if e = 92 then simple '\\'
        else if e = 47 then simple '/'
        else if e = 98 then simple (Char.ofNat 8)
        else if e = 102 then simple (Char.ofNat 12)
        else if e = 110 then simple '\n'
        else if e = 114 then simple '\r'
        else if e = 116 then simple '\t'
        else if e = 117 then
          match getu4 rest' with
          | none => none
          | some (rr, r1) =>
            if 0xD800 ≤ rr && rr < 0xE000 then
              -- surrogate: valid pair with a following \uXXXX low surrogate, else U+FFFD
              let lone := (parseStrBody fuel r1).map fun (s, r) => (replacementChar :: s, r)
              match r1 with
              | 92 :: 117 :: r2 =>
                match getu4 r2 with
                | some (rr1, r3) =>
                  if rr < 0xDC00 && 0xDC00 ≤ rr1 && rr1 < 0xE000 then
                    let cp := (rr - 0xD800) * 1024 + (rr1 - 0xDC00) + 0x10000
                    (parseStrBody fuel r3).map fun (s, r) => (Char.ofNat cp :: s, r)
                  else lone
                | none => lone
              | _ => lone
            else (parseStrBody fuel r1).map fun (s, r) => (Char.ofNat rr :: s, r)
        else none
    else
      let (c, r) := decodeRune b rest
      (parseStrBody fuel r).map fun (s, r') => (c :: s, r')

def takeDigits : Bytes → Bytes × Bytes
  | [] => ([], [])
  | b :: rest => if isDigit b then let (d, r) := takeDigits rest; (b :: d, r) else ([], b :: rest)

def numSign : Bytes → Bytes × Bytes
  | 45 :: r => ([45], r)
  | bs => ([], bs)

def numInt : Bytes → Option (Bytes × Bytes)
  | [] => none
  | b :: r =>
    if b = 48 then some ([48], r)
    else if 49 ≤ b && b ≤ 57 then some (takeDigits (b :: r)) else none

def numFrac : Bytes → Option (Bytes × Bytes)
  | 46 :: r =>
    if (takeDigits r).1.isEmpty then none else some (46 :: (takeDigits r).1, (takeDigits r).2)
  | bs => some ([], bs)

def numExpSign : Bytes → Bytes × Bytes
  | 43 :: x => ([43], x)
  | 45 :: x => ([45], x)
  | r => ([], r)

def numExp : Bytes → Option (Bytes × Bytes)
  | [] => some ([], [])
  | e :: r =>
    if e = 101 || e = 69 then
      if (takeDigits (numExpSign r).2).1.isEmpty then none
      else some (e :: (numExpSign r).1 ++ (takeDigits (numExpSign r).2).1, (takeDigits (numExpSign r).2).2)
    else some ([], e :: r)

/-- JSON number literal at the head of the input: `-?(0|[1-9][0-9]*)(\.[0-9]+)?([eE][+-]?[0-9]+)?` -/
def parseNumber (bs : Bytes) : Option (Bytes × Bytes) :=
  let (sign, r0) := numSign bs
  match numInt r0 with
  | none => none
  | some (ip, r1) =>
    match numFrac r1 with
    | none => none
    | some (fp, r2) =>
      match numExp r2 with
      | none => none
      | some (ep, r3) => some (sign ++ ip ++ fp ++ ep, r3)

def stripPrefix (p : Bytes) (bs : Bytes) : Option Bytes :=
  match p, bs with
  | [], r => some r
  | _ :: _, [] => none
  | a :: as, b :: r => if a = b then stripPrefix as r else none

/-- A value may be followed only by whitespace, `,`, `]`, `}` or the end of input
    (Go's scanner `stateEndValue`; matters for scalars such as `12abc`, `truex`). -/
def endsValue : Bytes → Bool
  | [] => true
  | b :: _ => isWs b || b = 44 || b = 93 || b = 125

mutual
/-- `parseValue`: one JSON value at the head of the (whitespace-skipped) input -/
def parseValue : Nat → Bytes → Option (J × Bytes)
  | 0, _ => none
  | fuel + 1, bs =>
    match skipWs bs with
    | [] => none
    | 123 :: rest =>                                  -- '{'
      match skipWs rest with
      | 125 :: r => some (.obj [], r)
      | _ => (parseMembers fuel rest []).map fun (kvs, r) => (.obj kvs, r)
    | 91 :: rest =>                                   -- '['
      match skipWs rest with
      | 93 :: r => some (.arr [], r)
      | _ => (parseElems fuel rest).map fun (xs, r) => (.arr xs, r)
    | 34 :: rest =>
      match parseStrBody (rest.length + 1) rest with
      | some (s, r) => if endsValue r then some (.str s, r) else none
      | none => none
    | b :: rest =>
      if b = 116 then (match stripPrefix (asciiBytes "rue") rest with
        | some r => if endsValue r then some (.bool true, r) else none
        | none => none)
      else if b = 102 then (match stripPrefix (asciiBytes "alse") rest with
        | some r => if endsValue r then some (.bool false, r) else none
        | none => none)
      else if b = 110 then (match stripPrefix (asciiBytes "ull") rest with
        | some r => if endsValue r then some (.null, r) else none
        | none => none)
      else
        match parseNumber (b :: rest) with
        | some (lit, r) =>
          if endsValue r then some (.num (lit.map fun x => Char.ofNat x.toNat), r) else none
        | none => none
/-- members after `{` (at least one expected), accumulated with `OrderedMap.Set` -/
def parseMembers : Nat → Bytes → List (Str × J) → Option (List (Str × J) × Bytes)
  | 0, _, _ => none
  | fuel + 1, bs, acc =>
    match skipWs bs with
    | 34 :: rest =>
      match parseStrBody (rest.length + 1) rest with
      | none => none
      | some (k, r1) =>
        match skipWs r1 with
        | 58 :: r2 =>
          match parseValue fuel r2 with
          | none => none
          | some (v, r3) =>
            let acc' := setKV k v acc
            match skipWs r3 with
            | 44 :: r4 =>
              (match skipWs r4 with
               | 125 :: _ => none                 -- `{"a":1,}`
               | _ => parseMembers fuel r4 acc')
            | 125 :: r4 => some (acc', r4)
            | _ => none
        | _ => none
    | _ => none
/-- elements after `[` (at least one expected) -/
def parseElems : Nat → Bytes → Option (List J × Bytes)
  | 0, _ => none
  | fuel + 1, bs =>
    match parseValue fuel bs with
    | none => none
    | some (v, r1) =>
      match skipWs r1 with
      | 44 :: r2 =>
        (match skipWs r2 with
         | 93 :: _ => none                        -- `[1,]`
         | _ => (parseElems fuel r2).map fun (xs, r) => (v :: xs, r))
      | 93 :: r2 => some ([v], r2)
      | _ => none
end

/-- `UnmarshalOrdered` (after the `fix:` commits): exactly one JSON object, nothing but
    whitespace after it. -/
def parseObj (bs : Bytes) : Option (List (Str × J)) :=
  match parseValue (bs.length + 1) bs with
  | some (.obj kvs, r) => if (skipWs r).isEmpty then some kvs else none
  | _ => none

end Anonymongo
