/-
  Model/KeyFile.lean — the key-file step of `redact --encrypt` (src/main.go:156-179,
  src/encryption.go ReadKeyFromFile / WriteKeyToFile / GenerateKey, src/helpers.go FileExists).
  The file-system object at the key path is abstract; base64 is a parameter with its round-trip law.
-/
import Anonymongo.Model.JsonText
namespace Anonymongo.KeyFile

/-- what is at the key path -/
inductive FsObj where
  | absent                      -- nothing there, the parent directory exists and is writable
  | absentNoParent              -- nothing there and it cannot be created (parent missing / not writable)
  | file (content : Bytes)      -- a readable regular file
  | unreadable (content : Bytes) -- a regular file that cannot be read
  | dir                         -- a directory
  | statFails                   -- os.Stat fails with an error other than "not exist" (ENOTDIR, EACCES on the parent)
  deriving Repr

/-- base64 codec (encoding/base64 StdEncoding) with the law the code relies on -/
structure B64 where
  enc : Bytes → Bytes
  dec : Bytes → Option Bytes
  dec_enc : ∀ b, dec (enc b) = some b

inductive Outcome where
  | proceed (key : Bytes)       -- processing starts with this key in force
  | fail                        -- message on stderr, exit status 1, nothing processed
  | crash                       -- nil dereference in FileExists: exit status 2, nothing processed
  deriving Repr

/-- `ReadKeyFromFile` on the bytes of the file -/
def readKey (B : B64) (content : Bytes) : Option Bytes :=
  match B.dec content with
  | some k => if k.length = 64 then some k else none
  | none => none

/-- the key step: state of the key path before → state after, and how the run goes on.
    `fresh` = what `GenerateKey` returned. -/
def step (B : B64) (fresh : Bytes) : FsObj → FsObj × Outcome
  | .absent => if fresh.length = 64 then (.file (B.enc fresh), .proceed fresh) else (.absent, .fail)
  | .absentNoParent => (.absentNoParent, .fail)
  | .file c =>
    (match readKey B c with
     | some k => (.file c, .proceed k)
     | none => (.file c, .fail))
  | .unreadable c => (.unreadable c, .fail)
  | .dir => (.dir, .fail)        -- FileExists says false, the write then fails with EISDIR
  | .statFails => (.statFails, .crash)

/-- a sequence of runs, each with its own fresh key material; the outcomes in order -/
def runs (B : B64) : FsObj → List Bytes → FsObj × List Outcome
  | o, [] => (o, [])
  | o, f :: rest =>
    let (o1, r) := step B f o
    let (o2, rs) := runs B o1 rest
    (o2, r :: rs)

def Outcome.key? : Outcome → Option Bytes
  | .proceed k => some k
  | _ => none

end Anonymongo.KeyFile
