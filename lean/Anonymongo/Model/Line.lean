/-
  Model/Line.lean — `redactCommand`, `redactNamespace`, plan-summary rewrite and
  `RedactMongoLog` on trees (src/anonymizer.go:46-221).
  Go updates the ordered maps with `Get` / `Set` on existing keys; on maps with distinct
  keys (which the parser guarantees) that is `mapKey`.
-/
import Anonymongo.Model.Walk
namespace Anonymongo

def qKeysObj : List Str := ["query", "filter", "sort", "q"].map String.toList
def uKeysObjOrArr : List Str := ["update", "u", "updateMods"].map String.toList
def aKeysArr : List Str := ["updates", "deletes", "arrayFilters"].map String.toList
def sDocuments : Str := "documents".toList
def sInsert : Str := "insert".toList
def sPipeline : Str := "pipeline".toList
def sDocument : Str := "document".toList
def sExplain : Str := "explain".toList
def sBulkWrite : Str := "bulkWrite".toList
def sOps : Str := "ops".toList
def sNsInfo : Str := "nsInfo".toList

namespace Ctx

/-- `redactOperation`'s dispatch for one entry `k : v` of an operation document;
    `hasInsert` = the document has an `insert` key. -/
def cmdVal (c : Ctx) (hasInsert : Bool) (k : Str) (v : J) : J :=
  if qKeysObj.contains k then
    match v with
    | .obj kvs => .obj (fromPairs (Q c false none [] kvs))
    | _ => v
  else if uKeysObjOrArr.contains k then
    match v with
    | .obj kvs => .obj (fromPairs (Q c false none [] kvs))
    | .arr xs => .arr (A c false [] false [] xs)
    | _ => v
  else if aKeysArr.contains k then
    match v with
    | .arr xs => .arr (A c false [] false [] xs)
    | _ => v
  else if k = sDocuments then
    match v with
    | .arr xs => if hasInsert then .arr (A c false [] false [] xs) else v
    | _ => v
  else if k = sDocument then
    match v with
    | .obj kvs => if hasInsert then .obj (fromPairs (Q c false none [] kvs)) else v
    | _ => v
  else if k = sPipeline then
    match v with
    | .arr xs => .arr (FacetStages c xs)    -- each stage: P(stage, rfn, [], isInSearchStage stage)
    | _ => v
  else v

/-- `redactOperation`: one operation document (a command, the command wrapped by explain, one
    element of bulkWrite's `ops`) -/
def redactOperation (c : Ctx) (cmd : List (Str × J)) : List (Str × J) :=
  let hasInsert := (lookup sInsert cmd).isSome
  cmd.map fun p => (p.1, c.cmdVal hasInsert p.1 p.2)

/-- an operation document one level down (`Set` in place = rebuild, keys being distinct) -/
def opDoc (c : Ctx) (v : J) : J :=
  match v with
  | .obj op => .obj (fromPairs (c.redactOperation op))
  | _ => v

/-- `redactCommand`'s treatment of one entry: the operation's own keys, the operation wrapped by
    `explain`, the operations listed under `ops` by `bulkWrite` -/
def cmdEntry (c : Ctx) (hasInsert hasBulk : Bool) (k : Str) (v : J) : J :=
  if k = sExplain then c.opDoc v
  else if k = sOps && hasBulk then
    match v with
    | .arr xs => .arr (xs.map c.opDoc)
    | _ => v
  else c.cmdVal hasInsert k v

def redactCommand (c : Ctx) (cmd : List (Str × J)) : List (Str × J) :=
  let hasInsert := (lookup sInsert cmd).isSome
  let hasBulk := (lookup sBulkWrite cmd).isSome
  cmd.map fun p => (p.1, c.cmdEntry hasInsert hasBulk p.1 p.2)

/-- value of field `k` after `redactNamespaceFields`: string values of the searched fields become pseudonyms -/
def nsFieldVal (c : Ctx) (k : Str) (v : J) : J :=
  match v with
  | .str s => if c.T.searchedFields.contains k then .str (c.H s) else v
  | _ => v

/-- `redactNamespaceFields` -/
def nsFields (c : Ctx) (cmd : List (Str × J)) : List (Str × J) :=
  cmd.map fun p => (p.1, c.nsFieldVal p.1 p.2)

def nsDocOf (c : Ctx) (v : J) : J :=
  match v with
  | .obj m => .obj (c.nsFields m)
  | _ => v

/-- value of field `k` after `redactNamespace`: the searched fields, those of the command wrapped by
    `explain`, and those of the elements of `nsInfo` -/
def nsVal (c : Ctx) (k : Str) (v : J) : J :=
  if k = sExplain then c.nsDocOf v
  else if k = sNsInfo then
    match v with
    | .arr xs => .arr (xs.map c.nsDocOf)
    | _ => v
  else c.nsFieldVal k v

/-- `redactNamespace` -/
def redactNamespace (c : Ctx) (cmd : List (Str × J)) : List (Str × J) :=
  cmd.map fun p => (p.1, c.nsVal p.1 p.2)

/-- one of attr.originatingCommand / attr.cmd / attr.command -/
def cmdDoc (c : Ctx) (v : J) : J :=
  match v with
  | .obj cmd =>
    let r := c.redactCommand cmd
    .obj (if c.cfg.ns then c.redactNamespace r else r)
  | _ => v

end Ctx

def sAttr : Str := "attr".toList
def sRemote : Str := "remote".toList
def sC : Str := "c".toList
def sMsg : Str := "msg".toList
def sNs : Str := "ns".toList
def sPlanSummary : Str := "planSummary".toList
def cmdKeys : List Str := ["originatingCommand", "cmd", "command"].map String.toList
def gateComponents : List Str := ["COMMAND", "QUERY", "WRITE"].map String.toList
def sSlowQuery : Str := "Slow query".toList

def isPrefix : Str → Str → Bool
  | [], _ => true
  | _ :: _, [] => false
  | a :: as, b :: bs => a == b && isPrefix as bs

/-- the gate of RedactMongoLog: component COMMAND / QUERY / WRITE or message "Slow query" -/
def gated (entry : List (Str × J)) : Bool :=
  gateComponents.contains (strOrEmpty (lookup sC entry)) || strOrEmpty (lookup sMsg entry) = sSlowQuery

/-- the `attr` rewrite of RedactMongoLog. `plan` is the plan-summary rewriter
    (Model/Plan.lean), a parameter here so that Line does not depend on it. -/
def redactAttrWith (cd : Ctx → J → J) (T : Tables) (cfg : Cfg) (eagerPaths : List Str) (plan : Str → Str → Str) (isGated : Bool)
    (attr : List (Str × J)) : List (Str × J) :=
  let a1 := if cfg.ips then mapKey sRemote (fun v => match v with | .str _ => .str T.ipPH | x => x) attr else attr
  let a2 :=
    if isGated then
      let eager := eagerPaths.any fun p => isPrefix p (strOrEmpty (lookup sNs a1))
      let c : Ctx := { T := T, cfg := cfg, rfn := eager }
      let a := a1.map fun p => (p.1, if cmdKeys.contains p.1 then cd c p.2 else p.2)
      if eager then mapKey sPlanSummary (fun v => match v with | .str s => .str (plan cfg.repl s) | x => x) a
      else a
    else a1
  if cfg.ns then mapKey sNs (fun v => match v with | .str s => .str (hashName cfg.repl s) | x => x) a2 else a2

/-- `RedactMongoLog` on the parsed entry, parametric in the command-document redactor -/
def redactLineWith (cd : Ctx → J → J) (T : Tables) (cfg : Cfg) (eagerPaths : List Str) (plan : Str → Str → Str)
    (entry : List (Str × J)) : List (Str × J) :=
  match lookup sAttr entry with
  | some (.obj _) =>
    mapKey sAttr (fun v => match v with
      | .obj attr => .obj (redactAttrWith cd T cfg eagerPaths plan (gated entry) attr)
      | x => x) entry
  | _ => entry

def redactAttr := redactAttrWith Ctx.cmdDoc

/-- `RedactMongoLog` on the parsed entry -/
def redactLine := redactLineWith Ctx.cmdDoc

end Anonymongo
