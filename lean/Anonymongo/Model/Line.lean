/-
  Model/Line.lean — `redactCommand`, `redactNamespace`, plan-summary rewrite and
  `RedactMongoLog` on trees (src/anonymizer.go:46-221).
  Go updates the ordered maps with `Get` / `Set` on existing keys; on maps with distinct
  keys (which the parser guarantees) that is `mapKey`.
-/
import Anonymongo.Model.Walk
namespace Anonymongo

def qKeysObj : List Str := ["query", "filter", "sort", "q"].map String.toList
def uKeysObjOrArr : List Str := ["update", "u"].map String.toList
def aKeysArr : List Str := ["updates", "deletes", "arrayFilters"].map String.toList
def sDocuments : Str := "documents".toList
def sInsert : Str := "insert".toList
def sPipeline : Str := "pipeline".toList

namespace Ctx

/-- `redactCommand`'s dispatch for one entry `k : v` of a command document;
    `hasInsert` = the command has an `insert` key. -/
def cmdVal (c : Ctx) (hasInsert : Bool) (k : Str) (v : J) : J :=
  if qKeysObj.contains k then
    match v with
    | .obj kvs => .obj (fromPairs (Q c false none [] kvs))
    | _ => v
  else if uKeysObjOrArr.contains k then
    match v with
    | .obj kvs => .obj (fromPairs (Q c false none [] kvs))
    | .arr xs => .arr (A c false [] false [] xs)
    | _ => v
  else if aKeysArr.contains k then
    match v with
    | .arr xs => .arr (A c false [] false [] xs)
    | _ => v
  else if k = sDocuments then
    match v with
    | .arr xs => if hasInsert then .arr (A c false [] false [] xs) else v
    | _ => v
  else if k = sPipeline then
    match v with
    | .arr xs => .arr (FacetStages c xs)    -- each stage: P(stage, rfn, [], isInSearchStage stage)
    | _ => v
  else v

def redactCommand (c : Ctx) (cmd : List (Str × J)) : List (Str × J) :=
  let hasInsert := (lookup sInsert cmd).isSome
  cmd.map fun p => (p.1, c.cmdVal hasInsert p.1 p.2)

/-- value of field `k` after `redactNamespace`: string values of the searched fields become pseudonyms -/
def nsVal (c : Ctx) (k : Str) (v : J) : J :=
  match v with
  | .str s => if c.T.searchedFields.contains k then .str (c.H s) else v
  | _ => v

/-- `redactNamespace` -/
def redactNamespace (c : Ctx) (cmd : List (Str × J)) : List (Str × J) :=
  cmd.map fun p => (p.1, c.nsVal p.1 p.2)

/-- one of attr.originatingCommand / attr.cmd / attr.command -/
def cmdDoc (c : Ctx) (v : J) : J :=
  match v with
  | .obj cmd =>
    let r := c.redactCommand cmd
    .obj (if c.cfg.ns then c.redactNamespace r else r)
  | _ => v

end Ctx

def sAttr : Str := "attr".toList
def sRemote : Str := "remote".toList
def sC : Str := "c".toList
def sMsg : Str := "msg".toList
def sNs : Str := "ns".toList
def sPlanSummary : Str := "planSummary".toList
def cmdKeys : List Str := ["originatingCommand", "cmd", "command"].map String.toList
def gateComponents : List Str := ["COMMAND", "QUERY", "WRITE"].map String.toList
def sSlowQuery : Str := "Slow query".toList

def isPrefix : Str → Str → Bool
  | [], _ => true
  | _ :: _, [] => false
  | a :: as, b :: bs => a == b && isPrefix as bs

/-- the gate of RedactMongoLog: component COMMAND / QUERY / WRITE or message "Slow query" -/
def gated (entry : List (Str × J)) : Bool :=
  gateComponents.contains (strOrEmpty (lookup sC entry)) || strOrEmpty (lookup sMsg entry) = sSlowQuery

/-- the `attr` rewrite of RedactMongoLog. `plan` is the plan-summary rewriter
    (Model/Plan.lean), a parameter here so that Line does not depend on it. -/
def redactAttrWith (cd : Ctx → J → J) (T : Tables) (cfg : Cfg) (eagerPaths : List Str) (plan : Str → Str → Str) (isGated : Bool)
    (attr : List (Str × J)) : List (Str × J) :=
  let a1 := if cfg.ips then mapKey sRemote (fun v => match v with | .str _ => .str T.ipPH | x => x) attr else attr
  let a2 :=
    if isGated then
      let eager := eagerPaths.any fun p => isPrefix p (strOrEmpty (lookup sNs a1))
      let c : Ctx := { T := T, cfg := cfg, rfn := eager }
      let a := a1.map fun p => (p.1, if cmdKeys.contains p.1 then cd c p.2 else p.2)
      if eager then mapKey sPlanSummary (fun v => match v with | .str s => .str (plan cfg.repl s) | x => x) a
      else a
    else a1
  if cfg.ns then mapKey sNs (fun v => match v with | .str s => .str (hashName cfg.repl s) | x => x) a2 else a2

/-- `RedactMongoLog` on the parsed entry, parametric in the command-document redactor -/
def redactLineWith (cd : Ctx → J → J) (T : Tables) (cfg : Cfg) (eagerPaths : List Str) (plan : Str → Str → Str)
    (entry : List (Str × J)) : List (Str × J) :=
  match lookup sAttr entry with
  | some (.obj _) =>
    mapKey sAttr (fun v => match v with
      | .obj attr => .obj (redactAttrWith cd T cfg eagerPaths plan (gated entry) attr)
      | x => x) entry
  | _ => entry

def redactAttr := redactAttrWith Ctx.cmdDoc

/-- `RedactMongoLog` on the parsed entry -/
def redactLine := redactLineWith Ctx.cmdDoc

end Anonymongo
