/-
  Model/Plan.lean — `ParsePlanSummary` (src/helpers.go) and
  `redactFieldNamesFromPlanSummary` (src/anonymizer.go), including the regexp
  `IXSCAN\s*\{([^}]+)\}`, strings.Split / SplitN / TrimSpace / ReplaceAll and sort.Strings.
-/
import Anonymongo.Model.Line
namespace Anonymongo

def sIXSCAN : Str := "IXSCAN".toList
def sCOLLSCAN : Str := "COLLSCAN".toList

/-- RE2 `\s` -/
def isReSpace (c : Char) : Bool := c = ' ' || c = '\t' || c = '\n' || c = '\x0c' || c = '\r'

/-- unicode.IsSpace (strings.TrimSpace) -/
def isUniSpace (c : Char) : Bool :=
  let n := c.toNat
  (9 ≤ n && n ≤ 13) || n = 0x20 || n = 0x85 || n = 0xA0 || n = 0x1680 ||
  (0x2000 ≤ n && n ≤ 0x200A) || n = 0x2028 || n = 0x2029 || n = 0x202F || n = 0x205F || n = 0x3000

def dropWhileC (p : Char → Bool) : Str → Str
  | [] => []
  | c :: r => if p c then dropWhileC p r else c :: r

def trimSpace (s : Str) : Str := (dropWhileC isUniSpace (dropWhileC isUniSpace s).reverse).reverse

/-- try to match `IXSCAN\s*\{([^}]+)\}` at the head of `s`: the group and the rest after `}` -/
def matchIxscanHere (s : Str) : Option (Str × Str) :=
  if isPrefix sIXSCAN s then
    match dropWhileC isReSpace (s.drop 6) with
    | '{' :: r =>
      let (body, after) := r.span (· != '}')
      match body, after with
      | _ :: _, '}' :: rest => some (body, rest)
      | _, _ => none
    | _ => none
  else none

/-- all non-overlapping leftmost matches: the captured groups -/
def ixscanGroups : Nat → Str → List Str
  | 0, _ => []
  | _ + 1, [] => []
  | fuel + 1, c :: r =>
    match matchIxscanHere (c :: r) with
    | some (g, rest) => g :: ixscanGroups fuel rest
    | none => ixscanGroups fuel r

/-- text before the first `:` -/
def beforeColon : Str → Str
  | [] => []
  | c :: r => if c = ':' then [] else c :: beforeColon r

def strLt : Str → Str → Bool
  | [], [] => false
  | [], _ :: _ => true
  | _ :: _, [] => false
  | a :: as, b :: bs => a.toNat < b.toNat || (a == b && strLt as bs)

def insertSorted (x : Str) : List Str → List Str
  | [] => [x]
  | y :: ys => if x = y then y :: ys else if strLt x y then x :: y :: ys else y :: insertSorted x ys

/-- `ParsePlanSummary`: sorted set of field-name components of all IXSCAN index specs -/
def parsePlanSummary (ps : Str) : List Str :=
  let groups := ixscanGroups (ps.length + 1) ps
  let names : List Str := groups.flatMap fun g =>
    (splitOn ',' g).flatMap fun pf =>
      let key := trimSpace (beforeColon pf)
      if key.isEmpty then [] else splitOn '.' key
  names.foldl (fun acc n => insertSorted n acc) []

def replaceAllGo (old new : Str) : Nat → Str → Str
  | 0, s => s
  | _ + 1, [] => []
  | fuel + 1, c :: r =>
    if isPrefix old (c :: r) then new ++ replaceAllGo old new fuel ((c :: r).drop old.length)
    else c :: replaceAllGo old new fuel r

/-- strings.ReplaceAll -/
def replaceAll (old new s : Str) : Str :=
  if old.isEmpty then new ++ s.flatMap (fun c => c :: new)
  else replaceAllGo old new (s.length + 1) s

/-- `redactFieldNamesFromPlanSummary` with replacement text `repl` -/
def redactPlan (repl : Str) (ps : Str) : Str :=
  if ps = sCOLLSCAN then ps
  else (parsePlanSummary ps).foldl (fun result name => replaceAll name (hashName repl name) result) ps

end Anonymongo
