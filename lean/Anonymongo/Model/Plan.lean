/-
  Model/Plan.lean — `ParsePlanSummary` (src/helpers.go) and
  `redactFieldNamesFromPlanSummary` (src/anonymizer.go), including the regexp
  `IXSCAN\s*\{([^}]+)\}`, strings.Split / SplitN / TrimSpace / ReplaceAll and sort.Strings.
-/
import Anonymongo.Model.Line
namespace Anonymongo

def sIXSCAN : Str := "IXSCAN".toList
def sCOLLSCAN : Str := "COLLSCAN".toList

/-- RE2 `\s` -/
def isReSpace (c : Char) : Bool := c = ' ' || c = '\t' || c = '\n' || c = '\x0c' || c = '\r'

/-- unicode.IsSpace (strings.TrimSpace) -/
def isUniSpace (c : Char) : Bool :=
  let n := c.toNat
  (9 ≤ n && n ≤ 13) || n = 0x20 || n = 0x85 || n = 0xA0 || n = 0x1680 ||
  (0x2000 ≤ n && n ≤ 0x200A) || n = 0x2028 || n = 0x2029 || n = 0x202F || n = 0x205F || n = 0x3000

def dropWhileC (p : Char → Bool) : Str → Str
  | [] => []
  | c :: r => if p c then dropWhileC p r else c :: r

def trimSpace (s : Str) : Str := (dropWhileC isUniSpace (dropWhileC isUniSpace s).reverse).reverse

/-- try to match `IXSCAN\s*\{([^}]+)\}` at the head of `s`: the group and the rest after `}` -/
def matchIxscanHere (s : Str) : Option (Str × Str) :=
  if isPrefix sIXSCAN s then
    match dropWhileC isReSpace (s.drop 6) with
    | '{' :: r =>
      let (body, after) := r.span (· != '}')
      match body, after with
      | _ :: _, '}' :: rest => some (body, rest)
      | _, _ => none
    | _ => none
  else none

/-- all non-overlapping leftmost matches: the captured groups -/
def ixscanGroups : Nat → Str → List Str
  | 0, _ => []
  | _ + 1, [] => []
  | fuel + 1, c :: r =>
    match matchIxscanHere (c :: r) with
    | some (g, rest) => g :: ixscanGroups fuel rest
    | none => ixscanGroups fuel r

/-- text before the first `:` -/
def beforeColon : Str → Str
  | [] => []
  | c :: r => if c = ':' then [] else c :: beforeColon r

def strLt : Str → Str → Bool
  | [], [] => false
  | [], _ :: _ => true
  | _ :: _, [] => false
  | a :: as, b :: bs => a.toNat < b.toNat || (a == b && strLt as bs)

def insertSorted (x : Str) : List Str → List Str
  | [] => [x]
  | y :: ys => if x = y then y :: ys else if strLt x y then x :: y :: ys else y :: insertSorted x ys

/-- `ParsePlanSummary`: sorted set of field-name components of all IXSCAN index specs -/
def parsePlanSummary (ps : Str) : List Str :=
  let groups := ixscanGroups (ps.length + 1) ps
  let names : List Str := groups.flatMap fun g =>
    (splitOn ',' g).flatMap fun pf =>
      let key := trimSpace (beforeColon pf)
      if key.isEmpty then [] else splitOn '.' key
  names.foldl (fun acc n => insertSorted n acc) []

def replaceAllGo (old new : Str) : Nat → Str → Str
  | 0, s => s
  | _ + 1, [] => []
  | fuel + 1, c :: r =>
    if isPrefix old (c :: r) then new ++ replaceAllGo old new fuel ((c :: r).drop old.length)
    else c :: replaceAllGo old new fuel r

/-- strings.ReplaceAll -/
def replaceAll (old new s : Str) : Str :=
  if old.isEmpty then new ++ s.flatMap (fun c => c :: new)
  else replaceAllGo old new (s.length + 1) s

/-- strings.Replace(s, old, new, 1) for a non-empty `old` -/
def replaceFirst (old new : Str) : Str → Str
  | [] => []
  | c :: r => if isPrefix old (c :: r) then new ++ (c :: r).drop old.length else c :: replaceFirst old new r

/-- text from the first `:` on (empty when there is none) -/
def fromColon : Str → Str
  | [] => []
  | c :: r => if c = ':' then c :: r else fromColon r

/-- one `key : direction` member of an index specification: the key is replaced by its pseudonym
    where it stands, spacing and direction are kept -/
def redactIndexField (h : Str → Str) (field : Str) : Str :=
  let key := trimSpace (beforeColon field)
  if key.isEmpty then field
  else replaceFirst key (h key) (beforeColon field) ++ fromColon field

/-- the `{ ... }` body of one IXSCAN -/
def redactIndexBody (h : Str → Str) (body : Str) : Str :=
  intercalate [','] ((splitOn ',' body).map (redactIndexField h))

/-- rewrite every non-overlapping leftmost match of `IXSCAN\s*\{([^}]+)\}` -/
def redactIxscans (h : Str → Str) : Nat → Str → Str
  | 0, s => s
  | _ + 1, [] => []
  | fuel + 1, c :: r =>
    match matchIxscanHere (c :: r) with
    | some (g, rest) =>
      -- the matched text is  IXSCAN <spaces> { g } ; everything up to and including '{' is kept
      let matchedLen := (c :: r).length - rest.length
      let head := ((c :: r).take matchedLen)
      let upToBrace := head.take (head.length - g.length - 1)
      upToBrace ++ redactIndexBody h g ++ ['}'] ++ redactIxscans h fuel rest
    | none => c :: redactIxscans h fuel r

/-- `redactFieldNamesFromPlanSummary` with replacement text `repl` (after the in-place `fix:`) -/
def redactPlanWith (h : Str → Str) (ps : Str) : Str :=
  if ps = sCOLLSCAN then ps else redactIxscans h (ps.length + 1) ps

def redactPlan (repl : Str) (ps : Str) : Str := redactPlanWith (hashName repl) ps

end Anonymongo
