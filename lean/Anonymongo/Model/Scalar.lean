/-
  Model/Scalar.lean — configuration and scalar redaction
  (src/anonymizer.go redactString / reMatchesAnyKeyInPath / redactScalarValue).
-/
import Anonymongo.Model.Tables
import Anonymongo.Model.Email
namespace Anonymongo

/-- Redaction options (the process-global switches of src/anonymizer.go:13-44).
    `re`  : selective mode — the compiled expression as an ARBITRARY predicate on names.
    `enc` : encrypt mode — `none` = off; `some f` = on, `f s = none` meaning `Encrypt` failed. -/
structure Cfg where
  repl : Str
  nums : Bool
  bools : Bool
  ips : Bool
  ns : Bool
  re : Option (Str → Bool)
  enc : Option (Str → Option Str)

/-- line-level configuration: the value options plus the `--redactFieldNames` namespace prefixes -/
structure LineCfg extends Cfg where
  eager : List Str

/-- `redactString(s, nonEncryptedValue)` after the fail-closed `fix:`. -/
def redactString (cfg : Cfg) (s : Str) (ph : Str) : Str :=
  match cfg.enc with
  | none => ph
  | some f =>
    match f s with
    | some c => c
    | none => ph

def reMatchesAny (re : Option (Str → Bool)) (kp : List Str) : Bool :=
  match re with
  | none => false
  | some m => kp.any m

/-- second-to-last element, `""` when there is none -/
def grandParent (kp : List Str) : Str :=
  match kp.reverse with
  | _ :: g :: _ => g
  | _ => []

def sDate : Str := "$date".toList
def sOid : Str := "$oid".toList
def sBase64 : Str := "base64".toList
def sBinary : Str := "$binary".toList
def sSubType : Str := "subType".toList

/-- the per-kind replacement at the end of `redactScalarValue` -/
def redactByKind (T : Tables) (cfg : Cfg) (v : J) : J :=
  match v with
  | .str s => if isEmail s then .str (redactString cfg s T.emailPH) else .str (redactString cfg s cfg.repl)
  | .num _ => if cfg.nums then .num T.number else v
  | .bool _ => if cfg.bools then .bool T.boolean else v
  | .null => .null
  | _ => .str cfg.repl     -- Go `default:`; unreachable from the walkers (they never pass maps/arrays)

/-- `redactScalarValue(keyPath, v, isSearchStage, isSelectivelyRedactable)`; all call sites
    pass a non-empty `kp`. -/
def redactScalar (T : Tables) (cfg : Cfg) (kp : List Str) (v : J) (S : Bool) (sel : Bool) : J :=
  if isTy? (getOp T kp S) .Exempt then v
  else if !S && cfg.re.isSome && !sel && !reMatchesAny cfg.re kp then v
  else
    let pk := lastD kp
    let gp := grandParent kp
    match v with
    | .str s =>
      if pk = sDate then .str (redactString cfg s T.isoDate)
      else if pk = sOid then .str (redactString cfg s T.objectId)
      else if pk = sBase64 && gp = sBinary then .str (redactString cfg s T.uuid)
      else if pk = sSubType && gp = sBinary then v
      else redactByKind T cfg v
    | _ =>
      if pk = sSubType && gp = sBinary then v else redactByKind T cfg v

end Anonymongo
