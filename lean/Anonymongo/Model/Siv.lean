/-
  Model/Siv.lean — AES-SIV-CMAC (RFC 5297) as Tink's `subtle.AESSIV` computes it with one (empty)
  associated-data component: CMAC (RFC 4493), S2V, CTR with the two cleared bits, and the
  deterministic encrypt / decrypt pair.  Everything is parametric in the two block functions
  (`E1`: CMAC key = first half of the 64-byte key, `E2`: CTR key = second half); instantiated with
  AES-256 at the end.  Executable, core Lean only.
-/
import Anonymongo.Model.Aes
import Anonymongo.Model.Daead
namespace Anonymongo.Siv
open Anonymongo.Aes (xorBytes fix16)

def zero16 : Bytes := List.replicate 16 0

/-- multiplication by x in GF(2^128) (RFC 5297 "dbl"), on 16-byte blocks, big-endian -/
def dbl (b : Bytes) : Bytes :=
  let n := b.foldl (fun acc x => acc * 256 + x.toNat) 0
  let m := (n * 2) % (2 ^ 128)
  let m := if n ≥ 2 ^ 127 then m ^^^ 0x87 else m
  (List.range 16).map fun i => (m / 256 ^ (15 - i) % 256).toUInt8

/-- 10* padding to 16 bytes -/
def pad (m : Bytes) : Bytes := fix16 (m ++ [0x80])

/-- CBC-MAC chain over complete blocks, then the prepared last block -/
def cbc (E : Bytes → Bytes) : Nat → Bytes → Bytes → Bytes → Bytes
  | 0, x, _, last => E (xorBytes x last)
  | n + 1, x, msg, last => cbc E n (E (xorBytes x (msg.take 16))) (msg.drop 16) last

/-- CMAC(msg) under block function E -/
def cmac (E : Bytes → Bytes) (msg : Bytes) : Bytes :=
  let k1 := dbl (E zero16)
  let k2 := dbl k1
  let n := (msg.length + 15) / 16
  if msg.length ≠ 0 ∧ msg.length % 16 = 0 then
    cbc E (n - 1) zero16 msg (xorBytes (msg.drop (16 * (n - 1))) k1)
  else
    cbc E (n - 1) zero16 msg (xorBytes (pad (msg.drop (16 * (n - 1)))) k2)

/-- msg with its last 16 bytes xored with `block` (|msg| ≥ 16) -/
def xorEnd (msg block : Bytes) : Bytes :=
  msg.take (msg.length - 16) ++ xorBytes (msg.drop (msg.length - 16)) block

/-- S2V with a single, empty associated-data string (what `EncryptDeterministically(pt, nil)` computes) -/
def s2v (E : Bytes → Bytes) (msg : Bytes) : Bytes :=
  let block := xorBytes (dbl (cmac E zero16)) (cmac E [])
  if msg.length ≥ 16 then cmac E (xorEnd msg block)
  else cmac E (xorBytes (dbl block) (pad msg))

/-- the CTR start value: SIV with bit 63 and bit 31 cleared -/
def ctrIV (siv : Bytes) : Bytes :=
  (List.range 16).map fun i => if i = 8 ∨ i = 12 then siv.getD i 0 &&& 0x7f else siv.getD i 0

/-- 128-bit big-endian counter + i -/
def ctrAdd (iv : Bytes) (i : Nat) : Bytes :=
  let n := (iv.foldl (fun acc x => acc * 256 + x.toNat) 0 + i) % 2 ^ 128
  (List.range 16).map fun j => (n / 256 ^ (15 - j) % 256).toUInt8

/-- key stream: enough whole blocks for `len` bytes -/
def keystream (E : Bytes → Bytes) (iv : Bytes) (len : Nat) : Bytes :=
  (List.range ((len + 15) / 16)).flatMap fun i => E (ctrAdd iv i)

def ctr (E : Bytes → Bytes) (siv : Bytes) (x : Bytes) : Bytes :=
  xorBytes x (keystream E (ctrIV siv) x.length)

/-- `EncryptDeterministically(pt, nil)` for an ARBITRARY tag function and stream block function -/
def encWith (tag : Bytes → Bytes) (E2 : Bytes → Bytes) (pt : Bytes) : Bytes :=
  let v := tag pt
  v ++ ctr E2 v pt

/-- `DecryptDeterministically(ct, nil)` -/
def decWith (tag : Bytes → Bytes) (E2 : Bytes → Bytes) (ct : Bytes) : Option Bytes :=
  if ct.length < 16 then none
  else
    let v := ct.take 16
    let pt := ctr E2 v (ct.drop 16)
    if tag pt = v then some pt else none

def enc (E1 E2 : Bytes → Bytes) (pt : Bytes) : Bytes := encWith (s2v E1) E2 pt
def dec (E1 E2 : Bytes → Bytes) (ct : Bytes) : Option Bytes := decWith (s2v E1) E2 ct

/-- AES-256-SIV under a 64-byte key (round keys computed once per call) -/
def aesEnc (key pt : Bytes) : Bytes :=
  let r1 := Aes.roundKeys (key.take 32)
  let r2 := Aes.roundKeys (key.drop 32)
  enc (Aes.encBlockRK r1) (Aes.encBlockRK r2) pt

def aesDec (key ct : Bytes) : Option Bytes :=
  let r1 := Aes.roundKeys (key.take 32)
  let r2 := Aes.roundKeys (key.drop 32)
  dec (Aes.encBlockRK r1) (Aes.encBlockRK r2) ct

end Anonymongo.Siv
