/-
  Model/Stream.lean — the line loop of src/reader.go (`processMongoLogStream`) over
  bufio.Scanner with the default ScanLines split function and the default 64 KiB token limit,
  with a read-fault position and a write-fault index.
-/
import Anonymongo.Model.JsonText
namespace Anonymongo

/-- longest line (bytes before the `\n`, including a trailing `\r`) bufio.Scanner accepts -/
def maxLine : Nat := 65535

def dropCR (l : Bytes) : Bytes :=
  match l.getLast? with
  | some 13 => l.dropLast
  | _ => l

/-- raw segments between `\n`s; the final unterminated segment only when non-empty -/
def splitNL : Bytes → List Bytes
  | [] => []
  | b :: rest =>
    if b = 10 then [] :: splitNL rest
    else match splitNL rest with
      | [] => [[b]]
      | seg :: more =>
        -- `rest` non-empty here; `seg` is its first segment
        (b :: seg) :: more

/-- tokens delivered by the scanner (CR dropped) up to the first over-long segment -/
def scanTokens : List Bytes → List Bytes × Bool
  | [] => ([], false)
  | seg :: rest =>
    if seg.length > maxLine then ([], true)
    else let (ts, tl) := scanTokens rest; (dropCR seg :: ts, tl)

/-- the input seen so far ends inside a line (non-empty, last byte not a newline) -/
def endsUnterminated (bs : Bytes) : Bool :=
  match bs.getLast? with
  | some b => b != 10
  | none => false

inductive StreamResult where
  | ok | tooLong | readErr | writeErr
  deriving DecidableEq, Repr, Inhabited

/-- emit lines until the `failAt`-th write (0-based) fails; returns bytes written and whether
    the failing write was reached -/
def emitAll (f : Bytes → Option Bytes) (failAt : Option Nat) : List Bytes → Nat → Bytes × Bool
  | [], _ => ([], false)
  | tok :: rest, written =>
    match f tok with
    | none => emitAll f failAt rest written
    | some out =>
      if failAt = some written then ([], true)
      else
        let (more, failed) := emitAll f failAt rest (written + 1)
        (out ++ [10] ++ more, failed)

/-- `processMongoLogStream` with line function `f`, input `bs`, the read failing once
    `readFailAt` bytes have been delivered, and the `writeFailAt`-th write failing. -/
def runStream (f : Bytes → Option Bytes) (bs : Bytes) (readFailAt writeFailAt : Option Nat) :
    Bytes × StreamResult :=
  let (seen, rerr) : Bytes × Bool := match readFailAt with
    | some k => if k ≤ bs.length then (bs.take k, true) else (bs, false)
    | none => (bs, false)
  let (toks0, tooLong) := scanTokens (splitNL seen)
  -- after a read error the remainder behind the last newline may be a line that was cut short:
  -- it is set aside and never processed (the `fix:` of the cut-line defect)
  let toks := if rerr && !tooLong && endsUnterminated seen then toks0.dropLast else toks0
  let (out, wfailed) := emitAll f writeFailAt toks 0
  if wfailed then (out, .writeErr)
  else if tooLong then (out, .tooLong)
  else if rerr then (out, .readErr)
  else (out, .ok)

/-- fault-free processing of a list of lines -/
def processLines (f : Bytes → Option Bytes) (ls : List Bytes) : Bytes :=
  (ls.filterMap f).flatMap (· ++ [10])

end Anonymongo
