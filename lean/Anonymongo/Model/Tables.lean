/-
  Model/Tables.lean — operator classification tables and their lookup functions.
  The table *contents* are regenerated from the running Go binary into
  Generated/Tables.lean; everything here is generic in `Tables`.

  Go anchors: src/operators.go (types), src/anonymizer.go traverseMapPath / getOp / augmentOp,
  src/helpers.go RemoveElementAfter / RemoveElementsBeforeIncluding.
-/
import Anonymongo.Model.Json
namespace Anonymongo

inductive OpT where
  | Pipeline | Exempt | Redactable | FieldName | OperatorArray | OperatorMap | Namespace
  deriving DecidableEq, Repr, Inhabited

inductive Meta where
  | ty (t : OpT)
  | map (kvs : List (Str × Meta))
  | nil
  deriving Inhabited, Repr

abbrev MTable := List (Str × Meta)

structure Tables where
  core : MTable
  agg : MTable
  search : MTable
  searchAgg : MTable
  opMapDefs : MTable
  topSearch : List Str
  isoDate : Str
  objectId : Str
  uuid : Str
  number : Str          -- literal text of RedactedNumber as json.Marshal prints it
  boolean : Bool
  defaultRepl : Str
  emailPH : Str         -- inline literal "redacted@redacted.com" (Facts)
  ipPH : Str            -- inline literal "255.255.255.255:65535" (Facts)
  searchedFields : List Str   -- redactNamespace's key list (Facts)

def Meta.isTy (m : Meta) (t : OpT) : Bool :=
  match m with
  | .ty t' => t' == t
  | _ => false

def isTy? (m : Option Meta) (t : OpT) : Bool :=
  match m with
  | some (.ty t') => t' == t
  | _ => false

/-- Go `RemoveElementAfter` (after the `fix:` that made it non-mutating): drop the element
    that follows the first occurrence of `marker` which is not the last element. -/
def removeElementAfter (marker : Str) : List Str → List Str
  | [] => []
  | [x] => [x]
  | x :: y :: rest =>
    if x = marker then x :: rest else x :: removeElementAfter marker (y :: rest)

/-- Go `RemoveElementsBeforeIncluding`: what follows the first occurrence of `marker`
    that is not the last element; `[]` when there is none. -/
def removeElementsBeforeIncluding (marker : Str) : List Str → List Str
  | [] => []
  | [_] => []
  | x :: y :: rest =>
    if x = marker then y :: rest else removeElementsBeforeIncluding marker (y :: rest)

/-- One pass of the `for i, part := range path` loop of `traverseMapPath`, with `current`
    known to be the table `m`. Result: `Sum.inl r` = the function returns `r`;
    `Sum.inr (newPath, table)` = it re-enters itself on a strictly shorter path. -/
inductive Step where
  | done (r : Option Meta)
  | restart (path : List Str) (table : MTable)
  deriving Inhabited

def traverseLoop (T : Tables) (S : Bool) (full : List Str) : List Str → MTable → Step
  | [], m => .done (some (.map m))
  | part :: rest, m =>
    match lookup part m with
    | none => .done none
    | some val =>
      if !rest.isEmpty && val.isTy .OperatorArray then
        .restart rest (if S then T.search else T.core)
      else if val.isTy .OperatorMap then
        let newPath := removeElementsBeforeIncluding part (removeElementAfter part full)
        match lookup part T.opMapDefs with
        | some (.map om) =>
          if newPath.length < full.length then .restart newPath om else .done (some val)
        | _ => .done (some val)
      else
        match rest, val with
        | [], .nil => .done none
        | [], v => .done (some v)
        | _ :: _, .map m' => traverseLoop T S full rest m'
        | _ :: _, _ => .done none

/-- `traverseMapPath`, with fuel for the self re-entries (each strictly shortens the path,
    so `path.length + 1` always suffices; `none` on exhaustion is never reached — see
    `traverse_fuel_enough` in Lemmas). -/
def traverseFuel (T : Tables) (S : Bool) : Nat → List Str → MTable → Option Meta
  | 0, _, _ => none
  | fuel + 1, path, m =>
    match traverseLoop T S path path m with
    | .done r => r
    | .restart p t => traverseFuel T S fuel p t

def traverse (T : Tables) (S : Bool) (path : List Str) (m : MTable) : Option Meta :=
  traverseFuel T S (path.length + 1) path m

def lastD (xs : List Str) : Str := xs.getLastD []

/-- `getOp`. `none` = `(nil, false)`; `some .nil` = `(nil, true)`. The Go code indexes
    `keyPath[len-1]`; every call site passes a non-empty path (see `Walk`), and for the
    empty path the model answers with the key `""`, which no table contains. -/
def sMoreLikeThis : Str := "moreLikeThis".toList
def sLike : Str := "like".toList

/-- `withinSearchUserDocument` (added by a `fix:`): the last key lies inside the user documents of
    `moreLikeThis.like` — some `moreLikeThis`, `like` pair is followed by at least one more key -/
def withinSearchUserDocument : List Str → Bool
  | a :: b :: c :: rest => (a = sMoreLikeThis && b = sLike) || withinSearchUserDocument (b :: c :: rest)
  | _ => false

def getOp (T : Tables) (kp : List Str) (S : Bool) : Option Meta :=
  if S then
    match traverse T true kp T.searchAgg with
    | some m => some m
    | none => if withinSearchUserDocument kp then none else lookup (lastD kp) T.search
  else
    match lookup (lastD kp) T.core with
    | some m => some m
    | none => traverse T false kp T.agg

/-- the test of `augmentOp` on one table entry: a `FieldName` entry naming a non-empty string of `v` that the expression does not match -/
def nameMismatch (p : Str → Bool) (v : List (Str × J)) (e : Str × Meta) : Bool :=
  e.2.isTy .FieldName &&
    (match lookup e.1 v with
     | some (.str s) => !s.isEmpty && !p s
     | _ => false)

/-- `augmentOp` (selective mode only): when some `FieldName` entry of the operator names a
    non-empty string of `v` that does not match the expression, every `Redactable` entry
    becomes `Exempt`. -/
def augmentOp (re : Option (Str → Bool)) (op : MTable) (v : List (Str × J)) : MTable :=
  match re with
  | none => op
  | some m =>
    if op.any (nameMismatch m v) then
      op.map fun x => if x.2.isTy .Redactable then (x.1, .ty .Exempt) else (x.1, x.2)
    else op

def isInSearchStage (T : Tables) : J → Bool
  | .obj kvs => kvs.any fun (k, _) => T.topSearch.contains k
  | _ => false

end Anonymongo
