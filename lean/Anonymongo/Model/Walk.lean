/-
  Model/Walk.lean — the two recursive walkers of src/anonymizer.go, transliterated:
    P*  = redactPipelineStage (stage walker)       Q = redactQueryValues (query walker)
    A   = redactArrayValuesWithKey (array walker)
  Go maps are rebuilt with `OrderedMap.Set` on a fresh map: `fromPairs` of the produced
  (key, value) list. Key paths are pure lists (faithful since the `fix:` of
  RemoveElementAfter). All functions are structural recursions over the nested type `J`.
-/
import Anonymongo.Model.Scalar
namespace Anonymongo

structure Ctx where
  T : Tables
  cfg : Cfg
  rfn : Bool        -- redactFieldNames for this line ("eager")

namespace Ctx

def H (c : Ctx) (s : Str) : Str := hashName c.cfg.repl s

/-- `isRedactableFieldPatternInArray` -/
def selArr (c : Ctx) (xs : List J) : Bool :=
  match c.cfg.re with
  | none => false
  | some m => xs.any fun x =>
      match x with
      | .str ('$' :: r) => m r
      | _ => false

/-- `isFieldNameValue` (added by a `fix:`): a string or a list of strings -/
def isFieldNameValue : J → Bool
  | .str _ => true
  | .arr xs => xs.all fun x => match x with | .str _ => true | _ => false
  | _ => false

/-- a `"$..."` string met by the query / array walker -/
def dollarString (c : Ctx) (s : Str) : J :=
  if c.rfn && (lookup s c.T.core).isNone then .str (c.H s) else .str s

def scalar (c : Ctx) (kp : List Str) (v : J) (S sel : Bool) : J :=
  redactScalar c.T c.cfg kp v S sel

/-- document form of a namespace argument (`fix:` D17) -/
def nsDoc (c : Ctx) (kvs : List (Str × J)) : List (Str × J) :=
  kvs.map fun (k, v) => match v with
    | .str s => (k, .str (c.H s))
    | _ => (k, v)

/-- the key written for a top-level stage entry -/
def pKey (c : Ctx) (op : Option Meta) (k : Str) : Str :=
  match op with
  | none => if c.rfn then c.H k else k
  | some .nil => if c.rfn then c.H k else k
  | _ => k

def augment (c : Ctx) (S : Bool) (op : Option Meta) (v : J) : Option Meta :=
  match S, op, v with
  | true, some (.map m), .obj vm => some (.map (augmentOp c.cfg.re m vm))
  | _, _, _ => op

/-- operator meta of key `k` as the query walker sees it (parent's sub-table, else the core table) -/
def qOp (c : Ctx) (pc : Option Meta) (k : Str) : Option Meta :=
  match pc with
  | some (.map pm) => lookup k pm
  | _ => lookup k c.T.core

def qKey (c : Ctx) (co : Option Meta) (k : Str) : Str :=
  if c.rfn && co.isNone then c.H k else k

/-- generic scalar handling at the end of redactPipelineStage's loop body -/
def genericScalar (c : Ctx) (S : Bool) (nkp : List Str) (v : J) : J :=
  match v with
  | .str s => if dollarPrefixed s then c.dollarString s else c.scalar nkp v S false
  | _ => c.scalar nkp v S false

def allStrings (xs : List J) : Bool := xs.all fun x => match x with | .str _ => true | _ => false

/-- key written for a sub-entry that takes the generic path -/
def subKey (c : Ctx) (sm : Option Meta) (sk : Str) : Str :=
  match sm with
  | none => if c.rfn then c.H sk else sk
  | some .nil => if c.rfn then c.H sk else sk
  | _ => sk

/-- Go passes `coreOp` on as `parentCoreOp`; a nil value there means "no parent" -/
def qParent (co : Option Meta) : Option Meta :=
  match co with
  | some .nil => none
  | x => x

/-- scalar output of P / FacetVal on a scalar (the array-element path of the D26 `fix:`) -/
def pScalar (c : Ctx) (S : Bool) (kp : List Str) (v : J) : J :=
  match v with
  | .null => .null
  | .str s =>
    if dollarPrefixed s then c.dollarString s
    else c.scalar [[]] (.str s) S (reMatchesAny c.cfg.re kp)
  | v => c.scalar [[]] v S (reMatchesAny c.cfg.re kp)

def sColl : Str := "coll".toList
def sInto : Str := "into".toList

/-- a stage whose argument table names a collection directly (`coll` / `into` typed Namespace):
    its string form `{$out: "c"}` is a namespace (added by a `fix:`) -/
def nsStage (m : MTable) : Bool := isTy? (lookup sColl m) .Namespace || isTy? (lookup sInto m) .Namespace

def pValScalar (c : Ctx) (S : Bool) (kp : List Str) (k : Str) (op : Option Meta) (v : J) : J :=
  match op with
  | some (.map m) =>
    if c.cfg.ns && nsStage m then
      match v with
      | .str s => .str (c.H s)
      | _ => c.genericScalar S (kp ++ [k]) v
    else c.genericScalar S (kp ++ [k]) v
  | some (.ty .FieldName) =>
    if c.rfn then
      match v with
      | .str s =>
        if !kp.isEmpty then v
        else if (getOp c.T [s] S).isSome then v
        else .str (c.H s)
      | _ => c.scalar [k] v S false
    else
      match v with
      | .str _ => v
      | _ => c.genericScalar S (kp ++ [k]) v
  | some (.ty .Namespace) =>
    if c.cfg.ns then
      match v with
      | .str s => .str (c.H s)
      | _ => v
    else v
  | some (.ty .Exempt) => v
  | _ => c.genericScalar S (kp ++ [k]) v

def subValScalar (c : Ctx) (S : Bool) (k : Str) (nkp : List Str) (sk : Str) (sm : Option Meta) (v : J) : J :=
  match sm with
  | some (.ty .FieldName) =>
    (match v with
     | .str s => if c.rfn then (if (getOp c.T [s] S).isSome then v else .str (c.H s)) else v
     | _ => if c.rfn then c.scalar [k] v S false else c.scalar (nkp ++ [sk]) v S false)
  | some (.ty .Namespace) =>
    if c.cfg.ns then
      match v with
      | .str s => .str (c.H s)
      | _ => v
    else v
  | some (.ty .Exempt) => v
  | some (.ty .Pipeline) =>
    (match v with
     | .str _ => v
     | _ => c.scalar (nkp ++ [sk]) v S false)
  | _ =>
    (match v with
     | .str s =>
       if dollarPrefixed s && c.rfn && (lookup s c.T.core).isNone then .str (c.H s)
       else c.scalar (nkp ++ [sk]) v S false
     | _ => c.scalar (nkp ++ [sk]) v S false)

def aElemScalar (c : Ctx) (S : Bool) (pk : Str) (sel : Bool) (kp : List Str) (v : J) : J :=
  match v with
  | .null => .null
  | .str s =>
    if dollarPrefixed s then c.dollarString s
    else c.scalar [pk] (.str s) S (sel || reMatchesAny c.cfg.re kp)
  | v => c.scalar [pk] v S (sel || reMatchesAny c.cfg.re kp)

def qValScalar (c : Ctx) (S : Bool) (co : Option Meta) (nkp : List Str) (v : J) : J :=
  match v with
  | .null => .null
  | .str s =>
    if dollarPrefixed s then c.dollarString s
    else if isTy? co .Exempt then .str s else c.scalar nkp (.str s) S false
  | v => if isTy? co .Exempt then v else c.scalar nkp v S false

mutual

/-- `redactPipelineStage(stage, rfn, keyPath, inSearchStage)` -/
def P (c : Ctx) (S : Bool) (kp : List Str) : J → J
  | .obj kvs => .obj (fromPairs (PEntries c S kp kvs))
  | .arr xs => .arr (A c S [] (c.selArr xs) kp xs)
  | v => c.pScalar S kp v

def PEntries (c : Ctx) (S : Bool) (kp : List Str) : List (Str × J) → List (Str × J)
  | [] => []
  | (k, v) :: rest =>
    let op := getOp c.T (kp ++ [k]) S
    (c.pKey op k, PVal c S kp k (c.augment S op v) v) :: PEntries c S kp rest

/-- value of one stage entry `k : v`; `op` = (augmented) operator meta of `kp ++ [k]`.
    Organised by the kind of `v` first (so that every recursive call is on a child). -/
def PVal (c : Ctx) (S : Bool) (kp : List Str) (k : Str) (op : Option Meta) : J → J
  | .obj kvs =>
    match op with
    | some (.ty .Namespace) => .obj kvs
    | some (.ty .Exempt) => .obj kvs
    | some (.ty .Pipeline) => .obj (fromPairs (FacetEntries c kvs))
    | some (.map m) => .obj (fromPairs (SubEntries c S k (kp ++ [k]) m kvs))
    | _ => .obj (fromPairs (PEntries c S (kp ++ [k]) kvs))      -- FieldName (both modes) and generic
  | .arr xs =>
    match op with
    | some (.ty .FieldName) =>
      if !c.rfn && allStrings xs then .arr xs
      else .arr (A c S [] (c.selArr xs) (kp ++ [k]) xs)
    | some (.ty .Namespace) => .arr xs
    | some (.ty .Exempt) => .arr xs
    | some (.ty .OperatorArray) => .arr (PList c S (kp ++ [k]) xs)
    | _ => .arr (A c S [] (c.selArr xs) (kp ++ [k]) xs)          -- Pipeline and generic
  | v => c.pValScalar S kp k op v

/-- elements of an `OperatorArray` operand: each through `redactPipelineStage(elem, …, nkp, S)` -/
def PList (c : Ctx) (S : Bool) (nkp : List Str) : List J → List J
  | [] => []
  | x :: xs => P c S nkp x :: PList c S nkp xs

/-- the map of sub-pipelines of a `Pipeline`-typed stage (`$facet`, `$rankFusion.input.pipelines`) -/
def FacetEntries (c : Ctx) : List (Str × J) → List (Str × J)
  | [] => []
  | (k, v) :: rest => (k, FacetVal c v) :: FacetEntries c rest

def FacetVal (c : Ctx) : J → J
  | .arr stages => .arr (FacetStages c stages)
  | .obj kvs => .obj (fromPairs (PEntries c (isInSearchStage c.T (.obj kvs)) [] kvs))
  | v => c.pScalar false [] v

def FacetStages (c : Ctx) : List J → List J
  | [] => []
  | st :: rest => P c (isInSearchStage c.T st) [] st :: FacetStages c rest

/-- entries of the argument document of a stage whose meta is a sub-table `m` -/
def SubEntries (c : Ctx) (S : Bool) (k : Str) (nkp : List Str) (m : MTable) : List (Str × J) → List (Str × J)
  | [] => []
  | (sk, sv) :: rest =>
    (c.subKey (lookup sk m) sk, SubVal c S k nkp sk (lookup sk m) sv) :: SubEntries c S k nkp m rest

/-- value of one sub-entry `sk : sv` with sub-meta `sm` -/
def SubVal (c : Ctx) (S : Bool) (k : Str) (nkp : List Str) (sk : Str) (sm : Option Meta) : J → J
  | .obj kvs =>
    match sm with
    | some (.ty .Namespace) => if c.cfg.ns then .obj (fromPairs (c.nsDoc kvs)) else .obj kvs
    | some (.ty .Exempt) => .obj kvs
    | _ => .obj (fromPairs (PEntries c S (nkp ++ [sk]) kvs))    -- FieldName, Pipeline, generic
  | .arr xs =>
    match sm with
    | some (.ty .FieldName) =>
      if !c.rfn && allStrings xs then .arr xs
      else .arr (A c S [] (c.selArr xs) (nkp ++ [sk]) xs)
    | some (.ty .Namespace) => .arr xs
    | some (.ty .Exempt) => .arr xs
    | some (.ty .OperatorArray) => .arr (PList c S nkp xs)
    | some (.ty .Pipeline) => .arr (FacetStages c xs)          -- sub-pipeline: stage walker per stage (`fix:`)
    | _ => .arr (A c S [] (c.selArr xs) (nkp ++ [sk]) xs)
  | v => c.subValScalar S k nkp sk sm v

/-- `redactArrayValuesWithKey(parentKey, arr, rfn, S, sel, keyPath)` -/
def A (c : Ctx) (S : Bool) (pk : Str) (sel : Bool) (kp : List Str) : List J → List J
  | [] => []
  | x :: xs => AElem c S pk sel kp x :: A c S pk sel kp xs

def AElem (c : Ctx) (S : Bool) (pk : Str) (sel : Bool) (kp : List Str) : J → J
  | .obj kvs => .obj (fromPairs (Q c S none kp kvs))
  | .arr ys => .arr (A c S pk sel kp ys)
  | v => c.aElemScalar S pk sel kp v

/-- `redactQueryValues(obj, rfn, S, parentCoreOp, keyPath)`; `pc = none` for `nil` -/
def Q (c : Ctx) (S : Bool) (pc : Option Meta) (kp : List Str) : List (Str × J) → List (Str × J)
  | [] => []
  | (k, v) :: rest =>
    (c.qKey (c.qOp pc k) k, QVal c S (c.qOp pc k) k (kp ++ [k]) v) :: Q c S pc kp rest

def QVal (c : Ctx) (S : Bool) (co : Option Meta) (k : Str) (nkp : List Str) : J → J
  | .obj kvs => .obj (fromPairs (Q c S (qParent co) nkp kvs))
  | .arr xs => .arr (A c S k (c.selArr xs) nkp xs)
  | v => c.qValScalar S co nkp v

end

end Ctx
end Anonymongo
