/-
  Props/C01.lean — PROPERTY C01: sensitive literals never survive (full-redaction mode).

  The claim is decomposed as in DESIGN.md:
   (a) `C01_tables`   : obligation on the REGENERATED tables — the only entries that keep values
                        (Exempt / FieldName / Namespace / Pipeline) are whitelisted operational
                        parameters (Spec/Whitelist.lean, written from the property text);
   (b) `C01_dispatch` : every query-bearing command key opens a redaction zone, in all three command
                        attributes, on every gated line;
   (c) `C01_replaced` : a literal that reaches `redactScalarValue` under a non-exempt path is replaced
                        by a constant that does not depend on it (placeholder mode) or by the
                        ciphertext / the placeholder (encrypt mode) — never emitted as it is;
   (d) `C01_user_doc` : in a query / update / insert document every leaf below user field names is
                        replaced (no table is involved at all);
   (e) independence of the whole output from the replaced literals is C02 (`C02_walk`).
-/
import Anonymongo.Spec.Whitelist
import Anonymongo.Props.C02
import Anonymongo.Lemmas.Idem
import Anonymongo.Lemmas.LineAlg
namespace Anonymongo

/-- **C01 (a)** — kernel-decided over the tables regenerated from the binary -/
theorem C01_tables :
    Spec.tableOK .core Generated.tables.core = true ∧
    Spec.tableOK .agg Generated.tables.agg = true ∧
    Spec.tableOK .search Generated.tables.search = true ∧
    Spec.tableOK .searchAgg Generated.tables.searchAgg = true ∧
    Spec.tableOK .opMapDefs Generated.tables.opMapDefs = true := by
  decide +kernel

/-- **C01 (b)** — dispatch: each zone key of the statement opens a zone (for `documents`: in an
    `insert` command), and the three command attributes are exactly the ones walked -/
theorem C01_dispatch :
    (Spec.zoneKeys.all fun k => match Ctx.zoneState true true k with | .Keep => false | _ => true) = true ∧
    (Spec.zoneKeys.all fun k => match opZone true k with | .Keep => false | _ => true) = true ∧
    (Spec.bulkZoneKeys.all fun k => match opZone true k with | .Keep => false | _ => true) = true ∧
    (Spec.commandAttrs.all fun a => cmdKeys.contains a) = true := by
  decide

/-- **C01 (b')** — operations one level down: the document under `explain` and every element of
    `ops` in a `bulkWrite` are walked as operations of their own (each of their zone keys opens its zone) -/
theorem C01_nested_operations (c : Ctx) (hi : Bool) (op : List (Str × J)) (xs : List J) :
    c.cmdEntry hi true (Spec.S "explain") (.obj op) = .obj (fromPairs (c.redactOperation op)) ∧
    c.cmdEntry hi true (Spec.S "ops") (.arr xs) = .arr (xs.map c.opDoc) ∧
    c.opDoc (.obj op) = .obj (fromPairs (c.redactOperation op)) ∧
    c.redactOperation op = op.map (fun p => (p.1, c.cmdVal (lookup sInsert op).isSome p.1 p.2)) := by
  refine ⟨rfl, rfl, rfl, rfl⟩

/-- the value of a zone key really is walked: objects by the query walker, arrays by the array
    walker / per stage — nothing inside is skipped at the top -/
theorem C01_zone_entry (c : Ctx) (k : Str) (hk : Spec.zoneKeys.contains k = true) (kvs : List (Str × J)) (xs : List J) :
    (k ∈ [Spec.S "query", Spec.S "filter", Spec.S "q", Spec.S "update", Spec.S "u"] →
        c.cmdVal true k (.obj kvs) = .obj (fromPairs (c.Q false none [] kvs))) ∧
    (k ∈ [Spec.S "update", Spec.S "u", Spec.S "updates", Spec.S "deletes", Spec.S "documents", Spec.S "arrayFilters"] →
        c.cmdVal true k (.arr xs) = .arr (c.A false [] false [] xs)) ∧
    (k = Spec.S "pipeline" → c.cmdVal true k (.arr xs) = .arr (c.FacetStages xs)) := by
  refine ⟨?_, ?_, ?_⟩ <;> intro h
  · simp only [List.mem_cons, List.mem_nil_iff, or_false] at h
    rcases h with h | h | h | h | h <;> subst h <;> rfl
  · simp only [List.mem_cons, List.mem_nil_iff, or_false] at h
    rcases h with h | h | h | h | h | h <;> subst h <;> rfl
  · subst h; rfl

/-- the constants a redacted string can become in placeholder mode -/
def placeholderStrings (T : Tables) (cfg : Cfg) : List Str := [T.isoDate, T.objectId, T.uuid, T.emailPH, cfg.repl]

/-- **C01 (c)**, placeholder mode: a string handed to `redactScalarValue` under a path that is not
    kept (not exempt; full-redaction mode) and that is not a `$binary.subType` becomes one of five
    constants — whatever the string is -/
theorem C01_replaced (T : Tables) (cfg : Cfg) (hplain : cfg.enc = none) (hfull : cfg.re = none)
    (kp : List Str) (S sel : Bool) (s : Str)
    (hex : isTy? (getOp T kp S) .Exempt = false)
    (hsub : (lastD kp = sSubType && grandParent kp = sBinary) = false) :
    ∃ p ∈ placeholderStrings T cfg, redactScalar T cfg kp (.str s) S sel = .str p := by
  rw [C05_class T cfg hplain]
  have hk : keptByPath T cfg kp S sel = false := by simp [keptByPath, hex, hfull]
  simp only [hk, Bool.false_eq_true, if_false, classOf, placeholderStrings]
  simp only [Bool.and_eq_false_iff, decide_eq_false_iff_not] at hsub
  by_cases h1 : lastD kp = sDate
  · exact ⟨T.isoDate, by simp, by simp [h1, placeholderOf]⟩
  · by_cases h2 : lastD kp = sOid
    · exact ⟨T.objectId, by simp, by simp [h2, sOid_ne_sDate, placeholderOf]⟩
    · by_cases h3 : (lastD kp = sBase64 && grandParent kp = sBinary) = true
      · exact ⟨T.uuid, by simp, by simp only [h1, h2, h3, if_true, if_false, placeholderOf]⟩
      · have h4 : (lastD kp = sSubType && grandParent kp = sBinary) = false := by
          simp only [Bool.and_eq_false_iff, decide_eq_false_iff_not]; exact hsub
        by_cases h5 : isEmail s = true
        · exact ⟨T.emailPH, by simp, by simp only [h1, h2, h3, h4, h5, if_true, if_false, Bool.false_eq_true, placeholderOf]⟩
        · exact ⟨cfg.repl, by simp, by simp only [h1, h2, h3, h4, h5, if_false, Bool.false_eq_true, placeholderOf]⟩

/-- **C01 (c)**, encrypt mode, fail-closed: the leaf is the ciphertext of the string or a placeholder -/
theorem C01_replaced_enc (T : Tables) (cfg : Cfg) (f : Str → Option Str) (henc : cfg.enc = some f) (hfull : cfg.re = none)
    (kp : List Str) (S sel : Bool) (s : Str)
    (hex : isTy? (getOp T kp S) .Exempt = false)
    (hsub : (lastD kp = sSubType && grandParent kp = sBinary) = false) :
    (∃ ct, f s = some ct ∧ redactScalar T cfg kp (.str s) S sel = .str ct) ∨
    (f s = none ∧ ∃ p ∈ placeholderStrings T cfg, redactScalar T cfg kp (.str s) S sel = .str p) := by
  unfold redactScalar
  simp only [hex, Bool.false_eq_true, if_false, hfull, Option.isSome_none, Bool.and_false, Bool.false_and]
  cases hfs : f s with
  | some ct =>
    left; refine ⟨ct, rfl, ?_⟩
    simp only [hsub, Bool.false_eq_true, if_false, redactByKind, redactString, henc, hfs]
    repeat' split
    all_goals rfl
  | none =>
    right; refine ⟨rfl, ?_⟩
    simp only [hsub, Bool.false_eq_true, if_false, redactByKind, redactString, henc, hfs, placeholderStrings]
    repeat' split
    all_goals simp

/-- numbers and booleans: replaced by the constant exactly when their flag is on -/
theorem C01_numbers_bools (T : Tables) (cfg : Cfg) (hfull : cfg.re = none) (kp : List Str) (S sel : Bool)
    (hex : isTy? (getOp T kp S) .Exempt = false)
    (hsub : (lastD kp = sSubType && grandParent kp = sBinary) = false) (l : Str) (b : Bool) :
    (cfg.nums = true → redactScalar T cfg kp (.num l) S sel = .num T.number) ∧
    (cfg.bools = true → redactScalar T cfg kp (.bool b) S sel = .bool T.boolean) := by
  unfold redactScalar
  simp only [hex, Bool.false_eq_true, if_false, hfull, Option.isSome_none, Bool.and_false, Bool.false_and, hsub, redactByKind]
  exact ⟨fun h => by simp [h], fun h => by simp [h]⟩

/-- with the redactIPs flag a string `attr.remote` becomes the constant placeholder, on every line
    (gated or not), whatever the other flags -/
theorem C01_remote (T : Tables) (cfg : Cfg) (hips : cfg.ips = true) (eager : List Str) (plan : Str → Str → Str) (g : Bool)
    (attr : List (Str × J)) (s : Str) (h : lookup sRemote attr = some (.str s)) :
    lookup sRemote (redactAttr T cfg eager plan g attr) = some (.str T.ipPH) := by
  have hc : cmdKeys.contains sRemote = false := by decide
  have h1 : sRemote ≠ sPlanSummary := by decide
  have h2 : sRemote ≠ sNs := by decide
  unfold redactAttr
  rw [lookup_redactAttrWith, h]
  simp only [Option.map_some, attrFn, hips, hc, h1, h2, decide_true, decide_false, Bool.and_true, Bool.and_false,
    Bool.true_and, if_true, Bool.false_eq_true, if_false]
  cases g <;> simp

end Anonymongo
