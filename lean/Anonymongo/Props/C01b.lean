/-
  Props/C01b.lean — PROPERTY C01 at the level of whole trees.

  `C01_tree`: full-redaction mode, placeholder mode, field-name redaction off.  From every walker
  state, for EVERY tree (any nesting depth, arrays of arrays, any keys): at every scalar leaf the
  output is a pseudonym, the placeholder of the leaf's lexical class, or the input leaf itself — and
  the input leaf itself ONLY for one of these reasons:
     null · a "$…" reference · a number / boolean whose flag is off · the BSON binary subtype ·
     an EXCUSE: a typed entry (Exempt / FieldName / Namespace / Pipeline) of the operator tables at a
     table path that is a SUBSEQUENCE of the keys from the zone root (or stage root) down to the leaf,
     a member of a namespace document, or a position outside the zones;
  and a whole container is copied only with an excuse.
  `C01_tree_whitelisted` instantiates the tables with the ones REGENERATED from the binary: every
  table excuse is then an entry the whitelist of operational parameters allows (`C01_tables`), and
  the empty-key corner of the array walker cannot arise.
-/
import Anonymongo.Lemmas.Audit
import Anonymongo.Lemmas.Prov
import Anonymongo.Lemmas.LeafMode
import Anonymongo.Props.C01
import Anonymongo.Props.C14
namespace Anonymongo
namespace Ctx

def keepTy : OpT → Bool
  | .Exempt => true
  | .FieldName => true
  | .Namespace => true
  | .Pipeline => true
  | _ => false

/-- what the states carry: their operator meta really is a lookup result for their key path -/
def Inv (c : Ctx) : St → Prop
  | .PVal _ kp k op => ProvAt c.T (kp ++ [k]) op
  | .SubVal _ _ nkp sk sm => ProvAt c.T (nkp ++ [sk]) sm
  | .QVal _ co _ nkp => nkp ≠ [] ∧ ProvAt c.T nkp co
  | _ => True

/-- why the walker may copy what is in front of it -/
inductive Excuse (c : Ctx) : St → Prop
  | table (s : St) (tb : Spec.TableId) (p : List Str) (t : OpT) :
      keepTy t = true → (p, t) ∈ Spec.entries [] (tbl c.T tb) → p.Sublist (names s) → Excuse c s
  | emptyKey (s : St) (tb : Spec.TableId) (t : OpT) : ([[]], t) ∈ Spec.entries [] (tbl c.T tb) → Excuse c s
  | nsMember : Excuse c .NsMember
  | zq : Excuse c .ZQ
  | zu : Excuse c .ZU
  | za : Excuse c .ZA
  | zp : Excuse c .ZP
  | zop : Excuse c .ZOp
  | zops : Excuse c .ZOps
  | outside : Excuse c .Keep

inductive MayKeep (c : Ctx) (s : St) : J → Prop
  | null : MayKeep c s .null
  | dollar (x : Str) : dollarPrefixed x = true → MayKeep c s (.str x)
  | numOff (l : Str) : c.cfg.nums = false → MayKeep c s (.num l)
  | boolOff (b : Bool) : c.cfg.bools = false → MayKeep c s (.bool b)
  | subType (a : J) : lastD (names s) = sSubType → grandParent (names s) = sBinary → MayKeep c s a
  | excuse (a : J) : Excuse c s → MayKeep c s a

/-- the key path handed to `redactScalarValue` in a state: the accumulated path, or the parent key
    alone (array walker), or the empty key (stage walker on array elements) -/
def PathOf (s : St) (kp : List Str) : Prop :=
  kp = names s ∨ kp = [[]] ∨ ∃ pk, kp = [pk] ∧ [pk].Sublist (names s)

/-- the verdict on one scalar leaf: a pseudonym, or the placeholder of the leaf's class — the class being judged under the
    key path of THIS position (`PathOf`) —, or the leaf itself with a reason -/
def LeafOK (c : Ctx) (s : St) (a b : J) : Prop :=
  (∃ x, b = .str (c.H x)) ∨
  (∃ kp, PathOf s kp ∧ secretClass c.cfg (classOf kp a) = true ∧ b = placeholderOf c.T c.cfg a (classOf kp a)) ∨
  (b = a ∧ MayKeep c s a)

theorem excuse_of_prov (c : Ctx) (s : St) (t : OpT) (h : ProvAt c.T (names s) (some (.ty t))) (ht : keepTy t = true) :
    Excuse c s := by
  obtain ⟨tb, p, hp, hs⟩ := h
  exact .table s tb p t ht hp hs

/-! ### the invariant is preserved -/

theorem inv_pObj (c : Ctx) (hre : c.cfg.re = none) (S : Bool) (kp : List Str) (k : Str) (x : J) : Inv c (c.pObj S kp k x).2 := by
  simp only [pObj, Inv, augment_none c hre]
  exact getOp_prov c.T (kp ++ [k]) S (by simp)

theorem provAt_sub (T : Tables) (kp : List Str) (m : MTable) (sk : Str) (h : ProvAt T kp (some (.map m))) :
    ProvAt T (kp ++ [sk]) (lookup sk m) := by
  obtain ⟨tb, pre, hr, hs, hsub⟩ := h
  cases hl : lookup sk m with
  | none => trivial
  | some x => exact provAt_lookup T tb pre m sk _ hr hsub (List.Sublist.append hs (List.Sublist.refl _)) x hl

theorem inv_qObj (c : Ctx) (S : Bool) (pc : Option Meta) (kp : List Str) (hpc : ProvAt c.T kp pc) (k : Str) (x : J) :
    Inv c (c.qObj S pc kp k x).2 := by
  simp only [qObj, Inv, qOp]
  refine ⟨by simp, ?_⟩
  split
  · rename_i pm
    exact provAt_sub c.T kp pm k hpc
  · cases hl : lookup k c.T.core with
    | none => trivial
    | some m => exact provAt_lookup c.T .core [] c.T.core k _ (reach_top c.T .core) (.refl _) (by simp) m hl

theorem provAt_qParent (T : Tables) (kp : List Str) (co : Option Meta) (h : ProvAt T kp co) : ProvAt T kp (qParent co) := by
  unfold qParent; split <;> first | trivial | exact h

theorem provAt_none (T : Tables) (kp : List Str) : ProvAt T kp none := by simp [ProvAt]

theorem inv_opZone (c : Ctx) (hi : Bool) (k : Str) : Inv c (opZone hi k) := by
  unfold opZone; repeat' split
  all_goals simp [Inv]

theorem inv_obj (c : Ctx) (hre : c.cfg.re = none) (s : St) (kvs : List (Str × J)) (f : Str → J → Str × St)
    (hi : Inv c s) (hf : c.node s (.obj kvs) = .obj f) : ∀ k x, Inv c (f k x).2 := by
  intro k x
  cases s <;> simp only [node] at hf <;> (try (repeat' split at hf)) <;> cases hf <;>
    first
    | exact inv_pObj c hre _ _ k x
    | exact inv_qObj c _ _ _ (provAt_none _ _) k x
    | trivial
    | skip
  all_goals first
    | (simp only [Inv] at hi ⊢; exact provAt_sub c.T _ _ k hi)
    | (simp only [Inv] at hi; exact inv_qObj c _ _ _ (provAt_qParent c.T _ _ hi.2) k x)
    | exact inv_opZone c _ k

theorem inv_arr (c : Ctx) (s : St) (xs : List J) (s' : St) (hf : c.node s (.arr xs) = .arr s') : Inv c s' := by
  cases s <;> simp only [node] at hf <;> (try (repeat' split at hf)) <;> cases hf <;> trivial

/-! ### a copied container has an excuse -/

theorem keep_obj (c : Ctx) (s : St) (kvs : List (Str × J)) (hi : Inv c s) (h : c.node s (.obj kvs) = .keep) : Excuse c s := by
  cases s <;> simp only [node] at h <;> (try (repeat' split at h)) <;> (try cases h) <;>
    first
    | exact .outside
    | exact .nsMember
    | exact .zq
    | exact .zu
    | exact .za
    | exact .zp
    | exact .zop
    | exact .zops
    | (simp only [Inv] at hi; exact excuse_of_prov c _ _ hi (by decide))

theorem keep_arr (c : Ctx) (s : St) (xs : List J) (hi : Inv c s) (h : c.node s (.arr xs) = .keep) : Excuse c s := by
  cases s <;> simp only [node] at h <;> (try (repeat' split at h)) <;> (try cases h) <;>
    first
    | exact .outside
    | exact .nsMember
    | exact .zq
    | exact .zu
    | exact .za
    | exact .zp
    | exact .zop
    | exact .zops
    | (simp only [Inv] at hi; exact excuse_of_prov c _ _ hi (by decide))

/-! ### scalar leaves -/

theorem entries_ne_nil : ∀ (m : MTable) (pre p : List Str) (t : OpT), (p, t) ∈ Spec.entries pre m → pre.length < p.length
  | [], _, _, _, h => by simp [Spec.entries] at h
  | (k, .ty t') :: rest, pre, p, t, h => by
    simp only [Spec.entries, Spec.entriesMeta, List.mem_append, List.mem_singleton, Prod.mk.injEq] at h
    rcases h with ⟨h, _⟩ | h
    · subst h; simp
    · exact entries_ne_nil rest pre p t h
  | (k, .nil) :: rest, pre, p, t, h => by
    simp only [Spec.entries, Spec.entriesMeta, List.nil_append] at h
    exact entries_ne_nil rest pre p t h
  | (k, .map m') :: rest, pre, p, t, h => by
    simp only [Spec.entries, Spec.entriesMeta, List.mem_append] at h
    rcases h with h | h
    · have := entries_ne_nil m' (pre ++ [k]) p t h
      simp only [List.length_append, List.length_singleton] at this; omega
    · exact entries_ne_nil rest pre p t h

theorem grandParent_single (x : Str) : grandParent [x] ≠ sBinary := by
  simp [grandParent, sBinary]

theorem scalar_ok (c : Ctx) (hre : c.cfg.re = none) (hplain : c.cfg.enc = none) (s : St) (a : J) (ha : a.isScalar = true)
    (kp : List Str) (S sel : Bool) (hne : kp ≠ []) (hkp : PathOf s kp) : LeafOK c s a (c.scalar kp a S sel) := by
  unfold scalar
  rw [C05_class c.T c.cfg hplain]
  have hkept : keptByPath c.T c.cfg kp S sel = isTy? (getOp c.T kp S) .Exempt := by simp [keptByPath, hre]
  rw [hkept]
  by_cases hex : isTy? (getOp c.T kp S) .Exempt = true
  · -- handed back because of the key path: a table entry typed Exempt along the path
    simp only [hex, if_true]
    right; right; refine ⟨rfl, .excuse a ?_⟩
    have hp := getOp_prov c.T kp S hne
    have hop : getOp c.T kp S = some (.ty .Exempt) := by
      cases hg : getOp c.T kp S with
      | none => simp [hg, isTy?] at hex
      | some m => cases m with
        | ty t => simp [hg, isTy?] at hex; rw [hex]
        | map _ => simp [hg, isTy?] at hex
        | nil => simp [hg, isTy?] at hex
    rw [hop] at hp
    obtain ⟨tb, p, hmem, hsub⟩ := hp
    rcases hkp with rfl | rfl | ⟨pk, rfl, hpk⟩
    · exact .table s tb p _ (by decide) hmem hsub
    · have hl := entries_ne_nil _ [] p _ hmem
      have : p = [[]] := by
        have h2 := hsub.length_le
        cases p with
        | nil => simp at hl
        | cons x r =>
          cases r with
          | nil => simpa using hsub
          | cons y r' => simp at h2
      subst this
      exact .emptyKey s tb _ hmem
    · exact .table s tb p _ (by decide) hmem (hsub.trans hpk)
  · simp only [hex, Bool.false_eq_true, if_false]
    by_cases hsec : secretClass c.cfg (classOf kp a) = true
    · right; left; exact ⟨kp, hkp, hsec, rfl⟩
    · right; right
      have hsub : ∀ x, kp = [x] → ¬ (lastD kp = sSubType ∧ grandParent kp = sBinary) := by
        intro x hx h; subst hx; exact grandParent_single x h.2
      have hst : (lastD kp = sSubType ∧ grandParent kp = sBinary) → MayKeep c s a := by
        intro h
        rcases hkp with rfl | rfl | ⟨pk, rfl, _⟩
        · exact .subType a h.1 h.2
        · exact absurd h (hsub _ rfl)
        · exact absurd h (hsub _ rfl)
      cases a with
      | obj _ => simp [J.isScalar] at ha
      | arr _ => simp [J.isScalar] at ha
      | null =>
        refine ⟨?_, .null⟩
        simp only [classOf]; split <;> rfl
      | str x =>
        simp only [classOf] at hsec ⊢
        repeat' split at hsec
        all_goals simp [secretClass] at hsec
        rename_i h1 h2 h3 h4
        simp only [h1, h2, h3, h4, if_false, if_true, placeholderOf, Bool.false_eq_true]
        simp only [Bool.and_eq_true, decide_eq_true_eq] at h4
        exact ⟨trivial, hst h4⟩
      | num l =>
        simp only [classOf] at hsec ⊢
        split at hsec
        · rename_i h4
          simp only [h4, if_true, placeholderOf]
          simp only [Bool.and_eq_true, decide_eq_true_eq] at h4
          exact ⟨trivial, hst h4⟩
        · rename_i h4
          simp only [secretClass, Bool.not_eq_true] at hsec
          simp only [h4, Bool.false_eq_true, if_false, placeholderOf, hsec]
          exact ⟨trivial, .numOff l hsec⟩
      | bool v =>
        simp only [classOf] at hsec ⊢
        split at hsec
        · rename_i h4
          simp only [h4, if_true, placeholderOf]
          simp only [Bool.and_eq_true, decide_eq_true_eq] at h4
          exact ⟨trivial, hst h4⟩
        · rename_i h4
          simp only [secretClass, Bool.not_eq_true] at hsec
          simp only [h4, Bool.false_eq_true, if_false, placeholderOf, hsec]
          exact ⟨trivial, .boolOff v hsec⟩

/-- a scalar the walker copies without consulting `redactScalarValue` -/
theorem keep_mode (c : Ctx) (hrfn : c.rfn = false) (s : St) (hi : Inv c s) (a : J) (ha : a.isScalar = true)
    (hm : c.leafMode s a = .keep) : MayKeep c s a := by
  cases s with
  | P S kp =>
    cases a <;> simp only [leafMode, pScalarMode] at hm <;> (try split at hm) <;> (try cases hm) <;>
      first | exact .null | (rename_i h; exact .dollar _ h)
  | Facet =>
    cases a <;> simp only [leafMode, pScalarMode] at hm <;> (try split at hm) <;> (try cases hm) <;>
      first | exact .null | (rename_i h; exact .dollar _ h)
  | FacetStage =>
    cases a <;> simp only [leafMode, pScalarMode] at hm <;> (try split at hm) <;> (try cases hm) <;>
      first | exact .null | (rename_i h; exact .dollar _ h)
  | AElem S pk sel kp =>
    cases a <;> simp only [leafMode, aElemScalarMode] at hm <;> (try split at hm) <;> (try cases hm) <;>
      first | exact .null | (rename_i h; exact .dollar _ h)
  | QVal S co k nkp =>
    simp only [Inv] at hi
    have hex : isTy? co .Exempt = true → Excuse c (.QVal S co k nkp) := by
      intro h
      cases co with
      | none => simp [isTy?] at h
      | some m => cases m with
        | ty t => simp [isTy?] at h; subst h; exact excuse_of_prov c _ _ hi.2 (by decide)
        | map _ => simp [isTy?] at h
        | nil => simp [isTy?] at h
    cases a <;> simp only [leafMode, qValScalarMode] at hm <;> (try (repeat' split at hm)) <;> (try cases hm) <;>
      first
      | exact .null
      | (rename_i h; exact .dollar _ h)
      | (rename_i h; exact .excuse _ (hex h))
      | (rename_i _ h; exact .excuse _ (hex h))
  | PVal S kp k op =>
    simp only [Inv] at hi
    simp only [leafMode, pValScalarMode] at hm
    have gen : ∀ nkp, c.genericMode S nkp a = .keep → MayKeep c (.PVal S kp k op) a := by
      intro nkp h
      cases a <;> simp only [genericMode] at h <;> (try split at h) <;> (try cases h)
      rename_i h'; exact .dollar _ h'
    have nsm : ∀ t, keepTy t = true → op = some (.ty t) → MayKeep c (.PVal S kp k op) a := by
      intro t ht ho; subst ho; exact .excuse _ (excuse_of_prov c _ _ hi ht)
    split at hm
    · split at hm
      · cases a <;> simp only [] at hm <;> first | cases hm | exact gen _ hm
      · exact gen _ hm
    · simp only [hrfn, Bool.false_eq_true, if_false] at hm
      exact nsm .FieldName (by decide) rfl
    · exact nsm .Namespace (by decide) rfl
    · exact nsm .Exempt (by decide) rfl
    · exact gen _ hm
  | SubVal S k nkp sk sm =>
    simp only [Inv] at hi
    simp only [leafMode, subValScalarMode] at hm
    have nsm : ∀ t, keepTy t = true → sm = some (.ty t) → MayKeep c (.SubVal S k nkp sk sm) a := by
      intro t ht ho; subst ho; exact .excuse _ (excuse_of_prov c _ _ hi ht)
    split at hm
    · exact nsm .FieldName (by decide) rfl
    · exact nsm .Namespace (by decide) rfl
    · exact nsm .Exempt (by decide) rfl
    · exact nsm .Pipeline (by decide) rfl
    · cases a <;> simp only [hrfn, Bool.and_false, Bool.false_and, Bool.false_eq_true, if_false] at hm <;> cases hm
  | NsMember => exact .excuse _ .nsMember
  | ZQ => exact .excuse _ .zq
  | ZU => exact .excuse _ .zu
  | ZA => exact .excuse _ .za
  | ZP => exact .excuse _ .zp
  | ZOp => exact .excuse _ .zop
  | ZOps => exact .excuse _ .zops
  | Keep => exact .excuse _ .outside

/-- the path under which a scalar is handed to `redactScalarValue` -/
theorem scalar_mode_path (c : Ctx) (hrfn : c.rfn = false) (s : St) (hi : Inv c s) (a : J) (kp : List Str) (S sel : Bool)
    (hm : c.leafMode s a = .scalar kp S sel) : kp ≠ [] ∧ PathOf s kp := by
  have gen : ∀ S' nkp, c.genericMode S' nkp a = .scalar kp S sel → kp = nkp := by
    intro S' nkp h
    cases a <;> simp only [genericMode] at h <;> (try split at h) <;> (try simp only [dollarMode] at h) <;>
      (try split at h) <;> (try cases h) <;> rfl
  have psc : ∀ S' kp', c.pScalarMode S' kp' a = .scalar kp S sel → kp = [[]] := by
    intro S' kp' h
    cases a <;> simp only [pScalarMode] at h <;> (try split at h) <;> (try simp only [dollarMode] at h) <;>
      (try split at h) <;> (try cases h) <;> rfl
  cases s with
  | P S0 kp0 => have := psc _ _ (by simpa [leafMode] using hm); subst this; exact ⟨by simp, Or.inr (Or.inl rfl)⟩
  | Facet => have := psc _ _ (by simpa [leafMode] using hm); subst this; exact ⟨by simp, Or.inr (Or.inl rfl)⟩
  | FacetStage => have := psc _ _ (by simpa [leafMode] using hm); subst this; exact ⟨by simp, Or.inr (Or.inl rfl)⟩
  | AElem S0 pk sel0 kp0 =>
    have : kp = [pk] := by
      simp only [leafMode] at hm
      cases a <;> simp only [aElemScalarMode] at hm <;> (try split at hm) <;> (try simp only [dollarMode] at hm) <;>
        (try split at hm) <;> (try cases hm) <;> rfl
    subst this
    exact ⟨by simp, Or.inr (Or.inr ⟨pk, rfl, by simp [names]⟩)⟩
  | QVal S0 co k nkp =>
    simp only [Inv] at hi
    have : kp = nkp := by
      simp only [leafMode] at hm
      cases a <;> simp only [qValScalarMode] at hm <;> (try (repeat' split at hm)) <;> (try simp only [dollarMode] at hm) <;>
        (try split at hm) <;> (try cases hm) <;> rfl
    subst this
    exact ⟨hi.1, Or.inl rfl⟩
  | PVal S0 kp0 k op =>
    have : kp = kp0 ++ [k] := by
      simp only [leafMode, pValScalarMode] at hm
      split at hm
      · split at hm
        · cases a <;> simp only [] at hm <;> first | (cases hm <;> rfl) | exact gen _ _ hm
        · exact gen _ _ hm
      · simp only [hrfn, Bool.false_eq_true, if_false] at hm
        cases a <;> simp only [] at hm <;> first | (cases hm <;> rfl) | exact gen _ _ hm
      · cases a <;> simp only [nsMode] at hm <;> (try split at hm) <;> cases hm
      · cases hm
      · exact gen _ _ hm
    subst this
    exact ⟨by simp, Or.inl rfl⟩
  | SubVal S0 k nkp sk sm =>
    have : kp = nkp ++ [sk] := by
      simp only [leafMode, subValScalarMode] at hm
      split at hm
      · cases a <;> simp only [hrfn, Bool.false_eq_true, if_false] at hm <;> (try cases hm) <;> rfl
      · cases a <;> simp only [nsMode] at hm <;> (try split at hm) <;> cases hm
      · cases hm
      · cases a <;> simp only [] at hm <;> (try cases hm) <;> rfl
      · cases a <;> simp only [hrfn, Bool.and_false, Bool.false_and, Bool.false_eq_true, if_false] at hm <;> (try cases hm) <;> rfl
    subst this
    exact ⟨by simp, Or.inl rfl⟩
  | NsMember => cases a <;> simp [leafMode] at hm
  | ZQ => simp [leafMode] at hm
  | ZU => simp [leafMode] at hm
  | ZA => simp [leafMode] at hm
  | ZP => simp [leafMode] at hm
  | ZOp => simp [leafMode] at hm
  | ZOps => simp [leafMode] at hm
  | Keep => simp [leafMode] at hm

/-- **every scalar leaf gets the verdict** -/
theorem leafOK_run (c : Ctx) (hre : c.cfg.re = none) (hrfn : c.rfn = false) (hplain : c.cfg.enc = none)
    (s : St) (a : J) (hi : Inv c s) (ha : a.isScalar = true) : LeafOK c s a (c.run s a) := by
  rw [run_scalar c s a ha]
  cases hm : c.leafMode s a with
  | hash x => exact Or.inl ⟨x, rfl⟩
  | keep => exact Or.inr (Or.inr ⟨rfl, keep_mode c hrfn s hi a ha hm⟩)
  | scalar kp S sel =>
    have ⟨hne, hp⟩ := scalar_mode_path c hrfn s hi a kp S sel hm
    exact scalar_ok c hre hplain s a ha kp S sel hne hp

end Ctx

/-- **C01, whole trees**: full-redaction mode (`re = none`), placeholder mode, field-name redaction off
    (any of --redactNumbers / --redactBooleans / --redactNamespaces, any replacement text), ANY operator
    tables.  From every walker state whose operator meta is a genuine lookup result (`Inv`; every zone
    state is), for every tree without duplicate sibling keys: every scalar leaf gets `LeafOK` and every
    container copied as a whole has an `Excuse`. -/
theorem C01_tree (c : Ctx) (hre : c.cfg.re = none) (hrfn : c.rfn = false) (hplain : c.cfg.enc = none)
    (s : St) (hi : c.Inv s) (v : J) (hn : v.nodup = true) :
    c.Aud (c.LeafOK) (fun s _ => c.Excuse s) s v (c.run s v) :=
  Ctx.aud_run c hrfn c.Inv
    (fun s kvs f hi hf => Ctx.inv_obj c hre s kvs f hi hf)
    (fun s xs s' _ hf => Ctx.inv_arr c s xs s' hf)
    c.LeafOK (fun s a hi ha => Ctx.leafOK_run c hre hrfn hplain s a hi ha)
    (fun s _ => c.Excuse s)
    (fun s kvs hi h => Ctx.keep_obj c s kvs hi h)
    (fun s xs hi h => Ctx.keep_arr c s xs hi h)
    s v hi hn

/-- every zone a command key opens starts in a state that satisfies the invariant -/
theorem C01_zone_inv (c : Ctx) (hi hb : Bool) (k : Str) : c.Inv (Ctx.zoneState hi hb k) := by
  unfold Ctx.zoneState
  split
  · trivial
  · split
    · trivial
    · exact Ctx.inv_opZone c hi k

/-! ### with the tables regenerated from the binary -/

/-- no regenerated table has an entry under the empty key (so the array walker's empty parent key
    can never pick up a classification) — kernel-decided -/
theorem Gen_no_empty_key :
    ∀ tb : Spec.TableId, ((Spec.entries [] (tbl Generated.tables tb)).all fun e => e.1 != [[]]) = true := by
  intro tb; cases tb <;> decide +kernel

theorem Gen_allowed (tb : Spec.TableId) (p : List Str) (t : OpT)
    (h : (p, t) ∈ Spec.entries [] (tbl Generated.tables tb)) : Spec.allowed tb p t = true := by
  have hall : Spec.tableOK tb (tbl Generated.tables tb) = true := by
    have := C01_tables
    cases tb
    · exact this.1
    · exact this.2.1
    · exact this.2.2.1
    · exact this.2.2.2.1
    · exact this.2.2.2.2
  unfold Spec.tableOK at hall
  rw [List.all_eq_true] at hall
  exact hall (p, t) h

/-- what an excuse amounts to for the real tables -/
inductive Whitelisted (s : St) : Prop
  | param (tb : Spec.TableId) (p : List Str) (t : OpT) :
      Ctx.keepTy t = true → Spec.allowed tb p t = true → p.Sublist (Ctx.names s) → Whitelisted s
  | nsMember : s = .NsMember → Whitelisted s
  | notInZone : (s = .ZQ ∨ s = .ZU ∨ s = .ZA ∨ s = .ZP ∨ s = .ZOp ∨ s = .ZOps ∨ s = .Keep) → Whitelisted s

theorem excuse_whitelisted (c : Ctx) (hT : c.T = Generated.tables) (s : St) (h : c.Excuse s) : Whitelisted s := by
  cases h with
  | table _ tb p t ht hmem hsub => rw [hT] at hmem; exact .param tb p t ht (Gen_allowed tb p t hmem) hsub
  | emptyKey _ tb t hmem =>
    rw [hT] at hmem
    have := Gen_no_empty_key tb
    rw [List.all_eq_true] at this
    have := this _ hmem
    simp at this
  | nsMember => exact .nsMember rfl
  | zq => exact .notInZone (by simp)
  | zu => exact .notInZone (by simp)
  | za => exact .notInZone (by simp)
  | zp => exact .notInZone (by simp)
  | zop => exact .notInZone (by simp)
  | zops => exact .notInZone (by simp)
  | outside => exact .notInZone (by simp)

/-- **C01, whole trees, real tables**: as `C01_tree`, and every excuse is a whitelisted operational
    parameter on the leaf's own key path (or a namespace-document member / a position outside the zones) -/
theorem C01_tree_whitelisted (c : Ctx) (hT : c.T = Generated.tables) (hre : c.cfg.re = none) (hrfn : c.rfn = false)
    (hplain : c.cfg.enc = none) (s : St) (hi : c.Inv s) (v : J) (hn : v.nodup = true) :
    c.Aud (c.LeafOK) (fun s _ => c.Excuse s) s v (c.run s v) ∧ (∀ s', c.Excuse s' → Whitelisted s') :=
  ⟨C01_tree c hre hrfn hplain s hi v hn, fun s' h => excuse_whitelisted c hT s' h⟩

/-- non-vacuity / worked instance: in `{$match: {name: "S", n: {$gt: 5}}}, {$limit: 10}` the string is replaced,
    the number is kept (flag off) and `$limit`'s argument is kept under the whitelisted entry `$limit` -/
example : let c : Ctx := ⟨Generated.tables, ⟨"R".toList, false, false, false, false, none, none⟩, false⟩
    J.beq (c.run .ZP (.arr [.obj [("$match".toList, .obj [("name".toList, .str "S".toList), ("n".toList, .obj [("$gt".toList, .num "5".toList)])])],
                             .obj [("$limit".toList, .num "10".toList)]]))
      (.arr [.obj [("$match".toList, .obj [("name".toList, .str "R".toList), ("n".toList, .obj [("$gt".toList, .num "5".toList)])])],
             .obj [("$limit".toList, .num "10".toList)]]) = true ∧
    Spec.allowed .agg ["$limit".toList] .Exempt = true := by
  decide +kernel

end Anonymongo
