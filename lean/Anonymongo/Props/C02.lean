/-
  Props/C02.lean — PROPERTY C02: non-interference (placeholder mode, full-redaction mode).

  Two inputs that differ only in the contents of sensitive literals, each literal keeping its
  lexical class, produce the same output.  "Sensitive literal" = a scalar that the walker hands
  to `redactScalarValue` under a key path that is not exempt (`leafMode = scalar kp ..` with
  `keptByPath = false`); "same lexical class" = `classOf kp` agrees (value under $date / $oid /
  $binary.base64, e-mail-shaped string, ordinary string; any two numbers when --redactNumbers;
  any two booleans when --redactBooleans).  Everything else — keys, array lengths, kept leaves,
  `$field` references, numbers/booleans when their flag is off — must be equal.
  Which positions are sensitive is what C01 is about; C02 says the output does not depend on them.
-/
import Anonymongo.Lemmas.Rel
import Anonymongo.Lemmas.LeafMode
import Anonymongo.Props.C05
namespace Anonymongo
namespace Ctx

/-- the leaf relation of C02 -/
def LeafRel (c : Ctx) (s : St) (a b : J) : Prop :=
  a = b ∨
  (b.isScalar = true ∧ ∃ kp S sel,
    c.leafMode s a = .scalar kp S sel ∧ c.leafMode s b = .scalar kp S sel ∧
    keptByPath c.T c.cfg kp S sel = false ∧
    classOf kp a = classOf kp b ∧ secretClass c.cfg (classOf kp a) = true)

theorem kind_of_class (kp : List Str) (a b : J) (ha : a.isScalar = true) (hb : b.isScalar = true)
    (h : classOf kp a = classOf kp b) (hs : ∀ cfg : Cfg, secretClass cfg (classOf kp a) = true → True)
    (hsec : ∃ cfg : Cfg, secretClass cfg (classOf kp a) = true) : kindOf a = kindOf b := by
  obtain ⟨cfg, hsec⟩ := hsec
  cases a <;> cases b <;> simp only [J.isScalar, Bool.false_eq_true] at ha hb <;> simp only [kindOf] <;>
    (simp only [classOf] at h hsec; repeat' split at h) <;> simp_all [secretClass]

theorem placeholder_of_secret (T : Tables) (cfg : Cfg) (a b : J) (cl : LeafClass) (h : secretClass cfg cl = true) :
    placeholderOf T cfg a cl = placeholderOf T cfg b cl := by
  cases cl <;> simp_all [secretClass, placeholderOf]

/-- related leaves give the same output -/
theorem leafSim (c : Ctx) (hplain : c.cfg.enc = none) : LeafSim c c.LeafRel where
  scalar := by
    intro s a b ha h
    rcases h with h | ⟨hb, kp, S, sel, m1, m2, hk, hc, hsec⟩
    · subst h; exact ⟨ha, rfl, rfl⟩
    · refine ⟨hb, kind_of_class kp a b ha hb hc (fun _ _ => trivial) ⟨c.cfg, hsec⟩, ?_⟩
      rw [run_scalar c s a ha, run_scalar c s b hb, m1, m2]
      simp only [applyMode_scalar, scalar]
      rw [C05_class c.T c.cfg hplain kp a S sel, C05_class c.T c.cfg hplain kp b S sel, hk]
      simp only [Bool.false_eq_true, if_false]
      rw [← hc]
      exact placeholder_of_secret c.T c.cfg a b _ hsec

end Ctx

/-- **C02 (walker level)**: in placeholder mode and full-redaction mode, from every walker state,
    two trees related by `RelAt LeafRel` (same structure, same kept parts, sensitive leaves of the
    same class) are redacted to the same tree. -/
theorem C02_walk (c : Ctx) (hplain : c.cfg.enc = none) (hfull : c.cfg.re = none) (s : St) (a b : J)
    (h : c.RelAt c.LeafRel s a b) : c.run s a = c.run s b :=
  (Ctx.run_rel c hfull c.LeafRel (c.leafSim hplain) s a b h).1

/-- two command documents are related when they have the same keys, the values of the zone keys
    are related in the zone's start state, and everything else is equal -/
def CmdRel (c : Ctx) (hasInsert hasBulk : Bool) : List (Str × J) → List (Str × J) → Prop
  | [], b => b = []
  | (k, v) :: rest, b => ∃ v' rest', b = (k, v') :: rest' ∧
      c.RelAt c.LeafRel (Ctx.zoneState hasInsert hasBulk k) v v' ∧ CmdRel c hasInsert hasBulk rest rest'

theorem CmdRel_keys (c : Ctx) (hi hb : Bool) : ∀ a b, CmdRel c hi hb a b → keysOf a = keysOf b
  | [], b, h => by simp [CmdRel] at h; simp [h]
  | (k, v) :: rest, b, h => by
    simp only [CmdRel] at h
    obtain ⟨v', rest', e, _, hr⟩ := h
    subst e; simp [keysOf_cons, CmdRel_keys c hi hb rest rest' hr]

theorem redactCommandA_rel (c : Ctx) (hplain : c.cfg.enc = none) (hfull : c.cfg.re = none) (hi hb : Bool) :
    ∀ a b, CmdRel c hi hb a b →
      (a.map fun p => (p.1, c.run (Ctx.zoneState hi hb p.1) p.2)) = (b.map fun p => (p.1, c.run (Ctx.zoneState hi hb p.1) p.2))
  | [], b, h => by simp [CmdRel] at h; simp [h]
  | (k, v) :: rest, b, h => by
    simp only [CmdRel] at h
    obtain ⟨v', rest', e, h1, hr⟩ := h
    subst e
    simp [C02_walk c hplain hfull _ v v' h1, redactCommandA_rel c hplain hfull hi hb rest rest' hr]

/-- **C02 (command level)**: related command documents are redacted to the same document
    (query / update / delete / insert / pipeline zones, the operation wrapped by explain and the operations of bulkWrite; with or without --redactNamespaces) -/
theorem C02_command (c : Ctx) (hplain : c.cfg.enc = none) (hfull : c.cfg.re = none) (a b : List (Str × J))
    (h : CmdRel c (lookup sInsert a).isSome (lookup sBulkWrite a).isSome a b) : c.cmdDoc (.obj a) = c.cmdDoc (.obj b) := by
  rw [← Ctx.cmdDoc_refine, ← Ctx.cmdDoc_refine]
  have hk := CmdRel_keys c _ _ a b h
  have hi : (lookup sInsert a).isSome = (lookup sInsert b).isSome := Ctx.lookup_isSome_keys _ a b hk
  have hb : (lookup sBulkWrite a).isSome = (lookup sBulkWrite b).isSome := Ctx.lookup_isSome_keys _ a b hk
  have := redactCommandA_rel c hplain hfull _ _ a b h
  simp only [Ctx.cmdDocA, Ctx.redactCommandA, ← hi, ← hb, this]

/-- non-vacuity: in a `filter`, two different ordinary strings under a user field are related,
    so are an ISO date and anything else under `$date`; with the flag off two numbers are not. -/
example : let c : Ctx := ⟨Generated.tables, ⟨"R".toList, false, false, false, false, none, none⟩, false⟩
    c.RelAt c.LeafRel .ZQ
      (.obj [("name".toList, .str "alice".toList), ("d".toList, .obj [("$date".toList, .str "2020".toList)])])
      (.obj [("name".toList, .str "bob-the-builder".toList), ("d".toList, .obj [("$date".toList, .str "x@y.zz".toList)])]) := by
  intro c
  refine ⟨_, rfl, _, _, rfl, ?_, _, _, rfl, ?_, rfl⟩
  · right
    refine ⟨rfl, ["name".toList], false, false, rfl, rfl, by decide +kernel, by decide +kernel, by decide +kernel⟩
  · refine ⟨_, rfl, _, _, rfl, ?_, rfl⟩
    right
    refine ⟨rfl, ["d".toList, "$date".toList], false, false, rfl, rfl, by decide +kernel, by decide +kernel, by decide +kernel⟩

end Anonymongo
