/-
  Props/C02b.lean — PROPERTY C02 in EVERY placeholder-mode configuration, selective mode
  (`--redactFieldsRegexp`, any predicate on names) included: two trees related by `RelAt LeafRel` — same
  structure, equal wherever the walker copies, leaves of the same lexical class wherever it redacts — are
  redacted to the same tree.  (Props/C02.lean proves this for full-redaction mode; the general theorem is
  Lemmas/RelSel.lean `run_rel_sel`.)  The tables must not hold a key twice: kernel-decided for the
  regenerated tables.
-/
import Anonymongo.Lemmas.RelSel
import Anonymongo.Props.C02
namespace Anonymongo
namespace Ctx

/-- a `$field` string met as an array element is never handed to `redactScalarValue` -/
theorem aElem_dollar_not_scalar (c : Ctx) (S : Bool) (pk : Str) (sel : Bool) (kp : List Str) (x : J) (h : isDollar x = true)
    (kp' : List Str) (S' sel' : Bool) : c.leafMode (.AElem S pk sel kp) x ≠ .scalar kp' S' sel' := by
  cases x with
  | str s =>
    cases s with
    | nil => simp [isDollar] at h
    | cons ch r =>
      have hc : ch = '$' := by by_cases e : ch = '$' <;> simp_all [isDollar]
      subst hc
      simp only [leafMode, aElemScalarMode, dollarPrefixed, if_true, dollarMode]
      split <;> simp
  | _ => simp [isDollar] at h

/-- a string under a `FieldName`-typed sub-key is copied (field-name redaction off): never handed to `redactScalarValue` -/
theorem fieldName_str_not_scalar (c : Ctx) (hrfn : c.rfn = false) (S : Bool) (k : Str) (nkp : List Str) (sk : Str) (x : J)
    (h : isStrJ x = true) (kp' : List Str) (S' sel' : Bool) :
    c.leafMode (.SubVal S k nkp sk (some (.ty .FieldName))) x ≠ .scalar kp' S' sel' := by
  cases x <;> simp_all [isStrJ, leafMode, subValScalarMode]

theorem leafSimSel (c : Ctx) (hplain : c.cfg.enc = none) (hrfn : c.rfn = false) : LeafSimSel c c.LeafRel where
  toLeafSim := c.leafSim hplain
  elemDollar := by
    intro S pk sel kp a b _ h hd
    rcases h with h | ⟨_, kp', S', sel', m1, m2, _⟩
    · exact h
    · rcases hd with hd | hd
      · exact absurd m1 (aElem_dollar_not_scalar c S pk sel kp a hd kp' S' sel')
      · exact absurd m2 (aElem_dollar_not_scalar c S pk sel kp b hd kp' S' sel')
  fieldName := by
    intro S k nkp sk a b _ h hd
    rcases h with h | ⟨_, kp', S', sel', m1, m2, _⟩
    · exact h
    · rcases hd with hd | hd
      · exact absurd m1 (fieldName_str_not_scalar c hrfn S k nkp sk a hd kp' S' sel')
      · exact absurd m2 (fieldName_str_not_scalar c hrfn S k nkp sk b hd kp' S' sel')

end Ctx

/-- the regenerated tables hold no key twice, at any depth — kernel-decided -/
theorem Gen_tables_nodup : ∀ tb : Spec.TableId, allNodup (tbl Generated.tables tb) = true := by
  intro tb; cases tb <;> decide +kernel

/-- **C02 (every placeholder-mode configuration, selective mode included)**: field-name redaction off, any
    other flags, ANY predicate for `--redactFieldsRegexp`: related trees are redacted to the same tree -/
theorem C02_walk_sel (c : Ctx) (hT : c.T = Generated.tables) (hplain : c.cfg.enc = none) (hrfn : c.rfn = false) (s : St) (a b : J)
    (h : c.RelAt c.LeafRel s a b) : c.run s a = c.run s b := by
  have hnd : Ctx.SearchTablesNodup c.T := by
    rw [hT]; exact searchTablesNodup_of_tables _ Gen_tables_nodup
  exact (Ctx.run_rel_sel c c.LeafRel (c.leafSimSel hplain hrfn) hnd s a b h).1

/-- non-vacuity: with the predicate "is `ssn`", `{ssn: {$in: ["A"]}, n: "T"}` and `{ssn: {$in: ["B-longer"]}, n: "T"}` are
    related (the literal under `ssn` may differ, the one under `n` is kept and must be equal) -/
example : let m : Str → Bool := fun s => s == "ssn".toList
    let c : Ctx := ⟨Generated.tables, ⟨"R".toList, false, false, false, false, some m, none⟩, false⟩
    c.run .ZQ (.obj [("ssn".toList, .obj [("$in".toList, .arr [.str "A".toList])]), ("n".toList, .str "T".toList)]) =
    c.run .ZQ (.obj [("ssn".toList, .obj [("$in".toList, .arr [.str "B-longer".toList])]), ("n".toList, .str "T".toList)]) := by
  intro m c
  apply C02_walk_sel c rfl rfl rfl
  refine ⟨_, rfl, _, _, rfl, ?_, _, _, rfl, ?_, rfl⟩
  · refine ⟨_, rfl, _, _, rfl, ?_, rfl⟩
    refine ⟨_, rfl, _, _, rfl, ?_, rfl⟩
    right
    refine ⟨rfl, ["$in".toList], false, true, rfl, rfl, by decide +kernel, by decide +kernel, by decide +kernel⟩
  · left; rfl

end Anonymongo
