/-
  Props/C03.lean — PROPERTY C03: redaction preserves the JSON shape of every line.

  Statement (model level, all trees, all depths): for every parsed line without duplicate
  sibling keys and every configuration with field-name redaction off (any replacement text,
  numbers/booleans/IPs/namespaces on or off, selective mode with ANY predicate, encrypt mode
  with ANY encryption function incl. a failing one), the redacted tree has the shape of the
  input tree: same keys in the same order, same array lengths, every leaf keeps its JSON type.
-/
import Anonymongo.Lemmas.ScalarKind
import Anonymongo.Lemmas.ShapeAlg
import Anonymongo.Lemmas.Refine
import Anonymongo.Lemmas.NumsOk
import Anonymongo.Generated.Tables
namespace Anonymongo

/-- walker level: every automaton state, every tree -/
theorem C03_walk (c : Ctx) (h : c.rfn = false) (s : St) (v : J) (hn : v.nodup = true) :
    shapeEq v (c.run s v) = true :=
  Ctx.run_shape c (Ctx.shapeOK_of_noRfn c h) s v hn

theorem shapeEqList_map (f : J → J) (hf : ∀ v, v.nodup = true → shapeEq v (f v) = true) :
    ∀ xs : List J, nodupList xs = true → shapeEqList xs (xs.map f) = true
  | [], _ => rfl
  | x :: xs, h => by
    simp only [nodupList, Bool.and_eq_true] at h
    simp only [List.map_cons, shapeEqList, Bool.and_eq_true]
    exact ⟨hf x h.1, shapeEqList_map f hf xs h.2⟩

theorem nsFieldVal_shape (c : Ctx) (k : Str) (v : J) : shapeEq v (c.nsFieldVal k v) = true := by
  unfold Ctx.nsFieldVal
  cases v <;> simp only [] <;> (try split) <;> simp [shapeEq, shapeEqList_refl, shapeEqKVs_refl]

theorem nsDocOf_shape (c : Ctx) (v : J) (hn : v.nodup = true) : shapeEq v (c.nsDocOf v) = true := by
  cases v with
  | obj m =>
    simp only [J.nodup, Bool.and_eq_true] at hn
    simp only [Ctx.nsDocOf, shapeEq, Ctx.nsFields]
    exact shapeEqKVs_map (fun k v => c.nsFieldVal k v) (fun k v _ => nsFieldVal_shape c k v) m hn.2
  | _ => simp [Ctx.nsDocOf, shapeEq_refl]

theorem nsVal_shape (c : Ctx) (k : Str) (v : J) (hn : v.nodup = true) : shapeEq v (c.nsVal k v) = true := by
  unfold Ctx.nsVal
  split
  · exact nsDocOf_shape c v hn
  · split
    · cases v with
      | arr xs =>
        simp only [J.nodup] at hn
        simp only [shapeEq]
        exact shapeEqList_map _ (fun x hx => nsDocOf_shape c x hx) xs hn
      | _ => simp [shapeEq_refl]
    · exact nsFieldVal_shape c k v

theorem redactNamespace_shape (c : Ctx) (cmd : List (Str × J)) (hn : nodupKVs cmd = true) :
    shapeEqKVs cmd (c.redactNamespace cmd) = true := by
  unfold Ctx.redactNamespace
  exact shapeEqKVs_map (fun k v => c.nsVal k v) (fun k v hv => nsVal_shape c k v hv) cmd hn

theorem cmdDocA_shape (c : Ctx) (h : c.rfn = false) (v : J) (hn : v.nodup = true) :
    shapeEq v (c.cmdDocA v) = true := by
  cases v with
  | obj cmd =>
    simp only [J.nodup, Bool.and_eq_true] at hn
    have h1 : shapeEqKVs cmd (c.redactCommandA cmd) = true := by
      unfold Ctx.redactCommandA
      exact shapeEqKVs_map (fun k v => c.run (Ctx.zoneState (lookup sInsert cmd).isSome (lookup sBulkWrite cmd).isSome k) v)
        (fun k v hv => C03_walk c h _ v hv) cmd hn.2
    simp only [Ctx.cmdDocA, shapeEq]
    split
    · exact shapeEqKVs_trans _ _ _ h1 (redactNamespace_shape c _ (nodupKVs_of_shapeEq _ _ h1 hn.2))
    · exact h1
  | _ => simp [Ctx.cmdDocA, shapeEq_refl]

theorem redactAttrA_shape (T : Tables) (cfg : Cfg) (plan : Str → Str → Str) (g : Bool)
    (attr : List (Str × J)) (hn : nodupKVs attr = true) :
    shapeEqKVs attr (redactAttrA T cfg [] plan g attr) = true := by
  unfold redactAttrA redactAttrWith
  simp only [List.any_nil]
  -- step 1: remote
  have s1 : ∀ a, nodupKVs a = true → shapeEqKVs a
      (if cfg.ips then mapKey sRemote (fun v => match v with | .str _ => .str T.ipPH | x => x) a else a) = true := by
    intro a ha
    split
    · apply shapeEqKVs_mapKey _ _ _ a ha
      intro v _; cases v <;> simp [shapeEq, shapeEqList_refl, shapeEqKVs_refl]
    · exact shapeEqKVs_refl a
  -- step 2: command documents
  have s2 : ∀ a, nodupKVs a = true → shapeEqKVs a
      (a.map fun p => (p.1, if cmdKeys.contains p.1 then
        Ctx.cmdDocA { T := T, cfg := cfg, rfn := false } p.2 else p.2)) = true := by
    intro a ha
    exact shapeEqKVs_map
      (fun k v => if cmdKeys.contains k then Ctx.cmdDocA { T := T, cfg := cfg, rfn := false } v else v)
      (fun k v hv => by
        by_cases hk : cmdKeys.contains k = true
        · simp only [hk, if_true]; exact cmdDocA_shape { T := T, cfg := cfg, rfn := false } rfl v hv
        · simp only [hk, if_false]; exact shapeEq_refl v) a ha
  -- step 3: ns
  have s3 : ∀ a, nodupKVs a = true → shapeEqKVs a
      (if cfg.ns then mapKey sNs (fun v => match v with | .str s => .str (hashName cfg.repl s) | x => x) a else a) = true := by
    intro a ha
    split
    · apply shapeEqKVs_mapKey _ _ _ a ha
      intro v _; cases v <;> simp [shapeEq, shapeEqList_refl, shapeEqKVs_refl]
    · exact shapeEqKVs_refl a
  have h1 := s1 attr hn
  have n1 := nodupKVs_of_shapeEq _ _ h1 hn
  cases g with
  | false =>
    simp only [Bool.false_eq_true, if_false]
    exact shapeEqKVs_trans _ _ _ h1 (s3 _ n1)
  | true =>
    simp only [if_true, Bool.false_eq_true, if_false]
    have h2 := s2 _ n1
    have n2 := nodupKVs_of_shapeEq _ _ h2 n1
    exact shapeEqKVs_trans _ _ _ h1 (shapeEqKVs_trans _ _ _ h2 (s3 _ n2))

/-- **C03 (tree level)**: with field-name redaction off, `RedactMongoLog` preserves the shape
    of every line that has no duplicate sibling keys. -/
theorem C03_line (T : Tables) (cfg : Cfg) (plan : Str → Str → Str)
    (entry : List (Str × J)) (hn : (J.obj entry).nodup = true) :
    shapeEq (.obj entry) (.obj (redactLine T cfg [] plan entry)) = true := by
  rw [← redactLine_refine]
  simp only [J.nodup, Bool.and_eq_true] at hn
  simp only [shapeEq, redactLineA, redactLineWith]
  split
  · apply shapeEqKVs_mapKey _ _ _ entry hn.2
    intro v hv
    cases v with
    | obj attr =>
      simp only [J.nodup, Bool.and_eq_true] at hv
      simp only [shapeEq]
      exact redactAttrA_shape T cfg plan (gated entry) attr hv.2
    | _ => simp [shapeEq_refl]
  · exact shapeEqKVs_refl entry

/-- non-vacuity: a concrete gated line with a null, nested arrays and an operator meets the hypotheses -/
example : (J.obj [("c".toList, .str "COMMAND".toList),
    ("attr".toList, .obj [("command".toList, .obj [("filter".toList,
      .obj [("a".toList, .null), ("b".toList, .arr [.arr [], .obj [("$eq".toList, .str "x".toList)]])])])])]).nodup = true := by
  decide

end Anonymongo

namespace Anonymongo

/-- **C03 (one physical line, byte level)**: for every line the parser accepts, every flag set
    (field-name redaction, selective mode, encrypt mode included) and every plan-summary rewriter, the
    emitted bytes contain no line feed, no carriage return and no other control byte — the output line
    is exactly one physical line.  (The only assumption is on the regenerated number placeholder,
    discharged for the current tables by `C03_number_placeholder_ok`.) -/
theorem C03_one_line (T : Tables) (hT : (T.number.all fun ch => 0x20 ≤ ch.toNat) = true) (cfg : Cfg) (eager : List Str)
    (plan : Str → Str → Str) (bs : Bytes) (entry : List (Str × J)) (hp : parseObj bs = some entry) :
    ∀ b ∈ printObj (redactLine T cfg eager plan entry), b ≠ 10 ∧ b ≠ 13 ∧ 0x20 ≤ b :=
  printObj_one_line _ (redactLine_numsOk T hT cfg eager plan entry (parseObj_numsOk bs entry hp))

theorem C03_number_placeholder_ok : (Generated.tables.number.all fun ch => 0x20 ≤ ch.toNat) = true := by decide +kernel

end Anonymongo
