/-
  Props/C03b.lean — C03 and C19 at byte level, on top of the parse∘print round trip
  (Lemmas/JsonRound.lean, Lemmas/ParseValid.lean).
-/
import Anonymongo.Props.C03
import Anonymongo.Props.C19
import Anonymongo.Lemmas.ParseValid
namespace Anonymongo

/-- **C03 (the emitted bytes are the redacted tree)**: for every input line the parser accepts, every
    flag set (field-name redaction, selective mode and encrypt mode included) and every plan-summary
    rewriter, the emitted line is a valid JSON object, and parsing it gives back exactly the tree the
    redactor built: nothing is lost, merged, re-typed or re-ordered by serialisation. -/
theorem C03_reparse (T : Tables) (hT : validNumLit T.number = true) (cfg : Cfg) (eager : List Str)
    (plan : Str → Str → Str) (bs : Bytes) (entry : List (Str × J)) (hp : parseObj bs = some entry) :
    parseObj (printObj (redactLine T cfg eager plan entry)) = some (redactLine T cfg eager plan entry) :=
  parseObj_printObj _ (redactLine_printable T hT cfg eager plan entry (parseObj_printable bs entry hp))

/-- the regenerated number placeholder is a valid JSON number literal -/
theorem C03_number_placeholder_valid : validNumLit Generated.tables.number = true := by decide +kernel

/-- **C03 (bytes in, bytes out)**: with field-name redaction off, the parse of the emitted line has the
    same shape (keys, order, nesting, array lengths, scalar JSON types) as the parse of the input line. -/
theorem C03_bytes (T : Tables) (hT : validNumLit T.number = true) (cfg : Cfg) (plan : Str → Str → Str)
    (bs : Bytes) (entry : List (Str × J)) (hp : parseObj bs = some entry) :
    ∃ out, parseObj (printObj (redactLine T cfg [] plan entry)) = some out ∧ shapeEq (.obj entry) (.obj out) = true := by
  refine ⟨_, C03_reparse T hT cfg [] plan bs entry hp, C03_line T cfg plan entry ?_⟩
  have := parseObj_printable bs entry hp
  rw [printable_iff] at this
  simp only [Bool.and_eq_true] at this
  exact this.2

/-- **C19 (bytes)**: in placeholder mode with the value-redaction flags only, feeding the emitted line
    back through the tool emits the same bytes again — for every input line the parser accepts. -/
theorem C19_bytes (T : Tables) (hT : validNumLit T.number = true) (cfg : Cfg) (hplain : cfg.enc = none) (hfull : cfg.re = none)
    (hns : cfg.ns = false) (hrepl : isEmail cfg.repl = false) (hph : isEmail T.emailPH = true)
    (plan : Str → Str → Str) (bs : Bytes) (entry : List (Str × J)) (hp : parseObj bs = some entry) :
    ∃ e2, parseObj (printObj (redactLine T cfg [] plan entry)) = some e2 ∧
      printObj (redactLine T cfg [] plan e2) = printObj (redactLine T cfg [] plan entry) := by
  refine ⟨_, C03_reparse T hT cfg [] plan bs entry hp, ?_⟩
  have := parseObj_printable bs entry hp
  rw [printable_iff] at this
  simp only [Bool.and_eq_true] at this
  rw [C19_line T cfg hplain hfull hns hrepl hph plan entry this.2]

/-- non-vacuity: a concrete line is accepted by the parser, and its redaction re-parses to itself -/
example : (parseObj (utf8 "{\"c\":\"COMMAND\",\"attr\":{\"command\":{\"find\":\"c\",\"filter\":{\"a\":-1.5e3,\"b\":[true,null,\"x\\n\"]}}}}".toList)).isSome = true := by
  decide +kernel

end Anonymongo
