/-
  Props/C04.lean — PROPERTY C04: nothing outside the redaction zones is altered.

  Frame theorems over the line model: the top-level members other than `attr`, the attributes
  other than the command documents / remote / ns / planSummary, and the members of a command
  document other than the zone keys (and the namespace fields under --redactNamespaces) are
  carried over unchanged — value for value, key for key, in order.  Each flag is confined to its
  own place.  `$limit` / `$skip` arguments and the listed top-level stage parameters are kept
  (obligations on the regenerated tables).  Number literals are kept as text.
-/
import Anonymongo.Lemmas.LineAlg
import Anonymongo.Lemmas.Refine
import Anonymongo.Props.C03
import Anonymongo.Generated.Tables
import Anonymongo.Model.JsonText
namespace Anonymongo

theorem keysOf_mapKey (k : Str) (f : J → J) (l : List (Str × J)) : keysOf (mapKey k f l) = keysOf l := by
  rw [mapKey_eq_mapVals, keysOf_mapVals]

theorem lookup_mapKey_ne (k k' : Str) (f : J → J) (l : List (Str × J)) (h : k ≠ k') :
    lookup k (mapKey k' f l) = lookup k l := by
  rw [mapKey_eq_mapVals, lookup_mapVals]; cases lookup k l <;> simp [h]

/-- **C04 (top level)**: timestamp, severity, component, id, context, message and every other
    top-level member except `attr` are emitted unchanged; keys and their order are preserved -/
theorem C04_top_frame (T : Tables) (cfg : Cfg) (eager : List Str) (plan : Str → Str → Str)
    (entry : List (Str × J)) :
    keysOf (redactLine T cfg eager plan entry) = keysOf entry ∧
    ∀ k, k ≠ sAttr → lookup k (redactLine T cfg eager plan entry) = lookup k entry := by
  unfold redactLine redactLineWith
  split
  · exact ⟨keysOf_mapKey _ _ _, fun k hk => lookup_mapKey_ne k sAttr _ _ hk⟩
  · exact ⟨rfl, fun _ _ => rfl⟩

/-- the attributes that redaction may touch -/
def touchableAttrs : List Str := cmdKeys ++ [sRemote, sNs, sPlanSummary]

/-- **C04 (attributes)**: every attribute other than the three command documents, `remote`, `ns`
    and `planSummary` is emitted unchanged, on every line and under every flag set; keys and order
    of `attr` are preserved -/
theorem C04_attr_frame (T : Tables) (cfg : Cfg) (eager : List Str) (plan : Str → Str → Str) (g : Bool)
    (attr : List (Str × J)) :
    keysOf (redactAttr T cfg eager plan g attr) = keysOf attr ∧
    ∀ k, touchableAttrs.contains k = false → lookup k (redactAttr T cfg eager plan g attr) = lookup k attr := by
  unfold redactAttr
  refine ⟨keysOf_redactAttrWith _ _ _ _ _ _ _, ?_⟩
  intro k hk
  simp only [touchableAttrs, List.contains_eq_mem, List.mem_append, List.mem_cons, List.mem_nil_iff, or_false,
    decide_eq_false_iff_not, not_or] at hk
  obtain ⟨hc, hr, hn, hp⟩ := hk
  rw [lookup_redactAttrWith]
  cases lookup k attr <;> simp [attrFn, hc, hr, hn, hp]

/-- **C04 (flag confinement)**: `remote` changes only with --redactIPs, `ns` only with
    --redactNamespaces, `planSummary` only when a --redactFieldNames path is configured -/
theorem C04_flags (T : Tables) (cfg : Cfg) (eager : List Str) (plan : Str → Str → Str) (g : Bool)
    (attr : List (Str × J)) :
    (cfg.ips = false → lookup sRemote (redactAttr T cfg eager plan g attr) = lookup sRemote attr) ∧
    (cfg.ns = false → lookup sNs (redactAttr T cfg eager plan g attr) = lookup sNs attr) ∧
    (eager = [] → lookup sPlanSummary (redactAttr T cfg eager plan g attr) = lookup sPlanSummary attr) := by
  have c1 : sRemote ∉ cmdKeys := by decide
  have c2 : sNs ∉ cmdKeys := by decide
  have c3 : sPlanSummary ∉ cmdKeys := by decide
  have n1 : sRemote ≠ sNs := by decide
  have n2 : sRemote ≠ sPlanSummary := by decide
  have n3 : sNs ≠ sPlanSummary := by decide
  unfold redactAttr
  refine ⟨?_, ?_, ?_⟩ <;> intro h <;> rw [lookup_redactAttrWith]
  · cases lookup sRemote attr <;> simp [attrFn, h, c1, n1, n2]
  · cases lookup sNs attr <;> simp [attrFn, h, c2, Ne.symm n1, n3]
  · subst h; cases lookup sPlanSummary attr <;> simp [attrFn, c3, Ne.symm n2, Ne.symm n3]

/-- **C04 (other components)**: on a line that is not COMMAND / QUERY / WRITE / "Slow query" the
    command-shaped attributes are not touched either: with the value flags only, such a line is
    emitted exactly as it came in, except `remote` under --redactIPs and `ns` under --redactNamespaces -/
theorem C04_ungated (T : Tables) (cfg : Cfg) (eager : List Str) (plan : Str → Str → Str)
    (attr : List (Str × J)) (k : Str) (hr : k ≠ sRemote) (hn : k ≠ sNs) :
    lookup k (redactAttr T cfg eager plan false attr) = lookup k attr := by
  unfold redactAttr
  rw [lookup_redactAttrWith]
  cases lookup k attr <;> simp [attrFn, hr, hn]

theorem C04_ungated_noflags (T : Tables) (cfg : Cfg) (eager : List Str) (plan : Str → Str → Str)
    (attr : List (Str × J)) (hi : cfg.ips = false) (hw : cfg.ns = false) :
    redactAttr T cfg eager plan false attr = attr := by
  unfold redactAttr
  rw [redactAttrWith_eq_mapVals]
  simp only [mapVals, attrFn, hi, hw, Bool.false_and, Bool.false_eq_true, if_false]
  simp

/-- the members of a command document that redaction may touch -/
def commandZoneKeys : List Str := qKeysObj ++ uKeysObjOrArr ++ aKeysArr ++ [sDocuments, sDocument, sPipeline, sExplain, sOps]

/-- **C04 (command documents)**: a member of a command document that is not one of the zone keys is
    unchanged by `redactCommand`; under --redactNamespaces only string values of the namespace-bearing
    fields (and `nsInfo`) are changed in addition; keys and order are preserved -/
theorem C04_cmd_frame (c : Ctx) (cmd : List (Str × J)) (k : Str) (hk : commandZoneKeys.contains k = false) :
    keysOf (c.redactCommand cmd) = keysOf cmd ∧
    lookup k (c.redactCommand cmd) = lookup k cmd ∧
    (c.T.searchedFields.contains k = false → k ≠ sNsInfo → lookup k (c.redactNamespace (c.redactCommand cmd)) = lookup k cmd) := by
  have e1 : c.redactCommand cmd = mapVals (c.cmdEntry (lookup sInsert cmd).isSome (lookup sBulkWrite cmd).isSome) cmd := rfl
  have e2 : ∀ l, c.redactNamespace l = mapVals c.nsVal l := fun _ => rfl
  simp only [commandZoneKeys, List.contains_eq_mem, List.mem_append, List.mem_cons, List.mem_nil_iff, or_false,
    decide_eq_false_iff_not, not_or] at hk
  obtain ⟨⟨⟨h1, h2⟩, h3⟩, h4, h4', h5, h6, h7⟩ := hk
  have hv : ∀ v, c.cmdEntry (lookup sInsert cmd).isSome (lookup sBulkWrite cmd).isSome k v = v := by
    intro v; simp [Ctx.cmdEntry, Ctx.cmdVal, h1, h2, h3, h4, h4', h5, h6, h7]
  refine ⟨by rw [e1, keysOf_mapVals], ?_, ?_⟩
  · rw [e1, lookup_mapVals]; cases lookup k cmd <;> simp [hv]
  · intro hs hni
    rw [e2, e1, mapVals_mapVals, lookup_mapVals]
    cases h : lookup k cmd with
    | none => rfl
    | some v => simp only [Option.map_some, hv, Ctx.nsVal, Ctx.nsFieldVal, h6, hni, if_false, hs]; cases v <;> simp

/-- **C04 (kept parameters)** — obligations on the regenerated tables: `$limit` and `$skip` are
    exempt whatever the key path (any pipeline depth, stage walker and query walker), and the listed
    parameters of top-level stages are exempt -/
theorem C04_kept_params :
    isTy? (lookup "$limit".toList Generated.tables.core) .Exempt = true ∧
    isTy? (lookup "$skip".toList Generated.tables.core) .Exempt = true ∧
    isTy? (getOp Generated.tables ["$sample".toList] false) .Exempt = true ∧
    isTy? (getOp Generated.tables ["$search".toList, "index".toList] true) .Exempt = true ∧
    isTy? (getOp Generated.tables ["$searchMeta".toList, "index".toList] true) .Exempt = true ∧
    isTy? (getOp Generated.tables ["$vectorSearch".toList, "index".toList] true) .Exempt = true ∧
    isTy? (getOp Generated.tables ["$vectorSearch".toList, "numCandidates".toList] true) .Exempt = true ∧
    isTy? (getOp Generated.tables ["$vectorSearch".toList, "limit".toList] true) .Exempt = true := by
  decide +kernel

theorem lastD_append (kp : List Str) (k : Str) : lastD (kp ++ [k]) = k := by
  simp [lastD]

theorem isTy?_eq (m : Option Meta) (t : OpT) (h : isTy? m t = true) : m = some (.ty t) := by
  cases m with
  | none => simp [isTy?] at h
  | some x => cases x <;> simp_all [isTy?]

/-- a key that the core table classifies `Exempt` is exempt under every key path -/
theorem getOp_core_exempt (T : Tables) (kp : List Str) (k : Str) (h : lookup k T.core = some (.ty .Exempt)) :
    getOp T (kp ++ [k]) false = some (.ty .Exempt) := by
  simp [getOp, lastD_append, h]

/-- **C04 ($limit / $skip at any depth)**: the stage walker copies the argument verbatim whatever it
    is; the query walker (nested `$lookup` / `$unionWith` pipelines) keeps a scalar argument -/
theorem C04_limit_skip (c : Ctx) (hT : c.T = Generated.tables) (k : Str)
    (hk : k = "$limit".toList ∨ k = "$skip".toList) (kp : List Str) (v : J) :
    c.PVal false kp k (getOp c.T (kp ++ [k]) false) v = v ∧
    (v.isScalar = true → c.rfn = false → c.QVal false (c.qOp none k) k (kp ++ [k]) v = v) := by
  have hcore : lookup k c.T.core = some (.ty .Exempt) := by
    rw [hT]; rcases hk with h | h <;> subst h
    · exact isTy?_eq _ _ C04_kept_params.1
    · exact isTy?_eq _ _ C04_kept_params.2.1
  rw [getOp_core_exempt c.T kp k hcore]
  constructor
  · cases v <;> simp [Ctx.PVal, Ctx.pValScalar]
  · intro hv hrfn
    have hq : c.qOp none k = some (.ty .Exempt) := by simp [Ctx.qOp, hcore]
    rw [hq]
    cases v with
    | obj _ => simp [J.isScalar] at hv
    | arr _ => simp [J.isScalar] at hv
    | null => simp [Ctx.QVal, Ctx.qValScalar]
    | bool b => simp [Ctx.QVal, Ctx.qValScalar, isTy?]
    | num l => simp [Ctx.QVal, Ctx.qValScalar, isTy?]
    | str x =>
      simp only [Ctx.QVal, Ctx.qValScalar, isTy?]
      by_cases hx : dollarPrefixed x = true
      · simp only [hx, if_true, Ctx.dollarString]
        simp [hrfn]
      · simp [hx]

/-- **C04 (number literals)**: a number is printed as its literal text — no rounding, no
    re-notation; and the parser keeps the literal text it read -/
theorem C04_numtext (lit : Str) : printJ (.num lit) = utf8 lit := by simp [printJ]

end Anonymongo
