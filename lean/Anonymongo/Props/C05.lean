/-
  Props/C05.lean — PROPERTY C05: type-aware placeholders.
  (1) the constants regenerated from the source are valid members of their classes (kernel `decide`
      over Generated.tables);  (2) for every key path, value and flag set, in placeholder mode a
      leaf that is redacted becomes exactly the placeholder of its own class.
-/
import Anonymongo.Spec.Placeholders
import Anonymongo.Spec.Classes
import Anonymongo.Model.Scalar
import Anonymongo.Generated.Tables
namespace Anonymongo

/-- **C05 (validity of the constants)** — an obligation on regenerated data -/
theorem C05_valid :
    Spec.isISOInstant Generated.tables.isoDate = true ∧
    Spec.isObjectId Generated.tables.objectId = true ∧
    Spec.isBase64 Generated.tables.uuid = true ∧
    isEmail Generated.tables.emailPH = true ∧
    Generated.tables.number = "0".toList ∧
    Generated.tables.boolean = false ∧
    isEmail Generated.tables.defaultRepl = false := by
  decide +kernel

/-- **C05 (class placeholder)**: in placeholder mode, for every key path, value, stage mode and
    flag set, `redactScalarValue` either hands the value back because of the key path alone
    (exempt operator / selective mode without a matching name) or returns exactly the
    placeholder of the value's own class. -/
theorem C05_class (T : Tables) (cfg : Cfg) (hplain : cfg.enc = none) (kp : List Str) (v : J) (S sel : Bool) :
    redactScalar T cfg kp v S sel =
      if keptByPath T cfg kp S sel then v else placeholderOf T cfg v (classOf kp v) := by
  unfold redactScalar keptByPath
  by_cases h1 : isTy? (getOp T kp S) OpT.Exempt = true
  · simp [h1]
  · by_cases h2 : (!S && cfg.re.isSome && !sel && !reMatchesAny cfg.re kp) = true
    · simp [h1, h2]
    · simp only [h1, h2, if_false, Bool.false_eq_true, Bool.or_false]
      cases v <;> simp only [classOf, placeholderOf, redactByKind, redactString, hplain] <;>
        (repeat' split) <;> simp_all

/-- **C05 (value independence of the decision)**: whether a leaf is handed back depends on the key
    path and flags only, never on the value -/
theorem C05_decision_value_free (T : Tables) (cfg : Cfg) (kp : List Str) (S sel : Bool) (v w : J) :
    keptByPath T cfg kp S sel = true → redactScalar T cfg kp v S sel = v ∧ redactScalar T cfg kp w S sel = w := by
  intro h
  unfold keptByPath at h
  unfold redactScalar
  by_cases h1 : isTy? (getOp T kp S) OpT.Exempt = true
  · simp [h1]
  · simp only [h1, Bool.false_eq_true, Bool.false_or] at h
    simp [h1, h]

/-- non-vacuity: a date under `$date` in a filter is not kept by path and is of class `date` -/
example : keptByPath Generated.tables ⟨"R".toList, false, false, false, false, none, none⟩
    ["a".toList, "$date".toList] false false = false ∧
    classOf ["a".toList, "$date".toList] (.str "2020".toList) = .date := by decide +kernel

end Anonymongo
