/-
  Props/C05b.lean — PROPERTY C05 at the level of whole trees.

  `C05_tree`: placeholder mode, full-redaction mode, field-name redaction off, the tables REGENERATED
  from the binary.  From every walker state, for EVERY tree: each scalar leaf of the output is the
  input leaf itself, a pseudonym, or the placeholder of the input leaf's class — the class judged
  under the key path of that very position (`PathOf`: the accumulated path, the parent key alone in
  the array walker, the empty key in the stage walker) — and that placeholder is a well-formed member
  of the class (an ISO instant for a date, 24 hex digits for an ObjectId, canonical base64 for binary
  data, an e-mail shaped string for an e-mail, `0` / `false` for numbers / booleans) of the same JSON
  kind as the leaf it replaces.  So a replaced value never changes its JSON type and never lands in
  another class's placeholder, at any depth.
-/
import Anonymongo.Props.C01b
import Anonymongo.Props.C05
namespace Anonymongo

/-- membership of a (replaced) leaf in a class, as the property words it -/
def Spec.inClass : LeafClass → J → Bool
  | .date, .str t => Spec.isISOInstant t
  | .oid, .str t => Spec.isObjectId t
  | .b64, .str t => Spec.isBase64 t
  | .email, .str t => isEmail t
  | .string, .str _ => true
  | .number, .num l => l == "0".toList
  | .bool, .bool b => b == false
  | _, _ => false

/-- a leaf of a secret class has the JSON kind of that class -/
theorem classOf_kind (cfg : Cfg) (kp : List Str) (a : J) (hs : secretClass cfg (classOf kp a) = true) :
    (∃ x, a = .str x ∧ classOf kp a ≠ .number ∧ classOf kp a ≠ .bool) ∨
    (∃ l, a = .num l ∧ classOf kp a = .number) ∨ (∃ b, a = .bool b ∧ classOf kp a = .bool) := by
  cases a with
  | str x =>
    left; refine ⟨x, rfl, ?_, ?_⟩ <;> (simp only [classOf]; repeat' split) <;> simp
  | num l =>
    right; left; refine ⟨l, rfl, ?_⟩
    simp only [classOf] at hs ⊢; split at hs <;> simp_all [secretClass]
  | bool b =>
    right; right; refine ⟨b, rfl, ?_⟩
    simp only [classOf] at hs ⊢; split at hs <;> simp_all [secretClass]
  | null => simp only [classOf] at hs; split at hs <;> simp [secretClass] at hs
  | arr xs => simp only [classOf] at hs; split at hs <;> simp [secretClass] at hs
  | obj kvs => simp only [classOf] at hs; split at hs <;> simp [secretClass] at hs

/-- **the placeholder of a secret class is a well-formed member of that class and has the JSON kind of the leaf** (regenerated
    constants; any replacement text that is not itself e-mail shaped when it stands for an e-mail … no: the e-mail class has
    its own constant, the replacement text stands for plain strings only) -/
theorem C05_placeholder_member (cfg : Cfg) (kp : List Str) (a : J) (hs : secretClass cfg (classOf kp a) = true) :
    Spec.inClass (classOf kp a) (placeholderOf Generated.tables cfg a (classOf kp a)) = true ∧
    shapeEq a (placeholderOf Generated.tables cfg a (classOf kp a)) = true := by
  have hv := C05_valid
  rcases classOf_kind cfg kp a hs with ⟨x, rfl, hn, hb⟩ | ⟨l, rfl, hc⟩ | ⟨b, rfl, hc⟩
  · cases hcl : classOf kp (.str x) <;> simp only [hcl] at hs hn hb ⊢ <;>
      simp_all [placeholderOf, Spec.inClass, shapeEq, secretClass]
  · rw [hc]; simp only [hc, secretClass] at hs
    have hp : placeholderOf Generated.tables cfg (.num l) .number = .num Generated.tables.number := by
      simp only [placeholderOf, hs, if_true]
    rw [hp]
    exact ⟨by simp [Spec.inClass, hv.2.2.2.2.1], by rw [shapeEq]⟩
  · rw [hc]; simp only [hc, secretClass] at hs
    have hp : placeholderOf Generated.tables cfg (.bool b) .bool = .bool Generated.tables.boolean := by
      simp only [placeholderOf, hs, if_true]
    rw [hp]
    exact ⟨by simp [Spec.inClass, hv.2.2.2.2.2.1], by rw [shapeEq]⟩

namespace Ctx

/-- the type-awareness verdict on one leaf -/
def TypeOK (c : Ctx) (s : St) (a b : J) : Prop :=
  b = a ∨ (∃ x, b = .str (c.H x)) ∨
  ∃ kp, PathOf s kp ∧ b = placeholderOf c.T c.cfg a (classOf kp a) ∧
    Spec.inClass (classOf kp a) b = true ∧ shapeEq a b = true

theorem typeOK_of_leafOK (c : Ctx) (hT : c.T = Generated.tables) (s : St) (a b : J) (h : LeafOK c s a b) : TypeOK c s a b := by
  rcases h with ⟨x, rfl⟩ | ⟨kp, hp, hs, rfl⟩ | ⟨rfl, _⟩
  · exact Or.inr (Or.inl ⟨x, rfl⟩)
  · have := C05_placeholder_member c.cfg kp a hs
    unfold TypeOK
    rw [hT]
    exact Or.inr (Or.inr ⟨kp, hp, rfl, this.1, this.2⟩)
  · exact Or.inl rfl

end Ctx

/-- **C05, whole trees** -/
theorem C05_tree (c : Ctx) (hT : c.T = Generated.tables) (hre : c.cfg.re = none) (hrfn : c.rfn = false)
    (hplain : c.cfg.enc = none) (s : St) (hi : c.Inv s) (v : J) (hn : v.nodup = true) :
    c.Aud (c.TypeOK) (fun _ _ => True) s v (c.run s v) :=
  Ctx.aud_run c hrfn c.Inv
    (fun s kvs f hi hf => Ctx.inv_obj c hre s kvs f hi hf)
    (fun s xs s' _ hf => Ctx.inv_arr c s xs s' hf)
    c.TypeOK (fun s a hi ha => Ctx.typeOK_of_leafOK c hT s a _ (Ctx.leafOK_run c hre hrfn hplain s a hi ha))
    (fun _ _ => True) (fun _ _ _ _ => trivial) (fun _ _ _ _ => trivial)
    s v hi hn

/-- non-vacuity: a date under `$date`, an ObjectId under `$oid`, an e-mail and a plain string in one filter, each landing in
    its own class's placeholder -/
example : let c : Ctx := ⟨Generated.tables, ⟨"R".toList, false, false, false, false, none, none⟩, false⟩
    J.beq (c.run .ZQ (.obj [("d".toList, .obj [("$date".toList, .str "2024-01-02T03:04:05Z".toList)]),
                            ("i".toList, .obj [("$oid".toList, .str "0123456789abcdef01234567".toList)]),
                            ("e".toList, .str "a@b.co".toList), ("s".toList, .str "x".toList)]))
      (.obj [("d".toList, .obj [("$date".toList, .str Generated.tables.isoDate)]),
             ("i".toList, .obj [("$oid".toList, .str Generated.tables.objectId)]),
             ("e".toList, .str Generated.tables.emailPH), ("s".toList, .str "R".toList)]) = true := by
  decide +kernel

end Anonymongo
