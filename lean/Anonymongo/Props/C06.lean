/-
  Props/C06.lean — PROPERTY C06 (order-preserving, line-local map), the line-level parts of C07
  (one hostile line affects nothing else; the over-long-line stop) and C08 (I/O faults).
  All statements are for an ARBITRARY line function `f : Bytes → Option Bytes` (the real one is
  `parse ≫ redact ≫ print`), arbitrary inputs, arbitrary fault positions.
-/
import Anonymongo.Model.Stream
namespace Anonymongo

/-! ### C06 -/

/-- **C06 (line-local)**: redact(A ++ B) = redact(A) ++ redact(B) -/
theorem C06_local (f : Bytes → Option Bytes) (A B : List Bytes) :
    processLines f (A ++ B) = processLines f A ++ processLines f B := by
  simp [processLines, List.filterMap_append, List.flatMap_append]

/-- **C06 (no raw copy / skipped lines contribute nothing)** -/
theorem C06_skip (f : Bytes → Option Bytes) (A B : List Bytes) (l : Bytes) (h : f l = none) :
    processLines f (A ++ [l] ++ B) = processLines f (A ++ B) := by
  simp [processLines, List.filterMap_append, h]

/-- **C06/C07 (one line in, at most one line out, the others as usual)** -/
theorem C07_others (f : Bytes → Option Bytes) (A B : List Bytes) (l : Bytes) :
    processLines f (A ++ [l] ++ B) =
      processLines f A ++ (match f l with | none => [] | some o => o ++ [10]) ++ processLines f B := by
  cases h : f l <;> simp [processLines, List.filterMap_append, List.flatMap_append, h]

theorem emitAll_none (f : Bytes → Option Bytes) : ∀ (toks : List Bytes) (n : Nat),
    emitAll f none toks n = (processLines f toks, false)
  | [], _ => by simp [emitAll, processLines]
  | t :: rest, n => by
    cases h : f t with
    | none => simp [emitAll, h, emitAll_none f rest n, processLines]
    | some o => simp [emitAll, h, emitAll_none f rest (n + 1), processLines]

/-- **C06 (fault-free run)**: the output is exactly the order-preserving map over the scanned lines;
    the result is `ok` unless a line exceeds the reader's limit -/
theorem C06_faultfree (f : Bytes → Option Bytes) (bs : Bytes) :
    runStream f bs none none =
      (processLines f (scanTokens (splitNL bs)).1, if (scanTokens (splitNL bs)).2 then .tooLong else .ok) := by
  simp only [runStream, Bool.false_and, Bool.false_eq_true, if_false]
  rcases h : scanTokens (splitNL bs) with ⟨toks, tl⟩
  simp only [emitAll_none]
  cases tl <;> simp

theorem splitNL_line (l : Bytes) (h : ∀ b ∈ l, b ≠ 10) (rest : Bytes) :
    splitNL (l ++ 10 :: rest) = l :: splitNL rest := by
  induction l with
  | nil => simp [splitNL]
  | cons b t ih =>
    have hb : b ≠ 10 := h b (by simp)
    have ih' := ih (fun x hx => h x (by simp [hx]))
    simp only [List.cons_append, splitNL, hb, if_false, ih']

/-- text of a list of lines, every line terminated by `sep ++ "\n"` -/
def joinLines (cr : Bool) : List Bytes → Bytes
  | [] => []
  | l :: rest => l ++ (if cr then [13, 10] else [10]) ++ joinLines cr rest

theorem splitNL_joinLF (ls : List Bytes) (h : ∀ l ∈ ls, ∀ b ∈ l, b ≠ 10) : splitNL (joinLines false ls) = ls := by
  induction ls with
  | nil => simp [joinLines, splitNL]
  | cons l rest ih =>
    simp only [joinLines, Bool.false_eq_true, if_false, List.append_assoc, List.singleton_append]
    rw [splitNL_line l (h l (by simp)), ih (fun x hx => h x (by simp [hx]))]

theorem splitNL_joinCRLF (ls : List Bytes) (h : ∀ l ∈ ls, ∀ b ∈ l, b ≠ 10) :
    splitNL (joinLines true ls) = ls.map (· ++ [13]) := by
  induction ls with
  | nil => simp [joinLines, splitNL]
  | cons l rest ih =>
    simp only [joinLines, if_true, List.append_assoc, List.cons_append, List.nil_append, List.map_cons]
    have : l ++ 13 :: 10 :: joinLines true rest = (l ++ [13]) ++ 10 :: joinLines true rest := by simp
    rw [this, splitNL_line (l ++ [13]) (by
      intro b hb; simp at hb; rcases hb with hb | hb
      · exact h l (by simp) b hb
      · subst hb; decide), ih (fun x hx => h x (by simp [hx]))]

theorem dropCR_append_cr (l : Bytes) : dropCR (l ++ [13]) = l := by
  simp [dropCR]

theorem dropCR_id (l : Bytes) (h : l.getLast? ≠ some 13) : dropCR l = l := by
  unfold dropCR; split
  · rename_i h2; exact absurd h2 h
  · rfl

/-- **C06 (LF vs CRLF)**: with every line below the reader's limit and no line ending in CR,
    the CRLF text and the LF text of the same lines are scanned into the same tokens -/
theorem C06_crlf (ls : List Bytes) (h10 : ∀ l ∈ ls, ∀ b ∈ l, b ≠ 10) (hcr : ∀ l ∈ ls, l.getLast? ≠ some 13)
    (hlen : ∀ l ∈ ls, l.length < maxLine) :
    scanTokens (splitNL (joinLines true ls)) = scanTokens (splitNL (joinLines false ls)) := by
  rw [splitNL_joinCRLF ls h10, splitNL_joinLF ls h10]
  induction ls with
  | nil => rfl
  | cons l rest ih =>
    have hl := hlen l (by simp)
    have ih' := ih (fun x hx => h10 x (by simp [hx])) (fun x hx => hcr x (by simp [hx])) (fun x hx => hlen x (by simp [hx]))
    have e1 : ¬ (l ++ [13]).length > maxLine := by simp; omega
    have e2 : ¬ l.length > maxLine := by omega
    simp only [List.map_cons, scanTokens, e1, e2, if_false, dropCR_append_cr, dropCR_id l (hcr l (by simp)), ih']

/-- **C06 (final newline optional)**: an unterminated last line is scanned like a terminated one -/
theorem C06_final (ls : List Bytes) (last : Bytes) (h10 : ∀ l ∈ ls, ∀ b ∈ l, b ≠ 10) (hl : ∀ b ∈ last, b ≠ 10)
    (hne : last ≠ []) :
    splitNL (joinLines false ls ++ last) = splitNL (joinLines false (ls ++ [last])) := by
  induction ls with
  | nil =>
    simp only [joinLines, List.nil_append, Bool.false_eq_true, if_false, List.append_nil]
    rw [splitNL_line last hl []]
    induction last with
    | nil => exact absurd rfl hne
    | cons b t ih =>
      have hb : b ≠ 10 := hl b (by simp)
      cases t with
      | nil => simp [splitNL, hb]
      | cons b' t' =>
        have := ih (fun x hx => hl x (by simp [hx])) (by simp)
        simp only [splitNL, hb, if_false] at this ⊢
        rw [this]
  | cons l rest ih =>
    simp only [joinLines, Bool.false_eq_true, if_false, List.append_assoc, List.singleton_append, List.cons_append]
    rw [splitNL_line l (h10 l (by simp)), splitNL_line l (h10 l (by simp))]
    congr 1
    exact ih (fun x hx => h10 x (by simp [hx]))

/-! ### C07: the single content-dependent stop -/

/-- **C07 (over-long line)**: the scan stops with `tooLong` at the first segment longer than the
    limit; exactly the lines strictly before it are delivered; nothing of it is passed through -/
theorem C07_long (A B : List Bytes) (l : Bytes) (hA : ∀ a ∈ A, a.length ≤ maxLine) (hl : l.length > maxLine) :
    scanTokens (A ++ [l] ++ B) = (A.map dropCR, true) := by
  induction A with
  | nil => simp [scanTokens, hl]
  | cons a rest ih =>
    have ha : ¬ a.length > maxLine := by have := hA a (by simp); omega
    have ih' := ih (fun x hx => hA x (by simp [hx]))
    simp only [List.cons_append, List.append_assoc, List.nil_append] at ih' ⊢
    simp [scanTokens, ha, ih']

theorem scanTokens_short (A : List Bytes) (hA : ∀ a ∈ A, a.length ≤ maxLine) : scanTokens A = (A.map dropCR, false) := by
  induction A with
  | nil => rfl
  | cons a rest ih =>
    have ha : ¬ a.length > maxLine := by have := hA a (by simp); omega
    simp [scanTokens, ha, ih (fun x hx => hA x (by simp [hx]))]

/-! ### C08: faults -/

theorem emitAll_prefix (f : Bytes → Option Bytes) (k : Option Nat) : ∀ (toks : List Bytes) (n : Nat),
    (emitAll f k toks n).1 <+: processLines f toks
  | [], _ => by simp [emitAll, processLines]
  | t :: rest, n => by
    cases h : f t with
    | none =>
      simp only [emitAll, h, processLines, List.filterMap_cons]
      exact emitAll_prefix f k rest n
    | some o =>
      simp only [emitAll, h]
      by_cases hk : k = some n
      · simp [hk]
      · simp only [hk, if_false]
        have ih := emitAll_prefix f k rest (n + 1)
        simp only [processLines, List.filterMap_cons, h, List.flatMap_cons] at ih ⊢
        obtain ⟨s, hs⟩ := ih
        exact ⟨s, by rw [← hs]; simp⟩

/-- **C08 (write fault: prefix)**: whatever was written before a failing write is a prefix of the
    fault-free output, made of whole lines -/
theorem C08_write_prefix (f : Bytes → Option Bytes) (bs : Bytes) (k : Nat) :
    (runStream f bs none (some k)).1 <+: (runStream f bs none none).1 := by
  rw [C06_faultfree]
  simp only [runStream, Bool.false_and, Bool.false_eq_true, if_false]
  rcases h : scanTokens (splitNL bs) with ⟨toks, tl⟩
  have := emitAll_prefix f (some k) toks 0
  rcases h2 : emitAll f (some k) toks 0 with ⟨out, wf⟩
  rw [h2] at this
  cases wf <;> cases tl <;> simpa using this

theorem emitAll_failed_iff (f : Bytes → Option Bytes) (k : Nat) : ∀ (toks : List Bytes) (n : Nat), n ≤ k →
    ((emitAll f (some k) toks n).2 = true ↔ k - n < (toks.filterMap f).length)
  | [], n, _ => by simp [emitAll]
  | t :: rest, n, hn => by
    cases h : f t with
    | none => simp [emitAll, h, emitAll_failed_iff f k rest n hn]
    | some o =>
      by_cases hk : k = n
      · subst hk; simp [emitAll, h]
      · have hlt : n + 1 ≤ k := by omega
        have hne : ¬ (some k = some n) := by simpa using hk
        simp only [emitAll, h, hne, if_false, List.filterMap_cons, List.length_cons]
        rw [emitAll_failed_iff f k rest (n + 1) hlt]
        omega

/-- **C08 (success is reported only for complete output)**: the result is `ok` exactly when no
    read fault was injected within the input, the failing write was not reached, and no line is
    over-long -/
theorem C08_ok_iff (f : Bytes → Option Bytes) (bs : Bytes) (r w : Option Nat) :
    (runStream f bs r w).2 = .ok ↔
      ((∀ k, r = some k → bs.length < k) ∧
       (∀ k, w = some k → ¬ k < ((scanTokens (splitNL bs)).1.filterMap f).length) ∧
       (scanTokens (splitNL bs)).2 = false) := by
  cases r with
  | some k =>
    by_cases hk : k ≤ bs.length
    · -- read fault inside the input: never ok
      constructor
      · intro h
        exfalso
        simp only [runStream, hk, if_true] at h
        rcases hst : scanTokens (splitNL (List.take k bs)) with ⟨toks, tl⟩
        rw [hst] at h
        simp only [] at h
        generalize (if (true && !tl && endsUnterminated (List.take k bs)) = true then toks.dropLast else toks) = T at h
        rcases he : emitAll f w T 0 with ⟨o, wf⟩
        simp only [he] at h
        cases wf <;> cases tl <;> simp at h
      · intro ⟨h1, _, _⟩
        have := h1 k rfl
        omega
    · -- read fault position beyond the input: as without it
      have hk' : bs.length < k := by omega
      simp only [runStream, hk, if_false, Bool.false_and, Bool.false_eq_true]
      rcases hst : scanTokens (splitNL bs) with ⟨toks, tl⟩
      cases w with
      | none =>
        simp only [emitAll_none]
        cases tl <;> simp [hk']
      | some j =>
        have hf := emitAll_failed_iff f j toks 0 (Nat.zero_le _)
        rcases he : emitAll f (some j) toks 0 with ⟨o, wf⟩
        rw [he] at hf
        simp only [Nat.sub_zero] at hf
        cases wf <;> cases tl <;> simp_all
  | none =>
    simp only [runStream, Bool.false_and, Bool.false_eq_true, if_false]
    rcases hst : scanTokens (splitNL bs) with ⟨toks, tl⟩
    cases w with
    | none =>
      simp only [emitAll_none]
      cases tl <;> simp
    | some j =>
      have hf := emitAll_failed_iff f j toks 0 (Nat.zero_le _)
      rcases he : emitAll f (some j) toks 0 with ⟨o, wf⟩
      rw [he] at hf
      simp only [Nat.sub_zero] at hf
      cases wf <;> cases tl <;> simp_all

theorem getLast?_append_cons {α} (a : List α) (b : α) (c : List α) : (a ++ b :: c).getLast? = (b :: c).getLast? := by
  induction a with
  | nil => rfl
  | cons x t ih =>
    cases h : t ++ b :: c with
    | nil => simp at h
    | cons y u => simp only [List.cons_append, h, List.getLast?_cons_cons]; rw [← h]; exact ih

/-- a text made of terminated lines does not end inside a line -/
theorem endsUnterminated_joinLF : ∀ (ls : List Bytes), endsUnterminated (joinLines false ls) = false
  | [] => rfl
  | [l] => by
    simp only [joinLines, Bool.false_eq_true, if_false, List.append_nil, endsUnterminated]
    rw [getLast?_append_cons]; rfl
  | l :: m :: rest => by
    have ih := endsUnterminated_joinLF (m :: rest)
    simp only [joinLines, Bool.false_eq_true, if_false, List.append_assoc, List.singleton_append, endsUnterminated] at ih ⊢
    rw [getLast?_append_cons]
    cases hj : m ++ 10 :: joinLines false rest with
    | nil => simp at hj
    | cons y u => rw [hj] at ih; simpa [List.getLast?_cons_cons] using ih

/-- **C08 (read fault at a line boundary: prefix)**: when the read fails right after a complete
    line (the cut does not split a line), what was written is the fault-free output of the lines
    received, a prefix of the fault-free output of the whole input -/
theorem C08_read_prefix (f : Bytes → Option Bytes) (ls more : List Bytes)
    (h10 : ∀ l ∈ ls ++ more, ∀ b ∈ l, b ≠ 10) (hlen : ∀ l ∈ ls ++ more, l.length ≤ maxLine) :
    let bs := joinLines false (ls ++ more)
    let k := (joinLines false ls).length
    (runStream f bs (some k) none).1 <+: (runStream f bs none none).1 ∧
    (runStream f bs (some k) none).2 = .readErr := by
  intro bs k
  have hjoin : bs = joinLines false ls ++ joinLines false more := by
    show joinLines false (ls ++ more) = _
    induction ls with
    | nil => simp [joinLines]
    | cons l rest ih =>
      simp only [List.cons_append, joinLines, List.append_assoc]
      rw [ih (fun x hx => h10 x (by simp at hx ⊢; rcases hx with h | h <;> simp [h]))
            (fun x hx => hlen x (by simp at hx ⊢; rcases hx with h | h <;> simp [h]))]
  have hk : k ≤ bs.length := by rw [hjoin]; simp [k]
  have htake : bs.take k = joinLines false ls := by rw [hjoin]; simp [k]
  have hA : ∀ l ∈ ls, ∀ b ∈ l, b ≠ 10 := fun l hl => h10 l (by simp [hl])
  have hB : ∀ l ∈ ls ++ more, ∀ b ∈ l, b ≠ 10 := h10
  have s1 : scanTokens (splitNL (joinLines false ls)) = (ls.map dropCR, false) := by
    rw [splitNL_joinLF ls hA]; exact scanTokens_short ls (fun a ha => hlen a (by simp [ha]))
  have s2 : scanTokens (splitNL bs) = ((ls ++ more).map dropCR, false) := by
    show scanTokens (splitNL (joinLines false (ls ++ more))) = _
    rw [splitNL_joinLF _ hB]; exact scanTokens_short _ hlen
  rw [C06_faultfree, s2]
  simp only [runStream, hk, if_true, htake, s1, emitAll_none, endsUnterminated_joinLF, Bool.and_false, Bool.false_eq_true, if_false]
  constructor
  · simp only [List.map_append, Bool.false_eq_true, if_false]
    rw [C06_local]
    exact List.prefix_append _ _
  · simp

/-! ### C08: a read fault ANYWHERE (also in the middle of a line) -/

theorem splitNL_join_append (A : List Bytes) (hA : ∀ l ∈ A, ∀ b ∈ l, b ≠ 10) (x : Bytes) :
    splitNL (joinLines false A ++ x) = A ++ splitNL x := by
  induction A with
  | nil => simp [joinLines]
  | cons l rest ih =>
    simp only [joinLines, Bool.false_eq_true, if_false, List.append_assoc, List.cons_append, List.nil_append]
    rw [splitNL_line l (hA l (by simp)), ih (fun y hy => hA y (by simp [hy]))]

theorem splitNL_no_nl : ∀ (p : Bytes), (∀ b ∈ p, b ≠ 10) → p ≠ [] → splitNL p = [p]
  | [], _, h => absurd rfl h
  | [b], hb, _ => by simp [splitNL, hb b (by simp)]
  | b :: c :: t, hb, _ => by
    have ih := splitNL_no_nl (c :: t) (fun x hx => hb x (by simp [hx])) (by simp)
    simp only [splitNL, hb b (by simp), if_false] at ih ⊢
    rw [ih]

theorem scanTokens_append_short (A : List Bytes) (hA : ∀ a ∈ A, a.length ≤ maxLine) (X : List Bytes) :
    scanTokens (A ++ X) = (A.map dropCR ++ (scanTokens X).1, (scanTokens X).2) := by
  induction A with
  | nil => simp
  | cons a rest ih =>
    have ha : ¬ a.length > maxLine := by have := hA a (by simp); omega
    simp [scanTokens, ha, ih (fun x hx => hA x (by simp [hx]))]

theorem endsUnterminated_append_ne (a p : Bytes) (hp : ∀ b ∈ p, b ≠ 10) (hne : p ≠ []) : endsUnterminated (a ++ p) = true := by
  cases p with
  | nil => exact absurd rfl hne
  | cons b t =>
    simp only [endsUnterminated]
    rw [getLast?_append_cons]
    have : (b :: t).getLast? = some ((b :: t).getLast (by simp)) := List.getLast?_eq_some_getLast _
    rw [this]
    have hm := hp _ (List.getLast_mem (l := b :: t) (by simp))
    simpa using hm

/-- **C08 (read fault anywhere)**: the input is some complete lines `A`, then a piece `p` of the next
    line (possibly empty, possibly the whole line without its newline), then whatever else; the read
    fails once `A` and `p` have been delivered.  What is written is exactly the fault-free output of the
    complete lines `A` — the piece `p` is never processed, however it looks — this is a prefix of the
    fault-free output of the whole input, and the run reports the read error -/
theorem C08_read_cut (f : Bytes → Option Bytes) (A : List Bytes) (p rest : Bytes)
    (hA : ∀ l ∈ A, ∀ b ∈ l, b ≠ 10) (hp : ∀ b ∈ p, b ≠ 10)
    (hlenA : ∀ l ∈ A, l.length ≤ maxLine) (hlenp : p.length ≤ maxLine) :
    let bs := joinLines false A ++ (p ++ rest)
    let k := (joinLines false A ++ p).length
    runStream f bs (some k) none = (processLines f (A.map dropCR), .readErr) ∧
    processLines f (A.map dropCR) <+: (runStream f bs none none).1 := by
  intro bs k
  have hk : k ≤ bs.length := by simp [k, bs]
  have htake : bs.take k = joinLines false A ++ p := by
    have : bs = (joinLines false A ++ p) ++ rest := by simp [bs]
    rw [this]; exact List.take_left
  constructor
  · simp only [runStream, hk, if_true, htake]
    rw [splitNL_join_append A hA p]
    by_cases hpe : p = []
    · subst hpe
      simp only [splitNL, List.append_nil, scanTokens_short A hlenA, endsUnterminated_joinLF, Bool.and_false,
        Bool.false_eq_true, if_false, emitAll_none]
    · rw [splitNL_no_nl p hp hpe, scanTokens_append_short A hlenA]
      have hps : ¬ p.length > maxLine := by omega
      simp only [scanTokens, hps, if_false, endsUnterminated_append_ne _ p hp hpe, Bool.not_false, Bool.and_self,
        if_true, List.dropLast_concat, emitAll_none]
      simp
  · rw [C06_faultfree]
    simp only [bs]
    rw [splitNL_join_append A hA, scanTokens_append_short A hlenA]
    simp only [C06_local]
    exact List.prefix_append _ _

end Anonymongo
