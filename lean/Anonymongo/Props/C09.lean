/-
  Props/C09.lean — PROPERTIES C09 and C10 (string level): encrypted values decrypt back to exactly
  the original; encryption is deterministic, injective and fail-closed.  Parametric in ANY
  deterministic AEAD and base64 codec satisfying the stated laws (library assumptions).
-/
import Anonymongo.Model.Daead
import Anonymongo.Model.Scalar
namespace Anonymongo

/-- **C09 (round trip)**: the leaf emitted in encrypt mode for a string `s`, given to the decrypt
    command with the same key, yields exactly the UTF-8 bytes of `s` — any length incl. 0, any content -/
theorem C09_roundtrip (D : DAEAD) (B : B64) (key : Bytes) (hk : key.length = 64) (s ph : Str) (cfg : Cfg)
    (he : cfg.enc = some (encFn D B key)) :
    decryptCmd D B key (redactString cfg s ph) = .ok (utf8 s) := by
  simp [redactString, he, encFn, encryptApi, hk, decryptCmd, decryptApi, B.dec_enc, D.dec_enc]

/-- **C09 (never a wrong plaintext)**: whatever the decrypt command accepts under a key is the
    genuine ciphertext of exactly the bytes it prints; so a corrupted ciphertext or a different
    key can only be accepted if it IS a genuine encryption under that key. (That this happens with
    probability 2^-128 is a property of AES-SIV, not provable here: sampled.) -/
theorem C09_tamper (D : DAEAD) (B : B64) (key : Bytes) (value : Str) (pt raw : Bytes)
    (hraw : B.dec value = some raw) (h : decryptCmd D B key value = .ok pt) : raw = D.enc key pt := by
  simp only [decryptCmd, hraw, decryptApi] at h
  by_cases hk : key.length = 64
  · simp only [hk, if_true] at h
    cases hd : D.dec key raw with
    | none => simp [hd] at h
    | some p =>
      simp only [hd, DecryptResult.ok.injEq] at h
      subst h; exact D.dec_only key raw p hd
  · simp [hk] at h

/-- **C10 (deterministic)**: the ciphertext leaf is a function of (key, plaintext) only -/
theorem C10_det (D : DAEAD) (B : B64) (key : Bytes) (s : Str) (ph ph' : Str) (cfg cfg' : Cfg)
    (h1 : cfg.enc = some (encFn D B key)) (h2 : cfg'.enc = some (encFn D B key)) (hk : key.length = 64) :
    redactString cfg s ph = redactString cfg' s ph' := by
  simp [redactString, h1, h2, encFn, encryptApi, hk]

/-- **C10 (injective)**: different plaintexts give different ciphertext leaves (equality joins survive) -/
theorem C10_inj (D : DAEAD) (B : B64) (key : Bytes) (hk : key.length = 64) (s t : Str) :
    encFn D B key s = encFn D B key t → utf8 s = utf8 t := by
  simp only [encFn, encryptApi, hk, if_true, Option.map_some, Option.some.injEq]
  intro h
  have h1 : B.dec (B.enc (D.enc key (utf8 s))) = B.dec (B.enc (D.enc key (utf8 t))) := by rw [h]
  simp only [B.dec_enc, Option.some.injEq] at h1
  have h2 : D.dec key (D.enc key (utf8 s)) = D.dec key (D.enc key (utf8 t)) := by rw [h1]
  simpa [D.dec_enc] using h2

/-- **C10 (fail-closed)**: in encrypt mode the leaf is the ciphertext, or — when the encryption
    step cannot be performed — the placeholder; never anything else, in particular never the
    plaintext unless the placeholder itself equals it -/
theorem C10_closed (cfg : Cfg) (f : Str → Option Str) (he : cfg.enc = some f) (s ph : Str) :
    redactString cfg s ph = (match f s with | some c => c | none => ph) := by
  simp only [redactString, he]
  cases f s <;> rfl

/-- unusable key material injected at the API level: every sensitive string becomes its placeholder -/
theorem C10_bad_key (D : DAEAD) (B : B64) (key : Bytes) (hk : key.length ≠ 64) (cfg : Cfg)
    (he : cfg.enc = some (encFn D B key)) (s ph : Str) : redactString cfg s ph = ph := by
  simp [redactString, he, encFn, encryptApi, hk]

/-- **C10 (placeholder-equivalent, leaf level)**: encrypt mode and placeholder mode take the same
    decision for every leaf; they differ only where placeholder mode replaces a string, and there
    encrypt mode emits `f s` (or the placeholder when `f` fails). Numbers, booleans, nulls and
    kept values are treated identically. -/
theorem C10_equiv_leaf (T : Tables) (cfg : Cfg) (f : Str → Option Str) (kp : List Str) (v : J) (S sel : Bool) :
    let plain := redactScalar T { cfg with enc := none } kp v S sel
    let encd := redactScalar T { cfg with enc := some f } kp v S sel
    encd = plain ∨
      (∃ s ph, v = .str s ∧ plain = .str ph ∧ encd = .str (match f s with | some c => c | none => ph)) := by
  intro plain encd
  simp only [plain, encd, redactScalar]
  split
  · left; rfl
  · split
    · left; rfl
    · cases v with
      | str s =>
        simp only [redactByKind, redactString]
        repeat' split
        all_goals first
          | (left; rfl)
          | (right; exact ⟨s, _, rfl, rfl, rfl⟩)
          | (rename_i hf; right; refine ⟨s, _, rfl, rfl, ?_⟩; simp [hf])
      | _ => left; simp only [redactByKind]; repeat' split <;> rfl

end Anonymongo
