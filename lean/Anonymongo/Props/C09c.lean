/-
  Props/C09c.lean — PROPERTIES C09 / C10 / C11 with the library parameters INSTANTIATED:
  the deterministic AEAD is the RFC 5297 SIV construction over AES-256 as Tink computes it
  (Model/Siv.lean, Model/Aes.lean: byte-identical ciphertexts, corresponded on every run), and the
  codec is encoding/base64 StdEncoding (Model/Base64.lean).  The DAEAD laws and the codec law are
  theorems (Lemmas/Siv.lean, Lemmas/Base64.lean) — no assumption about the libraries' algebra is
  left; what remains assumed is that Tink / encoding/base64 compute these functions (correspondence).
-/
import Anonymongo.Lemmas.Siv
import Anonymongo.Props.C09
import Anonymongo.Props.C11
namespace Anonymongo

/-- the encryption function of `--encrypt` under key material `key`, concretely -/
def aesEncFn (key : Bytes) : Str → Option Str := encFn Siv.aesDaead Siv.stdB64 key

/-- the ciphertext leaf, spelled out: base64 (SIV ‖ CTR(plaintext bytes)) -/
theorem aesEncFn_eq (key : Bytes) (hk : key.length = 64) (s : Str) :
    aesEncFn key s = some (Base64.enc (Siv.aesEnc key (utf8 s))) := by
  simp [aesEncFn, encFn, encryptApi, hk, Siv.aesDaead, Siv.stdB64]

/-- **C09 (round trip, concrete)**: for EVERY 64-byte key and every string (any length incl. 0, any
    Unicode content) the leaf written in encrypt mode, handed to the `decrypt` command with the same
    key file, prints exactly the original bytes -/
theorem C09_roundtrip_aes (key : Bytes) (hk : key.length = 64) (s ph : Str) (cfg : Cfg)
    (he : cfg.enc = some (aesEncFn key)) :
    decryptCmd Siv.aesDaead Siv.stdB64 key (redactString cfg s ph) = .ok (utf8 s) :=
  C09_roundtrip Siv.aesDaead Siv.stdB64 key hk s ph cfg he

/-- **C09 (never a wrong plaintext, concrete)**: if `decrypt` accepts a value under a key and prints
    `pt`, the value's bytes ARE `SIV-encrypt key pt` — a corrupted, truncated or foreign-key
    ciphertext can only be accepted if it is bit-for-bit a genuine encryption under this key -/
theorem C09_tamper_aes (key : Bytes) (value : Str) (pt raw : Bytes)
    (hraw : Base64.dec value = some raw) (h : decryptCmd Siv.aesDaead Siv.stdB64 key value = .ok pt) :
    raw = Siv.aesEnc key pt :=
  C09_tamper Siv.aesDaead Siv.stdB64 key value pt raw hraw h

/-- a ciphertext shorter than the 16-byte synthetic IV is always refused -/
theorem C09_short_refused (key : Bytes) (value : Str) (raw : Bytes)
    (hraw : Base64.dec value = some raw) (hs : raw.length < 16) :
    decryptCmd Siv.aesDaead Siv.stdB64 key value = .badCiphertext := by
  have hd : Siv.aesDec key raw = none := by
    simp [Siv.aesDec, Siv.dec, Siv.decWith, hs]
  simp only [decryptCmd, Siv.stdB64, hraw, decryptApi, Siv.aesDaead, hd]
  split <;> simp_all

/-- **C10 (injective, concrete)**: equal ciphertext leaves under one key mean equal plaintext bytes -/
theorem C10_inj_aes (key : Bytes) (hk : key.length = 64) (s t : Str) :
    aesEncFn key s = aesEncFn key t → utf8 s = utf8 t :=
  C10_inj Siv.aesDaead Siv.stdB64 key hk s t

/-- ciphertext leaves have the length the construction dictates (16-byte SIV + the plaintext bytes, base64) -/
theorem C09_leaf_length (key : Bytes) (s : Str) :
    (Base64.enc (Siv.aesEnc key (utf8 s))).length = 4 * (((utf8 s).length + 16 + 2) / 3) := by
  unfold Base64.enc
  rw [Base64.enc_length, List.length_map]
  unfold Siv.aesEnc
  simp only
  rw [Siv.enc_length _ _ (Aes.encBlockRK_length _) (Aes.encBlockRK_length _)]

/-! ### the ciphertext as it stands in the output line -/

theorem esc_b64_chr : ∀ n : Fin 64, escChar (Base64.chr n.val) = [(Base64.chr n.val).toNat.toUInt8] := by decide +kernel

theorem esc_pad : escChar '=' = [('=' : Char).toNat.toUInt8] := by decide

theorem encNat_plain : ∀ (l : List Nat), Base64.Small l →
    (Base64.encNat l).flatMap escChar = (Base64.encNat l).map fun c => c.toNat.toUInt8 := by
  intro l
  fun_induction Base64.encNat l with
  | case1 => intro _; rfl
  | case2 a =>
    intro h
    have ha : a < 256 := h a (by simp)
    have h1 : a / 4 < 64 := by omega
    have h2 : a % 4 * 16 < 64 := by omega
    simp only [List.flatMap_cons, List.flatMap_nil, List.map_cons, List.map_nil, esc_b64_chr ⟨_, h1⟩, esc_b64_chr ⟨_, h2⟩, esc_pad]
    rfl
  | case3 a b =>
    intro h
    have ha : a < 256 := h a (by simp)
    have hb : b < 256 := h b (by simp)
    have h1 : a / 4 < 64 := by omega
    have h2 : a % 4 * 16 + b / 16 < 64 := by omega
    have h3 : b % 16 * 4 < 64 := by omega
    simp only [List.flatMap_cons, List.flatMap_nil, List.map_cons, List.map_nil, esc_b64_chr ⟨_, h1⟩, esc_b64_chr ⟨_, h2⟩, esc_b64_chr ⟨_, h3⟩, esc_pad]
    rfl
  | case4 a b c rest ih =>
    intro h
    have ha : a < 256 := h a (by simp)
    have hb : b < 256 := h b (by simp)
    have hc : c < 256 := h c (by simp)
    have hr : Base64.Small rest := fun x hx => h x (by simp [hx])
    have h1 : a / 4 < 64 := by omega
    have h2 : a % 4 * 16 + b / 16 < 64 := by omega
    have h3 : b % 16 * 4 + c / 64 < 64 := by omega
    have h4 : c % 64 < 64 := by omega
    simp only [List.flatMap_cons, List.map_cons, esc_b64_chr ⟨_, h1⟩, esc_b64_chr ⟨_, h2⟩, esc_b64_chr ⟨_, h3⟩, esc_b64_chr ⟨_, h4⟩, ih hr]
    rfl

/-- **the ciphertext stands verbatim in the output line**: the serialiser escapes nothing in base64 text (no `\u002b`
    for `+`, no `\/`), so what is between the quotes is exactly what `decrypt` expects on its command line -/
theorem C09_leaf_verbatim (key : Bytes) (s : Str) :
    printStr (Base64.enc (Siv.aesEnc key (utf8 s))) = [34] ++ Base64.encBytes (Siv.aesEnc key (utf8 s)) ++ [34] := by
  unfold printStr Base64.enc Base64.encBytes Base64.enc
  rw [encNat_plain _ (Base64.small_bytes _)]

/-! ### the key file with the concrete codec -/

/-- file bytes ↔ base64 text: Go's `string(bytes)` / `[]byte(string)` on ASCII text -/
def keyCodec : KeyFile.B64 where
  enc b := (Base64.enc b).map fun c => c.toNat.toUInt8
  dec bs := Base64.dec (bs.map fun b => Char.ofNat b.toNat)
  dec_enc b := by
    have h : ((Base64.enc b).map fun c => c.toNat.toUInt8).map (fun b => Char.ofNat b.toNat) = Base64.enc b := by
      rw [List.map_map]
      conv => rhs; rw [← List.map_id (Base64.enc b)]
      apply List.map_congr_left
      intro c hc
      exact Base64.ascii_roundtrip b c hc
    simp only [h, Base64.dec_enc]

/-- **C11 (create + read back, concrete codec)** -/
theorem C11_create_std (fresh : Bytes) (h : fresh.length = 64) :
    KeyFile.step keyCodec fresh .absent = (.file (keyCodec.enc fresh), .proceed fresh) ∧
    KeyFile.readKey keyCodec (keyCodec.enc fresh) = some fresh :=
  KeyFile.C11_create keyCodec fresh h

/-- the stored key file is exactly 88 bytes (64 bytes in base64, padded) -/
theorem C11_file_size (fresh : Bytes) (h : fresh.length = 64) : (keyCodec.enc fresh).length = 88 := by
  simp [keyCodec, Base64.enc, Base64.enc_length, h]

/-- **C11 (sequences, concrete codec)** -/
theorem C11_seq_std (fresh : Bytes) (h : fresh.length = 64) (more : List Bytes) :
    (KeyFile.runs keyCodec .absent (fresh :: more)).1 = .file (keyCodec.enc fresh) ∧
    ∀ r ∈ (KeyFile.runs keyCodec .absent (fresh :: more)).2, r.key? = some fresh :=
  KeyFile.C11_seq keyCodec fresh h more

end Anonymongo
#print axioms Anonymongo.C09_roundtrip_aes
#print axioms Anonymongo.C09_tamper_aes
#print axioms Anonymongo.C11_seq_std
