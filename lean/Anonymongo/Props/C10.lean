/-
  Props/C10.lean — PROPERTY C10, placeholder-equivalence at the level of whole trees:
  encrypt mode and placeholder mode produce outputs of the same structure (same keys, same order,
  same array lengths) that are leaf-wise EQUAL except where placeholder mode emits a string and
  encrypt mode emits the ciphertext of the INPUT string at that position (or the same placeholder
  when the encryption step fails).  Numbers, booleans, nulls, kept values, pseudonyms: identical.
-/
import Anonymongo.Lemmas.TwoCfg
import Anonymongo.Props.C09
namespace Anonymongo

/-- the leaf relation of C10: input leaf, placeholder-mode leaf, encrypt-mode leaf -/
def EncLeaf (f : Str → Option Str) (v o1 o2 : J) : Prop :=
  o2 = o1 ∨ ∃ s ph, v = .str s ∧ o1 = .str ph ∧ o2 = .str (match f s with | some c => c | none => ph)

namespace Ctx

theorem leafMode_flow {c1 c2 : Ctx} (h : SameFlow c1 c2) (s : St) (v : J) : c1.leafMode s v = c2.leafMode s v := by
  cases s <;> cases v <;>
    simp only [leafMode, pScalarMode, pValScalarMode, subValScalarMode, aElemScalarMode, qValScalarMode, genericMode, nsMode,
      dollarMode, h.T, h.rfn, h.re, h.ns]

end Ctx

/-- **C10 (placeholder-equivalent, whole walk)**: from every walker state, for every tree without
    duplicate sibling keys (field-name redaction off; numbers / booleans / IPs / namespaces flags,
    selective mode and replacement text arbitrary but the same in both runs) -/
theorem C10_equiv_walk (T : Tables) (cfg : Cfg) (f : Str → Option Str) (s : St) (v : J) (hn : v.nodup = true) :
    Ctx.Rel3 (EncLeaf f) v
      (Ctx.run ⟨T, { cfg with enc := none }, false⟩ s v)
      (Ctx.run ⟨T, { cfg with enc := some f }, false⟩ s v) := by
  have hflow : Ctx.SameFlow ⟨T, { cfg with enc := none }, false⟩ ⟨T, { cfg with enc := some f }, false⟩ :=
    ⟨rfl, rfl, rfl, rfl, rfl⟩
  have leafOK : ∀ s v, v.isScalar = true → EncLeaf f v
      (Ctx.run ⟨T, { cfg with enc := none }, false⟩ s v) (Ctx.run ⟨T, { cfg with enc := some f }, false⟩ s v) := by
    intro s v hv
    rw [Ctx.run_scalar _ s v hv, Ctx.run_scalar _ s v hv, Ctx.leafMode_flow hflow s v]
    cases hm : Ctx.leafMode ⟨T, { cfg with enc := some f }, false⟩ s v with
    | keep => exact Or.inl rfl
    | hash x => exact Or.inl (by simp [Ctx.H])
    | scalar kp S sel =>
      simp only [Ctx.applyMode_scalar, Ctx.scalar]
      exact C10_equiv_leaf T cfg f kp v S sel
  apply Ctx.run_flow _ _ hflow.nodeFlow rfl (EncLeaf f) leafOK (fun v _ => Or.inl rfl) _ s v hn
  -- the namespace-document case cannot arise: both configurations have the same namespace flag
  intro s kvs h1 h2
  exact (hflow.no_nsDoc s kvs _ h1 h2).elim

/-- corollary: the two outputs have the same shape -/
theorem C10_same_keys (T : Tables) (cfg : Cfg) (f : Str → Option Str) (hi hb : Bool) (k : Str) (kvs : List (Str × J))
    (hn : (J.obj kvs).nodup = true) :
    ∃ k1 k2, Ctx.run ⟨T, { cfg with enc := none }, false⟩ (Ctx.zoneState hi hb k) (.obj kvs) = .obj k1 ∧
             Ctx.run ⟨T, { cfg with enc := some f }, false⟩ (Ctx.zoneState hi hb k) (.obj kvs) = .obj k2 ∧
             Ctx.Rel3KVs (EncLeaf f) kvs k1 k2 := by
  have := C10_equiv_walk T cfg f (Ctx.zoneState hi hb k) (.obj kvs) hn
  simpa [Ctx.Rel3] using this

end Anonymongo
