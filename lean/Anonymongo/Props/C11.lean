/-
  Props/C11.lean — PROPERTY C11: key-file lifecycle (create once, never overwrite, refuse unusable).
  For ANY base64 codec with dec (enc b) = b, any fresh key material, any file content, any number of runs.
-/
import Anonymongo.Model.KeyFile
namespace Anonymongo.KeyFile

/-- **C11 (create)**: no key file → the fresh 64-byte key is stored (base64) and is the key in force;
    the stored file reads back as the same key -/
theorem C11_create (B : B64) (fresh : Bytes) (h : fresh.length = 64) :
    step B fresh .absent = (.file (B.enc fresh), .proceed fresh) ∧ readKey B (B.enc fresh) = some fresh := by
  simp [step, h, readKey, B.dec_enc]

/-- **C11 (reuse)**: a valid key file is used and left byte-for-byte untouched — the fresh material is ignored -/
theorem C11_reuse (B : B64) (fresh c k : Bytes) (h : readKey B c = some k) :
    step B fresh (.file c) = (.file c, .proceed k) := by
  simp [step, h]

/-- **C11 (refuse)**: an unusable key (undecodable, wrong length, a directory, unreadable, a path that
    cannot be created or examined) makes the run fail before any processing and is not overwritten -/
theorem C11_refuse (B : B64) (fresh : Bytes) (o : FsObj)
    (h : match o with
         | .absent => False
         | .file c => readKey B c = none
         | _ => True) :
    (step B fresh o).1 = o ∧ (step B fresh o).2.key? = none := by
  cases o <;> simp_all [step, Outcome.key?]

/-- what "unusable content" means: not base64, or base64 of something that is not 64 bytes -/
theorem C11_unusable_iff (B : B64) (c : Bytes) :
    readKey B c = none ↔ (B.dec c = none ∨ ∃ k, B.dec c = some k ∧ k.length ≠ 64) := by
  unfold readKey
  cases h : B.dec c with
  | none => simp
  | some k => by_cases hl : k.length = 64 <;> simp [hl]

/-- the key path never changes once it holds a file -/
theorem step_file_stable (B : B64) (fresh c : Bytes) : (step B fresh (.file c)).1 = .file c := by
  simp only [step]; split <;> rfl

theorem runs_file (B : B64) (c : Bytes) : ∀ (fs : List Bytes),
    (runs B (.file c) fs).1 = .file c ∧
    ∀ r ∈ (runs B (.file c) fs).2, r.key? = (match readKey B c with | some k => some k | none => none)
  | [] => by simp [runs]
  | f :: rest => by
    have ih := runs_file B c rest
    have hs : step B f (.file c) = (.file c, match readKey B c with | some k => .proceed k | none => .fail) := by
      simp only [step]; split <;> simp_all
    simp only [runs, hs]
    refine ⟨ih.1, ?_⟩
    intro r hr
    simp only [List.mem_cons] at hr
    rcases hr with hr | hr
    · subst hr; cases readKey B c <;> rfl
    · exact ih.2 r hr

/-- **C11 (sequences of runs)**: starting without a key file, for ANY number of further runs with ANY
    fresh material: the first run stores its key, every later run proceeds with that same key, and the
    file keeps the bytes written by the first run -/
theorem C11_seq (B : B64) (fresh : Bytes) (h : fresh.length = 64) (more : List Bytes) :
    (runs B .absent (fresh :: more)).1 = .file (B.enc fresh) ∧
    ∀ r ∈ (runs B .absent (fresh :: more)).2, r.key? = some fresh := by
  have h1 := C11_create B fresh h
  have h2 := runs_file B (B.enc fresh) more
  simp only [runs, h1.1]
  refine ⟨h2.1, ?_⟩
  intro r hr
  simp only [List.mem_cons] at hr
  rcases hr with hr | hr
  · subst hr; rfl
  · have := h2.2 r hr; rw [h1.2] at this; exact this

/-- **C11 (an existing file is never rewritten, whatever it holds, over any number of runs)** -/
theorem C11_never_overwrite (B : B64) (c : Bytes) (fs : List Bytes) : (runs B (.file c) fs).1 = .file c :=
  (runs_file B c fs).1

/-- non-vacuity: with the identity codec a 64-byte file is a valid key and a 3-byte file is not -/
example : let B : B64 := ⟨id, some, fun _ => rfl⟩
    (readKey B (List.replicate 64 7)).isSome = true ∧ (readKey B [1, 2, 3]).isSome = false := by decide

end Anonymongo.KeyFile
