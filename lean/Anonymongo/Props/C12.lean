/-
  Props/C12.lean — PROPERTY C12: namespace pseudonymisation is complete, consistent, confined.

   * `C12_attr_ns`      : attr.ns becomes its pseudonym on EVERY line that has a string attr.ns
                          (gated or not, with or without a command document);
   * `C12_cmd_fields`   : in every command document (command / cmd / originatingCommand) the string
                          value of each namespace-bearing field becomes its pseudonym;
   * `C12_spec_fields`  : the fields the property names (verb collection, $db, getMore's collection)
                          are among the regenerated `searchedFields`                      [decide]
   * `C12_stage_tables` : $lookup.from, $graphLookup.from, $unionWith.coll, $merge.into, $out.db/coll
                          are typed Namespace in the regenerated tables, and $out / $unionWith / $merge
                          are namespace stages (string form)                               [decide]
   * `C12_stage_leaf`   : a Namespace-typed argument is pseudonymised (string, document and
                          string-stage form) when the flag is on and copied when it is off;
   * `C12_componentwise`: 'db.coll' ↦ 'P(db).P(coll)' (from C13), so all occurrences agree;
   * confinement outside the namespace positions: `C04_attr_frame`, `C04_flags`, `C04_cmd_frame`
     hold for every flag set; inside the zones the flag-on / flag-off comparison is the oracle.
-/
import Anonymongo.Props.C04
import Anonymongo.Props.C13
namespace Anonymongo

/-- **C12 (attr.ns on every line)** -/
theorem C12_attr_ns (T : Tables) (cfg : Cfg) (hw : cfg.ns = true) (eager : List Str) (plan : Str → Str → Str) (g : Bool)
    (attr : List (Str × J)) (s : Str) (h : lookup sNs attr = some (.str s)) :
    lookup sNs (redactAttr T cfg eager plan g attr) = some (.str (hashName cfg.repl s)) := by
  have c2 : sNs ∉ cmdKeys := by decide
  have n1 : sNs ≠ sRemote := by decide
  have n3 : sNs ≠ sPlanSummary := by decide
  unfold redactAttr
  rw [lookup_redactAttrWith, h]
  simp only [Option.map_some, attrFn, hw, n1, n3, decide_false, decide_true, Bool.and_false, Bool.and_true, Bool.true_and,
    Bool.false_eq_true, if_false, if_true]
  cases g <;> simp [c2]

/-- on a gated line each of the three command attributes holding a document goes through `cmdDoc` -/
theorem C12_cmd_attrs (T : Tables) (cfg : Cfg) (eager : List Str) (plan : Str → Str → Str)
    (attr : List (Str × J)) (k : Str) (hk : cmdKeys.contains k = true) (cmd : List (Str × J))
    (h : lookup k attr = some (.obj cmd)) :
    ∃ c : Ctx, c.T = T ∧ c.cfg = cfg ∧
      lookup k (redactAttr T cfg eager plan true attr) = some (c.cmdDoc (.obj cmd)) := by
  have n1 : k ≠ sRemote := by intro e; subst e; revert hk; decide
  have n2 : k ≠ sNs := by intro e; subst e; revert hk; decide
  have n3 : k ≠ sPlanSummary := by intro e; subst e; revert hk; decide
  refine ⟨{ T := T, cfg := cfg, rfn := eager.any fun p => isPrefix p (strOrEmpty (lookup sNs attr)) }, rfl, rfl, ?_⟩
  unfold redactAttr
  rw [lookup_redactAttrWith, h]
  simp only [Option.map_some, attrFn, hk, n1, n2, n3, decide_false, Bool.and_false, Bool.false_eq_true, if_false, if_true]

/-- `redactCommand` never changes a string value (zone values are documents or arrays) -/
theorem cmdVal_str (c : Ctx) (hi : Bool) (k s : Str) : c.cmdVal hi k (.str s) = .str s := by
  simp [Ctx.cmdVal]

theorem cmdEntry_str (c : Ctx) (hi hb : Bool) (k s : Str) : c.cmdEntry hi hb k (.str s) = .str s := by
  unfold Ctx.cmdEntry
  split
  · rfl
  · split
    · rfl
    · exact cmdVal_str c hi k s

/-- **C12 (command fields)**: with the flag on, `cmdDoc` turns the string value of every searched
    field into its pseudonym -/
theorem C12_cmd_fields (c : Ctx) (hw : c.cfg.ns = true) (cmd : List (Str × J)) (k : Str) (s : Str)
    (hk : c.T.searchedFields.contains k = true) (hk1 : k ≠ sExplain) (hk2 : k ≠ sNsInfo) (h : lookup k cmd = some (.str s)) :
    ∃ out, c.cmdDoc (.obj cmd) = .obj out ∧ lookup k out = some (.str (c.H s)) := by
  refine ⟨c.redactNamespace (c.redactCommand cmd), by simp [Ctx.cmdDoc, hw], ?_⟩
  have e1 : c.redactCommand cmd = mapVals (c.cmdEntry (lookup sInsert cmd).isSome (lookup sBulkWrite cmd).isSome) cmd := rfl
  have e2 : ∀ l, c.redactNamespace l = mapVals c.nsVal l := fun _ => rfl
  rw [e2, e1, mapVals_mapVals, lookup_mapVals, h]
  simp only [Option.map_some, cmdEntry_str, Ctx.nsVal, Ctx.nsFieldVal, hk1, hk2, hk, if_true, if_false]

/-- the searched fields of one document one level down (`redactNamespaceFields`) -/
theorem nsFields_lookup (c : Ctx) (m : List (Str × J)) (k s : Str) (hk : c.T.searchedFields.contains k = true)
    (h : lookup k m = some (.str s)) : lookup k (c.nsFields m) = some (.str (c.H s)) := by
  have e : c.nsFields m = mapVals c.nsFieldVal m := rfl
  rw [e, lookup_mapVals, h]
  simp only [Option.map_some, Ctx.nsFieldVal, hk, if_true]

/-- **C12 (explain, bulkWrite)**: the searched fields of the command wrapped by `explain` and the `ns`
    of every element of `nsInfo` become pseudonyms as well -/
theorem C12_nested_fields (c : Ctx) (inner : List (Str × J)) (xs : List J) (k s : Str)
    (hk : c.T.searchedFields.contains k = true) (h : lookup k inner = some (.str s)) :
    (∃ out, c.nsVal sExplain (.obj inner) = .obj out ∧ lookup k out = some (.str (c.H s))) ∧
    c.nsVal sNsInfo (.arr xs) = .arr (xs.map c.nsDocOf) ∧
    (∃ out, c.nsDocOf (.obj inner) = .obj out ∧ lookup k out = some (.str (c.H s))) := by
  refine ⟨⟨c.nsFields inner, by simp [Ctx.nsVal, Ctx.nsDocOf], nsFields_lookup c inner k s hk h⟩, ?_,
    ⟨c.nsFields inner, rfl, nsFields_lookup c inner k s hk h⟩⟩
  have : sNsInfo ≠ sExplain := by decide
  simp [Ctx.nsVal, this]

/-- the regenerated field list contains `ns` (what `nsInfo` elements carry) and neither `explain` nor `nsInfo` -/
theorem C12_nested_tables : Generated.tables.searchedFields.contains sNs = true ∧
    Generated.tables.searchedFields.contains sExplain = false ∧ Generated.tables.searchedFields.contains sNsInfo = false := by
  decide +kernel

/-- the namespace-bearing command fields named by the property -/
def Spec.nsCommandFields : List Str :=
  ["find", "aggregate", "insert", "update", "delete", "count", "distinct", "findAndModify", "collection", "$db"].map String.toList

/-- **C12 (spec ⊆ code)** — obligation on the regenerated field list -/
theorem C12_spec_fields :
    (Spec.nsCommandFields.all fun k => Generated.tables.searchedFields.contains k) = true := by
  decide +kernel

/-- **C12 (stage positions)** — obligations on the regenerated tables -/
theorem C12_stage_tables :
    let T := Generated.tables
    let sub (st arg : String) : Bool :=
      match lookup st.toList T.core with
      | some (.map m) => isTy? (lookup arg.toList m) .Namespace
      | _ => false
    sub "$lookup" "from" = true ∧ sub "$graphLookup" "from" = true ∧ sub "$unionWith" "coll" = true ∧
    sub "$merge" "into" = true ∧ sub "$out" "db" = true ∧ sub "$out" "coll" = true ∧
    (["$out", "$unionWith", "$merge"].all fun st =>
      match lookup st.toList T.core with
      | some (.map m) => Ctx.nsStage m
      | _ => false) = true := by
  decide +kernel

/-- **C12 (stage arguments)**: a Namespace-typed argument of a stage: string ↦ pseudonym, document form
    ↦ every string member its pseudonym, string form of a namespace stage ↦ pseudonym — when the flag
    is on; copied verbatim when it is off -/
theorem C12_stage_leaf (c : Ctx) (S : Bool) (k : Str) (nkp : List Str) (sk : Str) (s : Str) (kvs : List (Str × J))
    (kp : List Str) (m : MTable) :
    (c.cfg.ns = true →
      c.SubVal S k nkp sk (some (.ty .Namespace)) (.str s) = .str (c.H s) ∧
      c.SubVal S k nkp sk (some (.ty .Namespace)) (.obj kvs) = .obj (fromPairs (c.nsDoc kvs)) ∧
      c.PVal S kp k (some (.ty .Namespace)) (.str s) = .str (c.H s) ∧
      (Ctx.nsStage m = true → c.PVal S kp k (some (.map m)) (.str s) = .str (c.H s))) ∧
    (c.cfg.ns = false →
      c.SubVal S k nkp sk (some (.ty .Namespace)) (.str s) = .str s ∧
      c.SubVal S k nkp sk (some (.ty .Namespace)) (.obj kvs) = .obj kvs ∧
      c.PVal S kp k (some (.ty .Namespace)) (.str s) = .str s) := by
  constructor <;> intro h
  · refine ⟨by simp [Ctx.SubVal, Ctx.subValScalar, h], by simp [Ctx.SubVal, h], by simp [Ctx.PVal, Ctx.pValScalar, h], ?_⟩
    intro hm; simp [Ctx.PVal, Ctx.pValScalar, h, hm]
  · exact ⟨by simp [Ctx.SubVal, Ctx.subValScalar, h], by simp [Ctx.SubVal, h], by simp [Ctx.PVal, Ctx.pValScalar, h]⟩

/-- every string member of a namespace document becomes its pseudonym -/
theorem C12_nsDoc (c : Ctx) (kvs : List (Str × J)) (k : Str) (s : Str) (h : lookup k kvs = some (.str s)) :
    lookup k (c.nsDoc kvs) = some (.str (c.H s)) := by
  have : c.nsDoc kvs = mapVals (fun _ v => match v with | .str s => .str (c.H s) | x => x) kvs := by
    simp only [Ctx.nsDoc, mapVals]
    apply List.map_congr_left; intro p _; obtain ⟨k', v⟩ := p; cases v <;> rfl
  rw [this, lookup_mapVals, h]; rfl

/-- **C12 (consistency)**: the pseudonym is a function of the name, and 'db.coll' ↦ 'P(db).P(coll)' -/
theorem C12_componentwise (r db coll : Str) (hd : dollarPrefixed db = false) (hc : dollarPrefixed coll = false) :
    hashName r (db ++ '.' :: coll) = hashName r db ++ ['.'] ++ hashName r coll :=
  C13_componentwise r db coll hd hc

end Anonymongo
