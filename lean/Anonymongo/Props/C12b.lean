/-
  Props/C12b.lean — PROPERTY C12, confinement INSIDE the walkers: the run with --redactNamespaces
  and the run without it (all other settings equal, field-name redaction off) produce trees of the
  same structure whose leaves are equal, except that the flag-on leaf may be the pseudonym of the
  INPUT string at that position.  Nothing else in a command document differs.
-/
import Anonymongo.Lemmas.TwoCfg
import Anonymongo.Props.C12
namespace Anonymongo

/-- input leaf, flag-off leaf, flag-on leaf -/
def NsLeaf (repl : Str) (v o1 o2 : J) : Prop :=
  o2 = o1 ∨ ∃ s, v = .str s ∧ o2 = .str (hashName repl s)

theorem redactScalar_ns_indep (T : Tables) (cfg : Cfg) (b1 b2 : Bool) (kp : List Str) (v : J) (S sel : Bool) :
    redactScalar T { cfg with ns := b1 } kp v S sel = redactScalar T { cfg with ns := b2 } kp v S sel := by
  simp only [redactScalar, redactByKind, redactString]

namespace Ctx

theorem nodeFlow_ns (T : Tables) (cfg : Cfg) :
    NodeFlow ⟨T, { cfg with ns := false }, false⟩ ⟨T, { cfg with ns := true }, false⟩ where
  rfn := rfl
  obj := by
    intro s kvs
    cases s with
    | SubVal S k nkp sk sm =>
      rcases sm with _ | (t | m | _) <;> (try cases t) <;> simp only [node] <;>
        first
          | exact ActEq.keep
          | exact ActEq.nsDoc
          | (apply ActEq.obj; intro k x; rfl)
    | PVal S kp k op =>
      rcases op with _ | (t | m | _) <;> (try cases t) <;> simp only [node] <;>
        first
          | exact ActEq.keep
          | (apply ActEq.obj; intro k x; rfl)
    | _ => simp only [node] <;> first | exact ActEq.keep | (apply ActEq.obj; intro k x; rfl)
  arr := by
    intro s xs
    cases s <;> simp only [node] <;> (try (repeat' split)) <;> first | exact ActEq.keep | exact ActEq.arr _

/-- the flag changes the mode of a leaf only by turning it into "pseudonym of this string" -/
theorem leafMode_ns (T : Tables) (cfg : Cfg) (s : St) (v : J) :
    leafMode ⟨T, { cfg with ns := true }, false⟩ s v = leafMode ⟨T, { cfg with ns := false }, false⟩ s v ∨
    ∃ x, v = .str x ∧ leafMode ⟨T, { cfg with ns := true }, false⟩ s v = .hash x := by
  cases s <;> cases v <;>
    simp only [leafMode, pScalarMode, pValScalarMode, subValScalarMode, aElemScalarMode, qValScalarMode, genericMode, nsMode, dollarMode] <;>
    (try (repeat' split)) <;> simp_all

end Ctx

/-- **C12 (confined, whole walk)**: from every walker state, for every tree without duplicate sibling keys -/
theorem C12_confined_walk (T : Tables) (cfg : Cfg) (s : St) (v : J) (hn : v.nodup = true) :
    Ctx.Rel3 (NsLeaf cfg.repl) v
      (Ctx.run ⟨T, { cfg with ns := false }, false⟩ s v)
      (Ctx.run ⟨T, { cfg with ns := true }, false⟩ s v) := by
  apply Ctx.run_flow _ _ (Ctx.nodeFlow_ns T cfg) rfl (NsLeaf cfg.repl) _ (fun v _ => Or.inl rfl) _ s v hn
  · intro s v hv
    rw [Ctx.run_scalar _ s v hv, Ctx.run_scalar _ s v hv]
    rcases Ctx.leafMode_ns T cfg s v with h | ⟨x, hx, h⟩
    · rw [h]
      cases Ctx.leafMode ⟨T, { cfg with ns := false }, false⟩ s v with
      | keep => exact Or.inl rfl
      | hash x => exact Or.inl (by simp [Ctx.H])
      | scalar kp S sel =>
        left
        simp only [Ctx.applyMode_scalar, Ctx.scalar]
        exact redactScalar_ns_indep T cfg true false kp v S sel
    · rw [h]; right; exact ⟨x, hx, by simp [Ctx.H]⟩
  · intro s kvs _ _ v hv
    cases v <;> simp only [J.isScalar, Bool.false_eq_true] at hv
    · left; simp [Ctx.run, Ctx.node]
    · left; simp [Ctx.run, Ctx.node]
    · left; simp [Ctx.run, Ctx.node]
    · right; exact ⟨_, rfl, by simp [Ctx.run, Ctx.node, Ctx.H]⟩

end Anonymongo
