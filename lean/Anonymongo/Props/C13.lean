/-
  Props/C13.lean — PROPERTY C13: pseudonyms are a stable, component-wise, well-formed function of
  the name (and collision-free up to a collision of SHA-256 truncated to 8 bytes).
-/
import Anonymongo.Model.Hash
namespace Anonymongo

/-! ### helper lemmas -/

theorem sha256_length (m : List UInt8) : (sha256 m).length = 32 := by
  simp [sha256, Sha256.stBytes, Sha256.be32bytes]

theorem hex16_length (d : List UInt8) (h : 8 ≤ d.length) : (hex16 d).length = 16 := by
  unfold hex16
  have : ∀ (l : List UInt8), (l.flatMap hexByte).length = 2 * l.length := by
    intro l; induction l with
    | nil => simp
    | cons a t ih => simp [List.flatMap_cons, hexByte, ih]; omega
  rw [this, List.length_take]; omega

def isLowerHex (c : Char) : Bool := ('0' ≤ c && c ≤ '9') || ('a' ≤ c && c ≤ 'f')

theorem hexDigit_lower : ∀ n, n < 16 → isLowerHex (hexDigit n) = true := by
  decide

theorem hexByte_lower (b : UInt8) : (hexByte b).all isLowerHex = true := by
  have h1 : b.toNat / 16 < 16 := by have := b.toNat_lt; omega
  have h2 : b.toNat % 16 < 16 := Nat.mod_lt _ (by decide)
  simp [hexByte, hexDigit_lower _ h1, hexDigit_lower _ h2]

theorem hex16_lower (d : List UInt8) : (hex16 d).all isLowerHex = true := by
  unfold hex16
  induction d.take 8 with
  | nil => simp
  | cons a t ih => simp [List.flatMap_cons, List.all_append, hexByte_lower, ih]

theorem splitOn_ne_nil (sep : Char) : ∀ s, splitOn sep s ≠ []
  | [] => by simp [splitOn]
  | c :: rest => by
    unfold splitOn
    split
    · simp
    · split <;> simp

theorem splitOn_append (sep : Char) : ∀ a b, splitOn sep (a ++ sep :: b) = splitOn sep a ++ splitOn sep b
  | [], b => by simp [splitOn]
  | c :: a, b => by
    have ih := splitOn_append sep a b
    by_cases h : c = sep
    · subst h; simp [splitOn, ih]
    · simp only [List.cons_append, splitOn, h, if_false, ih]
      cases hs : splitOn sep a with
      | nil => exact absurd hs (splitOn_ne_nil sep a)
      | cons x xs => simp

theorem intercalate_append (sep : Str) : ∀ xs ys, xs ≠ [] → ys ≠ [] →
    intercalate sep (xs ++ ys) = intercalate sep xs ++ sep ++ intercalate sep ys
  | [], _, h, _ => absurd rfl h
  | [x], y :: ys, _, _ => by simp [intercalate]
  | x :: x' :: xs, ys, _, hy => by
    have ih := intercalate_append sep (x' :: xs) ys (by simp) hy
    simp only [List.cons_append] at ih ⊢
    simp [intercalate, ih]
  | [_], [], _, h => absurd rfl h

theorem trimLeftDollar_of_not_dollar (s : Str) (h : dollarPrefixed s = false) : trimLeftDollar s = s := by
  cases s with
  | nil => rfl
  | cons c r =>
    by_cases hc : c = '$'
    · subst hc; simp [dollarPrefixed] at h
    · unfold trimLeftDollar; split
      · rename_i heq; injection heq with h1 _; exact absurd h1 hc
      · rfl

/-! ### property theorems -/

/-- **C13 (form)**: every component of a pseudonym is `<replacement>_<16 lower-case hex digits>` -/
theorem C13_form (r part : Str) :
    ∃ h : Str, hashPart r part = r ++ ['_'] ++ h ∧ h.length = 16 ∧ h.all isLowerHex = true :=
  ⟨hex16 (sha256 (utf8 part)), rfl, hex16_length _ (by rw [sha256_length]; omega), hex16_lower _⟩

/-- **C13 (path depth)**: a pseudonym consists of exactly one block per dotted component of the
    name, joined by '.' -/
theorem C13_depth (r name : Str) :
    ∃ blocks : List Str, hashName r name = intercalate ['.'] blocks ∧
      blocks.length = (splitOn '.' (trimLeftDollar name)).length ∧
      ∀ b ∈ blocks, ∃ part, b = hashPart r part :=
  ⟨(splitOn '.' (trimLeftDollar name)).map (hashPart r), rfl, by simp, by
    intro b hb; simp only [List.mem_map] at hb; obtain ⟨p, _, hp⟩ := hb; exact ⟨p, hp.symm⟩⟩

/-- **C13 (leading '$')**: a leading '$' does not change the result -/
theorem C13_dollar (r name : Str) : hashName r ('$' :: name) = hashName r name := by
  simp [hashName, trimLeftDollar]

/-- **C13 (component-wise)**: 'db.coll' is mapped to 'P(db).P(coll)' -/
theorem C13_componentwise (r a b : Str) (ha : dollarPrefixed a = false) (hb : dollarPrefixed b = false) :
    hashName r (a ++ '.' :: b) = hashName r a ++ ['.'] ++ hashName r b := by
  have h1 : dollarPrefixed (a ++ '.' :: b) = false := by
    cases a with
    | nil => simp [dollarPrefixed]
    | cons c t =>
      by_cases hc : c = '$'
      · subst hc; simp [dollarPrefixed] at ha
      · unfold dollarPrefixed; simp only [List.cons_append]; split
        · rename_i heq; injection heq with e _; exact absurd e hc
        · rfl
  unfold hashName
  rw [trimLeftDollar_of_not_dollar _ h1, trimLeftDollar_of_not_dollar _ ha, trimLeftDollar_of_not_dollar _ hb,
    splitOn_append, List.map_append]
  exact intercalate_append _ _ _ (by simp [splitOn_ne_nil]) (by simp [splitOn_ne_nil])

/-- **C13 (collisions)**: two components receive the same pseudonym exactly when the first 8 bytes
    of their SHA-256 digests agree — for every replacement text. "Different components always
    receive different pseudonyms" is therefore true up to a collision of truncated SHA-256 and
    cannot be proved absolutely (2^64 outputs). -/
theorem C13_inj_mod (r a b : Str) :
    hashPart r a = hashPart r b ↔ hex16 (sha256 (utf8 a)) = hex16 (sha256 (utf8 b)) := by
  simp [hashPart]

/-- **C13 (stability)**: the pseudonym is a function of (replacement, name) only — the model has no
    other input; that the Go side table `RedactedFieldMapping` is write-only is checked by the
    correspondence (two processes, permuted call orders). -/
theorem C13_pure (r n : Str) (r' n' : Str) (h1 : r = r') (h2 : n = n') : hashName r n = hashName r' n' := by
  subst h1; subst h2; rfl

example : hashName "R".toList "$a.b".toList = hashName "R".toList "a".toList ++ ['.'] ++ hashName "R".toList "b".toList := by
  have e : "$a.b".toList = '$' :: ("a".toList ++ '.' :: "b".toList) := by decide
  rw [e, C13_dollar]
  exact C13_componentwise _ _ _ (by decide) (by decide)

end Anonymongo
