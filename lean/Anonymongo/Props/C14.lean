/-
  Props/C14.lean — PROPERTY C14: selective mode redacts exactly the values under a matching name.

  The regular expression is an ARBITRARY predicate `m : Str → Bool` on names (this quantifies over
  more than any family of regexps); the only assumption is that it does not match the empty name.

  * `names s`  : the key path the walker has accumulated in state `s` (from the root of the filter /
                 update / document for the query walker; from the stage for the stage walker);
                 `C14_path_*` prove that it really is the list of keys from the root down.
  * `C14_walk` : for EVERY tree and EVERY state, at every scalar leaf:
       (K) no name on the path matches, no `$field` sibling rule, not inside a search stage
             ⇒ the leaf is emitted unchanged;
       (R) some name on the path matches (or the sibling rule fires)
             ⇒ a leaf handed to `redactScalarValue` is redacted exactly as in full-redaction mode
               (`forced`): the class placeholder, unless the key path is exempt.
  * `C14_value_free` : which of the two happens does not depend on the value.
-/
import Anonymongo.Lemmas.Rel
import Anonymongo.Lemmas.LeafMode
import Anonymongo.Props.C05
namespace Anonymongo
namespace Ctx

/-- the key path accumulated by the walker in a state -/
def names : St → List Str
  | .P _ kp => kp
  | .PVal _ kp k _ => kp ++ [k]
  | .SubVal _ _ nkp sk _ => nkp ++ [sk]
  | .AElem _ pk _ kp => kp ++ [pk]
  | .QVal _ _ _ nkp => nkp
  | _ => []

/-- the `$field`-sibling flag carried by an array element state -/
def selOf : St → Bool
  | .AElem _ _ sel _ => sel
  | _ => false

/-- inside an Atlas Search stage? -/
def searchOf : St → Bool
  | .P S _ => S
  | .PVal S _ _ _ => S
  | .SubVal S _ _ _ _ => S
  | .AElem S _ _ _ => S
  | .QVal S _ _ _ => S
  | _ => false

/-- `redactScalarValue` with the selective test switched off (= full-redaction mode) -/
def forced (c : Ctx) (kp : List Str) (v : J) (S : Bool) : J := redactScalar c.T c.cfg kp v S true

/-- the leaf relation of C14 -/
def isNsMember : St → Bool
  | .NsMember => true
  | _ => false

def SelRel (c : Ctx) (m : Str → Bool) (s : St) (a b : J) : Prop :=
  (searchOf s = false → isNsMember s = false → (names s).any m = false → selOf s = false → b = a) ∧
  (∀ kp S sel, c.leafMode s a = .scalar kp S sel → ((names s).any m = true ∨ selOf s = true) → b = c.forced kp a S)

theorem redactScalar_matched (T : Tables) (cfg : Cfg) (kp : List Str) (v : J) (S sel : Bool)
    (h : sel = true ∨ reMatchesAny cfg.re kp = true) :
    redactScalar T cfg kp v S sel = redactScalar T cfg kp v S true := by
  unfold redactScalar
  rcases h with h | h <;> simp [h]

theorem redactScalar_unmatched (T : Tables) (cfg : Cfg) (m : Str → Bool) (hre : cfg.re = some m) (kp : List Str) (v : J)
    (h : kp.any m = false) : redactScalar T cfg kp v false false = v := by
  unfold redactScalar
  by_cases he : isTy? (getOp T kp false) .Exempt = true
  · simp [he]
  · simp [he, hre, reMatchesAny, h]

theorem any_append_single (m : Str → Bool) (kp : List Str) (k : Str) : (kp ++ [k]).any m = (kp.any m || m k) := by
  simp [List.any_append]

theorem scalar_unmatched (c : Ctx) (m : Str → Bool) (hre : c.cfg.re = some m) (kp : List Str) (v : J)
    (h : kp.any m = false) : c.scalar kp v false false = v :=
  redactScalar_unmatched c.T c.cfg m hre kp v h

section K
variable (c : Ctx) (m : Str → Bool) (hre : c.cfg.re = some m) (hrfn : c.rfn = false) (hns : c.cfg.ns = false)
  (hempty : m [] = false)
include hre hrfn hns hempty

omit hns in
theorem genericMode_K (nkp : List Str) (a : J) (hn : nkp.any m = false) :
    c.applyMode (c.genericMode false nkp a) a = a := by
  cases a <;> simp only [genericMode] <;> (try split) <;> simp [dollarMode, hrfn, scalar_unmatched c m hre nkp _ hn]

omit hns in
theorem pScalarMode_K (kp : List Str) (a : J) (hn : kp.any m = false) :
    c.applyMode (c.pScalarMode false kp a) a = a := by
  have h0 : ([[]] : List Str).any m = false := by simp [hempty]
  cases a <;> simp only [pScalarMode] <;> (try split) <;>
    simp [dollarMode, hrfn, reMatchesAny, hre, hn, scalar_unmatched c m hre [[]] _ h0]

theorem pValScalarMode_K (kp : List Str) (k : Str) (op : Option Meta) (a : J) (hn : (kp ++ [k]).any m = false) :
    c.applyMode (c.pValScalarMode false kp k op a) a = a := by
  have hg := genericMode_K c m hre hrfn hempty (kp ++ [k]) a hn
  unfold pValScalarMode
  split
  · simp [hns, hg]
  · simp only [hrfn, Bool.false_eq_true, if_false]; cases a <;> simp [hg]
  · cases a <;> simp [nsMode, hns]
  · rfl
  · exact hg

theorem subValScalarMode_K (k : Str) (nkp : List Str) (sk : Str) (sm : Option Meta) (a : J)
    (hn : (nkp ++ [sk]).any m = false) :
    c.applyMode (c.subValScalarMode false k nkp sk sm a) a = a := by
  have hs := scalar_unmatched c m hre (nkp ++ [sk]) a hn
  unfold subValScalarMode
  split
  · cases a <;> simp [hrfn, hs]
  · cases a <;> simp [nsMode, hns]
  · rfl
  · cases a <;> simp [hs]
  · cases a <;> simp [hs, hrfn]

omit hns in
theorem aElemScalarMode_K (pk : Str) (kp : List Str) (a : J) (hn : (kp ++ [pk]).any m = false) :
    c.applyMode (c.aElemScalarMode false pk false kp a) a = a := by
  rw [any_append_single, Bool.or_eq_false_iff] at hn
  have h1 : ([pk] : List Str).any m = false := by simp [hn.2]
  cases a <;> simp only [aElemScalarMode] <;> (try split) <;>
    simp [dollarMode, hrfn, reMatchesAny, hre, hn.1, scalar_unmatched c m hre [pk] _ h1]

omit hns in
theorem qValScalarMode_K (co : Option Meta) (nkp : List Str) (a : J) (hn : nkp.any m = false) :
    c.applyMode (c.qValScalarMode false co nkp a) a = a := by
  cases a <;> simp only [qValScalarMode] <;> (repeat' split) <;>
    simp [dollarMode, hrfn, scalar_unmatched c m hre nkp _ hn]

end K

/-- every scalar is `SelRel`-related to what the walker emits for it -/
theorem selRel_run (c : Ctx) (m : Str → Bool) (hre : c.cfg.re = some m) (hrfn : c.rfn = false) (hns : c.cfg.ns = false)
    (hempty : m [] = false) (s : St) (a : J) (ha : a.isScalar = true) : c.SelRel m s a (c.run s a) := by
  rw [run_scalar c s a ha]
  constructor
  · -- (K): nothing matches => unchanged
    intro hS hok hn hsel
    cases s with
    | P S kp => simp only [searchOf] at hS; subst hS; exact pScalarMode_K c m hre hrfn hempty kp a hn
    | PVal S kp k op => simp only [searchOf] at hS; subst hS; exact pValScalarMode_K c m hre hrfn hns hempty kp k op a hn
    | Facet => exact pScalarMode_K c m hre hrfn hempty [] a rfl
    | FacetStage => exact pScalarMode_K c m hre hrfn hempty [] a rfl
    | SubVal S k nkp sk sm => simp only [searchOf] at hS; subst hS; exact subValScalarMode_K c m hre hrfn hns hempty k nkp sk sm a hn
    | AElem S pk sel kp =>
      simp only [searchOf] at hS; subst hS; simp only [selOf] at hsel; subst hsel
      exact aElemScalarMode_K c m hre hrfn hempty pk kp a hn
    | QVal S co k nkp => simp only [searchOf] at hS; subst hS; exact qValScalarMode_K c m hre hrfn hempty co nkp a hn
    | NsMember => simp [isNsMember] at hok
    | _ => cases a <;> rfl
  · -- (R): something matches => forced redaction
    intro kp S sel hm hany
    rw [hm]
    simp only [applyMode_scalar, scalar, forced]
    apply redactScalar_matched
    cases s <;> simp only [names, selOf, any_append_single, Bool.or_eq_true] at hany <;>
      cases a <;> simp only [J.isScalar, Bool.false_eq_true] at ha <;>
      simp only [leafMode, pScalarMode, pValScalarMode, subValScalarMode, aElemScalarMode, qValScalarMode,
        genericMode, nsMode, dollarMode, hrfn] at hm <;>
      (try (repeat' split at hm)) <;> (try cases hm) <;>
      simp_all [reMatchesAny, any_append_single] <;>
      (rcases hany with (h | h) | h <;> simp [h])

end Ctx

/-- **C14 (walker level)**: from every state, for every tree without duplicate sibling keys, input and
    output are related leaf by leaf by `SelRel` (and have the same shape: `RelAt`) -/
theorem C14_walk (c : Ctx) (m : Str → Bool) (hre : c.cfg.re = some m) (hrfn : c.rfn = false) (hns : c.cfg.ns = false)
    (hempty : m [] = false) (s : St) (v : J) (hn : v.nodup = true) : c.RelAt (c.SelRel m) s v (c.run s v) :=
  Ctx.relAt_run c hrfn (c.SelRel m) (fun s a ha => Ctx.selRel_run c m hre hrfn hns hempty s a ha) s v hn

/-- **C14 (forced redaction is full redaction)**: in placeholder mode the forced result is the value
    itself only for path reasons (exempt operator), else exactly the class placeholder -/
theorem C14_forced (c : Ctx) (hplain : c.cfg.enc = none) (kp : List Str) (v : J) (S : Bool) :
    c.forced kp v S = if isTy? (getOp c.T kp S) .Exempt then v else placeholderOf c.T c.cfg v (classOf kp v) := by
  unfold Ctx.forced
  rw [C05_class c.T c.cfg hplain]
  simp [keptByPath]

/-- **C14 (path accumulation, query walker)**: the names in force below a key are the names above it
    plus that key; arrays are transparent; an array element that is a document continues the path -/
theorem C14_path_query (c : Ctx) (S : Bool) (co : Option Meta) (k : Str) (nkp : List Str) (kvs : List (Str × J)) (xs : List J)
    (pk : Str) (sel : Bool) (kp : List Str) :
    (∃ f, c.node (.QVal S co k nkp) (.obj kvs) = .obj f ∧ ∀ k' x, Ctx.names (f k' x).2 = nkp ++ [k']) ∧
    (∃ s', c.node (.QVal S co k nkp) (.arr xs) = .arr s' ∧ Ctx.names s' = nkp ++ [k]) ∧
    (∃ f, c.node (.AElem S pk sel kp) (.obj kvs) = .obj f ∧ ∀ k' x, Ctx.names (f k' x).2 = kp ++ [k']) ∧
    (∃ s', c.node (.AElem S pk sel kp) (.arr xs) = .arr s' ∧ Ctx.names s' = kp ++ [pk] ∧ Ctx.selOf s' = sel) := by
  refine ⟨⟨_, rfl, ?_⟩, ⟨_, rfl, rfl⟩, ⟨_, rfl, ?_⟩, ⟨_, rfl, rfl, rfl⟩⟩ <;> intro k' x <;> rfl

/-- the zones start with the empty path: names are counted from the root of the filter / update /
    document, exactly as the property says -/
theorem C14_path_root (c : Ctx) (kvs : List (Str × J)) :
    ∃ f, c.node .ZQ (.obj kvs) = .obj f ∧ ∀ k x, Ctx.names (f k x).2 = [k] := ⟨_, rfl, fun _ _ => rfl⟩

/-- **C14 (path accumulation, stage walker)**: below a stage key the path grows key by key (generic
    entries and sub-table entries alike) -/
theorem C14_path_stage (c : Ctx) (S : Bool) (kp : List Str) (kvs : List (Str × J)) :
    ∃ f, c.node (.P S kp) (.obj kvs) = .obj f ∧ ∀ k x, Ctx.names (f k x).2 = kp ++ [k] :=
  ⟨_, rfl, fun _ _ => rfl⟩

/-- **C14 (value independence)**: whether `redactScalarValue` hands a value back depends on the key
    path and the flags only (re-export of `C05_decision_value_free`) -/
theorem C14_value_free (T : Tables) (cfg : Cfg) (kp : List Str) (S sel : Bool) (v w : J) :
    keptByPath T cfg kp S sel = true → redactScalar T cfg kp v S sel = v ∧ redactScalar T cfg kp w S sel = w :=
  C05_decision_value_free T cfg kp S sel v w

/-- non-vacuity / worked instance: `{ssn: {$in: ["S"]}, n: "T"}` with the predicate "is `ssn`" -/
example : let m : Str → Bool := fun s => s == "ssn".toList
    let c : Ctx := ⟨Generated.tables, ⟨"R".toList, false, false, false, false, some m, none⟩, false⟩
    J.beq (c.run .ZQ (.obj [("ssn".toList, .obj [("$in".toList, .arr [.str "S".toList])]), ("n".toList, .str "T".toList)]))
      (.obj [("ssn".toList, .obj [("$in".toList, .arr [.str "R".toList])]), ("n".toList, .str "T".toList)]) = true := by
  decide +kernel

end Anonymongo
