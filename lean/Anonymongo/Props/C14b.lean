/-
  Props/C14b.lean — PROPERTY C14 with `--redactNamespaces` ON as well.

  `C14_walk` (Props/C14) is stated with namespace pseudonymisation off.  With it on, the only leaves the
  selective walker touches although no name on their path matches are the NAMESPACE positions (a
  `$lookup.from`, `$out`, `$merge.into` … argument, typed `Namespace` in the tables, or the string argument of a
  stage whose table names a collection): those become the pseudonym of the input string.  `C14_walk_ns`:
  for every tree and every state, at every scalar leaf
     (K') nothing on the path matches ⇒ the leaf is unchanged, or it is a string that became its own pseudonym
           (and then `--redactNamespaces` is on);
     (R)  something on the path matches ⇒ a leaf handed to `redactScalarValue` is redacted as in full mode.
-/
import Anonymongo.Props.C14
namespace Anonymongo
namespace Ctx

def SelRelNs (c : Ctx) (m : Str → Bool) (s : St) (a b : J) : Prop :=
  (searchOf s = false → isNsMember s = false → (names s).any m = false → selOf s = false →
      b = a ∨ (c.cfg.ns = true ∧ ∃ x, a = .str x ∧ b = .str (c.H x))) ∧
  (∀ kp S sel, c.leafMode s a = .scalar kp S sel → ((names s).any m = true ∨ selOf s = true) → b = c.forced kp a S)

section K
variable (c : Ctx) (m : Str → Bool) (hre : c.cfg.re = some m) (hrfn : c.rfn = false) (hempty : m [] = false)
include hre hrfn hempty

theorem nsMode_K (a : J) : c.applyMode (c.nsMode a) a = a ∨ (c.cfg.ns = true ∧ ∃ x, a = .str x ∧ c.applyMode (c.nsMode a) a = .str (c.H x)) := by
  cases a <;> simp only [nsMode] <;> (try (left; rfl))
  rename_i x
  by_cases h : c.cfg.ns = true
  · right; exact ⟨h, x, rfl, by simp [h]⟩
  · left; simp [h]

theorem pValScalarMode_K' (kp : List Str) (k : Str) (op : Option Meta) (a : J) (hn : (kp ++ [k]).any m = false) :
    c.applyMode (c.pValScalarMode false kp k op a) a = a ∨
      (c.cfg.ns = true ∧ ∃ x, a = .str x ∧ c.applyMode (c.pValScalarMode false kp k op a) a = .str (c.H x)) := by
  have hg := genericMode_K c m hre hrfn hempty (kp ++ [k]) a hn
  unfold pValScalarMode
  split
  · -- a sub-table: the string argument of a stage that names a collection
    split
    · rename_i hcond
      simp only [Bool.and_eq_true] at hcond
      cases a with
      | str x => right; exact ⟨hcond.1, x, rfl, rfl⟩
      | _ => left; exact hg
    · left; exact hg
  · left; simp only [hrfn, Bool.false_eq_true, if_false]; cases a <;> simp [hg]
  · exact nsMode_K c m hre hrfn hempty a
  · left; rfl
  · left; exact hg

theorem subValScalarMode_K' (k : Str) (nkp : List Str) (sk : Str) (sm : Option Meta) (a : J)
    (hn : (nkp ++ [sk]).any m = false) :
    c.applyMode (c.subValScalarMode false k nkp sk sm a) a = a ∨
      (c.cfg.ns = true ∧ ∃ x, a = .str x ∧ c.applyMode (c.subValScalarMode false k nkp sk sm a) a = .str (c.H x)) := by
  have hs := scalar_unmatched c m hre (nkp ++ [sk]) a hn
  unfold subValScalarMode
  split
  · left; cases a <;> simp [hrfn, hs]
  · exact nsMode_K c m hre hrfn hempty a
  · left; rfl
  · left; cases a <;> simp [hs]
  · left; cases a <;> simp [hs, hrfn]

end K

/-- every scalar is `SelRelNs`-related to what the walker emits for it — with or without `--redactNamespaces` -/
theorem selRelNs_run (c : Ctx) (m : Str → Bool) (hre : c.cfg.re = some m) (hrfn : c.rfn = false)
    (hempty : m [] = false) (s : St) (a : J) (ha : a.isScalar = true) : c.SelRelNs m s a (c.run s a) := by
  rw [run_scalar c s a ha]
  constructor
  · intro hS hok hn hsel
    have h0 : ∀ hns : c.cfg.ns = false, c.applyMode (c.leafMode s a) a = a :=
      fun hns => ((selRel_run c m hre hrfn hns hempty s a ha).1 |> fun h => by rw [run_scalar c s a ha] at h; exact h hS hok hn hsel)
    by_cases hns : c.cfg.ns = false
    · left; exact h0 hns
    · cases s with
      | PVal S kp k op => simp only [searchOf] at hS; subst hS; exact pValScalarMode_K' c m hre hrfn hempty kp k op a hn
      | SubVal S k nkp sk sm => simp only [searchOf] at hS; subst hS; exact subValScalarMode_K' c m hre hrfn hempty k nkp sk sm a hn
      | P S kp => left; simp only [searchOf] at hS; subst hS; exact pScalarMode_K c m hre hrfn hempty kp a hn
      | Facet => left; exact pScalarMode_K c m hre hrfn hempty [] a rfl
      | FacetStage => left; exact pScalarMode_K c m hre hrfn hempty [] a rfl
      | AElem S pk sel kp =>
        left
        simp only [searchOf] at hS; subst hS; simp only [selOf] at hsel; subst hsel
        exact aElemScalarMode_K c m hre hrfn hempty pk kp a hn
      | QVal S co k nkp => left; simp only [searchOf] at hS; subst hS; exact qValScalarMode_K c m hre hrfn hempty co nkp a hn
      | NsMember => simp [isNsMember] at hok
      | _ => left; cases a <;> rfl
  · intro kp S sel hm hany
    rw [hm]
    simp only [applyMode_scalar, scalar, forced]
    apply redactScalar_matched
    cases s <;> simp only [names, selOf, any_append_single, Bool.or_eq_true] at hany <;>
      cases a <;> simp only [J.isScalar, Bool.false_eq_true] at ha <;>
      simp only [leafMode, pScalarMode, pValScalarMode, subValScalarMode, aElemScalarMode, qValScalarMode,
        genericMode, nsMode, dollarMode, hrfn] at hm <;>
      (try (repeat' split at hm)) <;> (try cases hm) <;>
      simp_all [reMatchesAny, any_append_single] <;>
      (rcases hany with (h | h) | h <;> simp [h])

end Ctx

/-- **C14 (walker level, any setting of --redactNamespaces)** -/
theorem C14_walk_ns (c : Ctx) (m : Str → Bool) (hre : c.cfg.re = some m) (hrfn : c.rfn = false)
    (hempty : m [] = false) (s : St) (v : J) (hn : v.nodup = true) : c.RelAt (c.SelRelNs m) s v (c.run s v) :=
  Ctx.relAt_run c hrfn (c.SelRelNs m) (fun s a ha => Ctx.selRelNs_run c m hre hrfn hempty s a ha) s v hn

end Anonymongo
