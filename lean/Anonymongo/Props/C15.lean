/-
  Props/C15.lean — PROPERTY C15: field-name redaction (--redactFieldNames <ns>).

   * `C15_other_ns`   : a line whose attr.ns none of the configured paths prefixes is redacted
                        exactly as without the flag (the flag is simply not consulted);
   * `C15_eager_iff`  : the mode is on for a line iff some configured path is a prefix of its attr.ns;
   * `C15_key_rename` : with the mode on, in the query walker a key that is not an operator is
                        replaced by `hashName key`, an operator key is kept; sibling count and order
                        are preserved (`C15_siblings`);
   * `C15_refs`       : a "$field" reference becomes `hashName field` — the SAME pseudonym as the key
                        `field` (`C13_dollar`), in the query walker, the array walker and (since the
                        `fix:`) as a direct value in the stage walker; operator names are kept;
   * `C15_values`     : a value that is not a "$…" string is redacted by the query walker exactly as
                        without the flag;
   * `C15_plan_*`     : COLLSCAN and summaries without an index scan are unchanged; each index key is
                        rewritten where it stands to the pseudonym the filter uses (worked instances
                        evaluated in the kernel, incl. the former garbage case `IXSCAN { a: 1, b: 1 }`).
  Known findings (recorded, not theorems): projection / distinct key not walked, Atlas Search `path`
  arguments, arrays of names under FieldName-typed arguments.
-/
import Anonymongo.Lemmas.LineAlg
import Anonymongo.Lemmas.LeafMode
import Anonymongo.Model.Plan
import Anonymongo.Props.C13
import Anonymongo.Generated.Tables
namespace Anonymongo

/-- the per-line switch -/
def eagerFor (eagerPaths : List Str) (attr : List (Str × J)) : Bool :=
  eagerPaths.any fun p => isPrefix p (strOrEmpty (lookup sNs attr))

theorem attrFn_eager_congr (cd : Ctx → J → J) (T : Tables) (cfg : Cfg) (e1 e2 : List Str) (plan : Str → Str → Str) (g : Bool)
    (attr : List (Str × J)) (h : eagerFor e1 attr = eagerFor e2 attr) :
    attrFn cd T cfg e1 plan g attr = attrFn cd T cfg e2 plan g attr := by
  unfold eagerFor at h
  funext k v
  simp only [attrFn, h]

/-- **C15 (other namespaces)**: if no configured path is a prefix of the line's namespace the line is
    redacted exactly as without the flag -/
theorem C15_other_ns (T : Tables) (cfg : Cfg) (eager : List Str) (plan : Str → Str → Str) (g : Bool)
    (attr : List (Str × J)) (h : eagerFor eager attr = false) :
    redactAttr T cfg eager plan g attr = redactAttr T cfg [] plan g attr := by
  unfold redactAttr
  rw [redactAttrWith_eq_mapVals, redactAttrWith_eq_mapVals,
    attrFn_eager_congr Ctx.cmdDoc T cfg eager [] plan g attr (by rw [h]; rfl)]

/-- **C15 (when the mode is on)**: every command document of a gated line is redacted with
    `rfn = eagerFor paths attr` -/
theorem C15_eager_iff (T : Tables) (cfg : Cfg) (eager : List Str) (plan : Str → Str → Str)
    (attr : List (Str × J)) (k : Str) (hk : cmdKeys.contains k = true) (v : J) (h : lookup k attr = some v) :
    lookup k (redactAttr T cfg eager plan true attr) =
      some (Ctx.cmdDoc { T := T, cfg := cfg, rfn := eagerFor eager attr } v) := by
  have n1 : k ≠ sRemote := by intro e; subst e; revert hk; decide
  have n2 : k ≠ sNs := by intro e; subst e; revert hk; decide
  have n3 : k ≠ sPlanSummary := by intro e; subst e; revert hk; decide
  unfold redactAttr
  rw [lookup_redactAttrWith, h]
  simp only [Option.map_some, attrFn, eagerFor, hk, n1, n2, n3, decide_false, Bool.and_false, Bool.false_eq_true, if_false, if_true]

/-- **C15 (key renaming, query walker)**: a non-operator key becomes its pseudonym, an operator key
    (known to the parent's sub-table, else to the core table) is kept -/
theorem C15_key_rename (c : Ctx) (hrfn : c.rfn = true) (pc : Option Meta) (k : Str) :
    c.qKey (c.qOp pc k) k = if (c.qOp pc k).isNone then hashName c.cfg.repl k else k := by
  simp [Ctx.qKey, hrfn, Ctx.H]

/-- **C15 (siblings)**: the query walker emits one member per input member, in order -/
theorem C15_siblings (c : Ctx) (S : Bool) (pc : Option Meta) (kp : List Str) :
    ∀ kvs, (c.Q S pc kp kvs).length = kvs.length ∧
      (c.Q S pc kp kvs).map (·.1) = kvs.map fun p => c.qKey (c.qOp pc p.1) p.1
  | [] => by simp [Ctx.Q]
  | (k, v) :: rest => by
    have ih := C15_siblings c S pc kp rest
    simp [Ctx.Q, ih.1, ih.2]

/-- **C15 ("$field" references)**: with the mode on a reference that is not an operator name becomes
    the pseudonym of the field — the same string the key `field` is renamed to -/
theorem C15_refs (c : Ctx) (hrfn : c.rfn = true) (f : Str) (hop : (lookup ('$' :: f) c.T.core).isNone = true)
    (S : Bool) (co : Option Meta) (nkp kp : List Str) (pk : Str) (sel : Bool) :
    c.qValScalar S co nkp (.str ('$' :: f)) = .str (hashName c.cfg.repl f) ∧
    c.aElemScalar S pk sel kp (.str ('$' :: f)) = .str (hashName c.cfg.repl f) ∧
    c.genericScalar S nkp (.str ('$' :: f)) = .str (hashName c.cfg.repl f) ∧
    c.pScalar S kp (.str ('$' :: f)) = .str (hashName c.cfg.repl f) := by
  have hd : c.dollarString ('$' :: f) = .str (hashName c.cfg.repl f) := by
    simp [Ctx.dollarString, hrfn, hop, Ctx.H, C13_dollar]
  refine ⟨?_, ?_, ?_, ?_⟩ <;> simp [Ctx.qValScalar, Ctx.aElemScalar, Ctx.genericScalar, Ctx.pScalar, dollarPrefixed, hd]

/-- **C15 (values as without the flag)**: on a value that is not a "$…" string the query walker and
    the array walker do not look at the flag -/
theorem C15_values (T : Tables) (cfg : Cfg) (S : Bool) (co : Option Meta) (nkp kp : List Str) (pk : Str) (sel : Bool) (v : J)
    (hv : ∀ s, v = .str s → dollarPrefixed s = false) :
    Ctx.qValScalar ⟨T, cfg, true⟩ S co nkp v = Ctx.qValScalar ⟨T, cfg, false⟩ S co nkp v ∧
    Ctx.aElemScalar ⟨T, cfg, true⟩ S pk sel kp v = Ctx.aElemScalar ⟨T, cfg, false⟩ S pk sel kp v := by
  cases v <;> simp [Ctx.qValScalar, Ctx.aElemScalar, Ctx.scalar]
  rename_i s
  have := hv s rfl
  simp [this]

/-- **C15 (plan summary, unchanged cases)** -/
theorem C15_plan_collscan (r : Str) : redactPlan r sCOLLSCAN = sCOLLSCAN := by simp [redactPlan, redactPlanWith]

/-- a visible stand-in for the pseudonym function: `k ↦ <k>` -/
def markName (k : Str) : Str := '<' :: k ++ ['>']

/-- **C15 (plan summary, worked instances evaluated in the kernel)**, with the stand-in `k ↦ <k>` for
    the pseudonym function (the rewriter `redactPlanWith` is parametric in it; `redactPlan repl` is
    its instance at `hashName repl`, the function the filter keys go through): every index key is
    replaced where it stands; spacing, directions, other stages are kept; names that contain one
    another and single hex letters (the former garbage case) are handled. -/
theorem C15_plan_instances :
    redactPlanWith markName "IXSCAN { a: 1, b: 1 }".toList = "IXSCAN { <a>: 1, <b>: 1 }".toList ∧
    redactPlanWith markName "IXSCAN { foo: 1, foobar: -1 }".toList = "IXSCAN { <foo>: 1, <foobar>: -1 }".toList ∧
    redactPlanWith markName "FETCH IXSCAN {x.y:-1 ,  z : 1}, IXSCAN { x.y: 1 }".toList =
      "FETCH IXSCAN {<x.y>:-1 ,  <z> : 1}, IXSCAN { <x.y>: 1 }".toList ∧
    redactPlanWith markName "IDHACK".toList = "IDHACK".toList ∧
    redactPlanWith markName "COLLSCAN".toList = "COLLSCAN".toList ∧
    redactPlanWith markName "IXSCAN { }".toList = "IXSCAN { }".toList := by
  decide +kernel

theorem C15_plan_def (r : Str) (ps : Str) : redactPlan r ps = redactPlanWith (hashName r) ps := rfl

/-- the plan-summary pseudonym of a key is the pseudonym of that key in the filter (same function) -/
theorem C15_plan_consistent (c : Ctx) (hrfn : c.rfn = true) (k : Str) (hk : (c.qOp none k).isNone = true) :
    c.qKey (c.qOp none k) k = hashName c.cfg.repl k := by
  simp [Ctx.qKey, hrfn, hk, Ctx.H]

end Anonymongo
