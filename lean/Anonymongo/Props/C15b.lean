/-
  Props/C15b.lean — PROPERTY C15, plan summary, for index specifications of ANY shape and length
  (the earlier `C15_plan_instances` are worked examples; this is the general statement).
-/
import Anonymongo.Lemmas.PlanGen
import Anonymongo.Props.C15
namespace Anonymongo

theorem matchIxscanHere_needs_I (c : Char) (r : Str) (hc : c ≠ 'I') : matchIxscanHere (c :: r) = none := by
  unfold matchIxscanHere
  have : isPrefix sIXSCAN (c :: r) = false := by
    simp only [sIXSCAN]
    exact isPrefix_head_ne 'I' c _ _ (fun e => hc e.symm)
  simp [this]

/-- text without the letter `I` holds no index scan and is left alone -/
theorem redactIxscans_no_I (h : Str → Str) : ∀ (fuel : Nat) (s : Str), (∀ c ∈ s, c ≠ 'I') → redactIxscans h fuel s = s
  | 0, _, _ => rfl
  | _ + 1, [], _ => rfl
  | fuel + 1, c :: r, hs => by
    simp only [redactIxscans, matchIxscanHere_needs_I c r (hs c (by simp))]
    rw [redactIxscans_no_I h fuel r (fun x hx => hs x (by simp [hx]))]

theorem intercalate_ne_nil (m : IndexMember) (ms : List IndexMember) :
    intercalate [','] ((m :: ms).map IndexMember.text) ≠ [] := by
  cases ms with
  | nil => simp [intercalate, IndexMember.text]
  | cons m2 rest => simp [intercalate, IndexMember.text]

/-- the text `IXSCAN <spaces> { m₁, …, mₙ } rest` -/
def planText (ws : Str) (ms : List IndexMember) (rest : Str) : Str :=
  sIXSCAN ++ ws ++ '{' :: (intercalate [','] (ms.map IndexMember.text) ++ '}' :: rest)

/-- **C15 (plan summary, general)**: a summary that starts with an index scan `IXSCAN <spaces> { m₁, …, mₙ } rest`
    over ANY number of well-formed members (spaces, key, spaces, `:`, direction; no `,` / `}` inside a member) is
    rewritten to the same text with every key replaced WHERE IT STANDS by `h key` — each key by its own pseudonym,
    whatever the other keys are (prefixes of one another, equal to parts of a pseudonym, …) — spacing, directions
    and separators kept; `rest` is treated the same way (and is unchanged when it holds no further scan). -/
theorem C15_plan_general (h : Str → Str) (ws : Str) (ms : List IndexMember) (rest : Str)
    (hws : ∀ c ∈ ws, isReSpace c = true) (hne : ms ≠ [])
    (hcomma : ∀ m ∈ ms, ∀ c ∈ m.text, c ≠ ',') (hbrace : ∀ m ∈ ms, ∀ c ∈ m.text, c ≠ '}') :
    redactPlanWith h (planText ws ms rest) =
      sIXSCAN ++ ws ++ '{' :: (intercalate [','] (ms.map (IndexMember.redacted h)) ++ '}' :: redactIxscans h (planText ws ms rest).length rest) := by
  have hcoll : planText ws ms rest ≠ sCOLLSCAN := by
    intro e
    have h1 : (planText ws ms rest).head? = some 'I' := by simp [planText, sIXSCAN]
    have h2 : sCOLLSCAN.head? = some 'C' := by decide
    rw [e, h2] at h1
    cases h1
  unfold redactPlanWith
  simp only [hcoll, if_false]
  show redactIxscans h ((planText ws ms rest).length + 1) (planText ws ms rest) = _
  unfold planText
  have hb : intercalate [','] (ms.map IndexMember.text) ≠ [] := by
    cases ms with
    | nil => exact absurd rfl hne
    | cons m rest' => exact intercalate_ne_nil m rest'
  have hbr : ∀ c ∈ intercalate [','] (ms.map IndexMember.text), c ≠ '}' := by
    intro c hc
    have : ∀ (xs : List Str), (∀ x ∈ xs, ∀ c ∈ x, c ≠ '}') → ∀ c ∈ intercalate [','] xs, c ≠ '}' := by
      intro xs
      induction xs with
      | nil => intro _ c hc; simp [intercalate] at hc
      | cons x t ih =>
        intro hx c hc
        cases t with
        | nil => simp only [intercalate] at hc; exact hx x (by simp) c hc
        | cons y t' =>
          simp only [intercalate, List.mem_append] at hc
          rcases hc with (hc | hc) | hc
          · exact hx x (by simp) c hc
          · simp at hc; subst hc; decide
          · exact ih (fun z hz => hx z (by simp [hz])) c hc
    exact this _ (by intro x hx; simp only [List.mem_map] at hx; obtain ⟨m, hm, rfl⟩ := hx; exact hbrace m hm) c hc
  rw [redactIxscans_head h _ ws _ rest hws hb hbr, redactIndexBody_members h ms hne hcomma]

/-- non-vacuity: ` userId : -1` is a well-formed member -/
def exampleMember : IndexMember where
  ws1 := " ".toList
  key := "userId".toList
  ws2 := " ".toList
  dir := " -1 ".toList
  key_ne := by decide
  ws1_sp := by decide
  ws2_sp := by decide
  key_first := by decide
  key_last := by decide
  key_nocolon := by decide

example : exampleMember.text = " userId : -1 ".toList ∧ exampleMember.redacted markName = " <userId> : -1 ".toList := by
  decide

/-- instance: the compound index `IXSCAN { user: 1, userId: -1 }` (a key that is a prefix of a later key) -/
example : redactPlanWith markName "IXSCAN { user: 1, userId: -1 }".toList = "IXSCAN { <user>: 1, <userId>: -1 }".toList := by
  decide +kernel

/-- **bare operator keys** (obligation on the REGENERATED core table): the only keys of the core operator table that do
    not start with `$` - and that a user field of the same name is therefore mistaken for under `--redactFieldNames`
    (recorded known finding) - are `if`, `then`, `else`; a new bare key would silently exempt every user field of that name -/
theorem C15_bare_core_keys :
    ((Generated.tables.core.filter fun p => !dollarPrefixed p.1).map (·.1)) = ["if".toList, "then".toList, "else".toList] := by
  decide +kernel

end Anonymongo
