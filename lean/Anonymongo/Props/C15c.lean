/-
  Props/C15c.lean — PROPERTY C15, plan summary: summaries with ANY number of index scans ANYWHERE.

  `C15_plan_all`: a plan summary is modelled as  pre₁ SCAN₁ pre₂ SCAN₂ … preₙ SCANₙ tail  where each SCANᵢ is
  `IXSCAN <spaces> { m₁, …, mₖ }` over well-formed members and the texts between / around the scans hold no
  `IX` (so that nothing in them can be mistaken for the start of a scan: `FETCH`, `IDHACK`, `SORT_MERGE`,
  `COUNT_SCAN`, `DISTINCT_SCAN`, commas, parentheses … are all allowed).  The rewriter returns the same text
  with every key of every scan replaced where it stands by its own pseudonym, and nothing else touched.
  `C15_plan_general` (Props/C15b) is the special case of one scan at the very start.
-/
import Anonymongo.Props.C15b
namespace Anonymongo

/-- no adjacent `I`,`X` -/
def noIX : Str → Bool
  | a :: b :: r => !(a = 'I' && b = 'X') && noIX (b :: r)
  | _ => true

theorem redactIxscans_nil (h : Str → Str) (fuel : Nat) : redactIxscans h fuel [] = [] := by
  cases fuel <;> rfl

theorem matchIxscanHere_noIX (c : Char) (r : Str) (hc : c = 'I' → r.head? ≠ some 'X') : matchIxscanHere (c :: r) = none := by
  unfold matchIxscanHere
  have : isPrefix sIXSCAN (c :: r) = false := by
    by_cases hI : c = 'I'
    · subst hI
      cases r with
      | nil => decide
      | cons d r' =>
        have hd : d ≠ 'X' := by
          intro e; subst e; exact hc rfl rfl
        have : ('X' == d) = false := by
          simp only [beq_eq_false_iff_ne, ne_eq]; exact fun e => hd e.symm
        simp [sIXSCAN, isPrefix, this]
    · have : ('I' == c) = false := by
        simp only [beq_eq_false_iff_ne, ne_eq]; exact fun e => hI e.symm
      simp [sIXSCAN, isPrefix, this]
  simp [this]

/-- a stretch of text without `IX`, followed by text that does not start with `X`, is copied -/
theorem redactIxscans_pre (h : Str → Str) : ∀ (pre t : Str) (fuel : Nat), noIX pre = true → t.head? ≠ some 'X' →
    redactIxscans h (pre.length + fuel) (pre ++ t) = pre ++ redactIxscans h fuel t
  | [], t, fuel, _, _ => by simp
  | [c], t, fuel, _, ht => by
    have hm : matchIxscanHere (c :: t) = none := matchIxscanHere_noIX c t (fun _ => ht)
    have e : [c].length + fuel = fuel + 1 := by simp; omega
    rw [e]
    simp only [List.cons_append, List.nil_append, redactIxscans, hm]
  | c :: d :: pre, t, fuel, hp, ht => by
    simp only [noIX, Bool.and_eq_true, Bool.not_eq_true', Bool.and_eq_false_iff] at hp
    have hm : matchIxscanHere (c :: (d :: pre ++ t)) = none := by
      apply matchIxscanHere_noIX
      intro hc hx
      simp only [List.cons_append, List.head?_cons, Option.some.injEq] at hx
      rcases hp.1 with h1 | h1
      · simp [hc] at h1
      · simp [hx] at h1
    have e : (c :: d :: pre).length + fuel = ((d :: pre).length + fuel) + 1 := by simp; omega
    rw [e]
    simp only [List.cons_append] at hm
    simp only [List.cons_append, redactIxscans, hm]
    have ih := redactIxscans_pre h (d :: pre) t fuel hp.2 ht
    simp only [List.cons_append] at ih
    rw [ih]

/-- one index scan with the text in front of it -/
structure Scan where
  pre : Str
  ws : Str
  ms : List IndexMember

def Scan.wf (s : Scan) : Prop :=
  noIX s.pre = true ∧ (∀ c ∈ s.ws, isReSpace c = true) ∧ s.ms ≠ [] ∧
  (∀ m ∈ s.ms, ∀ c ∈ m.text, c ≠ ',') ∧ (∀ m ∈ s.ms, ∀ c ∈ m.text, c ≠ '}')

/-- the summary text -/
def planOf : List Scan → Str → Str
  | [], tail => tail
  | s :: rest, tail => s.pre ++ planText s.ws s.ms (planOf rest tail)

/-- the same text with every key replaced where it stands -/
def planRedacted (h : Str → Str) : List Scan → Str → Str
  | [], tail => tail
  | s :: rest, tail =>
    s.pre ++ (sIXSCAN ++ s.ws ++ '{' :: (intercalate [','] (s.ms.map (IndexMember.redacted h)) ++ '}' :: planRedacted h rest tail))

theorem planOf_head_ne_X (scans : List Scan) (tail : Str) (ht : tail.head? ≠ some 'X')
    (hp : ∀ s ∈ scans, s.pre.head? ≠ some 'X') : (planOf scans tail).head? ≠ some 'X' := by
  cases scans with
  | nil => exact ht
  | cons s rest =>
    simp only [planOf]
    cases hpre : s.pre with
    | nil => simp [planText, sIXSCAN]
    | cons c r =>
      have := hp s (by simp)
      rw [hpre] at this
      simpa using this

theorem planText_length (ws : Str) (ms : List IndexMember) (rest : Str) : rest.length + 8 ≤ (planText ws ms rest).length := by
  simp [planText, sIXSCAN]; omega

theorem intercalate_no_brace : ∀ (xs : List Str), (∀ x ∈ xs, ∀ c ∈ x, c ≠ '}') → ∀ c ∈ intercalate [','] xs, c ≠ '}'
  | [], _, c, hc => by simp [intercalate] at hc
  | [x], hx, c, hc => by simp only [intercalate] at hc; exact hx x (by simp) c hc
  | x :: y :: t, hx, c, hc => by
    simp only [intercalate, List.mem_append] at hc
    rcases hc with (hc | hc) | hc
    · exact hx x (by simp) c hc
    · simp at hc; subst hc; decide
    · exact intercalate_no_brace (y :: t) (fun z hz => hx z (by simp [hz])) c hc

/-- the rewriter on a whole summary, for any sufficient fuel -/
theorem redactIxscans_plan (h : Str → Str) : ∀ (scans : List Scan) (tail : Str) (fuel : Nat),
    (∀ s ∈ scans, s.wf) → (∀ s ∈ scans, s.pre.head? ≠ some 'X') → noIX tail = true → tail.head? ≠ some 'X' →
    (planOf scans tail).length ≤ fuel →
    redactIxscans h fuel (planOf scans tail) = planRedacted h scans tail
  | [], tail, fuel, _, _, htl, _, hf => by
    simp only [planOf, planRedacted] at hf ⊢
    obtain ⟨k, rfl⟩ : ∃ k, fuel = tail.length + k := ⟨fuel - tail.length, by omega⟩
    have := redactIxscans_pre h tail [] k htl (by simp)
    simpa [redactIxscans_nil] using this
  | s :: rest, tail, fuel, hwf, hpx, htl, htx, hf => by
    obtain ⟨hpre, hws, hne, hcomma, hbrace⟩ := hwf s (by simp)
    simp only [planOf, planRedacted] at hf ⊢
    have hlen := planText_length s.ws s.ms (planOf rest tail)
    simp only [List.length_append] at hf
    obtain ⟨k, rfl⟩ : ∃ k, fuel = s.pre.length + (k + 1) := ⟨fuel - s.pre.length - 1, by omega⟩
    rw [redactIxscans_pre h s.pre _ (k + 1) hpre (by simp [planText, sIXSCAN])]
    congr 1
    unfold planText
    have hb : intercalate [','] (s.ms.map IndexMember.text) ≠ [] := by
      cases hms : s.ms with
      | nil => exact absurd hms hne
      | cons m r => exact intercalate_ne_nil m r
    have hbr : ∀ c ∈ intercalate [','] (s.ms.map IndexMember.text), c ≠ '}' :=
      intercalate_no_brace _ (by intro x hx; simp only [List.mem_map] at hx; obtain ⟨m, hm, rfl⟩ := hx; exact hbrace m hm)
    rw [redactIxscans_head h k s.ws _ _ hws hb hbr, redactIndexBody_members h s.ms hne hcomma]
    rw [redactIxscans_plan h rest tail k (fun x hx => hwf x (by simp [hx])) (fun x hx => hpx x (by simp [hx])) htl htx (by omega)]

/-- **C15 (plan summary, every scan of every summary)**: for a summary  pre₁ SCAN₁ … preₙ SCANₙ tail  whose scans are
    well-formed and whose other text holds no `IX` (and does not start with `X`), `redactFieldNamesFromPlanSummary` returns
    the same text with every key of every scan replaced WHERE IT STANDS by its own pseudonym — whatever the keys are
    (prefixes of one another, equal across scans, equal to parts of a pseudonym) — and leaves spacing, directions,
    separators, stage names and everything between the scans untouched. -/
theorem C15_plan_all (h : Str → Str) (scans : List Scan) (tail : Str)
    (hwf : ∀ s ∈ scans, s.wf) (hpx : ∀ s ∈ scans, s.pre.head? ≠ some 'X') (htl : noIX tail = true) (htx : tail.head? ≠ some 'X') :
    redactPlanWith h (planOf scans tail) = planRedacted h scans tail := by
  unfold redactPlanWith
  split
  · -- the text is literally COLLSCAN: it holds no '{', so there is no scan, and it is returned as it is
    rename_i hc
    cases scans with
    | nil => rfl
    | cons s rest =>
      exfalso
      have hmem : '{' ∈ planOf (s :: rest) tail := by simp [planOf, planText]
      rw [hc] at hmem
      revert hmem; decide
  · exact redactIxscans_plan h scans tail _ hwf hpx htl htx (by omega)

/-- instance: a fetch over two scans joined by an OR stage, with a key shared by both -/
example : redactPlanWith markName "FETCH, OR { IXSCAN { user: 1, userId: -1 }, IXSCAN {userId:1} } IDHACK".toList =
    "FETCH, OR { IXSCAN { <user>: 1, <userId>: -1 }, IXSCAN {<userId>:1} } IDHACK".toList := by
  decide +kernel

example : noIX "FETCH, OR { ".toList = true ∧ noIX " } IDHACK DISTINCT_SCAN TEXT".toList = true := by decide

end Anonymongo
