/-
  Props/C16.lean — PROPERTIES C16 and C17 over the Atlas trace model (for every number of hosts,
  every fault position and kind).
-/
import Anonymongo.Model.Atlas
namespace Anonymongo.Atlas

def requests (t : List Ev) : List Ev := t.filter fun e => match e with | .lookup => true | .download _ => true | _ => false
def outputs (t : List Ev) : List Ev := t.filter fun e => match e with | .outWrite _ => true | _ => false

theorem downloadLoop_ok (dl : Nat → DlFault) (hok : ∀ i, dl i = .none) : ∀ n i have_,
    downloadLoop dl n i have_ =
      ((List.range' i n).flatMap (fun j => [Ev.download j, Ev.tmpCreate j]), some (have_ ++ List.range' i n))
  | 0, i, have_ => by simp [downloadLoop]
  | n + 1, i, have_ => by
    simp only [downloadLoop, hok i]
    rw [downloadLoop_ok dl hok n (i + 1) (have_ ++ [i])]
    simp [List.range'_succ, List.append_assoc]

theorem fileLoop_ok (ff : Nat → FileFault) (hok : ∀ i, ff i = .none) (all : List Nat) : ∀ files,
    fileLoop ff all files = files.flatMap (fun i => [Ev.outCreate i, Ev.outWrite i]) ++ removeAll all
  | [] => by simp [fileLoop]
  | i :: rest => by simp [fileLoop, hok i, fileLoop_ok ff hok all rest]

/-- **C16 (requests)**: when nothing fails, the authenticated requests are the cluster lookup followed
    by exactly one log download per host, in host order -/
theorem C16_requests (n : Nat) (dl : Nat → DlFault) (ff : Nat → FileFault)
    (h1 : ∀ i, dl i = .none) (h2 : ∀ i, ff i = .none) :
    requests (run .none n dl ff) = Ev.lookup :: (List.range n).map Ev.download := by
  simp only [run, downloadLoop_ok dl h1, fileLoop_ok ff h2, List.nil_append, List.range_eq_range']
  simp only [requests, List.filter_cons, List.filter_append]
  have a : ∀ l : List Nat, (l.flatMap fun j => [Ev.download j, Ev.tmpCreate j]).filter
      (fun e => match e with | .lookup => true | .download _ => true | _ => false) = l.map Ev.download := by
    intro l; induction l with
    | nil => rfl
    | cons x t ih => simp [List.flatMap_cons, List.filter_cons, ih]
  have b : ∀ l : List Nat, (l.flatMap fun i => [Ev.outCreate i, Ev.outWrite i]).filter
      (fun e => match e with | .lookup => true | .download _ => true | _ => false) = [] := by
    intro l; induction l with
    | nil => rfl
    | cons x t ih => simp [List.flatMap_cons, List.filter_cons, ih]
  have c : ∀ l : List Nat, (removeAll l).filter
      (fun e => match e with | .lookup => true | .download _ => true | _ => false) = [] := by
    intro l; induction l with
    | nil => rfl
    | cons x t ih => simp_all [removeAll]
  simp [a, b, c]

/-- **C16 (outputs)**: when nothing fails, `<outputFile>.<i>` receives the redaction of host i's log,
    for i = 0 … n-1 in order, each exactly once -/
theorem C16_outputs (n : Nat) (dl : Nat → DlFault) (ff : Nat → FileFault)
    (h1 : ∀ i, dl i = .none) (h2 : ∀ i, ff i = .none) :
    outputs (run .none n dl ff) = (List.range n).map Ev.outWrite := by
  simp only [run, downloadLoop_ok dl h1, fileLoop_ok ff h2, List.nil_append, List.range_eq_range']
  simp only [outputs, List.filter_cons, List.filter_append]
  have a : ∀ l : List Nat, (l.flatMap fun j => [Ev.download j, Ev.tmpCreate j]).filter
      (fun e => match e with | .outWrite _ => true | _ => false) = [] := by
    intro l; induction l with
    | nil => rfl
    | cons x t ih => simp [List.flatMap_cons, List.filter_cons, ih]
  have b : ∀ l : List Nat, (l.flatMap fun i => [Ev.outCreate i, Ev.outWrite i]).filter
      (fun e => match e with | .outWrite _ => true | _ => false) = l.map Ev.outWrite := by
    intro l; induction l with
    | nil => rfl
    | cons x t ih => simp [List.flatMap_cons, List.filter_cons, ih]
  have c : ∀ l : List Nat, (removeAll l).filter
      (fun e => match e with | .outWrite _ => true | _ => false) = [] := by
    intro l; induction l with
    | nil => rfl
    | cons x t ih => simp_all [removeAll]
  simp [a, b, c]

/-- **C16 (window)**: without dates the window is the last seven days ending now, start before end;
    with both dates it is what was given -/
theorem C16_window (now s e : Nat) (hnow : 604800 < now) :
    window now 0 0 = (now - 604800, now) ∧ (window now 0 0).1 < (window now 0 0).2 ∧
    (s ≠ 0 → window now s e = (s, e)) := by
  refine ⟨by simp [window], by simp [window]; omega, ?_⟩
  intro hs; simp [window, hs]

/-- **C16 (hosts)**: one host per member, in order, port stripped -/
theorem C16_hosts (hps : List Str) : (hostsOf hps).length = hps.length ∧
    ∀ i (h : i < hps.length), (hostsOf hps)[i]'(by simp [hostsOf]; exact h) = stripPort hps[i] := by
  simp [hostsOf]

example : stripPort "h1.example.net:27017".toList = "h1.example.net".toList := by decide

/-! ### C17 -/

theorem live_append (a b : List Ev) (acc : List Nat) : live (a ++ b) acc = live b (live a acc) := by
  induction a generalizing acc with
  | nil => rfl
  | cons e t ih => cases e <;> simp [live, ih]

theorem live_removeAll (files acc : List Nat) (h : ∀ x ∈ acc, x ∈ files) : live (removeAll files) acc = [] := by
  induction files generalizing acc with
  | nil =>
    cases acc with
    | nil => rfl
    | cons a t => exact absurd (h a (by simp)) (by simp)
  | cons f rest ih =>
    simp only [removeAll, List.map_cons, live]
    apply ih
    intro x hx
    simp only [List.mem_filter, decide_eq_true_eq] at hx
    have := h x hx.1
    simp only [List.mem_cons] at this
    rcases this with e | e
    · exact absurd e hx.2
    · exact e

theorem live_exit (acc : List Nat) (c : Nat) : live [Ev.exit c] acc = acc := rfl

/-- the download loop: after it, either it failed and nothing is alive, or it succeeded and exactly
    the returned files are alive -/
theorem downloadLoop_live (dl : Nat → DlFault) : ∀ n i have_,
    (match downloadLoop dl n i have_ with
     | (t, none) => live t have_ = []
     | (t, some files) => live t have_ = files)
  | 0, i, have_ => by simp [downloadLoop, live]
  | n + 1, i, have_ => by
    cases hd : dl i with
    | none =>
      simp only [downloadLoop, hd]
      have ih := downloadLoop_live dl n (i + 1) (have_ ++ [i])
      rcases hr : downloadLoop dl n (i + 1) (have_ ++ [i]) with ⟨t, r⟩
      rw [hr] at ih
      cases r <;> simpa [live] using ih
    | status => simp only [downloadLoop, hd, live]; exact live_removeAll have_ have_ (fun _ h => h)
    | transport => simp only [downloadLoop, hd, live]; exact live_removeAll have_ have_ (fun _ h => h)
    | tmpCreate => simp only [downloadLoop, hd, live]; exact live_removeAll have_ have_ (fun _ h => h)
    | bodyCut =>
      simp only [downloadLoop, hd, live]
      apply live_removeAll
      intro x hx
      simp only [List.mem_filter, List.mem_append, List.mem_singleton, decide_eq_true_eq] at hx
      rcases hx.1 with e | e
      · exact e
      · exact absurd e hx.2

/-- the per-file loop removes every downloaded file on every path -/
theorem fileLoop_live (ff : Nat → FileFault) (all : List Nat) : ∀ files, live (fileLoop ff all files) all = []
  | [] => by simp only [fileLoop]; exact live_removeAll all all (fun _ h => h)
  | i :: rest => by
    have ih := fileLoop_live ff all rest
    have hr := live_removeAll all all (fun _ h => h)
    cases hf : ff i <;> simp only [fileLoop, hf, live, live_append, hr, ih]

/-- **C17**: for EVERY number of hosts, every cluster-lookup outcome, every download fault at every
    host and every per-file fault at every file — and on success — no temporary file is alive when the
    trace ends (return or exit) -/
theorem C17_no_leftovers (cf : ClusterFault) (n : Nat) (dl : Nat → DlFault) (ff : Nat → FileFault) :
    live (run cf n dl ff) [] = [] := by
  cases cf with
  | lookupFails => rfl
  | badConnString => rfl
  | none =>
    simp only [run]
    have h := downloadLoop_live dl n 0 []
    rcases hr : downloadLoop dl n 0 [] with ⟨t, r⟩
    rw [hr] at h
    cases r with
    | none => simp only [live, live_append, h]
    | some files => simp only [live, live_append, h]; exact fileLoop_live ff files files

/-- non-vacuity: three hosts, the body of the third is cut: two complete files and one partial file
    existed, none is left -/
example : live (run .none 3 (fun i => if i = 2 then .bodyCut else .none) (fun _ => .none)) [] = [] ∧
    (run .none 3 (fun i => if i = 2 then .bodyCut else .none) (fun _ => .none)).length = 11 := by decide

end Anonymongo.Atlas
