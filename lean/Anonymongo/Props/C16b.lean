/-
  Props/C16b.lean — PROPERTY C16, the time window, proved about the function TRANSLATED from the source
  (`Generated/Window.lean`: `GetStartAndEndDates` of reader.go, re-translated by tools/extract on every run).

  `C16_window` (Props/C16) is about the hand-written `Atlas.window`; here the same statements — and the
  one-sided cases the validation chain excludes — are proved about the source's own text, and
  `C16_window_model` shows that the model's function IS the source's wherever `main` can call it.
-/
import Anonymongo.Generated.Window
import Anonymongo.Props.C16
namespace Anonymongo
open Generated

/-- **no dates given**: the last seven days, ending at the clock read; start before end -/
theorem C16_window_default (now : Int) :
    getStartAndEndDates now 0 0 = (now - 604800, now) ∧ (getStartAndEndDates now 0 0).1 < (getStartAndEndDates now 0 0).2 := by
  have h : getStartAndEndDates now 0 0 = (now - 604800, now) := by simp [getStartAndEndDates]
  refine ⟨h, ?_⟩
  rw [h]; show now - 604800 < now; omega

/-- **both dates given**: exactly what was given, whatever the clock says -/
theorem C16_window_given (now s e : Int) (hs : s ≠ 0) (he : e ≠ 0) : getStartAndEndDates now s e = (s, e) := by
  simp [getStartAndEndDates, hs, he]

/-- one date only (refused by the validation chain before this function is reached — C18; stated for completeness):
    seven days from the given end, or up to seven days after the given start; never the clock -/
theorem C16_window_one_sided (now s e : Int) :
    (e ≠ 0 → getStartAndEndDates now 0 e = (e - 604800, e)) ∧
    (s ≠ 0 → getStartAndEndDates now s 0 = (s, s + 604800)) := by
  constructor
  · intro he; simp [getStartAndEndDates, he]
  · intro hs; simp [getStartAndEndDates, hs]

/-- the window never depends on the clock unless both dates are absent -/
theorem C16_window_clock_free (now now' s e : Int) (h : s ≠ 0 ∨ e ≠ 0) :
    getStartAndEndDates now s e = getStartAndEndDates now' s e := by
  rcases h with h | h <;> simp [getStartAndEndDates, h]

/-- **the model's window is the source's**: for the calls `main` can make (both dates or neither — `C18_source_exact`),
    with a clock later than the first week of 1970 -/
theorem C16_window_model (now s e : Nat) (hnow : 604800 ≤ now) (hboth : (s = 0 ∧ e = 0) ∨ (s ≠ 0 ∧ e ≠ 0)) :
    getStartAndEndDates (now : Int) (s : Int) (e : Int) =
      ((((Atlas.window now s e).1 : Nat) : Int), (((Atlas.window now s e).2 : Nat) : Int)) := by
  rcases hboth with ⟨rfl, rfl⟩ | ⟨hs, he⟩
  · have h := (C16_window_default (now : Int)).1
    simp only [Int.natCast_zero]
    rw [h]
    simp only [Atlas.window, beq_self_eq_true, Bool.and_self, if_true, decide_true]
    simp
    omega
  · have hs' : (s : Int) ≠ 0 := by exact_mod_cast hs
    have he' : (e : Int) ≠ 0 := by exact_mod_cast he
    rw [C16_window_given now s e hs' he']
    simp [Atlas.window, hs]

example : getStartAndEndDates 1700000000 0 0 = (1699395200, 1700000000) ∧ getStartAndEndDates 5 1 2 = (1, 2) := by decide

end Anonymongo
