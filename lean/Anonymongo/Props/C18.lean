/-
  Props/C18.lean — PROPERTY C18: `redact` accepts exactly the well-defined jobs; rejections have
  no side effects.  The quantifier is finite (2^13 presence/absence combinations), so the
  theorems are decided exhaustively INSIDE the kernel.
-/
import Anonymongo.Spec.CliRules
namespace Anonymongo.Cli

def isAccept : Decision → Bool
  | .accept _ => true
  | .reject _ => false

instance boolForall {p : Bool → Prop} [DecidablePred p] : Decidable (∀ b, p b) :=
  decidable_of_iff (p false ∧ p true) Bool.forall_bool.symm

def modesOK (f : Flags) : Bool :=
  match validate f with
  | .accept .file => f.file && !f.stdin && !Spec.atlasRequested f
  | .accept .stdin => f.stdin && !f.file && !Spec.atlasRequested f
  | .accept .atlas => Spec.atlasRequested f && !f.file && !f.stdin && f.project && f.cluster && f.out &&
      (f.pub || f.env) && (f.priv || f.env)
  | .reject _ => true

/-- the three facts, for all 2^13 valuations, decided in the kernel -/
theorem all8192 : ∀ a b c d e f g h i j k l m : Bool,
    let fl : Flags := ⟨a, b, c, d, e, f, g, h, i, j, k, l, m⟩
    (isAccept (validate fl) = Spec.wellDefined fl) ∧
    (isAccept (validate fl) = false → Spec.cleanRejection (effects fl) = true) ∧
    modesOK fl = true := by
  decide +kernel

/-- **C18 (exactness)**: the command runs iff the arguments describe one well-defined job -/
theorem C18_exact (f : Flags) : isAccept (validate f) = Spec.wellDefined f := by
  obtain ⟨a, b, c, d, e, f', g, h, i, j, k, l, m⟩ := f
  exact (all8192 a b c d e f' g h i j k l m).1

/-- **C18 (clean rejection)**: a rejection decided from the flags has no side effect beyond the
    message and the exit status: no output file, no key file, no network request -/
theorem C18_clean (f : Flags) (h : isAccept (validate f) = false) : Spec.cleanRejection (effects f) = true := by
  obtain ⟨a, b, c, d, e, f', g, h', i, j, k, l, m⟩ := f
  exact (all8192 a b c d e f' g h' i j k l m).2.1 h

/-- **C18 (modes)**: an accepted job enters exactly one mode, and Atlas mode only with
    project, cluster, output file and a key pair -/
theorem C18_modes (f : Flags) : modesOK f = true := by
  obtain ⟨a, b, c, d, e, f', g, h, i, j, k, l, m⟩ := f
  exact (all8192 a b c d e f' g h i j k l m).2.2

/-- non-vacuity: both outcomes occur -/
example : isAccept (validate ⟨true, false, true, true, false, false, false, false, false, false, false, false, false⟩) = true := by decide
example : isAccept (validate ⟨false, false, true, false, false, false, false, false, true, false, false, false, false⟩) = false := by decide

end Anonymongo.Cli
