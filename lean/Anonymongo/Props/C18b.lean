/-
  Props/C18b.lean — PROPERTY C18 over the validation chain REGENERATED from src/main.go on every run
  (Generated/CliChain.lean: tools/extract executes the `if ... os.Exit(1)` chain of the Run closure
  symbolically over the presence atoms).  The theorems of Props/C18.lean are about the hand-written
  transliteration `Cli.validate`; here the same exactness statement is decided, in the kernel and for
  all 2^13 valuations, about what the source says NOW — and the hand-written chain is shown to agree
  with it, so that `C18_clean` / `C18_modes` carry over.
-/
import Anonymongo.Generated.CliChain
import Anonymongo.Props.C18
namespace Anonymongo.Cli

/-- the job is rejected iff some condition of the regenerated chain holds -/
def rejectedBySource (f : Flags) : Bool := Generated.rejectRules.any fun r => r f

theorem all8192_source : ∀ a b c d e f g h i j k l m : Bool,
    let fl : Flags := ⟨a, b, c, d, e, f, g, h, i, j, k, l, m⟩
    ((!rejectedBySource fl) = Spec.wellDefined fl) ∧ (rejectedBySource fl = !isAccept (validate fl)) := by
  decide +kernel

/-- **C18 (exactness, regenerated chain)**: what main.go's validation chain lets through is exactly
    the set of well-defined jobs of the rule table written from the README / the property text -/
theorem C18_source_exact (f : Flags) : (!rejectedBySource f) = Spec.wellDefined f := by
  obtain ⟨a, b, c, d, e, f', g, h, i, j, k, l, m⟩ := f
  exact (all8192_source a b c d e f' g h i j k l m).1

/-- **the hand-written transliteration is the source's chain** (so C18_clean / C18_modes speak about it) -/
theorem C18_model_is_source (f : Flags) : rejectedBySource f = !isAccept (validate f) := by
  obtain ⟨a, b, c, d, e, f', g, h, i, j, k, l, m⟩ := f
  exact (all8192_source a b c d e f' g h i j k l m).2

end Anonymongo.Cli
