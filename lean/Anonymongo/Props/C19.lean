/-
  Props/C19.lean — PROPERTY C19: redacted output is a fixed point of redaction (tree level).

  In placeholder mode, full-redaction mode, with namespace and field-name pseudonymisation off
  and a replacement text that is not e-mail shaped: redacting the redaction of a line gives the
  same tree.  The byte level (parse ∘ print) is the print/parse correspondence + the second-pass
  oracle through the real CLI.
-/
import Anonymongo.Lemmas.Idem
import Anonymongo.Lemmas.LineAlg
namespace Anonymongo

/-- **C19 (walker level)**: from every walker state (that can occur with --redactNamespaces off) the
    redaction of a redacted tree is that tree -/
theorem C19_walk (c : Ctx) (hplain : c.cfg.enc = none) (hfull : c.cfg.re = none) (hrfn : c.rfn = false)
    (hns : c.cfg.ns = false) (hrepl : isEmail c.cfg.repl = false) (hph : isEmail c.T.emailPH = true)
    (s : St) (hs : Ctx.St.ok s = true) (v : J) (hn : v.nodup = true) :
    c.run s (c.run s v) = c.run s v :=
  ((Ctx.run_rel c hfull c.FixRel c.fixSim s v (c.run s v)
      (Ctx.relAt_self_run c hplain hrfn hns hrepl hph s v hs hn)).1).symm

theorem zoneState_ok (hi hb : Bool) (k : Str) : Ctx.St.ok (Ctx.zoneState hi hb k) = true := by
  unfold Ctx.zoneState
  split
  · rfl
  · split
    · rfl
    · exact Ctx.opZone_ok hi k

/-- command documents -/
theorem cmdDocA_idem (c : Ctx) (hplain : c.cfg.enc = none) (hfull : c.cfg.re = none) (hrfn : c.rfn = false)
    (hns : c.cfg.ns = false) (hrepl : isEmail c.cfg.repl = false) (hph : isEmail c.T.emailPH = true)
    (v : J) (hn : v.nodup = true) : c.cmdDocA (c.cmdDocA v) = c.cmdDocA v := by
  cases v with
  | obj cmd =>
    simp only [J.nodup, Bool.and_eq_true] at hn
    have e : ∀ l : List (Str × J), c.redactCommandA l =
        mapVals (fun k v => c.run (Ctx.zoneState (lookup sInsert l).isSome (lookup sBulkWrite l).isSome k) v) l := fun l => rfl
    have hi : (lookup sInsert (c.redactCommandA cmd)).isSome = (lookup sInsert cmd).isSome := by
      rw [e, lookup_mapVals]; cases lookup sInsert cmd <;> rfl
    have hb : (lookup sBulkWrite (c.redactCommandA cmd)).isSome = (lookup sBulkWrite cmd).isSome := by
      rw [e, lookup_mapVals]; cases lookup sBulkWrite cmd <;> rfl
    simp only [Ctx.cmdDocA, hns, Bool.false_eq_true, if_false, J.obj.injEq]
    conv => lhs; rw [e (c.redactCommandA cmd), hi, hb, e cmd, mapVals_mapVals]
    rw [e cmd]
    apply mapVals_congr _ _ cmd hn.2
    intro k x hx
    exact C19_walk c hplain hfull hrfn hns hrepl hph _ (zoneState_ok _ _ k) x hx
  | _ => rfl

theorem sRemote_not_cmd : cmdKeys.contains sRemote = false := by decide

/-- the attribute rewrite as a key-wise map (field-name and namespace pseudonymisation off) -/
theorem redactAttrA_as_mapVals (T : Tables) (cfg : Cfg) (hns : cfg.ns = false) (plan : Str → Str → Str) (g : Bool)
    (attr : List (Str × J)) :
    redactAttrA T cfg [] plan g attr =
      mapVals (fun k v =>
        let v1 := if cfg.ips && k = sRemote then (match v with | .str _ => .str T.ipPH | x => x) else v
        if g && cmdKeys.contains k then Ctx.cmdDocA { T := T, cfg := cfg, rfn := false } v1 else v1) attr := by
  unfold redactAttrA redactAttrWith
  simp only [List.any_nil, hns, Bool.false_eq_true, if_false]
  cases hips : cfg.ips <;> cases g <;>
    simp only [Bool.false_eq_true, if_false, if_true, Bool.false_and, Bool.true_and, mapKey_eq_mapVals] <;>
    simp [mapVals, List.map_map, Function.comp_def] <;> (try (intros; rfl))

theorem redactAttrA_idem (T : Tables) (cfg : Cfg) (hplain : cfg.enc = none) (hfull : cfg.re = none)
    (hns : cfg.ns = false) (hrepl : isEmail cfg.repl = false) (hph : isEmail T.emailPH = true)
    (plan : Str → Str → Str) (g : Bool) (attr : List (Str × J)) (hn : nodupKVs attr = true) :
    redactAttrA T cfg [] plan g (redactAttrA T cfg [] plan g attr) = redactAttrA T cfg [] plan g attr := by
  rw [redactAttrA_as_mapVals T cfg hns, redactAttrA_as_mapVals T cfg hns, mapVals_mapVals]
  apply mapVals_congr _ _ attr hn
  intro k v hv
  by_cases hk : k = sRemote
  · subst hk
    simp only [sRemote_not_cmd, Bool.and_false, Bool.false_eq_true, if_false]
    cases cfg.ips <;> cases v <;> simp
  · simp only [hk, decide_false, Bool.and_false, Bool.false_eq_true, if_false]
    by_cases hc : (g && cmdKeys.contains k) = true
    · simp only [hc, if_true]
      exact cmdDocA_idem { T := T, cfg := cfg, rfn := false } hplain hfull rfl hns hrepl hph v hv
    · simp_all

theorem gated_mapKey_attr (f : J → J) (entry : List (Str × J)) :
    gated (mapVals (fun k' v => if k' = sAttr then f v else v) entry) = gated entry := by
  have h1 : sC ≠ sAttr := by decide
  have h2 : sMsg ≠ sAttr := by decide
  simp only [gated, lookup_mapVals]
  cases lookup sC entry <;> cases lookup sMsg entry <;> simp [h1, h2]

/-- **C19 (tree level)**: `RedactMongoLog` is idempotent on every line without duplicate sibling keys,
    in placeholder mode with the value-redaction flags only (any of --redactNumbers,
    --redactBooleans, --redactIPs, any non-e-mail-shaped --replacement). -/
theorem C19_line (T : Tables) (cfg : Cfg) (hplain : cfg.enc = none) (hfull : cfg.re = none)
    (hns : cfg.ns = false) (hrepl : isEmail cfg.repl = false) (hph : isEmail T.emailPH = true)
    (plan : Str → Str → Str) (entry : List (Str × J)) (hn : (J.obj entry).nodup = true) :
    redactLine T cfg [] plan (redactLine T cfg [] plan entry) = redactLine T cfg [] plan entry := by
  rw [← redactLine_refine]
  simp only [J.nodup, Bool.and_eq_true] at hn
  unfold redactLineA redactLineWith
  cases hl : lookup sAttr entry with
  | none => simp [hl]
  | some a =>
    cases a with
    | obj attr =>
      simp only [mapKey_eq_mapVals, gated_mapKey_attr, lookup_mapVals, hl, Option.map_some, if_true, mapVals_mapVals]
      apply mapVals_congr _ _ entry hn.2
      intro k v hv
      by_cases hk : k = sAttr
      · simp only [hk, if_true]
        cases v with
        | obj at2 =>
          simp only [J.nodup, Bool.and_eq_true] at hv
          simp only [J.obj.injEq]
          exact redactAttrA_idem T cfg hplain hfull hns hrepl hph plan (gated entry) at2 hv.2
        | _ => rfl
      · simp only [hk, if_false]
    | _ => simp [hl]

/-- the regenerated constants meet the hypothesis on the e-mail placeholder, and the default
    replacement text the one on `--replacement` -/
theorem C19_constants : isEmail Generated.tables.emailPH = true ∧ isEmail Generated.tables.defaultRepl = false :=
  ⟨C05_valid.2.2.2.1, C05_valid.2.2.2.2.2.2⟩

/-- non-vacuity + a worked instance: a gated line with an e-mail, a date and a nested array is
    mapped to a fixed point -/
example : let cfg : Cfg := ⟨"REDACTED".toList, true, false, true, false, none, none⟩
    let L : List (Str × J) := [("c".toList, .str "COMMAND".toList), ("attr".toList, .obj [("remote".toList, .str "1.2.3.4:5".toList),
      ("command".toList, .obj [("filter".toList, .obj [("m".toList, .str "a@b.co".toList),
        ("d".toList, .obj [("$date".toList, .str "2020".toList)]), ("n".toList, .arr [.arr [.num "7".toList]])])])])]
    (J.obj L).nodup = true ∧ isEmail cfg.repl = false := by decide +kernel

end Anonymongo
