/-
  Props/C19b.lean — PROPERTY C19 at the level of whole FILES: feeding the output file of a fault-free
  run back through the stream loop reproduces it byte for byte and ends without error.
  Generic part: for ANY line function whose outputs contain no LF / CR and are fixed points of the
  function; instance: the redactor's line function in placeholder mode with the value-redaction flags
  (C03_one_line, C19_bytes).  The only side condition is the reader's own limit: no OUTPUT line is longer
  than 65 535 bytes (a redacted line can be longer than its input; then the second pass stops with the
  explicit over-long-line error of C07 — observed on the real tool, stated here as the hypothesis).
-/
import Anonymongo.Props.C06
import Anonymongo.Props.C03b
namespace Anonymongo

theorem processLines_eq_join (f : Bytes → Option Bytes) (ls : List Bytes) :
    processLines f ls = joinLines false (ls.filterMap f) := by
  unfold processLines
  induction ls.filterMap f with
  | nil => rfl
  | cons o rest ih => simp only [List.flatMap_cons, joinLines, Bool.false_eq_true, if_false, List.append_assoc, ih]

theorem filterMap_fixed (f : Bytes → Option Bytes) : ∀ (outs : List Bytes), (∀ o ∈ outs, f o = some o) → outs.filterMap f = outs
  | [], _ => rfl
  | o :: rest, h => by
    simp only [List.filterMap_cons, h o (by simp)]
    rw [filterMap_fixed f rest (fun x hx => h x (by simp [hx]))]

theorem map_dropCR_clean : ∀ (outs : List Bytes), (∀ o ∈ outs, ∀ b ∈ o, b ≠ 13) → outs.map dropCR = outs
  | [], _ => rfl
  | o :: rest, h => by
    have ho : dropCR o = o := by
      apply dropCR_id
      intro hl
      have : (13 : UInt8) ∈ o := List.mem_of_getLast? hl
      exact h o (by simp) 13 this rfl
    simp only [List.map_cons, ho, map_dropCR_clean rest (fun x hx => h x (by simp [hx]))]

/-- **C19 (whole files, generic)** -/
theorem C19_file_generic (f : Bytes → Option Bytes)
    (hclean : ∀ l o, f l = some o → ∀ b ∈ o, b ≠ 10 ∧ b ≠ 13)
    (hidem : ∀ l o, f l = some o → f o = some o)
    (bs : Bytes)
    (hshort : ∀ o ∈ (scanTokens (splitNL bs)).1.filterMap f, o.length ≤ maxLine) :
    runStream f (runStream f bs none none).1 none none = ((runStream f bs none none).1, .ok) := by
  rw [C06_faultfree f bs]
  simp only []
  generalize htoks : (scanTokens (splitNL bs)).1 = toks at hshort
  have houts : ∀ o ∈ toks.filterMap f, ∃ l, f l = some o := by
    intro o ho
    simp only [List.mem_filterMap] at ho
    obtain ⟨l, _, hl⟩ := ho
    exact ⟨l, hl⟩
  have h10 : ∀ o ∈ toks.filterMap f, ∀ b ∈ o, b ≠ 10 := by
    intro o ho b hb
    obtain ⟨l, hl⟩ := houts o ho
    exact (hclean l o hl b hb).1
  have h13 : ∀ o ∈ toks.filterMap f, ∀ b ∈ o, b ≠ 13 := by
    intro o ho b hb
    obtain ⟨l, hl⟩ := houts o ho
    exact (hclean l o hl b hb).2
  have hfix : ∀ o ∈ toks.filterMap f, f o = some o := by
    intro o ho
    obtain ⟨l, hl⟩ := houts o ho
    exact hidem l o hl
  rw [C06_faultfree f (processLines f toks), processLines_eq_join f toks, splitNL_joinLF _ h10,
    scanTokens_short _ hshort]
  simp only [map_dropCR_clean _ h13, Bool.false_eq_true, if_false]
  rw [processLines_eq_join f (toks.filterMap f), filterMap_fixed f _ hfix]

/-- **C06 / C03 (the physical lines of the output file)**: when no emitted line contains a line feed, cutting the
    output of a fault-free run at its newlines gives back exactly the emitted lines, in input order — one physical
    line per accepted input line, nothing else -/
theorem C06_output_lines (f : Bytes → Option Bytes) (hclean : ∀ l o, f l = some o → ∀ b ∈ o, b ≠ 10) (bs : Bytes) :
    splitNL (runStream f bs none none).1 = (scanTokens (splitNL bs)).1.filterMap f := by
  rw [C06_faultfree f bs]
  simp only []
  rw [processLines_eq_join]
  apply splitNL_joinLF
  intro o ho b hb
  simp only [List.mem_filterMap] at ho
  obtain ⟨l, _, hl⟩ := ho
  exact hclean l o hl b hb

/-- the redactor's line function (placeholder mode, no field-name redaction) -/
def redactLineBytes (T : Tables) (cfg : Cfg) (plan : Str → Str → Str) (bs : Bytes) : Option Bytes :=
  (parseObj bs).map fun e => printObj (redactLine T cfg [] plan e)

/-- **C19 (whole files)**: placeholder mode, value-redaction flags only, replacement text not e-mail shaped: the
    output file of a fault-free run, fed back through the tool with the same flags, is reproduced byte for
    byte and the second run ends without error — provided no output line exceeds the reader's 65 535-byte limit -/
theorem C19_file (T : Tables) (hT : validNumLit T.number = true) (hT2 : (T.number.all fun ch => 0x20 ≤ ch.toNat) = true)
    (cfg : Cfg) (hplain : cfg.enc = none) (hfull : cfg.re = none) (hns : cfg.ns = false)
    (hrepl : isEmail cfg.repl = false) (hph : isEmail T.emailPH = true) (plan : Str → Str → Str) (bs : Bytes)
    (hshort : ∀ o ∈ (scanTokens (splitNL bs)).1.filterMap (redactLineBytes T cfg plan), o.length ≤ maxLine) :
    runStream (redactLineBytes T cfg plan) (runStream (redactLineBytes T cfg plan) bs none none).1 none none =
      ((runStream (redactLineBytes T cfg plan) bs none none).1, .ok) := by
  apply C19_file_generic _ _ _ bs hshort
  · intro l o h b hb
    unfold redactLineBytes at h
    cases hp : parseObj l with
    | none => simp [hp] at h
    | some e =>
      simp only [hp, Option.map_some, Option.some.injEq] at h
      subst h
      have := C03_one_line T hT2 cfg [] plan l e hp b hb
      exact ⟨this.1, this.2.1⟩
  · intro l o h
    unfold redactLineBytes at h ⊢
    cases hp : parseObj l with
    | none => simp [hp] at h
    | some e =>
      simp only [hp, Option.map_some, Option.some.injEq] at h
      subst h
      obtain ⟨e2, he2, hsame⟩ := C19_bytes T hT cfg hplain hfull hns hrepl hph plan l e hp
      simp only [he2, Option.map_some, hsame]

end Anonymongo
