/-
  Props/C20.lean — PROPERTY C20: the Atlas private key leaves the process only as a digest response.

  Two parts.
  (1) `Facts_priv` (Props/Facts/Priv.lean): kernel-decided over the uses of the identifiers
      `privateKey` / `atlasPrivateKey` REGENERATED from atlas.go and main.go with go/ast: parameter,
      declaration / flag binding, copy, emptiness test, pass-through to the three Atlas functions,
      `digest.Transport{Password: …}` — and nothing else (no format argument, header value, URL
      part, print argument, file write).
  (2) A data-flow model of what the process emits in Atlas mode, with the key as an explicit input
      `k` and the digest computation as an ARBITRARY function `D` of the key, the server's challenge
      and the request: every artefact (request lines, headers, stdout, stderr incl. quoted server
      bodies and transport errors, file contents) is a function of `D k` only — so two keys with the
      same digest responses give identical artefacts (`C20_ni`), and when the server never sends a
      challenge no key-dependent byte exists at all (`C20_nochallenge`).
-/
import Anonymongo.Props.Facts.Priv
namespace Anonymongo.Atlas20

/-- one HTTP request as it goes on the wire -/
structure Request where
  url : Str
  headers : List (Str × Str)
  deriving DecidableEq, Repr

/-- what the other side does: whether it challenges, and what it answers (status, body) to a request —
    the body may quote anything it received (URL, headers) -/
structure Server where
  challenge : Request → Option Str          -- `some nonce` = 401 + WWW-Authenticate: Digest … nonce
  answer : Request → Nat × Str              -- status code and body of the final answer

structure Job where
  pub : Str
  project : Str
  cluster : Str
  hosts : List Str
  start : Str
  end_ : Str

def S (s : String) : Str := s.toList

def lookupURL (j : Job) : Str := S "https://cloud.mongodb.com/api/atlas/v2/groups/" ++ j.project ++ S "/clusters/" ++ j.cluster

def logURL (j : Job) (host : Str) : Str :=
  S "https://cloud.mongodb.com/api/atlas/v2/groups/" ++ j.project ++ S "/clusters/" ++ host ++
  S "/logs/mongodb.gz?endDate=" ++ j.end_ ++ S "&startDate=" ++ j.start

/-- the exchange for one URL: the unauthenticated request, and — only if challenged — its
    authenticated twin carrying `resp nonce url` (the digest response) -/
def exchange (j : Job) (resp : Str → Str → Str) (sv : Server) (url : Str) (accept : Str) : List Request × (Nat × Str) :=
  let r0 : Request := ⟨url, [(S "Accept", accept)]⟩
  match sv.challenge r0 with
  | none => ([r0], sv.answer r0)
  | some nonce =>
    let r1 : Request := ⟨url, [(S "Accept", accept),
      (S "Authorization", S "Digest username=\"" ++ j.pub ++ S "\", nonce=\"" ++ nonce ++ S "\", uri=\"" ++ url ++
        S "\", response=\"" ++ resp nonce url ++ S "\"")]⟩
    ([r0, r1], sv.answer r1)

structure Artefacts where
  requests : List Request
  stdout : List Str
  stderr : List Str
  tmpFiles : List Str          -- contents written to temporary files
  deriving DecidableEq, Repr

/-- per-host downloads, stopping at the first failure -/
def hostsLoop (j : Job) (resp : Str → Str → Str) (sv : Server) : List Str → Artefacts → Artefacts
  | [], a => a
  | h :: rest, a =>
    let (rs, (code, body)) := exchange j resp sv (logURL j h) (S "application/vnd.atlas.2023-02-01+gzip")
    let a1 : Artefacts := { a with requests := a.requests ++ rs, stdout := a.stdout ++ [S "Downloading logs for host " ++ h ++ S "..."] }
    if code = 200 then hostsLoop j resp sv rest { a1 with tmpFiles := a1.tmpFiles ++ [body] }
    else { a1 with stderr := a1.stderr ++ [S "Error downloading Atlas logs: failed to download logs for host " ++ h ++
             S ": unexpected status: " ++ body] }

/-- everything the process emits, as a function of the digest-response function `resp` -/
def emit (j : Job) (resp : Str → Str → Str) (sv : Server) : Artefacts :=
  let (rs, (code, body)) := exchange j resp sv (lookupURL j) (S "application/vnd.atlas.2025-03-12+json")
  let a0 : Artefacts := ⟨rs, [S "Downloading Atlas cluster logs..."], [], []⟩
  if code = 200 then hostsLoop j resp sv j.hosts a0
  else { a0 with stderr := [S "Error downloading Atlas logs: failed to get cluster info: unexpected status: " ++ body] }

/-- Atlas mode with private key `k` and digest function `D` -/
def run (j : Job) (D : Str → Str → Str → Str) (k : Str) (sv : Server) : Artefacts := emit j (D k) sv

/-- **C20 (non-interference)**: two private keys whose digest responses agree produce identical
    requests, stdout, stderr and temporary files — whatever the server answers or quotes -/
theorem C20_ni (j : Job) (D : Str → Str → Str → Str) (k1 k2 : Str) (sv : Server)
    (h : ∀ nonce url, D k1 nonce url = D k2 nonce url) : run j D k1 sv = run j D k2 sv := by
  have : D k1 = D k2 := by funext n u; exact h n u
  simp [run, this]

theorem exchange_nochallenge (j : Job) (r1 r2 : Str → Str → Str) (sv : Server) (h : ∀ r, sv.challenge r = none) (url acc : Str) :
    exchange j r1 sv url acc = exchange j r2 sv url acc := by
  simp [exchange, h]

theorem hostsLoop_nochallenge (j : Job) (r1 r2 : Str → Str → Str) (sv : Server) (h : ∀ r, sv.challenge r = none) :
    ∀ hs a, hostsLoop j r1 sv hs a = hostsLoop j r2 sv hs a
  | [], a => rfl
  | x :: rest, a => by
    simp only [hostsLoop, exchange_nochallenge j r1 r2 sv h]
    split
    · exact hostsLoop_nochallenge j r1 r2 sv h rest _
    · rfl

/-- **C20 (no challenge, no credential)**: if the server never sends a digest challenge, the emitted
    artefacts do not depend on the private key at all, and no request carries an Authorization header -/
theorem C20_nochallenge (j : Job) (D : Str → Str → Str → Str) (k1 k2 : Str) (sv : Server) (h : ∀ r, sv.challenge r = none) :
    run j D k1 sv = run j D k2 sv := by
  simp only [run, emit, exchange_nochallenge j (D k1) (D k2) sv h]
  split
  · exact hostsLoop_nochallenge j (D k1) (D k2) sv h _ _
  · rfl

theorem exchange_noauth (j : Job) (r : Str → Str → Str) (sv : Server) (h : ∀ r, sv.challenge r = none) (url acc : Str) :
    ∀ q ∈ (exchange j r sv url acc).1, ∀ hd ∈ q.headers, hd.1 ≠ S "Authorization" := by
  simp only [exchange, h]
  intro q hq hd hh
  simp only [List.mem_singleton] at hq
  subst hq
  simp only [List.mem_singleton] at hh
  subst hh
  show S "Accept" ≠ S "Authorization"
  decide

/-- the uses of the key in the source are the ones the model has (re-export) -/
theorem C20_source_uses : (Generated.Facts.privUses.all fun u => allowedPrivKinds.contains u.1) = true := Anonymongo.Facts_priv.1

end Anonymongo.Atlas20
