/- Props/Facts/AtlasReq.lean — one source-fact obligation (facts REGENERATED from the Go source on every run: Generated/Facts.lean) -/
import Anonymongo.Props.Facts.Common
namespace Anonymongo
open Generated

/-! ### the shape of the Atlas requests and of the per-host file names (C16, C20) -/

/-- the two request templates (cluster description; one host's log for a window: `endDate` / `startDate` as given) and the
    literal request headers — and nothing else: in particular no `Authorization` / key-bearing header is set by the
    repository's own code, no header has a computed value and no `SetBasicAuth` call exists.  Which function builds them is
    not part of the statement (compared as sets of (kind, text)). -/
def expectedAtlasLits : List (String × String) := [
  ("sprintf", "%s/api/atlas/v2/groups/%s/clusters/%s"),
  ("header", "Accept: application/vnd.atlas.2025-03-12+json"),
  ("sprintf", "%s/api/atlas/v2/groups/%s/clusters/%s/logs/mongodb.gz?endDate=%d&startDate=%d"),
  ("header", "Accept: application/vnd.atlas.2023-02-01+gzip"),
  ("header", "Content-Type: application/gzip")]

theorem Facts_atlas_requests :
    sameSet (Facts.atlasLits.map fun p => (p.1, p.2.2)) (expectedAtlasLits.map fun p => (p.1.toList, p.2.toList)) = true := by
  decide +kernel

end Anonymongo
