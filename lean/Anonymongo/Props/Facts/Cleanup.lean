/- Props/Facts/Cleanup.lean — one source-fact obligation (facts REGENERATED from the Go source on every run: Generated/Facts.lean) -/
import Anonymongo.Props.Facts.Common
namespace Anonymongo
open Generated

/-- **no way out of an Atlas job skips the clean-up** (C17): in the Run closure of `redact`, from the point where the function
    value that calls `DeleteClusterLogs` is bound, every `os.Exit` / `log.Fatal` / `panic` in the rest of that block is preceded —
    in its own block — by a call of that function value (`os.Exit` does not run deferred calls), and a `defer` of it covers the
    normal return.  The trace model (`Model/Atlas.lean`) removes the temporary files on every path; this is the source-side
    reason it may. -/
theorem Facts_cleanup :
    (Facts.cleanupExits.all fun u => u.1 == "cleaned".toList || u.1 == "defer".toList) = true ∧
    (Facts.cleanupExits.any fun u => u.1 == "defer".toList) = true ∧
    (Facts.cleanupExits.any fun u => u.1 == "cleaned".toList) = true := by
  decide +kernel

end Anonymongo
