/- Props/Facts/CmdKeys.lean — one source-fact obligation (facts REGENERATED from the Go source on every run: Generated/Facts.lean) -/
import Anonymongo.Props.Facts.Common
namespace Anonymongo
open Generated

/-- the three command attributes -/
theorem Facts_cmdKeys : sameSet Facts.attrCmdKeys cmdKeys = true := by decide +kernel

end Anonymongo
