/-
  Props/Facts/Common.lean — helpers shared by the source-fact obligations (one module per obligation under
  Props/Facts/, so that a fact that stops checking names itself and leaves the others standing).
-/
import Anonymongo.Generated.Facts
import Anonymongo.Model.Line
namespace Anonymongo
open Generated

def sameSet {α} [BEq α] (a b : List α) : Bool := a.all b.contains && b.all a.contains

end Anonymongo
