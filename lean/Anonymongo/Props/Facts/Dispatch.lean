/- Props/Facts/Dispatch.lean — one source-fact obligation (facts REGENERATED from the Go source on every run: Generated/Facts.lean) -/
import Anonymongo.Props.Facts.Common
namespace Anonymongo
open Generated

def fnQV : Str := "redactQueryValues".toList
def fnAV : Str := "redactArrayValues".toList
def fnPS : Str := "redactPipelineStage".toList

/-- the dispatch of `redactOperation` as Model/Line.lean (`cmdVal`) has it -/
def modelDispatch : List (Str × List Str × Str) :=
  qKeysObj.map (fun k => (k, [fnQV], [])) ++
  uKeysObjOrArr.map (fun k => (k, [fnAV, fnQV], [])) ++
  aKeysArr.map (fun k => (k, [fnAV], [])) ++
  [(sDocument, [fnQV], sInsert), (sDocuments, [fnAV], sInsert), (sPipeline, [fnPS], [])]

/-- **the model's dispatch is the source's dispatch**: same keys, same walkers, same guard -/
theorem Facts_dispatch : sameSet Facts.dispatch modelDispatch = true := by decide +kernel

/-- operations one level down, as `Ctx.cmdEntry` / `zoneState` have them: `explain` (always) and `ops`
    (in a `bulkWrite`) are handed to `redactOperation`; the command itself unconditionally (the
    translator refuses to run otherwise) -/
theorem Facts_nested_ops : sameSet Facts.nestedOps
    [(sExplain, ["redactOperation".toList], []), (sOps, ["redactOperation".toList], sBulkWrite)] = true := by decide +kernel

end Anonymongo
