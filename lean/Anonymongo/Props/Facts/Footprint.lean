/- Props/Facts/Footprint.lean — one source-fact obligation (facts REGENERATED from the Go source on every run: Generated/Facts.lean) -/
import Anonymongo.Props.Facts.Common
namespace Anonymongo
open Generated

/-- **configuration footprint**: which function reads which option variable / table — the dependencies the
    model gives the corresponding definitions (`redactScalar` reads numbers/booleans/regexp/replacement,
    `redactString` the key and the encrypt switch, `RedactMongoLog` IPs/namespaces/eager paths,
    `HashName` the replacement, …) -/
def expectedFootprint : List (String × String) := [
  ("AggregationOperators", "<package initialiser operators.go>"), ("AggregationOperators", "getOp"),
  ("CoreOperators", "getOp"), ("CoreOperators", "redactArrayValuesWithKey"), ("CoreOperators", "redactPipelineStage"),
  ("CoreOperators", "redactQueryValues"), ("CoreOperators", "traverseMapPath"), ("OperatorMapDefs", "traverseMapPath"),
  ("RedactedFieldMapping", "HashName"), ("SearchAggregationOperators", "getOp"),
  ("SearchOperators", "<package initialiser operators.go>"), ("SearchOperators", "getOp"), ("SearchOperators", "traverseMapPath"),
  ("TopLevelSearchOperators", "isInSearchStage"),
  ("atlasLogEndDate", "GetStartAndEndDates"), ("atlasLogEndDate", "SetAtlasLogEndDate"),
  ("atlasLogStartDate", "GetStartAndEndDates"), ("atlasLogStartDate", "SetAtlasLogStartDate"),
  ("defaultLogDuration", "GetStartAndEndDates"),
  ("eagerRedactionPaths", "RedactMongoLog"), ("eagerRedactionPaths", "SetEagerRedactionPaths"),
  ("emailRegex", "IsEmail"), ("encryptionKey", "SetEncryptionKey"), ("encryptionKey", "redactString"),
  ("geoJSON", "<package initialiser operators.go>"),
  ("ixscanRegex", "ParsePlanSummary"), ("ixscanRegex", "redactFieldNamesFromPlanSummary"),
  ("redactBooleans", "SetRedactBooleans"), ("redactBooleans", "redactScalarValue"),
  ("redactIPs", "RedactMongoLog"), ("redactIPs", "SetRedactIPs"),
  ("redactNamespaces", "RedactMongoLog"), ("redactNamespaces", "SetRedactNamespaces"), ("redactNamespaces", "redactPipelineStage"),
  ("redactNumbers", "SetRedactNumbers"), ("redactNumbers", "redactScalarValue"),
  ("redactedFieldsRegexp", "SetRedactedFieldsRegexp"), ("redactedFieldsRegexp", "augmentOp"),
  ("redactedFieldsRegexp", "isRedactableFieldPatternInArray"), ("redactedFieldsRegexp", "redactArrayValuesWithKey"),
  ("redactedFieldsRegexp", "redactScalarValue"),
  ("redactedString", "HashName"), ("redactedString", "SetRedactedString"), ("redactedString", "redactScalarValue"),
  ("shouldEncrypt", "SetShouldEncrypt"), ("shouldEncrypt", "redactString"), ("version", "main")]

/-- the variables of Atlas mode and the version string: no function on the redaction path mentions them (their rows of the
    table above name `GetStartAndEndDates`, the two setters and `main` only) -/
def atlasVars : List Str := ["atlasLogEndDate", "atlasLogStartDate", "defaultLogDuration", "version"].map String.toList

/-- the footprint of the redaction path: every variable that is not an Atlas-mode variable -/
theorem Facts_footprint :
    sameSet ((Facts.globalRefs.map fun r => (r.1, r.2.1)).filter fun p => !atlasVars.contains p.1)
      ((expectedFootprint.map fun p => (p.1.toList, p.2.toList)).filter fun p => !atlasVars.contains p.1) = true := by
  decide +kernel

/-- the footprint of the Atlas-mode variables (C16: the window is computed by `GetStartAndEndDates` from the two option
    variables and the default duration, and by nothing else) -/
theorem Facts_footprint_atlas :
    sameSet ((Facts.globalRefs.map fun r => (r.1, r.2.1)).filter fun p => atlasVars.contains p.1)
      ((expectedFootprint.map fun p => (p.1.toList, p.2.toList)).filter fun p => atlasVars.contains p.1) = true := by
  decide +kernel

end Anonymongo
