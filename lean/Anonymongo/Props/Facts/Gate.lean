/- Props/Facts/Gate.lean — one source-fact obligation (facts REGENERATED from the Go source on every run: Generated/Facts.lean) -/
import Anonymongo.Props.Facts.Common
namespace Anonymongo
open Generated

/-- the line gate -/
theorem Facts_gate : (Facts.gateComponents == gateComponents) = true ∧ (Facts.gateMessages == [sSlowQuery]) = true := by
  decide +kernel

end Anonymongo
