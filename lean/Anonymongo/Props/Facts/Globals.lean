/- Props/Facts/Globals.lean — one source-fact obligation (facts REGENERATED from the Go source on every run: Generated/Facts.lean) -/
import Anonymongo.Props.Facts.Common
namespace Anonymongo
open Generated

/-! ### program state: the model treats every function on the redaction path as a pure function of
    (line, configuration).  The source facts below are what that rests on: the package-level variables
    are the operator tables, three compiled regular expressions, the option variables and one
    write-only side table; option variables are written by their setters only; nothing else is ever
    assigned, and no `init` function runs before the flags are parsed. -/

def expectedGlobals : List String := [
  "AggregationOperators", "CoreOperators", "OperatorMapDefs", "RedactedFieldMapping", "SearchAggregationOperators",
  "SearchOperators", "TopLevelSearchOperators", "atlasLogEndDate", "atlasLogStartDate", "defaultLogDuration",
  "eagerRedactionPaths", "emailRegex", "encryptionKey", "geoJSON", "ixscanRegex", "redactBooleans", "redactIPs",
  "redactNamespaces", "redactNumbers", "redactedFieldsRegexp", "redactedString", "shouldEncrypt", "version"]

/-- **no state beyond the known variables**: a cache, memo table, counter or reusable buffer at package
    level would be a new name here -/
theorem Facts_globals : sameSet Facts.globals (expectedGlobals.map String.toList) = true := by decide +kernel

end Anonymongo
