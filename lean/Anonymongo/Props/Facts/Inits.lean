/- Props/Facts/Inits.lean — one source-fact obligation (facts REGENERATED from the Go source on every run: Generated/Facts.lean) -/
import Anonymongo.Props.Facts.Common
namespace Anonymongo
open Generated

/-- no `init` function; the only package-level initialisers that call functions build the operator tables -/
theorem Facts_inits : (Facts.inits.all fun i => i.take 17 == "operators.go:var ".toList) = true := by decide +kernel

end Anonymongo
