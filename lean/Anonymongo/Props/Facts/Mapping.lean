/- Props/Facts/Mapping.lean — one source-fact obligation (facts REGENERATED from the Go source on every run: Generated/Facts.lean) -/
import Anonymongo.Props.Facts.Common
namespace Anonymongo
open Generated

/-- the pseudonym side table is write-only: its single occurrence in the whole program is the
    assignment inside `HashName` (so a pseudonym cannot depend on earlier calls) -/
theorem Facts_mapping_write_only :
    (Facts.globalRefs.filter fun r => r.1 == "RedactedFieldMapping".toList) = [("RedactedFieldMapping".toList, "HashName".toList, 1)] := by
  decide +kernel

end Anonymongo
