/- Props/Facts/Priv.lean — one source-fact obligation (facts REGENERATED from the Go source on every run: Generated/Facts.lean) -/
import Anonymongo.Props.Facts.Common
namespace Anonymongo
open Generated

/-- the only things the code does with the Atlas private key: receive it as a parameter, declare / bind
    it to its flag, copy it between the flag variable, the environment fallback and the local, test it
    for emptiness, pass it on to the three Atlas functions, and put it into `digest.Transport.Password` -/
def allowedPrivKinds : List Str :=
  ["param", "declaration", "flagBinding", "assign", "emptyTest", "passThrough", "digestPassword"].map String.toList

theorem Facts_priv : (Facts.privUses.all fun u => allowedPrivKinds.contains u.1) = true ∧
    (Facts.privUses.any fun u => u.1 == "digestPassword".toList) = true := by decide +kernel

end Anonymongo
