/- Props/Facts/Regex.lean — one source-fact obligation (data REGENERATED from the running binary: Generated/Tables.lean) -/
import Anonymongo.Generated.Tables
import Anonymongo.Model.Email
import Anonymongo.Model.Plan
namespace Anonymongo
open Generated

/-- the expression `isEmail` (Model/Email.lean) is a hand-written recogniser of -/
def expectedEmailRegex : String :=
  "^[a-zA-Z0-9.!#$%&'*+/=?^_`{|}~-]+@[a-zA-Z0-9](?:[a-zA-Z0-9-]{0,61}[a-zA-Z0-9])?(?:\\.[a-zA-Z0-9](?:[a-zA-Z0-9-]{0,61}[a-zA-Z0-9])?)*$"

/-- the expression `matchIxscanHere` (Model/Plan.lean) is a hand-written recogniser of -/
def expectedIxscanRegex : String := "IXSCAN\\s*\\{([^}]+)\\}"

/-- **the two fixed regular expressions of the program are the ones the model's recognisers were written for**
    (`emailRegex.String()` / `ixscanRegex.String()` of the binary built from the current source).  The recognisers themselves
    are tied to RE2 by the correspondence (every match-table entry, generated near-misses); this obligation makes a change
    of either expression visible before any input is tried. -/
theorem Facts_regex : emailRegexSource = expectedEmailRegex.toList ∧ ixscanRegexSource = expectedIxscanRegex.toList := by
  decide +kernel

end Anonymongo
