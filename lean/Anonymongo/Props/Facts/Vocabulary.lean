/- Props/Facts/Vocabulary.lean — one source-fact obligation (facts REGENERATED from the Go source on every run: Generated/Facts.lean) -/
import Anonymongo.Props.Facts.Common
import Anonymongo.Model.Plan
import Anonymongo.Spec.Classes
import Anonymongo.Generated.Tables
namespace Anonymongo
open Generated

/-- **the key vocabulary of the model is the key vocabulary of the source.**  Every string literal that stands in a key position
    of the redaction path (anonymizer.go, helpers.go: operands of == / !=, case clauses, list elements, arguments of calls other
    than message formatting) is one of the names the model treats specially — the dispatch keys, the command attributes, the
    gate, the extended-JSON wrappers, the namespace keys (regenerated list), the two inline placeholders, the plan-summary
    punctuation — and the model knows no other.  A key the code starts to single out (or stops singling out) is a difference
    between these two sets. -/
def modelVocabulary : List Str :=
  qKeysObj ++ uKeysObjOrArr ++ aKeysArr ++ cmdKeys ++ gateComponents ++
  [sDocuments, sInsert, sPipeline, sDocument, sExplain, sBulkWrite, sOps, sNsInfo, sAttr, sRemote, sC, sMsg, sNs, sPlanSummary,
   sSlowQuery, sCOLLSCAN, sDate, sOid, sBase64, sBinary, sSubType, sMoreLikeThis, sLike, Ctx.sColl, Ctx.sInto] ++
  tables.searchedFields ++ [tables.emailPH, tables.ipPH] ++
  -- the empty string (absent values), the `$` of references / operators, and the punctuation of the plan-summary rewriter
  -- and of `HashName` (`.`)
  ["", "$", ",", ".", ":", "{", "}"].map String.toList

theorem Facts_vocabulary : sameSet Facts.keyLits modelVocabulary = true := by decide +kernel

end Anonymongo
