/- Props/Facts/Wiring.lean — one source-fact obligation (facts REGENERATED from the Go source on every run: Generated/Facts.lean) -/
import Anonymongo.Props.Facts.Common
namespace Anonymongo
open Generated

/-- flag → variable → setter wiring of the value-redaction options: every setter is called
    unconditionally (nesting depth 0) with the variable its flag is bound to -/
def expectedWiring : List (String × String × String × String) := [
  ("replacement", "r", "replacement", "SetRedactedString"),
  ("redactNumbers", "n", "redactNumbers", "SetRedactNumbers"),
  ("redactBooleans", "b", "redactBooleans", "SetRedactBooleans"),
  ("redactIPs", "i", "redactIPs", "SetRedactIPs"),
  ("redactNamespaces", "w", "redactNamespaces", "SetRedactNamespaces"),
  ("redactFieldNames", "f", "eagerRedactionPaths", "SetEagerRedactionPaths"),
  ("redactFieldsRegexp", "z", "redactedFieldsRegexp", "SetRedactedFieldsRegexp"),
  ("atlasLogStartDate", "s", "atlasLogStartDate", "SetAtlasLogStartDate"),
  ("atlasLogEndDate", "e", "atlasLogEndDate", "SetAtlasLogEndDate")]

theorem Facts_wiring : (expectedWiring.all fun w =>
    Facts.flags.contains (w.1.toList, w.2.1.toList, w.2.2.1.toList) &&
    Facts.setters.contains (w.2.2.2.toList, w.2.2.1.toList, 0)) = true := by decide +kernel

end Anonymongo
