/- Props/Facts/Writes.lean — one source-fact obligation (facts REGENERATED from the Go source on every run: Generated/Facts.lean) -/
import Anonymongo.Props.Facts.Common
namespace Anonymongo
open Generated

/-- methods that only read their receiver (ordered-map lookup, regular-expression matching) -/
def readOnlyMethods : List String :=
  ["method:Get", "method:MatchString", "method:FindAllStringSubmatch", "method:ReplaceAllStringFunc"]

def expectedWriters : List (String × String) := [
  ("redactedString", "SetRedactedString"), ("redactNumbers", "SetRedactNumbers"), ("redactBooleans", "SetRedactBooleans"),
  ("redactIPs", "SetRedactIPs"), ("redactNamespaces", "SetRedactNamespaces"), ("eagerRedactionPaths", "SetEagerRedactionPaths"),
  ("redactedFieldsRegexp", "SetRedactedFieldsRegexp"), ("encryptionKey", "SetEncryptionKey"), ("shouldEncrypt", "SetShouldEncrypt"),
  ("atlasLogStartDate", "SetAtlasLogStartDate"), ("atlasLogEndDate", "SetAtlasLogEndDate"),
  ("atlasLogStartDate", "GetStartAndEndDates"), ("atlasLogEndDate", "GetStartAndEndDates"),
  ("RedactedFieldMapping", "HashName"), ("version", "main")]

/-- **who may change what**: every assignment to (or address-taking / mutating call on) a package-level
    variable is one of the listed (variable, function) pairs: each option variable is written by its own
    setter and by nothing else (in particular no setter writes a second option), the operator tables
    and regular expressions are only read, the side table is written by `HashName` only -/
theorem Facts_writes : (Facts.globalWrites.all fun w =>
    (readOnlyMethods.map String.toList).contains w.2.2 ||
      (w.2.2 == "assign".toList && (expectedWriters.map fun p => (p.1.toList, p.2.toList)).contains (w.1, w.2.1))) = true := by
  decide +kernel

end Anonymongo
