/-
  Props/Src/Base.lean — what every refinement proof about the TRANSLATED functions (Generated/Src.lean) uses: the abstraction of the
  Go option variables to the model configuration, single-iteration lemmas for `for` loops, index / slice facts.  No theorem about a
  particular translated function lives here, so that a change of one function cannot stop the theorems about another from checking.
-/
import Anonymongo.Generated.Src
import Anonymongo.Model.Walk
import Anonymongo.Lemmas.Basic
namespace Anonymongo.Src
open Anonymongo Anonymongo.Go

/-- the model configuration that a state of the Go option variables stands for.  Encrypt mode is on when `shouldEncrypt` is
    set AND a key is installed; the ciphertext of a string is `base64 (Encrypt (utf8 s) key)`, an `Encrypt` error is `none`. -/
def absCfg (g : Globals) : Cfg where
  repl := g.redactedString
  nums := g.redactNumbers
  bools := g.redactBooleans
  ips := g.redactIPs
  ns := g.redactNamespaces
  re := g.redactedFieldsRegexp
  enc := if g.shouldEncrypt && g.encryptionKey.isSome then
      some (fun s => (g.Encrypt (utf8 s) g.encryptionKey).map g.b64) else none

/-! one iteration of a `for` loop over a list, with the rest of the loop left untouched -/
theorem forIn_cons_yield {α β : Type} (x : α) (xs : List α) (init b' : β) (f : α → β → Option (ForInStep β))
    (h : f x init = some (.yield b')) : forIn (x :: xs) init f = forIn xs b' f := by
  simp [List.forIn_cons, h]

theorem forIn_cons_done {α β : Type} (x : α) (xs : List α) (init b' : β) (f : α → β → Option (ForInStep β))
    (h : f x init = some (.done b')) : forIn (x :: xs) init f = some b' := by
  simp [List.forIn_cons, h]

theorem forIn_cons_none {α β : Type} (x : α) (xs : List α) (init : β) (f : α → β → Option (ForInStep β))
    (h : f x init = none) : forIn (x :: xs) init f = none := by
  simp [List.forIn_cons, h]

theorem idx_append_length {α : Type} (pre : List α) (x : α) (rest : List α) :
    idx (pre ++ x :: rest) (pre.length : Int) = some x := by
  simp [idx]

theorem idx_append_length_succ {α : Type} (pre : List α) (x y : α) (rest : List α) :
    idx (pre ++ x :: y :: rest) ((pre.length : Int) + 1) = some y := by
  have : ((pre.length : Int) + 1).toNat = pre.length + 1 := by omega
  simp [idx, this]
  omega

theorem sliceFrom_app {α : Type} (pre rest : List α) : sliceFrom (pre ++ rest) (pre.length : Int) = some rest := by
  simp [sliceFrom]; omega

theorem sliceFrom_app1 {α : Type} (pre : List α) (x : α) (rest : List α) :
    sliceFrom (pre ++ x :: rest) ((pre.length : Int) + 1) = some rest := by
  have := sliceFrom_app (pre ++ [x]) rest
  simpa using this

theorem sliceFrom_app2 {α : Type} (pre : List α) (x y : α) (rest : List α) :
    sliceFrom (pre ++ x :: y :: rest) ((pre.length : Int) + 2) = some rest := by
  have := sliceFrom_app (pre ++ [x, y]) rest
  simp only [List.length_append, List.length_cons, List.length_nil, List.append_assoc, List.cons_append, List.nil_append] at this
  rw [← this]; congr 1

theorem sliceTo_app1 {α : Type} (pre : List α) (x : α) (rest : List α) :
    sliceTo (pre ++ x :: rest) ((pre.length : Int) + 1) = some (pre ++ [x]) := by
  have h : ((pre.length : Int) + 1).toNat = (pre ++ [x]).length := by simp
  unfold sliceTo
  rw [h]
  have : (pre ++ x :: rest) = (pre ++ [x]) ++ rest := by simp
  rw [this, List.take_left']
  · simp; omega
  · rfl

end Anonymongo.Src
