/-
  Props/Src/Basic.lean — the functions TRANSLATED from anonymizer.go / helpers.go by tools/gotr (Generated/Src.lean)
  compute exactly what the hand-written model says, never panic, and terminate.  Part 1: the helpers.

  Each theorem reads `Src.f g T args = some (model function on the abstracted arguments)`: `some` = the Go function returns
  (no index out of range, no nil dereference, no failed assertion) and the value is the model's.
-/
import Anonymongo.Generated.Src
import Anonymongo.Model.Walk
import Anonymongo.Lemmas.Basic
namespace Anonymongo.Src
open Anonymongo Anonymongo.Go

/-- the model configuration that a state of the Go option variables stands for.  Encrypt mode is on when `shouldEncrypt` is
    set AND a key is installed; the ciphertext of a string is `base64 (Encrypt (utf8 s) key)`, an `Encrypt` error is `none`. -/
def absCfg (g : Globals) : Cfg where
  repl := g.redactedString
  nums := g.redactNumbers
  bools := g.redactBooleans
  ips := g.redactIPs
  ns := g.redactNamespaces
  re := g.redactedFieldsRegexp
  enc := if g.shouldEncrypt && g.encryptionKey.isSome then
      some (fun s => (g.Encrypt (utf8 s) g.encryptionKey).map g.b64) else none

/-! one iteration of a `for` loop over a list, with the rest of the loop left untouched -/
theorem forIn_cons_yield {α β : Type} (x : α) (xs : List α) (init b' : β) (f : α → β → Option (ForInStep β))
    (h : f x init = some (.yield b')) : forIn (x :: xs) init f = forIn xs b' f := by
  simp [List.forIn_cons, h]

theorem forIn_cons_done {α β : Type} (x : α) (xs : List α) (init b' : β) (f : α → β → Option (ForInStep β))
    (h : f x init = some (.done b')) : forIn (x :: xs) init f = some b' := by
  simp [List.forIn_cons, h]

theorem forIn_cons_none {α β : Type} (x : α) (xs : List α) (init : β) (f : α → β → Option (ForInStep β))
    (h : f x init = none) : forIn (x :: xs) init f = none := by
  simp [List.forIn_cons, h]

/-- `reMatchesAnyKeyInPath` is `reMatchesAny` -/
theorem reMatchesAnyKeyInPath_eq (g : Globals) (T : Tables) (kp : List Str) (re : Option (Str → Bool)) :
    reMatchesAnyKeyInPath g T kp re = some (reMatchesAny re kp) := by
  unfold reMatchesAnyKeyInPath reMatchesAny
  cases re with
  | none => simp
  | some m =>
    simp [reMatch]
    induction kp with
    | nil => simp
    | cons k ks ih => cases h : m k <;> simp [h, ih]

/-- `redactString` is the model's, under the abstraction of the option variables -/
theorem redactString_eq (g : Globals) (T : Tables) (s ph : Str) :
    redactString g T s ph = some (Anonymongo.redactString (absCfg g) s ph) := by
  unfold redactString Anonymongo.redactString absCfg
  cases h1 : g.shouldEncrypt <;> cases h2 : g.encryptionKey <;> simp [errPair]
  cases h3 : g.Encrypt (utf8 s) (some _) <;> simp

/-- `IsEmail` is the length guard and the recogniser -/
theorem IsEmail_eq (g : Globals) (T : Tables) (s : Str) : IsEmail g T s = some (isEmail s) := by
  unfold IsEmail isEmail
  simp only [strLen, reMatch]
  -- (robust against the spelling of the length guard: `<` / `>` or negated `>=` / `<=`)
  have p1 : ((utf8Len s : Int) < 3) ↔ ¬ (3 ≤ utf8Len s) := by omega
  have p2 : ((utf8Len s : Int) > 254) ↔ ¬ (utf8Len s ≤ 254) := by omega
  have p3 : ((utf8Len s : Int) ≥ 3) ↔ (3 ≤ utf8Len s) := by omega
  have p4 : ((utf8Len s : Int) ≤ 254) ↔ (utf8Len s ≤ 254) := by omega
  by_cases a : 3 ≤ utf8Len s <;> by_cases b : utf8Len s ≤ 254 <;> simp [p1, p2, p3, p4, a, b]

theorem idx_append_length {α : Type} (pre : List α) (x : α) (rest : List α) :
    idx (pre ++ x :: rest) (pre.length : Int) = some x := by
  simp [idx]

theorem idx_append_length_succ {α : Type} (pre : List α) (x y : α) (rest : List α) :
    idx (pre ++ x :: y :: rest) ((pre.length : Int) + 1) = some y := by
  have : ((pre.length : Int) + 1).toNat = pre.length + 1 := by omega
  simp [idx, this]
  omega

theorem sliceFrom_app {α : Type} (pre rest : List α) : sliceFrom (pre ++ rest) (pre.length : Int) = some rest := by
  simp [sliceFrom]; omega

theorem sliceFrom_app1 {α : Type} (pre : List α) (x : α) (rest : List α) :
    sliceFrom (pre ++ x :: rest) ((pre.length : Int) + 1) = some rest := by
  have := sliceFrom_app (pre ++ [x]) rest
  simpa using this

theorem sliceFrom_app2 {α : Type} (pre : List α) (x y : α) (rest : List α) :
    sliceFrom (pre ++ x :: y :: rest) ((pre.length : Int) + 2) = some rest := by
  have := sliceFrom_app (pre ++ [x, y]) rest
  simp only [List.length_append, List.length_cons, List.length_nil, List.append_assoc, List.cons_append, List.nil_append] at this
  rw [← this]; congr 1

theorem sliceTo_app1 {α : Type} (pre : List α) (x : α) (rest : List α) :
    sliceTo (pre ++ x :: rest) ((pre.length : Int) + 1) = some (pre ++ [x]) := by
  have h : ((pre.length : Int) + 1).toNat = (pre ++ [x]).length := by simp
  unfold sliceTo
  rw [h]
  have : (pre ++ x :: rest) = (pre ++ [x]) ++ rest := by simp
  rw [this, List.take_left']
  · simp; omega
  · rfl

theorem wsud_nil : Anonymongo.withinSearchUserDocument [] = false := by rfl
theorem wsud_one (a : Str) : Anonymongo.withinSearchUserDocument [a] = false := by rfl
theorem wsud_two (a b : Str) : Anonymongo.withinSearchUserDocument [a, b] = false := by rfl
theorem wsud_three (a b c : Str) (r : List Str) : Anonymongo.withinSearchUserDocument (a :: b :: c :: r) =
   ((a = sMoreLikeThis && b = sLike) || Anonymongo.withinSearchUserDocument (b :: c :: r)) := by rw [Anonymongo.withinSearchUserDocument]

/-- `withinSearchUserDocument` -/
theorem withinSearchUserDocument_eq (g : Globals) (T : Tables) (kp : List Str) :
    withinSearchUserDocument g T kp = some (Anonymongo.withinSearchUserDocument kp) := by
  have key : ∃ (β : Type) (init : β) (F : Nat → β → Option (ForInStep β)) (K : β → Option Bool),
      withinSearchUserDocument g T kp = (forIn (List.range' 0 ((len kp).toNat - 0)) init F) >>= K ∧
      ∀ (pre rest : List Str), pre ++ rest = kp →
        (forIn (List.range' pre.length rest.length) init F) >>= K = some (Anonymongo.withinSearchUserDocument rest) := by
    refine ⟨_, _, _, _, rfl, ?_⟩
    intro pre rest
    induction rest generalizing pre with
    | nil => intro h; rfl
    | cons a r ih =>
      intro h
      have ih' := ih (pre ++ [a]) (by simpa using h)
      have hpl : (pre ++ [a]).length = pre.length + 1 := by simp
      rw [hpl] at ih'
      rw [List.length_cons, List.range'_succ, List.forIn_cons]
      match r with
      | [] =>
        have hk : len kp = pre.length + 1 := by simp [← h, len]
        have : ¬ ((pre.length:Int) + 2 < pre.length + 1) := by omega
        simp only [List.length_nil, List.range'_zero, List.forIn_nil, hk, this, decide_false, Bool.not_false, if_true]
        rfl
      | [b] =>
        have hk : len kp = pre.length + 2 := by simp [← h, len]
        have : ¬ ((pre.length:Int) + 2 < pre.length + 2) := by omega
        simp only [List.length_cons, List.length_nil, List.range'_succ, List.range'_zero, List.forIn_cons, List.forIn_nil, hk, this, decide_false, Bool.not_false, if_true]
        rfl
      | b :: c :: r' =>
        have hk : len kp = pre.length + (r'.length + 3) := by simp [← h, len]; omega
        have c1 : ((pre.length : Int) + 2 < len kp) := by rw [hk]; omega
        have e0 : idx kp (pre.length : Int) = some a := by rw [← h]; exact idx_append_length _ _ _
        have e1 : idx kp ((pre.length : Int) + 1) = some b := by rw [← h]; exact idx_append_length_succ _ _ _ _
        simp only [c1, decide_true, Bool.not_true, Bool.false_eq_true, if_false, e0, e1]
        rw [wsud_three]
        by_cases ha : a = sMoreLikeThis
        · by_cases hb : b = sLike
          · have h1 : (a == s_moreLikeThis) = true := by rw [ha]; rfl
            have h2 : (b == s_like) = true := by rw [hb]; rfl
            simp only [bind, Option.bind, pure, h1, h2, goAnd]
            simp [ha, hb]
          · have h1 : (a == s_moreLikeThis) = true := by rw [ha]; rfl
            have h2 : (b == s_like) = false := by
              have : ¬ (b = s_like) := hb
              simpa using this
            simp only [bind, Option.bind, pure, h1, h2, goAnd]
            simp only [hb, decide_false, Bool.and_false, Bool.false_or, Bool.false_eq_true, if_false]
            exact ih'
        · have h1 : (a == s_moreLikeThis) = false := by
            have : ¬ (a = s_moreLikeThis) := ha
            simpa using this
          simp only [bind, Option.bind, pure, h1, goAnd]
          simp only [ha, decide_false, Bool.false_and, Bool.false_or, Bool.false_eq_true, if_false]
          exact ih'
  obtain ⟨β, init, F, K, e, h⟩ := key
  rw [e]
  have := h [] kp rfl
  simpa [len] using this

/-- `RemoveElementsBeforeIncluding` -/
theorem RemoveElementsBeforeIncluding_eq (g : Globals) (T : Tables) (slice : List Str) (marker : Str) :
    RemoveElementsBeforeIncluding g T slice marker = some (removeElementsBeforeIncluding marker slice) := by
  have key : ∃ (β : Type) (init : β) (F : Str × Nat → β → Option (ForInStep β)) (K : β → Option (List Str)),
      RemoveElementsBeforeIncluding g T slice marker = (forIn slice.zipIdx init F) >>= K ∧
      ∀ pre rest, pre ++ rest = slice →
        (forIn (rest.zipIdx pre.length) init F) >>= K = some (removeElementsBeforeIncluding marker rest) := by
    refine ⟨_, _, _, _, rfl, ?_⟩
    intro pre rest
    induction rest generalizing pre with
    | nil => intro _; rfl
    | cons x xs ih =>
      intro h
      cases xs with
      | nil =>
        have hk : len slice = pre.length + 1 := by simp [← h, len]
        have : ¬ ((pre.length : Int) + 1 < pre.length + 1) := by omega
        simp only [List.zipIdx_cons, List.zipIdx_nil, List.forIn_cons, List.forIn_nil, hk, this, decide_false, Bool.and_false,
          Bool.false_eq_true, if_false]
        rfl
      | cons y ys =>
        have ih' := ih (pre ++ [x]) (by simpa using h)
        simp only [List.zipIdx_cons, List.forIn_cons]
        have hlt : ((pre.length : Int) + 1 < len slice) := by rw [← h]; simp [len]; omega
        by_cases hx : x = marker
        · subst hx
          have e : sliceFrom slice ((pre.length : Int) + 1) = some (y :: ys) := by rw [← h]; exact sliceFrom_app1 _ _ _
          simp only [beq_self_eq_true, hlt, decide_true, Bool.and_self, if_true, e]
          simp [removeElementsBeforeIncluding]
        · have hb : (x == marker) = false := by simpa using hx
          simp only [hb, Bool.false_and, Bool.false_eq_true, if_false]
          have : removeElementsBeforeIncluding marker (x :: y :: ys) = removeElementsBeforeIncluding marker (y :: ys) := by
            simp [removeElementsBeforeIncluding, hx]
          rw [this]
          simpa [List.zipIdx_cons] using ih'
  obtain ⟨β, init, F, K, e, h⟩ := key
  rw [e]; exact h [] slice rfl

/-- `RemoveElementAfter` -/
theorem RemoveElementAfter_eq (g : Globals) (T : Tables) (slice : List Str) (marker : Str) :
    RemoveElementAfter g T slice marker = some (removeElementAfter marker slice) := by
  have key : ∃ (β : Type) (init : β) (F : Str × Nat → β → Option (ForInStep β)) (K : β → Option (List Str)),
      RemoveElementAfter g T slice marker = (forIn slice.zipIdx init F) >>= K ∧
      ∀ pre rest, pre ++ rest = slice →
        ∃ r, (forIn (rest.zipIdx pre.length) init F) >>= K = some r ∧ r = pre ++ removeElementAfter marker rest := by
    refine ⟨_, _, _, _, rfl, ?_⟩
    intro pre rest
    induction rest generalizing pre with
    | nil => intro h; exact ⟨slice, rfl, by simp [← h, removeElementAfter]⟩
    | cons x xs ih =>
      intro h
      cases xs with
      | nil =>
        have hk : len slice = pre.length + 1 := by simp [← h, len]
        have : ¬ ((pre.length : Int) + 1 < pre.length + 1) := by omega
        simp only [List.zipIdx_cons, List.zipIdx_nil, List.forIn_cons, List.forIn_nil, hk, this, decide_false, Bool.and_false,
          Bool.false_eq_true, if_false]
        exact ⟨slice, rfl, by simp [← h, removeElementAfter]⟩
      | cons y ys =>
        obtain ⟨r, hr, hr2⟩ := ih (pre ++ [x]) (by simpa using h)
        simp only [List.zipIdx_cons, List.forIn_cons]
        have hlt : ((pre.length : Int) + 1 < len slice) := by rw [← h]; simp [len]; omega
        by_cases hx : x = marker
        · subst hx
          have e1 : sliceTo slice ((pre.length : Int) + 1) = some (pre ++ [x]) := by rw [← h]; exact sliceTo_app1 _ _ _
          have e2' : sliceFrom slice ((pre.length : Int) + 2) = some ys := by
            rw [← h]; exact sliceFrom_app2 pre x y ys
          simp only [beq_self_eq_true, hlt, decide_true, Bool.and_self, if_true, e1, e2']
          refine ⟨pre ++ x :: ys, ?_, by simp [removeElementAfter]⟩
          simp [bind, Option.bind, pure]
        · have hb : (x == marker) = false := by simpa using hx
          simp only [hb, Bool.false_and, Bool.false_eq_true, if_false]
          refine ⟨r, ?_, ?_⟩
          · simpa [List.zipIdx_cons] using hr
          · rw [hr2]; simp [removeElementAfter, hx]
  obtain ⟨β, init, F, K, e, h⟩ := key
  rw [e]
  obtain ⟨r, hr, hr2⟩ := h [] slice rfl
  rw [hr2] at hr; exact hr

end Anonymongo.Src
