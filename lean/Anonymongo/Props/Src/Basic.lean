/-
  Props/Src/Basic.lean — umbrella (kept for the module names used elsewhere): the leaf helpers and the path helpers.
-/
import Anonymongo.Props.Src.Leaf
import Anonymongo.Props.Src.PathFns
