/-
  Props/Src/Command.lean — the TRANSLATED `redactCommand` and `redactNamespace` (Generated/Src.lean) are the model's
  `Ctx.redactCommand` / `Ctx.redactNamespace` (Model/Line.lean) on command documents without duplicate keys at any level.
  In Go these functions update maps THROUGH POINTERS obtained from the enclosing map (`explain`'s operation, the elements of `ops` /
  `nsInfo`); the translator writes every such update back into the enclosing values, and the theorems show the result is the
  model's key-wise rebuild.
-/
import Anonymongo.Props.Src.Dispatch
import Anonymongo.Lemmas.NoDup
namespace Anonymongo.Src
open Anonymongo Anonymongo.Go

/-- apply `r` to a document, leave anything else alone -/
def objF (r : List (Str × J) → List (Str × J)) : J → J
  | .obj m => .obj (r m)
  | v => v

def arrF (r : List (Str × J) → List (Str × J)) : J → J
  | .arr xs => .arr (xs.map (objF r))
  | v => v

theorem setKV_setKV {α : Type} (k : Str) (a b : α) : ∀ (l : List (Str × α)), setKV k a (setKV k b l) = setKV k a l
  | [] => by simp [setKV]
  | (k', v) :: rest => by
    by_cases h : k' = k
    · simp [setKV, h]
    · simp [setKV, h, setKV_setKV k a b rest]

/-- a statement `if x, ok := cmd.Get(K); ok { if m, ok := x.(*OrderedMap); ok { R(m) } }` where `R` updates `m` in place -/
theorem blkInner (R : List (Str × J) → Option (List (Str × J))) (r : List (Str × J) → List (Str × J)) (K : Str) (cmd : List (Str × J))
    (hnd : nodupKeys (keysOf cmd) = true) (hR : ∀ m, lookup K cmd = some (.obj m) → R m = some (r m)) :
    (do
      let mut cmd := cmd
      let (explained, ok) := (objGet cmd K)
      if ok then
        let mut (inner, ok_2) := (asObj explained)
        if ok_2 then
          inner := (← R inner)
          cmd := setKV K (J.obj inner) cmd
      return cmd) = some (updAt K (objF r) cmd) := by
  cases hl : lookup K cmd with
  | none => simp [objGet, hl, lookup_none_updAt K _ cmd hl]
  | some v =>
    cases v with
    | obj m =>
      simp only [objGet, hl, asObj, if_true, hR m hl, bind, Option.bind, pure]
      have := setKV_updAt K (objF r) cmd (.obj m) hnd hl
      simp only [objF] at this
      rw [this]
    | _ =>
      have hfix := updAt_fix K (objF r) cmd _ hnd hl rfl
      simp [objGet, hl, asObj, hfix]

/-- what the element loop leaves in the enclosing document: the last write-back, if there was one -/
def loopCmd (r : List (Str × J) → List (Str × J)) (K : Str) : List J → List J → List (Str × J) → List (Str × J)
  | [], _, c => c
  | .obj m :: rest, pre, c => loopCmd r K rest (pre ++ [.obj (r m)]) (setKV K (.arr (pre ++ .obj (r m) :: rest)) c)
  | x :: rest, pre, c => loopCmd r K rest (pre ++ [x]) c

def isObj : J → Bool
  | .obj _ => true
  | _ => false

theorem map_objF_noobj (r : List (Str × J) → List (Str × J)) : ∀ (rest : List J), rest.any isObj = false → rest.map (objF r) = rest
  | [], _ => rfl
  | y :: ys, h => by
    simp only [List.any_cons, Bool.or_eq_false_iff] at h
    have ih := map_objF_noobj r ys h.2
    cases y <;> simp_all [objF, isObj]

theorem loopCmd_eq (r : List (Str × J) → List (Str × J)) (K : Str) : ∀ (rest pre : List J) (c : List (Str × J)),
    loopCmd r K rest pre c = if rest.any isObj = true then setKV K (.arr (pre ++ rest.map (objF r))) c else c
  | [], _, _ => by simp [loopCmd]
  | x :: rest, pre, c => by
    cases x with
    | obj m =>
      rw [loopCmd, loopCmd_eq r K rest (pre ++ [J.obj (r m)]) (setKV K (J.arr (pre ++ J.obj (r m) :: rest)) c)]
      cases h : rest.any isObj
      · simp [isObj, objF, map_objF_noobj r rest h]
      · simp [isObj, objF, setKV_setKV]
    | null =>
      have h1 : loopCmd r K (J.null :: rest) pre c = loopCmd r K rest (pre ++ [J.null]) c := by
        rw [loopCmd]; intro m h; cases h
      rw [h1, loopCmd_eq r K rest (pre ++ [J.null]) c]; simp [isObj, objF]
    | bool b =>
      have h1 : loopCmd r K (J.bool b :: rest) pre c = loopCmd r K rest (pre ++ [J.bool b]) c := by
        rw [loopCmd]; intro m h; cases h
      rw [h1, loopCmd_eq r K rest (pre ++ [J.bool b]) c]; simp [isObj, objF]
    | num l =>
      have h1 : loopCmd r K (J.num l :: rest) pre c = loopCmd r K rest (pre ++ [J.num l]) c := by
        rw [loopCmd]; intro m h; cases h
      rw [h1, loopCmd_eq r K rest (pre ++ [J.num l]) c]; simp [isObj, objF]
    | str t =>
      have h1 : loopCmd r K (J.str t :: rest) pre c = loopCmd r K rest (pre ++ [J.str t]) c := by
        rw [loopCmd]; intro m h; cases h
      rw [h1, loopCmd_eq r K rest (pre ++ [J.str t]) c]; simp [isObj, objF]
    | arr ys =>
      have h1 : loopCmd r K (J.arr ys :: rest) pre c = loopCmd r K rest (pre ++ [J.arr ys]) c := by
        rw [loopCmd]; intro m h; cases h
      rw [h1, loopCmd_eq r K rest (pre ++ [J.arr ys]) c]; simp [isObj, objF]

/-- the element loop: every element that is a document goes through `R` and is written back -/
theorem opsLoop (R : List (Str × J) → Option (List (Str × J))) (r : List (Str × J) → List (Str × J)) (K : Str)
    (f : J × Nat → List (Str × J) × List J → Option (ForInStep (List (Str × J) × List J)))
    (hf : ∀ (x : J) (pre' rest' : List J) (c : List (Str × J)), (∀ m, x = .obj m → R m = some (r m)) →
      f (x, pre'.length) (c, pre' ++ x :: rest') = some (.yield
        (match x with
         | .obj m => (setKV K (.arr (pre' ++ .obj (r m) :: rest')) c, pre' ++ .obj (r m) :: rest')
         | _ => (c, pre' ++ x :: rest')))) :
    ∀ (rest pre : List J) (c : List (Str × J)), (∀ m, .obj m ∈ rest → R m = some (r m)) →
      forIn (rest.zipIdx pre.length) (c, pre ++ rest) f = some (loopCmd r K rest pre c, pre ++ rest.map (objF r))
  | [], pre, c, _ => by simp [loopCmd]
  | x :: rest, pre, c, hR => by
    rw [List.zipIdx_cons, forIn_cons_yield _ _ _ _ f (hf x pre rest c (fun m hm => hR m (by simp [hm])))]
    cases x with
    | obj m =>
      have e : pre ++ J.obj (r m) :: rest = (pre ++ [J.obj (r m)]) ++ rest := by simp
      simp only []
      rw [e]
      have := opsLoop R r K f hf rest (pre ++ [J.obj (r m)]) (setKV K (.arr ((pre ++ [J.obj (r m)]) ++ rest)) c)
        (fun m' hm' => hR m' (by simp [hm']))
      rw [List.length_append] at this
      simp only [List.length_cons, List.length_nil] at this
      rw [this, loopCmd]
      simp [objF]
    | null =>
      simp only []
      have e : pre ++ J.null :: rest = (pre ++ [J.null]) ++ rest := by simp
      rw [e]
      have := opsLoop R r K f hf rest (pre ++ [J.null]) c (fun m' hm' => hR m' (by simp [hm']))
      rw [List.length_append] at this
      simp only [List.length_cons, List.length_nil] at this
      have h1 : loopCmd r K (J.null :: rest) pre c = loopCmd r K rest (pre ++ [J.null]) c := by
        rw [loopCmd]; intro m h; cases h
      rw [this, h1]
      simp [objF]
    | bool b =>
      simp only []
      have e : pre ++ J.bool b :: rest = (pre ++ [J.bool b]) ++ rest := by simp
      rw [e]
      have := opsLoop R r K f hf rest (pre ++ [J.bool b]) c (fun m' hm' => hR m' (by simp [hm']))
      rw [List.length_append] at this
      simp only [List.length_cons, List.length_nil] at this
      have h1 : loopCmd r K (J.bool b :: rest) pre c = loopCmd r K rest (pre ++ [J.bool b]) c := by
        rw [loopCmd]; intro m h; cases h
      rw [this, h1]
      simp [objF]
    | num l =>
      simp only []
      have e : pre ++ J.num l :: rest = (pre ++ [J.num l]) ++ rest := by simp
      rw [e]
      have := opsLoop R r K f hf rest (pre ++ [J.num l]) c (fun m' hm' => hR m' (by simp [hm']))
      rw [List.length_append] at this
      simp only [List.length_cons, List.length_nil] at this
      have h1 : loopCmd r K (J.num l :: rest) pre c = loopCmd r K rest (pre ++ [J.num l]) c := by
        rw [loopCmd]; intro m h; cases h
      rw [this, h1]
      simp [objF]
    | str t =>
      simp only []
      have e : pre ++ J.str t :: rest = (pre ++ [J.str t]) ++ rest := by simp
      rw [e]
      have := opsLoop R r K f hf rest (pre ++ [J.str t]) c (fun m' hm' => hR m' (by simp [hm']))
      rw [List.length_append] at this
      simp only [List.length_cons, List.length_nil] at this
      have h1 : loopCmd r K (J.str t :: rest) pre c = loopCmd r K rest (pre ++ [J.str t]) c := by
        rw [loopCmd]; intro m h; cases h
      rw [this, h1]
      simp [objF]
    | arr ys =>
      simp only []
      have e : pre ++ J.arr ys :: rest = (pre ++ [J.arr ys]) ++ rest := by simp
      rw [e]
      have := opsLoop R r K f hf rest (pre ++ [J.arr ys]) c (fun m' hm' => hR m' (by simp [hm']))
      rw [List.length_append] at this
      simp only [List.length_cons, List.length_nil] at this
      have h1 : loopCmd r K (J.arr ys :: rest) pre c = loopCmd r K rest (pre ++ [J.arr ys]) c := by
        rw [loopCmd]; intro m h; cases h
      rw [this, h1]
      simp [objF]

theorem loop_result (r : List (Str × J) → List (Str × J)) (K : Str) (cmd : List (Str × J)) (xs : List J)
    (hnd : nodupKeys (keysOf cmd) = true) (hl : lookup K cmd = some (.arr xs)) :
    loopCmd r K xs [] cmd = updAt K (arrF r) cmd := by
  rw [loopCmd_eq]
  cases h : xs.any isObj
  · have hm := map_objF_noobj r xs h
    have : arrF r (.arr xs) = .arr xs := by simp [arrF, hm]
    simp [updAt_fix K (arrF r) cmd _ hnd hl this]
  · have := setKV_updAt K (arrF r) cmd (.arr xs) hnd hl
    simp only [arrF] at this
    simp [this]

/-- `… if a, ok := x.([]any); ok { for _, e := range a { if m, ok := e.(*OrderedMap); ok { R(m) } } }`, `R` updating `m` in place -/
theorem blkLoop (R : List (Str × J) → Option (List (Str × J))) (r : List (Str × J) → List (Str × J)) (K : Str) (cmd : List (Str × J))
    (hnd : nodupKeys (keysOf cmd) = true)
    (hR : ∀ xs, lookup K cmd = some (.arr xs) → ∀ m, J.obj m ∈ xs → R m = some (r m)) :
    (do
      let mut cmd := cmd
      let (nsInfo, ok) := (objGet cmd K)
      if ok then
        let mut (nsInfoArr, ok_2) := (asArr nsInfo)
        if ok_2 then
          for (info, info_i_n) in (nsInfoArr).zipIdx do
            let info_i : Int := info_i_n
            let mut (infoMap, ok_3) := (asObj info)
            if ok_3 then
              infoMap := (← R infoMap)
              nsInfoArr := (← setIdx nsInfoArr info_i (J.obj infoMap))
              cmd := setKV K (J.arr nsInfoArr) cmd
      return cmd) = some (updAt K (arrF r) cmd) := by
  cases hl : lookup K cmd with
  | none => simp [objGet, hl, lookup_none_updAt K _ cmd hl]
  | some v =>
    cases v with
    | arr xs =>
      have hz : xs.zipIdx = xs.zipIdx ([] : List J).length := rfl
      have hx : (cmd, xs) = (cmd, [] ++ xs) := rfl
      simp only [objGet, hl, asArr, if_true]
      rw [hz, hx, opsLoop R r K _ ?hf xs [] cmd (hR xs hl)]
      case hf =>
        intro x pre' rest' c hx
        cases x with
        | obj m => simp [asObj, hx m rfl, setIdx_mid']
        | _ => simp [asObj]
      simp only [List.nil_append, bind, Option.bind, pure]
      rw [loop_result r K cmd xs hnd hl]
    | _ =>
      have hfix := updAt_fix K (arrF r) cmd _ hnd hl rfl
      simp [objGet, hl, asArr, hfix]

/-- the same, under a guard `if _, present := cmd.Get(KG); present { … }` -/
theorem blkLoopG (R : List (Str × J) → Option (List (Str × J))) (r : List (Str × J) → List (Str × J)) (KG K : Str) (cmd : List (Str × J))
    (hnd : nodupKeys (keysOf cmd) = true)
    (hR : ∀ xs, lookup K cmd = some (.arr xs) → ∀ m, J.obj m ∈ xs → R m = some (r m)) :
    (do
      let mut cmd := cmd
      let (_, isBulkWrite) := (objGet cmd KG)
      if isBulkWrite then
        let (ops, ok) := (objGet cmd K)
        if ok then
          let mut (opsArr, ok_2) := (asArr ops)
          if ok_2 then
            for (op, op_i_n) in (opsArr).zipIdx do
              let op_i : Int := op_i_n
              let mut (opMap, ok_3) := (asObj op)
              if ok_3 then
                opMap := (← R opMap)
                opsArr := (← setIdx opsArr op_i (J.obj opMap))
                cmd := setKV K (J.arr opsArr) cmd
      return cmd) = some (if (lookup KG cmd).isSome then updAt K (arrF r) cmd else cmd) := by
  cases hg : lookup KG cmd with
  | none => simp [objGet, hg]
  | some w =>
    simp only [Option.isSome_some, if_true]
    cases hl : lookup K cmd with
    | none => simp [objGet, hg, hl, lookup_none_updAt K _ cmd hl]
    | some v =>
      cases v with
      | arr xs =>
        have hz : xs.zipIdx = xs.zipIdx ([] : List J).length := rfl
        have hx : (cmd, xs) = (cmd, [] ++ xs) := rfl
        simp only [objGet, hg, hl, asArr, if_true]
        rw [hz, hx, opsLoop R r K _ ?hf xs [] cmd (hR xs hl)]
        case hf =>
          intro x pre' rest' c hx
          cases x with
          | obj m => simp [asObj, hx m rfl, setIdx_mid']
          | _ => simp [asObj]
        simp only [List.nil_append, bind, Option.bind, pure]
        rw [loop_result r K cmd xs hnd hl]
      | _ =>
        have hfix := updAt_fix K (arrF r) cmd _ hnd hl rfl
        simp [objGet, hg, hl, asArr, hfix]

/-! distinct keys at every level, as the parser guarantees -/
theorem nodupKVs_mem : ∀ (kvs : List (Str × J)) (p : Str × J), nodupKVs kvs = true → p ∈ kvs → p.2.nodup = true
  | [], _, _, h => by cases h
  | (k, v) :: rest, p, hn, h => by
    rw [nodupKVs, Bool.and_eq_true] at hn
    rcases List.mem_cons.mp h with rfl | h'
    · exact hn.1
    · exact nodupKVs_mem rest p hn.2 h'

theorem nodupList_mem : ∀ (xs : List J) (x : J), nodupList xs = true → x ∈ xs → x.nodup = true
  | [], _, _, h => by cases h
  | y :: ys, x, hn, h => by
    rw [nodupList, Bool.and_eq_true] at hn
    rcases List.mem_cons.mp h with rfl | h'
    · exact hn.1
    · exact nodupList_mem ys x hn.2 h'

theorem nodup_obj_keys (m : List (Str × J)) (h : (J.obj m).nodup = true) : nodupKeys (keysOf m) = true := by
  rw [J.nodup, Bool.and_eq_true] at h; exact h.1

theorem nodup_lookup (cmd : List (Str × J)) (h : (J.obj cmd).nodup = true) (k : Str) (v : J) (hl : lookup k cmd = some v) : v.nodup = true := by
  rw [J.nodup, Bool.and_eq_true] at h
  exact nodupKVs_mem cmd (k, v) h.2 (lookup_mem cmd k v hl)

theorem nsFields_eq_map (c : Ctx) (cmd : List (Str × J)) : c.nsFields cmd = cmd.map (fun p => (p.1, c.nsFieldVal p.1 p.2)) := rfl

/-- **`redactNamespace` is the model's `redactNamespace`** -/
theorem redactNamespace_eq (g : Globals) (T : Tables) (cmd : List (Str × J)) (hnd : (J.obj cmd).nodup = true)
    (hsf : T.searchedFields = [s_ns, s_aggregate, s_insert, s_find, s_update, s_collection, s_delete, s__24db, s_count, s_findAndModify,
      s_findOneAndDelete, s_replace, s_findOneAndReplace, s_findOneAndUpdate, s_getIndexes, s_countDocuments, s_distinct, s_mapReduce, s_findandmodify]) :
    redactNamespace g T cmd = some ((Ctx.mk T (absCfg g) false).redactNamespace cmd) := by
  have hk := nodup_obj_keys cmd hnd
  have e1 : redactNamespace_s1 g T cmd = some ((Ctx.mk T (absCfg g) false).nsFields cmd) := by
    unfold redactNamespace_s1
    simp only [redactNamespaceFields_eq g T cmd hk hsf, bind, Option.bind, pure]
  -- the looked-up values of `explain` / `nsInfo` are those of the original document: they are not strings of searched fields
  have hlk : ∀ (K : Str) (v : J), lookup K ((Ctx.mk T (absCfg g) false).nsFields cmd) = some v → (∀ s, v ≠ .str s) → lookup K cmd = some v := by
    intro K v h hv
    rw [nsFields_eq_map, lookup_map_snd (fun k w => (Ctx.mk T (absCfg g) false).nsFieldVal k w) K cmd] at h
    cases hl : lookup K cmd with
    | none => rw [hl] at h; cases h
    | some w =>
      rw [hl] at h
      simp only [Option.map_some, Option.some.injEq] at h
      cases w with
      | str s => unfold Ctx.nsFieldVal at h; simp only [] at h; split at h <;> (subst h; exact absurd rfl (hv _))
      | _ => unfold Ctx.nsFieldVal at h; simp only [] at h; rw [h]
  have hk1 : nodupKeys (keysOf ((Ctx.mk T (absCfg g) false).nsFields cmd)) = true := by
    rw [nsFields_eq_map]; unfold keysOf; rw [List.map_map]
    have : ((fun x : Str × J => x.1) ∘ fun p : Str × J => (p.1, (Ctx.mk T (absCfg g) false).nsFieldVal p.1 p.2)) = fun x => x.1 := by funext p; rfl
    rw [this]; exact hk
  have e2 := blkInner (redactNamespaceFields g T) ((Ctx.mk T (absCfg g) false).nsFields) s_explain _ hk1 (by
    intro m hm
    have := hlk s_explain (.obj m) hm (by intro s h; cases h)
    exact redactNamespaceFields_eq g T m (nodup_obj_keys m (nodup_lookup cmd hnd _ _ this)) hsf)
  have hk2 : nodupKeys (keysOf (updAt s_explain (objF (Ctx.mk T (absCfg g) false).nsFields) ((Ctx.mk T (absCfg g) false).nsFields cmd))) = true := by
    rw [keysOf_updAt]; exact hk1
  have e3 := blkLoop (redactNamespaceFields g T) ((Ctx.mk T (absCfg g) false).nsFields) s_nsInfo _ hk2 (by
    intro xs hxs m hm
    rw [lookup_updAt, if_neg (by decide)] at hxs
    have := hlk s_nsInfo (.arr xs) hxs (by intro s h; cases h)
    have hx := nodup_lookup cmd hnd _ _ this
    rw [J.nodup] at hx
    exact redactNamespaceFields_eq g T m (nodup_obj_keys m (nodupList_mem xs _ hx hm)) hsf)
  unfold redactNamespace
  simp only [bind, Option.bind, pure, e1]
  rw [show redactNamespace_s2 g T _ = _ from e2]; simp only []
  rw [show redactNamespace_s3 g T _ = _ from e3]
  -- the three updates as one key-wise map
  unfold Ctx.redactNamespace updAt
  rw [nsFields_eq_map, List.map_map, List.map_map]
  congr 1
  apply List.map_congr_left
  intro p _
  obtain ⟨k, v⟩ := p
  have hm1 : s_explain ∉ T.searchedFields := by rw [hsf]; decide
  have hm2 : s_nsInfo ∉ T.searchedFields := by rw [hsf]; decide
  clear e1 e2 e3 hlk hk1 hk2
  have se : sExplain = s_explain := rfl
  have sn : sNsInfo = s_nsInfo := rfl
  simp only [Function.comp, Ctx.nsVal, se, sn]
  by_cases h1 : k = s_explain
  · subst h1
    have : ¬ (s_explain = s_nsInfo) := by decide
    cases v <;> simp [Ctx.nsFieldVal, hm1, this, objF, Ctx.nsDocOf]
  · by_cases h2 : k = s_nsInfo
    · subst h2
      cases v with
      | arr xs =>
        simp [Ctx.nsFieldVal, h1, arrF, Ctx.nsDocOf]
        intro x _; cases x <;> rfl
      | _ => simp [Ctx.nsFieldVal, hm2, h1, arrF, Ctx.nsDocOf]
    · simp [h1, h2]

theorem redactOperation_eq_map (c : Ctx) (cmd : List (Str × J)) :
    c.redactOperation cmd = cmd.map (fun p => (p.1, c.cmdVal (lookup sInsert cmd).isSome p.1 p.2)) := rfl

theorem keysOf_redactOperation (c : Ctx) (cmd : List (Str × J)) : keysOf (c.redactOperation cmd) = keysOf cmd := by
  rw [redactOperation_eq_map]; unfold keysOf; rw [List.map_map]; rfl

theorem depth_obj_lt (m : List (Str × J)) (cmd : List (Str × J)) (k : Str) (h : lookup k cmd = some (.obj m)) : depthKVs m < depthKVs cmd := by
  have := depth_lookup cmd k _ h
  rw [depth] at this; omega

/-- **`redactCommand` is the model's `redactCommand`**: the operation itself, the operation wrapped by `explain`, the operations
    listed by `bulkWrite` under `ops` - for every command document without duplicate keys at any level -/
theorem redactCommand_eq (g : Globals) (T : Tables) (env : Env g T) (fuel : Nat) (e : Bool) (cmd : List (Str × J))
    (hnd : (J.obj cmd).nodup = true) (hall : 2 * depthKVs cmd < fuel) :
    redactCommand g T fuel cmd e = some ((Ctx.mk T (absCfg g) e).redactCommand cmd) := by
  have hk := nodup_obj_keys cmd hnd
  have e1 : redactCommand_s1 g T fuel cmd e = some cmd := rfl
  have e2 : redactCommand_s2 g T fuel cmd e = some ((Ctx.mk T (absCfg g) e).redactOperation cmd) := by
    unfold redactCommand_s2
    simp only [redactOperation_eq g T env fuel e cmd hk hall, bind, Option.bind, pure]
  -- values of keys that redactOperation does not dispatch on are those of the original document
  have hlk : ∀ (K : Str), (Ctx.mk T (absCfg g) e).cmdVal (lookup sInsert cmd).isSome K = id →
      lookup K ((Ctx.mk T (absCfg g) e).redactOperation cmd) = lookup K cmd := by
    intro K hK
    rw [redactOperation_eq_map, lookup_map_snd (fun k w => (Ctx.mk T (absCfg g) e).cmdVal (lookup sInsert cmd).isSome k w) K cmd, hK]
    cases lookup K cmd <;> rfl
  have hid1 : (Ctx.mk T (absCfg g) e).cmdVal (lookup sInsert cmd).isSome s_explain = id := by
    funext v; cases (lookup sInsert cmd).isSome <;> rfl
  have hid2 : (Ctx.mk T (absCfg g) e).cmdVal (lookup sInsert cmd).isSome s_ops = id := by
    funext v; cases (lookup sInsert cmd).isSome <;> rfl
  have hk1 : nodupKeys (keysOf ((Ctx.mk T (absCfg g) e).redactOperation cmd)) = true := by rw [keysOf_redactOperation]; exact hk
  have e3 := blkInner (fun m => redactOperation g T fuel m e) ((Ctx.mk T (absCfg g) e).redactOperation) s_explain _ hk1 (by
    intro m hm
    rw [hlk s_explain hid1] at hm
    have hmn := nodup_lookup cmd hnd _ _ hm
    have := depth_obj_lt m cmd _ hm
    exact redactOperation_eq g T env fuel e m (nodup_obj_keys m hmn) (by omega))
  have hk2 : nodupKeys (keysOf (updAt s_explain (objF (Ctx.mk T (absCfg g) e).redactOperation) ((Ctx.mk T (absCfg g) e).redactOperation cmd))) = true := by
    rw [keysOf_updAt]; exact hk1
  have e4 := blkLoopG (fun m => redactOperation g T fuel m e) ((Ctx.mk T (absCfg g) e).redactOperation) s_bulkWrite s_ops _ hk2 (by
    intro xs hxs m hm
    rw [lookup_updAt, if_neg (by decide), hlk s_ops hid2] at hxs
    have hx := nodup_lookup cmd hnd _ _ hxs
    rw [J.nodup] at hx
    have hmn := nodupList_mem xs _ hx hm
    have hd1 := depth_lookup cmd _ _ hxs
    rw [depth] at hd1
    have hd2 := depth_mem_list xs _ hm
    rw [depth] at hd2
    exact redactOperation_eq g T env fuel e m (nodup_obj_keys m hmn) (by omega))
  unfold redactCommand
  simp only [bind, Option.bind, pure, e1, e2]
  rw [show redactCommand_s3 g T fuel _ e = _ from e3]; simp only []
  rw [show redactCommand_s4 g T fuel _ e = _ from e4]
  -- the three updates as one key-wise map
  have hb : (lookup s_bulkWrite (updAt s_explain (objF (Ctx.mk T (absCfg g) e).redactOperation) ((Ctx.mk T (absCfg g) e).redactOperation cmd))).isSome =
      (lookup sBulkWrite cmd).isSome := by
    rw [lookup_updAt, if_neg (by decide), redactOperation_eq_map,
      lookup_map_snd (fun k w => (Ctx.mk T (absCfg g) e).cmdVal (lookup sInsert cmd).isSome k w) s_bulkWrite cmd]
    have : sBulkWrite = s_bulkWrite := rfl
    rw [this]; cases lookup s_bulkWrite cmd <;> rfl
  rw [hb, updAt_if]
  unfold Ctx.redactCommand updAt
  rw [redactOperation_eq_map, List.map_map, List.map_map]
  congr 1
  apply List.map_congr_left
  intro p hp
  obtain ⟨k, v⟩ := p
  have hv : v.nodup = true := by
    have := hnd; rw [J.nodup, Bool.and_eq_true] at this
    exact nodupKVs_mem cmd (k, v) this.2 hp
  have fp : ∀ (op : List (Str × J)), (J.obj op).nodup = true →
      fromPairs ((Ctx.mk T (absCfg g) e).redactOperation op) = (Ctx.mk T (absCfg g) e).redactOperation op := by
    intro op hop
    exact fromPairs_of_nodup _ (by rw [keysOf_redactOperation]; exact nodup_obj_keys op hop)
  have se : sExplain = s_explain := rfl
  have so : sOps = s_ops := rfl
  simp only [Function.comp, Ctx.cmdEntry, se, so]
  by_cases h1 : k = s_explain
  · subst h1
    have hne : ¬ (s_explain = s_ops) := by decide
    have hcv : (Ctx.mk T (absCfg g) e).cmdVal (lookup sInsert cmd).isSome s_explain v = v := by rw [hid1]; rfl
    simp only [hcv, if_true, hne, and_false, if_false]
    cases v with
    | obj op => simp only [objF, Ctx.opDoc]; rw [fp op hv]
    | _ => rfl
  · by_cases h2 : k = s_ops
    · subst h2
      have hcv : (Ctx.mk T (absCfg g) e).cmdVal (lookup sInsert cmd).isSome s_ops v = v := by rw [hid2]; rfl
      simp only [hcv, h1, if_false, if_true]
      cases hbk : (lookup sBulkWrite cmd).isSome
      · simp
      · simp only [and_true, if_true, Bool.and_true]
        cases v with
        | arr xs =>
          simp only [arrF, decide_true, if_true]
          congr 1
          refine congrArg J.arr ?_
          apply List.map_congr_left
          intro x hx
          rw [J.nodup] at hv
          have hxn := nodupList_mem xs x hv hx
          cases x with
          | obj op => simp only [objF, Ctx.opDoc]; rw [fp op hxn]
          | _ => rfl
        | _ => rfl
    · simp [h1, h2]

end Anonymongo.Src
