/-
  Props/Src/Dispatch.lean — the TRANSLATED `redactOperation` and `redactNamespaceFields` (Generated/Src.lean; one Lean function per
  top-level statement, chained) are the model's `Ctx.redactOperation` / `Ctx.nsFields` (Model/Line.lean) on documents without
  duplicate keys: which keys of an operation document open a redaction zone, with which walker, under which guard - read off the
  source text.  The stage walker `redactPipelineStage` is not translated: it is the parameter `Globals.redactPipelineStage`, assumed
  to return what the model's `P` returns.
-/
import Anonymongo.Props.Src.Walk
import Anonymongo.Model.Line
namespace Anonymongo.Src
open Anonymongo Anonymongo.Go

/-- replace the value of every entry with key `k` by `f` of it (with distinct keys: `Get` then `Set`) -/
def updAt (k : Str) (f : J → J) (cmd : List (Str × J)) : List (Str × J) :=
  cmd.map fun p => if p.1 = k then (p.1, f p.2) else p

theorem keysOf_updAt (k : Str) (f : J → J) (cmd : List (Str × J)) : keysOf (updAt k f cmd) = keysOf cmd := by
  unfold updAt keysOf
  rw [List.map_map]
  apply List.map_congr_left
  intro p _; by_cases h : p.1 = k <;> simp [h]

theorem lookup_updAt (k k' : Str) (f : J → J) : ∀ (cmd : List (Str × J)),
    lookup k (updAt k' f cmd) = if k = k' then (lookup k cmd).map f else lookup k cmd
  | [] => by simp [updAt, lookup]
  | (a, v) :: rest => by
    have ih := lookup_updAt k k' f rest
    unfold updAt at ih ⊢
    by_cases h1 : a = k' <;> by_cases h2 : a = k <;> by_cases h3 : k = k' <;> simp_all [lookup]

theorem lookup_mem : ∀ (cmd : List (Str × J)) (k : Str) (v : J), lookup k cmd = some v → (k, v) ∈ cmd
  | [], _, _, h => by simp [lookup] at h
  | (a, w) :: rest, k, v, h => by
    unfold lookup at h
    by_cases ha : a = k
    · simp [ha] at h; subst ha; subst h; simp
    · simp [ha] at h; exact List.mem_cons_of_mem _ (lookup_mem rest k v h)

theorem lookup_none_updAt (k : Str) (f : J → J) : ∀ (cmd : List (Str × J)), lookup k cmd = none → updAt k f cmd = cmd
  | [], _ => rfl
  | (a, w) :: rest, h => by
    unfold lookup at h
    by_cases ha : a = k
    · simp [ha] at h
    · simp [ha] at h
      have := lookup_none_updAt k f rest h
      unfold updAt at this ⊢
      simp [ha, this]

/-- with distinct keys, `Set` on a key that is present replaces exactly that entry -/
theorem setKV_updAt (k : Str) (f : J → J) : ∀ (cmd : List (Str × J)) (v : J), nodupKeys (keysOf cmd) = true → lookup k cmd = some v →
    setKV k (f v) cmd = updAt k f cmd
  | [], _, _, h => by simp [lookup] at h
  | (a, w) :: rest, v, hnd, h => by
    have hnd' : nodupKeys (keysOf rest) = true := by
      simp [keysOf, nodupKeys] at hnd; simpa [keysOf] using hnd.2
    unfold lookup at h
    by_cases ha : a = k
    · simp [ha] at h; subst ha; subst h
      have hnot : lookup a rest = none := by
        simp [keysOf, nodupKeys] at hnd
        cases hl : lookup a rest with
        | none => rfl
        | some x => exact absurd (lookup_mem rest a x hl) (hnd.1 x)
      have := lookup_none_updAt a f rest hnot
      unfold updAt at this ⊢
      simp [setKV, this]
    · simp [ha] at h
      have := setKV_updAt k f rest v hnd' h
      unfold updAt at this ⊢
      simp [setKV, ha, this]

/-- leaving an entry as it is, is `updAt` with a function that fixes its value -/
theorem updAt_fix (k : Str) (f : J → J) : ∀ (cmd : List (Str × J)) (v : J), nodupKeys (keysOf cmd) = true → lookup k cmd = some v → f v = v →
    updAt k f cmd = cmd := by
  intro cmd v hnd hl hf
  rw [← setKV_updAt k f cmd v hnd hl, hf]
  clear hf
  induction cmd with
  | nil => simp [lookup] at hl
  | cons p rest ih =>
    obtain ⟨a, w⟩ := p
    unfold lookup at hl
    by_cases ha : a = k
    · simp [ha] at hl; subst ha; subst hl; simp [setKV]
    · simp [ha] at hl
      have hnd' : nodupKeys (keysOf rest) = true := by
        simp [keysOf, nodupKeys] at hnd; simpa [keysOf] using hnd.2
      simp [setKV, ha, ih hnd' hl]

theorem depth_lookup (cmd : List (Str × J)) (k : Str) (v : J) (h : lookup k cmd = some v) : depth v ≤ depthKVs cmd :=
  depth_mem_kvs cmd (k, v) (lookup_mem cmd k v h)

/-! the value functions of the dispatch -/
def fQ (c : Ctx) : J → J
  | .obj kvs => .obj (fromPairs (c.Q false none [] kvs))
  | v => v
def fQA (c : Ctx) : J → J
  | .obj kvs => .obj (fromPairs (c.Q false none [] kvs))
  | .arr xs => .arr (c.A false [] false [] xs)
  | v => v
def fA (c : Ctx) : J → J
  | .arr xs => .arr (c.A false [] false [] xs)
  | v => v
def fP (c : Ctx) : J → J
  | .arr xs => .arr (c.FacetStages xs)
  | v => v

/-- what the translated functions need to know about their environment: the e-mail placeholder literal, and that the stage
    walker parameter computes the model's `P` -/
structure Env (g : Globals) (T : Tables) : Prop where
  hph : T.emailPH = s_redacted_40redacted_2ecom
  hP : ∀ (st : J) (rfn : Bool) (kp : List Str) (S : Bool), g.redactPipelineStage st rfn kp S = some ((Ctx.mk T (absCfg g) rfn).P S kp st)

/-- a statement `if x, ok := cmd.Get(K); ok { if m, ok := x.(*OrderedMap); ok { cmd.Set(K, redactQueryValues(m, …)) } }` -/
theorem blkQ (g : Globals) (T : Tables) (env : Env g T) (fuel : Nat) (e : Bool) (K : Str) (cmd : List (Str × J))
    (hnd : nodupKeys (keysOf cmd) = true) (hd : ∀ v, lookup K cmd = some v → 2 * depth v < fuel) :
    (do
      let mut cmd := cmd
      let (query, ok) := (objGet cmd K)
      if ok then
        let (queryMap, ok_2) := (asObj query)
        if ok_2 then
          cmd := setKV K (J.obj (← redactQueryValues g T fuel queryMap e false Meta.nil ([] : List Str))) cmd
      return cmd) = some (updAt K (fQ (Ctx.mk T (absCfg g) e)) cmd) := by
  cases hl : lookup K cmd with
  | none => simp [objGet, hl, lookup_none_updAt K _ cmd hl]
  | some v =>
    cases v with
    | obj m =>
      have hb := hd _ hl
      rw [depth] at hb
      have hq := redactQueryValues_eq g T e false env.hph fuel m none [] (by simp; omega)
      simp only [pcGo] at hq
      simp only [objGet, hl, asObj, if_true, hq, bind, Option.bind, pure]
      have := setKV_updAt K (fQ (Ctx.mk T (absCfg g) e)) cmd (.obj m) hnd hl
      simp only [fQ] at this
      rw [this]
    | _ =>
      have hfix := updAt_fix K (fQ (Ctx.mk T (absCfg g) e)) cmd _ hnd hl rfl
      simp [objGet, hl, asObj, hfix]

/-- `… if m, ok := x.(*OrderedMap); ok { Set(K, redactQueryValues(m)) } else if a, ok := x.([]any); ok { Set(K, redactArrayValues(a)) }` -/
theorem blkQA (g : Globals) (T : Tables) (env : Env g T) (fuel : Nat) (e : Bool) (K : Str) (cmd : List (Str × J))
    (hnd : nodupKeys (keysOf cmd) = true) (hd : ∀ v, lookup K cmd = some v → 2 * depth v < fuel) :
    (do
      let mut cmd := cmd
      let (update, ok) := (objGet cmd K)
      if ok then
        let (updateMap, ok_2) := (asObj update)
        if ok_2 then
          cmd := setKV K (J.obj (← redactQueryValues g T fuel updateMap e false Meta.nil ([] : List Str))) cmd
        else
          let (updateArr, ok_3) := (asArr update)
          if ok_3 then
            cmd := setKV K (J.arr (← redactArrayValues g T fuel updateArr e false false ([] : List Str))) cmd
      return cmd) = some (updAt K (fQA (Ctx.mk T (absCfg g) e)) cmd) := by
  cases hl : lookup K cmd with
  | none => simp [objGet, hl, lookup_none_updAt K _ cmd hl]
  | some v =>
    cases v with
    | obj m =>
      have hb := hd _ hl
      rw [depth] at hb
      have hq := redactQueryValues_eq g T e false env.hph fuel m none [] (by simp; omega)
      simp only [pcGo] at hq
      simp only [objGet, hl, asObj, if_true, hq, bind, Option.bind, pure]
      have := setKV_updAt K (fQA (Ctx.mk T (absCfg g) e)) cmd (.obj m) hnd hl
      simp only [fQA] at this
      rw [this]
    | arr xs =>
      have hb := hd _ hl
      rw [depth] at hb
      have hq := redactArrayValues_eq g T e false env.hph fuel xs false [] (by simp; omega)
      simp only [objGet, hl, asObj, asArr, if_true, Bool.false_eq_true, if_false, hq, bind, Option.bind, pure]
      have := setKV_updAt K (fQA (Ctx.mk T (absCfg g) e)) cmd (.arr xs) hnd hl
      simp only [fQA] at this
      rw [this]
    | _ =>
      have hfix := updAt_fix K (fQA (Ctx.mk T (absCfg g) e)) cmd _ hnd hl rfl
      simp [objGet, hl, asObj, asArr, hfix]

/-- `… if a, ok := x.([]any); ok { Set(K, redactArrayValues(a)) }` -/
theorem blkA (g : Globals) (T : Tables) (env : Env g T) (fuel : Nat) (e : Bool) (K : Str) (cmd : List (Str × J))
    (hnd : nodupKeys (keysOf cmd) = true) (hd : ∀ v, lookup K cmd = some v → 2 * depth v < fuel) :
    (do
      let mut cmd := cmd
      let (updates, ok) := (objGet cmd K)
      if ok then
        let (updatesArr, ok_2) := (asArr updates)
        if ok_2 then
          cmd := setKV K (J.arr (← redactArrayValues g T fuel updatesArr e false false ([] : List Str))) cmd
      return cmd) = some (updAt K (fA (Ctx.mk T (absCfg g) e)) cmd) := by
  cases hl : lookup K cmd with
  | none => simp [objGet, hl, lookup_none_updAt K _ cmd hl]
  | some v =>
    cases v with
    | arr xs =>
      have hb := hd _ hl
      rw [depth] at hb
      have hq := redactArrayValues_eq g T e false env.hph fuel xs false [] (by simp; omega)
      simp only [objGet, hl, asArr, if_true, hq, bind, Option.bind, pure]
      have := setKV_updAt K (fA (Ctx.mk T (absCfg g) e)) cmd (.arr xs) hnd hl
      simp only [fA] at this
      rw [this]
    | _ =>
      have hfix := updAt_fix K (fA (Ctx.mk T (absCfg g) e)) cmd _ hnd hl rfl
      simp [objGet, hl, asArr, hfix]

theorem FacetStages_eq_map (c : Ctx) : ∀ (xs : List J), c.FacetStages xs = xs.map (fun st => c.P (Anonymongo.isInSearchStage c.T st) [] st)
  | [] => by rw [Ctx.FacetStages]; rfl
  | x :: xs => by rw [Ctx.FacetStages, FacetStages_eq_map c xs]; rfl

/-- the `pipeline` statement: every stage through the stage walker, with the search flag of that stage -/
theorem blkP (g : Globals) (T : Tables) (env : Env g T) (e : Bool) (K : Str) (cmd : List (Str × J))
    (hnd : nodupKeys (keysOf cmd) = true) :
    (do
      let mut cmd := cmd
      let (pipeline, ok) := (objGet cmd K)
      if ok then
        let (pipelineArr, ok_2) := (asArr pipeline)
        if ok_2 then
          let mut newPipeline : (List J) := (List.replicate ((len pipelineArr)).toNat J.null)
          for (stage, i_n) in (pipelineArr).zipIdx do
            let i : Int := i_n
            let inSearchStage : Bool := (← isInSearchStage g T stage)
            newPipeline := (← setIdx newPipeline i (← g.redactPipelineStage stage e ([] : List Str) inSearchStage))
          cmd := setKV K (J.arr newPipeline) cmd
      return cmd) = some (updAt K (fP (Ctx.mk T (absCfg g) e)) cmd) := by
  cases hl : lookup K cmd with
  | none => simp [objGet, hl, lookup_none_updAt K _ cmd hl]
  | some v =>
    cases v with
    | arr xs =>
      have hlen : (len xs).toNat = xs.length := by simp [len]
      have hz : xs.zipIdx = xs.zipIdx ([] : List J).length := rfl
      have hr : List.replicate xs.length J.null = [] ++ List.replicate xs.length J.null := rfl
      simp only [objGet, hl, asArr, if_true, hlen]
      rw [hz, hr, forIn_fill _ (fun st => (Ctx.mk T (absCfg g) e).P (Anonymongo.isInSearchStage T st) [] st) J.null xs []]
      · simp only [List.nil_append, bind, Option.bind, pure]
        have := setKV_updAt K (fP (Ctx.mk T (absCfg g) e)) cmd (.arr xs) hnd hl
        simp only [fP, FacetStages_eq_map] at this
        rw [this]
      · intro st _ pre' rest' y
        simp only [isInSearchStage_eq, env.hP, setIdx_mid', bind, Option.bind, pure]
    | _ =>
      have hfix := updAt_fix K (fP (Ctx.mk T (absCfg g) e)) cmd _ hnd hl rfl
      simp [objGet, hl, asArr, hfix]

/-- the `document` statement (bulkWrite insert): only when the operation has an `insert` key -/
theorem blkDoc (g : Globals) (T : Tables) (env : Env g T) (fuel : Nat) (e : Bool) (KI K : Str) (cmd : List (Str × J))
    (hnd : nodupKeys (keysOf cmd) = true) (hd : ∀ v, lookup K cmd = some v → 2 * depth v < fuel) :
    (do
      let mut cmd := cmd
      let (_, isInsert) := (objGet cmd KI)
      if isInsert then
        let (doc, ok) := (objGet cmd K)
        if ok then
          let (docMap, ok_2) := (asObj doc)
          if ok_2 then
            cmd := setKV K (J.obj (← redactQueryValues g T fuel docMap e false Meta.nil ([] : List Str))) cmd
      return cmd) = some (if (lookup KI cmd).isSome then updAt K (fQ (Ctx.mk T (absCfg g) e)) cmd else cmd) := by
  cases hi : lookup KI cmd with
  | none => simp [objGet, hi]
  | some w =>
    simp only [Option.isSome_some, if_true]
    cases hl : lookup K cmd with
    | none => simp [objGet, hi, hl, lookup_none_updAt K _ cmd hl]
    | some v =>
      cases v with
      | obj m =>
        have hb := hd _ hl
        rw [depth] at hb
        have hq := redactQueryValues_eq g T e false env.hph fuel m none [] (by simp; omega)
        simp only [pcGo] at hq
        simp only [objGet, hi, hl, asObj, if_true, hq, bind, Option.bind, pure]
        have := setKV_updAt K (fQ (Ctx.mk T (absCfg g) e)) cmd (.obj m) hnd hl
        simp only [fQ] at this
        rw [this]
      | _ =>
        have hfix := updAt_fix K (fQ (Ctx.mk T (absCfg g) e)) cmd _ hnd hl rfl
        simp [objGet, hi, hl, asObj, hfix]

/-- the `documents` statement: only when the operation has an `insert` key -/
theorem blkDocs (g : Globals) (T : Tables) (env : Env g T) (fuel : Nat) (e : Bool) (KI K : Str) (cmd : List (Str × J))
    (hnd : nodupKeys (keysOf cmd) = true) (hd : ∀ v, lookup K cmd = some v → 2 * depth v < fuel) :
    (do
      let mut cmd := cmd
      let (_, isInsert) := (objGet cmd KI)
      if isInsert then
        let (docs, ok) := (objGet cmd K)
        if ok then
          let (docsArr, ok_2) := (asArr docs)
          if ok_2 then
            cmd := setKV K (J.arr (← redactArrayValues g T fuel docsArr e false false ([] : List Str))) cmd
      return cmd) = some (if (lookup KI cmd).isSome then updAt K (fA (Ctx.mk T (absCfg g) e)) cmd else cmd) := by
  cases hi : lookup KI cmd with
  | none => simp [objGet, hi]
  | some w =>
    simp only [Option.isSome_some, if_true]
    cases hl : lookup K cmd with
    | none => simp [objGet, hi, hl, lookup_none_updAt K _ cmd hl]
    | some v =>
      cases v with
      | arr xs =>
        have hb := hd _ hl
        rw [depth] at hb
        have hq := redactArrayValues_eq g T e false env.hph fuel xs false [] (by simp; omega)
        simp only [objGet, hi, hl, asArr, if_true, hq, bind, Option.bind, pure]
        have := setKV_updAt K (fA (Ctx.mk T (absCfg g) e)) cmd (.arr xs) hnd hl
        simp only [fA] at this
        rw [this]
      | _ =>
        have hfix := updAt_fix K (fA (Ctx.mk T (absCfg g) e)) cmd _ hnd hl rfl
        simp [objGet, hi, hl, asArr, hfix]

/-- the sequential form of `redactOperation`: the thirteen statements as updates of single keys, in source order -/
def seqOp (c : Ctx) (cmd : List (Str × J)) : List (Str × J) :=
  let c1 := updAt s_query (fQ c) cmd
  let c2 := updAt s_filter (fQ c) c1
  let c3 := updAt s_sort (fQ c) c2
  let c4 := updAt s_update (fQA c) c3
  let c5 := updAt s_updates (fA c) c4
  let c6 := updAt s_deletes (fA c) c5
  let c7 := updAt s_arrayFilters (fA c) c6
  let c8 := updAt s_q (fQ c) c7
  let c9 := updAt s_u (fQA c) c8
  let c10 := updAt s_updateMods (fQA c) c9
  let c11 := if (lookup s_insert c10).isSome then updAt s_document (fQ c) c10 else c10
  let c12 := if (lookup s_insert c11).isSome then updAt s_documents (fA c) c11 else c11
  updAt s_pipeline (fP c) c12

/-- bookkeeping for the chain: the current document has the original's keys, and the keys not yet handled still hold the original values -/
structure Good (cmd0 cur : List (Str × J)) (done : List Str) : Prop where
  nd : nodupKeys (keysOf cur) = true
  same : ∀ k, k ∉ done → lookup k cur = lookup k cmd0

theorem Good.init (cmd : List (Str × J)) (h : nodupKeys (keysOf cmd) = true) : Good cmd cmd [] := ⟨h, fun _ _ => rfl⟩

theorem Good.step {cmd0 cur : List (Str × J)} {done : List Str} (h : Good cmd0 cur done) (k : Str) (f : J → J) :
    Good cmd0 (updAt k f cur) (k :: done) :=
  ⟨by rw [keysOf_updAt]; exact h.nd, fun k' hk' => by
    have h1 : k' ≠ k := fun e => hk' (by simp [e])
    have h2 : k' ∉ done := fun e => hk' (by simp [e])
    rw [lookup_updAt, if_neg h1]; exact h.same k' h2⟩

theorem Good.stepIf {cmd0 cur : List (Str × J)} {done : List Str} (h : Good cmd0 cur done) (b : Bool) (k : Str) (f : J → J) :
    Good cmd0 (if b = true then updAt k f cur else cur) (k :: done) := by
  cases b
  · exact ⟨h.nd, fun k' hk' => h.same k' (fun e => hk' (by simp [e]))⟩
  · exact h.step k f

theorem Good.bound {cmd0 cur : List (Str × J)} {done : List Str} (h : Good cmd0 cur done) (fuel : Nat)
    (hall : 2 * depthKVs cmd0 < fuel) (k : Str) (hk : k ∉ done) : ∀ v, lookup k cur = some v → 2 * depth v < fuel := by
  intro v hv
  rw [h.same k hk] at hv
  have := depth_lookup cmd0 k v hv
  omega

/-- **`redactOperation`, statement by statement**: the translated function returns the sequential form -/
theorem redactOperation_seq (g : Globals) (T : Tables) (env : Env g T) (fuel : Nat) (e : Bool) (cmd : List (Str × J))
    (hnd : nodupKeys (keysOf cmd) = true) (hall : 2 * depthKVs cmd < fuel) :
    redactOperation g T fuel cmd e = some (seqOp (Ctx.mk T (absCfg g) e) cmd) := by
  have g0 := Good.init cmd hnd
  have e1 : redactOperation_s1 g T fuel cmd e = some cmd := rfl
  have g1 := g0.step s_query (fQ (Ctx.mk T (absCfg g) e))
  have e2 := blkQ g T env fuel e s_query cmd g0.nd (g0.bound fuel hall s_query (by decide))
  have g2 := g1.step s_filter (fQ (Ctx.mk T (absCfg g) e))
  have e3 := blkQ g T env fuel e s_filter _ g1.nd (g1.bound fuel hall s_filter (by decide))
  have g3 := g2.step s_sort (fQ (Ctx.mk T (absCfg g) e))
  have e4 := blkQ g T env fuel e s_sort _ g2.nd (g2.bound fuel hall s_sort (by decide))
  have g4 := g3.step s_update (fQA (Ctx.mk T (absCfg g) e))
  have e5 := blkQA g T env fuel e s_update _ g3.nd (g3.bound fuel hall s_update (by decide))
  have g5 := g4.step s_updates (fA (Ctx.mk T (absCfg g) e))
  have e6 := blkA g T env fuel e s_updates _ g4.nd (g4.bound fuel hall s_updates (by decide))
  have g6 := g5.step s_deletes (fA (Ctx.mk T (absCfg g) e))
  have e7 := blkA g T env fuel e s_deletes _ g5.nd (g5.bound fuel hall s_deletes (by decide))
  have g7 := g6.step s_arrayFilters (fA (Ctx.mk T (absCfg g) e))
  have e8 := blkA g T env fuel e s_arrayFilters _ g6.nd (g6.bound fuel hall s_arrayFilters (by decide))
  have g8 := g7.step s_q (fQ (Ctx.mk T (absCfg g) e))
  have e9 := blkQ g T env fuel e s_q _ g7.nd (g7.bound fuel hall s_q (by decide))
  have g9 := g8.step s_u (fQA (Ctx.mk T (absCfg g) e))
  have e10 := blkQA g T env fuel e s_u _ g8.nd (g8.bound fuel hall s_u (by decide))
  have g10 := g9.step s_updateMods (fQA (Ctx.mk T (absCfg g) e))
  have e11 := blkQA g T env fuel e s_updateMods _ g9.nd (g9.bound fuel hall s_updateMods (by decide))
  have e12 := blkDoc g T env fuel e s_insert s_document _ g10.nd (g10.bound fuel hall s_document (by decide))
  obtain ⟨c10, hc10⟩ : ∃ c10, c10 = updAt s_updateMods (fQA (Ctx.mk T (absCfg g) e)) (updAt s_u (fQA (Ctx.mk T (absCfg g) e)) (updAt s_q (fQ (Ctx.mk T (absCfg g) e)) (updAt s_arrayFilters (fA (Ctx.mk T (absCfg g) e)) (updAt s_deletes (fA (Ctx.mk T (absCfg g) e)) (updAt s_updates (fA (Ctx.mk T (absCfg g) e)) (updAt s_update (fQA (Ctx.mk T (absCfg g) e)) (updAt s_sort (fQ (Ctx.mk T (absCfg g) e)) (updAt s_filter (fQ (Ctx.mk T (absCfg g) e)) (updAt s_query (fQ (Ctx.mk T (absCfg g) e)) cmd))))))))) := ⟨_, rfl⟩
  rw [← hc10] at g10 e12 e11
  have g11 := g10.stepIf (lookup s_insert c10).isSome s_document (fQ (Ctx.mk T (absCfg g) e))
  have e13 := blkDocs g T env fuel e s_insert s_documents _ g11.nd (g11.bound fuel hall s_documents (by decide))
  obtain ⟨c11, hc11⟩ : ∃ c11, c11 = (if (lookup s_insert c10).isSome = true then updAt s_document (fQ (Ctx.mk T (absCfg g) e)) c10 else c10) := ⟨_, rfl⟩
  rw [← hc11] at g11 e13 e12
  have g12 := g11.stepIf (lookup s_insert c11).isSome s_documents (fA (Ctx.mk T (absCfg g) e))
  have e14 := blkP g T env e s_pipeline _ g12.nd
  unfold redactOperation seqOp
  simp only [bind, Option.bind, pure, e1]
  rw [show redactOperation_s2 g T fuel cmd e = _ from e2]; simp only []
  rw [show redactOperation_s3 g T fuel _ e = _ from e3]; simp only []
  rw [show redactOperation_s4 g T fuel _ e = _ from e4]; simp only []
  rw [show redactOperation_s5 g T fuel _ e = _ from e5]; simp only []
  rw [show redactOperation_s6 g T fuel _ e = _ from e6]; simp only []
  rw [show redactOperation_s7 g T fuel _ e = _ from e7]; simp only []
  rw [show redactOperation_s8 g T fuel _ e = _ from e8]; simp only []
  rw [show redactOperation_s9 g T fuel _ e = _ from e9]; simp only []
  rw [show redactOperation_s10 g T fuel _ e = _ from e10]; simp only []
  rw [show redactOperation_s11 g T fuel _ e = _ from e11]; simp only []
  rw [← hc10]
  rw [show redactOperation_s12 g T fuel _ e = _ from e12]; simp only []
  rw [← hc11]
  rw [show redactOperation_s13 g T fuel _ e = _ from e13]; simp only []
  rw [show redactOperation_s14 g T fuel _ e = _ from e14]

theorem updAt_if (b : Bool) (k : Str) (f : J → J) (cmd : List (Str × J)) :
    (if b = true then updAt k f cmd else cmd) = cmd.map (fun p => if b = true ∧ p.1 = k then (p.1, f p.2) else p) := by
  cases b
  · simp
  · simp [updAt]

def uAt (k : Str) (f : J → J) (p : Str × J) : Str × J := if p.1 = k then (p.1, f p.2) else p
def uiAt (b : Bool) (k : Str) (f : J → J) (p : Str × J) : Str × J := if b = true ∧ p.1 = k then (p.1, f p.2) else p

theorem uAt_mk (k : Str) (f : J → J) (a : Str) (v : J) : uAt k f (a, v) = (a, if a = k then f v else v) := by
  unfold uAt; by_cases h : a = k <;> simp [h]

theorem uiAt_mk (b : Bool) (k : Str) (f : J → J) (a : Str) (v : J) : uiAt b k f (a, v) = (a, if b = true ∧ a = k then f v else v) := by
  unfold uiAt; by_cases h : a = k <;> cases b <;> simp [h]

/-- one entry through the thirteen statements -/
def seqPair (c : Ctx) (hasInsert : Bool) (p : Str × J) : Str × J :=
  uAt s_pipeline (fP c) (uiAt hasInsert s_documents (fA c) (uiAt hasInsert s_document (fQ c) (uAt s_updateMods (fQA c) (uAt s_u (fQA c) (uAt s_q (fQ c)
    (uAt s_arrayFilters (fA c) (uAt s_deletes (fA c) (uAt s_updates (fA c) (uAt s_update (fQA c) (uAt s_sort (fQ c) (uAt s_filter (fQ c)
      (uAt s_query (fQ c) p))))))))))))

theorem seqOp_map (c : Ctx) (cmd : List (Str × J)) :
    seqOp c cmd = cmd.map (seqPair c (lookup s_insert cmd).isSome) := by
  unfold seqOp
  simp only [updAt_if]
  have hI : ∀ (k : Str) (f : J → J) (d : List (Str × J)), k ≠ s_insert → lookup s_insert (updAt k f d) = lookup s_insert d := by
    intro k f d hk
    rw [lookup_updAt, if_neg (fun e => hk e.symm)]
  have hI2 : ∀ (b : Bool) (k : Str) (f : J → J) (d : List (Str × J)), k ≠ s_insert →
      lookup s_insert (d.map (fun p => if b = true ∧ p.1 = k then (p.1, f p.2) else p)) = lookup s_insert d := by
    intro b k f d hk
    rw [← updAt_if]; cases b
    · rfl
    · exact hI k f d hk
  rw [hI2 _ s_document _ _ (by decide)]
  simp only [hI _ _ _ (show s_updateMods ≠ s_insert by decide), hI _ _ _ (show s_u ≠ s_insert by decide), hI _ _ _ (show s_q ≠ s_insert by decide),
    hI _ _ _ (show s_arrayFilters ≠ s_insert by decide), hI _ _ _ (show s_deletes ≠ s_insert by decide), hI _ _ _ (show s_updates ≠ s_insert by decide),
    hI _ _ _ (show s_update ≠ s_insert by decide), hI _ _ _ (show s_sort ≠ s_insert by decide), hI _ _ _ (show s_filter ≠ s_insert by decide),
    hI _ _ _ (show s_query ≠ s_insert by decide)]
  simp only [updAt, List.map_map]
  apply List.map_congr_left
  intro p _
  rfl

theorem upair (k k' : Str) (f : J → J) (v : J) :
    (if (k, v).1 = k' then ((k, v).1, f (k, v).2) else (k, v)) = (k, if k = k' then f v else v) := by
  by_cases h : k = k' <;> simp [h]

theorem uipair (b : Bool) (k k' : Str) (f : J → J) (v : J) :
    (if b = true ∧ (k, v).1 = k' then ((k, v).1, f (k, v).2) else (k, v)) = (k, if b = true ∧ k = k' then f v else v) := by
  by_cases h : k = k' <;> cases b <;> simp [h]

/-- the value of an entry with key `k` after the thirteen statements -/
def seqVal (c : Ctx) (b : Bool) (k : Str) (v : J) : J :=
  let v1 := if k = s_query then fQ c v else v
  let v2 := if k = s_filter then fQ c v1 else v1
  let v3 := if k = s_sort then fQ c v2 else v2
  let v4 := if k = s_update then fQA c v3 else v3
  let v5 := if k = s_updates then fA c v4 else v4
  let v6 := if k = s_deletes then fA c v5 else v5
  let v7 := if k = s_arrayFilters then fA c v6 else v6
  let v8 := if k = s_q then fQ c v7 else v7
  let v9 := if k = s_u then fQA c v8 else v8
  let v10 := if k = s_updateMods then fQA c v9 else v9
  let v11 := if b = true ∧ k = s_document then fQ c v10 else v10
  let v12 := if b = true ∧ k = s_documents then fA c v11 else v11
  if k = s_pipeline then fP c v12 else v12

theorem seqVal_s_query (c : Ctx) (b : Bool) (v : J) : seqVal c b s_query v = c.cmdVal b s_query v := by
  cases v <;> cases b <;> rfl

theorem seqVal_s_filter (c : Ctx) (b : Bool) (v : J) : seqVal c b s_filter v = c.cmdVal b s_filter v := by
  cases v <;> cases b <;> rfl

theorem seqVal_s_sort (c : Ctx) (b : Bool) (v : J) : seqVal c b s_sort v = c.cmdVal b s_sort v := by
  cases v <;> cases b <;> rfl

theorem seqVal_s_update (c : Ctx) (b : Bool) (v : J) : seqVal c b s_update v = c.cmdVal b s_update v := by
  cases v <;> cases b <;> rfl

theorem seqVal_s_updates (c : Ctx) (b : Bool) (v : J) : seqVal c b s_updates v = c.cmdVal b s_updates v := by
  cases v <;> cases b <;> rfl

theorem seqVal_s_deletes (c : Ctx) (b : Bool) (v : J) : seqVal c b s_deletes v = c.cmdVal b s_deletes v := by
  cases v <;> cases b <;> rfl

theorem seqVal_s_arrayFilters (c : Ctx) (b : Bool) (v : J) : seqVal c b s_arrayFilters v = c.cmdVal b s_arrayFilters v := by
  cases v <;> cases b <;> rfl

theorem seqVal_s_q (c : Ctx) (b : Bool) (v : J) : seqVal c b s_q v = c.cmdVal b s_q v := by
  cases v <;> cases b <;> rfl

theorem seqVal_s_u (c : Ctx) (b : Bool) (v : J) : seqVal c b s_u v = c.cmdVal b s_u v := by
  cases v <;> cases b <;> rfl

theorem seqVal_s_updateMods (c : Ctx) (b : Bool) (v : J) : seqVal c b s_updateMods v = c.cmdVal b s_updateMods v := by
  cases v <;> cases b <;> rfl

theorem seqVal_s_document (c : Ctx) (b : Bool) (v : J) : seqVal c b s_document v = c.cmdVal b s_document v := by
  cases v <;> cases b <;> rfl

theorem seqVal_s_documents (c : Ctx) (b : Bool) (v : J) : seqVal c b s_documents v = c.cmdVal b s_documents v := by
  cases v <;> cases b <;> rfl

theorem seqVal_s_pipeline (c : Ctx) (b : Bool) (v : J) : seqVal c b s_pipeline v = c.cmdVal b s_pipeline v := by
  cases v <;> cases b <;> rfl

theorem seqPair_seqVal (c : Ctx) (b : Bool) (k : Str) (v : J) : seqPair c b (k, v) = (k, seqVal c b k v) := by
  unfold seqPair seqVal
  simp only [uAt_mk, uiAt_mk]

/-- one entry through the thirteen statements is the model's dispatch `cmdVal` for its key -/
theorem seqVal_eq (c : Ctx) (b : Bool) (k : Str) (v : J) : seqVal c b k v = c.cmdVal b k v := by
  by_cases h0 : k = s_query
  · subst h0; exact seqVal_s_query c b v
  by_cases h1 : k = s_filter
  · subst h1; exact seqVal_s_filter c b v
  by_cases h2 : k = s_sort
  · subst h2; exact seqVal_s_sort c b v
  by_cases h3 : k = s_update
  · subst h3; exact seqVal_s_update c b v
  by_cases h4 : k = s_updates
  · subst h4; exact seqVal_s_updates c b v
  by_cases h5 : k = s_deletes
  · subst h5; exact seqVal_s_deletes c b v
  by_cases h6 : k = s_arrayFilters
  · subst h6; exact seqVal_s_arrayFilters c b v
  by_cases h7 : k = s_q
  · subst h7; exact seqVal_s_q c b v
  by_cases h8 : k = s_u
  · subst h8; exact seqVal_s_u c b v
  by_cases h9 : k = s_updateMods
  · subst h9; exact seqVal_s_updateMods c b v
  by_cases h10 : k = s_document
  · subst h10; exact seqVal_s_document c b v
  by_cases h11 : k = s_documents
  · subst h11; exact seqVal_s_documents c b v
  by_cases h12 : k = s_pipeline
  · subst h12; exact seqVal_s_pipeline c b v
  · have e1 : k ∉ qKeysObj := by
      intro hm
      simp only [qKeysObj, List.map_cons, List.map_nil, List.mem_cons, List.not_mem_nil, or_false] at hm
      rcases hm with e | e | e | e
      · exact h0 (by rw [e]; rfl)
      · exact h1 (by rw [e]; rfl)
      · exact h2 (by rw [e]; rfl)
      · exact h7 (by rw [e]; rfl)
    have e2 : k ∉ uKeysObjOrArr := by
      intro hm
      simp only [uKeysObjOrArr, List.map_cons, List.map_nil, List.mem_cons, List.not_mem_nil, or_false] at hm
      rcases hm with e | e | e
      · exact h3 (by rw [e]; rfl)
      · exact h8 (by rw [e]; rfl)
      · exact h9 (by rw [e]; rfl)
    have e3 : k ∉ aKeysArr := by
      intro hm
      simp only [aKeysArr, List.map_cons, List.map_nil, List.mem_cons, List.not_mem_nil, or_false] at hm
      rcases hm with e | e | e
      · exact h4 (by rw [e]; rfl)
      · exact h5 (by rw [e]; rfl)
      · exact h6 (by rw [e]; rfl)
    have e4 : ¬ k = sDocuments := fun e => h11 (by rw [e]; rfl)
    have e5 : ¬ k = sDocument := fun e => h10 (by rw [e]; rfl)
    have e6 : ¬ k = sPipeline := fun e => h12 (by rw [e]; rfl)
    simp [seqVal, h0, h1, h2, h3, h4, h5, h6, h7, h8, h9, h10, h11, h12, Ctx.cmdVal, e1, e2, e3, e4, e5, e6]

/-- **`redactOperation` is the model's `redactOperation`**: for every operation document without duplicate keys (the parser's
    output), every flag setting and fuel beyond twice its nesting depth, the translated function returns the model's document -/
theorem redactOperation_eq (g : Globals) (T : Tables) (env : Env g T) (fuel : Nat) (e : Bool) (cmd : List (Str × J))
    (hnd : nodupKeys (keysOf cmd) = true) (hall : 2 * depthKVs cmd < fuel) :
    redactOperation g T fuel cmd e = some ((Ctx.mk T (absCfg g) e).redactOperation cmd) := by
  rw [redactOperation_seq g T env fuel e cmd hnd hall, seqOp_map]
  unfold Ctx.redactOperation
  congr 1
  apply List.map_congr_left
  intro p _
  obtain ⟨k, v⟩ := p
  have : sInsert = s_insert := rfl
  rw [seqPair_seqVal, seqVal_eq, this]

/-! `redactNamespaceFields` -/

/-- a loop that always continues as long as an invariant of the state holds is a fold (the invariant being kept) -/
theorem forIn_yield_fold_inv {α β : Type} (f : α → β → Option (ForInStep β)) (step : β → α → β) (Inv : β → Prop) :
    ∀ (xs : List α) (init : β), Inv init → (∀ x ∈ xs, ∀ s, Inv s → f x s = some (.yield (step s x)) ∧ Inv (step s x)) →
      forIn xs init f = some (xs.foldl step init)
  | [], _, _, _ => rfl
  | x :: xs, init, hi, h => by
    have hx := h x (by simp) init hi
    rw [forIn_cons_yield x xs init (step init x) f hx.1]
    exact forIn_yield_fold_inv f step Inv xs (step init x) hx.2 (fun y hy s hs => h y (by simp [hy]) s hs)

def fNs (c : Ctx) : J → J
  | .str s => .str (c.H s)
  | v => v

theorem foldl_updAt (f : J → J) : ∀ (ks : List Str) (cmd : List (Str × J)), ks.Nodup →
    ks.foldl (fun c k => updAt k f c) cmd = cmd.map (fun p => if ks.contains p.1 then (p.1, f p.2) else p)
  | [], cmd, _ => by simp
  | k :: ks, cmd, hnd => by
    have hk : k ∉ ks := (List.nodup_cons.mp hnd).1
    rw [List.foldl_cons, foldl_updAt f ks (updAt k f cmd) (List.nodup_cons.mp hnd).2]
    unfold updAt
    rw [List.map_map]
    apply List.map_congr_left
    intro p _
    by_cases h1 : p.1 = k
    · have hk' : ¬ (k ∈ ks) := hk
      simp [h1, hk']
    · by_cases h2 : ks.contains p.1 = true
      · simp [h1, h2]
      · have h2' : ks.contains p.1 = false := by simpa using h2
        have h3 : ¬ (p.1 ∈ ks) := by simpa using h2'
        simp [h1, h3, Ne.symm h1]

/-- **`redactNamespaceFields` is the model's `nsFields`** (for the regenerated list of searched fields) -/
theorem redactNamespaceFields_eq (g : Globals) (T : Tables) (cmd : List (Str × J)) (hnd : nodupKeys (keysOf cmd) = true)
    (hsf : T.searchedFields = [s_ns, s_aggregate, s_insert, s_find, s_update, s_collection, s_delete, s__24db, s_count, s_findAndModify,
      s_findOneAndDelete, s_replace, s_findOneAndReplace, s_findOneAndUpdate, s_getIndexes, s_countDocuments, s_distinct, s_mapReduce, s_findandmodify]) :
    redactNamespaceFields g T cmd = some ((Ctx.mk T (absCfg g) false).nsFields cmd) := by
  unfold redactNamespaceFields
  simp only []
  rw [forIn_yield_fold_inv _ (fun c k => updAt k (fNs (Ctx.mk T (absCfg g) false)) c) (fun c => nodupKeys (keysOf c) = true) _ cmd hnd]
  · rw [foldl_updAt _ _ cmd (by decide)]
    unfold Ctx.nsFields
    simp only [bind, Option.bind, pure]
    congr 1
    apply List.map_congr_left
    intro p _
    rw [← hsf]
    obtain ⟨k, v⟩ := p
    unfold Ctx.nsFieldVal fNs
    cases v <;> cases hc : T.searchedFields.contains k <;> simp [hc]
  · intro field _ s hs
    refine ⟨?_, by rw [keysOf_updAt]; exact hs⟩
    cases hl : lookup field s with
    | none => simp [objGet, hl, lookup_none_updAt field _ s hl]
    | some v =>
      cases v with
      | str str =>
        have := setKV_updAt field (fNs (Ctx.mk T (absCfg g) false)) s (.str str) hs hl
        simp only [fNs] at this
        simp only [objGet, hl, asStr, if_true, HashName_eq, bind, Option.bind, pure]
        rw [← this]; rfl
      | _ =>
        have hfix := updAt_fix field (fNs (Ctx.mk T (absCfg g) false)) s _ hs hl rfl
        simp [objGet, hl, asStr, hfix]

/-- the searched fields of the regenerated constants are the literal list of the source -/
theorem Gen_searchedFields : Generated.tables.searchedFields = [s_ns, s_aggregate, s_insert, s_find, s_update, s_collection, s_delete, s__24db, s_count,
    s_findAndModify, s_findOneAndDelete, s_replace, s_findOneAndReplace, s_findOneAndUpdate, s_getIndexes, s_countDocuments, s_distinct, s_mapReduce,
    s_findandmodify] := by decide

end Anonymongo.Src
