/-
  Props/Src/EndToEnd.lean — the line-level property theorems restated about the TRANSLATED `RedactMongoLog`
  (Generated/Src.lean, regenerated from src/anonymizer.go on every run) with the tables regenerated from the binary.

  Each theorem is the composition of `RedactMongoLog_eq_gen` (Props/Src/Line: the translated function returns, and returns the
  model's `redactLine`) with a theorem about the model (Props/C04, C01; C03 and C19 in EndToEndShape.lean).  What remains as hypotheses is exactly the
  untranslated part: the stage walker `redactPipelineStage` (hP), the plan-summary rewriter (hplan), and the JSON reader
  (`hparse`: the line parses to `E0`; `hnd`: no duplicate sibling keys).  `hfuel` bounds the translator's fuel argument from below;
  Go has no such argument (its recursion is bounded by the nesting of the value, `traverseFuel_enough` and `QA_all`).
-/
import Anonymongo.Props.Src.Line
import Anonymongo.Props.C04
import Anonymongo.Props.C01
import Anonymongo.Model.JsonText
import Anonymongo.Lemmas.ParseValid
import Anonymongo.Model.Plan
namespace Anonymongo.Src
open Anonymongo Anonymongo.Go

variable (g : Globals) (fuel : Nat)

/-- what is assumed of the three untranslated callees of the translated `RedactMongoLog` -/
structure Callees (g : Globals) (plan : Str → Str → Str) : Prop where
  hP : ∀ (st : J) (rfn : Bool) (kp : List Str) (S : Bool),
      g.redactPipelineStage st rfn kp S = some ((Ctx.mk Generated.tables (absCfg g) rfn).P S kp st)
  hplan : ∀ s, g.redactFieldNamesFromPlanSummary s = plan g.redactedString s

/-- the translated `RedactMongoLog` **returns** on every line the reader accepts, with no error -/
theorem RedactMongoLog_returns (plan : Str → Str → Str) (cal : Callees g plan)
    (line : Str) (E0 : List (Str × J)) (hparse : g.UnmarshalOrdered (utf8 line) = some E0)
    (hnd : (J.obj E0).nodup = true) (hfuel : 2 * depthKVs E0 < fuel) :
    ∃ out, RedactMongoLog g Generated.tables fuel line = some (out, false) :=
  ⟨_, RedactMongoLog_eq_gen g fuel cal.hP plan cal.hplan line E0 hparse hnd hfuel⟩

/-- **C04 at source level**: the top-level frame — keys, their order, and every member except `attr` — is returned unchanged,
    under every setting of the options -/
theorem C04_src (plan : Str → Str → Str) (cal : Callees g plan)
    (line : Str) (E0 : List (Str × J)) (hparse : g.UnmarshalOrdered (utf8 line) = some E0)
    (hnd : (J.obj E0).nodup = true) (hfuel : 2 * depthKVs E0 < fuel) :
    ∃ out, RedactMongoLog g Generated.tables fuel line = some (out, false) ∧
      keysOf out = keysOf E0 ∧ ∀ k, k ≠ sAttr → lookup k out = lookup k E0 :=
  ⟨_, RedactMongoLog_eq_gen g fuel cal.hP plan cal.hplan line E0 hparse hnd hfuel,
    C04_top_frame Generated.tables (absCfg g) g.eagerRedactionPaths plan E0⟩

/-- **C01 (`--redactIPs`) at source level**: a string `attr.remote` comes back as the constant address placeholder -/
theorem C01_remote_src (plan : Str → Str → Str) (cal : Callees g plan) (hips : g.redactIPs = true)
    (line : Str) (E0 : List (Str × J)) (hparse : g.UnmarshalOrdered (utf8 line) = some E0)
    (hnd : (J.obj E0).nodup = true) (hfuel : 2 * depthKVs E0 < fuel)
    (attr : List (Str × J)) (hattr : lookup sAttr E0 = some (.obj attr)) (s : Str) (hs : lookup sRemote attr = some (.str s)) :
    ∃ out attr', RedactMongoLog g Generated.tables fuel line = some (out, false) ∧
      lookup sAttr out = some (.obj attr') ∧ lookup sRemote attr' = some (.str Generated.tables.ipPH) := by
  refine ⟨_, redactAttr Generated.tables (absCfg g) g.eagerRedactionPaths plan (gated E0) attr,
    RedactMongoLog_eq_gen g fuel cal.hP plan cal.hplan line E0 hparse hnd hfuel, ?_, ?_⟩
  · unfold redactLine redactLineWith
    rw [hattr]
    simp only []
    rw [mapKey_eq_mapVals, lookup_mapVals, hattr]
    simp [redactAttr]
  · exact C01_remote Generated.tables (absCfg g) hips g.eagerRedactionPaths plan _ attr s hs

/-- **C07 at source level — no line content makes the translated `RedactMongoLog` panic**: with the model's parser as the reader
    (`Model/JsonText.parseObj`, compared with `UnmarshalOrdered` byte for byte by the `text` correspondence), for EVERY line and every
    setting of the options the translated function returns: the reader's error and nothing else for a line the reader rejects, an
    entry and no error for a line it accepts (what it accepts never has duplicate sibling keys: `parseObj_printable`) -/
theorem C07_src (plan : Str → Str → Str) (cal : Callees g plan) (hreader : g.UnmarshalOrdered = parseObj) (line : Str) :
    (parseObj (utf8 line) = none ∧ RedactMongoLog g Generated.tables fuel line = some ([], true)) ∨
    (∃ E0, parseObj (utf8 line) = some E0 ∧
      (2 * depthKVs E0 < fuel → ∃ out, RedactMongoLog g Generated.tables fuel line = some (out, false))) := by
  cases hp : parseObj (utf8 line) with
  | none => exact .inl ⟨rfl, RedactMongoLog_err g Generated.tables fuel line (by rw [hreader]; exact hp)⟩
  | some E0 =>
    refine .inr ⟨E0, rfl, fun hf => ?_⟩
    have hpr := parseObj_printable _ E0 hp
    rw [printable_iff] at hpr
    simp only [Bool.and_eq_true] at hpr
    exact RedactMongoLog_returns g fuel plan cal line E0 (by rw [hreader]; exact hp) hpr.2 hf

/-! the hypotheses are satisfiable: a state of the option variables whose untranslated callees are the model's functions
    (the JSON reader is the model's parser), and a line on which every hypothesis of the theorems above holds -/
def witnessLine : Str := "{\"c\":\"NETWORK\",\"attr\":{\"remote\":\"10.1.2.3:5\"}}".toList
def witnessAttr : List (Str × J) := [("remote".toList, .str "10.1.2.3:5".toList)]
def witnessEntry : List (Str × J) := [("c".toList, .str "NETWORK".toList), ("attr".toList, .obj witnessAttr)]

def witness0 : Globals where
  redactedString := "REDACTED".toList
  redactNumbers := false
  redactBooleans := false
  redactIPs := true
  shouldEncrypt := false
  redactNamespaces := false
  encryptionKey := none
  redactedFieldsRegexp := none
  Encrypt := fun _ _ => none
  b64 := fun _ => []
  ReadFile := fun _ => none
  b64dec := fun _ => none
  WriteFile := fun _ _ _ => true
  Stat := fun _ => .notExist
  eagerRedactionPaths := []
  UnmarshalOrdered := fun bs => if bs = utf8 witnessLine then some witnessEntry else parseObj bs
  redactFieldNamesFromPlanSummary := redactPlan "REDACTED".toList
  redactPipelineStage := fun _ _ _ _ => none

def witness : Globals :=
  { witness0 with redactPipelineStage := fun st rfn kp S => some ((Ctx.mk Generated.tables (absCfg witness0) rfn).P S kp st) }

theorem witness_parse : witness.UnmarshalOrdered (utf8 witnessLine) = some witnessEntry := by
  show (if utf8 witnessLine = utf8 witnessLine then some witnessEntry else parseObj (utf8 witnessLine)) = some witnessEntry
  rw [if_pos rfl]

theorem witness_callees : Callees witness redactPlan := ⟨fun _ _ _ _ => rfl, fun _ => rfl⟩

example : ∃ out attr', RedactMongoLog witness Generated.tables 10 witnessLine = some (out, false) ∧
    lookup sAttr out = some (.obj attr') ∧ lookup sRemote attr' = some (.str Generated.tables.ipPH) :=
  C01_remote_src witness 10 redactPlan witness_callees rfl witnessLine witnessEntry
    witness_parse (by decide +kernel) (by decide +kernel) witnessAttr rfl "10.1.2.3:5".toList rfl

end Anonymongo.Src
