/-
  Props/Src/EndToEndShape.lean — C03 (shape) and C19 (idempotence) restated about the TRANSLATED `RedactMongoLog`; see EndToEnd.lean.
  Part of the THOROUGH tier of C03 and C19 only: the quick tier of these two properties does not depend on the refinement proofs of
  the dispatch functions (Props/Src/Dispatch, Command, Line), so that a rewrite of those functions leaves it alone.
-/
import Anonymongo.Props.Src.EndToEnd
import Anonymongo.Props.C03
import Anonymongo.Props.C19
namespace Anonymongo.Src
open Anonymongo Anonymongo.Go

variable (g : Globals) (fuel : Nat)

/-- **C03 at source level**: without `--redactFieldNames` prefixes the entry the translated `RedactMongoLog` returns has the
    shape (keys, order, nesting, array lengths, scalar JSON types) of the entry the reader produced -/
theorem C03_src (plan : Str → Str → Str) (cal : Callees g plan) (heager : g.eagerRedactionPaths = [])
    (line : Str) (E0 : List (Str × J)) (hparse : g.UnmarshalOrdered (utf8 line) = some E0)
    (hnd : (J.obj E0).nodup = true) (hfuel : 2 * depthKVs E0 < fuel) :
    ∃ out, RedactMongoLog g Generated.tables fuel line = some (out, false) ∧ shapeEq (.obj E0) (.obj out) = true := by
  refine ⟨_, RedactMongoLog_eq_gen g fuel cal.hP plan cal.hplan line E0 hparse hnd hfuel, ?_⟩
  rw [heager]
  exact C03_line Generated.tables (absCfg g) plan E0 hnd

/-- **C19 at source level**: in placeholder mode with the value flags only, running the translated `RedactMongoLog` on a line
    that reads back as its own output returns that output again -/
theorem C19_src (plan : Str → Str → Str) (cal : Callees g plan) (heager : g.eagerRedactionPaths = [])
    (hplain : g.shouldEncrypt = false) (hfull : g.redactedFieldsRegexp = none) (hns : g.redactNamespaces = false)
    (hrepl : isEmail g.redactedString = false)
    (line : Str) (E0 : List (Str × J)) (hparse : g.UnmarshalOrdered (utf8 line) = some E0)
    (hnd : (J.obj E0).nodup = true) (hfuel : 2 * depthKVs E0 < fuel) :
    ∃ out, RedactMongoLog g Generated.tables fuel line = some (out, false) ∧
      ∀ line2 fuel2, g.UnmarshalOrdered (utf8 line2) = some out → 2 * depthKVs out < fuel2 →
        RedactMongoLog g Generated.tables fuel2 line2 = some (out, false) := by
  refine ⟨_, RedactMongoLog_eq_gen g fuel cal.hP plan cal.hplan line E0 hparse hnd hfuel, ?_⟩
  intro line2 fuel2 hp2 hf2
  have hshape := C03_line Generated.tables (absCfg g) plan E0 hnd
  rw [heager] at hp2 hf2 ⊢
  have hnd2 : (J.obj (redactLine Generated.tables (absCfg g) [] plan E0)).nodup = true :=
    nodup_of_shapeEq _ _ hshape hnd
  have h2 := RedactMongoLog_eq_gen g fuel2 cal.hP plan cal.hplan line2 _ hp2 hnd2 hf2
  rw [heager] at h2
  rw [h2]
  have hph : isEmail Generated.tables.emailPH = true := by decide +kernel
  have henc : (absCfg g).enc = none := by simp [absCfg, hplain]
  rw [C19_line Generated.tables (absCfg g) henc hfull hns hrepl hph plan E0 hnd]

example : ∃ out, RedactMongoLog witness Generated.tables 10 witnessLine = some (out, false) ∧ shapeEq (.obj witnessEntry) (.obj out) = true :=
  C03_src witness 10 redactPlan witness_callees rfl witnessLine witnessEntry witness_parse (by decide +kernel) (by decide +kernel)

end Anonymongo.Src
