/-
  Props/Src/EndToEndShape.lean — C03 (shape) and C19 (idempotence) restated about the TRANSLATED `RedactMongoLog`; see EndToEnd.lean.
  Part of the THOROUGH tier of C03 and C19 only: the quick tier of these two properties does not depend on the refinement proofs of
  the dispatch functions (Props/Src/Dispatch, Command, Line), so that a rewrite of those functions leaves it alone.
-/
import Anonymongo.Props.Src.EndToEnd
import Anonymongo.Props.C03
import Anonymongo.Props.C19
import Anonymongo.Props.C03b
import Anonymongo.Props.Src.ParseDepth
namespace Anonymongo.Src
open Anonymongo Anonymongo.Go

variable (g : Globals) (fuel : Nat)

/-- **C03 at source level**: without `--redactFieldNames` prefixes the entry the translated `RedactMongoLog` returns has the
    shape (keys, order, nesting, array lengths, scalar JSON types) of the entry the reader produced -/
theorem C03_src (plan : Str → Str → Str) (cal : Callees g plan) (heager : g.eagerRedactionPaths = [])
    (line : Str) (E0 : List (Str × J)) (hparse : g.UnmarshalOrdered (utf8 line) = some E0)
    (hnd : (J.obj E0).nodup = true) (hfuel : 2 * depthKVs E0 < fuel) :
    ∃ out, RedactMongoLog g Generated.tables fuel line = some (out, false) ∧ shapeEq (.obj E0) (.obj out) = true := by
  refine ⟨_, RedactMongoLog_eq_gen g fuel cal.hP plan cal.hplan line E0 hparse hnd hfuel, ?_⟩
  rw [heager]
  exact C03_line Generated.tables (absCfg g) plan E0 hnd

/-- **C19 at source level**: in placeholder mode with the value flags only, running the translated `RedactMongoLog` on a line
    that reads back as its own output returns that output again -/
theorem C19_src (plan : Str → Str → Str) (cal : Callees g plan) (heager : g.eagerRedactionPaths = [])
    (hplain : g.shouldEncrypt = false) (hfull : g.redactedFieldsRegexp = none) (hns : g.redactNamespaces = false)
    (hrepl : isEmail g.redactedString = false)
    (line : Str) (E0 : List (Str × J)) (hparse : g.UnmarshalOrdered (utf8 line) = some E0)
    (hnd : (J.obj E0).nodup = true) (hfuel : 2 * depthKVs E0 < fuel) :
    ∃ out, RedactMongoLog g Generated.tables fuel line = some (out, false) ∧
      ∀ line2 fuel2, g.UnmarshalOrdered (utf8 line2) = some out → 2 * depthKVs out < fuel2 →
        RedactMongoLog g Generated.tables fuel2 line2 = some (out, false) := by
  refine ⟨_, RedactMongoLog_eq_gen g fuel cal.hP plan cal.hplan line E0 hparse hnd hfuel, ?_⟩
  intro line2 fuel2 hp2 hf2
  have hshape := C03_line Generated.tables (absCfg g) plan E0 hnd
  rw [heager] at hp2 hf2 ⊢
  have hnd2 : (J.obj (redactLine Generated.tables (absCfg g) [] plan E0)).nodup = true :=
    nodup_of_shapeEq _ _ hshape hnd
  have h2 := RedactMongoLog_eq_gen g fuel2 cal.hP plan cal.hplan line2 _ hp2 hnd2 hf2
  rw [heager] at h2
  rw [h2]
  have hph : isEmail Generated.tables.emailPH = true := by decide +kernel
  have henc : (absCfg g).enc = none := by simp [absCfg, hplain]
  rw [C19_line Generated.tables (absCfg g) henc hfull hns hrepl hph plan E0 hnd]

/-- **C03, bytes in → bytes out, at source level**: with the model's parser as the reader and the model's printer as the writer (both
    compared with the Go codec byte for byte by the `text` correspondence), without `--redactFieldNames` prefixes, for EVERY line and
    every setting of the other options: either the reader rejects the line (and the translated `RedactMongoLog` returns that error
    and nothing else), or the line the tool would print parses back to an entry of the same shape as the entry read -/
theorem C03_src_bytes (plan : Str → Str → Str) (cal : Callees g plan) (hreader : g.UnmarshalOrdered = parseObj)
    (heager : g.eagerRedactionPaths = []) (line : Str) (hfuel : 2 * (utf8 line).length < fuel) :
    (parseObj (utf8 line) = none ∧ RedactMongoLog g Generated.tables fuel line = some ([], true)) ∨
    (∃ E0 out out2, parseObj (utf8 line) = some E0 ∧ RedactMongoLog g Generated.tables fuel line = some (out, false) ∧
      parseObj (printObj out) = some out2 ∧ shapeEq (.obj E0) (.obj out2) = true) := by
  cases hp : parseObj (utf8 line) with
  | none => exact .inl ⟨rfl, RedactMongoLog_err g Generated.tables fuel line (by rw [hreader]; exact hp)⟩
  | some E0 =>
    have hpr := parseObj_printable _ E0 hp
    rw [printable_iff] at hpr
    simp only [Bool.and_eq_true] at hpr
    have hd := parseObj_depth _ E0 hp
    have hrun := RedactMongoLog_eq_gen g fuel cal.hP plan cal.hplan line E0 (by rw [hreader]; exact hp) hpr.2 (by omega)
    rw [heager] at hrun
    obtain ⟨out2, h1, h2⟩ := C03_bytes Generated.tables C03_number_placeholder_valid (absCfg g) plan (utf8 line) E0 hp
    exact .inr ⟨E0, _, out2, rfl, hrun, h1, h2⟩

/-- **C19, bytes in → bytes out, at source level**: in placeholder mode with the value flags only, for every line the reader
    accepts: a line whose bytes are the printed output of the first run is accepted by the reader, and the translated
    `RedactMongoLog` run on it returns an entry that prints to those same bytes -/
theorem C19_src_bytes (plan : Str → Str → Str) (cal : Callees g plan) (hreader : g.UnmarshalOrdered = parseObj)
    (heager : g.eagerRedactionPaths = []) (hplain : g.shouldEncrypt = false) (hfull : g.redactedFieldsRegexp = none)
    (hns : g.redactNamespaces = false) (hrepl : isEmail g.redactedString = false)
    (line : Str) (E0 : List (Str × J)) (hp : parseObj (utf8 line) = some E0) (hfuel : 2 * (utf8 line).length < fuel) :
    ∃ out, RedactMongoLog g Generated.tables fuel line = some (out, false) ∧
      ∀ (line2 : Str) (fuel2 : Nat), utf8 line2 = printObj out → 2 * (utf8 line2).length < fuel2 →
        ∃ out2, RedactMongoLog g Generated.tables fuel2 line2 = some (out2, false) ∧ printObj out2 = printObj out := by
  have hpr := parseObj_printable _ E0 hp
  rw [printable_iff] at hpr
  simp only [Bool.and_eq_true] at hpr
  have hd := parseObj_depth _ E0 hp
  have hrun := RedactMongoLog_eq_gen g fuel cal.hP plan cal.hplan line E0 (by rw [hreader]; exact hp) hpr.2 (by omega)
  rw [heager] at hrun
  refine ⟨_, hrun, ?_⟩
  intro line2 fuel2 h2 hf2
  have hph : isEmail Generated.tables.emailPH = true := by decide +kernel
  have henc : (absCfg g).enc = none := by simp [absCfg, hplain]
  obtain ⟨e2, he2, hsame⟩ := C19_bytes Generated.tables C03_number_placeholder_valid (absCfg g) henc hfull hns hrepl hph plan (utf8 line) E0 hp
  have hp2 : parseObj (utf8 line2) = some e2 := by rw [h2]; exact he2
  have hpr2 := parseObj_printable _ e2 hp2
  rw [printable_iff] at hpr2
  simp only [Bool.and_eq_true] at hpr2
  have hd2 := parseObj_depth _ e2 hp2
  have hrun2 := RedactMongoLog_eq_gen g fuel2 cal.hP plan cal.hplan line2 e2 (by rw [hreader]; exact hp2) hpr2.2 (by omega)
  rw [heager] at hrun2
  exact ⟨_, hrun2, hsame⟩

example : ∃ out, RedactMongoLog witness Generated.tables 10 witnessLine = some (out, false) ∧ shapeEq (.obj witnessEntry) (.obj out) = true :=
  C03_src witness 10 redactPlan witness_callees rfl witnessLine witnessEntry witness_parse (by decide +kernel) (by decide +kernel)

end Anonymongo.Src
