/-
  Props/Src/Hash.lean — the TRANSLATED `HashName` (Generated/Src.lean) is the model's `hashName`:
  trim every leading `$`, split at dots, replace each component by `<replacement>_<first 8 bytes of its SHA-256 in hex>`, join with dots.
  The theorems of C13 about `hashName` (form, depth, leading `$`, component-wise, injective modulo the truncated digest) are thereby
  statements about the source text of `HashName`; SHA-256 itself, `strings.Split` / `Join` and `%x` are the model's (corresponded).
-/
import Anonymongo.Props.Src.Base
import Anonymongo.Props.C13
namespace Anonymongo.Src
open Anonymongo Anonymongo.Go

theorem trimLeftCutset_dollar : ∀ (s : Str), trimLeftCutset s s__24 = trimLeftDollar s
  | [] => by rfl
  | c :: r => by
    have h24 : s__24 = ['$'] := rfl
    by_cases hc : c = '$'
    · subst hc
      have := trimLeftCutset_dollar r
      rw [h24] at this ⊢
      simp only [trimLeftCutset, List.dropWhile_cons, List.contains_cons, beq_self_eq_true, Bool.true_or, if_true] at this ⊢
      rw [trimLeftDollar]; exact this
    · rw [h24]
      have hb : (c == '$') = false := by simpa using hc
      simp only [trimLeftCutset, List.dropWhile_cons, List.contains_cons, hb, List.contains_nil, Bool.or_false, Bool.false_eq_true, if_false]
      unfold trimLeftDollar
      split
      · rename_i h; cases h; exact absurd rfl hc
      · rfl

theorem hexBytes_take8 (h : Bytes) : hexBytes (h.take 8) = hex16 h := rfl

/-- the loop of `HashName`: slot `i` of the result slice receives the pseudonym of component `i` -/
theorem forIn_fill {α β : Type} (f : α × Nat → List β → Option (ForInStep (List β))) (h : α → β) (d : β) :
    ∀ (rest : List α) (pre : List β),
      (∀ x ∈ rest, ∀ (pre' rest' : List β) (y : β), f (x, pre'.length) (pre' ++ y :: rest') = some (.yield (pre' ++ h x :: rest'))) →
      forIn (rest.zipIdx pre.length) (pre ++ List.replicate rest.length d) f = some (pre ++ rest.map h)
  | [], pre, _ => by simp
  | x :: rest, pre, hf => by
    rw [List.zipIdx_cons, List.length_cons, List.replicate_succ,
      forIn_cons_yield _ _ _ (pre ++ h x :: List.replicate rest.length d) f (hf x (by simp) pre _ d)]
    have e : pre ++ h x :: List.replicate rest.length d = (pre ++ [h x]) ++ List.replicate rest.length d := by simp
    rw [e]
    have := forIn_fill f h d rest (pre ++ [h x]) (fun y hy p r z => hf y (by simp [hy]) p r z)
    simpa using this

theorem setIdx_mid' {α : Type} (pre : List α) (x v : α) (rest : List α) :
    setIdx (pre ++ x :: rest) (pre.length : Int) v = some (pre ++ v :: rest) := by
  unfold setIdx
  have : ¬ ((pre.length : Int) < 0 ∨ ((pre ++ x :: rest).length : Int) ≤ (pre.length : Int)) := by simp; omega
  simp; omega

/-- **`HashName` is the model's `hashName`** (with the replacement text currently installed) -/
theorem HashName_eq (g : Globals) (T : Tables) (field : Str) :
    HashName g T field = some (hashName g.redactedString field) := by
  unfold HashName hashName
  simp only [trimLeftCutset_dollar]
  generalize splitOn '.' (trimLeftDollar field) = parts
  have hl : (len parts).toNat = parts.length := by simp [len]
  have hz : parts.zipIdx = parts.zipIdx ([] : List Str).length := rfl
  have hr : List.replicate parts.length ([] : Str) = [] ++ List.replicate parts.length ([] : Str) := rfl
  rw [hl, hz, hr, forIn_fill _ (hashPart g.redactedString) ([] : Str) parts []]
  · have h2e : s__2e = ['.'] := rfl
    simp [h2e]
  · intro x _ pre' rest' y
    have h8 : sliceTo (sha256 (utf8 x)) (8 : Int) = some ((sha256 (utf8 x)).take 8) := by
      unfold sliceTo
      have := sha256_length (utf8 x)
      have h32 := sha256_length (utf8 x)
      simp [h32]
    have h5f : s__5f = ['_'] := rfl
    simp only [h8, setIdx_mid', bind, Option.bind, pure, hexBytes_take8, h5f]
    rfl

end Anonymongo.Src
