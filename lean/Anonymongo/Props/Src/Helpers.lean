/-
  Props/Src/Helpers.lean — refinement theorems for the remaining TRANSLATED helpers of the walkers (Generated/Src.lean):
  `isFieldNameValue`, `isRedactableFieldPatternInArray`, `isInSearchStage`, `augmentOp`.  Separate from Basic / Path / Scalar so
  that a change of one of these functions leaves the leaf theorems checking.
-/
import Anonymongo.Props.Src.Base
namespace Anonymongo.Src
open Anonymongo Anonymongo.Go

/-- `isFieldNameValue` -/
theorem isFieldNameValue_eq (g : Globals) (T : Tables) (v : J) :
    isFieldNameValue g T v = some (Ctx.isFieldNameValue v) := by
  unfold isFieldNameValue
  cases v with
  | arr xs =>
    simp only [Ctx.isFieldNameValue]
    induction xs with
    | nil => rfl
    | cons x xs ih =>
      cases x <;> simp_all [asStr, bind, Option.bind, pure]
  | _ => rfl

theorem utf8Enc_length_pos (c : Char) : 0 < (utf8Enc c).length := by
  unfold utf8Enc; simp only []; split
  · simp
  · split
    · simp
    · split <;> simp

theorem strLen_pos (s : Str) : (decide (strLen s > 0)) = !s.isEmpty := by
  cases s with
  | nil => rfl
  | cons c r =>
    have := utf8Enc_length_pos c
    simp [strLen, utf8Len, utf8]
    omega

theorem trimPrefix_dollar (r : Str) : trimPrefix ('$' :: r) s__24 = r := by
  have : s__24 = ['$'] := rfl
  rw [this]; simp [trimPrefix, List.isPrefixOf]

theorem selArr_cons (c : Ctx) (x : J) (xs : List J) : c.selArr (x :: xs) = (c.selArr [x] || c.selArr xs) := by
  unfold Ctx.selArr; cases c.cfg.re <;> simp

theorem selArr_one (c : Ctx) (m : Str → Bool) (hre : c.cfg.re = some m) (x : J) :
    c.selArr [x] = (match x with | .str ('$' :: r) => m r | _ => false) := by
  unfold Ctx.selArr; rw [hre]
  simp only [List.any_cons, List.any_nil, Bool.or_false]
  split <;> split <;> simp_all

/-- `isRedactableFieldPatternInArray` is `selArr` -/
theorem isRedactableFieldPatternInArray_eq (g : Globals) (T : Tables) (rfn : Bool) (arr : List J) :
    isRedactableFieldPatternInArray g T arr = some (Ctx.selArr ⟨T, absCfg g, rfn⟩ arr) := by
  unfold isRedactableFieldPatternInArray
  cases hre : g.redactedFieldsRegexp with
  | none => simp [absCfg, hre, Ctx.selArr]
  | some m =>
    have hre' : (Ctx.mk T (absCfg g) rfn).cfg.re = some m := by simp [absCfg, hre]
    simp only [Option.isNone_some, Bool.false_eq_true, if_false]
    induction arr with
    | nil => simp [Ctx.selArr, absCfg, hre]
    | cons x xs ih =>
      rw [selArr_cons, selArr_one _ m hre']
      cases x with
      | str s =>
        cases s with
        | nil =>
          rw [forIn_cons_yield _ xs _ (none, ())]
          · simpa using ih
          · simp [asStr, strLen_pos, goAnd]
        | cons c r =>
          by_cases hc : c = '$'
          · subst hc
            cases hm : m r
            · rw [forIn_cons_yield _ xs _ (none, ())]
              · simpa [hm] using ih
              · simp [asStr, strLen_pos, goAnd, strByte0Is, reMatch, trimPrefix_dollar, hm]
            · rw [forIn_cons_done _ _ _ (some true, ())]
              · simp [hm]
              · simp [asStr, strLen_pos, goAnd, strByte0Is, reMatch, trimPrefix_dollar, hm]
          · rw [forIn_cons_yield _ xs _ (none, ())]
            · have : (match J.str (c :: r) with | J.str ('$' :: r) => m r | _ => false) = false := by
                split
                · rename_i h; cases h; exact absurd rfl hc
                · rfl
              rw [this]; simpa using ih
            · have hb : (c == '$') = false := by simpa using hc
              simp [asStr, strLen_pos, goAnd, strByte0Is, hb]
      | _ =>
        rw [forIn_cons_yield _ xs _ (none, ())]
        · simpa using ih
        · simp [asStr, goAnd]

/-- `isInSearchStage` -/
theorem isInSearchStage_eq (g : Globals) (T : Tables) (stage : J) :
    isInSearchStage g T stage = some (Anonymongo.isInSearchStage T stage) := by
  unfold isInSearchStage Anonymongo.isInSearchStage
  cases stage with
  | obj kvs =>
    simp only [asObj, if_true]
    induction kvs with
    | nil => rfl
    | cons kv kvs ih =>
      obtain ⟨k, v⟩ := kv
      simp only [List.forIn_cons, List.any_cons]
      cases h : T.topSearch.contains k
      · simp only [Bool.false_eq_true, if_false, Bool.false_or]; exact ih
      · simp
  | _ => rfl

/-- a loop whose body always continues is a fold -/
theorem forIn_yield_fold {α β : Type} (f : α → β → Option (ForInStep β)) (step : β → α → β)
    (h : ∀ x s, f x s = some (.yield (step s x))) : ∀ (xs : List α) (init : β), forIn xs init f = some (xs.foldl step init)
  | [], _ => rfl
  | x :: xs, init => by
    rw [forIn_cons_yield x xs init (step init x) f (h x init)]
    exact forIn_yield_fold f step h xs (step init x)

theorem setKV_mid {α} (k : Str) (v v' : α) (pre rest : List (Str × α)) (h : k ∉ keysOf pre) :
    setKV k v (pre ++ (k, v') :: rest) = pre ++ (k, v) :: rest := by
  induction pre with
  | nil => simp [setKV]
  | cons p pre ih =>
    obtain ⟨k', w⟩ := p
    have hne : k' ≠ k := by intro e; apply h; simp [keysOf, e]
    have hr : k ∉ keysOf pre := by intro e; apply h; simp [keysOf] at e ⊢; exact Or.inr e
    simp [setKV, hne, ih hr]

theorem nodupKeys_suffix : ∀ (a b : List Str), nodupKeys (a ++ b) = true → nodupKeys b = true
  | [], _, h => h
  | x :: a, b, h => by
    simp only [List.cons_append, nodupKeys, Bool.and_eq_true] at h
    exact nodupKeys_suffix a b h.2

/-- the second loop of `augmentOp`: overwriting entries of a map while walking over it -/
theorem foldl_overwrite (p : Str × Meta → Bool) (w : Meta) : ∀ (rest pre : List (Str × Meta)),
    nodupKeys (keysOf (pre ++ rest)) = true → (∀ e ∈ pre, e.1 ∉ keysOf rest) →
    rest.foldl (fun s el => if p el then setKV el.1 w s else s) (pre ++ rest) =
      pre ++ rest.map (fun el => if p el then (el.1, w) else (el.1, el.2))
  | [], pre, _, _ => by simp
  | (k, v) :: rest, pre, hnd, hdis => by
    have hk : k ∉ keysOf pre := by
      intro hmem
      simp only [keysOf, List.mem_map] at hmem
      obtain ⟨e, he, hek⟩ := hmem
      exact hdis e he (by simp [keysOf, hek])
    have hk2 : k ∉ keysOf rest := by
      have : nodupKeys (keysOf ((k, v) :: rest)) = true := by
        rw [keysOf_append] at hnd; exact nodupKeys_suffix _ _ hnd
      simp [keysOf, nodupKeys] at this
      intro e; simp [keysOf] at e; obtain ⟨x, hx⟩ := e; exact this.1 x hx
    simp only [List.foldl_cons, List.map_cons]
    have hnd' : ∀ (v' : Meta), nodupKeys (keysOf ((pre ++ [(k, v')]) ++ rest)) = true := by
      intro v'
      have : keysOf ((pre ++ [(k, v')]) ++ rest) = keysOf (pre ++ (k, v) :: rest) := by simp [keysOf]
      rw [this]; exact hnd
    have hdis' : ∀ (v' : Meta), ∀ e ∈ pre ++ [(k, v')], e.1 ∉ keysOf rest := by
      intro v' e he
      simp only [List.mem_append, List.mem_singleton] at he
      rcases he with he | he
      · intro hm; exact hdis e he (by simp [keysOf] at hm ⊢; exact Or.inr hm)
      · subst he; exact hk2
    cases hp : p (k, v)
    · simp only [Bool.false_eq_true, if_false]
      have := foldl_overwrite p w rest (pre ++ [(k, v)]) (hnd' v) (hdis' v)
      simpa using this
    · simp only [if_true]
      rw [setKV_mid k w v pre rest hk]
      have := foldl_overwrite p w rest (pre ++ [(k, w)]) (hnd' w) (hdis' w)
      simpa using this

theorem any_foldl_or {α} (q : α → Bool) : ∀ (xs : List α) (b : Bool), xs.foldl (fun b x => b || q x) b = (b || xs.any q)
  | [], b => by simp
  | x :: xs, b => by simp [any_foldl_or q xs, Bool.or_assoc]

/-- `augmentOp` is the model's, for a table without duplicate keys (every operator table is an ordered map) -/
theorem augmentOp_eq (g : Globals) (T : Tables) (op : MTable) (v : List (Str × J)) (hnd : nodupKeys (keysOf op) = true) :
    augmentOp g T op v = some (Anonymongo.augmentOp g.redactedFieldsRegexp op v) := by
  unfold augmentOp
  cases hre : g.redactedFieldsRegexp with
  | none => simp [Anonymongo.augmentOp]
  | some m =>
    simp only [Option.isNone_some, Bool.false_eq_true, if_false]
    rw [forIn_yield_fold _ (fun (s : MTable × Bool) el => (setKV el.1 el.2 s.1, s.2 || nameMismatch m v el))]
    · have h1 : ∀ (xs : MTable) (s : MTable × Bool),
          (xs.foldl (fun (s : MTable × Bool) el => (setKV el.1 el.2 s.1, s.2 || nameMismatch m v el)) s) =
            (xs.foldl (fun acc p => setKV p.1 p.2 acc) s.1, xs.foldl (fun b x => b || nameMismatch m v x) s.2) := by
        intro xs; induction xs with
        | nil => intro s; rfl
        | cons x xs ih => intro s; simp [ih]
      rw [h1, any_foldl_or]
      have h2 : op.foldl (fun acc p => setKV p.1 p.2 acc) [] = op := fromPairs_of_nodup op hnd
      simp only [h2, Bool.false_or, bind, Option.bind, pure]
      simp only [Anonymongo.augmentOp]
      cases hany : op.any (nameMismatch m v)
      · rfl
      · simp only [if_true]
        rw [forIn_yield_fold _ (fun (s : MTable) el => if (fun (e : Str × Meta) => e.2.isTy .Redactable) el then setKV el.1 (.ty .Exempt) s else s)]
        · have := foldl_overwrite (fun (e : Str × Meta) => e.2.isTy .Redactable) (.ty .Exempt) op [] (by simpa using hnd) (by simp)
          simp only [List.nil_append] at this
          rw [this]
        · intro x s
          cases hx : x.2 with
          | ty t => cases t <;> simp [metaEq, Meta.isTy, hx]
          | _ => simp [metaEq, Meta.isTy, hx]
    · intro x s
      cases hx : x.2 with
      | ty t =>
        cases t <;> simp [metaEq, nameMismatch, Meta.isTy, hx]
        cases hl : lookup x.1 v with
        | none => simp [objGet, hl, asStr, goAnd]; rfl
        | some w =>
          cases w <;> simp [objGet, hl, asStr, goAnd] <;> try rfl
          rename_i str
          cases str with
          | nil => simp; rfl
          | cons c r =>
            have : ((c :: r) == s_empty) = false := by rfl
            simp [this, reMatch]
            cases m (c :: r) <;> simp
      | _ => simp [metaEq, nameMismatch, Meta.isTy, hx]

end Anonymongo.Src
