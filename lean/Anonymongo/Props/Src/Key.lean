/-
  Props/Src/Key.lean — the TRANSLATED `ReadKeyFromFile` (Generated/Src.lean) is the model's `KeyFile.readKey` on the bytes that
  `os.ReadFile` returns: a key is accepted iff the file can be read, its content is valid base64 and decodes to exactly 64 bytes —
  and then the key in force is exactly those bytes.  `os.ReadFile` and the base64 decoder are parameters (the model's decoder,
  `Model/Base64.lean`, is compared with encoding/base64 byte for byte by the `crypto` correspondence).
-/
import Anonymongo.Generated.Src
import Anonymongo.Model.KeyFile
namespace Anonymongo.Src
open Anonymongo Anonymongo.Go

/-- the Go pair `(key, err != nil)` for the model's verdict -/
def keyPair : Option Bytes → Bytes × Bool
  | some k => (k, false)
  | none => ([], true)

/-- **`ReadKeyFromFile` is the model's `readKey`** on the file's bytes; an unreadable file is refused -/
theorem ReadKeyFromFile_eq (g : Globals) (T : Tables) (B : KeyFile.B64) (hB : B.dec = g.b64dec) (path : Str) :
    ReadKeyFromFile g T path = some (keyPair ((g.ReadFile path).bind (KeyFile.readKey B))) := by
  unfold ReadKeyFromFile
  cases hr : g.ReadFile path with
  | none => simp [errPair, keyPair]
  | some content =>
    cases hd : g.b64dec content with
    | none => simp [errPair, Option.bind, KeyFile.readKey, hB, hd, keyPair]
    | some k =>
      by_cases hl : k.length = 64
      · have : (len k == (64 : Int)) = true := by simp [len, hl]
        simp [errPair, Option.bind, KeyFile.readKey, hB, hd, this, hl, keyPair]
      · have : (len k == (64 : Int)) = false := by
          simp only [len, beq_eq_false_iff_ne, ne_eq]; omega
        simp [errPair, Option.bind, KeyFile.readKey, hB, hd, this, hl, keyPair]

/-- in particular: whatever `ReadKeyFromFile` accepts is 64 bytes long and is the decoding of the file's content -/
theorem ReadKeyFromFile_accepts (g : Globals) (T : Tables) (path : Str) (k : Bytes)
    (h : ReadKeyFromFile g T path = some (k, false)) : k.length = 64 ∧ ∃ content, g.ReadFile path = some content ∧ g.b64dec content = some k := by
  unfold ReadKeyFromFile at h
  cases hr : g.ReadFile path with
  | none => simp [hr, errPair] at h
  | some content =>
    cases hd : g.b64dec content with
    | none => simp [hr, hd, errPair] at h
    | some k' =>
      by_cases hl : k'.length = 64
      · have e : (len k' == (64 : Int)) = true := by simp [len, hl]
        simp [hr, hd, errPair, e] at h
        subst h; exact ⟨hl, content, rfl, hd⟩
      · have e : (len k' == (64 : Int)) = false := by
          simp only [len, beq_eq_false_iff_ne, ne_eq]; omega
        simp [hr, hd, errPair, e] at h

end Anonymongo.Src
