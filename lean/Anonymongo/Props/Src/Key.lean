/-
  Props/Src/Key.lean — the TRANSLATED `ReadKeyFromFile` and `WriteKeyToFile` (Generated/Src.lean): the former is the model's `KeyFile.readKey` on the bytes that
  `os.ReadFile` returns: a key is accepted iff the file can be read, its content is valid base64 and decodes to exactly 64 bytes —
  and then the key in force is exactly those bytes.  `os.ReadFile` and the base64 decoder are parameters (the model's decoder,
  `Model/Base64.lean`, is compared with encoding/base64 byte for byte by the `crypto` correspondence).
-/
import Anonymongo.Generated.Src
import Anonymongo.Model.KeyFile
namespace Anonymongo.Src
open Anonymongo Anonymongo.Go

/-- the Go pair `(key, err != nil)` for the model's verdict -/
def keyPair : Option Bytes → Bytes × Bool
  | some k => (k, false)
  | none => ([], true)

/-- **`ReadKeyFromFile` is the model's `readKey`** on the file's bytes; an unreadable file is refused -/
theorem ReadKeyFromFile_eq (g : Globals) (T : Tables) (B : KeyFile.B64) (hB : B.dec = g.b64dec) (path : Str) :
    ReadKeyFromFile g T path = some (keyPair ((g.ReadFile path).bind (KeyFile.readKey B))) := by
  unfold ReadKeyFromFile
  cases hr : g.ReadFile path with
  | none => simp [errPair, keyPair]
  | some content =>
    cases hd : g.b64dec content with
    | none => simp [errPair, Option.bind, KeyFile.readKey, hB, hd, keyPair]
    | some k =>
      by_cases hl : k.length = 64
      · have : (len k == (64 : Int)) = true := by simp [len, hl]
        simp [errPair, Option.bind, KeyFile.readKey, hB, hd, this, hl, keyPair]
      · have : (len k == (64 : Int)) = false := by
          simp only [len, beq_eq_false_iff_ne, ne_eq]; omega
        simp [errPair, Option.bind, KeyFile.readKey, hB, hd, this, hl, keyPair]

/-- in particular: whatever `ReadKeyFromFile` accepts is 64 bytes long and is the decoding of the file's content -/
theorem ReadKeyFromFile_accepts (g : Globals) (T : Tables) (path : Str) (k : Bytes)
    (h : ReadKeyFromFile g T path = some (k, false)) : k.length = 64 ∧ ∃ content, g.ReadFile path = some content ∧ g.b64dec content = some k := by
  unfold ReadKeyFromFile at h
  cases hr : g.ReadFile path with
  | none => simp [hr, errPair] at h
  | some content =>
    cases hd : g.b64dec content with
    | none => simp [hr, hd, errPair] at h
    | some k' =>
      by_cases hl : k'.length = 64
      · have e : (len k' == (64 : Int)) = true := by simp [len, hl]
        simp [hr, hd, errPair, e] at h
        subst h; exact ⟨hl, content, rfl, hd⟩
      · have e : (len k' == (64 : Int)) = false := by
          simp only [len, beq_eq_false_iff_ne, ne_eq]; omega
        simp [hr, hd, errPair, e] at h

/-- **`WriteKeyToFile`**: nothing is written unless the key is 64 bytes long; then there is exactly one write — of the base64 text
    of the key, to the given path, with permission bits 0600 (= 384) — and the function's error is that write's error -/
theorem WriteKeyToFile_eq (g : Globals) (T : Tables) (path : Str) (key : Bytes) :
    WriteKeyToFile g T path key = some (if key.length = 64 then g.WriteFile path (utf8 (g.b64 key)) 384 else true) := by
  unfold WriteKeyToFile
  by_cases hl : key.length = 64
  · have e : (len key == (64 : Int)) = true := by simp [len, hl]
    cases hw : g.WriteFile path (utf8 (g.b64 key)) 384 <;> simp [e, hl, hw]
  · have e : (len key == (64 : Int)) = false := by
      simp only [len, beq_eq_false_iff_ne, ne_eq]; omega
    simp [e, hl]

/-- what `WriteKeyToFile` writes is what the model's key step leaves at the key path (`KeyFile.step … .absent`) -/
theorem WriteKeyToFile_model (g : Globals) (B : KeyFile.B64) (hE : ∀ b, B.enc b = utf8 (g.b64 b)) (fresh : Bytes) (h : fresh.length = 64) :
    (KeyFile.step B fresh .absent).1 = .file (utf8 (g.b64 fresh)) := by
  simp [KeyFile.step, h, hE]

/-- **write, then read**: a key of 64 bytes written by `WriteKeyToFile` — the file then holding what was written — is the key
    `ReadKeyFromFile` returns, for every base64 codec with the round-trip law -/
theorem Write_then_Read (g : Globals) (T : Tables) (B : KeyFile.B64) (hB : B.dec = g.b64dec) (hE : ∀ b, B.enc b = utf8 (g.b64 b))
    (path : Str) (key : Bytes) (hl : key.length = 64) (hfile : g.ReadFile path = some (utf8 (g.b64 key))) :
    ReadKeyFromFile g T path = some (key, false) := by
  rw [ReadKeyFromFile_eq g T B hB, hfile]
  have : B.dec (utf8 (g.b64 key)) = some key := by rw [← hE]; exact B.dec_enc key
  simp [Option.bind, KeyFile.readKey, this, hl, keyPair]

/-- **`FileExists`**: false when `os.Stat` reports not-exist; a PANIC (nil FileInfo dereferenced) on any other `os.Stat` error;
    otherwise "is not a directory" -/
theorem FileExists_eq (g : Globals) (T : Tables) (path : Str) :
    FileExists g T path = (match g.Stat path with
      | .notExist => some false
      | .otherErr => none
      | .ok d => some (!d)) := by
  unfold FileExists
  cases g.Stat path <;> simp [statPair, isNotExist, infoIsDir]

/-- what `os.Stat` says of the model's file-system object at the key path -/
def statOf : KeyFile.FsObj → StatRes
  | .absent => .notExist
  | .absentNoParent => .notExist
  | .file _ => .ok false
  | .unreadable _ => .ok false
  | .dir => .ok true
  | .statFails => .otherErr

/-- the model's key step branches on exactly the answer of the translated `FileExists`: where it panics the run crashes; where it
    says true the file is read and never written; where it says false the path holds no regular file -/
theorem FileExists_model (g : Globals) (T : Tables) (B : KeyFile.B64) (fresh : Bytes) (o : KeyFile.FsObj) (path : Str)
    (h : g.Stat path = statOf o) :
    (FileExists g T path = none → (KeyFile.step B fresh o).2 = .crash) ∧
    (FileExists g T path = some true → (KeyFile.step B fresh o).1 = o) ∧
    (FileExists g T path = some false → o = .absent ∨ o = .absentNoParent ∨ o = .dir) := by
  rw [FileExists_eq, h]
  cases o with
  | file c => simp only [statOf, KeyFile.step]; cases KeyFile.readKey B c <;> simp
  | _ => simp [statOf, KeyFile.step]

end Anonymongo.Src
