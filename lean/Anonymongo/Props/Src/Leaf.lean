/-
  Props/Src/Leaf.lean — `reMatchesAnyKeyInPath`, `redactString`, `IsEmail` as translated from the source are the model's functions.
-/
import Anonymongo.Props.Src.Base
namespace Anonymongo.Src
open Anonymongo Anonymongo.Go

/-- `reMatchesAnyKeyInPath` is `reMatchesAny` -/
theorem reMatchesAnyKeyInPath_eq (g : Globals) (T : Tables) (kp : List Str) (re : Option (Str → Bool)) :
    reMatchesAnyKeyInPath g T kp re = some (reMatchesAny re kp) := by
  unfold reMatchesAnyKeyInPath reMatchesAny
  cases re with
  | none => simp
  | some m =>
    simp [reMatch]
    induction kp with
    | nil => simp
    | cons k ks ih => cases h : m k <;> simp [h, ih]

/-- `redactString` is the model's, under the abstraction of the option variables -/
theorem redactString_eq (g : Globals) (T : Tables) (s ph : Str) :
    redactString g T s ph = some (Anonymongo.redactString (absCfg g) s ph) := by
  unfold redactString Anonymongo.redactString absCfg
  cases h1 : g.shouldEncrypt <;> cases h2 : g.encryptionKey <;> simp [errPair]
  cases h3 : g.Encrypt (utf8 s) (some _) <;> simp

/-- `IsEmail` is the length guard and the recogniser -/
theorem IsEmail_eq (g : Globals) (T : Tables) (s : Str) : IsEmail g T s = some (isEmail s) := by
  unfold IsEmail isEmail
  simp only [strLen, reMatch]
  -- (robust against the spelling of the length guard: `<` / `>` or negated `>=` / `<=`)
  have p1 : ((utf8Len s : Int) < 3) ↔ ¬ (3 ≤ utf8Len s) := by omega
  have p2 : ((utf8Len s : Int) > 254) ↔ ¬ (utf8Len s ≤ 254) := by omega
  have p3 : ((utf8Len s : Int) ≥ 3) ↔ (3 ≤ utf8Len s) := by omega
  have p4 : ((utf8Len s : Int) ≤ 254) ↔ (utf8Len s ≤ 254) := by omega
  by_cases a : 3 ≤ utf8Len s <;> by_cases b : utf8Len s ≤ 254 <;> simp [p1, p2, p3, p4, a, b]

end Anonymongo.Src
