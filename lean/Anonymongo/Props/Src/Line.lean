/-
  Props/Src/Line.lean — the TRANSLATED `RedactMongoLog` (Generated/Src.lean, continuation style: one Lean function per statement)
  is the model's `redactLine` (Model/Line.lean): the JSON reader's result goes through the `--redactIPs` rewrite of `attr.remote`,
  the gate (component COMMAND / QUERY / WRITE or message "Slow query"), the `--redactFieldNames` prefix test on `attr.ns`, the
  three command attributes, the plan summary and `attr.ns`; every update of `attr` reaches the entry (Go: through the pointer; here:
  written back).  The JSON reader, the plan-summary rewriter and the stage walker are parameters.
-/
import Anonymongo.Props.Src.Command
import Anonymongo.Lemmas.Refine
namespace Anonymongo.Src
open Anonymongo Anonymongo.Go

/-- the entry with its `attr` replaced -/
def W (attr entry : List (Str × J)) : List (Str × J) := setKV s_attr (J.obj attr) entry

theorem W_W (a b e : List (Str × J)) : W a (W b e) = W a e := setKV_setKV _ _ _ _
theorem setKV_W (a b e : List (Str × J)) : setKV s_attr (J.obj a) (W b e) = W a e := setKV_setKV _ _ _ _

def strF (f : Str → Str) : J → J
  | .str s => .str (f s)
  | v => v

/-- the model's command-document redactor does not produce duplicate keys -/
theorem redactCommand_nodup (c : Ctx) (cmd : List (Str × J)) (h : (J.obj cmd).nodup = true) : (J.obj (c.redactCommand cmd)).nodup = true := by
  rw [← Ctx.redactCommand_refine]
  have e1 : c.redactCommandA cmd = mapVals (fun k v => c.run (Ctx.zoneState (lookup sInsert cmd).isSome (lookup sBulkWrite cmd).isSome k) v) cmd := rfl
  rw [e1]; exact mapVals_objNodup _ (fun k v hv => Ctx.run_nodup c _ v hv) cmd h

theorem redactNamespace_rfn (T : Tables) (cfg : Cfg) (r1 r2 : Bool) (cmd : List (Str × J)) :
    (Ctx.mk T cfg r1).redactNamespace cmd = (Ctx.mk T cfg r2).redactNamespace cmd := rfl

/-- what a statement that sets `attr[K]` to a string function of its string value does -/
theorem setStr_updAt (K : Str) (f : Str → Str) (attr : List (Str × J)) (hnd : nodupKeys (keysOf attr) = true) (s : Str)
    (hl : lookup K attr = some (.str s)) : setKV K (J.str (f s)) attr = updAt K (strF f) attr := by
  have := setKV_updAt K (strF f) attr (.str s) hnd hl
  simpa [strF] using this

variable (g : Globals) (T : Tables) (fuel : Nat) (jsonStr : Str) (E1 : List (Str × J)) (err : Bool) (attrVal : J) (hasAttr : Bool)
  (ok_5 : Bool) (cVal msgVal : J) (c msg : Str)

/-- statement 14: `return entry, nil` -/
theorem k14_eq (entry attr : List (Str × J)) :
    RedactMongoLog_k14 g T fuel jsonStr entry err attrVal hasAttr attr ok_5 cVal msgVal c msg = some (entry, false) := rfl

/-- statement 13: `attr.ns` under `--redactNamespaces` -/
theorem k13_eq (attr : List (Str × J)) (hnd : nodupKeys (keysOf attr) = true) :
    RedactMongoLog_k13 g T fuel jsonStr (W attr E1) err attrVal hasAttr attr ok_5 cVal msgVal c msg =
      some (W (if g.redactNamespaces = true then updAt s_ns (strF (hashName g.redactedString)) attr else attr) E1, false) := by
  unfold RedactMongoLog_k13
  cases hns : g.redactNamespaces
  · simp [k14_eq]
  · cases hl : lookup s_ns attr with
    | none => simp [objGet, hl, k14_eq, lookup_none_updAt s_ns _ attr hl]
    | some v =>
      cases v with
      | str s =>
        simp only [objGet, hl, asStr, if_true, HashName_eq, bind, Option.bind, pure, k14_eq,
          setStr_updAt s_ns (hashName g.redactedString) attr hnd s hl, setKV_W]
      | _ =>
        have hfix := updAt_fix s_ns (strF (hashName g.redactedString)) attr _ hnd hl rfl
        simp [objGet, hl, asStr, k14_eq, hfix]

/-- statement 12.8: the plan summary in field-name mode -/
theorem k12_k8_eq (attr : List (Str × J)) (hnd : nodupKeys (keysOf attr) = true) (eager : Bool) (oc : J) (ocOk : Bool) (cm : J) (cmOk : Bool) :
    RedactMongoLog_k12_k8 g T fuel jsonStr (W attr E1) err attrVal hasAttr attr ok_5 cVal msgVal c msg eager oc ocOk cm cmOk =
      RedactMongoLog_k13 g T fuel jsonStr
        (W (if eager = true then updAt s_planSummary (strF g.redactFieldNamesFromPlanSummary) attr else attr) E1) err attrVal hasAttr
        (if eager = true then updAt s_planSummary (strF g.redactFieldNamesFromPlanSummary) attr else attr) ok_5 cVal msgVal c msg := by
  unfold RedactMongoLog_k12_k8
  cases eager
  · simp
  · cases hl : lookup s_planSummary attr with
    | none => simp [objGet, hl, lookup_none_updAt s_planSummary _ attr hl]
    | some v =>
      cases v with
      | str s =>
        simp only [objGet, hl, asStr, if_true, setStr_updAt s_planSummary g.redactFieldNamesFromPlanSummary attr hnd s hl, setKV_W]
      | _ =>
        have hfix := updAt_fix s_planSummary (strF g.redactFieldNamesFromPlanSummary) attr _ hnd hl rfl
        simp [objGet, hl, asStr, hfix]

/-- what one of the three command attributes becomes -/
theorem cmdDoc_obj (cx : Ctx) (m : List (Str × J)) :
    cx.cmdDoc (.obj m) = .obj (if cx.cfg.ns = true then cx.redactNamespace (cx.redactCommand m) else cx.redactCommand m) := rfl

/-- the body shared by the three command-attribute statements, as a fact about `attr`: after `redactCommand` (and `redactNamespace`
    under the flag) on the document under `K`, with every intermediate `Set`, `attr` is `updAt K cmdDoc attr` -/
theorem cmdAttr_sets (env : Env g T) (hsf : T.searchedFields = [s_ns, s_aggregate, s_insert, s_find, s_update, s_collection, s_delete, s__24db, s_count,
      s_findAndModify, s_findOneAndDelete, s_replace, s_findOneAndReplace, s_findOneAndUpdate, s_getIndexes, s_countDocuments, s_distinct, s_mapReduce,
      s_findandmodify]) (K : Str) (attr m : List (Str × J)) (eager : Bool)
    (hnd : nodupKeys (keysOf attr) = true) (hl : lookup K attr = some (.obj m)) (hm : (J.obj m).nodup = true) (hd : 2 * depthKVs m < fuel) :
    redactCommand g T fuel m eager = some ((Ctx.mk T (absCfg g) eager).redactCommand m) ∧
    redactNamespace g T ((Ctx.mk T (absCfg g) eager).redactCommand m) =
      some ((Ctx.mk T (absCfg g) eager).redactNamespace ((Ctx.mk T (absCfg g) eager).redactCommand m)) ∧
    setKV K (J.obj (if g.redactNamespaces = true then (Ctx.mk T (absCfg g) eager).redactNamespace ((Ctx.mk T (absCfg g) eager).redactCommand m)
      else (Ctx.mk T (absCfg g) eager).redactCommand m)) attr = updAt K (Ctx.mk T (absCfg g) eager).cmdDoc attr := by
  refine ⟨redactCommand_eq g T env fuel eager m hm hd, ?_, ?_⟩
  · rw [redactNamespace_eq g T _ (redactCommand_nodup _ m hm) hsf]; rfl
  · have := setKV_updAt K (Ctx.mk T (absCfg g) eager).cmdDoc attr (.obj m) hnd hl
    rw [cmdDoc_obj] at this
    exact this

/-- statement 12.7: `attr.command` -/
theorem k12_k7_eq (env : Env g T) (hsf : T.searchedFields = [s_ns, s_aggregate, s_insert, s_find, s_update, s_collection, s_delete, s__24db, s_count,
      s_findAndModify, s_findOneAndDelete, s_replace, s_findOneAndReplace, s_findOneAndUpdate, s_getIndexes, s_countDocuments, s_distinct, s_mapReduce,
      s_findandmodify]) (attr : List (Str × J)) (hnd : nodupKeys (keysOf attr) = true) (eager : Bool)
    (oc : J) (ocOk : Bool) (cm : J) (cmOk : Bool)
    (hdoc : ∀ m, lookup s_command attr = some (.obj m) → (J.obj m).nodup = true ∧ 2 * depthKVs m < fuel) :
    RedactMongoLog_k12_k7 g T fuel jsonStr (W attr E1) err attrVal hasAttr attr ok_5 cVal msgVal c msg eager oc ocOk cm cmOk =
      RedactMongoLog_k12_k8 g T fuel jsonStr (W (updAt s_command (Ctx.mk T (absCfg g) eager).cmdDoc attr) E1) err attrVal hasAttr
        (updAt s_command (Ctx.mk T (absCfg g) eager).cmdDoc attr) ok_5 cVal msgVal c msg eager oc ocOk cm cmOk := by
  unfold RedactMongoLog_k12_k7
  cases hl : lookup s_command attr with
  | none => simp [objGet, hl, lookup_none_updAt s_command _ attr hl]
  | some v =>
    cases v with
    | obj m =>
      obtain ⟨hm, hdm⟩ := hdoc m hl
      obtain ⟨h1, h2, h3⟩ := cmdAttr_sets g T fuel env hsf s_command attr m eager hnd hl hm hdm
      cases hns : g.redactNamespaces
      · rw [hns] at h3
        simp only [objGet, hl, asObj, if_true, h1, bind, Option.bind, pure, Bool.false_eq_true, if_false, setKV_setKV, setKV_W] at h3 ⊢
        rw [h3]
      · rw [hns] at h3
        simp only [objGet, hl, asObj, if_true, h1, h2, bind, Option.bind, pure, setKV_setKV, setKV_W] at h3 ⊢
        rw [h3]
    | _ =>
      have hfix := updAt_fix s_command (Ctx.mk T (absCfg g) eager).cmdDoc attr _ hnd hl rfl
      simp [objGet, hl, asObj, hfix]

/-- statements 12.5 / 12.6: `attr.cmd` -/
theorem k12_k5_eq (env : Env g T) (hsf : T.searchedFields = [s_ns, s_aggregate, s_insert, s_find, s_update, s_collection, s_delete, s__24db, s_count,
      s_findAndModify, s_findOneAndDelete, s_replace, s_findOneAndReplace, s_findOneAndUpdate, s_getIndexes, s_countDocuments, s_distinct, s_mapReduce,
      s_findandmodify]) (attr : List (Str × J)) (hnd : nodupKeys (keysOf attr) = true) (eager : Bool)
    (oc : J) (ocOk : Bool)
    (hdoc : ∀ m, lookup s_cmd attr = some (.obj m) → (J.obj m).nodup = true ∧ 2 * depthKVs m < fuel) :
    RedactMongoLog_k12_k5 g T fuel jsonStr (W attr E1) err attrVal hasAttr attr ok_5 cVal msgVal c msg eager oc ocOk =
      RedactMongoLog_k12_k7 g T fuel jsonStr (W (updAt s_cmd (Ctx.mk T (absCfg g) eager).cmdDoc attr) E1) err attrVal hasAttr
        (updAt s_cmd (Ctx.mk T (absCfg g) eager).cmdDoc attr) ok_5 cVal msgVal c msg eager oc ocOk (objGet attr s_cmd).1 (objGet attr s_cmd).2 := by
  unfold RedactMongoLog_k12_k5 RedactMongoLog_k12_k6
  cases hl : lookup s_cmd attr with
  | none => simp [objGet, hl, lookup_none_updAt s_cmd _ attr hl]
  | some v =>
    cases v with
    | obj m =>
      obtain ⟨hm, hdm⟩ := hdoc m hl
      obtain ⟨h1, h2, h3⟩ := cmdAttr_sets g T fuel env hsf s_cmd attr m eager hnd hl hm hdm
      cases hns : g.redactNamespaces
      · rw [hns] at h3
        simp only [objGet, hl, asObj, if_true, h1, bind, Option.bind, pure, Bool.false_eq_true, if_false, setKV_setKV, setKV_W] at h3 ⊢
        rw [h3]
      · rw [hns] at h3
        simp only [objGet, hl, asObj, if_true, h1, h2, bind, Option.bind, pure, setKV_setKV, setKV_W] at h3 ⊢
        rw [h3]
    | _ =>
      have hfix := updAt_fix s_cmd (Ctx.mk T (absCfg g) eager).cmdDoc attr _ hnd hl rfl
      simp [objGet, hl, asObj, hfix]

/-- statements 12.3 / 12.4: `attr.originatingCommand` -/
theorem k12_k3_eq (env : Env g T) (hsf : T.searchedFields = [s_ns, s_aggregate, s_insert, s_find, s_update, s_collection, s_delete, s__24db, s_count,
      s_findAndModify, s_findOneAndDelete, s_replace, s_findOneAndReplace, s_findOneAndUpdate, s_getIndexes, s_countDocuments, s_distinct, s_mapReduce,
      s_findandmodify]) (attr : List (Str × J)) (hnd : nodupKeys (keysOf attr) = true) (eager : Bool)
    (hdoc : ∀ m, lookup s_originatingCommand attr = some (.obj m) → (J.obj m).nodup = true ∧ 2 * depthKVs m < fuel) :
    RedactMongoLog_k12_k3 g T fuel jsonStr (W attr E1) err attrVal hasAttr attr ok_5 cVal msgVal c msg eager =
      RedactMongoLog_k12_k5 g T fuel jsonStr (W (updAt s_originatingCommand (Ctx.mk T (absCfg g) eager).cmdDoc attr) E1) err attrVal hasAttr
        (updAt s_originatingCommand (Ctx.mk T (absCfg g) eager).cmdDoc attr) ok_5 cVal msgVal c msg eager
        (objGet attr s_originatingCommand).1 (objGet attr s_originatingCommand).2 := by
  unfold RedactMongoLog_k12_k3 RedactMongoLog_k12_k4
  cases hl : lookup s_originatingCommand attr with
  | none => simp [objGet, hl, lookup_none_updAt s_originatingCommand _ attr hl]
  | some v =>
    cases v with
    | obj m =>
      obtain ⟨hm, hdm⟩ := hdoc m hl
      obtain ⟨h1, h2, h3⟩ := cmdAttr_sets g T fuel env hsf s_originatingCommand attr m eager hnd hl hm hdm
      cases hns : g.redactNamespaces
      · rw [hns] at h3
        simp only [objGet, hl, asObj, if_true, h1, bind, Option.bind, pure, Bool.false_eq_true, if_false, setKV_setKV, setKV_W] at h3 ⊢
        rw [h3]
      · rw [hns] at h3
        simp only [objGet, hl, asObj, if_true, h1, h2, bind, Option.bind, pure, setKV_setKV, setKV_W] at h3 ⊢
        rw [h3]
    | _ =>
      have hfix := updAt_fix s_originatingCommand (Ctx.mk T (absCfg g) eager).cmdDoc attr _ hnd hl rfl
      simp [objGet, hl, asObj, hfix]

theorem isPrefix_eq : ∀ (p s : Str), isPrefix p s = p.isPrefixOf s
  | [], _ => by simp [isPrefix]
  | _ :: _, [] => by simp [isPrefix]
  | a :: as, b :: bs => by simp [isPrefix, isPrefix_eq as bs, List.isPrefixOf]

/-- statement 12.2: the `--redactFieldNames` prefixes against `attr.ns` (the loop stops at the first match) -/
theorem k12_k2_eq (entry attr : List (Str × J)) :
    RedactMongoLog_k12_k2 g T fuel jsonStr entry err attrVal hasAttr attr ok_5 cVal msgVal c msg false =
      RedactMongoLog_k12_k3 g T fuel jsonStr entry err attrVal hasAttr attr ok_5 cVal msgVal c msg
        (g.eagerRedactionPaths.any fun p => isPrefix p (strOrEmpty (lookup s_ns attr))) := by
  unfold RedactMongoLog_k12_k2
  have hns : (asStr (objGet attr s_ns).1).1 = strOrEmpty (lookup s_ns attr) := by
    cases hl : lookup s_ns attr with
    | none => simp [objGet, hl, asStr, strOrEmpty]
    | some v => cases v <;> simp [objGet, hl, asStr, strOrEmpty]
  generalize g.eagerRedactionPaths = paths
  suffices h : ∀ (b : Bool), (forIn paths b fun path r =>
      (have shouldEagerRedact := r;
        match objGet attr s_ns with
        | (s, _) =>
          match asStr s with
          | (ns, _) =>
            if hasPrefix ns path = true then
              have shouldEagerRedact := true;
              (pure (ForInStep.done shouldEagerRedact) : Option _)
            else pure (ForInStep.yield shouldEagerRedact))) =
      some (b || paths.any fun p => isPrefix p (strOrEmpty (lookup s_ns attr))) by
    simp only [bind, Option.bind, pure] at h ⊢
    rw [h false]; simp
  intro b
  induction paths generalizing b with
  | nil => simp
  | cons p ps ih =>
    simp only [List.forIn_cons, List.any_cons]
    have hp : hasPrefix (asStr (objGet attr s_ns).1).1 p = isPrefix p (strOrEmpty (lookup s_ns attr)) := by
      rw [hns, isPrefix_eq]; rfl
    cases hh : isPrefix p (strOrEmpty (lookup s_ns attr))
    · have : hasPrefix (asStr (objGet attr s_ns).1).1 p = false := by rw [hp, hh]
      simp only [this, Bool.false_eq_true, if_false, bind, Option.bind, pure, Bool.false_or]
      exact ih b
    · have : hasPrefix (asStr (objGet attr s_ns).1).1 p = true := by rw [hp, hh]
      simp [this]

theorem mapKey_eq_updAt (k : Str) (f : J → J) : ∀ (l : List (Str × J)), mapKey k f l = updAt k f l
  | [] => rfl
  | (k', v) :: rest => by
    have ih := mapKey_eq_updAt k f rest
    unfold updAt at ih ⊢
    by_cases h : k' = k <;> simp [mapKey, h, ih]

theorem lookup_setKV_ne {α : Type} (k k' : Str) (v : α) (h : k ≠ k') : ∀ (l : List (Str × α)), lookup k (setKV k' v l) = lookup k l
  | [] => by simp [setKV, lookup, Ne.symm h]
  | (a, w) :: rest => by
    by_cases h1 : a = k'
    · subst h1; simp [setKV, lookup, Ne.symm h]
    · by_cases h2 : a = k
      · subst h2; simp [setKV, lookup, h1]
      · simp [setKV, lookup, h1, h2, lookup_setKV_ne k k' v h rest]

theorem lookup_setKV_same {α : Type} (k : Str) (v : α) : ∀ (l : List (Str × α)), lookup k (setKV k v l) = some v
  | [] => by simp [setKV, lookup]
  | (a, w) :: rest => by
    by_cases h1 : a = k
    · subst h1; simp [setKV, lookup]
    · simp [setKV, lookup, h1, lookup_setKV_same k v rest]

/-- the attribute rewrite the continuations from statement 12 on perform -/
def attrFrom12 (paths : List Str) (attr : List (Str × J)) (gate : Bool) : List (Str × J) :=
  let a2 :=
    if gate = true then
      let eager := paths.any fun p => isPrefix p (strOrEmpty (lookup s_ns attr))
      let cx : Ctx := Ctx.mk T (absCfg g) eager
      let a := updAt s_command cx.cmdDoc (updAt s_cmd cx.cmdDoc (updAt s_originatingCommand cx.cmdDoc attr))
      if eager = true then updAt s_planSummary (strF g.redactFieldNamesFromPlanSummary) a else a
    else attr
  if g.redactNamespaces = true then updAt s_ns (strF (hashName g.redactedString)) a2 else a2

/-- statements 12 – 14: the gate and everything behind it -/
theorem k12_eq (env : Env g T) (hsf : T.searchedFields = [s_ns, s_aggregate, s_insert, s_find, s_update, s_collection, s_delete, s__24db, s_count,
      s_findAndModify, s_findOneAndDelete, s_replace, s_findOneAndReplace, s_findOneAndUpdate, s_getIndexes, s_countDocuments, s_distinct, s_mapReduce,
      s_findandmodify]) (attr : List (Str × J)) (hnd : nodupKeys (keysOf attr) = true)
    (hdoc : ∀ K m, lookup K attr = some (.obj m) → (J.obj m).nodup = true ∧ 2 * depthKVs m < fuel) :
    RedactMongoLog_k12 g T fuel jsonStr (W attr E1) err attrVal hasAttr attr ok_5 cVal msgVal c msg =
      some (W (attrFrom12 g T g.eagerRedactionPaths attr ((((c == s_COMMAND) || (c == s_QUERY)) || (c == s_WRITE)) || (msg == s_Slow_20query))) E1, false) := by
  unfold RedactMongoLog_k12 attrFrom12
  cases hgate : ((((c == s_COMMAND) || (c == s_QUERY)) || (c == s_WRITE)) || (msg == s_Slow_20query))
  · simp only [hgate, Bool.false_eq_true, if_false]
    exact k13_eq g T fuel jsonStr E1 err attrVal hasAttr ok_5 cVal msgVal c msg attr hnd
  · simp only [hgate, if_true]
    unfold RedactMongoLog_k12_k1
    simp only [bind, Option.bind, pure]
    rw [k12_k2_eq]
    generalize (g.eagerRedactionPaths.any fun p => isPrefix p (strOrEmpty (lookup s_ns attr))) = eager
    have hl1 : ∀ K K' f m, K ≠ K' → lookup K (updAt K' f attr) = some (J.obj m) → lookup K attr = some (J.obj m) := by
      intro K K' f m hne h; rw [lookup_updAt, if_neg hne] at h; exact h
    rw [k12_k3_eq g T fuel jsonStr E1 err attrVal hasAttr ok_5 cVal msgVal c msg env hsf attr hnd eager (fun m hm => hdoc _ m hm)]
    have hnd1 : nodupKeys (keysOf (updAt s_originatingCommand (Ctx.mk T (absCfg g) eager).cmdDoc attr)) = true := by rw [keysOf_updAt]; exact hnd
    rw [k12_k5_eq g T fuel jsonStr E1 err attrVal hasAttr ok_5 cVal msgVal c msg env hsf _ hnd1 eager _ _
      (fun m hm => hdoc _ m (hl1 _ _ _ m (by decide) hm))]
    have hnd2 : nodupKeys (keysOf (updAt s_cmd (Ctx.mk T (absCfg g) eager).cmdDoc (updAt s_originatingCommand (Ctx.mk T (absCfg g) eager).cmdDoc attr))) = true := by
      rw [keysOf_updAt]; exact hnd1
    rw [k12_k7_eq g T fuel jsonStr E1 err attrVal hasAttr ok_5 cVal msgVal c msg env hsf _ hnd2 eager _ _ _ _
      (fun m hm => by
        rw [lookup_updAt, if_neg (by decide), lookup_updAt, if_neg (by decide)] at hm
        exact hdoc _ m hm)]
    have hnd3 : nodupKeys (keysOf (updAt s_command (Ctx.mk T (absCfg g) eager).cmdDoc (updAt s_cmd (Ctx.mk T (absCfg g) eager).cmdDoc
        (updAt s_originatingCommand (Ctx.mk T (absCfg g) eager).cmdDoc attr)))) = true := by rw [keysOf_updAt]; exact hnd2
    rw [k12_k8_eq g T fuel jsonStr E1 err attrVal hasAttr ok_5 cVal msgVal c msg _ hnd3 eager]
    have hnd4 : nodupKeys (keysOf (if eager = true then updAt s_planSummary (strF g.redactFieldNamesFromPlanSummary)
        (updAt s_command (Ctx.mk T (absCfg g) eager).cmdDoc (updAt s_cmd (Ctx.mk T (absCfg g) eager).cmdDoc
          (updAt s_originatingCommand (Ctx.mk T (absCfg g) eager).cmdDoc attr))) else
        (updAt s_command (Ctx.mk T (absCfg g) eager).cmdDoc (updAt s_cmd (Ctx.mk T (absCfg g) eager).cmdDoc
          (updAt s_originatingCommand (Ctx.mk T (absCfg g) eager).cmdDoc attr))))) = true := by
      cases eager
      · exact hnd3
      · simp only [if_true]; rw [keysOf_updAt]; exact hnd3
    rw [k13_eq g T fuel jsonStr E1 err attrVal hasAttr ok_5 cVal msgVal c msg _ hnd4]

/-- the `--redactIPs` rewrite of `attr.remote` -/
def ipF (T : Tables) : J → J
  | .str _ => .str T.ipPH
  | v => v

def attrIP (attr : List (Str × J)) : List (Str × J) := if g.redactIPs = true then updAt s_remote (ipF T) attr else attr

theorem W_self (E0 attr0 : List (Str × J)) (hnd : nodupKeys (keysOf E0) = true) (hl : lookup s_attr E0 = some (.obj attr0)) : W attr0 E0 = E0 := by
  unfold W
  have := setKV_updAt s_attr id E0 (.obj attr0) hnd hl
  simp only [id] at this
  rw [this, updAt_fix s_attr id E0 _ hnd hl rfl]

/-- statements 3 – 14 when `attr` is a document: the address rewrite, then the gate and what follows -/
theorem k3_eq_obj (env : Env g T) (hsf : T.searchedFields = [s_ns, s_aggregate, s_insert, s_find, s_update, s_collection, s_delete, s__24db, s_count,
      s_findAndModify, s_findOneAndDelete, s_replace, s_findOneAndReplace, s_findOneAndUpdate, s_getIndexes, s_countDocuments, s_distinct, s_mapReduce,
      s_findandmodify]) (hip : T.ipPH = s_255_2e255_2e255_2e255_3a65535)
    (E0 attr0 : List (Str × J)) (hnd : (J.obj E0).nodup = true) (hdepth : 2 * depthKVs E0 < fuel) (hl : lookup s_attr E0 = some (.obj attr0)) :
    RedactMongoLog_k3 g T fuel jsonStr E0 false =
      some (W (attrFrom12 g T g.eagerRedactionPaths (attrIP g T attr0)
        ((((strOrEmpty (lookup s_c E0) == s_COMMAND) || (strOrEmpty (lookup s_c E0) == s_QUERY)) || (strOrEmpty (lookup s_c E0) == s_WRITE)) ||
          (strOrEmpty (lookup s_msg E0) == s_Slow_20query))) E0, false) := by
  have hk0 := nodup_obj_keys E0 hnd
  have hattr0 : (J.obj attr0).nodup = true := nodup_lookup E0 hnd _ _ hl
  have hka := nodup_obj_keys attr0 hattr0
  have hd0 : depthKVs attr0 < depthKVs E0 := depth_obj_lt attr0 E0 _ hl
  -- the entry and `attr` after statement 3
  have h3 : RedactMongoLog_k3 g T fuel jsonStr E0 false = RedactMongoLog_k4 g T fuel jsonStr (W (attrIP g T attr0) E0) false := by
    unfold RedactMongoLog_k3 attrIP
    cases hips : g.redactIPs
    · simp [W_self E0 attr0 hk0 hl]
    · cases hr : lookup s_remote attr0 with
      | none => simp [objGet, hl, asObj, hr, lookup_none_updAt s_remote _ attr0 hr, W_self E0 attr0 hk0 hl]
      | some v =>
        cases v with
        | str s0 =>
          have := setKV_updAt s_remote (ipF T) attr0 (.str s0) hka hr
          simp only [ipF, hip] at this
          simp only [objGet, hl, asObj, hr, asStr, if_true, this, ipF, hip, W]
        | _ =>
          have hfix := updAt_fix s_remote (ipF T) attr0 _ hka hr rfl
          simp [objGet, hl, asObj, hr, asStr, hfix, W_self E0 attr0 hk0 hl]
  rw [h3]
  have hka1 : nodupKeys (keysOf (attrIP g T attr0)) = true := by
    unfold attrIP; cases g.redactIPs
    · exact hka
    · simp only [if_true]; rw [keysOf_updAt]; exact hka
  have hlW : objGet (W (attrIP g T attr0) E0) s_attr = (J.obj (attrIP g T attr0), true) := by
    unfold objGet W; rw [lookup_setKV_same]
  have hc : objGet (W (attrIP g T attr0) E0) s_c = objGet E0 s_c := by
    unfold objGet W; rw [lookup_setKV_ne _ _ _ (by decide)]
  have hm : objGet (W (attrIP g T attr0) E0) s_msg = objGet E0 s_msg := by
    unfold objGet W; rw [lookup_setKV_ne _ _ _ (by decide)]
  have hso : ∀ (E : List (Str × J)) (k : Str), (asStr (objGet E k).1).1 = strOrEmpty (lookup k E) := by
    intro E k; unfold objGet
    cases lookup k E with
    | none => rfl
    | some v => cases v <;> rfl
  unfold RedactMongoLog_k4 RedactMongoLog_k5 RedactMongoLog_k6 RedactMongoLog_k7 RedactMongoLog_k8 RedactMongoLog_k9 RedactMongoLog_k10 RedactMongoLog_k11
  simp only [hlW, hc, hm, asObj, isNull, Bool.not_true, Bool.or_false, Bool.false_eq_true, if_false, bind, Option.bind, pure, hso]
  rw [k12_eq g T fuel jsonStr E0 false _ true true _ _ _ _ env hsf (attrIP g T attr0) hka1]
  intro K m hKm
  -- a document under a key of `attr` is a document of the original `attr`
  have hKm0 : lookup K attr0 = some (.obj m) := by
    unfold attrIP at hKm
    cases hips : g.redactIPs
    · rw [hips] at hKm; exact hKm
    · rw [hips] at hKm
      simp only [if_true] at hKm
      rw [lookup_updAt] at hKm
      by_cases hK : K = s_remote
      · rw [if_pos hK] at hKm
        cases hv : lookup K attr0 with
        | none => rw [hv] at hKm; cases hKm
        | some v =>
          rw [hv] at hKm
          cases v <;> simp [ipF] at hKm
          rename_i m'; rw [hKm]
      · rw [if_neg hK] at hKm; exact hKm
  refine ⟨nodup_lookup attr0 hattr0 _ _ hKm0, ?_⟩
  have := depth_obj_lt m attr0 _ hKm0
  omega

theorem cmdKeys_map (cd : J → J) (attr : List (Str × J)) :
    attr.map (fun p => (p.1, if cmdKeys.contains p.1 then cd p.2 else p.2)) =
      updAt s_command cd (updAt s_cmd cd (updAt s_originatingCommand cd attr)) := by
  unfold updAt
  rw [List.map_map, List.map_map]
  apply List.map_congr_left
  intro p _
  obtain ⟨k, v⟩ := p
  simp only [Function.comp]
  by_cases h1 : k = s_originatingCommand
  · subst h1; simp (config := {decide := true}) [cmdKeys]
  · by_cases h2 : k = s_cmd
    · subst h2; simp (config := {decide := true}) [cmdKeys]
    · by_cases h3 : k = s_command
      · subst h3; simp (config := {decide := true}) [cmdKeys]
      · have hm : k ∉ cmdKeys := by
          have e1 : ("originatingCommand".toList : Str) = s_originatingCommand := rfl
          have e2 : ("cmd".toList : Str) = s_cmd := rfl
          have e3 : ("command".toList : Str) = s_command := rfl
          simp [cmdKeys, e1, e2, e3, h1, h2, h3]
        simp [h1, h2, h3, hm]

theorem updAt_map (k : Str) (f : J → J) (l : List (Str × J)) : updAt k f l = l.map (uAt k f) := rfl

/-- the attribute rewrite of the continuations is the model's `redactAttr` -/
theorem attrFrom12_model (plan : Str → Str → Str) (hplan : ∀ s, g.redactFieldNamesFromPlanSummary s = plan g.redactedString s)
    (attr0 : List (Str × J)) (gate : Bool) :
    attrFrom12 g T g.eagerRedactionPaths (attrIP g T attr0) gate =
      redactAttrWith Ctx.cmdDoc T (absCfg g) g.eagerRedactionPaths plan gate attr0 := by
  rw [redactAttrWith_eq_mapVals]
  have hlk : lookup s_ns (attrIP g T attr0) = lookup s_ns attr0 := by
    unfold attrIP; cases g.redactIPs
    · rfl
    · simp only [if_true]; rw [lookup_updAt, if_neg (by decide)]
  have n1 : sRemote = s_remote := rfl
  have n2 : sNs = s_ns := rfl
  have n3 : sPlanSummary = s_planSummary := rfl
  have e1 : ("originatingCommand".toList : Str) = s_originatingCommand := rfl
  have e2 : ("cmd".toList : Str) = s_cmd := rfl
  have e3 : ("command".toList : Str) = s_command := rfl
  unfold attrFrom12
  rw [hlk]
  unfold attrFn mapVals
  rw [n2]
  generalize (g.eagerRedactionPaths.any fun p => isPrefix p (strOrEmpty (lookup s_ns attr0))) = eager
  -- both sides as one map over the original `attr`
  have hmine : ∀ (gate eager : Bool),
      (if g.redactNamespaces = true then updAt s_ns (strF (hashName g.redactedString))
        (if gate = true then
          (if eager = true then updAt s_planSummary (strF g.redactFieldNamesFromPlanSummary)
            (updAt s_command (Ctx.mk T (absCfg g) eager).cmdDoc (updAt s_cmd (Ctx.mk T (absCfg g) eager).cmdDoc
              (updAt s_originatingCommand (Ctx.mk T (absCfg g) eager).cmdDoc (attrIP g T attr0))))
           else (updAt s_command (Ctx.mk T (absCfg g) eager).cmdDoc (updAt s_cmd (Ctx.mk T (absCfg g) eager).cmdDoc
              (updAt s_originatingCommand (Ctx.mk T (absCfg g) eager).cmdDoc (attrIP g T attr0)))))
         else attrIP g T attr0)
       else
        (if gate = true then
          (if eager = true then updAt s_planSummary (strF g.redactFieldNamesFromPlanSummary)
            (updAt s_command (Ctx.mk T (absCfg g) eager).cmdDoc (updAt s_cmd (Ctx.mk T (absCfg g) eager).cmdDoc
              (updAt s_originatingCommand (Ctx.mk T (absCfg g) eager).cmdDoc (attrIP g T attr0))))
           else (updAt s_command (Ctx.mk T (absCfg g) eager).cmdDoc (updAt s_cmd (Ctx.mk T (absCfg g) eager).cmdDoc
              (updAt s_originatingCommand (Ctx.mk T (absCfg g) eager).cmdDoc (attrIP g T attr0)))))
         else attrIP g T attr0)) =
      attr0.map (fun p =>
        uiAt g.redactNamespaces s_ns (strF (hashName g.redactedString))
          (uiAt (gate && eager) s_planSummary (strF g.redactFieldNamesFromPlanSummary)
            (uiAt gate s_command (Ctx.mk T (absCfg g) eager).cmdDoc (uiAt gate s_cmd (Ctx.mk T (absCfg g) eager).cmdDoc
              (uiAt gate s_originatingCommand (Ctx.mk T (absCfg g) eager).cmdDoc (uiAt g.redactIPs s_remote (ipF T) p)))))) := by
    intro gate eager
    unfold attrIP
    cases gate <;> cases eager <;> cases g.redactNamespaces <;> cases g.redactIPs <;>
      simp only [Bool.false_eq_true, if_false, if_true, updAt_map, List.map_map, Bool.and_self, Bool.and_false, Bool.and_true] <;>
      (first
        | (apply List.map_congr_left; intro p _; obtain ⟨k, v⟩ := p; simp [uAt, uiAt])
        | (conv => lhs; rw [← List.map_id attr0]
           apply List.map_congr_left; intro p _; obtain ⟨k, v⟩ := p; simp [uiAt]))
  rw [hmine gate eager]
  apply List.map_congr_left
  intro p _
  obtain ⟨k, v⟩ := p
  simp only [uiAt_mk]
  congr 1
  by_cases h0 : k = s_remote
  · subst h0
    cases gate <;> cases eager <;> cases hns : g.redactNamespaces <;> cases hips : g.redactIPs <;> cases v <;>
      simp (config := {decide := true}) [absCfg, hns, hips, ipF, strF, cmdKeys, hplan, e1, e2, e3, n1, n2, n3]
  by_cases h1 : k = s_originatingCommand
  · subst h1
    cases gate <;> cases eager <;> cases hns : g.redactNamespaces <;> cases hips : g.redactIPs <;> cases v <;>
      simp (config := {decide := true}) [absCfg, hns, hips, ipF, strF, cmdKeys, hplan, e1, e2, e3, n1, n2, n3]
  by_cases h2 : k = s_cmd
  · subst h2
    cases gate <;> cases eager <;> cases hns : g.redactNamespaces <;> cases hips : g.redactIPs <;> cases v <;>
      simp (config := {decide := true}) [absCfg, hns, hips, ipF, strF, cmdKeys, hplan, e1, e2, e3, n1, n2, n3]
  by_cases h3 : k = s_command
  · subst h3
    cases gate <;> cases eager <;> cases hns : g.redactNamespaces <;> cases hips : g.redactIPs <;> cases v <;>
      simp (config := {decide := true}) [absCfg, hns, hips, ipF, strF, cmdKeys, hplan, e1, e2, e3, n1, n2, n3]
  by_cases h4 : k = s_planSummary
  · subst h4
    cases gate <;> cases eager <;> cases hns : g.redactNamespaces <;> cases hips : g.redactIPs <;> cases v <;>
      simp (config := {decide := true}) [absCfg, hns, hips, ipF, strF, cmdKeys, hplan, e1, e2, e3, n1, n2, n3]
  by_cases h5 : k = s_ns
  · subst h5
    cases gate <;> cases eager <;> cases hns : g.redactNamespaces <;> cases hips : g.redactIPs <;> cases v <;>
      simp (config := {decide := true}) [absCfg, hns, hips, ipF, strF, cmdKeys, hplan, e1, e2, e3, n1, n2, n3]
  · cases gate <;> cases eager <;> cases hns : g.redactNamespaces <;> cases hips : g.redactIPs <;>
      simp (config := {decide := true}) [absCfg, hns, hips, cmdKeys, e1, e2, e3, n1, n2, n3, h0, h1, h2, h3, h4, h5]

theorem decide_eq_beq_str (a b : Str) : decide (a = b) = (a == b) := by
  by_cases h : a = b
  · subst h; simp
  · have : (a == b) = false := by simpa using h
    simp [h, this]

/-- **`RedactMongoLog` is the model's `redactLine`** — for every line the JSON reader accepts as an object without duplicate
    keys at any level, every setting of the option variables, and fuel beyond twice the nesting depth: the translated function
    returns (no panic anywhere below it) the pair (model's redacted entry, no error) -/
theorem RedactMongoLog_eq (env : Env g T) (hsf : T.searchedFields = [s_ns, s_aggregate, s_insert, s_find, s_update, s_collection, s_delete, s__24db, s_count,
      s_findAndModify, s_findOneAndDelete, s_replace, s_findOneAndReplace, s_findOneAndUpdate, s_getIndexes, s_countDocuments, s_distinct, s_mapReduce,
      s_findandmodify]) (hip : T.ipPH = s_255_2e255_2e255_2e255_3a65535)
    (plan : Str → Str → Str) (hplan : ∀ s, g.redactFieldNamesFromPlanSummary s = plan g.redactedString s)
    (line : Str) (E0 : List (Str × J)) (hparse : g.UnmarshalOrdered (utf8 line) = some E0)
    (hnd : (J.obj E0).nodup = true) (hdepth : 2 * depthKVs E0 < fuel) :
    RedactMongoLog g T fuel line = some (redactLine T (absCfg g) g.eagerRedactionPaths plan E0, false) := by
  have hk0 := nodup_obj_keys E0 hnd
  unfold RedactMongoLog RedactMongoLog_k1 RedactMongoLog_k2
  simp only [hparse, errPairObj, Bool.not_false, Bool.not_true, Bool.false_eq_true, if_false, bind, Option.bind, pure]
  unfold redactLine redactLineWith
  have na : sAttr = s_attr := rfl
  rw [na]
  cases hl : lookup s_attr E0 with
  | none =>
    simp only []
    unfold RedactMongoLog_k3 RedactMongoLog_k4 RedactMongoLog_k5
    cases g.redactIPs <;> simp [objGet, hl]
  | some v =>
    cases v with
    | obj attr0 =>
      simp only []
      rw [k3_eq_obj g T fuel line env hsf hip E0 attr0 hnd hdepth hl, attrFrom12_model g T plan hplan]
      -- the model rebuilds the entry with `mapKey`; with distinct keys that is the `Set` on `attr`
      rw [mapKey_eq_updAt, ← setKV_updAt s_attr _ E0 (.obj attr0) hk0 hl]
      simp only []
      unfold W
      have hgate : gated E0 = ((((strOrEmpty (lookup s_c E0) == s_COMMAND) || (strOrEmpty (lookup s_c E0) == s_QUERY)) || (strOrEmpty (lookup s_c E0) == s_WRITE)) ||
          (strOrEmpty (lookup s_msg E0) == s_Slow_20query)) := by
        unfold gated
        have e1 : sC = s_c := rfl
        have e2 : sMsg = s_msg := rfl
        have e3 : sSlowQuery = s_Slow_20query := rfl
        rw [e1, e2, e3]
        have : ∀ x : Str, gateComponents.contains x = (((x == s_COMMAND) || (x == s_QUERY)) || (x == s_WRITE)) := by
          intro x
          have a1 : ("COMMAND".toList : Str) = s_COMMAND := rfl
          have a2 : ("QUERY".toList : Str) = s_QUERY := rfl
          have a3 : ("WRITE".toList : Str) = s_WRITE := rfl
          simp [gateComponents, a1, a2, a3, Bool.or_assoc, decide_eq_beq_str]
        rw [this]
        cases (strOrEmpty (lookup s_c E0) == s_COMMAND || strOrEmpty (lookup s_c E0) == s_QUERY || strOrEmpty (lookup s_c E0) == s_WRITE) <;> simp [decide_eq_beq_str]
      rw [hgate]
    | null =>
      simp only []
      unfold RedactMongoLog_k3 RedactMongoLog_k4 RedactMongoLog_k5
      cases g.redactIPs <;> simp [objGet, hl, asObj, isNull]
    | bool _ | num _ | str _ | arr _ =>
      simp only []
      unfold RedactMongoLog_k3 RedactMongoLog_k4 RedactMongoLog_k5 RedactMongoLog_k6 RedactMongoLog_k7
      cases g.redactIPs <;> simp [objGet, hl, asObj, isNull]

/-- a line the JSON reader rejects: the error is returned, nothing else happens -/
theorem RedactMongoLog_err (line : Str) (hparse : g.UnmarshalOrdered (utf8 line) = none) :
    RedactMongoLog g T fuel line = some ([], true) := by
  unfold RedactMongoLog RedactMongoLog_k1 RedactMongoLog_k2
  simp [hparse, errPairObj]

/-- the address placeholder of the regenerated constants is the literal `RedactMongoLog` writes -/
theorem Gen_ipPH : Generated.tables.ipPH = s_255_2e255_2e255_2e255_3a65535 := by decide

/-- `RedactMongoLog_eq` for the tables regenerated from the binary: only the three untranslated callees remain as hypotheses -/
theorem RedactMongoLog_eq_gen (hP : ∀ (st : J) (rfn : Bool) (kp : List Str) (S : Bool),
      g.redactPipelineStage st rfn kp S = some ((Ctx.mk Generated.tables (absCfg g) rfn).P S kp st))
    (plan : Str → Str → Str) (hplan : ∀ s, g.redactFieldNamesFromPlanSummary s = plan g.redactedString s)
    (line : Str) (E0 : List (Str × J)) (hparse : g.UnmarshalOrdered (utf8 line) = some E0)
    (hnd : (J.obj E0).nodup = true) (hdepth : 2 * depthKVs E0 < fuel) :
    RedactMongoLog g Generated.tables fuel line = some (redactLine Generated.tables (absCfg g) g.eagerRedactionPaths plan E0, false) :=
  RedactMongoLog_eq g Generated.tables fuel ⟨Gen_emailPH, hP⟩ Gen_searchedFields Gen_ipPH plan hplan line E0 hparse hnd hdepth

end Anonymongo.Src
