/-
  Props/Src/ParseDepth.lean — what the model's parser returns is nested no more deeply than its input is long (every level of nesting
  costs the parser one unit of its fuel, and `parseObj` starts with `length + 1`).  With it the fuel hypothesis of the source-level
  theorems becomes a bound in the LENGTH OF THE LINE: `C07_src_len`.
-/
import Anonymongo.Props.Src.EndToEnd
namespace Anonymongo.Src
open Anonymongo Anonymongo.Go

theorem depthKVs_setKV (k : Str) (v : J) : ∀ l : List (Str × J), depthKVs (setKV k v l) ≤ max (depth v) (depthKVs l)
  | [] => by simp [setKV, depthKVs]
  | (k', v') :: rest => by
    simp only [setKV]
    split
    · simp only [depthKVs]; omega
    · have := depthKVs_setKV k v rest
      simp only [depthKVs]; omega

mutual
theorem parseValue_depth : ∀ (fuel : Nat) (bs : Bytes) (v : J) (r : Bytes), parseValue fuel bs = some (v, r) → depth v ≤ fuel
  | 0, _, _, _, h => by simp [parseValue] at h
  | fuel + 1, bs, v, r, h => by
    simp only [parseValue] at h
    split at h
    · simp at h
    · -- '{'
      split at h
      · simp only [Option.some.injEq, Prod.mk.injEq] at h; obtain ⟨rfl, _⟩ := h; simp [depth, depthKVs]
      · simp only [Option.map_eq_some_iff] at h
        obtain ⟨⟨kvs, r'⟩, hm, he⟩ := h
        simp only [Prod.mk.injEq] at he
        obtain ⟨rfl, _⟩ := he
        have := parseMembers_depth fuel _ [] kvs r' hm
        simp only [depth, depthKVs] at this ⊢
        cases fuel with
        | zero => simp [parseMembers] at hm
        | succ n => omega
    · -- '['
      split at h
      · simp only [Option.some.injEq, Prod.mk.injEq] at h; obtain ⟨rfl, _⟩ := h; simp [depth, depthList]
      · simp only [Option.map_eq_some_iff] at h
        obtain ⟨⟨xs, r'⟩, hm, he⟩ := h
        simp only [Prod.mk.injEq] at he
        obtain ⟨rfl, _⟩ := he
        have := parseElems_depth fuel _ xs r' hm
        simp only [depth]
        cases fuel with
        | zero => simp [parseElems] at hm
        | succ n => omega
    · -- string
      split at h
      · split at h
        · simp only [Option.some.injEq, Prod.mk.injEq] at h; obtain ⟨rfl, _⟩ := h; simp [depth]
        · simp at h
      · simp at h
    · -- true / false / null / number
      split at h
      · (repeat' split at h) <;> first | (simp at h; done) | (simp only [Option.some.injEq, Prod.mk.injEq] at h; obtain ⟨rfl, _⟩ := h; simp [depth])
      · split at h
        · (repeat' split at h) <;> first | (simp at h; done) | (simp only [Option.some.injEq, Prod.mk.injEq] at h; obtain ⟨rfl, _⟩ := h; simp [depth])
        · split at h
          · (repeat' split at h) <;> first | (simp at h; done) | (simp only [Option.some.injEq, Prod.mk.injEq] at h; obtain ⟨rfl, _⟩ := h; simp [depth])
          · split at h
            · split at h
              · simp only [Option.some.injEq, Prod.mk.injEq] at h
                obtain ⟨rfl, _⟩ := h
                simp [depth]
              · simp at h
            · simp at h
theorem parseMembers_depth : ∀ (fuel : Nat) (bs : Bytes) (acc kvs : List (Str × J)) (r : Bytes),
    parseMembers fuel bs acc = some (kvs, r) → depthKVs kvs ≤ max (depthKVs acc) (fuel - 1)
  | 0, _, _, _, _, h => by simp [parseMembers] at h
  | fuel + 1, bs, acc, kvs, r, h => by
    simp only [parseMembers] at h
    split at h
    · split at h
      · simp at h
      · rename_i k r1 _
        split at h
        · split at h
          · simp at h
          · rename_i v r3 hv
            have hvd := parseValue_depth fuel _ v r3 hv
            have hacc := depthKVs_setKV k v acc
            split at h
            · split at h
              · simp at h
              · have := parseMembers_depth fuel _ _ kvs r h
                omega
            · simp only [Option.some.injEq, Prod.mk.injEq] at h; obtain ⟨rfl, _⟩ := h; omega
            · simp at h
        · simp at h
    · simp at h
theorem parseElems_depth : ∀ (fuel : Nat) (bs : Bytes) (xs : List J) (r : Bytes),
    parseElems fuel bs = some (xs, r) → depthList xs ≤ fuel - 1
  | 0, _, _, _, h => by simp [parseElems] at h
  | fuel + 1, bs, xs, r, h => by
    simp only [parseElems] at h
    split at h
    · simp at h
    · rename_i v r1 hv
      have hvd := parseValue_depth fuel _ v r1 hv
      split at h
      · split at h
        · simp at h
        · simp only [Option.map_eq_some_iff] at h
          obtain ⟨⟨ys, r'⟩, hm, he⟩ := h
          simp only [Prod.mk.injEq] at he
          obtain ⟨rfl, _⟩ := he
          have := parseElems_depth fuel _ ys r' hm
          simp only [depthList]; omega
      · simp only [Option.some.injEq, Prod.mk.injEq] at h; obtain ⟨rfl, _⟩ := h; simp only [depthList]; omega
      · simp at h
end

/-- an accepted line is nested no more deeply than it is long -/
theorem parseObj_depth (bs : Bytes) (E0 : List (Str × J)) (h : parseObj bs = some E0) : depthKVs E0 ≤ bs.length := by
  unfold parseObj at h
  split at h
  · rename_i kvs r hp
    split at h
    · simp only [Option.some.injEq] at h; subst h
      have := parseValue_depth _ bs (.obj kvs) r hp
      simp only [depth] at this; omega
    · simp at h
  · simp at h

variable (g : Globals) (fuel : Nat)

/-- **C07 at source level, fuel bounded by the length of the line**: with the model's parser as the reader and fuel beyond
    twice the line's length in bytes, the translated `RedactMongoLog` returns on EVERY line, under every setting of the options —
    the reader's error and nothing else, or an entry and no error.  (Go has no fuel: this says its recursion is bounded by the
    nesting of the line, which is bounded by its length.) -/
theorem C07_src_len (plan : Str → Str → Str) (cal : Callees g plan) (hreader : g.UnmarshalOrdered = parseObj) (line : Str)
    (hfuel : 2 * (utf8 line).length < fuel) :
    RedactMongoLog g Generated.tables fuel line = some ([], true) ∨ ∃ out, RedactMongoLog g Generated.tables fuel line = some (out, false) := by
  rcases C07_src g fuel plan cal hreader line with ⟨_, h⟩ | ⟨E0, hp, h⟩
  · exact .inl h
  · have := parseObj_depth _ E0 hp
    exact .inr (h (by omega))

end Anonymongo.Src
