/-
  Props/Src/Path.lean — the TRANSLATED `traverseMapPath` and `getOp` (Generated/Src.lean) are the model's `traverse` / `getOp`:
  for every key path, table and fuel larger than the path's length the Go function returns (no panic, the recursion ends)
  and its two results are the model's answer.
-/
import Anonymongo.Props.Src.PathFns
namespace Anonymongo.Src
open Anonymongo Anonymongo.Go

/-- the Go pair `(value, found)` for a model lookup result -/
def pairOf : Option Meta → Meta × Bool
  | some m => (m, true)
  | none => (.nil, false)

/-- a re-entry of `traverseMapPath` is always on a strictly shorter path -/
theorem traverseLoop_restart_shorter (T : Tables) (S : Bool) (full : List Str) :
    ∀ (rest : List Str) (m : MTable) (p : List Str) (t : MTable), rest.length ≤ full.length →
      traverseLoop T S full rest m = .restart p t → p.length < full.length
  | [], m, p, t, _, h => by simp [traverseLoop] at h
  | part :: rest, m, p, t, hl, h => by
    rw [traverseLoop] at h
    have hl' : rest.length < full.length := by simp at hl; omega
    cases hlk : lookup part m with
    | none => rw [hlk] at h; cases h
    | some val =>
      rw [hlk] at h
      dsimp only at h
      split at h
      · cases h; exact hl'
      · split at h
        · split at h
          · split at h
            · cases h; assumption
            · cases h
          · cases h
        · cases rest with
          | nil => cases val <;> cases h
          | cons y ys =>
            cases val with
            | map m'' => exact traverseLoop_restart_shorter T S full (y :: ys) m'' p t (by omega) h
            | _ => cases h

theorem metaEq_isTy (v : Meta) (t : OpT) : metaEq v (Meta.ty t) = v.isTy t := by
  cases v <;> simp [metaEq, Meta.isTy]

theorem metaEq_nil (v : Meta) : metaEq v Meta.nil = (match v with | .nil => true | _ => false) := by
  cases v <;> simp [metaEq]

/-- the loop of `traverseMapPath` on a suffix of the path, followed by the rest of the function, is `traverseLoop` -/
theorem traverseMapPath_step (g : Globals) (T : Tables) (S : Bool) (fuel : Nat) (path : List Str) (m : MTable) :
    traverseMapPath g T (fuel + 1) path m S =
      match traverseLoop T S path path m with
      | .done r => some (pairOf r)
      | .restart p t => traverseMapPath g T fuel p t S := by
  have key : ∃ (β : Type) (mk : Meta → β) (F : Str × Nat → β → Option (ForInStep β)) (K : β → Option (Meta × Bool)),
      traverseMapPath g T (fuel + 1) path m S = (forIn path.zipIdx (mk (.map m)) F) >>= K ∧
      ∀ (rest pre : List Str) (m' : MTable), pre ++ rest = path →
        (forIn (rest.zipIdx pre.length) (mk (.map m')) F) >>= K =
          match traverseLoop T S path rest m' with
          | .done r => some (pairOf r)
          | .restart p t => traverseMapPath g T fuel p t S := by
    refine ⟨_, fun c => ((none : Option (Meta × Bool)), c, false, s_empty), ?F, ?K, ?h1, ?h2⟩
    case h1 => rw [traverseMapPath]
    case h2 =>
      intro rest
      induction rest with
      | nil => intro pre m' _; simp [traverseLoop, pairOf, metaEq]
      | cons part rest ih =>
        intro pre m' hp
        have hlen : len path = pre.length + (rest.length + 1) := by simp [← hp, len]
        simp only [List.zipIdx_cons]
        unfold traverseLoop
        cases hl : lookup part m' with
        | none =>
          rw [forIn_cons_done _ _ _ (some (Meta.nil, false), Meta.map m', false, s_empty)]
          · simp [pairOf]
          · simp [asTable, tblGet, hl]
        | some val =>
          simp only []
          by_cases hoa : (!rest.isEmpty && val.isTy .OperatorArray) = true
          · -- OperatorArray with elements left: restart on the rest of the path
            rw [if_pos hoa]
            simp only [Bool.and_eq_true, Bool.not_eq_true', List.isEmpty_eq_false_iff] at hoa
            have hgt : len path > (pre.length : Int) + 1 := by
              rw [hlen]; have : 0 < rest.length := List.length_pos_iff.mpr hoa.1; omega
            have hsl : sliceFrom path ((pre.length : Int) + 1) = some rest := by rw [← hp]; exact sliceFrom_app1 _ _ _
            have hoa2 : val.isTy .OperatorArray = true := hoa.2
            cases S
            · cases hrec : traverseMapPath g T fuel rest T.core false with
              | none =>
                rw [forIn_cons_none]
                · simp [hrec]
                · simp [asTable, tblGet, hl, metaEq_isTy, hgt, hoa2, hsl, hrec]
              | some r =>
                rw [forIn_cons_done _ _ _ (some r, val, false, s_empty)]
                · simp [hrec]
                · simp [asTable, tblGet, hl, metaEq_isTy, hgt, hoa2, hsl, hrec]
            · cases hrec : traverseMapPath g T fuel rest T.search true with
              | none =>
                rw [forIn_cons_none]
                · simp [hrec]
                · simp [asTable, tblGet, hl, metaEq_isTy, hgt, hoa2, hsl, hrec]
              | some r =>
                rw [forIn_cons_done _ _ _ (some r, val, false, s_empty)]
                · simp [hrec]
                · simp [asTable, tblGet, hl, metaEq_isTy, hgt, hoa2, hsl, hrec]
          · rw [if_neg hoa]
            have hoa' : (decide (len path > (pre.length : Int) + 1) && val.isTy .OperatorArray) = false := by
              cases hr : rest with
              | nil =>
                have : ¬ (len path > (pre.length : Int) + 1) := by rw [hlen, hr]; simp
                simp [this]
              | cons y ys =>
                simp [hr] at hoa
                simp [hoa]
            by_cases hom : val.isTy .OperatorMap = true
            · -- OperatorMap: leave the loop, cut the path
              rw [if_pos hom]
              rw [forIn_cons_done _ _ _ (none, val, true, part)]
              · simp only [bind, Option.bind, RemoveElementAfter_eq, RemoveElementsBeforeIncluding_eq, tblGet]
                have hnn : metaEq val Meta.nil = false := by cases val <;> simp_all [metaEq, Meta.isTy]
                cases hd : lookup part T.opMapDefs with
                | none => simp [hd, asTable, pairOf, hnn, len]
                | some ov =>
                  cases ov with
                  | map om =>
                    simp only [hd, asTable, len]
                    by_cases hlt : (removeElementsBeforeIncluding part (removeElementAfter part path)).length < path.length
                    · have : ((removeElementsBeforeIncluding part (removeElementAfter part path)).length : Int) < (path.length : Int) := by omega
                      simp [hlt, this]
                    · have : ¬ ((removeElementsBeforeIncluding part (removeElementAfter part path)).length : Int) < (path.length : Int) := by omega
                      simp [hlt, this, pairOf, hnn]
                  | _ => simp [hd, asTable, pairOf, hnn, len]
              · simp [asTable, tblGet, hl, metaEq_isTy, hoa', hom]
            · rw [if_neg hom]
              have hom' : val.isTy .OperatorMap = false := by simpa using hom
              rw [forIn_cons_yield _ _ _ (none, val, false, s_empty)]
              · cases rest with
                | nil =>
                  cases val <;> simp [pairOf, metaEq]
                | cons y ys =>
                  cases val with
                  | map m'' =>
                    have := ih (pre ++ [part]) m'' (by simpa using hp)
                    simpa using this
                  | ty t =>
                    simp only [List.zipIdx_cons]
                    rw [forIn_cons_done _ _ _ (some (Meta.nil, false), Meta.ty t, false, s_empty)]
                    · simp [pairOf]
                    · simp [asTable]
                  | nil =>
                    simp only [List.zipIdx_cons]
                    rw [forIn_cons_done _ _ _ (some (Meta.nil, false), Meta.nil, false, s_empty)]
                    · simp [pairOf]
                    · simp [asTable]
              · simp [asTable, tblGet, hl, metaEq_isTy, hoa', hom']
  obtain ⟨β, mk, F, K, e, h⟩ := key
  rw [e]
  exact h path [] m rfl

/-- more fuel than the path is long is enough for the model's traversal, and then the amount does not matter -/
theorem traverseFuel_enough (T : Tables) (S : Bool) : ∀ (fuel : Nat) (path : List Str) (m : MTable), path.length < fuel →
    traverseFuel T S fuel path m = traverse T S path m := by
  intro fuel
  induction fuel using Nat.strongRecOn with
  | _ fuel ih =>
    intro path m hlt
    cases fuel with
    | zero => omega
    | succ f =>
      unfold traverse
      rw [traverseFuel, traverseFuel]
      cases hs : traverseLoop T S path path m with
      | done r => rfl
      | restart p t =>
        have hp := traverseLoop_restart_shorter T S path path m p t (Nat.le_refl _) hs
        simp only []
        rw [ih f (Nat.lt_succ_self f) p t (by omega), ih path.length (by omega) p t hp]

/-- **`traverseMapPath` is the model's `traverse`**: with more fuel than the path is long the Go function returns, and returns
    the model's answer -/
theorem traverseMapPath_eq (g : Globals) (T : Tables) (S : Bool) : ∀ (fuel : Nat) (path : List Str) (m : MTable),
    path.length < fuel → traverseMapPath g T fuel path m S = some (pairOf (traverse T S path m)) := by
  intro fuel
  induction fuel with
  | zero => intro path m h; omega
  | succ f ih =>
    intro path m hlt
    rw [traverseMapPath_step, ← traverseFuel_enough T S (f + 1) path m hlt, traverseFuel]
    cases hs : traverseLoop T S path path m with
    | done r => rfl
    | restart p t =>
      have hp := traverseLoop_restart_shorter T S path path m p t (Nat.le_refl _) hs
      simp only []
      rw [ih p t (by omega), traverseFuel_enough T S f p t (by omega)]

theorem idx_last (kp : List Str) (h : kp ≠ []) : idx kp (len kp - 1) = some (lastD kp) := by
  induction kp with
  | nil => exact absurd rfl h
  | cons x xs ih =>
    cases xs with
    | nil => simp [idx, len, lastD]
    | cons y ys =>
      have := ih (by simp)
      simp only [idx, len, lastD, List.length_cons] at this ⊢
      have e1 : ((ys.length : Int) + 1 + 1 - 1).toNat = (ys.length + 1 - 1) + 1 := by omega
      have e2 : ¬ ((ys.length : Int) + 1 + 1 - 1 < 0) := by omega
      have e3 : ¬ ((ys.length : Int) + 1 - 1 < 0) := by omega
      have e4 : ((ys.length : Int) + 1 - 1).toNat = ys.length + 1 - 1 := by omega
      simp only [Int.natCast_add, Int.natCast_one] at this ⊢
      simp only [e2, e3, if_false, e1, e4, List.getElem?_cons_succ] at this ⊢
      rw [this]; simp [List.getLastD]

/-- **`getOp` is the model's `getOp`** for the non-empty key paths every call site passes -/
theorem getOp_eq (g : Globals) (T : Tables) (fuel : Nat) (kp : List Str) (S : Bool) (hne : kp ≠ []) (hf : kp.length < fuel) :
    getOp g T fuel kp S = some (pairOf (Anonymongo.getOp T kp S)) := by
  unfold getOp Anonymongo.getOp
  cases S with
  | true =>
    simp only [if_true, traverseMapPath_eq g T true fuel kp _ hf, withinSearchUserDocument_eq, idx_last kp hne, bind, Option.bind, pure]
    cases ht : traverse T true kp T.searchAgg with
    | some m' => simp [pairOf]
    | none =>
      cases hw : Anonymongo.withinSearchUserDocument kp with
      | true => simp [pairOf]
      | false =>
        cases hl : lookup (lastD kp) T.search <;> simp [pairOf, tblGet, hl]
  | false =>
    simp only [Bool.false_eq_true, if_false, traverseMapPath_eq g T false fuel kp _ hf, idx_last kp hne, bind, Option.bind, pure]
    cases hl : lookup (lastD kp) T.core with
    | some m' => simp [pairOf, tblGet, hl]
    | none =>
      cases ht : traverse T false kp T.agg <;> simp [pairOf, tblGet, hl]

end Anonymongo.Src
