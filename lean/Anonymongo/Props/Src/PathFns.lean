/-
  Props/Src/PathFns.lean — `withinSearchUserDocument`, `RemoveElementAfter`, `RemoveElementsBeforeIncluding` as translated from the
  source are the model's functions.
-/
import Anonymongo.Props.Src.Base
namespace Anonymongo.Src
open Anonymongo Anonymongo.Go

theorem wsud_nil : Anonymongo.withinSearchUserDocument [] = false := by rfl
theorem wsud_one (a : Str) : Anonymongo.withinSearchUserDocument [a] = false := by rfl
theorem wsud_two (a b : Str) : Anonymongo.withinSearchUserDocument [a, b] = false := by rfl
theorem wsud_three (a b c : Str) (r : List Str) : Anonymongo.withinSearchUserDocument (a :: b :: c :: r) =
   ((a = sMoreLikeThis && b = sLike) || Anonymongo.withinSearchUserDocument (b :: c :: r)) := by rw [Anonymongo.withinSearchUserDocument]

/-- `withinSearchUserDocument` -/
theorem withinSearchUserDocument_eq (g : Globals) (T : Tables) (kp : List Str) :
    withinSearchUserDocument g T kp = some (Anonymongo.withinSearchUserDocument kp) := by
  have key : ∃ (β : Type) (init : β) (F : Nat → β → Option (ForInStep β)) (K : β → Option Bool),
      withinSearchUserDocument g T kp = (forIn (List.range' 0 ((len kp).toNat - 0)) init F) >>= K ∧
      ∀ (pre rest : List Str), pre ++ rest = kp →
        (forIn (List.range' pre.length rest.length) init F) >>= K = some (Anonymongo.withinSearchUserDocument rest) := by
    refine ⟨_, _, _, _, rfl, ?_⟩
    intro pre rest
    induction rest generalizing pre with
    | nil => intro h; rfl
    | cons a r ih =>
      intro h
      have ih' := ih (pre ++ [a]) (by simpa using h)
      have hpl : (pre ++ [a]).length = pre.length + 1 := by simp
      rw [hpl] at ih'
      rw [List.length_cons, List.range'_succ, List.forIn_cons]
      match r with
      | [] =>
        have hk : len kp = pre.length + 1 := by simp [← h, len]
        have : ¬ ((pre.length:Int) + 2 < pre.length + 1) := by omega
        simp only [List.length_nil, List.range'_zero, List.forIn_nil, hk, this, decide_false, Bool.not_false, if_true]
        rfl
      | [b] =>
        have hk : len kp = pre.length + 2 := by simp [← h, len]
        have : ¬ ((pre.length:Int) + 2 < pre.length + 2) := by omega
        simp only [List.length_cons, List.length_nil, List.range'_succ, List.range'_zero, List.forIn_cons, List.forIn_nil, hk, this, decide_false, Bool.not_false, if_true]
        rfl
      | b :: c :: r' =>
        have hk : len kp = pre.length + (r'.length + 3) := by simp [← h, len]; omega
        have c1 : ((pre.length : Int) + 2 < len kp) := by rw [hk]; omega
        have e0 : idx kp (pre.length : Int) = some a := by rw [← h]; exact idx_append_length _ _ _
        have e1 : idx kp ((pre.length : Int) + 1) = some b := by rw [← h]; exact idx_append_length_succ _ _ _ _
        simp only [c1, decide_true, Bool.not_true, Bool.false_eq_true, if_false, e0, e1]
        rw [wsud_three]
        by_cases ha : a = sMoreLikeThis
        · by_cases hb : b = sLike
          · have h1 : (a == s_moreLikeThis) = true := by rw [ha]; rfl
            have h2 : (b == s_like) = true := by rw [hb]; rfl
            simp only [bind, Option.bind, pure, h1, h2, goAnd]
            simp [ha, hb]
          · have h1 : (a == s_moreLikeThis) = true := by rw [ha]; rfl
            have h2 : (b == s_like) = false := by
              have : ¬ (b = s_like) := hb
              simpa using this
            simp only [bind, Option.bind, pure, h1, h2, goAnd]
            simp only [hb, decide_false, Bool.and_false, Bool.false_or, Bool.false_eq_true, if_false]
            exact ih'
        · have h1 : (a == s_moreLikeThis) = false := by
            have : ¬ (a = s_moreLikeThis) := ha
            simpa using this
          simp only [bind, Option.bind, pure, h1, goAnd]
          simp only [ha, decide_false, Bool.false_and, Bool.false_or, Bool.false_eq_true, if_false]
          exact ih'
  obtain ⟨β, init, F, K, e, h⟩ := key
  rw [e]
  have := h [] kp rfl
  simpa [len] using this

/-- `RemoveElementsBeforeIncluding` -/
theorem RemoveElementsBeforeIncluding_eq (g : Globals) (T : Tables) (slice : List Str) (marker : Str) :
    RemoveElementsBeforeIncluding g T slice marker = some (removeElementsBeforeIncluding marker slice) := by
  have key : ∃ (β : Type) (init : β) (F : Str × Nat → β → Option (ForInStep β)) (K : β → Option (List Str)),
      RemoveElementsBeforeIncluding g T slice marker = (forIn slice.zipIdx init F) >>= K ∧
      ∀ pre rest, pre ++ rest = slice →
        (forIn (rest.zipIdx pre.length) init F) >>= K = some (removeElementsBeforeIncluding marker rest) := by
    refine ⟨_, _, _, _, rfl, ?_⟩
    intro pre rest
    induction rest generalizing pre with
    | nil => intro _; rfl
    | cons x xs ih =>
      intro h
      cases xs with
      | nil =>
        have hk : len slice = pre.length + 1 := by simp [← h, len]
        have : ¬ ((pre.length : Int) + 1 < pre.length + 1) := by omega
        simp only [List.zipIdx_cons, List.zipIdx_nil, List.forIn_cons, List.forIn_nil, hk, this, decide_false, Bool.and_false,
          Bool.false_eq_true, if_false]
        rfl
      | cons y ys =>
        have ih' := ih (pre ++ [x]) (by simpa using h)
        simp only [List.zipIdx_cons, List.forIn_cons]
        have hlt : ((pre.length : Int) + 1 < len slice) := by rw [← h]; simp [len]; omega
        by_cases hx : x = marker
        · subst hx
          have e : sliceFrom slice ((pre.length : Int) + 1) = some (y :: ys) := by rw [← h]; exact sliceFrom_app1 _ _ _
          simp only [beq_self_eq_true, hlt, decide_true, Bool.and_self, if_true, e]
          simp [removeElementsBeforeIncluding]
        · have hb : (x == marker) = false := by simpa using hx
          simp only [hb, Bool.false_and, Bool.false_eq_true, if_false]
          have : removeElementsBeforeIncluding marker (x :: y :: ys) = removeElementsBeforeIncluding marker (y :: ys) := by
            simp [removeElementsBeforeIncluding, hx]
          rw [this]
          simpa [List.zipIdx_cons] using ih'
  obtain ⟨β, init, F, K, e, h⟩ := key
  rw [e]; exact h [] slice rfl

/-- `RemoveElementAfter` -/
theorem RemoveElementAfter_eq (g : Globals) (T : Tables) (slice : List Str) (marker : Str) :
    RemoveElementAfter g T slice marker = some (removeElementAfter marker slice) := by
  have key : ∃ (β : Type) (init : β) (F : Str × Nat → β → Option (ForInStep β)) (K : β → Option (List Str)),
      RemoveElementAfter g T slice marker = (forIn slice.zipIdx init F) >>= K ∧
      ∀ pre rest, pre ++ rest = slice →
        ∃ r, (forIn (rest.zipIdx pre.length) init F) >>= K = some r ∧ r = pre ++ removeElementAfter marker rest := by
    refine ⟨_, _, _, _, rfl, ?_⟩
    intro pre rest
    induction rest generalizing pre with
    | nil => intro h; exact ⟨slice, rfl, by simp [← h, removeElementAfter]⟩
    | cons x xs ih =>
      intro h
      cases xs with
      | nil =>
        have hk : len slice = pre.length + 1 := by simp [← h, len]
        have : ¬ ((pre.length : Int) + 1 < pre.length + 1) := by omega
        simp only [List.zipIdx_cons, List.zipIdx_nil, List.forIn_cons, List.forIn_nil, hk, this, decide_false, Bool.and_false,
          Bool.false_eq_true, if_false]
        exact ⟨slice, rfl, by simp [← h, removeElementAfter]⟩
      | cons y ys =>
        obtain ⟨r, hr, hr2⟩ := ih (pre ++ [x]) (by simpa using h)
        simp only [List.zipIdx_cons, List.forIn_cons]
        have hlt : ((pre.length : Int) + 1 < len slice) := by rw [← h]; simp [len]; omega
        by_cases hx : x = marker
        · subst hx
          have e1 : sliceTo slice ((pre.length : Int) + 1) = some (pre ++ [x]) := by rw [← h]; exact sliceTo_app1 _ _ _
          have e2' : sliceFrom slice ((pre.length : Int) + 2) = some ys := by
            rw [← h]; exact sliceFrom_app2 pre x y ys
          simp only [beq_self_eq_true, hlt, decide_true, Bool.and_self, if_true, e1, e2']
          refine ⟨pre ++ x :: ys, ?_, by simp [removeElementAfter]⟩
          simp [bind, Option.bind, pure]
        · have hb : (x == marker) = false := by simpa using hx
          simp only [hb, Bool.false_and, Bool.false_eq_true, if_false]
          refine ⟨r, ?_, ?_⟩
          · simpa [List.zipIdx_cons] using hr
          · rw [hr2]; simp [removeElementAfter, hx]
  obtain ⟨β, init, F, K, e, h⟩ := key
  rw [e]
  obtain ⟨r, hr, hr2⟩ := h [] slice rfl
  rw [hr2] at hr; exact hr

end Anonymongo.Src
