/-
  Props/Src/Scalar.lean — the TRANSLATED `redactScalarValue` (Generated/Src.lean) is the model's `redactScalar`:
  for every non-empty key path (all call sites pass one), every JSON value, both stage kinds and both values of the
  selective flag, the Go function returns — no index out of range, no failed assertion — and returns what the model says.
  The leaf theorems of the properties (class placeholders, kept leaves, fail-closed encryption, the selective decision) are
  statements about `redactScalar`; through this theorem they are statements about the source text of `redactScalarValue`,
  `redactString`, `reMatchesAnyKeyInPath`, `getOp`, `traverseMapPath`, `IsEmail` as it is on this run.
-/
import Anonymongo.Props.Src.Path
import Anonymongo.Props.Src.Leaf
import Anonymongo.Generated.Tables
namespace Anonymongo.Src
open Anonymongo Anonymongo.Go

theorem grandParent_idx (kp : List Str) (h : 1 < kp.length) : idx kp (len kp - 2) = some (grandParent kp) := by
  have : ∃ pre a b, kp = pre ++ [a, b] := by
    induction kp with
    | nil => simp at h
    | cons x xs ih =>
      cases xs with
      | nil => simp at h
      | cons y ys =>
        cases ys with
        | nil => exact ⟨[], x, y, rfl⟩
        | cons z zs =>
          obtain ⟨pre, a, b, e⟩ := ih (by simp)
          exact ⟨x :: pre, a, b, by rw [e]; rfl⟩
  obtain ⟨pre, a, b, rfl⟩ := this
  have e : len (pre ++ [a, b]) - 2 = (pre.length : Int) := by simp [len]
  rw [e, idx_append_length]
  simp [grandParent]

theorem grandParent_short (kp : List Str) (h : ¬ 1 < kp.length) : grandParent kp = [] := by
  cases kp with
  | nil => rfl
  | cons x xs =>
    cases xs with
    | nil => rfl
    | cons y ys => simp at h

theorem dk1 : ¬ (sSubType = sDate) := by decide
theorem dk2 : ¬ (sSubType = sOid) := by decide
theorem dk3 : ¬ (sSubType = sBase64) := by decide
theorem dk4 : ¬ (sBase64 = sDate) := by decide
theorem dk5 : ¬ (sBase64 = sOid) := by decide
theorem dk6 : ¬ (sOid = sDate) := by decide

/-- closes the goals left after the case analysis of `redactScalarValue_eq`: the chain of tests on the parent key -/
macro "close_keys" pk:ident gp:ident : tactic => `(tactic|
  (by_cases h1 : $pk = sDate <;> by_cases h2 : $pk = sOid <;> by_cases h3 : $pk = sBase64 <;> by_cases h4 : $pk = sSubType <;>
    by_cases h5 : $gp = sBinary <;>
    first
    | (simp_all [dk1, dk2, dk3, dk4, dk5, dk6]; done)
    | (simp_all [dk1, dk2, dk3, dk4, dk5, dk6]; (repeat' split) <;> first | rfl | simp_all)
    | (subst_vars; simp_all [dk1, dk2, dk3, dk4, dk5, dk6]; done)
    | (subst_vars; simp_all [dk1, dk2, dk3, dk4, dk5, dk6]; (repeat' split) <;> first | rfl | simp_all)))

set_option maxHeartbeats 1600000 in
/-- **`redactScalarValue` is the model's `redactScalar`** -/
theorem redactScalarValue_eq (g : Globals) (T : Tables) (fuel : Nat) (kp : List Str) (v : J) (S sel : Bool)
    (hne : kp ≠ []) (hf : kp.length < fuel) (hph : T.emailPH = s_redacted_40redacted_2ecom) :
    redactScalarValue g T fuel kp v S sel = some (redactScalar T (absCfg g) kp v S sel) := by
  have hlen0 : ¬ (len kp = 0) := by
    cases kp with
    | nil => exact absurd rfl hne
    | cons x xs => simp [len]; omega
  have hlen0' : (len kp == (0 : Int)) = false := by simpa using hlen0
  have e1 : s__24date = sDate := rfl
  have e2 : s__24oid = sOid := rfl
  have e3 : s_base64 = sBase64 := rfl
  have e4 : s_subType = sSubType := rfl
  have e5 : s__24binary = sBinary := rfl
  unfold redactScalarValue redactScalar
  simp only [hlen0', Bool.false_eq_true, if_false, getOp_eq g T fuel kp S hne hf, idx_last kp hne,
    reMatchesAnyKeyInPath_eq, redactString_eq, IsEmail_eq, bind, Option.bind, pure, e1, e2, e3, e4, e5, ← hph]
  have hre : g.redactedFieldsRegexp = (absCfg g).re := rfl
  have hnums : g.redactNumbers = (absCfg g).nums := rfl
  have hbools : g.redactBooleans = (absCfg g).bools := rfl
  have hrepl : g.redactedString = (absCfg g).repl := rfl
  rw [hre, hnums, hbools, hrepl]
  generalize absCfg g = cfg
  -- the grandparent key: the second-to-last element, or "" for a one-element path
  have hgp : ∃ gp : Str, gp = grandParent kp ∧
      (if decide (len kp > 1) = true then idx kp (len kp - 2) else some s_empty) = some gp := by
    by_cases hgp : 1 < kp.length
    · have hd : decide (len kp > 1) = true := by simp [len]; omega
      exact ⟨_, rfl, by rw [hd, if_pos rfl]; exact grandParent_idx kp hgp⟩
    · have hd : decide (len kp > 1) = false := by simp [len]; omega
      exact ⟨_, rfl, by rw [hd, grandParent_short kp hgp]; rfl⟩
  obtain ⟨gp, hgp1, hgp2⟩ := hgp
  rw [← hgp1]
  have goAnd_pure : ∀ a b, goAnd (some a) (fun _ => some b) = some (a && b) := by intro a b; cases a <;> rfl
  have notNone : ∀ o : Option (Str → Bool), (!o.isNone) = o.isSome := by intro o; cases o <;> rfl
  have isTy?_some : ∀ (mt : Meta) (t : OpT), isTy? (some mt) t = mt.isTy t := by intro mt t; cases mt <;> rfl
  by_cases hd : decide (len kp > 1) = true
  all_goals
    simp only [hd, if_true, Bool.false_eq_true, if_false] at hgp2 ⊢
    try simp only [hgp2]
    try (rw [Option.some.inj hgp2])
    clear hgp1
    generalize lastD kp = pk
    simp only [goAnd_pure, notNone]
    generalize (!S && cfg.re.isSome && !sel && !reMatchesAny cfg.re kp) = rp
    cases hop : Anonymongo.getOp T kp S with
    | none =>
      cases rp <;> cases v <;> simp [pairOf, isTy?, asStr, assertStr, redactByKind] <;> close_keys pk gp
    | some mt =>
      simp only [pairOf, isTy?_some, metaEq_isTy]
      cases hex : mt.isTy .Exempt <;> cases rp <;> cases v <;> simp [asStr, assertStr, redactByKind] <;> close_keys pk gp

/-- the e-mail placeholder of the regenerated constants is the literal `redactScalarValue` uses -/
theorem Gen_emailPH : Generated.tables.emailPH = s_redacted_40redacted_2ecom := by decide

/-- `redactScalarValue_eq` for the tables regenerated from the binary -/
theorem redactScalarValue_eq_gen (g : Globals) (fuel : Nat) (kp : List Str) (v : J) (S sel : Bool)
    (hne : kp ≠ []) (hf : kp.length < fuel) :
    redactScalarValue g Generated.tables fuel kp v S sel = some (redactScalar Generated.tables (absCfg g) kp v S sel) :=
  redactScalarValue_eq g Generated.tables fuel kp v S sel hne hf Gen_emailPH

/-- non-vacuity: a concrete call evaluates, in the translated function itself, to the class placeholder -/
example : redactScalarValue { Globals.inert with redactedString := "X".toList } Generated.tables 5
    ["a".toList, "$oid".toList] (.str "507f1f77bcf86cd799439011".toList) false false = some (.str Generated.tables.objectId) := by
  rfl

end Anonymongo.Src
