/-
  Props/Src/Walk.lean — the TRANSLATED query walker and array walker (`redactQueryValues`, `redactArrayValuesWithKey`,
  Generated/Src.lean: one `mutual` block, recursion through a fuel argument) ARE the model's `Q` and `A` (Model/Walk.lean):
  for every document / array, every flag setting and every fuel that exceeds the key-path length plus twice the nesting
  depth, the Go functions return (no panic, the recursion ends) and return the model's tree.
-/
import Anonymongo.Props.Src.Scalar
import Anonymongo.Props.Src.Helpers
import Anonymongo.Props.Src.Hash
namespace Anonymongo.Src
open Anonymongo Anonymongo.Go

mutual
/-- nesting depth: a scalar is 0, a container one more than its deepest member -/
def depth : J → Nat
  | .arr xs => depthList xs + 1
  | .obj kvs => depthKVs kvs + 1
  | _ => 0
def depthList : List J → Nat
  | [] => 0
  | x :: xs => max (depth x) (depthList xs)
def depthKVs : List (Str × J) → Nat
  | [] => 0
  | (_, v) :: r => max (depth v) (depthKVs r)
end

theorem depth_mem_list : ∀ (xs : List J) (x : J), x ∈ xs → depth x ≤ depthList xs
  | [], _, h => by cases h
  | y :: ys, x, h => by
    rw [depthList]
    rcases List.mem_cons.mp h with rfl | h'
    · exact Nat.le_max_left _ _
    · exact Nat.le_trans (depth_mem_list ys x h') (Nat.le_max_right _ _)

theorem depth_mem_kvs : ∀ (kvs : List (Str × J)) (e : Str × J), e ∈ kvs → depth e.2 ≤ depthKVs kvs
  | [], _, h => by cases h
  | (k, v) :: r, e, h => by
    rw [depthKVs]
    rcases List.mem_cons.mp h with rfl | h'
    · exact Nat.le_max_left _ _
    · exact Nat.le_trans (depth_mem_kvs r e h') (Nat.le_max_right _ _)

/-- a loop whose body always continues on the members of the list is a fold -/
theorem forIn_yield_fold_mem {α β : Type} (f : α → β → Option (ForInStep β)) (step : β → α → β) :
    ∀ (xs : List α) (init : β), (∀ x ∈ xs, ∀ s, f x s = some (.yield (step s x))) → forIn xs init f = some (xs.foldl step init)
  | [], _, _ => rfl
  | x :: xs, init, h => by
    rw [forIn_cons_yield x xs init (step init x) f (h x (by simp) init)]
    exact forIn_yield_fold_mem f step xs (step init x) (fun y hy s => h y (by simp [hy]) s)

/-- a loop that overwrites element `i` of the slice it walks over with a function of the element is `map` -/
theorem forIn_zipIdx_setmap {α : Type} (f : α × Nat → List α → Option (ForInStep (List α))) (h : α → α) :
    ∀ (rest pre : List α),
      (∀ x ∈ rest, ∀ (pre' rest' : List α), f (x, pre'.length) (pre' ++ x :: rest') = some (.yield (pre' ++ h x :: rest'))) →
      forIn (rest.zipIdx pre.length) (pre ++ rest) f = some (pre ++ rest.map h)
  | [], pre, _ => by simp
  | x :: rest, pre, hf => by
    rw [List.zipIdx_cons, forIn_cons_yield _ _ _ (pre ++ h x :: rest) f (hf x (by simp) pre rest)]
    have e : pre ++ h x :: rest = (pre ++ [h x]) ++ rest := by simp
    rw [e]
    have := forIn_zipIdx_setmap f h rest (pre ++ [h x]) (fun y hy p r => hf y (by simp [hy]) p r)
    simpa using this

theorem setIdx_mid {α : Type} (pre : List α) (x v : α) (rest : List α) :
    setIdx (pre ++ x :: rest) (pre.length : Int) v = some (pre ++ v :: rest) := by
  unfold setIdx
  have : ¬ ((pre.length : Int) < 0 ∨ ((pre ++ x :: rest).length : Int) ≤ (pre.length : Int)) := by simp; omega
  simp; omega

/-- Go's `parentCoreOp` for the model's `pc` -/
def pcGo : Option Meta → Meta
  | some m => m
  | none => .nil

/-- a `"$…"` string as both walkers treat it: an operator name stays, anything else is pseudonymised in field-name mode -/
theorem dollar_head (s : Str) : (decide (strLen s > 0)) = !s.isEmpty := strLen_pos s

/-- the other spelling of the same test: `str != ""` -/
theorem beq_s_empty (s : Str) : (s == s_empty) = s.isEmpty := by
  cases s <;> rfl

theorem Q_cons (c : Ctx) (S : Bool) (pc : Option Meta) (kp : List Str) (k : Str) (v : J) (rest : List (Str × J)) :
    c.Q S pc kp ((k, v) :: rest) = (c.qKey (c.qOp pc k) k, c.QVal S (c.qOp pc k) k (kp ++ [k]) v) :: c.Q S pc kp rest := by
  rw [Ctx.Q]

theorem Q_eq_map (c : Ctx) (S : Bool) (pc : Option Meta) (kp : List Str) : ∀ (obj : List (Str × J)),
    c.Q S pc kp obj = obj.map (fun e => (c.qKey (c.qOp pc e.1) e.1, c.QVal S (c.qOp pc e.1) e.1 (kp ++ [e.1]) e.2))
  | [] => by rw [Ctx.Q]; rfl
  | (k, v) :: rest => by rw [Q_cons, Q_eq_map c S pc kp rest]; rfl

theorem A_eq_map (c : Ctx) (S : Bool) (pk : Str) (sel : Bool) (kp : List Str) : ∀ (arr : List J),
    c.A S pk sel kp arr = arr.map (c.AElem S pk sel kp)
  | [] => by rw [Ctx.A]; rfl
  | x :: xs => by rw [Ctx.A, A_eq_map c S pk sel kp xs]; rfl

/-- the statement proved by induction on the fuel -/
def QAClaim (g : Globals) (T : Tables) (rfn S : Bool) (fuel : Nat) : Prop :=
  (∀ (obj : List (Str × J)) (pc : Option Meta) (kp : List Str), kp.length + 2 * depthKVs obj + 2 < fuel →
      redactQueryValues g T fuel obj rfn S (pcGo pc) kp = some (fromPairs ((Ctx.mk T (absCfg g) rfn).Q S pc kp obj))) ∧
  (∀ (arr : List J) (pk : Str) (sel : Bool) (kp : List Str), kp.length + 2 * depthList arr + 2 < fuel →
      redactArrayValuesWithKey g T fuel pk arr rfn S sel kp = some ((Ctx.mk T (absCfg g) rfn).A S pk sel kp arr))

theorem dollarPrefixed_cons (c : Char) (r : Str) : dollarPrefixed (c :: r) = (c == '$') := by
  unfold dollarPrefixed
  by_cases h : c = '$'
  · subst h; rfl
  · have : (c == '$') = false := by simpa using h
    rw [this]; split
    · rename_i h2; cases h2; exact absurd rfl h
    · rfl

/-- the array walker, one level: given the claim for the fuel the recursive calls get -/
theorem A_step (g : Globals) (T : Tables) (rfn S : Bool) (fuel : Nat) (hph : T.emailPH = s_redacted_40redacted_2ecom)
    (ih : QAClaim g T rfn S fuel) (arr : List J) (pk : Str) (sel : Bool) (kp : List Str)
    (hb : kp.length + 2 * depthList arr + 2 < fuel + 1) :
    redactArrayValuesWithKey g T (fuel + 1) pk arr rfn S sel kp = some ((Ctx.mk T (absCfg g) rfn).A S pk sel kp arr) := by
  rw [redactArrayValuesWithKey, A_eq_map]
  have hz : arr.zipIdx = arr.zipIdx ([] : List J).length := rfl
  have ha : arr = [] ++ arr := rfl
  rw [hz]
  conv => lhs; arg 1; arg 2; rw [ha]
  rw [forIn_zipIdx_setmap _ ((Ctx.mk T (absCfg g) rfn).AElem S pk sel kp) arr []]
  · rfl
  · intro x hx pre' rest'
    have hd := depth_mem_list arr x hx
    cases x with
    | obj kvs =>
      have hq := ih.1 kvs none kp (by rw [depth] at hd; omega)
      simp only [pcGo] at hq
      simp only [hq, setIdx_mid, bind, Option.bind, pure]
      rw [Ctx.AElem]
    | arr ys =>
      have hq := ih.2 ys pk sel kp (by rw [depth] at hd; omega)
      simp only [hq, setIdx_mid, bind, Option.bind, pure]
      rw [Ctx.AElem]
    | null => simp [isNull, Ctx.AElem, Ctx.aElemScalar]
    | str s =>
      have h1 : ([pk] : List Str) ≠ [] := by simp
      have h2 : ([pk] : List Str).length < fuel := by simp; omega
      cases s with
      | nil =>
        simp [isNull, asStr, dollar_head, beq_s_empty, goAnd, goOr, reMatchesAnyKeyInPath_eq, redactScalarValue_eq g T fuel [pk] _ S _ h1 h2 hph,
          setIdx_mid, Ctx.AElem, Ctx.aElemScalar, dollarPrefixed, Ctx.scalar]
        cases sel <;> simp [goOr, absCfg]
      | cons ch r =>
        by_cases hc : ch = '$'
        · subst hc
          cases hl : lookup ('$' :: r) T.core <;> cases rfn <;>
            simp [isNull, asStr, dollar_head, beq_s_empty, goAnd, strByte0Is, tblGet, hl, setIdx_mid, Ctx.AElem, Ctx.aElemScalar, dollarPrefixed,
              Ctx.dollarString, Ctx.H, absCfg, HashName_eq]
        · have hb2 : (ch == '$') = false := by simpa using hc
          simp [isNull, asStr, dollar_head, beq_s_empty, goAnd, goOr, strByte0Is, hb2, reMatchesAnyKeyInPath_eq,
            redactScalarValue_eq g T fuel [pk] _ S _ h1 h2 hph, setIdx_mid, Ctx.AElem, Ctx.aElemScalar, dollarPrefixed_cons, Ctx.scalar]
          cases sel <;> simp [goOr, absCfg]
    | num l =>
      have h1 : ([pk] : List Str) ≠ [] := by simp
      have h2 : ([pk] : List Str).length < fuel := by simp; omega
      simp [isNull, asStr, goAnd, goOr, reMatchesAnyKeyInPath_eq, redactScalarValue_eq g T fuel [pk] _ S _ h1 h2 hph,
        setIdx_mid, Ctx.AElem, Ctx.aElemScalar, Ctx.scalar]
      cases sel <;> simp [goOr, absCfg]
    | bool b =>
      have h1 : ([pk] : List Str) ≠ [] := by simp
      have h2 : ([pk] : List Str).length < fuel := by simp; omega
      simp [isNull, asStr, goAnd, goOr, reMatchesAnyKeyInPath_eq, redactScalarValue_eq g T fuel [pk] _ S _ h1 h2 hph,
        setIdx_mid, Ctx.AElem, Ctx.aElemScalar, Ctx.scalar]
      cases sel <;> simp [goOr, absCfg]

theorem fromPairs_map {α β : Type} (f : α → Str × β) (xs : List α) :
    fromPairs (xs.map f) = xs.foldl (fun acc e => setKV (f e).1 (f e).2 acc) [] := by
  unfold fromPairs; rw [List.foldl_map]

/-- the query walker, one level -/
theorem Q_step (g : Globals) (T : Tables) (rfn S : Bool) (fuel : Nat) (hph : T.emailPH = s_redacted_40redacted_2ecom)
    (ih : QAClaim g T rfn S fuel) (obj : List (Str × J)) (pc : Option Meta) (kp : List Str)
    (hb : kp.length + 2 * depthKVs obj + 2 < fuel + 1) :
    redactQueryValues g T (fuel + 1) obj rfn S (pcGo pc) kp = some (fromPairs ((Ctx.mk T (absCfg g) rfn).Q S pc kp obj)) := by
  rw [redactQueryValues, Q_eq_map, fromPairs_map]
  rw [forIn_yield_fold_mem _ (fun acc (e : Str × J) => setKV ((Ctx.mk T (absCfg g) rfn).qKey ((Ctx.mk T (absCfg g) rfn).qOp pc e.1) e.1)
      ((Ctx.mk T (absCfg g) rfn).QVal S ((Ctx.mk T (absCfg g) rfn).qOp pc e.1) e.1 (kp ++ [e.1]) e.2) acc)]
  · rfl
  · intro e he acc
    obtain ⟨k, v⟩ := e
    have hd := depth_mem_kvs obj (k, v) he
    simp only at hd
    have hnkp1 : kp ++ [k] ≠ [] := by simp
    have hnkp2 : (kp ++ [k]).length < fuel := by simp; omega
    -- the rest of the body, once the operator meta `co` of the key is known (`coreOp`, `isOp` = its Go pair)
    have body : ∀ (v : J), depth v ≤ depthKVs obj → ∀ (co : Option Meta), co = (Ctx.mk T (absCfg g) rfn).qOp pc k →
        ((have newObj := acc;
          have k_1 := k;
          have newKeyPath := kp ++ [k_1];
          have jp1 := fun (_ : Unit) (isOp : Bool) (coreOp : Meta) =>
            have jp2 := fun (_ : Unit) (redactedKey : Str) =>
              match v with
              | J.obj val => do
                let __do_lift ← redactQueryValues g T fuel val rfn S coreOp newKeyPath
                have newObj : List (Str × J) := setKV redactedKey (J.obj __do_lift) newObj
                pure (ForInStep.yield newObj)
              | J.arr val_2 => do
                let __do_lift ← isRedactableFieldPatternInArray g T val_2
                have isSelectivelyRedactable : Bool := __do_lift
                let __do_lift ← redactArrayValuesWithKey g T fuel k_1 val_2 rfn S isSelectivelyRedactable newKeyPath
                have newObj : List (Str × J) := setKV redactedKey (J.arr __do_lift) newObj
                pure (ForInStep.yield newObj)
              | _ =>
                if (!isNull v) = true then
                  match asStr v with
                  | (str, ok_2) => do
                    let __do_lift ← goAnd (pure (ok_2 && decide (strLen str > 0))) fun _ => strByte0Is str '$'
                    if __do_lift = true then
                        match tblGet T.core str with
                        | (_, ok_3) =>
                          have jp3 := fun (_ : Unit) (isOp_2 : Bool) =>
                            if (rfn && !isOp_2) = true then do
                              let __do_lift ← HashName g T str
                              have newObj : List (Str × J) := setKV redactedKey (J.str __do_lift) newObj
                              pure (ForInStep.yield newObj)
                            else
                              have newObj := setKV redactedKey v newObj;
                              pure (ForInStep.yield newObj);
                          if ok_3 = true then jp3 () true else jp3 () false
                      else
                        if (!metaEq coreOp (Meta.ty OpT.Exempt)) = true then do
                          let __do_lift ← redactScalarValue g T fuel newKeyPath v S false
                          have newObj : List (Str × J) := setKV redactedKey __do_lift newObj
                          pure (ForInStep.yield newObj)
                        else
                          have newObj := setKV redactedKey v newObj;
                          pure (ForInStep.yield newObj)
                else
                  have newObj := setKV redactedKey J.null newObj;
                  pure (ForInStep.yield newObj);
            if (rfn && !isOp) = true then do
              let __do_lift ← HashName g T k_1
              jp2 () __do_lift
            else jp2 () k_1;
          jp1 () (pairOf co).2 (pairOf co).1) : Option (ForInStep (List (Str × J)))) =
        some (ForInStep.yield (setKV ((Ctx.mk T (absCfg g) rfn).qKey co k) ((Ctx.mk T (absCfg g) rfn).QVal S co k (kp ++ [k]) v) acc)) := by
      intro v hd co _
      have hkey : (Ctx.mk T (absCfg g) rfn).qKey co k = if (rfn && !(pairOf co).2) = true then hashName g.redactedString k else k := by
        cases co <;> cases rfn <;> simp [pairOf, Ctx.qKey, Ctx.H, absCfg]
      have hpg : (pairOf co).1 = pcGo (Ctx.qParent co) := by
        cases co with
        | none => rfl
        | some m => cases m <;> rfl
      rw [hkey]
      simp only [HashName_eq, bind, Option.bind]
      cases hi : (pairOf co).2 <;>
        simp only [Bool.false_eq_true, if_false, if_true, Bool.not_false, Bool.not_true, Bool.and_true, Bool.and_false, ite_self] <;>
      cases v with
      | obj val =>
        have hq := ih.1 val (Ctx.qParent co) (kp ++ [k]) (by rw [depth] at hd; simp; omega)
        simp only [hpg, hq, bind, Option.bind, pure]
        rw [Ctx.QVal]
        try (cases rfn <;> rfl)
      | arr xs =>
        have hq := ih.2 xs k ((Ctx.mk T (absCfg g) rfn).selArr xs) (kp ++ [k]) (by rw [depth] at hd; simp; omega)
        simp only [isRedactableFieldPatternInArray_eq g T rfn xs, hq, bind, Option.bind, pure]
        rw [Ctx.QVal]
        try (cases rfn <;> rfl)
      | null =>
        simp [isNull, Ctx.QVal, Ctx.qValScalar]
        try (cases rfn <;> rfl)
      | str s =>
        have hex : metaEq (pairOf co).1 (Meta.ty OpT.Exempt) = isTy? co .Exempt := by
          cases co with
          | none => rfl
          | some m => cases m <;> simp [pairOf, metaEq, isTy?]
        cases s with
        | nil =>
          cases hx : isTy? co .Exempt <;>
            simp [isNull, asStr, dollar_head, beq_s_empty, goAnd, hex, hx, redactScalarValue_eq g T fuel (kp ++ [k]) _ S _ hnkp1 hnkp2 hph,
              Ctx.QVal, Ctx.qValScalar, dollarPrefixed, Ctx.scalar] <;>
            try (cases rfn <;> rfl)
        | cons ch r =>
          by_cases hc : ch = '$'
          · subst hc
            cases hl : lookup ('$' :: r) T.core <;>
              simp [isNull, asStr, dollar_head, beq_s_empty, goAnd, strByte0Is, tblGet, hl, Ctx.QVal, Ctx.qValScalar, dollarPrefixed,
                Ctx.dollarString, Ctx.H, absCfg] <;>
              try (cases rfn <;> simp)
          · have hb2 : (ch == '$') = false := by simpa using hc
            cases hx : isTy? co .Exempt <;>
              simp [isNull, asStr, dollar_head, beq_s_empty, goAnd, strByte0Is, hb2, hex, hx,
                redactScalarValue_eq g T fuel (kp ++ [k]) _ S _ hnkp1 hnkp2 hph, Ctx.QVal, Ctx.qValScalar, dollarPrefixed_cons, Ctx.scalar] <;>
              try (cases rfn <;> rfl)
      | num l =>
        have hex : metaEq (pairOf co).1 (Meta.ty OpT.Exempt) = isTy? co .Exempt := by
          cases co with
          | none => rfl
          | some m => cases m <;> simp [pairOf, metaEq, isTy?]
        cases hx : isTy? co .Exempt <;>
          simp [isNull, asStr, goAnd, hex, hx, redactScalarValue_eq g T fuel (kp ++ [k]) _ S _ hnkp1 hnkp2 hph,
            Ctx.QVal, Ctx.qValScalar, Ctx.scalar] <;>
          try (cases rfn <;> rfl)
      | bool bb =>
        have hex : metaEq (pairOf co).1 (Meta.ty OpT.Exempt) = isTy? co .Exempt := by
          cases co with
          | none => rfl
          | some m => cases m <;> simp [pairOf, metaEq, isTy?]
        cases hx : isTy? co .Exempt <;>
          simp [isNull, asStr, goAnd, hex, hx, redactScalarValue_eq g T fuel (kp ++ [k]) _ S _ hnkp1 hnkp2 hph,
            Ctx.QVal, Ctx.qValScalar, Ctx.scalar] <;>
          try (cases rfn <;> rfl)
    have tp : ∀ (m : MTable), tblGet m k = pairOf (lookup k m) := by
      intro m; unfold tblGet pairOf; cases lookup k m <;> rfl
    cases pc with
    | none => exact body v hd (lookup k T.core) (by simp [Ctx.qOp])
    | some m =>
      cases m with
      | map pm => exact body v hd (lookup k pm) (by simp [Ctx.qOp])
      | ty t => exact body v hd (lookup k T.core) (by simp [Ctx.qOp])
      | nil => exact body v hd (lookup k T.core) (by simp [Ctx.qOp])

theorem QA_all (g : Globals) (T : Tables) (rfn S : Bool) (hph : T.emailPH = s_redacted_40redacted_2ecom) :
    ∀ fuel, QAClaim g T rfn S fuel
  | 0 => ⟨fun _ _ _ h => absurd h (by omega), fun _ _ _ _ h => absurd h (by omega)⟩
  | fuel + 1 =>
    have ih := QA_all g T rfn S hph fuel
    ⟨fun obj pc kp hb => Q_step g T rfn S fuel hph ih obj pc kp hb, fun arr pk sel kp hb => A_step g T rfn S fuel hph ih arr pk sel kp hb⟩

/-- **`redactQueryValues` is the model's query walker `Q`**: for every document, parent operator, key path and flag setting, with
    fuel beyond the key-path length plus twice the nesting depth, the Go function returns — no panic in any of the functions it
    reaches, the mutual recursion ends — and returns the document the model builds (`fromPairs` = the `Set`s on a fresh map) -/
theorem redactQueryValues_eq (g : Globals) (T : Tables) (rfn S : Bool) (hph : T.emailPH = s_redacted_40redacted_2ecom)
    (fuel : Nat) (obj : List (Str × J)) (pc : Option Meta) (kp : List Str) (hb : kp.length + 2 * depthKVs obj + 2 < fuel) :
    redactQueryValues g T fuel obj rfn S (pcGo pc) kp = some (fromPairs ((Ctx.mk T (absCfg g) rfn).Q S pc kp obj)) :=
  (QA_all g T rfn S hph fuel).1 obj pc kp hb

/-- **`redactArrayValuesWithKey` is the model's array walker `A`** -/
theorem redactArrayValuesWithKey_eq (g : Globals) (T : Tables) (rfn S : Bool) (hph : T.emailPH = s_redacted_40redacted_2ecom)
    (fuel : Nat) (arr : List J) (pk : Str) (sel : Bool) (kp : List Str) (hb : kp.length + 2 * depthList arr + 2 < fuel) :
    redactArrayValuesWithKey g T fuel pk arr rfn S sel kp = some ((Ctx.mk T (absCfg g) rfn).A S pk sel kp arr) :=
  (QA_all g T rfn S hph fuel).2 arr pk sel kp hb

/-- `redactArrayValues` (the wrapper the stage walker and `redactOperation` call): the array walker with the empty parent key -/
theorem redactArrayValues_eq (g : Globals) (T : Tables) (rfn S : Bool) (hph : T.emailPH = s_redacted_40redacted_2ecom)
    (fuel : Nat) (arr : List J) (sel : Bool) (kp : List Str) (hb : kp.length + 2 * depthList arr + 2 < fuel) :
    redactArrayValues g T fuel arr rfn S sel kp = some ((Ctx.mk T (absCfg g) rfn).A S [] sel kp arr) := by
  unfold redactArrayValues
  have : s_empty = ([] : Str) := rfl
  simp only [this, redactArrayValuesWithKey_eq g T rfn S hph fuel arr [] sel kp hb, bind, Option.bind, pure]

/-- the same for the tables regenerated from the binary -/
theorem redactQueryValues_eq_gen (g : Globals) (rfn S : Bool) (fuel : Nat) (obj : List (Str × J)) (pc : Option Meta) (kp : List Str)
    (hb : kp.length + 2 * depthKVs obj + 2 < fuel) :
    redactQueryValues g Generated.tables fuel obj rfn S (pcGo pc) kp =
      some (fromPairs ((Ctx.mk Generated.tables (absCfg g) rfn).Q S pc kp obj)) :=
  redactQueryValues_eq g Generated.tables rfn S Gen_emailPH fuel obj pc kp hb

/-- non-vacuity: a filter with a nested document, an array and a reference, through the translated functions themselves -/
example : redactQueryValues { Globals.inert with redactedString := "X".toList, redactNumbers := true } Generated.tables 9
    [("a".toList, .obj [("$gt".toList, .num "5".toList)]), ("b".toList, .arr [.str "s".toList, .str "$c".toList, .null])] false false Meta.nil [] =
    some [("a".toList, .obj [("$gt".toList, .num "0".toList)]), ("b".toList, .arr [.str "X".toList, .str "$c".toList, .null])] := by
  rfl

end Anonymongo.Src
