/-
  Props/SrcFacts.lean — obligations that tie the hand-written line model to facts REGENERATED from
  the Go source on every run (Generated/Facts.lean, produced by tools/extract with go/ast).
  If the source drops a dispatch key, renames a gate literal, re-wires a flag or uses the Atlas
  private key in a new way, one of these `decide`d statements stops checking.
-/
import Anonymongo.Generated.Facts
import Anonymongo.Model.Line
namespace Anonymongo
open Generated

def sameSet {α} [BEq α] (a b : List α) : Bool := a.all b.contains && b.all a.contains

def fnQV : Str := "redactQueryValues".toList
def fnAV : Str := "redactArrayValues".toList
def fnPS : Str := "redactPipelineStage".toList

/-- the dispatch of `redactOperation` as Model/Line.lean (`cmdVal`) has it -/
def modelDispatch : List (Str × List Str × Str) :=
  qKeysObj.map (fun k => (k, [fnQV], [])) ++
  uKeysObjOrArr.map (fun k => (k, [fnAV, fnQV], [])) ++
  aKeysArr.map (fun k => (k, [fnAV], [])) ++
  [(sDocument, [fnQV], sInsert), (sDocuments, [fnAV], sInsert), (sPipeline, [fnPS], [])]

/-- **the model's dispatch is the source's dispatch**: same keys, same walkers, same guard -/
theorem Facts_dispatch : sameSet Facts.dispatch modelDispatch = true := by decide +kernel

/-- operations one level down, as `Ctx.cmdEntry` / `zoneState` have them: `explain` (always) and `ops`
    (in a `bulkWrite`) are handed to `redactOperation`; the command itself unconditionally (the
    translator refuses to run otherwise) -/
theorem Facts_nested_ops : sameSet Facts.nestedOps
    [(sExplain, ["redactOperation".toList], []), (sOps, ["redactOperation".toList], sBulkWrite)] = true := by decide +kernel

/-- the three command attributes -/
theorem Facts_cmdKeys : sameSet Facts.attrCmdKeys cmdKeys = true := by decide +kernel

/-- the line gate -/
theorem Facts_gate : (Facts.gateComponents == gateComponents) = true ∧ (Facts.gateMessages == [sSlowQuery]) = true := by
  decide +kernel

/-- the only things the code does with the Atlas private key: receive it as a parameter, declare / bind
    it to its flag, copy it between the flag variable, the environment fallback and the local, test it
    for emptiness, pass it on to the three Atlas functions, and put it into `digest.Transport.Password` -/
def allowedPrivKinds : List Str :=
  ["param", "declaration", "flagBinding", "assign", "emptyTest", "passThrough", "digestPassword"].map String.toList

theorem Facts_priv : (Facts.privUses.all fun u => allowedPrivKinds.contains u.1) = true ∧
    (Facts.privUses.any fun u => u.1 == "digestPassword".toList) = true := by decide +kernel

/-- flag → variable → setter wiring of the value-redaction options: every setter is called
    unconditionally (nesting depth 0) with the variable its flag is bound to -/
def expectedWiring : List (String × String × String × String) := [
  ("replacement", "r", "replacement", "SetRedactedString"),
  ("redactNumbers", "n", "redactNumbers", "SetRedactNumbers"),
  ("redactBooleans", "b", "redactBooleans", "SetRedactBooleans"),
  ("redactIPs", "i", "redactIPs", "SetRedactIPs"),
  ("redactNamespaces", "w", "redactNamespaces", "SetRedactNamespaces"),
  ("redactFieldNames", "f", "eagerRedactionPaths", "SetEagerRedactionPaths"),
  ("redactFieldsRegexp", "z", "redactedFieldsRegexp", "SetRedactedFieldsRegexp"),
  ("atlasLogStartDate", "s", "atlasLogStartDate", "SetAtlasLogStartDate"),
  ("atlasLogEndDate", "e", "atlasLogEndDate", "SetAtlasLogEndDate")]

theorem Facts_wiring : (expectedWiring.all fun w =>
    Facts.flags.contains (w.1.toList, w.2.1.toList, w.2.2.1.toList) &&
    Facts.setters.contains (w.2.2.2.toList, w.2.2.1.toList, 0)) = true := by decide +kernel

/-! ### program state: the model treats every function on the redaction path as a pure function of
    (line, configuration).  The source facts below are what that rests on: the package-level variables
    are the operator tables, three compiled regular expressions, the option variables and one
    write-only side table; option variables are written by their setters only; nothing else is ever
    assigned, and no `init` function runs before the flags are parsed. -/

def expectedGlobals : List String := [
  "AggregationOperators", "CoreOperators", "OperatorMapDefs", "RedactedFieldMapping", "SearchAggregationOperators",
  "SearchOperators", "TopLevelSearchOperators", "atlasLogEndDate", "atlasLogStartDate", "defaultLogDuration",
  "eagerRedactionPaths", "emailRegex", "encryptionKey", "geoJSON", "ixscanRegex", "redactBooleans", "redactIPs",
  "redactNamespaces", "redactNumbers", "redactedFieldsRegexp", "redactedString", "shouldEncrypt", "version"]

/-- **no state beyond the known variables**: a cache, memo table, counter or reusable buffer at package
    level would be a new name here -/
theorem Facts_globals : sameSet Facts.globals (expectedGlobals.map String.toList) = true := by decide +kernel

/-- methods that only read their receiver (ordered-map lookup, regular-expression matching) -/
def readOnlyMethods : List String :=
  ["method:Get", "method:MatchString", "method:FindAllStringSubmatch", "method:ReplaceAllStringFunc"]

def expectedWriters : List (String × String) := [
  ("redactedString", "SetRedactedString"), ("redactNumbers", "SetRedactNumbers"), ("redactBooleans", "SetRedactBooleans"),
  ("redactIPs", "SetRedactIPs"), ("redactNamespaces", "SetRedactNamespaces"), ("eagerRedactionPaths", "SetEagerRedactionPaths"),
  ("redactedFieldsRegexp", "SetRedactedFieldsRegexp"), ("encryptionKey", "SetEncryptionKey"), ("shouldEncrypt", "SetShouldEncrypt"),
  ("atlasLogStartDate", "SetAtlasLogStartDate"), ("atlasLogEndDate", "SetAtlasLogEndDate"),
  ("atlasLogStartDate", "GetStartAndEndDates"), ("atlasLogEndDate", "GetStartAndEndDates"),
  ("RedactedFieldMapping", "HashName"), ("version", "main")]

/-- **who may change what**: every assignment to (or address-taking / mutating call on) a package-level
    variable is one of the listed (variable, function) pairs: each option variable is written by its own
    setter and by nothing else (in particular no setter writes a second option), the operator tables
    and regular expressions are only read, the side table is written by `HashName` only -/
theorem Facts_writes : (Facts.globalWrites.all fun w =>
    (readOnlyMethods.map String.toList).contains w.2.2 ||
      (w.2.2 == "assign".toList && (expectedWriters.map fun p => (p.1.toList, p.2.toList)).contains (w.1, w.2.1))) = true := by
  decide +kernel

/-- the pseudonym side table is write-only: its single occurrence in the whole program is the
    assignment inside `HashName` (so a pseudonym cannot depend on earlier calls) -/
theorem Facts_mapping_write_only :
    (Facts.globalRefs.filter fun r => r.1 == "RedactedFieldMapping".toList) = [("RedactedFieldMapping".toList, "HashName".toList, 1)] := by
  decide +kernel

/-- no `init` function; the only package-level initialisers that call functions build the operator tables -/
theorem Facts_inits : (Facts.inits.all fun i => i.take 17 == "operators.go:var ".toList) = true := by decide +kernel

/-- **configuration footprint**: which function reads which option variable / table — the dependencies the
    model gives the corresponding definitions (`redactScalar` reads numbers/booleans/regexp/replacement,
    `redactString` the key and the encrypt switch, `RedactMongoLog` IPs/namespaces/eager paths,
    `HashName` the replacement, …) -/
def expectedFootprint : List (String × String) := [
  ("AggregationOperators", "<package initialiser operators.go>"), ("AggregationOperators", "getOp"),
  ("CoreOperators", "getOp"), ("CoreOperators", "redactArrayValuesWithKey"), ("CoreOperators", "redactPipelineStage"),
  ("CoreOperators", "redactQueryValues"), ("CoreOperators", "traverseMapPath"), ("OperatorMapDefs", "traverseMapPath"),
  ("RedactedFieldMapping", "HashName"), ("SearchAggregationOperators", "getOp"),
  ("SearchOperators", "<package initialiser operators.go>"), ("SearchOperators", "getOp"), ("SearchOperators", "traverseMapPath"),
  ("TopLevelSearchOperators", "isInSearchStage"),
  ("atlasLogEndDate", "GetStartAndEndDates"), ("atlasLogEndDate", "SetAtlasLogEndDate"),
  ("atlasLogStartDate", "GetStartAndEndDates"), ("atlasLogStartDate", "SetAtlasLogStartDate"),
  ("defaultLogDuration", "GetStartAndEndDates"),
  ("eagerRedactionPaths", "RedactMongoLog"), ("eagerRedactionPaths", "SetEagerRedactionPaths"),
  ("emailRegex", "IsEmail"), ("encryptionKey", "SetEncryptionKey"), ("encryptionKey", "redactString"),
  ("geoJSON", "<package initialiser operators.go>"),
  ("ixscanRegex", "ParsePlanSummary"), ("ixscanRegex", "redactFieldNamesFromPlanSummary"),
  ("redactBooleans", "SetRedactBooleans"), ("redactBooleans", "redactScalarValue"),
  ("redactIPs", "RedactMongoLog"), ("redactIPs", "SetRedactIPs"),
  ("redactNamespaces", "RedactMongoLog"), ("redactNamespaces", "SetRedactNamespaces"), ("redactNamespaces", "redactPipelineStage"),
  ("redactNumbers", "SetRedactNumbers"), ("redactNumbers", "redactScalarValue"),
  ("redactedFieldsRegexp", "SetRedactedFieldsRegexp"), ("redactedFieldsRegexp", "augmentOp"),
  ("redactedFieldsRegexp", "isRedactableFieldPatternInArray"), ("redactedFieldsRegexp", "redactArrayValuesWithKey"),
  ("redactedFieldsRegexp", "redactScalarValue"),
  ("redactedString", "HashName"), ("redactedString", "SetRedactedString"), ("redactedString", "redactScalarValue"),
  ("shouldEncrypt", "SetShouldEncrypt"), ("shouldEncrypt", "redactString"), ("version", "main")]

theorem Facts_footprint :
    sameSet (Facts.globalRefs.map fun r => (r.1, r.2.1)) (expectedFootprint.map fun p => (p.1.toList, p.2.toList)) = true := by
  decide +kernel

/-! ### the shape of the Atlas requests and of the per-host file names (C16, C20) -/

/-- the two request templates (cluster description; one host's log for a window: `endDate` / `startDate` as given), the
    literal request headers, the temporary-file pattern and the `<outputFile>.<i>` pattern — and nothing else: in particular
    no `Authorization` / key-bearing header is set by the repository's own code and no `SetBasicAuth` call exists -/
def expectedAtlasLits : List (String × String × String) := [
  ("sprintf", "getAtlasClusterInfo", "%s/api/atlas/v2/groups/%s/clusters/%s"),
  ("header", "getAtlasClusterInfo", "Accept: application/vnd.atlas.2025-03-12+json"),
  ("sprintf", "downloadClusterLogsForHost", "%s/api/atlas/v2/groups/%s/clusters/%s/logs/mongodb.gz?endDate=%d&startDate=%d"),
  ("header", "downloadClusterLogsForHost", "Accept: application/vnd.atlas.2023-02-01+gzip"),
  ("header", "downloadClusterLogsForHost", "Content-Type: application/gzip"),
  ("sprintf", "downloadClusterLogsForHost", "mongod_%s_%d_%d_*.log.gz"),
  ("sprintf", "main", "%s.%d")]

theorem Facts_atlas_requests :
    (Facts.atlasLits == expectedAtlasLits.map fun p => (p.1.toList, p.2.1.toList, p.2.2.toList)) = true := by
  decide +kernel

end Anonymongo
