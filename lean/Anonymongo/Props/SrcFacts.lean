/-
  Props/SrcFacts.lean — obligations that tie the hand-written line model to facts REGENERATED from
  the Go source on every run (Generated/Facts.lean, produced by tools/extract with go/ast).
  If the source drops a dispatch key, renames a gate literal, re-wires a flag or uses the Atlas
  private key in a new way, one of these `decide`d statements stops checking.
-/
import Anonymongo.Generated.Facts
import Anonymongo.Model.Line
namespace Anonymongo
open Generated

def sameSet {α} [BEq α] (a b : List α) : Bool := a.all b.contains && b.all a.contains

def fnQV : Str := "redactQueryValues".toList
def fnAV : Str := "redactArrayValues".toList
def fnPS : Str := "redactPipelineStage".toList

/-- the dispatch of `redactCommand` as Model/Line.lean (`cmdVal`) has it -/
def modelDispatch : List (Str × List Str × Str) :=
  qKeysObj.map (fun k => (k, [fnQV], [])) ++
  uKeysObjOrArr.map (fun k => (k, [fnAV, fnQV], [])) ++
  aKeysArr.map (fun k => (k, [fnAV], [])) ++
  [(sDocuments, [fnAV], sInsert), (sPipeline, [fnPS], [])]

/-- **the model's dispatch is the source's dispatch**: same keys, same walkers, same guard -/
theorem Facts_dispatch : sameSet Facts.dispatch modelDispatch = true := by decide +kernel

/-- the three command attributes -/
theorem Facts_cmdKeys : sameSet Facts.attrCmdKeys cmdKeys = true := by decide +kernel

/-- the line gate -/
theorem Facts_gate : (Facts.gateComponents == gateComponents) = true ∧ (Facts.gateMessages == [sSlowQuery]) = true := by
  decide +kernel

/-- the only things the code does with the Atlas private key: receive it as a parameter, declare / bind
    it to its flag, copy it between the flag variable, the environment fallback and the local, test it
    for emptiness, pass it on to the three Atlas functions, and put it into `digest.Transport.Password` -/
def allowedPrivKinds : List Str :=
  ["param", "declaration", "flagBinding", "assign", "emptyTest", "passThrough", "digestPassword"].map String.toList

theorem Facts_priv : (Facts.privUses.all fun u => allowedPrivKinds.contains u.1) = true ∧
    (Facts.privUses.any fun u => u.1 == "digestPassword".toList) = true := by decide +kernel

/-- flag → variable → setter wiring of the value-redaction options: every setter is called
    unconditionally (nesting depth 0) with the variable its flag is bound to -/
def expectedWiring : List (String × String × String × String) := [
  ("replacement", "r", "replacement", "SetRedactedString"),
  ("redactNumbers", "n", "redactNumbers", "SetRedactNumbers"),
  ("redactBooleans", "b", "redactBooleans", "SetRedactBooleans"),
  ("redactIPs", "i", "redactIPs", "SetRedactIPs"),
  ("redactNamespaces", "w", "redactNamespaces", "SetRedactNamespaces"),
  ("redactFieldNames", "f", "eagerRedactionPaths", "SetEagerRedactionPaths"),
  ("redactFieldsRegexp", "z", "redactedFieldsRegexp", "SetRedactedFieldsRegexp"),
  ("atlasLogStartDate", "s", "atlasLogStartDate", "SetAtlasLogStartDate"),
  ("atlasLogEndDate", "e", "atlasLogEndDate", "SetAtlasLogEndDate")]

theorem Facts_wiring : (expectedWiring.all fun w =>
    Facts.flags.contains (w.1.toList, w.2.1.toList, w.2.2.1.toList) &&
    Facts.setters.contains (w.2.2.2.toList, w.2.2.1.toList, 0)) = true := by decide +kernel

end Anonymongo
