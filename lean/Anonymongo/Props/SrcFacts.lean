/-
  Props/SrcFacts.lean — umbrella over the source-fact obligations (Props/Facts/*): statements that tie the
  hand-written model to facts REGENERATED from the Go source on every run (Generated/Facts.lean, produced by
  tools/extract with go/ast).  One module per obligation: if the source drops a dispatch key, renames a gate
  literal, re-wires a flag or uses the Atlas private key in a new way, that obligation's module stops
  building and only the properties that list it are affected.
-/
import Anonymongo.Props.Facts.Dispatch
import Anonymongo.Props.Facts.CmdKeys
import Anonymongo.Props.Facts.Gate
import Anonymongo.Props.Facts.Priv
import Anonymongo.Props.Facts.Wiring
import Anonymongo.Props.Facts.Globals
import Anonymongo.Props.Facts.Writes
import Anonymongo.Props.Facts.Mapping
import Anonymongo.Props.Facts.Inits
import Anonymongo.Props.Facts.Footprint
import Anonymongo.Props.Facts.AtlasReq
import Anonymongo.Props.Facts.Vocabulary
import Anonymongo.Props.Facts.Regex
import Anonymongo.Props.Facts.Cleanup
