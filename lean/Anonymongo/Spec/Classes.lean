/-
  Spec/Classes.lean — the lexical classes of a leaf (C02, C05, C19): which class a scalar belongs
  to given the last two keys of the path it is redacted under, and the placeholder of each class.
-/
import Anonymongo.Model.Scalar
namespace Anonymongo

/-- the lexical class of a leaf: from the last two keys of its path and its JSON type -/
inductive LeafClass where
  | date | oid | b64 | subType | email | string | number | bool | null | container
  deriving DecidableEq, Repr

def classOf (kp : List Str) (v : J) : LeafClass :=
  match v with
  | .str s =>
    if lastD kp = sDate then .date
    else if lastD kp = sOid then .oid
    else if lastD kp = sBase64 && grandParent kp = sBinary then .b64
    else if lastD kp = sSubType && grandParent kp = sBinary then .subType
    else if isEmail s then .email else .string
  | .num _ => if lastD kp = sSubType && grandParent kp = sBinary then .subType else .number
  | .bool _ => if lastD kp = sSubType && grandParent kp = sBinary then .subType else .bool
  | .null => if lastD kp = sSubType && grandParent kp = sBinary then .subType else .null
  | _ => if lastD kp = sSubType && grandParent kp = sBinary then .subType else .container

/-- the placeholder of a class in placeholder mode -/
def placeholderOf (T : Tables) (cfg : Cfg) (v : J) : LeafClass → J
  | .date => .str T.isoDate
  | .oid => .str T.objectId
  | .b64 => .str T.uuid
  | .subType => v
  | .email => .str T.emailPH
  | .string => .str cfg.repl
  | .number => if cfg.nums then .num T.number else v
  | .bool => if cfg.bools then .bool T.boolean else v
  | .null => .null
  | .container => .str cfg.repl

/-- whether `redactScalarValue` hands the value back because of the key path alone -/
def keptByPath (T : Tables) (cfg : Cfg) (kp : List Str) (S sel : Bool) : Bool :=
  isTy? (getOp T kp S) .Exempt || (!S && cfg.re.isSome && !sel && !reMatchesAny cfg.re kp)

/-- the classes whose members are secret under the given flags (what placeholder mode replaces) -/
def secretClass (cfg : Cfg) : LeafClass → Bool
  | .date => true
  | .oid => true
  | .b64 => true
  | .email => true
  | .string => true
  | .number => cfg.nums
  | .bool => cfg.bools
  | _ => false

end Anonymongo
