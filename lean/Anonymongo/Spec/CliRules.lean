/-
  Spec/CliRules.lean — the rule table for the `redact` command, written from README section 2.1 and
  the statement of property C18, independently of src/main.go:
   * exactly one input source among {file argument, piped stdin, Atlas};  "Atlas requested" =
     any of the six Atlas flags is given (keys in the environment alone do not request it);
   * Atlas mode needs project id AND cluster name, an output file and an API key pair
     (each key from its flag or, failing that, from the environment);
   * start and end dates are given together or not at all;
   * --encrypt cannot be used with stdin or stdout (README "Limitations");
   * --redactFieldsRegexp and --redactFieldNames exclude each other.
-/
import Anonymongo.Model.Cli
namespace Anonymongo.Cli.Spec

def atlasRequested (f : Flags) : Bool := f.project || f.cluster || f.pub || f.priv || f.start || f.end_

def sources (f : Flags) : Nat :=
  (if f.file then 1 else 0) + (if f.stdin then 1 else 0) + (if atlasRequested f then 1 else 0)

def wellDefined (f : Flags) : Bool :=
  sources f == 1 &&
  (!atlasRequested f || (f.project && f.cluster && f.out && (f.pub || f.env) && (f.priv || f.env))) &&
  (f.start == f.end_) &&
  (!f.encrypt || (!f.stdin && f.out)) &&
  !(f.regexp && f.fieldNames)

/-- side effects a rejected job may have: a message on stderr and exit status 1, nothing else -/
def cleanRejection (es : List Effect) : Bool := es.all fun e => e == .stderrMsg || e == .exit1

end Anonymongo.Cli.Spec
