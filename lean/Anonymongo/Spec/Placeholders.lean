/-
  Spec/Placeholders.lean — what it means for a placeholder to be a valid member of its class
  (independent recognisers, `List Char` so that `decide` evaluates them in the kernel).
-/
import Anonymongo.Model.Email
namespace Anonymongo.Spec

def isDig (c : Char) : Bool := '0' ≤ c && c ≤ '9'

/-- `YYYY-MM-DDTHH:MM:SS.mmmZ` with in-range fields (an ISO-8601 / RFC 3339 instant) -/
def isISOInstant (s : Str) : Bool :=
  match s with
  | [y1, y2, y3, y4, '-', m1, m2, '-', d1, d2, 'T', h1, h2, ':', n1, n2, ':', s1, s2, '.', f1, f2, f3, 'Z'] =>
    [y1, y2, y3, y4, m1, m2, d1, d2, h1, h2, n1, n2, s1, s2, f1, f2, f3].all isDig &&
    (let num (a b : Char) := (a.toNat - 48) * 10 + (b.toNat - 48)
     1 ≤ num m1 m2 && num m1 m2 ≤ 12 && 1 ≤ num d1 d2 && num d1 d2 ≤ 31 &&
     num h1 h2 ≤ 23 && num n1 n2 ≤ 59 && num s1 s2 ≤ 59)
  | _ => false

def isHexDigit (c : Char) : Bool := isDig c || ('a' ≤ c && c ≤ 'f') || ('A' ≤ c && c ≤ 'F')

/-- an ObjectId: exactly 24 hex digits -/
def isObjectId (s : Str) : Bool := s.length == 24 && s.all isHexDigit

def b64Val (c : Char) : Option Nat :=
  if 'A' ≤ c && c ≤ 'Z' then some (c.toNat - 65)
  else if 'a' ≤ c && c ≤ 'z' then some (c.toNat - 71)
  else if '0' ≤ c && c ≤ '9' then some (c.toNat + 4)
  else if c = '+' then some 62
  else if c = '/' then some 63
  else none

/-- canonical RFC 4648 base64 with padding (what Go's StdEncoding.DecodeString accepts in strict
    form): groups of four; `xx==` needs the low 4 bits of the 2nd symbol zero, `xxx=` the low 2 bits
    of the 3rd -/
def isBase64 : Str → Bool
  | [] => true
  | [a, b, '=', '='] => (b64Val a).isSome && (match b64Val b with | some v => v % 16 == 0 | none => false)
  | [a, b, c, '='] => (b64Val a).isSome && (b64Val b).isSome && (match b64Val c with | some v => v % 4 == 0 | none => false)
  | a :: b :: c :: d :: rest =>
    (b64Val a).isSome && (b64Val b).isSome && (b64Val c).isSome && (b64Val d).isSome && isBase64 rest
  | _ => false

end Anonymongo.Spec
