/-
  Spec/Shape.lean — what "the same JSON shape" means (C03): same keys in the same order,
  same array lengths, every leaf keeps its JSON type.  Decidable, by mutual recursion.
-/
import Anonymongo.Lemmas.Basic
namespace Anonymongo

mutual
def shapeEq : J → J → Bool
  | .null, .null => true
  | .bool _, .bool _ => true
  | .num _, .num _ => true
  | .str _, .str _ => true
  | .arr a, .arr b => shapeEqList a b
  | .obj a, .obj b => shapeEqKVs a b
  | _, _ => false
def shapeEqList : List J → List J → Bool
  | [], [] => true
  | x :: xs, y :: ys => shapeEq x y && shapeEqList xs ys
  | _, _ => false
def shapeEqKVs : List (Str × J) → List (Str × J) → Bool
  | [], [] => true
  | (k, x) :: xs, (k', y) :: ys => k == k' && shapeEq x y && shapeEqKVs xs ys
  | _, _ => false
end

mutual
/-- no object anywhere in the tree has two members with the same key -/
def J.nodup : J → Bool
  | .obj kvs => nodupKeys (keysOf kvs) && nodupKVs kvs
  | .arr xs => nodupList xs
  | _ => true
def nodupList : List J → Bool
  | [] => true
  | x :: xs => x.nodup && nodupList xs
def nodupKVs : List (Str × J) → Bool
  | [] => true
  | (_, v) :: rest => v.nodup && nodupKVs rest
end

mutual
theorem shapeEq_refl : ∀ v, shapeEq v v = true
  | .null => by simp [shapeEq]
  | .bool _ => by simp [shapeEq]
  | .num _ => by simp [shapeEq]
  | .str _ => by simp [shapeEq]
  | .arr xs => by simp [shapeEq, shapeEqList_refl xs]
  | .obj kvs => by simp [shapeEq, shapeEqKVs_refl kvs]
theorem shapeEqList_refl : ∀ xs, shapeEqList xs xs = true
  | [] => by simp [shapeEqList]
  | x :: xs => by simp [shapeEqList, shapeEq_refl x, shapeEqList_refl xs]
theorem shapeEqKVs_refl : ∀ kvs, shapeEqKVs kvs kvs = true
  | [] => by simp [shapeEqKVs]
  | (k, v) :: rest => by simp [shapeEqKVs, shapeEq_refl v, shapeEqKVs_refl rest]
end

end Anonymongo
