/-
  Spec/Whitelist.lean — which operator arguments may be classified "not user data" (C01, C04).

  Written from the statement of property C01 ("field-path references and operational parameters
  that are not user data: index names, limits, output-field names, enumerated keywords, BSON binary
  subtype") and the MongoDB / Atlas Search stage reference — NOT from src/operators.go.
  A table entry may carry one of the four value-keeping classifications
     Exempt (copied verbatim) · FieldName (a field path, copied / pseudonymised)
     Namespace (a collection or database name) · Pipeline (a sub-pipeline; a plain string there is an
     enumerated keyword such as whenMatched:"merge")
  only if `allowed` says so for its path.  Every other entry must be Redactable / a sub-table /
  OperatorArray / OperatorMap / nil, all of which send scalars to `redactScalarValue`.
-/
import Anonymongo.Model.Tables
namespace Anonymongo.Spec

def S (s : String) : Str := s.toList

/-- core / aggregation tables: exact paths -/
def aggExempt : List (List Str) := [
  [S "$binary", S "subType"],                      -- BSON binary subtype
  [S "$limit"], [S "$skip"], [S "$sample"],        -- limits / sizes
  [S "$densify", S "range", S "step"], [S "$densify", S "range", S "units"],   -- step is a number, units an enumerated keyword
  [S "$lookup", S "as"],                           -- output-field name
  [S "$merge", S "whenNotMatched"],                -- enumerated keyword
  [S "$out", S "timeseries"],                      -- timeField / metaField names, granularity keyword
  [S "$planCacheStats"], [S "$querySettings"], [S "$queryStats"], [S "$shardedDataDistribution"]]  -- diagnostic stages

def aggFieldName : List (List Str) := [
  [S "$bucket", S "groupBy"], [S "$count"], [S "$densify", S "field"],
  [S "$fill", S "partitionByFields"], [S "$fill", S "sortBy"], [S "$geoNear", S "distanceField"],
  [S "$graphLookup", S "connectFromField"], [S "$graphLookup", S "connectToField"], [S "$graphLookup", S "depthField"],
  [S "$replaceRoot", S "newRoot"], [S "$setWindowFields", S "sortBy"], [S "$sortByCount"], [S "$unset"], [S "$unwind"]]

def aggNamespace : List (List Str) := [
  [S "$graphLookup", S "from"], [S "$lookup", S "from"], [S "$merge", S "into"],
  [S "$out", S "db"], [S "$out", S "coll"], [S "$unionWith", S "coll"]]

def aggPipeline : List (List Str) := [
  [S "$facet"], [S "$lookup", S "pipeline"], [S "$merge", S "whenMatched"], [S "$unionWith", S "pipeline"]]

/-- Atlas Search / vector search: by the name of the option (its last path component) -/
def searchExemptNames : List Str := [
  S "score", S "fuzzy", S "tokenOrder", S "minimumShouldMatch", S "relation", S "type", S "slop",
  S "allowAnalyzedField", S "spanToReturn", S "inOrder", S "matchCriteria", S "numBuckets",
  S "index", S "maxCharsToExamine", S "maxNumPassages", S "concurrent", S "threshold", S "scoreDetails",
  S "returnStoredSource", S "exact", S "limit", S "numCandidates"]

def searchFieldNames : List Str := [S "path", S "defaultPath", S "sort", S "combination"]

def searchPipeline : List (List Str) := [[S "$rankFusion", S "input", S "pipelines"]]

inductive TableId where
  | core | agg | search | searchAgg | opMapDefs
  deriving DecidableEq, Repr

def allowed (tb : TableId) (path : List Str) (t : OpT) : Bool :=
  match tb with
  | .core | .agg =>
    (match t with
     | .Exempt => aggExempt.contains path
     | .FieldName => aggFieldName.contains path
     | .Namespace => aggNamespace.contains path
     | .Pipeline => aggPipeline.contains path
     | _ => true)
  | _ =>
    (match t with
     | .Exempt => searchExemptNames.contains (path.getLastD [])
     | .FieldName => searchFieldNames.contains (path.getLastD [])
     | .Namespace => false
     | .Pipeline => searchPipeline.contains path
     | _ => true)

mutual
/-- every typed entry of a table, with its path -/
def entries (pre : List Str) : MTable → List (List Str × OpT)
  | [] => []
  | (k, m) :: rest => entriesMeta (pre ++ [k]) m ++ entries pre rest
def entriesMeta (path : List Str) : Meta → List (List Str × OpT)
  | .ty t => [(path, t)]
  | .map kvs => entries path kvs
  | .nil => []
end

def tableOK (tb : TableId) (m : MTable) : Bool := (entries [] m).all fun (p, t) => allowed tb p t

/-- the keys of a command document that carry client-supplied query / update / delete / insert /
    pipeline content (statement of C01) -/
def zoneKeys : List Str := [S "query", S "filter", S "q", S "update", S "u", S "updates", S "deletes",
  S "documents", S "pipeline", S "arrayFilters"]

/-- keys under which a whole operation (with zone keys of its own) sits one level down: the command
    wrapped by `explain`, the elements of `ops` in a `bulkWrite`; and the two zone keys only bulkWrite
    operations use -/
def nestedOperationKeys : List Str := [S "explain", S "ops"]
def bulkZoneKeys : List Str := [S "updateMods", S "document"]

/-- the attributes holding a command document: the command, its originating command, and the command
    copy attached to an error report -/
def commandAttrs : List Str := [S "command", S "originatingCommand", S "cmd"]

end Anonymongo.Spec
