/-
  Driver.lean — line-protocol executor of the model (core Lean only, so it links as a lean_exe).
  Same operations and the same answer format as the Go harness (/verif/harness/harness.go).
-/
import Anonymongo.Model.Plan
import Anonymongo.Model.Stream
import Anonymongo.Model.Cli
import Anonymongo.Model.Siv
import Anonymongo.Model.Base64
import Anonymongo.Generated.Tables
open Anonymongo

def T : Tables := Anonymongo.Generated.tables

def hexNib (c : Char) : Nat :=
  if '0' ≤ c && c ≤ '9' then c.toNat - 48
  else if 'a' ≤ c && c ≤ 'f' then c.toNat - 87
  else if 'A' ≤ c && c ≤ 'F' then c.toNat - 55 else 0

def unhexBytes (s : String) : Bytes :=
  let rec go : List Char → Bytes
    | a :: b :: rest => (hexNib a * 16 + hexNib b).toUInt8 :: go rest
    | _ => []
  go s.toList

def decodeUtf8 : Nat → Bytes → Str
  | 0, _ => []
  | _ + 1, [] => []
  | fuel + 1, b :: rest => let (c, r) := decodeRune b rest; c :: decodeUtf8 fuel r

def unhexStr (s : String) : Str := let b := unhexBytes s; decodeUtf8 (b.length + 1) b

def hexOfBytes (bs : Bytes) : String :=
  String.ofList (bs.flatMap fun b => [hexDigit (b.toNat / 16), hexDigit (b.toNat % 16)])

def hexOfStr (s : Str) : String := hexOfBytes (utf8 s)

partial def encJ : J → String
  | .null => "n"
  | .bool true => "t"
  | .bool false => "f"
  | .num l => "#" ++ hexOfStr l
  | .str s => "s" ++ hexOfStr s
  | .arr xs => "[" ++ String.join (xs.map fun x => " " ++ encJ x) ++ " ]"
  | .obj kvs => "{" ++ String.join (kvs.map fun (k, v) => " s" ++ hexOfStr k ++ " " ++ encJ v) ++ " }"

partial def decToks : List String → Option (J × List String)
  | [] => none
  | t :: rest =>
    match t.toList with
    | 'n' :: _ => some (.null, rest)
    | 't' :: _ => some (.bool true, rest)
    | 'f' :: _ => some (.bool false, rest)
    | '#' :: h => some (.num (unhexStr (String.ofList h)), rest)
    | 's' :: h => some (.str (unhexStr (String.ofList h)), rest)
    | '[' :: _ =>
      let rec elems (ts : List String) (acc : List J) : Option (J × List String) :=
        match ts with
        | "]" :: r => some (.arr acc.reverse, r)
        | _ => match decToks ts with
          | some (v, r) => elems r (v :: acc)
          | none => none
      elems rest []
    | '{' :: _ =>
      let rec mems (ts : List String) (acc : List (Str × J)) : Option (J × List String) :=
        match ts with
        | "}" :: r => some (.obj acc, r)
        | k :: r0 =>
          match decToks r0 with
          | some (v, r) => mems r (setKV (unhexStr (k.drop 1).toString) v acc)
          | none => none
        | [] => none
      mems rest []
    | _ => none

def decJ (s : String) : Option J :=
  match decToks ((s.splitOn " ").filter (· ≠ "")) with
  | some (v, _) => some v
  | none => none

/-- the key the harness installs for encrypt-mode operations (harness.go verifGoodKey) -/
def goodKey : Bytes := (List.range 64).map fun i => (i * 7 + 3).toUInt8

def goodKey2 : Bytes := (List.range 64).map fun i => (i * 11 + 5).toUInt8

def asciiOfBytes (b : Bytes) : Str := b.map fun x => Char.ofNat x.toNat
def bytesOfAscii (s : Str) : Bytes := s.map fun c => c.toNat.toUInt8

def parseCfg (s : String) : LineCfg := Id.run do
  let mut cfg : LineCfg := { repl := T.defaultRepl, nums := false, bools := false, ips := false, ns := false,
                             eager := [], re := none, enc := none }
  if s == "-" then return cfg
  let mut z := false
  let mut zm : List Str := []
  for kv in s.splitOn ";" do
    match kv.splitOn "=" with
    | [k, v] =>
      if k == "r" then cfg := { cfg with repl := unhexStr v }
      else if k == "n" then cfg := { cfg with nums := v == "1" }
      else if k == "b" then cfg := { cfg with bools := v == "1" }
      else if k == "i" then cfg := { cfg with ips := v == "1" }
      else if k == "w" then cfg := { cfg with ns := v == "1" }
      else if k == "e" then cfg := { cfg with eager := if v == "" then [] else (v.splitOn ":").map fun e => unhexStr (e.drop 1).toString }
      else if k == "z" then z := v != ""
      else if k == "zm" then zm := if v == "" then [] else (v.splitOn ":").map fun e => unhexStr (e.drop 1).toString
      else if k == "y" then
        if v == "1" then cfg := { cfg with enc := some fun s => some ("ENC(".toList ++ s ++ ")".toList) }
        else if v == "2" then cfg := { cfg with enc := some fun _ => none }
        else if v == "3" then cfg := { cfg with enc := some fun s => some (Base64.enc (Siv.aesEnc goodKey (utf8 s))) }
        else if v == "4" then cfg := { cfg with enc := some fun s => some (Base64.enc (Siv.aesEnc goodKey2 (utf8 s))) }
    | _ => pure ()
  if z then
    let names := zm
    cfg := { cfg with re := some fun s => names.contains s }
  return cfg

def parsePath (s : String) : List Str :=
  if s == "-" then [] else (s.splitOn ",").map unhexStr

def showMetaShort : Meta → String
  | .nil => "nil"
  | .ty t => toString (match t with
      | .Pipeline => 0 | .Exempt => 1 | .Redactable => 2 | .FieldName => 3
      | .OperatorArray => 4 | .OperatorMap => 5 | .Namespace => 6)
  | .map _ => "m"

def showMeta : Option Meta → String
  | none => "none"
  | some .nil => "nil"
  | some (.ty t) => "ty:" ++ showMetaShort (.ty t)
  | some (.map kvs) => "map:" ++ ",".intercalate (kvs.map fun (k, m) => hexOfStr k ++ "=" ++ showMetaShort m)

def lineFn (cfg : LineCfg) (bs : Bytes) : Option Bytes :=
  match parseObj bs with
  | none => none
  | some e => some (printObj (redactLine T cfg.toCfg cfg.eager redactPlan e))

def strList (xs : List Str) : String := encJ (.arr (xs.map .str))

def runOp (f : List String) : String :=
  match f with
  | [_, "hash", cfg, name] => "s" ++ hexOfStr (hashName (parseCfg cfg).repl (unhexStr (name.drop 1).toString))
  | [_, "email", s] => if isEmail (unhexStr s) then "t" else "f"
  | [_, "plan", s] => strList (parsePlanSummary (unhexStr s))
  | [_, "planredact", cfg, s] => "s" ++ hexOfStr (redactPlan (parseCfg cfg).repl (unhexStr s))
  | [_, "getop", s, kp] => showMeta (getOp T (parsePath kp) (s == "1"))
  | [_, "scalar", cfg, s, sel, kp, v] =>
    match decJ v with
    | some j => encJ (redactScalar T (parseCfg cfg).toCfg (parsePath kp) j (s == "1") (sel == "1"))
    | none => "baddec"
  | [_, "query", cfg, eager, v] =>
    match decJ v with
    | some (.obj kvs) =>
      let c : Ctx := { T := T, cfg := (parseCfg cfg).toCfg, rfn := eager == "1" }
      encJ (.obj (fromPairs (c.Q false none [] kvs)))
    | _ => "baddec"
  | [_, "stage", cfg, eager, v] =>
    match decJ v with
    | some j =>
      let c : Ctx := { T := T, cfg := (parseCfg cfg).toCfg, rfn := eager == "1" }
      encJ (c.P (isInSearchStage T j) [] j)
    | none => "baddec"
  | [_, "cmd", cfg, eager, v] =>
    match decJ v with
    | some j =>
      let c : Ctx := { T := T, cfg := (parseCfg cfg).toCfg, rfn := eager == "1" }
      encJ (c.cmdDoc j)
    | none => "baddec"
  | [_, "line", cfg, h] =>
    match lineFn (parseCfg cfg) (unhexBytes h) with
    | some out => "ok " ++ hexOfBytes out
    | none => "skip"
  | [_, "linetree", cfg, h] =>
    match parseObj (unhexBytes h) with
    | some e => encJ (.obj (redactLine T (parseCfg cfg).toCfg (parseCfg cfg).eager redactPlan e))
    | none => "skip"
  | [_, "parse", h] =>
    match parseObj (unhexBytes h) with
    | some e => encJ (.obj e)
    | none => "err"
  | [_, "print", v] =>
    match decJ v with
    | some (.obj kvs) => "ok " ++ hexOfBytes (printObj kvs)
    | _ => "baddec"
  | [_, "stream", cfg, faults, h] =>
    let fs := if faults == "-" then [] else faults.splitOn ","
    let num (p : Char) : Option Nat := fs.findSome? fun s =>
      match s.toList with
      | c :: r => if c == p then (String.ofList r).toNat? else none
      | [] => none
    let wf := match num 'w' with | some k => some k | none => num 's'
    let (out, res) := runStream (lineFn (parseCfg cfg)) (unhexBytes h) (num 'r') wf
    let st := match res with | .ok => "ok" | .tooLong => "toolong" | .readErr => "readerr" | .writeErr => "writeerr"
    st ++ " " ++ hexOfBytes out
  | _ :: "files" :: cfg :: _kinds :: hs =>
    -- several files, one after the other, under one configuration: the model has no state, so each is the stream loop on its own
    -- content (a `.gz` file holds the same text)
    let f := lineFn (parseCfg cfg)
    " ".intercalate (hs.map fun h =>
      let (out, res) := runStream f (unhexBytes h) none none
      let st := match res with | .ok => "ok" | .tooLong => "toolong" | _ => "err"
      st ++ ":" ++ hexOfBytes out)
  | [_, "encrt", k, p] =>
    let key := unhexBytes k
    if key.length = 64 then
      let ct := Siv.aesEnc key (unhexBytes p)
      match Siv.aesDec key ct with
      | some pt => "ok " ++ hexOfBytes ct ++ " " ++ hexOfBytes pt
      | none => "decerr"
    else "encerr"
  | [_, "dec", k, c] =>
    let key := unhexBytes k
    if key.length = 64 then
      match Siv.aesDec key (unhexBytes c) with
      | some pt => "ok " ++ hexOfBytes pt
      | none => "decerr"
    else "decerr"
  | [_, "tamper", k, p, kind, ns] =>
    let key := unhexBytes k
    let n := ns.toNat?.getD 0
    if key.length = 64 then
      let ct := Siv.aesEnc key (unhexBytes p)
      let ct' : Bytes :=
        if kind == "f" then
          let i := n % (ct.length * 8)
          ct.mapIdx fun j b => if j = i / 8 then b ^^^ ((1 : UInt8) <<< (i % 8).toUInt8) else b
        else if kind == "t" then ct.take (n % (ct.length + 1))
        else if kind == "a" then ct ++ [n.toUInt8]
        else ct
      let dkey : Bytes :=
        if kind == "k" then key.mapIdx fun j b => if j = n % 64 then b + 1 else b
        else if kind == "s" then key.drop 32 ++ key.take 32
        else key
      match Siv.aesDec dkey ct' with
      | some pt => "ok " ++ hexOfBytes ct' ++ " " ++ hexOfBytes pt
      | none => "decerr " ++ hexOfBytes ct'
    else "encerr"
  | [_, "b64e", h] => "ok " ++ hexOfBytes (bytesOfAscii (Base64.enc (unhexBytes h)))
  | [_, "b64d", h] =>
    match Base64.dec (asciiOfBytes (unhexBytes h)) with
    | some raw => "ok " ++ hexOfBytes raw
    | none => "err"
  | [_, "readkey", h] =>
    match Base64.dec (asciiOfBytes (unhexBytes h)) with
    | some k => if k.length = 64 then "ok " ++ hexOfBytes k else "err"
    | none => "err"
  | [_, "writekey", h] =>
    let k := unhexBytes h
    if k.length = 64 then "ok " ++ hexOfBytes (bytesOfAscii (Base64.enc k)) else "err"
  | [_, "validate", bits] => Cli.showDecision (Cli.validate (Cli.flagsOfBits bits))
  | _ => "badop"

partial def loop (h : IO.FS.Stream) (out : IO.FS.Stream) : IO Unit := do
  let line ← h.getLine
  if line.isEmpty then return ()
  let l := String.ofList (line.toList.filter (· != '\n'))
  let f := l.splitOn "\t"
  match f with
  | id :: _ :: _ => out.putStrLn (id ++ "\t" ++ runOp f)
  | _ => pure ()
  loop h out

def main : IO Unit := do
  let stdin ← IO.getStdin
  let stdout ← IO.getStdout
  loop stdin stdout
