#!/bin/bash
# Build the framework from files on disk only (offline): harness, translator output, Lean model,
# driver and every property module (so that each check only re-checks what the source changed).
set -e
cd "$(dirname "$0")"
export GOFLAGS=-mod=mod GOPROXY=off
unset GOTOOLCHAIN GOSUMDB
mkdir -p build evidence replays
python3 tools/gen_tables.py
MODS=$(python3 -c "
import sys; sys.path.insert(0,'tools')
from registry import PROPS
m=set()
for p in PROPS.values():
    m.add(p['module']); m.update(p.get('extra_modules',[]))
print(' '.join(sorted(m)))")
(cd lean && lake build Anonymongo driver $MODS 2>&1 | tail -3)
echo "setup done"
