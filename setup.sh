#!/bin/bash
# Build the framework from files on disk only (offline).
set -e
cd "$(dirname "$0")"
export GOFLAGS=-mod=mod GOPROXY=off
unset GOTOOLCHAIN GOSUMDB
mkdir -p build evidence replays
python3 tools/gen_tables.py
(cd lean && lake build Anonymongo driver 2>&1 | tail -5)
echo "setup done"
