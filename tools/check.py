#!/usr/bin/env python3
"""./check <Cxx> [--tier quick|thorough] [--replay file]

Per property: rebuild harness from /repo's working tree, regenerate the model's generated parts,
re-check the property's Lean theorems (+ axiom audit), run the correspondence operations the
theorems depend on, run the implementation-side oracle, decide, write evidence.
Exit 0: property held on everything explored.  Exit 1 + 'VIOLATION property=<id> replay=<path>'."""
import argparse, glob, json, os, re, subprocess, sys, time, traceback

sys.path.insert(0, os.path.dirname(os.path.abspath(__file__)))
from vlib import *
import corr
import oracles
from registry import PROPS, TRUSTED_BASE, ALLOWED_AXIOMS

LEAN = os.path.join(VERIF, "lean")


def sh(cmd, cwd=None, timeout=3600, env=None):
    p = subprocess.run(cmd, cwd=cwd, capture_output=True, text=True, timeout=timeout, env=env)
    return p.returncode, p.stdout + p.stderr


def hygiene_grep():
    """forbidden constructs anywhere under lean/ (comments stripped)"""
    bad = []
    pat = re.compile(r"\bsorry\b|\badmit\b|^\s*axiom\s|native_decide|bv_decide|implemented_by|\bunsafe\s|maxHeartbeats\s+0")
    for fn in glob.glob(os.path.join(LEAN, "**", "*.lean"), recursive=True):
        if "/.lake/" in fn:
            continue
        src = open(fn).read()
        src = re.sub(r"/-.*?-/", "", src, flags=re.S)
        for n, line in enumerate(src.split("\n"), 1):
            line = line.split("--")[0]
            if pat.search(line):
                bad.append("%s:%d: %s" % (os.path.relpath(fn, VERIF), n, line.strip()[:120]))
    return bad


def lean_check(pid, spec, log, tier="quick"):
    """build the property module and audit the axioms of every property theorem.
    returns (obligations, discharged, failures[list of str])"""
    theorems = list(spec["theorems"])
    mods = [spec["module"]] + spec.get("extra_modules", [])
    if tier == "thorough":
        # theorems whose proofs reach further into the translated code than the quick tier wants to depend on
        theorems += [t for t in spec.get("thorough_theorems", []) if t not in theorems]
        mods += [m for m in spec.get("thorough_modules", []) if m not in mods]
    failures = []
    with Lock("lake"):
        rc, out = sh(["lake", "build", "driver"] + mods, cwd=LEAN)
    log.append(out[-3000:])
    if rc != 0:
        # one module that no longer builds must not keep the others from being built: build them one by one
        for mod in mods:
            with Lock("lake"):
                sh(["lake", "build", mod], cwd=LEAN)
        m = re.findall(r"error: ([^\n]*\n?[^\n]*)", out)
        broken = re.findall(r"✖ \[\d+/\d+\] Building (\S+)", out)
        failures.append("lake build failed (%s): %s" % (", ".join(broken) or spec["module"], (m[0] if m else out[-400:]).strip()[:500]))
    # audit every theorem's axioms, module by module, so that one module that no longer builds does not hide the others
    os.makedirs(os.path.join(BUILD, "audit"), exist_ok=True)
    seen = {}
    for mi, mod in enumerate(mods):
        af = os.path.join(BUILD, "audit", pid + (".lean" if mi == 0 else ".%d.lean" % mi))
        with open(af, "w") as f:
            f.write("import %s\n" % mod)
            for t in theorems:
                if t not in seen:
                    f.write("#print axioms %s\n" % t)
        rc2, out2 = sh(["lake", "env", "lean", af], cwd=LEAN)
        log.append(out2[-2000:])
        for m in re.finditer(r"'([^']+)' (depends on axioms: \[([^\]]*)\]|does not depend on any axioms)", out2):
            seen.setdefault(m.group(1), [a.strip() for a in (m.group(3) or "").split(",") if a.strip()])
    discharged = 0
    for t in theorems:
        if t not in seen:
            failures.append("theorem %s: not found / did not elaborate" % t)
            continue
        extra = [a for a in seen[t] if a not in ALLOWED_AXIOMS]
        if extra:
            failures.append("theorem %s depends on non-standard axioms %s" % (t, extra))
        else:
            discharged += 1
    if tier == "thorough" and not failures:
        # independent re-check of the compiled property modules by the toolchain's leanchecker
        for mod in mods:
            rc3, out3 = sh(["lake", "env", "leanchecker", mod], cwd=LEAN, timeout=1800)
            log.append("leanchecker %s: rc=%d %s" % (mod, rc3, out3[-500:]))
            if rc3 != 0:
                failures.append("leanchecker rejects %s: %s" % (mod, out3.strip()[-300:]))
    bad = hygiene_grep()
    if bad:
        failures.append("forbidden constructs in lean sources: " + "; ".join(bad[:5]))
    LAST_AXIOMS.clear()
    LAST_AXIOMS.update({t: seen[t] for t in theorems if t in seen})
    return len(theorems), discharged, failures


LAST_AXIOMS = {}    # theorem -> axioms reported by `#print axioms` in this run


def write_replay(pid, kind, payload):
    os.makedirs(os.path.join(VERIF, "replays"), exist_ok=True)
    n = 0
    while True:
        path = os.path.join(VERIF, "replays", "%s-%s-%d.json" % (pid, kind, n))
        if not os.path.exists(path):
            break
        n += 1
    payload = dict(payload, property=pid, kind=kind, replay_cmd="./check %s --replay %s" % (pid, path))
    with open(path, "w") as f:
        json.dump(payload, f, indent=1, ensure_ascii=False, default=str)
    return path


def load_known():
    kf = os.path.join(VERIF, "known_findings.jsonl")
    out = []
    if os.path.exists(kf):
        for ln in open(kf):
            ln = ln.strip()
            if ln and not ln.startswith("#"):
                out.append(json.loads(ln))
    return out


def do_replay(pid, path):
    r = json.load(open(path))
    ok, log = build_harness()
    if not ok:
        print("harness build failed:\n" + log)
        return 2
    subprocess.run([sys.executable, os.path.join(VERIF, "tools", "gen_tables.py")], check=False)
    with Lock("lake"):
        sh(["lake", "build", "driver"], cwd=LEAN)
    print("replaying", path)
    if "op" in r:
        op = r["op"]
        g = go_exec([("r", op)])
        m = lean_exec([("r", op)])
        d = corr.describe(op, g.get("r"), m.get("r"))
        print(json.dumps(d, indent=1, ensure_ascii=False))
    if r.get("oracle"):
        res = oracles.replay(pid, r)
        print(json.dumps(res, indent=1, ensure_ascii=False, default=str))
        if res.get("violation"):
            print("VIOLATION property=%s replay=%s" % (pid, path))
            return 1
    return 0


def main():
    ap = argparse.ArgumentParser()
    ap.add_argument("pid")
    ap.add_argument("--tier", default=os.environ.get("VERIF_TIER", "quick"))
    ap.add_argument("--replay")
    a = ap.parse_args()
    pid = a.pid
    if pid not in PROPS:
        print("unknown property", pid)
        return 2
    if a.replay:
        return do_replay(pid, a.replay)
    tier = a.tier if a.tier in ("quick", "thorough") else "quick"
    seed = int(os.environ.get("VERIF_SEED", "20240917"))
    spec = PROPS[pid]
    t0 = time.time()
    log = []
    violations = []          # list of (kind, description, replay-path, found_input: bool)
    known_lines = []

    # 1. harness from the working tree
    ok, blog = build_harness()
    if not ok:
        # the repository does not build with the hooks: nothing can be decided -> report as violation w/o input
        path = write_replay(pid, "build-broken", {"what": "go build of /repo with the verif overlay failed", "log": blog[-2000:]})
        print("VIOLATION property=%s replay=%s no-failing-input-found" % (pid, path))
        write_evidence(pid, tier, seed, spec, t0, obligations=len(spec["theorems"]), discharged=0, stats={}, violations=1,
                       notes=["harness build failed"])
        return 1

    # 2. translator
    rc, out = sh([sys.executable, os.path.join(VERIF, "tools", "gen_tables.py")])
    log.append(out)
    translator_failed = rc != 0
    proof_failures = []
    if translator_failed:
        proof_failures.append("translator failed: " + out.strip()[-300:])
    try:
        stage_failures = json.load(open(os.path.join(BUILD, "translator.json")))
    except Exception:
        stage_failures = {}

    # 3. theorems
    obligations, discharged, fails = lean_check(pid, spec, log, tier)
    proof_failures += fails
    if fails and stage_failures:
        # what the translator could not express (the generated definitions it affects came out empty, which is why the
        # obligations over them no longer check)
        proof_failures += ["translator: %s: %s" % kv for kv in sorted(stage_failures.items())]
    driver_ok = os.path.exists(lean_driver())

    # 4 + 5. correspondence on the operations this property's theorems depend on, and the implementation-side
    # oracle.  First at the size of the tier.  If an obligation, the translator or the correspondence broke and
    # that pass produced no concrete failing input, a second, deeper pass searches for one (larger generators,
    # the long soak, every sweep shard).
    stats = {"corr": {}, "oracle": {}}
    corr_diffs = []
    tables = json.load(open(os.path.join(BUILD, "tables.json")))
    kf = [k for k in load_known() if k.get("property") == pid and not k.get("fixed")]

    def one_pass_seed(intensify, sd):
        diffs_all = []
        if driver_ok:
            for fam in spec["corr"]:
                ops = corr.family_ops(fam, tables, sd, tier, intensify)
                g, m, diffs = corr.compare(ops)
                n_ops = sum(len(x) for x in ops) if ops and isinstance(ops[0], list) else len(ops)
                st = stats["corr"].setdefault(fam, {"ops": 0, "disagreements": 0})
                st["ops"] += n_ops
                st["disagreements"] += len(diffs)
                for oid, f, x, y in diffs[:3] + [d for d in diffs[3:] if str(d[2]).startswith(("panic", "crash"))][:10]:
                    diffs_all.append((fam, f, x, y))
        ores = oracles.run(pid, tables, sd, tier, intensify)
        return diffs_all, ores

    def one_pass(intensify):
        # the thorough tier explores under three seeds derived from VERIF_SEED; the quick tier under VERIF_SEED itself
        stats["corr"].clear()
        seeds = [seed, seed + 1013, seed + 2027] if tier == "thorough" else [seed]
        diffs_all, merged = [], None
        for sd in seeds:
            d, o = one_pass_seed(intensify, sd)
            diffs_all += d
            if merged is None:
                merged = o
            else:
                merged["violations"] = merged["violations"] + o["violations"]
                for k in ("evaluations", "distinct_nontrivial"):
                    merged["stats"][k] = merged["stats"].get(k, 0) + o["stats"].get(k, 0)
                sm, so = merged["stats"].get("summary", {}), o["stats"].get("summary", {})
                for k, v in so.items():
                    if isinstance(v, (int, float)) and not isinstance(v, bool):
                        sm[k] = sm.get(k, 0) + v
        merged["stats"]["seeds"] = seeds
        return diffs_all, merged

    changed = src_changed_files()
    if os.environ.get("VERIF_DEEP") == "1" and not changed:
        changed = ["<VERIF_DEEP=1: deep generators forced on an unchanged source>"]
    if changed:
        log.append("source differs from the recorded baseline in %s: the deep generators run at once" % ", ".join(changed))
    corr_diffs, ores = one_pass(bool(changed) and tier != "thorough")
    if pid == "C07" and corr_diffs:
        # an operation on which the real code panicked is a crashing line content: confirm it through the real CLI
        ores["violations"] = ores["violations"] + oracles.panics_of_correspondence(corr_diffs)
    concrete = [v for v in ores["violations"] if not v.get("correspondence") and not [k for k in kf if k.get("site") == v.get("site")]]
    if (proof_failures or corr_diffs) and not concrete and tier != "thorough" and not changed:
        log.append("deep pass: an obligation or the correspondence broke and the first pass found no failing input")
        corr_diffs2, ores = one_pass(True)
        corr_diffs = corr_diffs2 or corr_diffs
        if pid == "C07" and corr_diffs:
            ores["violations"] = ores["violations"] + oracles.panics_of_correspondence(corr_diffs)
    stats["oracle"] = ores["stats"]
    found_input = False
    model_only = [v for v in ores["violations"] if v.get("correspondence")]
    for v in ores["violations"]:
        if v.get("correspondence"):
            continue
        sig = v.get("site")
        hit = [k for k in kf if k.get("site") == sig]
        if hit:
            known_lines.append("KNOWN-FINDING: property=%s %s (%s)" % (pid, sig, hit[0].get("what", "")))
            continue
        found_input = True
        if len(violations) < 5:
            violations.append(write_replay(pid, "input", dict(v, oracle=True, seed=seed)))
        else:
            violations.append(violations[-1])

    # 6. verdict
    for l in sorted(set(known_lines)):
        print(l)
    rc = 0
    if violations:
        for p in violations[:5]:
            print("VIOLATION property=%s replay=%s" % (pid, p))
        rc = 1
    elif proof_failures or corr_diffs or model_only:
        payload = {"what": "proof obligation or model/implementation correspondence no longer checks; the search found no failing input",
                   "proof_failures": proof_failures,
                   "correspondence": [dict(corr.describe(f, x, y), family=fam) for fam, f, x, y in corr_diffs] + model_only[:5]}
        if corr_diffs:
            payload["op"] = corr_diffs[0][1]
        path = write_replay(pid, "proof-broken" if proof_failures else "correspondence-broken", payload)
        print("VIOLATION property=%s replay=%s no-failing-input-found" % (pid, path))
        rc = 1
    write_evidence(pid, tier, seed, spec, t0, obligations, discharged, stats, len(violations) + (1 if rc and not violations else 0),
                   notes=proof_failures + ["%s: %s" % (fam, json.dumps(corr.describe(f, x, y), ensure_ascii=False)[:300]) for fam, f, x, y in corr_diffs],
                   samples=ores.get("samples", []), known=sorted(set(known_lines)))
    with open(os.path.join(BUILD, "last-%s.log" % pid), "w") as f:
        f.write("\n".join(log))
    print("%s %s tier=%s obligations=%d discharged=%d corr=%s oracle=%s wall=%.1fs" % (
        pid, "OK" if rc == 0 else "FAIL", tier, obligations, discharged,
        json.dumps({k: v["ops"] for k, v in stats["corr"].items()}), json.dumps(stats["oracle"].get("summary", {})), time.time() - t0))
    return rc


def write_evidence(pid, tier, seed, spec, t0, obligations, discharged, stats, violations, notes=(), samples=(), known=()):
    os.makedirs(os.path.join(VERIF, "evidence"), exist_ok=True)
    evals = sum(v["ops"] for v in stats.get("corr", {}).values()) + stats.get("oracle", {}).get("evaluations", 0)
    ev = {
        "property_id": pid, "tier": tier, "seed": seed, "level": "proof",
        "coverage": {
            "obligations": obligations, "discharged": discharged,
            "checker_cmd": "cd /verif/lean && lake build %s && lake env lean /verif/build/audit/%s.lean   (#print axioms of every listed theorem)%s" % (spec["module"], pid, "; lake env leanchecker <each property module>" if tier == "thorough" else ""),
            "trusted_base": TRUSTED_BASE + spec.get("trusted", []),
            "theorems": spec["theorems"] + ([x for x in spec.get("thorough_theorems", []) if x not in spec["theorems"]] if tier == "thorough" else []),
            "axioms": {t: LAST_AXIOMS.get(t) for t in spec["theorems"] + (spec.get("thorough_theorems", []) if tier == "thorough" else [])},
            "statement": spec.get("statement", ""),
            "partial": spec.get("partial", ""),
            "evaluations": evals,
            "distinct_nontrivial": stats.get("oracle", {}).get("distinct_nontrivial", 0),
            "rule": stats.get("oracle", {}).get("rule", ""),
            "samples": list(samples)[:5] or [{"theorems": spec["theorems"]}],
            "correspondence": stats.get("corr", {}),
            "oracle": stats.get("oracle", {}).get("summary", {}),
            "distribution": stats.get("oracle", {}).get("distribution", {}),
            "known_findings_reported": list(known),
            "notes": list(notes),
        },
        "assumptions": spec.get("assumptions", []),
        "wall_s": round(time.time() - t0, 2),
        "violations": violations,
    }
    with open(os.path.join(VERIF, "evidence", pid + ".json"), "w") as f:
        json.dump(ev, f, indent=1, ensure_ascii=False, default=str)


if __name__ == "__main__":
    try:
        sys.exit(main())
    except SystemExit:
        raise
    except Exception:
        traceback.print_exc()
        sys.exit(2)
