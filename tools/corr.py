"""Correspondence check: the Lean model's executable definitions and the real Go code on the same
operations.  Builds op lists (per op family), runs both executors, reports disagreements."""
import re as pyre
from vlib import *
from gen import *


def all_strings(t, acc):
    if isinstance(t, Obj):
        for k, v in t:
            acc.add(k)
            all_strings(v, acc)
    elif isinstance(t, list):
        for e in t:
            all_strings(e, acc)
    elif isinstance(t, str) and not isinstance(t, Num):
        acc.add(t)
        if t.startswith("$"):
            acc.add(t[1:])


def cfg_str(cfg, tree=None, extra_strings=()):
    """cfg string; in selective mode also the finite table of matching names (model side)"""
    s = cfg.s()
    if cfg.re:
        names = set(extra_strings)
        if tree is not None:
            all_strings(tree, names)
        names.add("")
        pat = go_re(cfg.re)
        zm = sorted(n for n in names if pat.search(n))
        s += ";zm=" + ":".join("x" + hx(n) for n in zm)
    return s


PRESETS = [
    Cfg(), Cfg(n=True), Cfg(b=True), Cfg(n=True, b=True, i=True, w=True), Cfg(w=True), Cfg(repl="X\"y\\z é"), Cfg(repl=""), Cfg(repl="$r"),
    Cfg(enc=1), Cfg(enc=2), Cfg(enc=1, n=True, w=True),
]


def selective_cfgs(fields, rng):
    out = []
    fs = [f for f in fields if pyre.fullmatch(r"[A-Za-z0-9_]+", f)]
    if fs:
        pick = [rng.choice(fs) for _ in range(1 + rng.below(2))]
        out.append(Cfg(re="^(" + "|".join(pick) + ")$"))
        out.append(Cfg(re="(?i)" + pick[0].upper(), n=True, b=True))
        out.append(Cfg(re=pick[0][:-1]))
    else:
        out.append(Cfg(re="^(ssn|name)$"))
    return out


def eager_cfgs(ns):
    db = ns.split(".")[0]
    # prefixes are raw string prefixes of attr.ns: whole namespace, database, database with its dot, cut inside a component
    return [Cfg(eager=(db, ns)), Cfg(eager=(db + ".zzz", db, db + ".aaa")), Cfg(eager=(ns, db)), Cfg(eager=(ns,)), Cfg(eager=(db,), w=True), Cfg(eager=("nomatch." + ns, ""), n=True), Cfg(eager=("zzz",)),
            Cfg(eager=(db + ".",), w=True), Cfg(eager=(ns[:-1],), w=True), Cfg(eager=(db[:-1],), w=True, n=True), Cfg(eager=(ns[:-2], "q"))]


def line_ops(seed, count, exotic=True, prefix="L"):
    """grammar-generated lines x cfg presets (full / selective / eager / encrypt)"""
    rng = SplitMix(seed)
    ops = []
    meta = {}
    for i in range(count):
        g = G(rng.fork(), exotic=exotic and i % 2 == 1)
        tree = g.line()
        text = to_json(tree)
        cfgs = [PRESETS[(i + j) % len(PRESETS)] for j in range(2)]
        cfgs += selective_cfgs(g.fields, rng)[: 1 + i % 2]
        cfgs += eager_cfgs(g.ns)[i % 11: i % 11 + 1]
        for j, c in enumerate(cfgs):
            oid = "%s%d.%d" % (prefix, i, j)
            ops.append((oid, ["line", cfg_str(c, tree), hx(text)]))
            meta[oid] = (c, text)
    return ops, meta


def other_ops(seed, count, prefix="O"):
    rng = SplitMix(seed ^ 0x55)
    ops = []
    for i in range(count):
        t = other_line(rng, i)
        text = to_json(t)
        for j, c in enumerate([PRESETS[i % len(PRESETS)], Cfg(n=True, b=True, i=True, w=True), Cfg(eager=("",))]):
            ops.append(("%s%d.%d" % (prefix, i, j), ["line", cfg_str(c, t), hx(text)]))
    return ops


def sweep_ops(tables, cfgs=None, prefix="S", shard=None):
    cfgs = cfgs or [Cfg(), Cfg(n=True, b=True, w=True), Cfg(re="^(fld|k|p)$"), Cfg(re="nomatch"), Cfg(enc=1)]
    ops = []
    n = 0
    for tname, path, vk, val in sweep_cases(tables):
        for kind, tree in wrap_positions(tname, path, val):
            n += 1
            if shard is not None and n % shard[1] != shard[0]:
                continue
            for ci, c in enumerate(cfgs):
                for eager in ("0", "1"):
                    if eager == "1" and (c.re or ci > 1):
                        continue
                    oid = "%s%d.%d.%s" % (prefix, n, ci, eager)
                    ops.append((oid, [kind, cfg_str(c, tree), eager, enc(tree)]))
    return ops


def arb_ops(tables, seed, count, prefix="A"):
    rng = SplitMix(seed ^ 0xA5A5)
    voc = vocab(tables)
    ops = []
    for i in range(count):
        t = arb_tree(rng, voc)
        c = PRESETS[i % len(PRESETS)] if i % 3 else Cfg(re="^(ssn|name|a)$", n=bool(i & 1))
        eager = "1" if i % 5 == 0 and not c.re else "0"
        if isinstance(t, Obj):
            ops.append(("%sq%d" % (prefix, i), ["query", cfg_str(c, t), eager, enc(t)]))
            ops.append(("%sc%d" % (prefix, i), ["cmd", cfg_str(c, t), eager, enc(t)]))
            line = Obj([("c", "COMMAND"), ("attr", Obj([("ns", "a.b"), ("command", t), ("cmd", t)]))])
            c2 = c if eager == "0" else Cfg(eager=("a",), n=c.n, b=c.b, w=c.w, repl=c.repl)
            ops.append(("%sl%d" % (prefix, i), ["line", cfg_str(c2, line), hx(to_json(line))]))
        ops.append(("%ss%d" % (prefix, i), ["stage", cfg_str(c, t), eager, enc(t)]))
    return ops


def crypto_ops(seed, count, prefix="K"):
    """AES-SIV (Tink) and encoding/base64 against their Lean models, byte for byte:
    encrypt / decrypt at API level for every short length and block boundary, damaged ciphertexts and keys,
    base64 texts (valid, wrapped, damaged), key-file contents, and whole lines in real encrypt mode"""
    import base64 as b64
    rng = SplitMix(seed ^ 0xC0DE)
    ops = []

    def rbytes(n):
        return bytes(rng.below(256) for _ in range(n))

    keys = [bytes((i * 7 + 3) % 256 for i in range(64)), bytes(64), bytes([255]) * 64] + [rbytes(64) for _ in range(3)]
    lens = list(range(0, 50)) + [63, 64, 65, 79, 80, 81, 127, 128, 129, 255, 256, 257, 1000, 4097]
    texts = ["", "a", "é", "\U0001F600", "0123456789abcdef", "0123456789abcdef0", "x" * 31, "x" * 32, "x" * 33, "%s%d", "\x00", "\x00" * 16, "\x80".encode("latin1").decode("latin1")]
    for i, n in enumerate(lens):
        k = keys[i % len(keys)]
        ops.append(("%se%d" % (prefix, i), ["encrt", k.hex(), rbytes(n).hex()]))
        ops.append(("%sz%d" % (prefix, i), ["encrt", keys[0].hex(), bytes(n).hex()]))
    for i, t in enumerate(texts):
        ops.append(("%st%d" % (prefix, i), ["encrt", keys[0].hex(), t.encode("utf-8").hex()]))
    for i, kl in enumerate([0, 1, 10, 16, 32, 48, 63, 65, 128]):
        ops.append(("%skl%d" % (prefix, i), ["encrt", rbytes(kl).hex(), b"abc".hex()]))
        ops.append(("%skd%d" % (prefix, i), ["dec", rbytes(kl).hex(), rbytes(32).hex()]))
    for i in range(count):
        k = keys[rng.below(len(keys))]
        pt = rbytes(rng.choice([0, 1, 5, 15, 16, 17, 31, 32, 33, 40, 100]))
        kind = "ftaks"[i % 5]
        ops.append(("%sm%d" % (prefix, i), ["tamper", k.hex(), pt.hex(), kind, str(rng.below(1 << 20))]))
        ops.append(("%sd%d" % (prefix, i), ["dec", k.hex(), rbytes(rng.choice([0, 1, 15, 16, 17, 32, 33])).hex()]))
    # base64 texts
    b64texts = [b"", b"=", b"==", b"====", b"A", b"AA", b"AAA", b"AAAA", b"AA==", b"AA=", b"AAA=", b"A===", b"AA==AA==", b"AAAA=", b"AA==\n", b"AA=\n=", b"AA\r\n==", b"\nAA==", b"AA== ",
                b" AA==", b"A A==", b"AB==", b"AAB=", b"AP==", b"AA-_", b"AA+/", b"AA\t==", b"AA==\n\n", b"AA=A", b"A=AA", b"=AAA", b"\xc3\xa9AA", b"AA\x00A", b"QUJD", b"QUJDRA==", b"QUJDREU=", b"QUJDREVG"]
    for i in range(count):
        raw = rbytes(rng.choice([0, 1, 2, 3, 4, 5, 16, 17, 18, 63, 64, 65]))
        ops.append(("%sbe%d" % (prefix, i), ["b64e", raw.hex()]))
        t = bytearray(b64.b64encode(raw))
        m = rng.below(8)
        if m == 0 and t:
            t[rng.below(len(t))] = rng.choice(list(b"=-_ \n\r\t*\xff\x80AZaz09+/"))
        elif m == 1:
            pos = rng.below(len(t) + 1)
            t[pos:pos] = rng.choice([b"\n", b"\r\n", b"\r", b" ", b"\n\n", b"="])
        elif m == 2 and t:
            del t[rng.below(len(t))]
        elif m == 3:
            t = t.rstrip(b"=")
        elif m == 4 and len(t) >= 2 and t[-1:] == b"=":
            # non-zero unused bits in the last sextet before the padding
            j = len(t.rstrip(b"=")) - 1
            alpha = b"ABCDEFGHIJKLMNOPQRSTUVWXYZabcdefghijklmnopqrstuvwxyz0123456789+/"
            t[j] = alpha[(alpha.index(t[j]) | (1 + rng.below(3))) % 64]
        elif m == 5:
            t += rng.choice([b"=", b"A", b"\n", b"AAAA", b"AA=="])
        b64texts.append(bytes(t))
    for i, t in enumerate(b64texts):
        ops.append(("%sbd%d" % (prefix, i), ["b64d", t.hex()]))
    # key-file contents
    good = b64.b64encode(keys[3])
    contents = [good, good + b"\n", good + b"\r\n", b"\n" + good, good[:40] + b"\n" + good[40:], good + b" ", b" " + good, good[:-1], good[:-2] + b"==", good + b"=", b"", b"\n",
                b64.b64encode(rbytes(63)), b64.b64encode(rbytes(65)), b64.b64encode(rbytes(32)), b64.b64encode(rbytes(66)), b64.b64encode(b""), keys[3], good.replace(b"/", b"_").replace(b"+", b"-"),
                b64.b64encode(rbytes(64)).rstrip(b"="), good.decode().encode("utf-16"), b"\xef\xbb\xbf" + good, good + b"\x00", good * 2]
    # keys with zero bytes at the end / everywhere (a reader that trims NULs or measures the decoded buffer loosely)
    for kz in (bytes(64), keys[3][:63] + b"\x00", keys[3][:60] + bytes(4), b"\x00" + keys[3][1:], keys[3][:63] + b"\xff"):
        contents.append(b64.b64encode(kz))
    for i, c in enumerate(contents):
        ops.append(("%srk%d" % (prefix, i), ["readkey", c.hex()]))
    for i, k in enumerate(keys + [rbytes(63), rbytes(65), b""]):
        ops.append(("%swk%d" % (prefix, i), ["writekey", k.hex()]))
    # whole lines with real ciphertexts
    lops, _ = line_ops(seed ^ 0x51, max(10, count // 4), prefix=prefix + "L")
    seen = set()
    for oid, f in lops:
        if f[2] in seen:
            continue
        seen.add(f[2])
        # (one process: the key in force alternates - a cached encryptor that ignores SetEncryptionKey shows here)
        for j, c in enumerate([Cfg(enc=3), Cfg(enc=4), Cfg(enc=3, n=True, b=True, w=True, repl="R"), Cfg(enc=4, w=True), Cfg(enc=3)]):
            ops.append(("%s.y%d" % (oid, j), ["line", c.s(), f[2]]))
    return ops


def misc_ops(tables, seed, count, prefix="M"):
    """hash / email / plan / getop / scalar / print / parse"""
    rng = SplitMix(seed ^ 0x77)
    ops = []
    names = ["", "a", "$a", "$$a", "a.b", "a..b", ".", "a.$b", "Ünï.cødé", "\U0001F600", "x" * 200, "a b", "$", "$.", "mydb", "mycoll"]
    for i, nm in enumerate(names):
        for j, rp in enumerate(["REDACTED", "", "r.x_y", "é", "50%", "%s_%d"]):
            ops.append(("%sh%d.%d" % (prefix, i, j), ["hash", Cfg(repl=rp).s(), "s" + hx(nm)]))
    for i in range(count):
        nm = "".join(rng.choice("abcXYZ019_.$-é") for _ in range(rng.below(12)))
        ops.append(("%shr%d" % (prefix, i), ["hash", Cfg().s(), "s" + hx(nm)]))
    emails = ["a@b", "a@b.c", "ab", "a@", "@b", "a@b-", "a@-b", "a@b..c", "a@b.c.", "a.b!#$%&'*+/=?^_`{|}~-@x.y", "a@b_c", "a b@c", "a@b c", "é@b.c", "a@é.c",
              "a@" + "b" * 63, "a@" + "b" * 64, "a@" + ".".join(["b" * 60] * 4), "x" * 250 + "@b.c", "x" * 249 + "@b.c", "a@b\n", "a@@b", "a@b@c", "A@B.C", "0@1", "a@b-c.d-e",
              "a@" + "b" * 62 + "-", "redacted@redacted.com", "REDACTED", "", "ab@", "a@b.c-"]
    for i, e in enumerate(emails):
        ops.append(("%se%d" % (prefix, i), ["email", hx(e)]))
    for i in range(count):
        e = "".join(rng.choice("ab.@-_!1Z ") for _ in range(rng.below(14)))
        ops.append(("%ser%d" % (prefix, i), ["email", hx(e)]))
    plans = ["COLLSCAN", "IXSCAN { a: 1 }", "IXSCAN { a: 1, name: -1 }", "IXSCAN {a:1}, IXSCAN { b.c: 1 }", "IXSCAN{}", "IXSCAN { }", "IXSCAN { : 1 }", "IXSCAN { a..b: 1 }",
             "IDHACK", "", "IXSCAN", "IXSCAN {", "IXSCAN { a: 1", "FETCH IXSCAN \t\n{ IX: 1, SCAN: 1 }", "IXSCAN { a: 1 } IXSCAN { a: 1 }", "IXSCAN { é: 1,  b　: 1 }",
             "IXSCAN { a:b:c, d }", "SORT_MERGE [ IXSCAN { x: 1 }, IXSCAN { y: 1 } ]", "IXSCANIXSCAN { q: 1 }", "IXSCAN { a: 1 }}", "ixscan { a: 1 }", "IXSCAN { $**: 1 }", "IXSCAN { REDACTED: 1, R: 1 }"]
    plans += ["IXSCAN { foo: 1, foobar: -1 }", "IXSCAN { a: 1, b: 1 }", "EXPRESS_IXSCAN { _id: 1 }", "COUNT_SCAN { a: 1 }", "IXSCAN { a: 1, a: -1 }", "IXSCAN { IXSCAN: 1, e: 1, c: 1, 0: 1 }",
              "IXSCAN { a : 1 , b.c :-1,d:  1}", "IXSCAN { a.a: 1, a: 1 }", "IXSCAN { : }", "IXSCAN { , }", "IXSCAN { a: 1,, b: 1 }", "IXSCAN { a }", "IXSCAN { a a: 1 }", "IXSCAN {\ta:1\n}",
              "IXSCAN { x: \"2dsphere\", y: \"text\" }", "IXSCAN { _fts: \"text\", _ftsx: 1 }", "IXSCAN { REDACTED_ca978112ca1bbdca: 1 }", "IXSCAN { $a: 1 }", "IXSCAN { a$: 1, $: 1 }"]
    pieces = ["IXSCAN", " ", "{", "}", ",", ":", "a", "b", "ab", "a.b", "1", "-1", "  ", "foo", "IX", "\t", "é", ".", "$", "COLLSCAN", "FETCH", "[", "]", "_"]
    for i in range(count):
        plans.append("".join(rng.choice(pieces) for _ in range(2 + rng.below(14))))
        body = ", ".join("%s%s:%s%s" % (rng.choice(["", " ", "  "]), rng.choice(["a", "b", "ab", "a.b", "foo", "foobar", "x1", "é.y", "_id"]), rng.choice(["", " "]), rng.choice(["1", "-1", '"text"'])) for _ in range(1 + rng.below(4)))
        plans.append(rng.choice(["", "FETCH ", "SORT "]) + rng.choice(["IXSCAN", "IXSCAN ", "IXSCAN  ", "EXPRESS_IXSCAN "]) + "{" + body + rng.choice([" }", "}"]) + rng.choice(["", ", IXSCAN { a: 1 }", " }"]))
    for i, p in enumerate(plans):
        ops.append(("%sp%d" % (prefix, i), ["plan", hx(p)]))
        ops.append(("%spr%d" % (prefix, i), ["planredact", Cfg().s(), hx(p)]))
        ops.append(("%spx%d" % (prefix, i), ["planredact", Cfg(repl="a").s(), hx(p)]))
    # getop on every table path (+ perturbations) in both modes
    paths = set()
    for name in ("CoreOperators", "AggregationOperators", "SearchOperators", "SearchAggregationOperators"):
        for p, _ in table_paths(tables[name]):
            paths.add(p)
            paths.add(p + ("zz",))
            paths.add(("zz",) + p)
            if len(p) > 1:
                paths.add(p[:1] + ("arb",) + p[1:])
                paths.add(p[1:])
            paths.add(("$searchMeta", "facet", "facets", "nm") + p[-1:])
            paths.add(("$search", "compound", "must") + p)
            paths.add(("$match", "$and") + p)
    voc = vocab(tables)
    for _ in range(count):
        paths.add(tuple(rng.choice(voc) for _ in range(1 + rng.below(5))))
    for i, p in enumerate(sorted(paths)):
        for s in ("0", "1"):
            ops.append(("%sg%d.%s" % (prefix, i, s), ["getop", s, ",".join(hx(k) for k in p)]))
    # scalar
    vals = ["v", "", "$x", "u@e.com", Num("5"), Num("1e400"), True, False, None, "2020-01-01T00:00:00Z"]
    kps = [("a",), ("$date",), ("$oid",), ("$binary", "base64"), ("x", "base64"), ("$binary", "subType"), ("subType",), ("$limit",), ("$match", "a", "$eq"), ("$lookup", "as"), ("",),
           ("$search", "index"), ("$search", "text", "query"), ("$searchMeta", "facet", "facets", "n", "type"), ("ssn", "$in"), ("$sample", "size")]
    cfgs = [Cfg(), Cfg(n=True, b=True), Cfg(re="^ssn$"), Cfg(enc=1), Cfg(enc=2), Cfg(repl="u@e.com")]
    k = 0
    for kp in kps:
        for v in vals:
            for c in cfgs:
                for s in ("0", "1"):
                    for sel in ("0", "1"):
                        if sel == "1" and not c.re:
                            continue
                        k += 1
                        ops.append(("%ssc%d" % (prefix, k), ["scalar", cfg_str(c, None, kp), s, sel, ",".join(hx(x) for x in kp), enc(v)]))
    return ops


def text_ops(seed, count, prefix="T"):
    """parse / print / line on malformed and exotic byte strings"""
    rng = SplitMix(seed ^ 0x99)
    ops = []
    g = G(rng.fork())
    good = to_json(g.line())
    k = 0
    for rounds in range(max(1, count // 120)):
        for b in malformed(rng, good):
            k += 1
            ops.append(("%sp%d" % (prefix, k), ["parse", hx(b)]))
            ops.append(("%sl%d" % (prefix, k), ["line", Cfg(n=True, w=True).s(), hx(b)]))
        g = G(rng.fork(), exotic=True)
        good = to_json(g.line())
    # exotic but valid: escapes of every ASCII char, surrogate pairs, numbers
    chars = "".join(chr(i) for i in range(0, 0x80)) + "\u0080߿ࠀ  �￿\U00010000\U0010ffff"
    t = Obj([("k" + chars, chars), ("n", [Num("0"), Num("-0"), Num("1e+5"), Num("1E-5"), Num("123456789012345678901234567890.123456789"), Num("0.0")]), ("e", ""), ("", "")])
    ops.append((prefix + "x1", ["print", enc(t)]))
    txt = json.dumps(chars)  # ascii-escaped form
    ops.append((prefix + "x2", ["parse", hx('{"a":%s, "b" : [ 1 , 2 ] ,\t"c":{ } }' % txt)]))
    ops.append((prefix + "x3", ["parse", hx('{"a":"\\u00e9\\ud83d\\ude00\\/\\b\\f"}')]))
    ops.append((prefix + "x4", ["line", Cfg().s(), hx('  {"c":"COMMAND","attr":{"command":{"filter":{"k":%s}}}}  ' % txt)]))
    # every ASCII character on its own inside an otherwise plain key / value (fast paths in a serialiser), and text that is already escaped once
    single = Obj([("k%sz" % chr(i), "v%sz" % chr(i)) for i in range(0x80)] + [("u" + c, c) for c in "\u0080\u00ff\u07ff\u0800\u2028\u2029\ud7ff\ue000\ufffd\U00010000\U0010ffff"])
    ops.append((prefix + "x5", ["print", enc(single)]))
    ops.append((prefix + "x6", ["line", Cfg().s(), hx(to_json(Obj([("c", "NETWORK"), ("attr", single)])))]))
    for j, t in enumerate(KEPT_TEXTS):
        o = Obj([("c", "COMMAND"), ("msg", t), (t, t), ("attr", Obj([("appName", t), (t + "k", [t]), ("command", Obj([("find", "c"), ("filter", Obj([(t + "f", t)])), ("comment", t)]))]))])
        ops.append(("%sk%d" % (prefix, j), ["line", Cfg(n=bool(j & 1)).s(), hx(to_json(o))]))
        ops.append(("%skp%d" % (prefix, j), ["print", enc(o)]))
    return ops


def stream_ops(seed, count, prefix="R"):
    rng = SplitMix(seed ^ 0x1234)
    ops = []
    for i in range(count):
        g = G(rng.fork())
        lines = []
        for _ in range(1 + rng.below(5)):
            k = rng.below(8)
            if k < 4:
                lines.append(to_json(g.line()).encode())
            elif k == 4:
                lines.append(to_json(other_line(rng)).encode())
            elif k == 5:
                lines.append(rng.choice([b"", b"  ", b"\t"]))
            elif k == 6:
                lines.append(rng.choice([b"not json", b"[1,2]", b'{"a":1} x', b'{"trunc":']))
            else:
                lines.append(b'{"a":"' + b"y" * rng.choice([10, 65520, 65527, 65528, 65529, 65530, 70000]) + b'"}')
        if rng.chance(1, 5):
            # consecutive lines of EQUAL byte length between 2 KiB and 8 KiB with different contents
            n_ = rng.choice([2049, 3000, 4095, 4096, 4097, 8000])
            for q_ in range(3):
                lines.append(b'{"c":"COMMAND","ctx":"conn%d","attr":{"command":{"find":"c","filter":{"a":"' % q_ + bytes([97 + q_]) * n_ + b'"}}}}')
        if rng.chance(1, 6):
            lines.insert(rng.below(len(lines) + 1), rng.choice([b'{"c":"COMMAND","attr":{"command":{"find":"c","filter":{"p":"C:\\\\Users\\\\bob\\\\"}}}}', b'{"a":"x\\\\","b":"{"}']))
        if rng.chance(1, 8):
            lines.insert(0, rng.choice([b"\x1f\x8b junk that is not gzip", b"\x1f\x8b", b"\x1f\x8b\x08\x00"]))
        if rng.chance(1, 3):
            # the same entry twice in a row (and once more at the end): every occurrence is a line of its own
            j = rng.below(len(lines))
            lines.insert(j, lines[j])
            if rng.chance(1, 2):
                lines.append(lines[j])
        sep = b"\r\n" if rng.chance(1, 3) else b"\n"
        data = sep.join(lines) + (sep if rng.chance(2, 3) else b"")
        faults = []
        if rng.chance(1, 3):
            faults.append("c%d" % rng.choice([1, 7, 4096, 5000]))
        k = rng.below(4)
        if k == 1:
            faults.append("r%d" % rng.below(len(data) + 2))
        elif k == 2:
            faults.append("w%d" % rng.below(len(lines) + 1))
        ops.append(("%s%d" % (prefix, i), ["stream", Cfg(n=bool(i & 1)).s(), ",".join(faults) or "-", hx(data)]))
    # several FILES of one run (plain and .gz), one after the other in one process, against the model's per-file stream loop
    for i in range(max(2, count // 12)):
        g = G(rng.fork())
        files, kinds = [], ""
        for q_ in range(2 + rng.below(3)):
            ls = [to_json(g.line()).encode() if rng.chance(3, 4) else rng.choice([b"", b"not json", b'{"trunc":', b'{"a":1} x']) for _ in range(1 + rng.below(4))]
            files.append(b"\n".join(ls) + (b"\n" if rng.chance(2, 3) else b""))
            kinds += rng.choice("pg")
        if rng.chance(1, 2):
            files.append(files[0])
            kinds += kinds[0]
        ops.append(("%sf%d" % (prefix, i), ["files", [Cfg(), Cfg(n=True, w=True), Cfg(enc=3), Cfg(enc=3, b=True)][i % 4].s(), kinds] + [hx(d) for d in files]))
    # boundary of the scanner limit, with and without final newline / CR
    for j, n in enumerate([65534, 65535, 65536, 65537]):
        for k, tail in enumerate([b"", b"\n", b"\r\n", b"\r"]):
            body = b'{"a":"' + b"z" * (n - 8 - (1 if tail.startswith(b"\r") else 0)) + b'"}'
            ops.append(("%sb%d.%d" % (prefix, j, k), ["stream", Cfg().s(), "-", hx(b'{"first":1}\n' + body + tail + (b'{"after":2}\n' if tail.endswith(b"\n") else b""))]))
    return ops


SESSION_META = {}   # group id -> Cfg of the last session_ops call


def cmd_line(cmd, ns="shop.customers", extra=()):
    return Obj([("t", Obj([("$date", "2024-05-01T12:00:00.000+00:00")])), ("s", "I"), ("c", "COMMAND"), ("id", Num("51803")), ("ctx", "conn7"),
                ("msg", "Slow query"), ("attr", Obj([("type", "command"), ("ns", ns), ("command", cmd)] + list(extra)))])


def session_ops(tables, seed, count, prefix="H"):
    """Sessions: many lines under ONE configuration, processed by one harness process in order (the
    harness calls the setters once per run of equal configuration strings, as the CLI does). The model
    treats every line on its own, so any dependence of a line's output on the lines before it - a cache,
    a memo, a counter, an operator table changed in place - shows up as a disagreement. Every group
    (id prefix before the first '.') runs in its own harness process; most groups come in two orders."""
    rng = SplitMix(seed ^ 0x5E55)
    groups = []
    SESSION_META.clear()

    def group(cfg, trees, raw=()):
        SESSION_META["%s%d" % (prefix, len(groups))] = cfg
        names = set()
        for t in trees:
            all_strings(t, names)
        cs = cfg_str(cfg, None, extra_strings=names)
        g = len(groups)
        ops = []
        for i, t in enumerate(trees):
            ops.append(("%s%d.%d" % (prefix, g, i), ["line", cs, hx(to_json(t))]))
        for i, b in enumerate(raw):
            ops.append(("%s%d.r%d" % (prefix, g, i), ["line", cs, hx(b)]))
        groups.append(ops)

    def both(cfg, a, b):
        group(cfg, a + b)
        group(cfg, b + a)

    find = lambda flt, coll="customers", **kw: Obj([("find", coll), ("filter", flt)] + list(kw.items()) + [("$db", "shop")])
    agg = lambda pipe, coll="customers": Obj([("aggregate", coll), ("pipeline", pipe), ("$db", "shop")])

    # (a) a dotted key that spells a nested path, selective mode
    for a, b in [("user", "ssn"), ("a", "b"), ("p", "q")]:
        nested = [cmd_line(find(Obj([(a, Obj([(b, "zq1xs")]))]))), cmd_line(find(Obj([(a, Obj([(b, Obj([("$in", ["zq2xs", "zq3xs"])]))]))]))),
                  cmd_line(agg([Obj([("$match", Obj([(a, Obj([(b, "zq4xs")]))]))])]))]
        dotted = [cmd_line(find(Obj([(a + "." + b, "zq5xs")]))), cmd_line(find(Obj([(a + "." + b, Obj([("$in", ["zq6xs"])]))]))),
                  cmd_line(agg([Obj([("$match", Obj([(a + "." + b, "zq7xs")]))])]))]
        for c in (Cfg(re="^%s$" % b), Cfg(re="^%s$" % a, n=True), Cfg(re="^%s\\.%s$" % (a, b))):
            both(c, nested, dotted)
    # (b) a single key that spells a table path with dots, after / before the genuine nested path
    cases = []
    seen = set()
    for tname, path, vk, val in sweep_cases(tables):
        if len(path) >= 2 and (tname, path) not in seen:
            seen.add((tname, path))
            cases.append((tname, path))
    rng2 = SplitMix(seed ^ 0xB0B)
    if count < len(cases):
        cases = sorted(cases, key=lambda c: rng2.below(1 << 30))[:count]
    for tname, path in cases:
        lit = "zq9xs"
        genuine, alias = [], []
        for kind, tree in wrap_positions(tname, path, "zq8xs")[:2]:
            if kind == "stage":
                genuine.append(cmd_line(agg([tree])))
            elif kind == "query":
                genuine.append(cmd_line(find(tree)))
        full = ".".join(path)
        tail = ".".join(path[1:])
        if tname in ("agg", "sagg"):
            alias += [cmd_line(agg([Obj([(full, lit)])])), cmd_line(agg([Obj([(path[0], Obj([(tail, lit)]))])])), cmd_line(find(Obj([(full, lit)])))]
            alias.append(cmd_line(Obj([("insert", "customers"), ("documents", [Obj([(full, lit)])]), ("$db", "shop")])))
        elif tname == "search":
            alias += [cmd_line(agg([Obj([("$search", Obj([(full, lit)]))])])), cmd_line(agg([Obj([("$search", Obj([(path[0], Obj([(tail, lit)]))]))])])),
                      cmd_line(agg([Obj([("$search", Obj([("index", "default"), (full, lit)]))])]))]
        else:
            alias += [cmd_line(find(Obj([(full, lit)]))), cmd_line(find(Obj([("fld", Obj([(full, lit)]))]))), cmd_line(find(Obj([(path[0], Obj([(tail, lit)]))])))]
        both(Cfg(), genuine, alias)
    # (c) spellings of one e-mail address / one ordinary string
    e = "alice.smith@example.com"
    clean = [cmd_line(find(Obj([("m", e)])))]
    odd = [cmd_line(find(Obj([("m", v)]))) for v in (" " + e, e + " ", e.upper(), "\t" + e, e + "\n", "Alice.Smith@Example.COM", e + ".", "x" + e)]
    for c in (Cfg(), Cfg(repl="X"), Cfg(enc=1)):
        both(c, clean, odd)
    # (d) namespaces alternating under --redactFieldNames
    def nsline(ns):
        db, coll = ns.split(".", 1)
        return cmd_line(Obj([("find", coll), ("filter", Obj([("age", Obj([("$gt", Num("5"))])), ("name", "zq1xs")])), ("sort", Obj([("age", Num("1"))])), ("$db", db)]), ns=ns,
                        extra=[("planSummary", "IXSCAN { age: 1, name: -1 }")])
    chosen = [nsline("shop.customers"), nsline("shop.customers")]
    foreign = [nsline("other.coll"), nsline("shop.cust"), nsline("shop2.customers"), nsline("shop.customers2"), nsline("zzz.customers")]
    for c in (Cfg(eager=("shop.customers",)), Cfg(eager=("shop.",), w=True), Cfg(eager=("shop.customers", "nomatch"), n=True)):
        both(c, chosen, foreign)
        group(c, [chosen[0], foreign[0], chosen[1], foreign[1], foreign[2], chosen[0], foreign[3]])
    # (e) geo operators in selective mode: a path outside the pattern, then one inside it
    def geo(path, op="geoWithin", wrap=0):
        shape = Obj([("circle", Obj([("center", Obj([("type", "Point"), ("coordinates", [Num("91000137.5"), Num("91000237.25")])])), ("radius", Num("91000337"))]))]) if op == "geoWithin" else \
            Obj([("relation", "within"), ("geometry", Obj([("type", "Polygon"), ("coordinates", [[[Num("91000437"), Num("91000537")], [Num("91000637"), Num("91000737")]]])]))])
        o = Obj([(op, Obj([("path", path)] + list(shape)))])
        if wrap == 1:
            o = Obj([("compound", Obj([("must", [o])]))])
        elif wrap == 2:
            o = Obj([("compound", Obj([("filter", [o]), ("should", [Obj([("text", Obj([("query", "zq1xs"), ("path", path)]))])])]))])
        elif wrap == 3:
            o = Obj([("embeddedDocument", Obj([("path", "emb"), ("operator", o)]))])
        return cmd_line(agg([Obj([("$search", Obj([("index", "default")] + list(o)))]), Obj([("$limit", Num("5"))])]))
    for op in ("geoWithin", "geoShape"):
        for wrap in range(4):
            for c in (Cfg(re="^loc$", n=True), Cfg(re="loc", n=True, b=True), Cfg(re="^loc$")):
                both(c, [geo("other", op, wrap), geo("elsewhere", op, wrap)], [geo("loc", op, wrap), geo("loc", op, (wrap + 1) % 4)])
    # (f) a flood of lines cut inside nested containers, then ordinary lines
    good = [cmd_line(find(Obj([("k", "zq1xs"), ("n", Num("91000137"))])))]
    flood = [b'{"a":[[[[{"b":', b'{"a":{"b":{"c":[[[', b'{"c":"COMMAND","attr":{"command":{"filter":{"a":[[[{"x":1,}]]]}}}}', b'{"a":[[[[[[[[1 2]]]]]]]]}']
    nfl = 3200 if count >= 40 else 1800
    group(Cfg(n=True), good, raw=[flood[i % len(flood)] for i in range(nfl)])
    groups[-1].extend(("%s%d.t%d" % (prefix, len(groups) - 1, i), op[1]) for i, op in enumerate(groups[-1][:1] * 3))
    # (g) one literal in several classes, one after the other
    lit = "2024-05-01T12:00:00.000Z"
    oid = "65f0a1b2c3d4e5f6a7b8c9d0"
    multi = [cmd_line(find(Obj([("d", Obj([("$date", lit)]))]))), cmd_line(find(Obj([("d", lit)]))), cmd_line(find(Obj([("d", Obj([("$oid", oid)]))]))), cmd_line(find(Obj([("d", oid)]))),
             cmd_line(find(Obj([("d", Obj([("$oid", e)]))]))), cmd_line(find(Obj([("d", e)]))), cmd_line(find(Obj([("d", Obj([("$date", e)]))]))),
             cmd_line(find(Obj([("d", Obj([("$binary", Obj([("base64", "QUJD"), ("subType", "00")]))]))]))), cmd_line(find(Obj([("d", "QUJD")])))]
    for c in (Cfg(), Cfg(enc=1), Cfg(n=True, b=True, w=True)):
        both(c, multi[:5], multi[5:])
    # (h) grammar-generated sessions: many lines from one generator (shared field names and namespaces) under one configuration
    for i in range(max(2, count // 8)):
        g = G(rng.fork(), exotic=bool(i & 1))
        trees = [g.line() for _ in range(12 + rng.below(20))]
        trees += [other_line(rng, i) for _ in range(3)]
        sel = selective_cfgs(g.fields, rng)
        cands = [PRESETS[i % len(PRESETS)], sel[i % len(sel)], eager_cfgs(g.ns)[i % 4], Cfg(enc=1, w=True)]
        c = cands[i % len(cands)]
        group(c, trees)
        group(c, list(reversed(trees)))
    return groups


def go_exec_groups(groups):
    """every group in its own harness process, bracketed by a hash of the operator tables"""
    res = {}
    mutated = []
    for ops in groups:
        if not ops:
            continue
        gid = str(ops[0][0]).split(".")[0]
        r = go_exec([(gid + ".th0", ["tablehash"])] + ops + [(gid + ".th1", ["tablehash"])])
        if r.get(gid + ".th0") != r.get(gid + ".th1"):
            mutated.append(gid)
        res.update(r)
    return res, mutated


def norm_stream(res):
    # go: "<status> <hex> r=.. w=.. calls=.."   lean: "<status> <hex>"
    f = res.split(" ")
    return " ".join(f[:2]) if len(f) >= 2 else res


def find_table_mutation(ops):
    """smallest prefix of ops after which the operator tables differ from their initial value"""
    h0 = go_exec([("th", ["tablehash"])]).get("th")

    def changed(n):
        r = go_exec(ops[:n] + [("th", ["tablehash"])])
        return r.get("th") != h0
    if not changed(len(ops)):
        return None
    lo, hi = 0, len(ops)
    while hi - lo > 1:
        mid = (lo + hi) // 2
        if changed(mid):
            hi = mid
        else:
            lo = mid
    return ops[hi - 1]


def compare(ops, normalize=None, max_report=10):
    diffs = []
    if ops and isinstance(ops[0], list):     # grouped (session family)
        groups = ops
        ops = [o for grp in groups for o in grp]
        g, mutated = go_exec_groups(groups)
        for gid in mutated:
            grp = [grp for grp in groups if str(grp[0][0]).split(".")[0] == gid][0]
            op = find_table_mutation(grp)
            if op is not None:
                diffs.append((str(op[0]) + ".tables", op[1], "operator tables changed in place while processing this line", "operator tables are constants"))
    else:
        br = [("__th0", ["tablehash"])] + list(ops) + [("__th1", ["tablehash"])]
        g = go_exec(br)
        if g.get("__th0") != g.get("__th1"):
            op = find_table_mutation(list(ops))
            if op is not None:
                diffs.append((str(op[0]) + ".tables", op[1], "operator tables changed in place while processing this operation", "operator tables are constants"))
    m = lean_exec(ops)
    for oid, f in ops:
        a, b = g.get(str(oid)), m.get(str(oid))
        if f[0] == "stream" and a and b:
            a, b = norm_stream(a), norm_stream(b)
        if a != b:
            diffs.append((oid, f, a, b))
    return g, m, diffs


def describe(f, a, b):
    def show(x):
        if x is None:
            return "<no answer>"
        if x.startswith("ok "):
            try:
                return "ok " + unhx(x[3:])[:600]
            except Exception:
                return x[:600]
        if x.startswith("panic "):
            return "panic " + unhx(x[6:])[:300]
        try:
            return to_json(dec(x))[:600]
        except Exception:
            return x[:600]
    inp = f[-1]
    try:
        if f[0] in ("line", "linetree", "parse", "stream"):
            inp = unhx(f[-1])[:600]
        elif f[0] in ("query", "stage", "cmd", "print", "scalar"):
            inp = to_json(dec(f[-1]))[:600]
    except Exception:
        pass
    return {"op": f[0], "args": f[1:-1], "input": inp, "go": show(a), "model": show(b)}


def family_ops(fam, tables, seed, tier, intensify=False):
    big = tier == "thorough" or intensify
    if fam == "line":
        return line_ops(seed, 1500 if big else 150)[0]
    if fam == "other":
        return other_ops(seed, 300 if big else 40)
    if fam == "sweep":
        if big:
            return sweep_ops(tables)
        return sweep_ops(tables, cfgs=[Cfg(), Cfg(n=True, b=True, w=True), Cfg(re="^(fld|k|p)$")])
    if fam == "arb":
        return arb_ops(tables, seed, 20000 if big else 1500)
    if fam == "misc":
        return misc_ops(tables, seed, 3000 if big else 200)
    if fam == "text":
        return text_ops(seed, 2400 if big else 240)
    if fam == "stream":
        return stream_ops(seed, 400 if big else 40)
    if fam == "crypto":
        return crypto_ops(seed, 1200 if big else 120)
    if fam == "session":
        return session_ops(tables, seed, 400 if big else 24)
    raise KeyError(fam)
