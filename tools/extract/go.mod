module verifextract

go 1.23
