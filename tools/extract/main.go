// Translator, part 2: facts about the Go source of anonymongo that the Lean model and the
// property theorems depend on, read with go/parser + go/ast (std-lib only) from the working tree.
// Output: JSON on stdout.  A fact that can no longer be found is reported under "missing"; the
// caller treats that as a translator failure.
package main

import (
	"encoding/json"
	"fmt"
	"go/ast"
	"go/parser"
	"go/printer"
	"go/token"
	"os"
	"path/filepath"
	"sort"
	"strconv"
	"strings"
)

type Facts struct {
	DispatchKeys   []Dispatch          `json:"dispatchKeys"`   // redactOperation: cmd.Get("<k>") sites with the walkers called below them
	NestedOps      []Dispatch          `json:"nestedOps"`      // redactCommand: cmd.Get("<k>") sites below which redactOperation is called (explain, bulkWrite ops)
	AttrCmdKeys    []string            `json:"attrCmdKeys"`    // RedactMongoLog: attr.Get("<k>") whose value is handed to redactCommand
	GateComponents []string            `json:"gateComponents"` // RedactMongoLog: c == "<X>" literals
	GateMessages   []string            `json:"gateMessages"`   // RedactMongoLog: msg == "<X>" literals
	PrivUses       []Use               `json:"privUses"`       // every use of the Atlas private key identifiers
	Flags          []FlagDef           `json:"flags"`          // cobra flag bindings
	Setters        []SetterCall        `json:"setters"`        // SetXxx(var) calls in the redact Run closure, with nesting depth
	Globals        []Global            `json:"globals"`        // every package-level var of the non-test sources
	GlobalWrites   []GWrite            `json:"globalWrites"`   // every syntactic write / address-taking / method call on a package-level var, with the enclosing function
	GlobalRefs     []GRef              `json:"globalRefs"`     // number of identifier occurrences of each package-level var per function (reads and writes)
	Inits          []string            `json:"inits"`          // init functions and package-level initialisers that call functions: "file:func"
	AtlasLits      []AtlasLit          `json:"atlasLits"`      // format strings of the Atlas requests / file names and the request header literals (atlas.go, main.go)
	Validation     []RejectRule        `json:"validation"`     // the argument-validation chain of the redact Run closure, symbolically executed: ordered reject conditions
	ValidationUnk  []string            `json:"validationUnknown"` // constructs of the chain the translator could not express (a translator failure)
	Missing        []string            `json:"missing"`
	Fingerprints   map[string]string   `json:"fingerprints"`   // function name -> size of its printed body (evidence only)
}

type Global struct {
	Name string `json:"name"`
	File string `json:"file"`
}
type GRef struct {
	Var   string `json:"var"`
	Func  string `json:"func"`
	Count int    `json:"count"`
}
type GWrite struct {
	Var  string `json:"var"`
	Func string `json:"func"`
	Kind string `json:"kind"` // assign | incdec | delete | copy | clear | addr | method:<M> | range
	Pos  string `json:"pos"`
}

type Dispatch struct {
	Key     string   `json:"key"`
	Callees []string `json:"callees"`
	Guard   string   `json:"guard"` // "" or the key that must also be present (documents needs insert)
	Pos     string   `json:"pos"`
}
type Use struct {
	Ident string `json:"ident"`
	Kind  string `json:"kind"`
	Pos   string `json:"pos"`
}
type FlagDef struct {
	Name, Short, Var, Kind string
}
type AtlasLit struct {
	Kind string `json:"kind"` // sprintf | header | createTemp
	Func string `json:"func"`
	Text string `json:"text"`
}

// BX is a boolean expression over the presence atoms of the command line.
type BX struct {
	Op   string `json:"op"` // atom | not | and | or | true | false
	Name string `json:"name,omitempty"`
	A    *BX    `json:"a,omitempty"`
	B    *BX    `json:"b,omitempty"`
}

type RejectRule struct {
	Cond *BX    `json:"cond"`
	Pos  string `json:"pos"`
}

type SetterCall struct {
	Setter string `json:"setter"`
	Arg    string `json:"arg"`
	Depth  int    `json:"depth"` // 0 = unconditional statement of the Run closure
	Pos    string `json:"pos"`
}

var fset = token.NewFileSet()

func pos(n ast.Node) string {
	p := fset.Position(n.Pos())
	return fmt.Sprintf("%s:%d", filepath.Base(p.Filename), p.Line)
}

func strLit(e ast.Expr) (string, bool) {
	if b, ok := e.(*ast.BasicLit); ok && b.Kind == token.STRING {
		s, err := strconv.Unquote(b.Value)
		return s, err == nil
	}
	return "", false
}

func callName(c *ast.CallExpr) string {
	switch f := c.Fun.(type) {
	case *ast.Ident:
		return f.Name
	case *ast.SelectorExpr:
		if x, ok := f.X.(*ast.Ident); ok {
			return x.Name + "." + f.Sel.Name
		}
		return "." + f.Sel.Name
	}
	return ""
}

// getLit: X.Get("lit") -> (X, lit)
func getLit(e ast.Expr) (string, string, bool) {
	c, ok := e.(*ast.CallExpr)
	if !ok || len(c.Args) != 1 {
		return "", "", false
	}
	s, ok := c.Fun.(*ast.SelectorExpr)
	if !ok || s.Sel.Name != "Get" {
		return "", "", false
	}
	x, ok := s.X.(*ast.Ident)
	if !ok {
		return "", "", false
	}
	lit, ok := strLit(c.Args[0])
	return x.Name, lit, ok
}

func funcDecl(files []*ast.File, name string) *ast.FuncDecl {
	for _, f := range files {
		for _, d := range f.Decls {
			if fd, ok := d.(*ast.FuncDecl); ok && fd.Name.Name == name {
				return fd
			}
		}
	}
	return nil
}

func calleesIn(n ast.Node, interesting map[string]bool) []string {
	set := map[string]bool{}
	ast.Inspect(n, func(x ast.Node) bool {
		if c, ok := x.(*ast.CallExpr); ok {
			if nm := callName(c); interesting[nm] {
				set[nm] = true
			}
		}
		return true
	})
	var out []string
	for k := range set {
		out = append(out, k)
	}
	sort.Strings(out)
	return out
}

func main() {
	src := os.Args[1]
	var files []*ast.File
	byName := map[string]*ast.File{}
	all, _ := filepath.Glob(filepath.Join(src, "*.go"))
	var fileNames []string
	for _, p := range all {
		if !strings.HasSuffix(p, "_test.go") {
			fileNames = append(fileNames, filepath.Base(p))
		}
	}
	sort.Strings(fileNames)
	for _, fn := range fileNames {
		f, err := parser.ParseFile(fset, filepath.Join(src, fn), nil, 0)
		if err != nil {
			fmt.Fprintln(os.Stderr, "parse error:", err)
			os.Exit(2)
		}
		files = append(files, f)
		byName[fn] = f
	}
	facts := Facts{Fingerprints: map[string]string{}}
	walkers := map[string]bool{"redactQueryValues": true, "redactArrayValues": true, "redactArrayValuesWithKey": true, "redactPipelineStage": true}

	// ---- redactOperation dispatch (walkers per key), and redactCommand's nested operations (explain, bulkWrite ops)
	for _, spec := range []struct {
		fn      string
		callees map[string]bool
		into    *[]Dispatch
	}{{"redactOperation", walkers, &facts.DispatchKeys}, {"redactCommand", map[string]bool{"redactOperation": true}, &facts.NestedOps}} {
	  walkers := spec.callees
	  into := spec.into
	  if fd := funcDecl(files, spec.fn); fd != nil {
		var visit func(stmts []ast.Stmt, guard string)
		visit = func(stmts []ast.Stmt, guard string) {
			for _, st := range stmts {
				ifs, ok := st.(*ast.IfStmt)
				if !ok || ifs.Init == nil {
					continue
				}
				as, ok := ifs.Init.(*ast.AssignStmt)
				if !ok || len(as.Rhs) != 1 {
					continue
				}
				recv, key, ok := getLit(as.Rhs[0])
				if !ok || recv != "cmd" {
					continue
				}
				callees := calleesIn(ifs.Body, walkers)
				nested := false
				for _, inner := range ifs.Body.List {
					if ii, ok := inner.(*ast.IfStmt); ok && ii.Init != nil {
						if ias, ok := ii.Init.(*ast.AssignStmt); ok && len(ias.Rhs) == 1 {
							if r2, _, ok := getLit(ias.Rhs[0]); ok && r2 == "cmd" {
								nested = true
							}
						}
					}
				}
				if nested {
					// a presence guard (`if _, isInsert := cmd.Get("insert"); isInsert { if docs, ok := cmd.Get("documents") ...`)
					visit(ifs.Body.List, key)
					continue
				}
				if len(callees) == 0 {
					continue
				}
				*into = append(*into, Dispatch{Key: key, Callees: callees, Guard: guard, Pos: pos(ifs)})
			}
		}
		visit(fd.Body.List, "")
		// the operation itself must be redacted unconditionally: a top-level statement `redactOperation(cmd, …)`
		if spec.fn == "redactCommand" {
			direct := false
			for _, st := range fd.Body.List {
				if es, ok := st.(*ast.ExprStmt); ok {
					if c, ok := es.X.(*ast.CallExpr); ok && callName(c) == "redactOperation" && len(c.Args) >= 1 {
						if id, ok := c.Args[0].(*ast.Ident); ok && id.Name == "cmd" {
							direct = true
						}
					}
				}
			}
			if !direct {
				facts.Missing = append(facts.Missing, "redactCommand: unconditional redactOperation(cmd, …)")
			}
		}
	  } else {
		facts.Missing = append(facts.Missing, "func "+spec.fn)
	  }
	}

	// ---- RedactMongoLog: command attributes, gate
	if fd := funcDecl(files, "RedactMongoLog"); fd != nil {
		// variables assigned from attr.Get("<k>") and later passed (through a type assertion) to redactCommand
		gets := map[string]string{} // var -> key
		ast.Inspect(fd, func(x ast.Node) bool {
			if as, ok := x.(*ast.AssignStmt); ok && len(as.Rhs) == 1 {
				if recv, key, ok := getLit(as.Rhs[0]); ok && recv == "attr" {
					if id, ok := as.Lhs[0].(*ast.Ident); ok {
						gets[id.Name] = key
					}
				}
			}
			return true
		})
		seen := map[string]bool{}
		ast.Inspect(fd, func(x ast.Node) bool {
			ifs, ok := x.(*ast.IfStmt)
			if !ok || ifs.Init == nil {
				return true
			}
			as, ok := ifs.Init.(*ast.AssignStmt)
			if !ok || len(as.Rhs) != 1 {
				return true
			}
			ta, ok := as.Rhs[0].(*ast.TypeAssertExpr)
			if !ok {
				return true
			}
			id, ok := ta.X.(*ast.Ident)
			if !ok {
				return true
			}
			key, ok := gets[id.Name]
			if !ok {
				return true
			}
			if len(calleesIn(ifs.Body, map[string]bool{"redactCommand": true})) > 0 && !seen[key] {
				seen[key] = true
				facts.AttrCmdKeys = append(facts.AttrCmdKeys, key)
			}
			return true
		})
		ast.Inspect(fd, func(x ast.Node) bool {
			if be, ok := x.(*ast.BinaryExpr); ok && be.Op == token.EQL {
				if id, ok := be.X.(*ast.Ident); ok {
					if lit, ok := strLit(be.Y); ok {
						if id.Name == "c" {
							facts.GateComponents = append(facts.GateComponents, lit)
						} else if id.Name == "msg" {
							facts.GateMessages = append(facts.GateMessages, lit)
						}
					}
				}
			}
			return true
		})
	} else {
		facts.Missing = append(facts.Missing, "func RedactMongoLog")
	}

	// ---- uses of the private key
	names := map[string]bool{"privateKey": true, "atlasPrivateKey": true}
	passThrough := map[string]bool{"c.getAtlasClusterInfo": true, "c.downloadClusterLogsForHost": true, "client.DownloadClusterLogs": true}
	for _, fn := range []string{"atlas.go", "main.go"} {
		f := byName[fn]
		var stack []ast.Node
		ast.Inspect(f, func(x ast.Node) bool {
			if x == nil {
				stack = stack[:len(stack)-1]
				return true
			}
			stack = append(stack, x)
			id, ok := x.(*ast.Ident)
			if !ok || !names[id.Name] {
				return true
			}
			kind := "other"
			if len(stack) >= 2 {
				switch p := stack[len(stack)-2].(type) {
				case *ast.Field:
					kind = "param"
				case *ast.ValueSpec:
					kind = "declaration"
				case *ast.KeyValueExpr:
					if k, ok := p.Key.(*ast.Ident); ok && k.Name == "Password" && p.Value == x {
						kind = "digestPassword"
						// the composite literal must be digest.Transport
						if len(stack) >= 3 {
							if cl, ok := stack[len(stack)-3].(*ast.CompositeLit); ok {
								var sb strings.Builder
								printer.Fprint(&sb, fset, cl.Type)
								if sb.String() != "digest.Transport" {
									kind = "other:composite " + sb.String()
								}
							}
						}
					}
				case *ast.AssignStmt:
					var sb strings.Builder
					printer.Fprint(&sb, fset, p)
					t := sb.String()
					if t == "privateKey := atlasPrivateKey" || t == `privateKey = os.Getenv("ATLAS_PRIVATE_KEY")` {
						kind = "assign"
					} else {
						kind = "other:assign " + t
					}
				case *ast.BinaryExpr:
					if lit, ok := strLit(p.Y); ok && lit == "" && (p.Op == token.EQL || p.Op == token.NEQ) {
						kind = "emptyTest"
					}
				case *ast.CallExpr:
					nm := callName(p)
					if passThrough[nm] {
						kind = "passThrough"
					} else {
						kind = "other:call " + nm
					}
				case *ast.UnaryExpr:
					if p.Op == token.AND && len(stack) >= 3 {
						if c, ok := stack[len(stack)-3].(*ast.CallExpr); ok && strings.HasSuffix(callName(c), ".StringVarP") {
							kind = "flagBinding"
						}
					}
				}
			}
			facts.PrivUses = append(facts.PrivUses, Use{Ident: id.Name, Kind: kind, Pos: pos(id)})
			return true
		})
	}

	// ---- flags and setters (main.go)
	mainFile := byName["main.go"]
	ast.Inspect(mainFile, func(x ast.Node) bool {
		c, ok := x.(*ast.CallExpr)
		if !ok {
			return true
		}
		nm := callName(c)
		for _, suf := range []string{"StringVarP", "BoolVarP", "IntVarP", "StringArrayVarP"} {
			if strings.HasSuffix(nm, "."+suf) && len(c.Args) >= 3 {
				u, ok := c.Args[0].(*ast.UnaryExpr)
				if !ok {
					continue
				}
				v, ok := u.X.(*ast.Ident)
				if !ok {
					continue
				}
				name, _ := strLit(c.Args[1])
				short, _ := strLit(c.Args[2])
				facts.Flags = append(facts.Flags, FlagDef{Name: name, Short: short, Var: v.Name, Kind: suf})
			}
		}
		return true
	})
	// the Run closure of the redact command: the FuncLit that contains the call SetRedactedString
	var runLit *ast.FuncLit
	ast.Inspect(mainFile, func(x ast.Node) bool {
		if fl, ok := x.(*ast.FuncLit); ok && runLit == nil {
			if len(calleesIn(fl.Body, map[string]bool{"SetRedactedString": true})) > 0 {
				runLit = fl
			}
		}
		return true
	})
	if runLit == nil {
		facts.Missing = append(facts.Missing, "redact Run closure (call of SetRedactedString)")
	} else {
		var walk func(stmts []ast.Stmt, depth int)
		record := func(e ast.Expr, depth int) {
			if c, ok := e.(*ast.CallExpr); ok {
				nm := callName(c)
				if strings.HasPrefix(nm, "Set") && len(c.Args) == 1 {
					var sb strings.Builder
					printer.Fprint(&sb, fset, c.Args[0])
					facts.Setters = append(facts.Setters, SetterCall{Setter: nm, Arg: sb.String(), Depth: depth, Pos: pos(c)})
				}
			}
		}
		walk = func(stmts []ast.Stmt, depth int) {
			for _, st := range stmts {
				switch s := st.(type) {
				case *ast.ExprStmt:
					record(s.X, depth)
				case *ast.IfStmt:
					walk(s.Body.List, depth+1)
					if eb, ok := s.Else.(*ast.BlockStmt); ok {
						walk(eb.List, depth+1)
					} else if ei, ok := s.Else.(*ast.IfStmt); ok {
						walk([]ast.Stmt{ei}, depth)
					}
				case *ast.ForStmt:
					walk(s.Body.List, depth+1)
				case *ast.RangeStmt:
					walk(s.Body.List, depth+1)
				case *ast.BlockStmt:
					walk(s.List, depth+1)
				}
			}
		}
		walk(runLit.Body.List, 0)
		validationChain(runLit, &facts)
	}
	atlasLiterals(files, &facts)

	for _, nm := range []string{"RedactMongoLog", "redactCommand", "redactOperation", "redactNamespace", "redactNamespaceFields", "redactPipelineStage", "redactQueryValues", "redactArrayValuesWithKey", "redactScalarValue",
		"redactString", "getOp", "traverseMapPath", "augmentOp", "HashName", "IsEmail", "ParsePlanSummary", "redactFieldNamesFromPlanSummary", "UnmarshalOrdered", "parseValue",
		"marshalOrderedValue", "processMongoLogStream", "ProcessMongoLogFile", "DownloadClusterLogs", "downloadClusterLogsForHost", "getAtlasClusterInfo", "GetHostsFromConnectionString",
		"GetStartAndEndDates", "ReadKeyFromFile", "WriteKeyToFile", "FileExists"} {
		if fd := funcDecl(files, nm); fd != nil {
			var sb strings.Builder
			printer.Fprint(&sb, fset, fd)
			h := uint64(14695981039346656037)
			for _, b := range []byte(sb.String()) {
				h = (h ^ uint64(b)) * 1099511628211
			}
			facts.Fingerprints[nm] = fmt.Sprintf("%016x", h)
		} else {
			facts.Missing = append(facts.Missing, "func "+nm)
		}
	}
	globalState(files, &facts)
	for _, need := range []string{"anonymizer.go", "main.go", "atlas.go", "helpers.go", "reader.go", "encryption.go"} {
		if byName[need] == nil {
			facts.Missing = append(facts.Missing, "file "+need)
		}
	}
	enc := json.NewEncoder(os.Stdout)
	enc.SetIndent("", " ")
	enc.Encode(facts)
}


// ---- package-level state: which variables exist, and who can change them
func rootIdent(e ast.Expr) *ast.Ident {
	for {
		switch x := e.(type) {
		case *ast.Ident:
			return x
		case *ast.IndexExpr:
			e = x.X
		case *ast.SelectorExpr:
			e = x.X
		case *ast.StarExpr:
			e = x.X
		case *ast.ParenExpr:
			e = x.X
		case *ast.SliceExpr:
			e = x.X
		default:
			return nil
		}
	}
}

func globalState(files []*ast.File, facts *Facts) {
	declPos := map[token.Pos]bool{}
	isGlobal := map[string]bool{}
	for _, f := range files {
		fn := filepath.Base(fset.Position(f.Pos()).Filename)
		for _, d := range f.Decls {
			gd, ok := d.(*ast.GenDecl)
			if !ok || gd.Tok != token.VAR {
				continue
			}
			for _, sp := range gd.Specs {
				vs := sp.(*ast.ValueSpec)
				for _, nm := range vs.Names {
					if nm.Name == "_" {
						continue
					}
					facts.Globals = append(facts.Globals, Global{Name: nm.Name, File: fn})
					isGlobal[nm.Name] = true
					declPos[nm.Pos()] = true
				}
				for _, v := range vs.Values {
					hasCall := false
					ast.Inspect(v, func(x ast.Node) bool {
						if _, ok := x.(*ast.FuncLit); ok {
							return false
						}
						if c, ok := x.(*ast.CallExpr); ok {
							nm := callName(c)
							if nm != "make" && nm != "new" && nm != "len" && !strings.HasPrefix(nm, "regexp.") && !strings.HasPrefix(nm, "errors.") && !strings.HasPrefix(nm, "orderedmap.") {
								hasCall = true
							}
						}
						return true
					})
					if hasCall {
						facts.Inits = append(facts.Inits, fn+":var "+vs.Names[0].Name)
					}
				}
			}
		}
	}
	ref := func(id *ast.Ident) bool {
		if id == nil || !isGlobal[id.Name] {
			return false
		}
		return id.Obj == nil || declPos[id.Obj.Pos()]
	}
	for _, f := range files {
		fn := filepath.Base(fset.Position(f.Pos()).Filename)
		for _, d := range f.Decls {
			var body ast.Node
			name := ""
			switch x := d.(type) {
			case *ast.FuncDecl:
				if x.Body == nil {
					continue
				}
				body = x.Body
				name = x.Name.Name
				if x.Recv != nil && len(x.Recv.List) == 1 {
					var sb strings.Builder
					printer.Fprint(&sb, fset, x.Recv.List[0].Type)
					name = "(" + sb.String() + ")." + name
				}
				if x.Name.Name == "init" && x.Recv == nil {
					facts.Inits = append(facts.Inits, fn+":init")
				}
			case *ast.GenDecl:
				if x.Tok != token.VAR {
					continue
				}
				body = x
				name = "<package initialiser " + fn + ">"
			default:
				continue
			}
			add := func(id *ast.Ident, kind string, at ast.Node) {
				if ref(id) {
					facts.GlobalWrites = append(facts.GlobalWrites, GWrite{Var: id.Name, Func: name, Kind: kind, Pos: pos(at)})
				}
			}
			refCount := map[string]int{}
			ast.Inspect(body, func(n ast.Node) bool {
				if vs, ok := n.(*ast.ValueSpec); ok {
					if _, isDecl := d.(*ast.GenDecl); isDecl {
						// package-level declaration: only the initialiser expressions are uses
						for _, v := range vs.Values {
							ast.Inspect(v, func(m ast.Node) bool {
								if id, ok := m.(*ast.Ident); ok && ref(id) {
									refCount[id.Name]++
								}
								return true
							})
						}
						return false
					}
				}
				if id, ok := n.(*ast.Ident); ok && ref(id) {
					refCount[id.Name]++
				}
				return true
			})
			var rk []string
			for k := range refCount {
				rk = append(rk, k)
			}
			sort.Strings(rk)
			for _, k := range rk {
				facts.GlobalRefs = append(facts.GlobalRefs, GRef{Var: k, Func: name, Count: refCount[k]})
			}
			ast.Inspect(body, func(n ast.Node) bool {
				switch x := n.(type) {
				case *ast.AssignStmt:
					if x.Tok == token.DEFINE {
						return true
					}
					for _, l := range x.Lhs {
						add(rootIdent(l), "assign", x)
					}
				case *ast.IncDecStmt:
					add(rootIdent(x.X), "incdec", x)
				case *ast.RangeStmt:
					if x.Tok == token.ASSIGN {
						if x.Key != nil {
							add(rootIdent(x.Key), "range", x)
						}
						if x.Value != nil {
							add(rootIdent(x.Value), "range", x)
						}
					}
				case *ast.UnaryExpr:
					if x.Op == token.AND {
						add(rootIdent(x.X), "addr", x)
					}
				case *ast.CallExpr:
					nm := callName(x)
					if (nm == "delete" || nm == "copy" || nm == "clear") && len(x.Args) >= 1 {
						add(rootIdent(x.Args[0]), nm, x)
					}
					if se, ok := x.Fun.(*ast.SelectorExpr); ok {
						if id := rootIdent(se.X); id != nil && ref(id) {
							add(id, "method:"+se.Sel.Name, x)
						}
					}
				}
				return true
			})
		}
	}
	sort.Slice(facts.Globals, func(i, j int) bool { return facts.Globals[i].Name < facts.Globals[j].Name })
	sort.Strings(facts.Inits)
}


// ---------------------------------------------------------------------------------------------
// The argument-validation chain of `redact` (everything in the Run closure before the first
// Set...() call), symbolically executed over presence atoms: which flag combinations reach an
// os.Exit.  The result is an ordered list of reject conditions; the first that holds rejects.

func bAtom(n string) *BX { return &BX{Op: "atom", Name: n} }
func bNot(a *BX) *BX {
	if a.Op == "true" {
		return &BX{Op: "false"}
	}
	if a.Op == "false" {
		return &BX{Op: "true"}
	}
	return &BX{Op: "not", A: a}
}
func bAnd(a, b *BX) *BX {
	if a.Op == "true" {
		return b
	}
	if b.Op == "true" {
		return a
	}
	return &BX{Op: "and", A: a, B: b}
}
func bOr(a, b *BX) *BX {
	if a.Op == "false" {
		return b
	}
	if b.Op == "false" {
		return a
	}
	return &BX{Op: "or", A: a, B: b}
}
func bIte(c, t, e *BX) *BX { return bOr(bAnd(c, t), bAnd(bNot(c), e)) }

// "is set" meaning of the flag variables of main.go
var presenceAtoms = map[string]string{
	"redactedFieldsRegexp": "regexp", "eagerRedactionPaths": "fieldNames", "atlasLogStartDate": "start", "atlasLogEndDate": "end_",
	"atlasProjectId": "project", "atlasClusterName": "cluster", "atlasPublicKey": "pub", "atlasPrivateKey": "priv",
	"outputFile": "out", "encrypt": "encrypt", "stdinHasData": "stdin", "args": "file",
}

type symEnv struct {
	set   map[string]*BX // variable -> "is set / is true"
	facts *Facts
}

func (e *symEnv) unknown(n ast.Node, what string) *BX {
	var sb strings.Builder
	printer.Fprint(&sb, fset, n)
	e.facts.ValidationUnk = append(e.facts.ValidationUnk, what+": "+sb.String()+" @"+pos(n))
	return &BX{Op: "false"}
}

func (e *symEnv) isSet(x ast.Expr) *BX {
	switch t := x.(type) {
	case *ast.Ident:
		if v, ok := e.set[t.Name]; ok {
			return v
		}
		if a, ok := presenceAtoms[t.Name]; ok {
			return bAtom(a)
		}
	case *ast.CallExpr:
		if callName(t) == "os.Getenv" && len(t.Args) == 1 {
			if lit, ok := strLit(t.Args[0]); ok && (lit == "ATLAS_PUBLIC_KEY" || lit == "ATLAS_PRIVATE_KEY") {
				return bAtom("env")
			}
		}
		if id, ok := t.Fun.(*ast.Ident); ok && id.Name == "len" && len(t.Args) == 1 {
			return e.isSet(t.Args[0])
		}
	case *ast.ParenExpr:
		return e.isSet(t.X)
	}
	return e.unknown(x, "value")
}

func isZeroLit(x ast.Expr) bool {
	if lit, ok := strLit(x); ok && lit == "" {
		return true
	}
	if bl, ok := x.(*ast.BasicLit); ok && bl.Kind == token.INT && bl.Value == "0" {
		return true
	}
	return false
}

func (e *symEnv) cond(x ast.Expr) *BX {
	switch t := x.(type) {
	case *ast.ParenExpr:
		return e.cond(t.X)
	case *ast.UnaryExpr:
		if t.Op == token.NOT {
			return bNot(e.cond(t.X))
		}
	case *ast.BinaryExpr:
		switch t.Op {
		case token.LAND:
			return bAnd(e.cond(t.X), e.cond(t.Y))
		case token.LOR:
			return bOr(e.cond(t.X), e.cond(t.Y))
		case token.NEQ, token.EQL, token.GTR:
			// X != "" / X != 0 / len(X) > 0 / len(args) == 1 / X == "" / X == 0
			var base *BX
			if isZeroLit(t.Y) {
				base = e.isSet(t.X)
				if t.Op == token.EQL {
					return bNot(base)
				}
				return base
			}
			if bl, ok := t.Y.(*ast.BasicLit); ok && bl.Kind == token.INT && bl.Value == "1" && t.Op == token.EQL {
				if c, ok := t.X.(*ast.CallExpr); ok {
					if id, ok := c.Fun.(*ast.Ident); ok && id.Name == "len" && len(c.Args) == 1 {
						if a, ok := c.Args[0].(*ast.Ident); ok && a.Name == "args" {
							return bAtom("file")
						}
					}
				}
			}
		}
	case *ast.Ident:
		if t.Name == "true" {
			return &BX{Op: "true"}
		}
		if t.Name == "false" {
			return &BX{Op: "false"}
		}
		return e.isSet(t)
	}
	return e.unknown(x, "condition")
}

func containsExit(stmts []ast.Stmt) bool {
	for _, st := range stmts {
		if es, ok := st.(*ast.ExprStmt); ok {
			if c, ok := es.X.(*ast.CallExpr); ok && callName(c) == "os.Exit" {
				return true
			}
		}
	}
	return false
}

// exec runs the statements under path condition pc; returns false when the chain ends (first Set...() call)
func (e *symEnv) exec(stmts []ast.Stmt, pc *BX) bool {
	for _, st := range stmts {
		switch s := st.(type) {
		case *ast.ExprStmt:
			if c, ok := s.X.(*ast.CallExpr); ok {
				nm := callName(c)
				if strings.HasPrefix(nm, "Set") {
					return false
				}
				if nm == "os.Exit" {
					e.facts.Validation = append(e.facts.Validation, RejectRule{Cond: pc, Pos: pos(c)})
				}
			}
		case *ast.IfStmt:
			if s.Init != nil {
				e.unknown(s, "if with init statement")
			}
			c := e.cond(s.Cond)
			if !e.exec(s.Body.List, bAnd(pc, c)) {
				return false
			}
			switch el := s.Else.(type) {
			case *ast.BlockStmt:
				if !e.exec(el.List, bAnd(pc, bNot(c))) {
					return false
				}
			case *ast.IfStmt:
				if !e.exec([]ast.Stmt{el}, bAnd(pc, bNot(c))) {
					return false
				}
			}
		case *ast.AssignStmt:
			// tracked: x := y / x = y / x = os.Getenv(..) / b := <bool expr>; everything else is ignored unless it writes a tracked name
			if len(s.Lhs) == 1 && len(s.Rhs) == 1 {
				if id, ok := s.Lhs[0].(*ast.Ident); ok {
					switch id.Name {
					case "publicKey", "privateKey":
						old, had := e.set[id.Name]
						nv := e.isSet(s.Rhs[0])
						if had && pc.Op != "true" {
							nv = bIte(pc, nv, old)
						}
						e.set[id.Name] = nv
					case "atlasParamsSet":
						e.set[id.Name] = e.cond(s.Rhs[0])
					case "inputFile", "useStdin", "stdinHasData":
					default:
						if _, tracked := presenceAtoms[id.Name]; tracked {
							e.unknown(s, "assignment to a flag variable inside the validation chain")
						}
					}
				}
			} else {
				for _, l := range s.Lhs {
					if id, ok := l.(*ast.Ident); ok {
						if _, tracked := presenceAtoms[id.Name]; tracked && id.Name != "args" {
							e.unknown(s, "assignment to a flag variable inside the validation chain")
						}
					}
				}
			}
		case *ast.DeclStmt:
		case *ast.ReturnStmt:
			e.facts.Validation = append(e.facts.Validation, RejectRule{Cond: pc, Pos: pos(s)})
			e.unknown(s, "return inside the validation chain (a job left without exit status 1)")
		default:
			e.unknown(st, "statement")
		}
	}
	return true
}

func validationChain(runLit *ast.FuncLit, facts *Facts) {
	e := &symEnv{set: map[string]*BX{}, facts: facts}
	// path conditions inside exec are RELATIVE to the enclosing ifs; assignments under a condition use ite with it.
	e.exec(runLit.Body.List, &BX{Op: "true"})
	if len(facts.Validation) == 0 {
		facts.Missing = append(facts.Missing, "validation chain of the redact Run closure")
	}
}


// format strings and header literals that shape the Atlas requests and the per-host file names
func atlasLiterals(files []*ast.File, facts *Facts) {
	for _, f := range files {
		base := filepath.Base(fset.Position(f.Pos()).Filename)
		if base != "atlas.go" && base != "main.go" {
			continue
		}
		for _, d := range f.Decls {
			fd, ok := d.(*ast.FuncDecl)
			if !ok || fd.Body == nil {
				continue
			}
			ast.Inspect(fd.Body, func(x ast.Node) bool {
				c, ok := x.(*ast.CallExpr)
				if !ok {
					return true
				}
				nm := callName(c)
				if sel, ok := c.Fun.(*ast.SelectorExpr); ok && (sel.Sel.Name == "Set" || sel.Sel.Name == "Add") {
					if inner, ok := sel.X.(*ast.SelectorExpr); ok && inner.Sel.Name == "Header" {
						nm = "Header." + sel.Sel.Name
					}
				}
				if sel, ok := c.Fun.(*ast.SelectorExpr); ok && sel.Sel.Name == "SetBasicAuth" {
					nm = "x.SetBasicAuth"
				}
				switch {
				case nm == "fmt.Sprintf" && len(c.Args) > 0:
					if lit, ok := strLit(c.Args[0]); ok && (strings.Contains(lit, "/api/atlas") || strings.Contains(lit, ".log.gz") || lit == "%s.%d") {
						facts.AtlasLits = append(facts.AtlasLits, AtlasLit{Kind: "sprintf", Func: fd.Name.Name, Text: lit})
					}
				case strings.HasSuffix(nm, "Header.Set") || strings.HasSuffix(nm, "Header.Add"):
					if len(c.Args) == 2 {
						k, ok1 := strLit(c.Args[0])
						v, ok2 := strLit(c.Args[1])
						if ok1 && ok2 {
							facts.AtlasLits = append(facts.AtlasLits, AtlasLit{Kind: "header", Func: fd.Name.Name, Text: k + ": " + v})
						} else {
							var sb strings.Builder
							printer.Fprint(&sb, fset, c)
							facts.AtlasLits = append(facts.AtlasLits, AtlasLit{Kind: "header-dynamic", Func: fd.Name.Name, Text: sb.String()})
						}
					}
				case nm == "req.SetBasicAuth" || strings.HasSuffix(nm, ".SetBasicAuth"):
					facts.AtlasLits = append(facts.AtlasLits, AtlasLit{Kind: "basic-auth", Func: fd.Name.Name, Text: nm})
				}
				return true
			})
		}
	}
}
