// Translator, part 2: facts about the Go source of anonymongo that the Lean model and the
// property theorems depend on, read with go/parser + go/ast (std-lib only) from the working tree.
// Output: JSON on stdout.  A fact that can no longer be found is reported under "missing"; the
// caller treats that as a translator failure.
package main

import (
	"encoding/json"
	"fmt"
	"go/ast"
	"go/parser"
	"go/printer"
	"go/token"
	"os"
	"path/filepath"
	"sort"
	"strconv"
	"strings"
)

type Facts struct {
	DispatchKeys   []Dispatch          `json:"dispatchKeys"`   // redactOperation: cmd.Get("<k>") sites with the walkers called below them
	NestedOps      []Dispatch          `json:"nestedOps"`      // redactCommand: cmd.Get("<k>") sites below which redactOperation is called (explain, bulkWrite ops)
	AttrCmdKeys    []string            `json:"attrCmdKeys"`    // RedactMongoLog: attr.Get("<k>") whose value is handed to redactCommand
	GateComponents []string            `json:"gateComponents"` // RedactMongoLog: c == "<X>" literals
	GateMessages   []string            `json:"gateMessages"`   // RedactMongoLog: msg == "<X>" literals
	PrivUses       []Use               `json:"privUses"`       // every use of the Atlas private key identifiers
	Flags          []FlagDef           `json:"flags"`          // cobra flag bindings
	Setters        []SetterCall        `json:"setters"`        // SetXxx(var) calls in the redact Run closure, with nesting depth
	Globals        []Global            `json:"globals"`        // every package-level var of the non-test sources
	GlobalWrites   []GWrite            `json:"globalWrites"`   // every syntactic write / address-taking / method call on a package-level var, with the enclosing function
	GlobalRefs     []GRef              `json:"globalRefs"`     // number of identifier occurrences of each package-level var per function (reads and writes)
	Inits          []string            `json:"inits"`          // init functions and package-level initialisers that call functions: "file:func"
	AtlasLits      []AtlasLit          `json:"atlasLits"`      // format strings of the Atlas requests / file names and the request header literals (atlas.go, main.go)
	Validation     []RejectRule        `json:"validation"`     // the argument-validation chain of the redact Run closure, symbolically executed: ordered reject conditions
	ValidationUnk  []string            `json:"validationUnknown"` // constructs of the chain the translator could not express (a translator failure)
	Missing        []string            `json:"missing"`
	CleanupExits   []Use               `json:"cleanupExits"`   // every way out of the Run closure once the downloaded logs exist: (kind: cleaned | bare | defer | none, pos)
	Window         string              `json:"window"`         // GetStartAndEndDates translated to a Lean expression over now / atlasLogStartDate / atlasLogEndDate
	WindowUnk      []string            `json:"windowUnknown"`
	KeyLits        []string            `json:"keyLits"`        // string literals in key positions of the redaction path (comparisons, case clauses, call arguments, list elements)
	Fingerprints   map[string]string   `json:"fingerprints"`   // function name -> size of its printed body (evidence only)
}

type Global struct {
	Name string `json:"name"`
	File string `json:"file"`
}
type GRef struct {
	Var   string `json:"var"`
	Func  string `json:"func"`
	Count int    `json:"count"`
}
type GWrite struct {
	Var  string `json:"var"`
	Func string `json:"func"`
	Kind string `json:"kind"` // assign | incdec | delete | copy | clear | addr | method:<M> | range
	Pos  string `json:"pos"`
}

type Dispatch struct {
	Key     string   `json:"key"`
	Callees []string `json:"callees"`
	Guard   string   `json:"guard"` // "" or the key that must also be present (documents needs insert)
	Pos     string   `json:"pos"`
}
type Use struct {
	Ident string `json:"ident"`
	Kind  string `json:"kind"`
	Pos   string `json:"pos"`
}
type FlagDef struct {
	Name, Short, Var, Kind string
}
type AtlasLit struct {
	Kind string `json:"kind"` // sprintf | header | createTemp
	Func string `json:"func"`
	Text string `json:"text"`
}

// BX is a boolean expression over the presence atoms of the command line.
type BX struct {
	Op   string `json:"op"` // atom | not | and | or | true | false
	Name string `json:"name,omitempty"`
	A    *BX    `json:"a,omitempty"`
	B    *BX    `json:"b,omitempty"`
}

type RejectRule struct {
	Cond *BX    `json:"cond"`
	Pos  string `json:"pos"`
}

type SetterCall struct {
	Setter string `json:"setter"`
	Arg    string `json:"arg"`
	Depth  int    `json:"depth"` // 0 = unconditional statement of the Run closure
	Pos    string `json:"pos"`
}

var fset = token.NewFileSet()

func pos(n ast.Node) string {
	p := fset.Position(n.Pos())
	return fmt.Sprintf("%s:%d", filepath.Base(p.Filename), p.Line)
}

func strLit(e ast.Expr) (string, bool) {
	if b, ok := e.(*ast.BasicLit); ok && b.Kind == token.STRING {
		s, err := strconv.Unquote(b.Value)
		return s, err == nil
	}
	return "", false
}

func callName(c *ast.CallExpr) string {
	switch f := c.Fun.(type) {
	case *ast.Ident:
		return f.Name
	case *ast.SelectorExpr:
		if x, ok := f.X.(*ast.Ident); ok {
			return x.Name + "." + f.Sel.Name
		}
		return "." + f.Sel.Name
	}
	return ""
}

// getLit: X.Get("lit") -> (X, lit)
func getLit(e ast.Expr) (string, string, bool) {
	c, ok := e.(*ast.CallExpr)
	if !ok || len(c.Args) != 1 {
		return "", "", false
	}
	s, ok := c.Fun.(*ast.SelectorExpr)
	if !ok || s.Sel.Name != "Get" {
		return "", "", false
	}
	x, ok := s.X.(*ast.Ident)
	if !ok {
		return "", "", false
	}
	lit, ok := strLit(c.Args[0])
	return x.Name, lit, ok
}

func funcDecl(files []*ast.File, name string) *ast.FuncDecl {
	for _, f := range files {
		for _, d := range f.Decls {
			if fd, ok := d.(*ast.FuncDecl); ok && fd.Name.Name == name {
				return fd
			}
		}
	}
	return nil
}

func calleesIn(n ast.Node, interesting map[string]bool) []string {
	set := map[string]bool{}
	ast.Inspect(n, func(x ast.Node) bool {
		if c, ok := x.(*ast.CallExpr); ok {
			if nm := callName(c); interesting[nm] {
				set[nm] = true
			}
		}
		return true
	})
	var out []string
	for k := range set {
		out = append(out, k)
	}
	sort.Strings(out)
	return out
}

func main() {
	src := os.Args[1]
	var files []*ast.File
	byName := map[string]*ast.File{}
	all, _ := filepath.Glob(filepath.Join(src, "*.go"))
	var fileNames []string
	for _, p := range all {
		if !strings.HasSuffix(p, "_test.go") {
			fileNames = append(fileNames, filepath.Base(p))
		}
	}
	sort.Strings(fileNames)
	for _, fn := range fileNames {
		f, err := parser.ParseFile(fset, filepath.Join(src, fn), nil, 0)
		if err != nil {
			fmt.Fprintln(os.Stderr, "parse error:", err)
			os.Exit(2)
		}
		files = append(files, f)
		byName[fn] = f
	}
	facts := Facts{Fingerprints: map[string]string{}}
	walkers := map[string]bool{"redactQueryValues": true, "redactArrayValues": true, "redactArrayValuesWithKey": true, "redactPipelineStage": true}

	// ---- redactOperation dispatch (walkers per key), and redactCommand's nested operations (explain, bulkWrite ops)
	for _, spec := range []struct {
		fn      string
		callees map[string]bool
		into    *[]Dispatch
	}{{"redactOperation", walkers, &facts.DispatchKeys}, {"redactCommand", map[string]bool{"redactOperation": true}, &facts.NestedOps}} {
	  walkers := spec.callees
	  into := spec.into
	  if fd := funcDecl(files, spec.fn); fd != nil {
		var visit func(stmts []ast.Stmt, guard string)
		visit = func(stmts []ast.Stmt, guard string) {
			for _, st := range stmts {
				ifs, ok := st.(*ast.IfStmt)
				if !ok || ifs.Init == nil {
					continue
				}
				as, ok := ifs.Init.(*ast.AssignStmt)
				if !ok || len(as.Rhs) != 1 {
					continue
				}
				recv, key, ok := getLit(as.Rhs[0])
				if !ok || recv != "cmd" {
					continue
				}
				callees := calleesIn(ifs.Body, walkers)
				nested := false
				for _, inner := range ifs.Body.List {
					if ii, ok := inner.(*ast.IfStmt); ok && ii.Init != nil {
						if ias, ok := ii.Init.(*ast.AssignStmt); ok && len(ias.Rhs) == 1 {
							if r2, _, ok := getLit(ias.Rhs[0]); ok && r2 == "cmd" {
								nested = true
							}
						}
					}
				}
				if nested {
					// a presence guard (`if _, isInsert := cmd.Get("insert"); isInsert { if docs, ok := cmd.Get("documents") ...`)
					visit(ifs.Body.List, key)
					continue
				}
				if len(callees) == 0 {
					continue
				}
				*into = append(*into, Dispatch{Key: key, Callees: callees, Guard: guard, Pos: pos(ifs)})
			}
		}
		visit(fd.Body.List, "")
		// the operation itself must be redacted unconditionally: a top-level statement `redactOperation(cmd, …)`
		if spec.fn == "redactCommand" {
			direct := false
			for _, st := range fd.Body.List {
				if es, ok := st.(*ast.ExprStmt); ok {
					if c, ok := es.X.(*ast.CallExpr); ok && callName(c) == "redactOperation" && len(c.Args) >= 1 {
						if id, ok := c.Args[0].(*ast.Ident); ok && id.Name == "cmd" {
							direct = true
						}
					}
				}
			}
			if !direct {
				facts.Missing = append(facts.Missing, "redactCommand: unconditional redactOperation(cmd, …)")
			}
		}
	  } else {
		facts.Missing = append(facts.Missing, "func "+spec.fn)
	  }
	}

	// ---- RedactMongoLog: command attributes, gate
	if fd := funcDecl(files, "RedactMongoLog"); fd != nil {
		// variables assigned from attr.Get("<k>") and later passed (through a type assertion) to redactCommand
		gets := map[string]string{} // var -> key
		ast.Inspect(fd, func(x ast.Node) bool {
			if as, ok := x.(*ast.AssignStmt); ok && len(as.Rhs) == 1 {
				if recv, key, ok := getLit(as.Rhs[0]); ok && recv == "attr" {
					if id, ok := as.Lhs[0].(*ast.Ident); ok {
						gets[id.Name] = key
					}
				}
			}
			return true
		})
		seen := map[string]bool{}
		ast.Inspect(fd, func(x ast.Node) bool {
			ifs, ok := x.(*ast.IfStmt)
			if !ok || ifs.Init == nil {
				return true
			}
			as, ok := ifs.Init.(*ast.AssignStmt)
			if !ok || len(as.Rhs) != 1 {
				return true
			}
			ta, ok := as.Rhs[0].(*ast.TypeAssertExpr)
			if !ok {
				return true
			}
			id, ok := ta.X.(*ast.Ident)
			if !ok {
				return true
			}
			key, ok := gets[id.Name]
			if !ok {
				return true
			}
			if len(calleesIn(ifs.Body, map[string]bool{"redactCommand": true})) > 0 && !seen[key] {
				seen[key] = true
				facts.AttrCmdKeys = append(facts.AttrCmdKeys, key)
			}
			return true
		})
		// the gate: comparisons of a value that ORIGINATES from entry.Get("c") / entry.Get("msg") (through copies and type
		// assertions, whatever the variables are called) with a string literal
		origin := map[string]string{}
		originOf := func(e ast.Expr) (string, bool) {
			for {
				switch t := e.(type) {
				case *ast.ParenExpr:
					e = t.X
					continue
				case *ast.TypeAssertExpr:
					e = t.X
					continue
				case *ast.Ident:
					o, ok := origin[t.Name]
					return o, ok
				case *ast.CallExpr:
					if _, key, ok := getLit(t); ok && (key == "c" || key == "msg") {
						return key, true
					}
				}
				return "", false
			}
		}
		for pass := 0; pass < 3; pass++ {
			ast.Inspect(fd, func(x ast.Node) bool {
				if as, ok := x.(*ast.AssignStmt); ok && len(as.Rhs) == 1 && len(as.Lhs) >= 1 {
					if id, ok := as.Lhs[0].(*ast.Ident); ok && id.Name != "_" {
						if o, ok := originOf(as.Rhs[0]); ok {
							origin[id.Name] = o
						}
					}
				}
				return true
			})
		}
		ast.Inspect(fd, func(x ast.Node) bool {
			if be, ok := x.(*ast.BinaryExpr); ok && be.Op == token.EQL {
				a, b := be.X, be.Y
				if _, isLit := strLit(a); isLit {
					a, b = b, a
				}
				if lit, ok := strLit(b); ok {
					if o, ok := originOf(a); ok {
						if o == "c" {
							facts.GateComponents = append(facts.GateComponents, lit)
						} else {
							facts.GateMessages = append(facts.GateMessages, lit)
						}
					}
				}
			}
			return true
		})
	} else {
		facts.Missing = append(facts.Missing, "func RedactMongoLog")
	}

	// ---- the key vocabulary of the redaction path
	keyLiterals(byName, &facts)


	// ---- uses of the private key (taint analysis, see privTaint)
	privTaint(files, &facts)

	// ---- flags and setters (main.go)
	mainFile := byName["main.go"]
	ast.Inspect(mainFile, func(x ast.Node) bool {
		c, ok := x.(*ast.CallExpr)
		if !ok {
			return true
		}
		nm := callName(c)
		for _, suf := range []string{"StringVarP", "BoolVarP", "IntVarP", "StringArrayVarP"} {
			if strings.HasSuffix(nm, "."+suf) && len(c.Args) >= 3 {
				u, ok := c.Args[0].(*ast.UnaryExpr)
				if !ok {
					continue
				}
				v, ok := u.X.(*ast.Ident)
				if !ok {
					continue
				}
				name, _ := strLit(c.Args[1])
				short, _ := strLit(c.Args[2])
				facts.Flags = append(facts.Flags, FlagDef{Name: name, Short: short, Var: v.Name, Kind: suf})
			}
		}
		return true
	})
	// the Run closure of the redact command: the FuncLit that contains the call SetRedactedString
	var runLit *ast.FuncLit
	ast.Inspect(mainFile, func(x ast.Node) bool {
		if fl, ok := x.(*ast.FuncLit); ok && runLit == nil {
			if len(calleesIn(fl.Body, map[string]bool{"SetRedactedString": true})) > 0 {
				runLit = fl
			}
		}
		return true
	})
	if runLit == nil {
		facts.Missing = append(facts.Missing, "redact Run closure (call of SetRedactedString)")
	} else {
		var walk func(stmts []ast.Stmt, depth int)
		record := func(e ast.Expr, depth int) {
			if c, ok := e.(*ast.CallExpr); ok {
				nm := callName(c)
				if strings.HasPrefix(nm, "Set") && len(c.Args) == 1 {
					var sb strings.Builder
					printer.Fprint(&sb, fset, c.Args[0])
					facts.Setters = append(facts.Setters, SetterCall{Setter: nm, Arg: sb.String(), Depth: depth, Pos: pos(c)})
				}
			}
		}
		walk = func(stmts []ast.Stmt, depth int) {
			for _, st := range stmts {
				switch s := st.(type) {
				case *ast.ExprStmt:
					record(s.X, depth)
				case *ast.IfStmt:
					walk(s.Body.List, depth+1)
					if eb, ok := s.Else.(*ast.BlockStmt); ok {
						walk(eb.List, depth+1)
					} else if ei, ok := s.Else.(*ast.IfStmt); ok {
						walk([]ast.Stmt{ei}, depth)
					}
				case *ast.ForStmt:
					walk(s.Body.List, depth+1)
				case *ast.RangeStmt:
					walk(s.Body.List, depth+1)
				case *ast.BlockStmt:
					walk(s.List, depth+1)
				}
			}
		}
		walk(runLit.Body.List, 0)
		validationChain(runLit, &facts)
		cleanupExits(runLit, &facts)
	}
	atlasLiterals(files, &facts)

	for _, nm := range []string{"RedactMongoLog", "redactCommand", "redactOperation", "redactNamespace", "redactNamespaceFields", "redactPipelineStage", "redactQueryValues", "redactArrayValuesWithKey", "redactScalarValue",
		"redactString", "getOp", "traverseMapPath", "augmentOp", "HashName", "IsEmail", "ParsePlanSummary", "redactFieldNamesFromPlanSummary", "UnmarshalOrdered", "parseValue",
		"marshalOrderedValue", "processMongoLogStream", "ProcessMongoLogFile", "DownloadClusterLogs", "downloadClusterLogsForHost", "getAtlasClusterInfo", "GetHostsFromConnectionString",
		"GetStartAndEndDates", "ReadKeyFromFile", "WriteKeyToFile", "FileExists"} {
		if fd := funcDecl(files, nm); fd != nil {
			var sb strings.Builder
			printer.Fprint(&sb, fset, fd)
			h := uint64(14695981039346656037)
			for _, b := range []byte(sb.String()) {
				h = (h ^ uint64(b)) * 1099511628211
			}
			facts.Fingerprints[nm] = fmt.Sprintf("%016x", h)
		} else {
			facts.Missing = append(facts.Missing, "func "+nm)
		}
	}
	globalState(files, &facts)
	// ---- GetStartAndEndDates, translated (after globalState: a package-level variable nothing assigns is a constant)
	translateWindow(files, &facts)
	for _, need := range []string{"anonymizer.go", "main.go", "atlas.go", "helpers.go", "reader.go", "encryption.go"} {
		if byName[need] == nil {
			facts.Missing = append(facts.Missing, "file "+need)
		}
	}
	enc := json.NewEncoder(os.Stdout)
	enc.SetIndent("", " ")
	enc.Encode(facts)
}


// ---- package-level state: which variables exist, and who can change them
func rootIdent(e ast.Expr) *ast.Ident {
	for {
		switch x := e.(type) {
		case *ast.Ident:
			return x
		case *ast.IndexExpr:
			e = x.X
		case *ast.SelectorExpr:
			e = x.X
		case *ast.StarExpr:
			e = x.X
		case *ast.ParenExpr:
			e = x.X
		case *ast.SliceExpr:
			e = x.X
		default:
			return nil
		}
	}
}

func globalState(files []*ast.File, facts *Facts) {
	declPos := map[token.Pos]bool{}
	isGlobal := map[string]bool{}
	for _, f := range files {
		fn := filepath.Base(fset.Position(f.Pos()).Filename)
		for _, d := range f.Decls {
			gd, ok := d.(*ast.GenDecl)
			if !ok || gd.Tok != token.VAR {
				continue
			}
			for _, sp := range gd.Specs {
				vs := sp.(*ast.ValueSpec)
				for _, nm := range vs.Names {
					if nm.Name == "_" {
						continue
					}
					facts.Globals = append(facts.Globals, Global{Name: nm.Name, File: fn})
					isGlobal[nm.Name] = true
					declPos[nm.Pos()] = true
				}
				for _, v := range vs.Values {
					hasCall := false
					ast.Inspect(v, func(x ast.Node) bool {
						if _, ok := x.(*ast.FuncLit); ok {
							return false
						}
						if c, ok := x.(*ast.CallExpr); ok {
							nm := callName(c)
							if nm != "make" && nm != "new" && nm != "len" && !strings.HasPrefix(nm, "regexp.") && !strings.HasPrefix(nm, "errors.") && !strings.HasPrefix(nm, "orderedmap.") {
								hasCall = true
							}
						}
						return true
					})
					if hasCall {
						facts.Inits = append(facts.Inits, fn+":var "+vs.Names[0].Name)
					}
				}
			}
		}
	}
	ref := func(id *ast.Ident) bool {
		if id == nil || !isGlobal[id.Name] {
			return false
		}
		return id.Obj == nil || declPos[id.Obj.Pos()]
	}
	for _, f := range files {
		fn := filepath.Base(fset.Position(f.Pos()).Filename)
		for _, d := range f.Decls {
			var body ast.Node
			name := ""
			switch x := d.(type) {
			case *ast.FuncDecl:
				if x.Body == nil {
					continue
				}
				body = x.Body
				name = x.Name.Name
				if x.Recv != nil && len(x.Recv.List) == 1 {
					var sb strings.Builder
					printer.Fprint(&sb, fset, x.Recv.List[0].Type)
					name = "(" + sb.String() + ")." + name
				}
				if x.Name.Name == "init" && x.Recv == nil {
					facts.Inits = append(facts.Inits, fn+":init")
				}
			case *ast.GenDecl:
				if x.Tok != token.VAR {
					continue
				}
				body = x
				name = "<package initialiser " + fn + ">"
			default:
				continue
			}
			add := func(id *ast.Ident, kind string, at ast.Node) {
				if ref(id) {
					facts.GlobalWrites = append(facts.GlobalWrites, GWrite{Var: id.Name, Func: name, Kind: kind, Pos: pos(at)})
				}
			}
			refCount := map[string]int{}
			ast.Inspect(body, func(n ast.Node) bool {
				if vs, ok := n.(*ast.ValueSpec); ok {
					if _, isDecl := d.(*ast.GenDecl); isDecl {
						// package-level declaration: only the initialiser expressions are uses
						for _, v := range vs.Values {
							ast.Inspect(v, func(m ast.Node) bool {
								if id, ok := m.(*ast.Ident); ok && ref(id) {
									refCount[id.Name]++
								}
								return true
							})
						}
						return false
					}
				}
				if id, ok := n.(*ast.Ident); ok && ref(id) {
					refCount[id.Name]++
				}
				return true
			})
			var rk []string
			for k := range refCount {
				rk = append(rk, k)
			}
			sort.Strings(rk)
			for _, k := range rk {
				facts.GlobalRefs = append(facts.GlobalRefs, GRef{Var: k, Func: name, Count: refCount[k]})
			}
			ast.Inspect(body, func(n ast.Node) bool {
				switch x := n.(type) {
				case *ast.AssignStmt:
					if x.Tok == token.DEFINE {
						return true
					}
					for _, l := range x.Lhs {
						add(rootIdent(l), "assign", x)
					}
				case *ast.IncDecStmt:
					add(rootIdent(x.X), "incdec", x)
				case *ast.RangeStmt:
					if x.Tok == token.ASSIGN {
						if x.Key != nil {
							add(rootIdent(x.Key), "range", x)
						}
						if x.Value != nil {
							add(rootIdent(x.Value), "range", x)
						}
					}
				case *ast.UnaryExpr:
					if x.Op == token.AND {
						add(rootIdent(x.X), "addr", x)
					}
				case *ast.CallExpr:
					nm := callName(x)
					if (nm == "delete" || nm == "copy" || nm == "clear") && len(x.Args) >= 1 {
						add(rootIdent(x.Args[0]), nm, x)
					}
					if se, ok := x.Fun.(*ast.SelectorExpr); ok {
						if id := rootIdent(se.X); id != nil && ref(id) {
							add(id, "method:"+se.Sel.Name, x)
						}
					}
				}
				return true
			})
		}
	}
	sort.Slice(facts.Globals, func(i, j int) bool { return facts.Globals[i].Name < facts.Globals[j].Name })
	sort.Strings(facts.Inits)
}


// ---------------------------------------------------------------------------------------------
// The argument-validation chain of `redact` (everything in the Run closure before the first
// Set...() call), symbolically executed over presence atoms: which flag combinations reach an
// os.Exit.  The result is an ordered list of reject conditions; the first that holds rejects.

func bAtom(n string) *BX { return &BX{Op: "atom", Name: n} }
func bNot(a *BX) *BX {
	if a.Op == "true" {
		return &BX{Op: "false"}
	}
	if a.Op == "false" {
		return &BX{Op: "true"}
	}
	return &BX{Op: "not", A: a}
}
func bAnd(a, b *BX) *BX {
	if a.Op == "true" {
		return b
	}
	if b.Op == "true" {
		return a
	}
	return &BX{Op: "and", A: a, B: b}
}
func bOr(a, b *BX) *BX {
	if a.Op == "false" {
		return b
	}
	if b.Op == "false" {
		return a
	}
	return &BX{Op: "or", A: a, B: b}
}
func bIte(c, t, e *BX) *BX { return bOr(bAnd(c, t), bAnd(bNot(c), e)) }

// "is set" meaning of the flag variables of main.go
var presenceAtoms = map[string]string{
	"redactedFieldsRegexp": "regexp", "eagerRedactionPaths": "fieldNames", "atlasLogStartDate": "start", "atlasLogEndDate": "end_",
	"atlasProjectId": "project", "atlasClusterName": "cluster", "atlasPublicKey": "pub", "atlasPrivateKey": "priv",
	"outputFile": "out", "encrypt": "encrypt", "stdinHasData": "stdin", "args": "file",
}

type symEnv struct {
	set   map[string]*BX // variable -> "is set / is true"
	facts *Facts
}

// a construct the executor cannot express becomes an "unk" node; it only matters (and is only reported) when it
// reaches the condition of a reject rule or is a statement that can end the job / change a tracked variable
func (e *symEnv) unknown(n ast.Node, what string) *BX {
	var sb strings.Builder
	printer.Fprint(&sb, fset, n)
	return &BX{Op: "unk", Name: what + ": " + sb.String() + " @" + pos(n)}
}

func (e *symEnv) fatal(n ast.Node, what string) {
	e.facts.ValidationUnk = append(e.facts.ValidationUnk, e.unknown(n, what).Name)
}

func collectUnk(b *BX, into *[]string) {
	if b == nil {
		return
	}
	if b.Op == "unk" {
		*into = append(*into, b.Name)
	}
	collectUnk(b.A, into)
	collectUnk(b.B, into)
}

func (e *symEnv) isSet(x ast.Expr) *BX {
	switch t := x.(type) {
	case *ast.Ident:
		if v, ok := e.set[t.Name]; ok {
			return v
		}
		if a, ok := presenceAtoms[t.Name]; ok {
			return bAtom(a)
		}
		if t.Name == "true" {
			return &BX{Op: "true"}
		}
		if t.Name == "false" {
			return &BX{Op: "false"}
		}
	case *ast.CallExpr:
		if callName(t) == "os.Getenv" && len(t.Args) == 1 {
			if lit, ok := strLit(t.Args[0]); ok && (lit == "ATLAS_PUBLIC_KEY" || lit == "ATLAS_PRIVATE_KEY") {
				return bAtom("env")
			}
		}
		if id, ok := t.Fun.(*ast.Ident); ok && id.Name == "len" && len(t.Args) == 1 {
			return e.isSet(t.Args[0])
		}
	case *ast.ParenExpr:
		return e.isSet(t.X)
	}
	return e.unknown(x, "value")
}

func isZeroLit(x ast.Expr) bool {
	if lit, ok := strLit(x); ok && lit == "" {
		return true
	}
	if bl, ok := x.(*ast.BasicLit); ok && bl.Kind == token.INT && bl.Value == "0" {
		return true
	}
	return false
}

func (e *symEnv) cond(x ast.Expr) *BX {
	switch t := x.(type) {
	case *ast.ParenExpr:
		return e.cond(t.X)
	case *ast.UnaryExpr:
		if t.Op == token.NOT {
			return bNot(e.cond(t.X))
		}
	case *ast.BinaryExpr:
		switch t.Op {
		case token.LAND:
			return bAnd(e.cond(t.X), e.cond(t.Y))
		case token.LOR:
			return bOr(e.cond(t.X), e.cond(t.Y))
		case token.NEQ, token.EQL, token.GTR, token.GEQ, token.LSS, token.LEQ:
			X, Y, op := t.X, t.Y, t.Op
			if isZeroLit(X) || isOneLit(X) {
				// literal on the left: mirror
				X, Y = Y, X
				switch op {
				case token.GTR:
					op = token.LSS
				case token.LSS:
					op = token.GTR
				case token.GEQ:
					op = token.LEQ
				case token.LEQ:
					op = token.GEQ
				}
			}
			if isZeroLit(Y) {
				// X != "" / X != 0 / len(X) > 0  (set);  X == "" / X == 0 / len(X) <= 0  (not set); the flag values are non-negative counts / strings
				base := e.isSet(X)
				switch op {
				case token.NEQ, token.GTR:
					return base
				case token.EQL, token.LEQ:
					return bNot(base)
				}
			}
			if isOneLit(Y) && isLenArgs(X) {
				// cobra admits at most one positional argument: len(args) is 0 or 1
				switch op {
				case token.EQL, token.GEQ:
					return bAtom("file")
				case token.LSS, token.NEQ:
					return bNot(bAtom("file"))
				}
			}
			if (op == token.NEQ || op == token.EQL) && !isLit(X) && !isLit(Y) {
				// comparison of two truth values: exclusive or / equivalence
				a, b := e.cond(X), e.cond(Y)
				xor := bOr(bAnd(a, bNot(b)), bAnd(bNot(a), b))
				if op == token.NEQ {
					return xor
				}
				return bNot(xor)
			}
		}
	case *ast.Ident:
		if t.Name == "true" {
			return &BX{Op: "true"}
		}
		if t.Name == "false" {
			return &BX{Op: "false"}
		}
		return e.isSet(t)
	}
	return e.unknown(x, "condition")
}

func isOneLit(x ast.Expr) bool {
	bl, ok := x.(*ast.BasicLit)
	return ok && bl.Kind == token.INT && bl.Value == "1"
}

func isLit(x ast.Expr) bool {
	_, ok := x.(*ast.BasicLit)
	return ok
}

func isLenArgs(x ast.Expr) bool {
	if c, ok := x.(*ast.CallExpr); ok {
		if id, ok := c.Fun.(*ast.Ident); ok && id.Name == "len" && len(c.Args) == 1 {
			if a, ok := c.Args[0].(*ast.Ident); ok && a.Name == "args" {
				return true
			}
		}
	}
	return false
}

// does the statement (deeply) end the job or write a variable the chain tracks?
func (e *symEnv) touches(n ast.Node) bool {
	hit := false
	ast.Inspect(n, func(x ast.Node) bool {
		switch t := x.(type) {
		case *ast.CallExpr:
			nm := callName(t)
			if nm == "os.Exit" || nm == "log.Fatal" || nm == "log.Fatalf" || nm == "panic" || strings.HasPrefix(nm, "Set") {
				hit = true
			}
		case *ast.ReturnStmt:
			hit = true
		case *ast.AssignStmt:
			for _, l := range t.Lhs {
				if id, ok := l.(*ast.Ident); ok {
					if _, tr := presenceAtoms[id.Name]; tr && id.Name != "args" {
						hit = true
					}
					if _, tr := e.set[id.Name]; tr {
						hit = true
					}
				}
			}
		case *ast.IncDecStmt:
			if id, ok := t.X.(*ast.Ident); ok {
				if _, tr := presenceAtoms[id.Name]; tr {
					hit = true
				}
			}
		}
		return true
	})
	return hit
}

func containsExit(stmts []ast.Stmt) bool {
	for _, st := range stmts {
		if es, ok := st.(*ast.ExprStmt); ok {
			if c, ok := es.X.(*ast.CallExpr); ok && callName(c) == "os.Exit" {
				return true
			}
		}
	}
	return false
}

// exec runs the statements under path condition pc; returns false when the chain ends (first Set...() call)
func (e *symEnv) exec(stmts []ast.Stmt, pc *BX) bool {
	for _, st := range stmts {
		switch s := st.(type) {
		case *ast.ExprStmt:
			if c, ok := s.X.(*ast.CallExpr); ok {
				nm := callName(c)
				if strings.HasPrefix(nm, "Set") {
					return false
				}
				if nm == "os.Exit" {
					e.facts.Validation = append(e.facts.Validation, RejectRule{Cond: pc, Pos: pos(c)})
					if len(c.Args) != 1 || !isOneLit(c.Args[0]) {
						e.fatal(c, "exit status other than the literal 1")
					}
				} else if nm == "log.Fatal" || nm == "log.Fatalf" || nm == "log.Fatalln" {
					e.facts.Validation = append(e.facts.Validation, RejectRule{Cond: pc, Pos: pos(c)})
				} else if nm == "panic" {
					e.fatal(c, "panic inside the validation chain")
				}
			}
		case *ast.IfStmt:
			if s.Init != nil {
				if !e.exec([]ast.Stmt{s.Init}, pc) {
					return false
				}
			}
			c := e.cond(s.Cond)
			if !e.exec(s.Body.List, bAnd(pc, c)) {
				return false
			}
			switch el := s.Else.(type) {
			case *ast.BlockStmt:
				if !e.exec(el.List, bAnd(pc, bNot(c))) {
					return false
				}
			case *ast.IfStmt:
				if !e.exec([]ast.Stmt{el}, bAnd(pc, bNot(c))) {
					return false
				}
			}
		case *ast.SwitchStmt:
			// `switch { case c1: … case c2: … default: … }` and `switch b { case true: … case false: … }`: an if / else-if chain
			if s.Init != nil {
				if !e.exec([]ast.Stmt{s.Init}, pc) {
					return false
				}
			}
			var tag *BX
			if s.Tag != nil {
				tag = e.cond(s.Tag)
			}
			none := &BX{Op: "true"} // no earlier case matched
			var deflt *ast.CaseClause
			for _, cs := range s.Body.List {
				cc := cs.(*ast.CaseClause)
				if cc.List == nil {
					deflt = cc
					continue
				}
				var m *BX = &BX{Op: "false"}
				for _, x := range cc.List {
					c := e.cond(x)
					if tag != nil {
						c = bNot(bOr(bAnd(tag, bNot(c)), bAnd(bNot(tag), c)))
					}
					m = bOr(m, c)
				}
				for _, b := range cc.Body {
					if br, ok := b.(*ast.BranchStmt); ok && br.Tok == token.FALLTHROUGH {
						e.fatal(s, "fallthrough in the validation chain")
					}
				}
				if !e.exec(cc.Body, bAnd(pc, bAnd(none, m))) {
					return false
				}
				none = bAnd(none, bNot(m))
			}
			if deflt != nil {
				if !e.exec(deflt.Body, bAnd(pc, none)) {
					return false
				}
			}
		case *ast.BlockStmt:
			if !e.exec(s.List, pc) {
				return false
			}
		case *ast.AssignStmt:
			// tracked: x := y / x = y / x = os.Getenv(..) / b := <bool expr>; a variable the executor cannot evaluate becomes an
			// "unk" node, reported only if it reaches a reject condition
			if len(s.Lhs) == len(s.Rhs) {
				for k := range s.Lhs {
					id, ok := s.Lhs[k].(*ast.Ident)
					if !ok || id.Name == "_" {
						continue
					}
					if _, tracked := presenceAtoms[id.Name]; tracked {
						if id.Name != "stdinHasData" {
							e.fatal(s, "assignment to a flag variable inside the validation chain")
						}
						continue
					}
					var nv *BX
					switch r := s.Rhs[k].(type) {
					case *ast.Ident, *ast.CallExpr:
						nv = e.isSet(r)
					default:
						nv = e.cond(r)
					}
					old, had := e.set[id.Name]
					if had && s.Tok != token.DEFINE && pc.Op != "true" {
						nv = bIte(pc, nv, old)
					}
					e.set[id.Name] = nv
				}
			} else {
				for _, l := range s.Lhs {
					if id, ok := l.(*ast.Ident); ok {
						if _, tracked := presenceAtoms[id.Name]; tracked && id.Name != "args" && id.Name != "stdinHasData" {
							e.fatal(s, "assignment to a flag variable inside the validation chain")
						}
						if _, had := e.set[id.Name]; had {
							e.set[id.Name] = e.unknown(s, "value")
						}
					}
				}
			}
		case *ast.DeclStmt:
			if gd, ok := s.Decl.(*ast.GenDecl); ok {
				for _, sp := range gd.Specs {
					if vs, ok := sp.(*ast.ValueSpec); ok {
						for k, n := range vs.Names {
							if k < len(vs.Values) {
								switch r := vs.Values[k].(type) {
								case *ast.Ident, *ast.CallExpr:
									e.set[n.Name] = e.isSet(r)
								default:
									e.set[n.Name] = e.cond(r)
								}
							} else {
								e.set[n.Name] = &BX{Op: "false"} // zero value: "" / 0 / false
							}
						}
					}
				}
			}
		case *ast.ReturnStmt:
			e.facts.Validation = append(e.facts.Validation, RejectRule{Cond: pc, Pos: pos(s)})
			e.fatal(s, "return inside the validation chain (a job left without exit status 1)")
		default:
			if e.touches(st) {
				e.fatal(st, "statement")
			}
		}
	}
	return true
}

func validationChain(runLit *ast.FuncLit, facts *Facts) {
	e := &symEnv{set: map[string]*BX{}, facts: facts}
	// path conditions inside exec are RELATIVE to the enclosing ifs; assignments under a condition use ite with it.
	e.exec(runLit.Body.List, &BX{Op: "true"})
	for _, r := range facts.Validation {
		collectUnk(r.Cond, &facts.ValidationUnk)
	}
	if len(facts.Validation) == 0 {
		facts.Missing = append(facts.Missing, "validation chain of the redact Run closure")
	}
}


// format strings and header literals that shape the Atlas requests and the per-host file names
func atlasLiterals(files []*ast.File, facts *Facts) {
	for _, f := range files {
		base := filepath.Base(fset.Position(f.Pos()).Filename)
		if base != "atlas.go" && base != "main.go" {
			continue
		}
		for _, d := range f.Decls {
			fd, ok := d.(*ast.FuncDecl)
			if !ok || fd.Body == nil {
				continue
			}
			ast.Inspect(fd.Body, func(x ast.Node) bool {
				c, ok := x.(*ast.CallExpr)
				if !ok {
					return true
				}
				nm := callName(c)
				if sel, ok := c.Fun.(*ast.SelectorExpr); ok && (sel.Sel.Name == "Set" || sel.Sel.Name == "Add") {
					if inner, ok := sel.X.(*ast.SelectorExpr); ok && inner.Sel.Name == "Header" {
						nm = "Header." + sel.Sel.Name
					}
				}
				if sel, ok := c.Fun.(*ast.SelectorExpr); ok && sel.Sel.Name == "SetBasicAuth" {
					nm = "x.SetBasicAuth"
				}
				switch {
				case nm == "fmt.Sprintf" && len(c.Args) > 0:
					if lit, ok := strLit(c.Args[0]); ok && strings.Contains(lit, "/api/atlas") {
						facts.AtlasLits = append(facts.AtlasLits, AtlasLit{Kind: "sprintf", Func: fd.Name.Name, Text: lit})
					}
				case strings.HasSuffix(nm, "Header.Set") || strings.HasSuffix(nm, "Header.Add"):
					if len(c.Args) == 2 {
						k, ok1 := strLit(c.Args[0])
						v, ok2 := strLit(c.Args[1])
						if ok1 && ok2 {
							facts.AtlasLits = append(facts.AtlasLits, AtlasLit{Kind: "header", Func: fd.Name.Name, Text: k + ": " + v})
						} else {
							var sb strings.Builder
							printer.Fprint(&sb, fset, c)
							facts.AtlasLits = append(facts.AtlasLits, AtlasLit{Kind: "header-dynamic", Func: fd.Name.Name, Text: sb.String()})
						}
					}
				case nm == "req.SetBasicAuth" || strings.HasSuffix(nm, ".SetBasicAuth"):
					facts.AtlasLits = append(facts.AtlasLits, AtlasLit{Kind: "basic-auth", Func: fd.Name.Name, Text: nm})
				}
				return true
			})
		}
	}
}


// ---------------------------------------------------------------------------------------------
// Every use of the Atlas private key, by data flow rather than by name.  Sources: the flag variable
// atlasPrivateKey and os.Getenv("ATLAS_PRIVATE_KEY").  A variable becomes tainted when a tainted
// expression is copied into it; a parameter of a function of this package becomes tainted when a
// tainted variable is passed in that position.  Each occurrence of a tainted identifier is then
// classified by what is done with it; anything that is not one of the harmless kinds is "other:…".
func isPrivSource(e ast.Expr) bool {
	if c, ok := e.(*ast.CallExpr); ok && callName(c) == "os.Getenv" && len(c.Args) == 1 {
		if lit, ok := strLit(c.Args[0]); ok && lit == "ATLAS_PRIVATE_KEY" {
			return true
		}
	}
	return false
}

func privTaint(files []*ast.File, facts *Facts) {
	type fn struct {
		name   string
		params []string
		body   *ast.BlockStmt
		decl   ast.Node
	}
	var fns []*fn
	byFn := map[string]*fn{}
	for _, f := range files {
		for _, d := range f.Decls {
			if fd, ok := d.(*ast.FuncDecl); ok && fd.Body != nil {
				x := &fn{name: fd.Name.Name, body: fd.Body, decl: fd}
				for _, fl := range fd.Type.Params.List {
					for _, n := range fl.Names {
						x.params = append(x.params, n.Name)
					}
					if len(fl.Names) == 0 {
						x.params = append(x.params, "_")
					}
				}
				fns = append(fns, x)
				byFn[x.name] = x
			}
		}
	}
	localCallee := func(c *ast.CallExpr) *fn {
		switch t := c.Fun.(type) {
		case *ast.Ident:
			return byFn[t.Name]
		case *ast.SelectorExpr:
			if x, ok := byFn[t.Sel.Name]; ok {
				// a method of this package (not pkg.Func of an imported package with the same name)
				if id, ok := t.X.(*ast.Ident); ok && (id.Name == "os" || id.Name == "fmt" || id.Name == "strings" || id.Name == "http" || id.Name == "log") {
					return nil
				}
				return x
			}
		}
		return nil
	}
	tainted := map[string]map[string]bool{} // function -> variable names
	for _, x := range fns {
		tainted[x.name] = map[string]bool{"atlasPrivateKey": true}
	}
	isT := func(fnm string, e ast.Expr) bool {
		for {
			if p, ok := e.(*ast.ParenExpr); ok {
				e = p.X
				continue
			}
			break
		}
		if id, ok := e.(*ast.Ident); ok {
			return tainted[fnm][id.Name]
		}
		return isPrivSource(e)
	}
	for changed := true; changed; {
		changed = false
		for _, x := range fns {
			ast.Inspect(x.body, func(n ast.Node) bool {
				switch t := n.(type) {
				case *ast.AssignStmt:
					if len(t.Lhs) == len(t.Rhs) {
						for k := range t.Rhs {
							if isT(x.name, t.Rhs[k]) {
								if id, ok := t.Lhs[k].(*ast.Ident); ok && id.Name != "_" && !tainted[x.name][id.Name] {
									tainted[x.name][id.Name] = true
									changed = true
								}
							}
						}
					}
				case *ast.ValueSpec:
					if len(t.Names) == len(t.Values) {
						for k := range t.Values {
							if isT(x.name, t.Values[k]) && !tainted[x.name][t.Names[k].Name] {
								tainted[x.name][t.Names[k].Name] = true
								changed = true
							}
						}
					}
				case *ast.CallExpr:
					if cal := localCallee(t); cal != nil {
						for k, a := range t.Args {
							if isT(x.name, a) && k < len(cal.params) && !tainted[cal.name][cal.params[k]] {
								tainted[cal.name][cal.params[k]] = true
								changed = true
							}
						}
					}
				}
				return true
			})
		}
	}
	// classification of every occurrence
	classify := func(fnm string, root ast.Node) {
		var stack []ast.Node
		ast.Inspect(root, func(x ast.Node) bool {
			if x == nil {
				stack = stack[:len(stack)-1]
				return true
			}
			stack = append(stack, x)
			var kind string
			if c, ok := x.(*ast.CallExpr); ok && isPrivSource(c) {
				// the environment fallback: must be copied into a variable directly
				kind = "other:env value used in place"
				if len(stack) >= 2 {
					if as, ok := stack[len(stack)-2].(*ast.AssignStmt); ok && len(as.Lhs) == len(as.Rhs) {
						for k := range as.Rhs {
							if as.Rhs[k] == x {
								if _, ok := as.Lhs[k].(*ast.Ident); ok {
									kind = "assign"
								}
							}
						}
					}
					if vs, ok := stack[len(stack)-2].(*ast.ValueSpec); ok && len(vs.Names) == len(vs.Values) {
						kind = "assign"
					}
				}
				facts.PrivUses = append(facts.PrivUses, Use{Ident: "os.Getenv", Kind: kind, Pos: pos(c)})
				return true
			}
			id, ok := x.(*ast.Ident)
			if !ok || !tainted[fnm][id.Name] {
				return true
			}
			kind = "other"
			if len(stack) >= 2 {
				switch p := stack[len(stack)-2].(type) {
				case *ast.Field:
					kind = "param"
				case *ast.ValueSpec:
					kind = "declaration"
				case *ast.SelectorExpr:
					if p.Sel == id {
						return true // a field or method that happens to carry the same name: not this variable
					}
					kind = "other:selector"
				case *ast.KeyValueExpr:
					if p.Key == x {
						return true // a struct field name
					}
					if k, ok := p.Key.(*ast.Ident); ok && k.Name == "Password" && p.Value == x {
						kind = "digestPassword"
						if len(stack) >= 3 {
							if cl, ok := stack[len(stack)-3].(*ast.CompositeLit); ok {
								var sb strings.Builder
								printer.Fprint(&sb, fset, cl.Type)
								if sb.String() != "digest.Transport" {
									kind = "other:composite " + sb.String()
								}
							}
						}
					} else {
						kind = "other:composite field"
					}
				case *ast.AssignStmt:
					// a copy between plain variables (either side), nothing else
					kind = "other:assign"
					if len(p.Lhs) == len(p.Rhs) {
						for k := range p.Rhs {
							if p.Lhs[k] == x {
								if isT(fnm, p.Rhs[k]) {
									kind = "assign"
								} else {
									kind = "other:overwritten"
								}
							}
							if p.Rhs[k] == x {
								if _, ok := p.Lhs[k].(*ast.Ident); ok {
									kind = "assign"
								} else {
									var sb strings.Builder
									printer.Fprint(&sb, fset, p.Lhs[k])
									kind = "other:stored into " + sb.String()
								}
							}
						}
					}
				case *ast.BinaryExpr:
					if lit, ok := strLit(p.Y); ok && lit == "" && (p.Op == token.EQL || p.Op == token.NEQ) {
						kind = "emptyTest"
					} else if lit, ok := strLit(p.X); ok && lit == "" && (p.Op == token.EQL || p.Op == token.NEQ) {
						kind = "emptyTest"
					} else {
						kind = "other:operator " + p.Op.String()
					}
				case *ast.CallExpr:
					if cal := localCallee(p); cal != nil {
						kind = "passThrough"
					} else if fid, ok := p.Fun.(*ast.Ident); ok && fid.Name == "len" {
						kind = "emptyTest"
					} else {
						kind = "other:call " + callName(p)
					}
				case *ast.UnaryExpr:
					if p.Op == token.AND && len(stack) >= 3 {
						if c, ok := stack[len(stack)-3].(*ast.CallExpr); ok && strings.HasSuffix(callName(c), ".StringVarP") {
							kind = "flagBinding"
						}
					}
				case *ast.ReturnStmt:
					kind = "other:returned"
				}
			}
			facts.PrivUses = append(facts.PrivUses, Use{Ident: id.Name, Kind: kind, Pos: pos(id)})
			return true
		})
	}
	for _, x := range fns {
		classify(x.name, x.decl)
	}
}


// ---------------------------------------------------------------------------------------------
// The key vocabulary of the redaction path (anonymizer.go, helpers.go): every string literal that
// stands in a "key position" — an operand of == / !=, a case clause, an element of a list literal,
// or a direct argument of a call other than message formatting (fmt.*, errors.*, log.*) and
// regexp compilation.  A key the code starts to treat specially is a new member of this set.
func keyLiterals(byName map[string]*ast.File, facts *Facts) {
	seen := map[string]bool{}
	add := func(e ast.Expr) {
		if lit, ok := strLit(e); ok && !seen[lit] {
			seen[lit] = true
			facts.KeyLits = append(facts.KeyLits, lit)
		}
	}
	for _, fn := range []string{"anonymizer.go", "helpers.go"} {
		f := byName[fn]
		if f == nil {
			facts.Missing = append(facts.Missing, "file "+fn)
			continue
		}
		for _, d := range f.Decls {
			fd, ok := d.(*ast.FuncDecl)
			if !ok || fd.Body == nil {
				continue
			}
			ast.Inspect(fd.Body, func(x ast.Node) bool {
				switch t := x.(type) {
				case *ast.BinaryExpr:
					if t.Op == token.EQL || t.Op == token.NEQ {
						add(t.X)
						add(t.Y)
					}
				case *ast.CaseClause:
					for _, e := range t.List {
						add(e)
					}
				case *ast.CompositeLit:
					for _, e := range t.Elts {
						add(e)
						if kv, ok := e.(*ast.KeyValueExpr); ok {
							add(kv.Key)
							add(kv.Value)
						}
					}
				case *ast.CallExpr:
					nm := callName(t)
					if strings.HasPrefix(nm, "fmt.") || strings.HasPrefix(nm, "errors.") || strings.HasPrefix(nm, "log.") || strings.HasPrefix(nm, "regexp.") || nm == "panic" {
						return true
					}
					for _, a := range t.Args {
						add(a)
					}
				}
				return true
			})
		}
	}
	sort.Strings(facts.KeyLits)
}


// ---------------------------------------------------------------------------------------------
// GetStartAndEndDates (reader.go) translated to a Lean expression over Int: straight-line integer
// code with early returns.  Supported: `if c { … }` (without else) whose body either ends in a return
// or only assigns, `x := e` / `x = e`, `return a, b`, integer literals, identifiers, package-level
// integer constants (inlined), + - *, comparisons, && || !, parentheses, int(…) conversions, and the
// single clock read `time.Now().Unix()` (the parameter `now`).  Anything else is reported.
type winTr struct {
	consts map[string]ast.Expr
	unk    []string
}

func (w *winTr) bad(n ast.Node, what string) string {
	var sb strings.Builder
	printer.Fprint(&sb, fset, n)
	w.unk = append(w.unk, what+": "+sb.String()+" @"+pos(n))
	return "0"
}

func (w *winTr) expr(e ast.Expr) string {
	switch t := e.(type) {
	case *ast.ParenExpr:
		return "(" + w.expr(t.X) + ")"
	case *ast.BasicLit:
		if t.Kind == token.INT {
			return "(" + t.Value + " : Int)"
		}
	case *ast.Ident:
		if c, ok := w.consts[t.Name]; ok {
			return "(" + w.expr(c) + ")"
		}
		return t.Name
	case *ast.CallExpr:
		if id, ok := t.Fun.(*ast.Ident); ok && (id.Name == "int" || id.Name == "int64") && len(t.Args) == 1 {
			return w.expr(t.Args[0])
		}
		var sb strings.Builder
		printer.Fprint(&sb, fset, t)
		if sb.String() == "time.Now().Unix()" {
			return "now"
		}
	case *ast.UnaryExpr:
		if t.Op == token.NOT {
			return "(!" + w.expr(t.X) + ")"
		}
		if t.Op == token.SUB {
			return "(-" + w.expr(t.X) + ")"
		}
	case *ast.BinaryExpr:
		ops := map[token.Token]string{token.ADD: "+", token.SUB: "-", token.MUL: "*", token.EQL: "==", token.NEQ: "!=", token.LSS: "<", token.GTR: ">",
			token.LEQ: "<=", token.GEQ: ">=", token.LAND: "&&", token.LOR: "||"}
		if o, ok := ops[t.Op]; ok {
			a, b := w.expr(t.X), w.expr(t.Y)
			switch t.Op {
			case token.LSS, token.GTR, token.LEQ, token.GEQ:
				return "(decide (" + a + " " + o + " " + b + "))"
			}
			return "(" + a + " " + o + " " + b + ")"
		}
	}
	return w.bad(e, "expression")
}

func endsInReturn(stmts []ast.Stmt) bool {
	if len(stmts) == 0 {
		return false
	}
	_, ok := stmts[len(stmts)-1].(*ast.ReturnStmt)
	return ok
}

func (w *winTr) block(stmts []ast.Stmt, depth int) string {
	ind := strings.Repeat("  ", depth)
	if len(stmts) == 0 {
		w.unk = append(w.unk, "a path that falls off the end of the function")
		return "(0, 0)"
	}
	st, rest := stmts[0], stmts[1:]
	switch s := st.(type) {
	case *ast.ReturnStmt:
		if len(s.Results) == 2 {
			return "(" + w.expr(s.Results[0]) + ", " + w.expr(s.Results[1]) + ")"
		}
		return w.bad(s, "return")
	case *ast.AssignStmt:
		if len(s.Lhs) == 1 && len(s.Rhs) == 1 {
			if id, ok := s.Lhs[0].(*ast.Ident); ok && (s.Tok == token.ASSIGN || s.Tok == token.DEFINE) {
				return "(let " + id.Name + " : Int := " + w.expr(s.Rhs[0]) + ";\n" + ind + w.block(rest, depth) + ")"
			}
		}
		return w.bad(s, "assignment")
	case *ast.IfStmt:
		if s.Init != nil || s.Else != nil {
			return w.bad(s, "if with init / else")
		}
		c := w.expr(s.Cond)
		if endsInReturn(s.Body.List) {
			return "(if " + c + " then\n" + ind + "  " + w.block(s.Body.List, depth+1) + "\n" + ind + "else\n" + ind + "  " + w.block(rest, depth+1) + ")"
		}
		// a body of plain assignments: each assigned variable becomes `if c then rhs else itself`, the condition evaluated once
		out := "(let c_" + fmt.Sprint(depth) + " : Bool := " + c + ";\n" + ind
		closers := ")"
		for _, b := range s.Body.List {
			as, ok := b.(*ast.AssignStmt)
			if !ok || len(as.Lhs) != 1 || len(as.Rhs) != 1 || as.Tok != token.ASSIGN {
				return w.bad(b, "statement in a conditional block")
			}
			id, ok := as.Lhs[0].(*ast.Ident)
			if !ok {
				return w.bad(b, "assignment target")
			}
			out += "(let " + id.Name + " : Int := if c_" + fmt.Sprint(depth) + " then " + w.expr(as.Rhs[0]) + " else " + id.Name + ";\n" + ind
			closers += ")"
		}
		return out + w.block(rest, depth+1) + closers
	}
	return w.bad(st, "statement")
}

func translateWindow(files []*ast.File, facts *Facts) {
	fd := funcDecl(files, "GetStartAndEndDates")
	if fd == nil || fd.Body == nil {
		facts.WindowUnk = []string{"func GetStartAndEndDates not found"}
		return
	}
	w := &winTr{consts: map[string]ast.Expr{}}
	for _, f := range files {
		for _, d := range f.Decls {
			if gd, ok := d.(*ast.GenDecl); ok && (gd.Tok == token.CONST || gd.Tok == token.VAR) {
				for _, sp := range gd.Specs {
					if vs, ok := sp.(*ast.ValueSpec); ok {
						for k, n := range vs.Names {
							if k < len(vs.Values) {
								written := false
								for _, gw := range facts.GlobalWrites {
									if gw.Var == n.Name {
										written = true // a package-level variable that something assigns is not a constant
									}
								}
								if _, isInt := vs.Values[k].(*ast.CompositeLit); !written && !isInt {
									w.consts[n.Name] = vs.Values[k]
								}
							}
						}
					}
				}
			}
		}
	}
	facts.Window = w.block(fd.Body.List, 1)
	facts.WindowUnk = w.unk
}


// ---------------------------------------------------------------------------------------------
// C17: once the downloaded logs exist (after the function value that calls DeleteClusterLogs has been
// bound), every os.Exit / log.Fatal / panic in the rest of that block must be preceded, in its own
// block, by a call of that function value (os.Exit does not run deferred calls), and a `defer` of it must
// cover the normal return.  Reported: one entry per exit (cleaned | bare) and one for the defer (defer | none).
func cleanupExits(runLit *ast.FuncLit, facts *Facts) {
	var scan func(stmts []ast.Stmt) bool
	found := false
	scan = func(stmts []ast.Stmt) bool {
		for i, st := range stmts {
			if as, ok := st.(*ast.AssignStmt); ok && len(as.Lhs) == 1 && len(as.Rhs) == 1 {
				if fl, ok := as.Rhs[0].(*ast.FuncLit); ok && len(calleesIn(fl.Body, map[string]bool{"client.DeleteClusterLogs": true, "c.DeleteClusterLogs": true, "DeleteClusterLogs": true})) > 0 || func() bool {
					fl, ok := as.Rhs[0].(*ast.FuncLit)
					if !ok {
						return false
					}
					hit := false
					ast.Inspect(fl.Body, func(x ast.Node) bool {
						if c, ok := x.(*ast.CallExpr); ok && strings.HasSuffix(callName(c), "DeleteClusterLogs") {
							hit = true
						}
						return true
					})
					return hit
				}() {
					id, ok := as.Lhs[0].(*ast.Ident)
					if !ok {
						continue
					}
					found = true
					name := id.Name
					rest := stmts[i+1:]
					deferred := false
					var walk func(block []ast.Stmt)
					isCleanupCall := func(s ast.Stmt) bool {
						es, ok := s.(*ast.ExprStmt)
						if !ok {
							return false
						}
						c, ok := es.X.(*ast.CallExpr)
						if !ok {
							return false
						}
						f, ok := c.Fun.(*ast.Ident)
						return ok && f.Name == name
					}
					walk = func(block []ast.Stmt) {
						for k, b := range block {
							switch t := b.(type) {
							case *ast.DeferStmt:
								if f, ok := t.Call.Fun.(*ast.Ident); ok && f.Name == name {
									deferred = true
								}
							case *ast.ExprStmt:
								if c, ok := t.X.(*ast.CallExpr); ok {
									nm := callName(c)
									if nm == "os.Exit" || strings.HasPrefix(nm, "log.Fatal") || nm == "panic" {
										cleaned := false
										for q := 0; q < k; q++ {
											if isCleanupCall(block[q]) {
												cleaned = true
											}
										}
										kind := "bare"
										if cleaned {
											kind = "cleaned"
										}
										facts.CleanupExits = append(facts.CleanupExits, Use{Ident: nm, Kind: kind, Pos: pos(c)})
									}
								}
							case *ast.IfStmt:
								walk(t.Body.List)
								if el, ok := t.Else.(*ast.BlockStmt); ok {
									walk(el.List)
								} else if el, ok := t.Else.(*ast.IfStmt); ok {
									walk([]ast.Stmt{el})
								}
							case *ast.ForStmt:
								walk(t.Body.List)
							case *ast.RangeStmt:
								walk(t.Body.List)
							case *ast.BlockStmt:
								walk(t.List)
							case *ast.SwitchStmt:
								for _, cc := range t.Body.List {
									walk(cc.(*ast.CaseClause).Body)
								}
							}
						}
					}
					walk(rest)
					dk := "none"
					if deferred {
						dk = "defer"
					}
					facts.CleanupExits = append(facts.CleanupExits, Use{Ident: name, Kind: dk, Pos: pos(as)})
					return true
				}
			}
			switch t := st.(type) {
			case *ast.IfStmt:
				if scan(t.Body.List) {
					return true
				}
			case *ast.BlockStmt:
				if scan(t.List) {
					return true
				}
			}
		}
		return false
	}
	scan(runLit.Body.List)
	if !found {
		facts.Missing = append(facts.Missing, "a function value that calls DeleteClusterLogs in the Run closure")
	}
}
