"""In-process fake of the Atlas Administration API (HTTP, Digest challenge), with a request log and
scriptable faults.  The real CLI is pointed at it through VERIF_ATLAS_ENDPOINT (verif overlay only)."""
import gzip, hashlib, json, re, socket, threading, time
from http.server import BaseHTTPRequestHandler, ThreadingHTTPServer


class Scenario:
    """hosts: list of host names (with or without :port) put into the standard connection string;
    payloads: per-host bytes (already gzip) ; auth: 'digest' | 'none' | 'basic' | 'reject' (401 even after auth);
    faults: dict host-index -> ('http', code) | ('reset',) | ('cut', nbytes) ; cluster_fault likewise;
    delays: dict host-index -> seconds the service waits before answering the (authenticated) log request of that host."""

    def __init__(self, hosts, payloads, auth="digest", faults=None, cluster_fault=None, srv=False, echo=False, public="pubkey", private="privkey", delays=None):
        self.delays = delays or {}
        self.hosts, self.payloads, self.auth = hosts, payloads, auth
        self.faults = faults or {}
        self.cluster_fault = cluster_fault
        self.srv, self.echo = srv, echo
        self.public, self.private = public, private


class Fake:
    def __init__(self, scenario):
        self.seq_count = {}
        self.sc = scenario
        self.log = []          # dicts: method, path, query, headers, authed
        self.lock = threading.Lock()
        fake = self

        class H(BaseHTTPRequestHandler):
            protocol_version = "HTTP/1.1"

            def log_message(self, *a):
                pass

            def do_GET(self):
                fake.handle(self)

        self.srv = ThreadingHTTPServer(("127.0.0.1", 0), H)
        self.port = self.srv.server_address[1]
        self.url = "http://127.0.0.1:%d" % self.port
        self.t = threading.Thread(target=self.srv.serve_forever, daemon=True)
        self.t.start()

    seq_count = None

    def close(self):
        self.srv.shutdown()
        self.srv.server_close()

    def digest_ok(self, h, method, uri):
        m = dict(re.findall(r'(\w+)="?([^",]+)"?', h))
        ha1 = hashlib.md5(("%s:%s:%s" % (self.sc.public, m.get("realm", ""), self.sc.private)).encode()).hexdigest()
        ha2 = hashlib.md5(("%s:%s" % (method, m.get("uri", uri))).encode()).hexdigest()
        if m.get("qop"):
            exp = hashlib.md5(("%s:%s:%s:%s:%s:%s" % (ha1, m.get("nonce", ""), m.get("nc", ""), m.get("cnonce", ""), m["qop"], ha2)).encode()).hexdigest()
        else:
            exp = hashlib.md5(("%s:%s:%s" % (ha1, m.get("nonce", ""), ha2)).encode()).hexdigest()
        return m.get("response") == exp and m.get("username") == self.sc.public

    def handle(self, rq):
        sc = self.sc
        path, _, query = rq.path.partition("?")
        auth = rq.headers.get("Authorization")
        entry = {"method": rq.command, "path": path, "query": query, "headers": {k: v for k, v in rq.headers.items()}, "authed": auth is not None, "host": rq.headers.get("Host")}
        entry["digest_valid"] = bool(auth and auth.startswith("Digest") and self.digest_ok(auth, rq.command, rq.path))
        with self.lock:
            self.log.append(entry)

        def send(code, body=b"", headers=()):
            rq.send_response(code)
            for k, v in headers:
                rq.send_header(k, v)
            rq.send_header("Content-Length", str(len(body)))
            rq.end_headers()
            rq.wfile.write(body)

        echo = (json.dumps(entry["headers"]) + " " + rq.path).encode() if sc.echo else b"denied"
        is_log = path.endswith("/logs/mongodb.gz")
        if sc.auth == "digest-cluster-only" and not auth and not is_log:
            # only the cluster description is protected; the log endpoint is open and never sends a challenge
            return send(401, echo, [("WWW-Authenticate", 'Digest realm="MMS Public API", domain="", nonce="n0nce%d", algorithm=MD5, qop="auth", stale=false' % len(self.log))])
        if sc.auth == "digest" and not auth:
            return send(401, echo, [("WWW-Authenticate", 'Digest realm="MMS Public API", domain="", nonce="n0nce%d", algorithm=MD5, qop="auth", stale=false' % len(self.log))])
        if sc.auth == "basic" and not auth:
            return send(401, echo, [("WWW-Authenticate", 'Basic realm="MMS Public API"')])
        if sc.auth == "reject":
            if not auth:
                return send(401, echo, [("WWW-Authenticate", 'Digest realm="MMS Public API", domain="", nonce="n0nce", algorithm=MD5, qop="auth", stale=false')])
            return send(401, echo)
        m = re.fullmatch(r"/api/atlas/v2/groups/([^/]+)/clusters/([^/]+)", path)
        if m:
            if sc.cluster_fault:
                return self.fault(rq, sc.cluster_fault, send, echo)
            hosts = ",".join(sc.hosts)
            body = {"connectionStrings": {"standard": "mongodb://%s/?ssl=true&authSource=admin&replicaSet=rs0" % hosts, "standardSrv": "mongodb+srv://cluster0.example.mongodb.net"}}
            if sc.srv:
                body["connectionStrings"]["standard"] = "mongodb+srv://cluster0.example.invalid"
            return send(200, json.dumps(body).encode(), [("Content-Type", "application/json")])
        m = re.fullmatch(r"/api/atlas/v2/groups/([^/]+)/clusters/([^/]+)/logs/mongodb\.gz", path)
        if m:
            host = m.group(2)
            names = [h.split(":")[0] for h in sc.hosts]
            idx = names.index(host) if host in names else -1
            entry["host_index"] = idx
            if entry.get("authed") and sc.delays.get(idx):
                time.sleep(sc.delays[idx])
            if idx in sc.faults:
                f = sc.faults[idx]
                if f[0] == "seq":
                    # a different behaviour for each successive (authenticated) request for this host; None = serve normally
                    with self.lock:
                        k = self.seq_count.get(idx, 0)
                        self.seq_count[idx] = k + 1
                    f = f[1][k] if k < len(f[1]) else None
                if f is not None:
                    return self.fault(rq, f, send, echo, sc.payloads[idx] if idx >= 0 else b"")
            if idx < 0:
                return send(404, echo)
            return send(200, sc.payloads[idx], [("Content-Type", "application/gzip")])
        return send(404, echo)

    def fault(self, rq, f, send, echo, payload=b""):
        if f[0] == "http":
            return send(f[1], echo)
        if f[0] == "reset":
            try:
                rq.connection.setsockopt(socket.SOL_SOCKET, socket.SO_LINGER, b"\x01\x00\x00\x00\x00\x00\x00\x00")
            except Exception:
                pass
            try:
                rq.connection.shutdown(socket.SHUT_RDWR)
            except Exception:
                pass
            rq.close_connection = True
            rq.connection.close()
            return
        if f[0] == "cut":
            rq.send_response(200)
            rq.send_header("Content-Type", "application/gzip")
            rq.send_header("Content-Length", str(len(payload) + 1000))
            rq.end_headers()
            rq.wfile.write(payload[: f[1]])
            rq.wfile.flush()
            try:
                rq.connection.shutdown(socket.SHUT_RDWR)
            except Exception:
                pass
            rq.close_connection = True
            rq.connection.close()
            return


def gz(data, members=1):
    if members == 1:
        return gzip.compress(data)
    parts = data.split(b"\n")
    k = max(1, len(parts) // members)
    out = b""
    chunks = [b"\n".join(parts[i:i + k]) + (b"\n" if i + k < len(parts) else b"") for i in range(0, len(parts), k)]
    for c in chunks:
        out += gzip.compress(c)
    return out
